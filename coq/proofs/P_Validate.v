(* P_Validate.v — panic-freedom (totality) of the modelled stateless validators, the refutations where the
   faithful model panics, and safety of the Must* helpers after a successful validation. *)
From Coq Require Import ZArith List Bool String Lia.
From FxV Require Import model.M_Validate.
Import ListNotations.
Open Scope string_scope.
Open Scope Z_scope.

Local Arguments Z.ltb : simpl never.
Local Arguments Z.leb : simpl never.
Local Arguments Z.eqb : simpl never.
Local Arguments Nat.eqb : simpl never.
Local Arguments coins_nil_amount : simpl never.

(* ---- tactic: follow the validator's control flow, splitting on the scrutinee that is evaluated next ---- *)
Ltac head_scrut t :=
  lazymatch t with
  | match ?x with _ => _ end => head_scrut x
  | _ => t
  end.
Ltac split_on l :=
  lazymatch l with
  | match ?x with _ => _ end => let s := head_scrut x in (is_var s; destruct s) || destruct s eqn:?
  end.
Ltac step_goal :=
  lazymatch goal with
  | |- ?l <> _ => split_on l
  | |- ?l = _ -> _ => split_on l
  end.
Ltac destr_enums :=
  repeat match goal with
         | x : intv |- _ => destruct x
         | x : decv |- _ => destruct x
         | x : bigv |- _ => destruct x
         | x : durv |- _ => destruct x
         end.
Ltac flow := destr_enums; repeat (cbn; try discriminate; try (intro; discriminate); step_goal); cbn; try discriminate; try (intro; discriminate).

(* ---------------- loops ---------------- *)
Lemma coins_rest_panic : forall cs low, coins_validate_rest low cs = VPanic -> coins_nil_amount cs = true.
Proof.
  induction cs as [|c r IH]; intros low; cbn; [discriminate|].
  destruct c as [ok id amt]; cbn.
  destruct ok; cbn; [|discriminate].
  destruct (id <? low); cbn; [discriminate|].
  destruct (id =? low); cbn; [discriminate|].
  destruct amt; cbn; try discriminate; auto.
  all: intro H; apply IH in H; unfold coins_nil_amount in *; cbn in *; rewrite ?H, ?orb_true_r; reflexivity.
Qed.

Lemma coins_validate_panic : forall cs, coins_validate cs = VPanic -> coins_nil_amount cs = true.
Proof.
  destruct cs as [|c r]; cbn; [discriminate|].
  destruct c as [ok id amt]; cbn.
  destruct ok; cbn; [|discriminate].
  destruct amt; cbn; try discriminate; auto.
  all: intro H; apply coins_rest_panic in H; unfold coins_nil_amount in *; cbn in *; rewrite ?H, ?orb_true_r; reflexivity.
Qed.

Lemma coins_rest_ok_no_nil : forall cs low, coins_validate_rest low cs = VOk -> coins_nil_amount cs = false.
Proof.
  induction cs as [|c r IH]; intros low; cbn; [reflexivity|].
  destruct c as [ok id amt]; cbn.
  destruct ok; cbn; [|discriminate].
  destruct (id <? low); cbn; [discriminate|].
  destruct (id =? low); cbn; [discriminate|].
  destruct amt; cbn; try discriminate.
  intro H; apply IH in H; exact H.
Qed.

Lemma oracles_loop_total : forall l seen, oracles_loop seen l <> VPanic.
Proof.
  induction l as [|b r IH]; intros seen; cbn; [discriminate|].
  destruct b; try discriminate. destruct (existsb (Z.eqb id) seen); cbn; [discriminate|apply IH].
Qed.
Lemma tokens_loop_total : forall c l, tokens_loop c l <> VPanic.
Proof. induction l as [|t r IH]; cbn; [discriminate|]. destruct (ext_ok c t); cbn; [apply IH|discriminate]. Qed.
Lemma tokens_loop_ok : forall c l, tokens_loop c l = VOk -> forall t, In t l -> ext_ok c t = true.
Proof.
  induction l as [|t r IH]; cbn; [intros _ ? []|].
  destruct (ext_ok c t) eqn:E; cbn; [|discriminate].
  intros H t' [<-|Hin]; auto.
Qed.
Lemma members_loop_total : forall c l, members_loop c l <> VPanic.
Proof.
  induction l as [|[x p] r IH]; cbn; [discriminate|].
  destruct (ext_ok c x); cbn; [|discriminate]. destruct (p =? 0); cbn; [discriminate|apply IH].
Qed.
Lemma aliases_loop_total : forall l seen, aliases_loop seen l <> VPanic.
Proof.
  induction l as [|a r IH]; intros seen; cbn; [discriminate|].
  destruct a; try discriminate. destruct (existsb (Z.eqb id) seen); cbn; [discriminate|apply IH].
Qed.
Lemma lp_oracles_loop_total : forall l seen, lp_oracles_loop seen l <> VPanic.
Proof.
  induction l as [|b r IH]; intros seen; cbn; [discriminate|].
  destruct b; try discriminate. destruct (existsb (Z.eqb id) seen); cbn; [discriminate|apply IH].
Qed.
Lemma lp_aliases_loop_total : forall l seen, lp_aliases_loop seen l <> VPanic.
Proof.
  induction l as [|a r IH]; intros seen; cbn; [discriminate|].
  destruct a; try discriminate. destruct (existsb (Z.eqb id) seen); cbn; [discriminate|apply IH].
Qed.
Lemma stores_loop_total : forall l, stores_loop l <> VPanic.
Proof.
  induction l as [|s r IH]; cbn; [discriminate|].
  destruct s as [sp k o v]; cbn. destruct sp; cbn; [discriminate|].
  destruct k; cbn; try discriminate; destruct o; cbn; try discriminate; destruct v; cbn; try discriminate; apply IH.
Qed.
Lemma stores_loop_ok : forall l, stores_loop l = VOk -> forall s, In s l -> all_def (must_UpdateStore s) = true.
Proof.
  induction l as [|s r IH]; cbn; [intros _ ? []|].
  destruct s as [sp k o v]; cbn. destruct sp; cbn; [discriminate|].
  destruct k; cbn; try discriminate; destruct o; cbn; try discriminate; destruct v; cbn; try discriminate;
    (intros H s' [<-|Hin]; [reflexivity | apply IH; assumption]).
Qed.

(* ---------------- Params / MsgUpdateParams / MsgBridgeCall / MsgConfirm: total since the repairs ---------------- *)
Lemma v_Params_total : forall p, v_Params p <> VPanic.
Proof.
  intros [g a b c d sl ih pc [tok tid tamt] mu orc bt]; unfold v_Params; cbn.
  destruct sl, pc, tok, tamt; flow.
Qed.

Definition default_params : xparams :=
  {| p_gravity := GOk; p_avg_block := 7000; p_batch_timeout := 43200000; p_avg_ext_block := 5000; p_signed_window := 30000;
     p_slash := DUnit; p_ibc_timeout_height := 20000; p_power_change := DUnit;
     p_threshold := {| cd_ok := true; cd_id := 0; c_amt := IPos |}; p_multiple := 10; p_oracles := 0; p_bridge_call_timeout := 604800000 |}.
Definition params_absent_slash : xparams :=
  {| p_gravity := GOk; p_avg_block := 7000; p_batch_timeout := 43200000; p_avg_ext_block := 5000; p_signed_window := 30000;
     p_slash := DNil; p_ibc_timeout_height := 20000; p_power_change := DUnit;
     p_threshold := {| cd_ok := true; cd_id := 0; c_amt := IPos |}; p_multiple := 10; p_oracles := 0; p_bridge_call_timeout := 604800000 |}.
Definition params_absent_power_change : xparams :=
  {| p_gravity := GOk; p_avg_block := 7000; p_batch_timeout := 43200000; p_avg_ext_block := 5000; p_signed_window := 30000;
     p_slash := DUnit; p_ibc_timeout_height := 20000; p_power_change := DNil;
     p_threshold := {| cd_ok := true; cd_id := 0; c_amt := IPos |}; p_multiple := 10; p_oracles := 0; p_bridge_call_timeout := 604800000 |}.

Lemma v_MsgUpdateParams_total : forall m, v_MsgUpdateParams m <> VPanic.
Proof.
  intros [a c p]; unfold v_MsgUpdateParams; cbn [up_authority up_chain up_params] in *.
  pose proof (v_Params_total p) as HT. destruct (v_Params p); [ | | congruence]; flow.
Qed.

(* MsgBridgeCall: the explicit nil tests come first, so Coins.Validate only ever sees non-nil amounts *)
Lemma coins_validate_no_nil_total : forall cs, coins_nil_amount cs = false -> coins_validate cs <> VPanic.
Proof. intros cs H E. apply coins_validate_panic in E. congruence. Qed.

Lemma v_MsgBridgeCall_total : forall m, v_MsgBridgeCall m <> VPanic.
Proof.
  intros [c s r cs t d v me]; unfold v_MsgBridgeCall; cbn.
  destruct (chain_known c); cbn; [|discriminate].
  destruct (acc_ok s); cbn; [|discriminate].
  destruct (ext_ok c t); cbn; [|discriminate].
  destruct v; cbn; try discriminate.
  destruct (coins_nil_amount cs) eqn:HN; cbn; [discriminate|].
  pose proof (coins_validate_no_nil_total cs HN) as HP.
  destruct (coins_validate cs); cbn; try discriminate; [|congruence].
  flow.
Qed.

Definition bridge_call_absent_value : m_bridge_call :=
  {| mb_chain := ChEth; mb_sender := BGood 1; mb_refund := BEmpty; mb_coins := []; mb_to := XEth; mb_data := HGood; mb_value := INil; mb_memo := HEmpty |}.
Definition bridge_call_absent_coin_amount : m_bridge_call :=
  {| mb_chain := ChEth; mb_sender := BGood 1; mb_refund := BGood 1; mb_coins := [ {| cd_ok := true; cd_id := 0; c_amt := INil |} ];
     mb_to := XEth; mb_data := HGood; mb_value := IZero; mb_memo := HEmpty |}.

Lemma confirm_total : forall m, h_MsgConfirm_entry m <> VPanic.
Proof. intros [[| |c]]; cbn; discriminate. Qed.

(* the inputs that used to panic are now rejected with the error the repair introduced *)
Lemma repaired_inputs_rejected :
  v_Params params_absent_slash = VErr "slash fraction cannot be empty" /\
  v_Params params_absent_power_change = VErr "oracle set update power change percent cannot be empty" /\
  v_MsgBridgeCall bridge_call_absent_value = VErr "value must be zero" /\
  v_MsgBridgeCall bridge_call_absent_coin_amount = VErr "nil coin amount" /\
  h_MsgConfirm_entry {| mw_confirm := AnyNil |} = VErr "empty confirm".
Proof. repeat split; vm_compute; reflexivity. Qed.

Lemma amounts_loop_total : forall l, amounts_loop l <> VPanic.
Proof. induction l as [|a r IH]; cbn; [discriminate|]. destruct a; cbn; try discriminate; apply IH. Qed.
Lemma amounts_loop_ok : forall l, amounts_loop l = VOk -> forall a, In a l -> a = IZero \/ a = IPos.
Proof.
  induction l as [|a r IH]; cbn; [intros _ ? []|].
  destruct a; cbn; try discriminate; intros H a' [<-|Hin]; auto.
Qed.

(* ---------------- every other validator is total ---------------- *)
Lemma v_claim_total : forall c, v_claim c <> VPanic.
Proof.
  destruct c as [c|c|c|c|c|c]; cbn.
  - destruct c; unfold v_MsgSendToFxClaim; flow.
  - destruct c as [ch b s r toks ams t d v me o en bh]; unfold v_MsgBridgeCallClaim; cbn.
    destruct (chain_known ch); cbn; [|discriminate].
    destruct (Nat.eqb (List.length toks) (List.length ams)); cbn; [|discriminate].
    pose proof (tokens_loop_total ch toks). destruct (tokens_loop ch toks); try congruence; try discriminate.
    pose proof (amounts_loop_total ams). destruct (amounts_loop ams); try congruence; try discriminate.
    flow.
  - destruct c; unfold v_MsgBridgeCallResultClaim; flow.
  - destruct c; unfold v_MsgSendToExternalClaim; flow.
  - destruct c; unfold v_MsgBridgeTokenClaim; flow.
  - destruct c as [ch b ms en bh]; unfold v_MsgOracleSetUpdatedClaim; cbn.
    destruct (chain_known ch); cbn; [|discriminate]. destruct (acc_ok b); cbn; [|discriminate].
    destruct ms as [|m0 mr]; cbn; [discriminate|].
    pose proof (members_loop_total ch (m0 :: mr)) as HT. cbn in HT.
    destruct m0 as [x p]. destruct (ext_ok ch x); cbn in *; [|discriminate]. destruct (p =? 0); cbn in *; [discriminate|].
    destruct (members_loop ch mr); try congruence; try discriminate. flow.
Qed.

Lemma validate_total : forall i, decodable i = true -> validate i <> VPanic.
Proof.
  destruct i; cbn [validate decodable]; intros H.
  - apply v_Params_total.
  - apply v_MsgUpdateParams_total.
  - destruct m as [c o b x [ok id amt]]; unfold v_MsgBondedOracle; destruct ok, amt; flow.
  - destruct m as [c o [ok id amt]]; unfold v_MsgAddDelegate; destruct ok, amt; flow.
  - destruct m; unfold v_MsgReDelegate; flow.
  - destruct m; unfold v_MsgEditBridger; flow.
  - destruct m; unfold v_MsgOracleOnly; flow.
  - destruct m; unfold v_MsgOracleOnly; flow.
  - destruct m; unfold v_Confirm; flow.
  - destruct m; unfold v_Confirm; flow.
  - destruct m; unfold v_Confirm; flow.
  - destruct m as [c s d [ok id amt] [ok2 id2 amt2]]; unfold v_MsgSendToExternal; destruct ok, amt, ok2, amt2; flow.
  - destruct m as [c s de mf fr bf]; unfold v_MsgRequestBatch; destruct mf, bf; flow.
  - destruct m; unfold v_MsgCancelSendToExternal; flow.
  - destruct m as [c s t [ok id amt]]; unfold v_MsgIncreaseBridgeFee; destruct ok, amt; flow.
  - destruct m as [a c l]; unfold v_MsgUpdateChainOracles; cbn.
    destruct (acc_ok a); cbn; [|discriminate]. destruct (chain_known c); cbn; [|discriminate].
    destruct l; cbn; [discriminate|]. apply (oracles_loop_total (b :: l) []).
  - destruct m as [c [| |cl]]; unfold v_MsgClaim; cbn; destruct (chain_known c); cbn; try discriminate. apply v_claim_total.
  - apply v_claim_total.
  - apply confirm_total.
  - apply v_MsgBridgeCall_total.
  - destruct m as [s r d a]; unfold v_MsgConvertCoin; destruct a; flow.
  - destruct m as [s r c a]; unfold v_MsgConvertERC20; destruct a; flow.
  - destruct m as [s r [ok id amt]]; unfold v_MsgConvertDenom; destruct ok, amt; flow.
  - destruct m; unfold v_Erc20MsgUpdateParams; flow.
  - destruct m; unfold v_MsgRegisterCoin; flow.
  - destruct m as [a x l]; unfold v_MsgRegisterERC20; cbn.
    destruct (acc_ok a); cbn; [|discriminate]. destruct (eth_ok x); cbn; [|discriminate]. apply aliases_loop_total.
  - destruct m; unfold v_MsgToggleTokenConversion; flow.
  - destruct m; unfold v_MsgUpdateDenomAlias; flow.
  - destruct m; unfold v_MsgMigrateAccount; flow.
  - destruct m as [a l]; unfold v_MsgUpdateStore; cbn.
    destruct (acc_ok a); cbn; [|discriminate]. destruct l; cbn; [discriminate|]. apply (stores_loop_total (s :: l)).
  - destruct m as [a p q]; unfold v_MsgUpdateSwitchParams; cbn.
    destruct (acc_ok a); cbn; [|discriminate]. destruct (has_dup [] p); cbn; [discriminate|]. destruct (has_dup [] q); discriminate.
  - destruct p as [d q r]; unfold v_CustomParams; destruct d, q, r; cbn; discriminate.
  - destruct m; unfold v_MsgCallContract; flow.
  - destruct a; unfold v_staking_args; flow.
  - destruct a; unfold v_crosschain_args; cbn in H; flow.
    all: try (destruct value; cbn in *; discriminate).
  - unfold validate_external_addr. destruct c; try discriminate; destruct (ext_ok _ x); discriminate.
  - destruct m as [t v d]; unfold v_IbcCallEvmPacket; cbn in H; destruct v; try discriminate; flow.
  - unfold v_PubKeyDecorator. cbn. destruct (nsig <? npub) eqn:E; cbn; [discriminate|].
    apply Z.ltb_ge in E. apply Z.leb_le in E. rewrite E. discriminate.
  - unfold v_MultisigGas. cbn.
    destruct (size =? nkeys) eqn:E1; cbn; [|discriminate]. destruct (ntrue =? nsigs) eqn:E2; cbn; [|discriminate].
    apply Z.eqb_eq in E1, E2. subst. rewrite !Z.leb_refl. cbn. discriminate.
  - destruct m as [c a l]; unfold v_UpdateChainOraclesProposal; cbn.
    destruct (chain_known c); cbn; [|discriminate]. destruct a; cbn; [|discriminate].
    destruct l; cbn; [discriminate|]. apply (lp_oracles_loop_total (b :: l) []).
  - destruct m; unfold v_RegisterCoinProposal; flow.
  - destruct m as [x l a]; unfold v_RegisterERC20Proposal; cbn.
    destruct (eth_ok x); cbn; [|discriminate].
    pose proof (lp_aliases_loop_total l []) as HT. destruct (lp_aliases_loop [] l); try congruence; try discriminate. flow.
  - destruct m; unfold v_ToggleTokenConversionProposal; flow.
  - destruct m; unfold v_UpdateDenomAliasProposal; flow.
Qed.

(* two more inputs make the transcribed Go functions panic, but no decoder can produce them: go-ethereum's abi package
   always allocates the *big.Int of a uint256, and the IBC memo is JSON, where an absent "value" becomes a fresh zero Int *)
Lemma decoder_excluded_classes :
  validate (I_CrosschainArgs (CA_BridgeCall true BgNil 0 0 false)) = VPanic /\
  validate (I_IbcCallEvmPacket {| ic_to := XEth; ic_value := INil; ic_data := HGood |}) = VPanic.
Proof. split; vm_compute; reflexivity. Qed.

(* arguments decoded by go-ethereum's abi package never contain a nil *big.Int: precompile argument validation is total on them *)
Lemma precompile_args_total :
  (forall a, v_staking_args a <> VPanic) /\ (forall a, cargs_from_abi a = true -> v_crosschain_args a <> VPanic).
Proof.
  split.
  - intro a. apply (validate_total (I_StakingArgs a)). reflexivity.
  - intros a H. apply (validate_total (I_CrosschainArgs a)). exact H.
Qed.

(* ---------------- Must* helpers after validation ---------------- *)
Lemma must_safe_bridge_call : forall m, v_MsgBridgeCall m = VOk -> all_def (must_MsgBridgeCall m) = true.
Proof.
  intros [c s r cs t d v me]; unfold v_MsgBridgeCall, must_MsgBridgeCall; cbn.
  destruct c; cbn; try discriminate;
  destruct s; cbn; try discriminate;
  destruct t; cbn; try discriminate;
  destruct v; cbn; try discriminate;
  (destruct (coins_nil_amount cs); cbn; [discriminate|]);
  destruct (coins_validate cs); cbn; try discriminate;
  destruct cs; cbn; destruct r; cbn; try discriminate;
  destruct d; cbn; try discriminate; destruct me; cbn; try discriminate; reflexivity.
Qed.

Lemma must_safe_claim_addr : forall m, v_MsgBridgeCallClaim m = VOk -> all_def (must_BridgeCallClaim_addr m) = true.
Proof.
  intros [ch b s r toks ams t d v me o en bh]; unfold v_MsgBridgeCallClaim, must_BridgeCallClaim_addr; cbn.
  destruct ch; cbn; try discriminate;
  (destruct (Nat.eqb (List.length toks) (List.length ams)); cbn; [|discriminate]);
  (destruct (tokens_loop _ toks); cbn; try discriminate);
  (destruct (amounts_loop ams); cbn; try discriminate);
  destruct b; cbn; try discriminate; destruct s; cbn; try discriminate; destruct t; cbn; try discriminate;
  destruct r; cbn; try discriminate; destruct v; cbn; try discriminate; destruct d; cbn; try discriminate;
  (destruct (en =? 0); cbn; [discriminate|]); (destruct (bh =? 0); cbn; [discriminate|]);
  destruct o; cbn; try discriminate; destruct me; cbn; try discriminate; reflexivity.
Qed.

Definition claim_negative_amount : c_bridge_call :=
  {| bc_chain := ChEth; bc_bridger := BGood 1; bc_sender := XEth; bc_refund := XEth; bc_tokens := [XEth]; bc_amounts := [INeg];
     bc_to := XEth; bc_data := HEmpty; bc_value := IZero; bc_memo := HEmpty; bc_tx_origin := XEth; bc_event_nonce := 1; bc_block_height := 1 |}.
Definition claim_absent_amount : c_bridge_call :=
  {| bc_chain := ChEth; bc_bridger := BGood 1; bc_sender := XEth; bc_refund := XEth; bc_tokens := [XEth]; bc_amounts := [INil];
     bc_to := XEth; bc_data := HEmpty; bc_value := IZero; bc_memo := HEmpty; bc_tx_origin := XEth; bc_event_nonce := 1; bc_block_height := 1 |}.

(* since edafc05: a validated claim carries only non-nil, non-negative amounts, so sdk.NewCoin in the handler is defined *)
Lemma must_safe_claim_amounts : forall m, v_MsgBridgeCallClaim m = VOk -> all_def (must_BridgeCallClaim_amounts m) = true.
Proof.
  intros [ch b s r toks ams t d v me o en bh]; unfold v_MsgBridgeCallClaim, must_BridgeCallClaim_amounts; cbn.
  destruct (chain_known ch); cbn; [|discriminate].
  destruct (Nat.eqb (List.length toks) (List.length ams)); cbn; [|discriminate].
  destruct (tokens_loop ch toks); cbn; try discriminate.
  pose proof (amounts_loop_ok ams) as HA.
  destruct (amounts_loop ams); cbn; try discriminate.
  intros _. unfold all_def. rewrite forallb_forall. intros x Hx.
  apply in_map_iff in Hx as [a [<- Ha]]. destruct (HA eq_refl a Ha) as [-> | ->]; reflexivity.
Qed.
Lemma claim_bad_amounts_rejected :
  v_MsgBridgeCallClaim claim_negative_amount = VErr "invalid amount" /\ v_MsgBridgeCallClaim claim_absent_amount = VErr "invalid amount".
Proof. split; vm_compute; reflexivity. Qed.

Lemma must_safe_claimer : forall c, v_claim c = VOk -> must_acc (claimer_of c) = Val tt.
Proof.
  destruct c as [c|c|c|c|c|c]; cbn.
  - destruct c as [ch b]; unfold v_MsgSendToFxClaim; cbn; destruct (chain_known ch); cbn; try discriminate; destruct b; cbn; try discriminate; reflexivity.
  - destruct c as [ch b s r toks ams]; unfold v_MsgBridgeCallClaim; cbn; destruct (chain_known ch); cbn; try discriminate.
    destruct (Nat.eqb (List.length toks) (List.length ams)); cbn; [|discriminate].
    destruct (tokens_loop ch toks); cbn; try discriminate. destruct (amounts_loop ams); cbn; try discriminate.
    destruct b; cbn; try discriminate; reflexivity.
  - destruct c as [ch b]; unfold v_MsgBridgeCallResultClaim; cbn; destruct (chain_known ch); cbn; try discriminate; destruct b; cbn; try discriminate; reflexivity.
  - destruct c as [ch b]; unfold v_MsgSendToExternalClaim; cbn; destruct (chain_known ch); cbn; try discriminate; destruct b; cbn; try discriminate; reflexivity.
  - destruct c as [ch b]; unfold v_MsgBridgeTokenClaim; cbn; destruct (chain_known ch); cbn; try discriminate; destruct b; cbn; try discriminate; reflexivity.
  - destruct c as [ch b]; unfold v_MsgOracleSetUpdatedClaim; cbn; destruct (chain_known ch); cbn; try discriminate; destruct b; cbn; try discriminate; reflexivity.
Qed.

Lemma must_safe_ibc_call : forall m, v_IbcCallEvmPacket m = VOk -> all_def (must_IbcCallEvmPacket m) = true.
Proof. intros [t v d]; unfold v_IbcCallEvmPacket; destruct t, v, d; cbn; try discriminate; reflexivity. Qed.

(* keeper Claim: msg.Claim.GetCachedValue().(ExternalClaim) succeeds after ValidateBasic *)
Lemma must_safe_msg_claim : forall m, v_MsgClaim m = VOk -> exists c, mc_claim m = AnyIs c /\ v_claim c = VOk.
Proof.
  intros [ch [| |c]]; unfold v_MsgClaim; cbn; destruct (chain_known ch); cbn; try discriminate.
  intro H; exists c; auto.
Qed.

Lemma must_safe_update_store : forall m, v_MsgUpdateStore m = VOk -> forall s, In s (us_stores m) -> all_def (must_UpdateStore s) = true.
Proof.
  intros [a l]; unfold v_MsgUpdateStore; cbn. destruct (acc_ok a); cbn; [|discriminate].
  destruct l; cbn; [discriminate|]. intro H. apply (stores_loop_ok (s :: l)). exact H.
Qed.

(* a validated MsgBridgeCall carries no nil number at all *)
Lemma bridge_call_ok_no_nil : forall m, v_MsgBridgeCall m = VOk -> mb_value m = IZero /\ coins_nil_amount (mb_coins m) = false.
Proof.
  intros [c s r cs t d v me]; unfold v_MsgBridgeCall; cbn.
  destruct (chain_known c); cbn; [|discriminate]. destruct (acc_ok s); cbn; [|discriminate]. destruct (ext_ok c t); cbn; [|discriminate].
  destruct v; cbn; try discriminate.
  destruct (coins_nil_amount cs); cbn; [discriminate|]. intros _; auto.
Qed.

(* ---------------- non-vacuity ---------------- *)
Definition ok_bridge_call : m_bridge_call :=
  {| mb_chain := ChTron; mb_sender := BGood 1; mb_refund := BGood 2; mb_coins := [ {| cd_ok := true; cd_id := 0; c_amt := IPos |}; {| cd_ok := true; cd_id := 3; c_amt := IPos |} ];
     mb_to := XTron; mb_data := HGood; mb_value := IZero; mb_memo := HGood |}.
Definition ok_claim : c_bridge_call :=
  {| bc_chain := ChTron; bc_bridger := BGood 1; bc_sender := XTron; bc_refund := XTron; bc_tokens := [XTron; XTron]; bc_amounts := [IPos; IZero];
     bc_to := XTron; bc_data := HGood; bc_value := IPos; bc_memo := HEmpty; bc_tx_origin := XTron; bc_event_nonce := 7; bc_block_height := 9 |}.
Lemma validate_nonvacuous :
  v_Params default_params = VOk /\
  v_MsgUpdateParams {| up_authority := BGood 1; up_chain := ChEth; up_params := default_params |} = VOk /\
  v_MsgBridgeCall ok_bridge_call = VOk /\ all_def (must_MsgBridgeCall ok_bridge_call) = true /\
  v_MsgClaim {| mc_chain := ChTron; mc_claim := AnyIs (ClBridgeCall ok_claim) |} = VOk /\
  all_def (must_BridgeCallClaim_addr ok_claim) = true /\ all_def (must_BridgeCallClaim_amounts ok_claim) = true /\
  h_MsgConfirm_entry {| mw_confirm := AnyOther |} = VErr "invalid claim" /\
  h_MsgConfirm_entry {| mw_confirm := AnyNil |} = VErr "empty confirm" /\
  v_crosschain_args (CA_BridgeCall true BgZero 2 2 false) = VOk /\
  v_MsgSendToExternal {| se_chain := ChEth; se_sender := BGood 1; se_dest := XTron; se_amount := {| cd_ok := true; cd_id := 0; c_amt := IPos |}; se_fee := {| cd_ok := true; cd_id := 0; c_amt := IPos |} |} = VErr "invalid dest address".
Proof. repeat split; vm_compute; reflexivity. Qed.
