(* P_ValidateGen.v — finite obligations tying the hand-written model to what harness/gen_c20 reads from the
   current tree (coq/gen/Gen_MsgFields.v).  Each is decided by computation; when the tree gains a message type,
   a field, a panic site or a precompile method that the model does not know, the corresponding lemma fails. *)
From Coq Require Import List String Bool.
From FxV Require Import gen.Gen_MsgFields model.M_Validate model.M_ValidateFields.
Import ListNotations.
Open Scope string_scope.

Definition mem (s : string) (l : list string) : bool := existsb (String.eqb s) l.
Fixpoint lookup {A} (k : string) (l : list (string * A)) : option A :=
  match l with [] => None | (k', v) :: r => if String.eqb k k' then Some v else lookup k r end.
Fixpoint list_eqb (a b : list string) : bool :=
  match a, b with
  | [], [] => true
  | x :: r, y :: s => String.eqb x y && list_eqb r s
  | _, _ => false
  end.
Definition field_sig (f : gen_field) : string := gf_name f ++ ":" ++ gf_type f ++ ":" ++ gf_nil f.
Definition triple_eqb (a b : string * string * string) : bool :=
  let '(a1, a2, a3) := a in let '(b1, b2, b3) := b in String.eqb a1 b1 && String.eqb a2 b2 && String.eqb a3 b3.

(* 1. every generated type is modelled, or explicitly out of scope, or an explicitly listed validator-less message shell;
      a type that HAS a validator can never be passed off as a validator-less shell *)
Definition type_covered (t : gen_type) : bool :=
  mem (gt_name t) modelled_types
  || mem (gt_name t) out_of_scope_types
  || (mem (gt_name t) unvalidated_msgs && String.eqb (gt_validator t) "").
Definition uncovered_types : list string := map gt_name (filter (fun t => negb (type_covered t)) gen_types).
Lemma every_type_covered : uncovered_types = [].
Proof. vm_compute. reflexivity. Qed.

(* 2. every modelled type exists in the tree with exactly the fields (name, Go type, nil-ability) the model was written against *)
Definition fields_match (t : gen_type) : bool :=
  if mem (gt_name t) modelled_types
  then match lookup (gt_name t) model_fields with
       | Some fs => list_eqb fs (map field_sig (gt_fields t))
       | None => false
       end
  else true.
Definition changed_types : list string := map gt_name (filter (fun t => negb (fields_match t)) gen_types).
Lemma fields_as_modelled : changed_types = [].
Proof. vm_compute. reflexivity. Qed.
Definition vanished_types : list string := filter (fun n => negb (existsb (fun t => String.eqb (gt_name t) n) gen_types)) modelled_types.
Lemma modelled_types_exist : vanished_types = [].
Proof. vm_compute. reflexivity. Qed.

(* 3. every panic( / Must*( site of the accessor-style methods is one the model knows (and has a disposition for) *)
Definition unnamed_sites : list (string * string * string) :=
  filter (fun s => negb (existsb (triple_eqb s) known_panic_sites)) gen_panic_sites.
Lemma panic_sites_named : unnamed_sites = [].
Proof. vm_compute. reflexivity. Qed.

(* 4. every ABI method bound by a precompile method struct decodes into a modelled argument struct *)
Definition method_covered (m : string * string) : bool :=
  match filter (fun e => String.eqb (fst (fst e)) (fst m) && String.eqb (snd (fst e)) (snd m)) precompile_arg_struct with
  | e :: _ => mem (snd e) modelled_types
  | [] => false
  end.
Definition unbound_methods : list (string * string) := filter (fun m => negb (method_covered m)) gen_precompile_methods.
Lemma precompile_methods_covered : unbound_methods = [].
Proof. vm_compute. reflexivity. Qed.

(* 5. the nil-able number fields of the modelled message types: each one is represented in the model by an
      intv / decv / coinv / list field that has a nil value (so "absent" is an input of the theorems) *)
Definition nilable_number_fields : list string :=
  flat_map (fun t => if mem (gt_name t) modelled_types
                     then map (fun f => gt_name t ++ "." ++ gf_name f)
                              (filter (fun f => mem (gf_nil f) ["int"; "dec"; "coin"; "coins"; "ints"; "any"]) (gt_fields t))
                     else []) gen_types.
Definition modelled_nilable_fields : list string :=
  [ "crosschain.MsgAddDelegate.Amount"; "crosschain.MsgAddOracleDeposit.Amount"; "crosschain.MsgBondedOracle.DelegateAmount";
    "crosschain.MsgBridgeCall.Coins"; "crosschain.MsgBridgeCall.Value";
    "crosschain.MsgBridgeCallClaim.Amounts"; "crosschain.MsgBridgeCallClaim.Value";
    "crosschain.MsgClaim.Claim"; "crosschain.MsgConfirm.Confirm"; "crosschain.MsgIncreaseBridgeFee.AddBridgeFee";
    "crosschain.MsgRequestBatch.MinimumFee"; "crosschain.MsgRequestBatch.BaseFee";
    "crosschain.MsgSendToExternal.Amount"; "crosschain.MsgSendToExternal.BridgeFee"; "crosschain.MsgSendToFxClaim.Amount";
    "crosschain.MsgSetOrchestratorAddress.Deposit";
    "crosschain.Params.SlashFraction"; "crosschain.Params.OracleSetUpdatePowerChangePercent"; "crosschain.Params.DelegateThreshold";
    "erc20.MsgConvertCoin.Coin"; "erc20.MsgConvertDenom.Coin"; "erc20.MsgConvertERC20.Amount";
    "middleware.IbcCallEvmPacket.Value" ].
Definition unmodelled_nilable : list string := filter (fun f => negb (mem f modelled_nilable_fields)) nilable_number_fields.
Lemma nilable_fields_modelled : unmodelled_nilable = [].
Proof. vm_compute. reflexivity. Qed.

(* 6. signature helpers: every constant index read from the attacker's signature lies below the length the function's own
      guard guarantees (EthAddressFromSignature / TronAddressFromSignature read signature[64] behind `len(signature) < 65`) *)
Definition unguarded_indexes : list (string * string * string * nat * nat) :=
  filter (fun e => let '(_, _, _, idx, minlen) := e in negb (Nat.ltb idx minlen)) gen_index_guards.
Lemma signature_indexes_guarded : unguarded_indexes = [] /\ gen_index_guards <> [].
Proof. split; [vm_compute; reflexivity | discriminate]. Qed.

(* 7. handler code: every arithmetic / conversion sink on a message-derived value is one the model file knows and has a
      disposition for; every paired index `B[i]` under `range A` is a pair whose equal length the modelled validator checks *)
Definition quad_eqb (a b : string * string * string * string) : bool :=
  let '(a1, a2, a3, a4) := a in let '(b1, b2, b3, b4) := b in String.eqb a1 b1 && String.eqb a2 b2 && String.eqb a3 b3 && String.eqb a4 b4.
Definition unnamed_arith_sites : list (string * string * string * string) :=
  filter (fun s => negb (existsb (fun k => quad_eqb s (fst k)) known_arith_sites)) gen_arith_sites.
Definition unchecked_pairs : list (string * string * string) :=
  filter (fun s => negb (existsb (triple_eqb s) length_checked_pairs)) gen_paired_indexes.
Lemma handler_sinks_named : unnamed_arith_sites = [] /\ unchecked_pairs = [].
Proof. split; vm_compute; reflexivity. Qed.

(* the model validators do contain the two length checks the pairs rely on *)
Lemma paired_lengths_checked :
  (forall m, v_MsgBridgeCallClaim m = VOk -> List.length (bc_tokens m) = List.length (bc_amounts m)) /\
  (forall mn v nt na rz, v_crosschain_args (CA_BridgeCall mn v nt na rz) = VOk -> nt = na).
Proof.
  split.
  - intros [ch b s r toks ams t d v me o en bh]; unfold v_MsgBridgeCallClaim; cbn.
    destruct (chain_known ch); cbn; [|discriminate].
    destruct (Nat.eqb (List.length toks) (List.length ams)) eqn:E; cbn; [|discriminate].
    intros _. apply PeanoNat.Nat.eqb_eq. exact E.
  - intros mn v nt na rz; unfold v_crosschain_args.
    destruct mn; cbn; [|discriminate]. destruct v; cbn; try discriminate.
    destruct (ZArith.BinInt.Z.eqb nt na) eqn:E; cbn; [|discriminate]. intros _. apply ZArith.BinInt.Z.eqb_eq. exact E.
Qed.
