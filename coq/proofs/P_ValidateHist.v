(* P_ValidateHist.v — HISTORICAL refutations: the pre-fix variants of model/M_ValidateHist.v panic on exactly the
   inputs recorded as findings C20-1, C20-2, C20-3, C20-6 (repaired in /repo by 51457a3, cac8fd3, 02a5a38, edafc05),
   and the CURRENT validators reject the same inputs with an error. *)
From Coq Require Import ZArith List Bool String.
From FxV Require Import model.M_Validate model.M_ValidateHist proofs.P_Validate.
Import ListNotations.
Open Scope string_scope.
Open Scope Z_scope.

Lemma prefix_params_refuted :
  (v_Params_pre params_absent_slash = VPanic /\ v_Params_pre params_absent_power_change = VPanic) /\
  (v_Params params_absent_slash <> VPanic /\ v_Params params_absent_power_change <> VPanic).
Proof. repeat split; try (vm_compute; reflexivity); apply v_Params_total. Qed.

Lemma prefix_bridge_call_refuted :
  (v_MsgBridgeCall_pre bridge_call_absent_value = VPanic /\ v_MsgBridgeCall_pre bridge_call_absent_coin_amount = VPanic) /\
  (v_MsgBridgeCall bridge_call_absent_value <> VPanic /\ v_MsgBridgeCall bridge_call_absent_coin_amount <> VPanic).
Proof. repeat split; try (vm_compute; reflexivity); apply v_MsgBridgeCall_total. Qed.

Lemma prefix_confirm_refuted :
  h_MsgConfirm_entry_pre {| mw_confirm := AnyNil |} = VPanic /\ h_MsgConfirm_entry {| mw_confirm := AnyNil |} = VErr "empty confirm".
Proof. split; reflexivity. Qed.

Lemma prefix_claim_amounts_refuted :
  (v_MsgBridgeCallClaim_pre claim_negative_amount = VOk /\ all_def (must_BridgeCallClaim_amounts claim_negative_amount) = false) /\
  (v_MsgBridgeCallClaim_pre claim_absent_amount = VOk /\ all_def (must_BridgeCallClaim_amounts claim_absent_amount) = false) /\
  (v_MsgBridgeCallClaim claim_negative_amount = VErr "invalid amount" /\ v_MsgBridgeCallClaim claim_absent_amount = VErr "invalid amount").
Proof. repeat split; vm_compute; reflexivity. Qed.

Lemma prefix_ante_refuted :
  (v_PubKeyDecorator_pre 2 1 = VPanic /\ v_MultisigGas_pre 1 3 1 0 = VPanic) /\
  (v_PubKeyDecorator 2 1 = VErr "invalid number of signer infos" /\ v_MultisigGas 1 3 1 0 = VErr "multisig bit array does not match").
Proof. repeat split; vm_compute; reflexivity. Qed.
