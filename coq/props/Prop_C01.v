(* Property C01: bridge events take effect exactly once, strictly in event-nonce order.
   Statements over the executable model M_Attest (transcription of x/crosschain/keeper:
   Claim -> checkBridgerIsOracle -> Attest -> TryAttestation, ExecuteClaim, and the oracle
   membership operations), for every configuration and every operation list. *)
From Coq Require Import ZArith List Bool.
From FxV Require Import model.M_Attest proofs.P_Attest.
Import ListNotations.
Open Scope Z_scope.

(* every operation leaves the last observed event nonce unchanged or advances it by exactly one *)
Theorem C01_lastobs_step : forall c s x,
  last_obs (fst (step c s x)) = last_obs s \/ last_obs (fst (step c s x)) = last_obs s + 1.
Proof. exact lastobs_step. Qed.
Print Assumptions C01_lastobs_step.

(* it advances only through an accepted vote on exactly lastObserved+1, which appends that claim to the applied log *)
Theorem C01_advance_only_by_next_vote : forall c s x,
  last_obs (fst (step c s x)) <> last_obs s ->
  exists b cl park ms, x = Vote b (last_obs s + 1) cl park ms /\ snd (step c s x) = Ok /\
    applied (fst (step c s x)) = applied s ++ [(last_obs s + 1, cl)].
Proof. exact advance_only_by_next_vote. Qed.
Print Assumptions C01_advance_only_by_next_vote.

(* after any operation list the events that took effect are the nonces 1,2,...,lastObserved, in that order:
   no gap, no repetition *)
Theorem C01_applied_log : forall c h,
  let s := run c init h in
  map fst (applied s) = seqZ (Z.to_nat (last_obs s)) /\ 0 <= last_obs s /\
  length (applied s) = Z.to_nat (last_obs s).
Proof. exact applied_log. Qed.
Print Assumptions C01_applied_log.

(* competing claims: at most one attestation per nonce is ever marked observed *)
Theorem C01_one_winner : forall c h n c1 c2 a1 a2,
  let s := run c init h in
  aget keq (n, c1) (atts s) = Some a1 -> a_obs a1 = true ->
  aget keq (n, c2) (atts s) = Some a2 -> a_obs a2 = true -> c1 = c2.
Proof. exact one_observed_per_nonce. Qed.
Print Assumptions C01_one_winner.

(* an attestation becomes observed only in the step that moves lastObserved onto its nonce *)
Theorem C01_observed_only_next : forall c s x n cl a',
  aget keq (n, cl) (atts (fst (step c s x))) = Some a' -> a_obs a' = true ->
  (exists a, aget keq (n, cl) (atts s) = Some a /\ a_obs a = true) \/
  (n = last_obs s + 1 /\ last_obs (fst (step c s x)) = n).
Proof. exact observed_only_next. Qed.
Print Assumptions C01_observed_only_next.
