(* Property C01: bridge events take effect exactly once, strictly in event-nonce order.
   Statements over the executable model M_Attest (transcription of x/crosschain/keeper:
   Claim -> checkBridgerIsOracle -> Attest -> TryAttestation, ExecuteClaim, and the oracle
   membership operations), for every configuration and every operation list. *)
From Coq Require Import String.
From Coq Require Import ZArith List Bool.
From FxV Require Import gen.Gen_Attest model.M_Attest proofs.P_Attest proofs.P_AttestGen proofs.P_AttestTree.
From FxV Require Import gen.Gen_AttestFacts.
Import ListNotations.
Open Scope list_scope.
Open Scope Z_scope.

(* every operation leaves the last observed event nonce unchanged or advances it by exactly one *)
Theorem C01_lastobs_step : forall c s x,
  last_obs (fst (step c s x)) = last_obs s \/ last_obs (fst (step c s x)) = last_obs s + 1.
Proof. exact lastobs_step. Qed.
Print Assumptions C01_lastobs_step.

(* it advances only through an accepted vote on exactly lastObserved+1, which appends that claim to the applied log *)
Theorem C01_advance_only_by_next_vote : forall c s x,
  last_obs (fst (step c s x)) <> last_obs s ->
  exists b cl park ms, x = Vote b (last_obs s + 1) cl park ms /\ snd (step c s x) = Ok /\
    applied (fst (step c s x)) = applied s ++ [(last_obs s + 1, cl)].
Proof. exact advance_only_by_next_vote. Qed.
Print Assumptions C01_advance_only_by_next_vote.

(* after any operation list the events that took effect are the nonces 1,2,...,lastObserved, in that order:
   no gap, no repetition *)
Theorem C01_applied_log : forall c h,
  let s := run c init h in
  map fst (applied s) = seqZ (Z.to_nat (last_obs s)) /\ 0 <= last_obs s /\
  length (applied s) = Z.to_nat (last_obs s).
Proof. exact applied_log. Qed.
Print Assumptions C01_applied_log.

(* competing claims: at most one attestation per nonce is ever marked observed *)
Theorem C01_one_winner : forall c h n c1 c2 a1 a2,
  let s := run c init h in
  aget keq (n, c1) (atts s) = Some a1 -> a_obs a1 = true ->
  aget keq (n, c2) (atts s) = Some a2 -> a_obs a2 = true -> c1 = c2.
Proof. exact one_observed_per_nonce. Qed.
Print Assumptions C01_one_winner.

(* an attestation becomes observed only in the step that moves lastObserved onto its nonce *)
Theorem C01_observed_only_next : forall c s x n cl a',
  aget keq (n, cl) (atts (fst (step c s x))) = Some a' -> a_obs a' = true ->
  (exists a, aget keq (n, cl) (atts s) = Some a /\ a_obs a = true) \/
  (n = last_obs s + 1 /\ last_obs (fst (step c s x)) = n).
Proof. exact observed_only_next. Qed.
Print Assumptions C01_observed_only_next.

(* ---- ON THIS TREE: gen/Gen_AttestFacts.v is written on every run by `harness/c01 -facts`, which executes the probes on
        the real keeper of the tree under test.  The repair of C01-1 is pinned: if it is reverted the generated constant
        flips and C01_tree_cfg_is_repaired (with everything instantiated at gen_tree_cfg) no longer checks ---- *)
Theorem C01_tree_cfg_is_repaired :
  c_unbond_del gen_tree_cfg = false /\ c_cursor_clamp gen_tree_cfg = false /\ 0 <= c_threshold gen_tree_cfg.
Proof. exact tree_cfg_is_repaired. Qed.
Print Assumptions C01_tree_cfg_is_repaired.

(* no hypothesis about the code: every history of this tree, every oracle *)
Theorem C01_oracle_no_second_vote_on_tree : forall h w,
  incr (nonces_of w (vlog (run gen_tree_cfg init h))) /\ NoDup (nonces_of w (vlog (run gen_tree_cfg init h))).
Proof. exact no_second_vote_on_tree. Qed.
Print Assumptions C01_oracle_no_second_vote_on_tree.

Theorem C01_oracle_contiguous_on_tree : forall h w,
  guarded gen_tree_cfg no_restart init h ->
  consec (nonces_of w (vlog (run gen_tree_cfg init h))) /\ NoDup (nonces_of w (vlog (run gen_tree_cfg init h))).
Proof. exact contiguous_on_tree. Qed.
Print Assumptions C01_oracle_contiguous_on_tree.

(* the history of the former finding (corpus/C01/rebond-double-count.json) on this tree's configuration: refused *)
Theorem C01_rebond_refused_on_tree :
  let s := run gen_tree_cfg init h_rebond in
  last_obs s = 0 /\ nonces_of 0 (vlog s) = [1] /\
  exists a, aget keq (1, 1) (atts s) = Some a /\ a_obs a = false /\ a_votes a = [0; 1].
Proof. exact rebond_refused_on_tree. Qed.
Print Assumptions C01_rebond_refused_on_tree.

(* ---- GENERAL (any configuration whose code keeps the cursor on unbond; since /repo 9161b71: UnbondedOracle keeps the per-oracle cursor, no cursor lift;
        both facts are probed on the real keeper on every run and arrive as c_unbond_del / c_cursor_clamp) ---- *)

(* an oracle never has two accepted votes for one nonce — every history, every oracle, incl. unbond + re-bond and
   genesis export + import *)
Theorem C01_oracle_no_second_vote : forall c h w,
  c_unbond_del c = false ->
  incr (nonces_of w (vlog (run c init h))) /\ NoDup (nonces_of w (vlog (run c init h))).
Proof. exact votes_increasing_fixed. Qed.
Print Assumptions C01_oracle_no_second_vote.

(* ... nor skips one: the nonces of its accepted votes are consecutive (a returning oracle continues after its last
   vote, like one that was offline) in every history that does not restart the chain from an exported genesis.
   At such a restart InitGenesis rebuilds the cursors from the stored votes, so an oracle lagging behind
   lastObserved-1 restarts there like a newly registered one (by design, comment in genesis.go): read as a new start,
   not as a skipped nonce *)
Theorem C01_oracle_contiguous : forall c h w,
  c_unbond_del c = false -> c_cursor_clamp c = false ->
  guarded c no_restart init h ->
  consec (nonces_of w (vlog (run c init h))) /\ NoDup (nonces_of w (vlog (run c init h))).
Proof. exact votes_contiguous_fixed. Qed.
Print Assumptions C01_oracle_contiguous.

(* every accepted vote is for exactly the oracle's cursor + 1 and is logged for that oracle *)
Theorem C01_vote_is_next : forall c s b n cl park ms,
  snd (vote c s b n cl park ms) = Ok ->
  exists o rec, aget Z.eqb b (by_bridger s) = Some o /\ aget Z.eqb o (oracles s) = Some rec /\
                o_online rec = true /\ n = cursor c s o + 1 /\
                In (o, n) (vlog (fst (vote c s b n cl park ms))).
Proof. exact vote_accept_online. Qed.
Print Assumptions C01_vote_is_next.

(* the history of the former finding C01-1 (corpus/C01/rebond-double-count.json) on this code: second vote refused *)
Theorem C01_revote_refused : 
  let s := run cfg_fixed init h_rebond in
  last_obs s = 0 /\ nonces_of 0 (vlog s) = [1] /\
  exists a, aget keq (1, 1) (atts s) = Some a /\ a_obs a = false /\ a_votes a = [0; 1].
Proof. exact revote_refused_when_fixed. Qed.
Print Assumptions C01_revote_refused.

(* ---- PRE-FIX DOCUMENTATION (variant c_unbond_del = true: UnbondedOracle deleted the cursor; finding C01-1, fixed) ---- *)

(* any variant: strictly increasing as long as w's cursor is never deleted *)
Theorem C01_prefix_no_second_vote_guarded : forall c h w,
  guarded c (safe_cursor c w) init h ->
  incr (nonces_of w (vlog (run c init h))) /\ NoDup (nonces_of w (vlog (run c init h))).
Proof. exact votes_increasing. Qed.
Print Assumptions C01_prefix_no_second_vote_guarded.

Theorem C01_prefix_contiguous_guarded : forall c h w,
  c_cursor_clamp c = false ->
  guarded c (safe_contig c w) init h ->
  consec (nonces_of w (vlog (run c init h))) /\ NoDup (nonces_of w (vlog (run c init h))).
Proof. exact votes_contiguous. Qed.
Print Assumptions C01_prefix_contiguous_guarded.

(* with cursor deletion the unguarded statement was false: the witness of finding C01-1 *)
Theorem C01_prefix_revote_refuted :
  exists c h, 0 <= c_threshold c /\ c_unbond_del c = true /\
    let s := run c init h in
    exists a, aget keq (1, 1) (atts s) = Some a /\ a_obs a = true /\ last_obs s = 1 /\
              a_votes a = [0; 1; 0] /\ nonces_of 0 (vlog s) = [1; 1] /\
              last_total s = 1000 /\ dpower (oracles s) (a_votes a) = 500 /\
              100 * dpower (oracles s) (a_votes a) + 99 < 66 * last_total s.
Proof. exact revote_refuted. Qed.
Print Assumptions C01_prefix_revote_refuted.

(* the same, about the explicit variant cfg0 (c_unbond_del := true) and the explicit history, evaluated by vm_compute *)
Theorem C01_prefix_revote_refuted_explicit :
  c_unbond_del cfg0 = true /\
  let s := run cfg0 init h_rebond in
  exists a, aget keq (1, 1) (atts s) = Some a /\ a_obs a = true /\ last_obs s = 1 /\
            a_votes a = [0; 1; 0] /\ nonces_of 0 (vlog s) = [1; 1] /\
            last_total s = 1000 /\ dpower (oracles s) (a_votes a) = 500.
Proof. exact revote_refuted_explicit. Qed.
Print Assumptions C01_prefix_revote_refuted_explicit.

(* a parked claim runs its effects at most once *)
Theorem C01_exec_once : forall c h, NoDup (effects (run c init h)).
Proof. exact exec_once. Qed.
Print Assumptions C01_exec_once.

Theorem C01_exec_shape : forall s n ok,
  (snd (exec s n ok) = Ok ->
     ok = true /\ (exists v, aget Z.eqb n (pending s) = Some v) /\
     aget Z.eqb n (pending (fst (exec s n ok))) = None /\
     effects (fst (exec s n ok)) = effects s ++ [n]) /\
  (snd (exec s n ok) <> Ok -> fst (exec s n ok) = s).
Proof. exact exec_shape. Qed.
Print Assumptions C01_exec_shape.

(* the handler runs after the parked claim was deleted: a nested executeClaim for the same nonce is refused *)
Theorem C01_exec_not_reentrant : forall s n s1 ok,
  exec_begin s n = Some s1 ->
  exec_begin s1 n = None /\ exec s1 n ok = (s1, Err E_NoClaim) /\
  (fst (exec s n true)) = {| proposal := proposal s1; oracles := oracles s1; by_bridger := by_bridger s1; by_ext := by_ext s1;
                            last_total := last_total s1; last_obs := last_obs s1; last_by := last_by s1; atts := atts s1;
                            pending := pending s1; applied := applied s1; effects := effects s1 ++ [n]; vlog := vlog s1;
                            eb := eb s1 |}.
Proof. exact exec_not_reentrant. Qed.
Print Assumptions C01_exec_not_reentrant.

Theorem C01_executed_never_pending : forall c h n,
  In n (effects (run c init h)) -> aget Z.eqb n (pending (run c init h)) = None.
Proof. exact executed_never_pending. Qed.
Print Assumptions C01_executed_never_pending.

(* ---- lifecycle: genesis export + import (ExportGenesis, wipe, InitGenesis) ---- *)

(* it preserves the last observed nonce, the attestations, the logs and the oracle records; the parked claims are not
   exported (so they run zero times: "at most once" holds; the loss itself is finding C05-2 of another property);
   the total is recomputed after the records are written; every stored voter's cursor is rebuilt at or beyond the nonce
   it voted for *)
Theorem C01_export_import : forall c s,
  let s' := export_import c s in
  last_obs s' = last_obs s /\ atts s' = atts s /\ applied s' = applied s /\ effects s' = effects s /\
  vlog s' = vlog s /\ oracles s' = oracles s /\ proposal s' = proposal s /\
  pending s' = [] /\ last_total s' = online_power (oracles s') /\
  (forall k a v, aget keq k (atts s) = Some a -> In v (a_votes a) -> fst k <= cursor c s' v).
Proof. exact export_import_effect. Qed.
Print Assumptions C01_export_import.

(* C01_exec_once, C01_one_winner, C01_applied_log and C01_oracle_no_second_vote above quantify over histories WITH
   export + import steps; a concrete one: *)
Theorem C01_export_import_nonvacuous :
  let s := run cfg1 init h_export in
  last_obs s = 2 /\ pending s = [] /\ effects s = [1] /\ last_total s = 750 /\
  snd (step cfg1 s (Exec 1 true)) = Err E_NoClaim /\
  snd (step cfg1 s (Exec 2 true)) = Err E_NoClaim /\
  snd (step cfg1 s (Vote 0 3 3 true [])) = Err E_NonContig /\
  snd (step cfg1 s (Vote 0 4 4 true [])) = Ok /\
  snd (step cfg1 s (Vote 1 3 3 true [])) = Ok /\
  snd (step cfg1 s (Vote 2 2 2 true [])) = Ok.
Proof. exact example_export. Qed.
Print Assumptions C01_export_import_nonvacuous.

(* ---- real end-block steps (EndBlock = M_EndBlock.slashing on this model's records and confirm sets, then
        createOracleSetRequest): they never touch events, tallies, cursors or parked claims ---- *)
Theorem C01_end_block_frame : forall s newset s',
  end_block s newset = (s', Ok) ->
  frame_all s s' /\ e_height (eb s') = e_height (eb s) + 1 /\
  (forall o, match aget Z.eqb o (oracles s), aget Z.eqb o (oracles s') with
             | Some r, Some r' => o_stake r' = o_stake r /\ o_bridger r' = o_bridger r /\ o_ext r' = o_ext r /\
                                  (o_online r' = true -> o_online r = true /\ o_slash r' = o_slash r)
             | None, None => True
             | _, _ => False
             end) /\
  ((oracles s' = oracles s /\ last_total s' = last_total s) \/ last_total s' = online_power (oracles s')).
Proof. exact end_block_effect. Qed.
Print Assumptions C01_end_block_frame.

(* non-vacuity: three oracles, competing claims at nonce 2, nonce 3 gathering 2/3 of the power first,
   a late vote on an observed attestation, deferred executions incl. a repeated and a failing one *)
Theorem C01_nonvacuous :
  guarded cfg0 safe_unbond init h_example /\
  let s := run cfg0 init h_example in
  applied s = [(1, 1); (2, 2); (3, 4)] /\ last_obs s = 3 /\ effects s = [3; 2] /\ pending s = [] /\
  vlog s = [(0, 1); (1, 1); (0, 2); (1, 2); (0, 3); (1, 3); (2, 1); (2, 2); (2, 3)] /\
  last_total s = 900 /\ online_power (oracles s) = 900 /\
  (exists a, aget keq (2, 3) (atts s) = Some a /\ a_obs a = false /\ a_votes a = [1]).
Proof. exact example_history. Qed.
Print Assumptions C01_nonvacuous.

(* tie to the source: the constants and the set of store writers read from /repo by harness/gen_c01 on this run
   are the ones the model transcribes *)
Theorem C01_source_shape :
  gen_vote_threshold = vote_threshold /\ gen_tally_divisor = 100 /\
  gen_change_threshold = change_threshold /\ gen_max_keep = max_keep /\ gen_max_oracles = max_oracles /\
  gen_power_reduction = power_reduction /\
  (gen_writer_sites = expected_writer_sites \/ gen_writer_sites = expected_writer_sites_repaired) /\
  gen_raw_key_users = expected_raw_key_users /\
  gen_getalloracles_loop = "for init=false; iterator.Valid(); iterator.Next(); early exits=0"%string.
Proof. exact gen_matches_model. Qed.
Print Assumptions C01_source_shape.
