(* Property C02: an event takes effect only with a 66 % power quorum of distinct registered oracles,
   cast by online oracles through their registered bridger; recorded total power >= online power.
   Statements over the executable model M_Attest, for every configuration and operation list. *)
From Coq Require Import String.
From Coq Require Import ZArith List Bool.
From FxV Require gen.Gen_EndBlock.
From FxV Require Import gen.Gen_Attest model.M_Attest proofs.P_Attest proofs.P_AttestGen proofs.P_AttestTree.
From FxV Require Import gen.Gen_AttestFacts.
Import ListNotations.
Open Scope list_scope.
Open Scope Z_scope.

(* whenever a vote makes an event take effect, the summed power P of the votes counted (each vote of an address
   with an oracle record, at that record's current power) satisfies 66*total <= 100*P + 99 — the exact
   consequence of requiredPower = 66*total/100 with truncating division *)
Theorem C02_quorum : forall c h b n cl park ms,
  0 <= c_threshold c ->
  let s := run c init h in
  let s' := fst (vote c s b n cl park ms) in
  last_obs s' <> last_obs s ->
  exists a, aget keq (n, cl) (atts s') = Some a /\ a_obs a = true /\
            66 * last_total s <= 100 * vote_power (oracles s) (a_votes a) + 99.
Proof. exact quorum_at_flip. Qed.
Print Assumptions C02_quorum.

(* PRE-FIX DOCUMENTATION (any variant of the code; needed the guard while UnbondedOracle deleted the cursor):
   the same bound for the DISTINCT voters, in every history in which no oracle with a stored vote is unbonded *)
Theorem C02_prefix_quorum_distinct_guarded : forall c h b n cl park ms,
  0 <= c_threshold c ->
  guarded c safe_unbond init (h ++ [Vote b n cl park ms]) ->
  let s := run c init h in
  let s' := fst (vote c s b n cl park ms) in
  last_obs s' <> last_obs s ->
  exists a, aget keq (n, cl) (atts s') = Some a /\ a_obs a = true /\ NoDup (a_votes a) /\
            66 * last_total s <= 100 * dpower (oracles s) (a_votes a) + 99.
Proof. exact quorum_distinct_guarded. Qed.
Print Assumptions C02_prefix_quorum_distinct_guarded.

(* PRE-FIX DOCUMENTATION: no oracle is counted twice, under the same guard *)
Theorem C02_prefix_no_double_count_guarded : forall c h k a,
  guarded c safe_unbond init h ->
  aget keq k (atts (run c init h)) = Some a -> NoDup (a_votes a).
Proof. exact votes_distinct_guarded. Qed.
Print Assumptions C02_prefix_no_double_count_guarded.

(* ---- ON THIS TREE (gen/Gen_AttestFacts.v, written on every run by `harness/c01 -facts` from probes on the real keeper;
        a revert of the repair of C02-2 flips the constant and breaks C02_tree_cfg_is_repaired and what follows) ---- *)
Theorem C02_tree_cfg_is_repaired :
  c_unbond_del gen_tree_cfg = false /\ c_cursor_clamp gen_tree_cfg = false /\ 0 <= c_threshold gen_tree_cfg.
Proof. exact tree_cfg_is_repaired. Qed.
Print Assumptions C02_tree_cfg_is_repaired.

Theorem C02_no_double_count_on_tree : forall h k a,
  aget keq k (atts (run gen_tree_cfg init h)) = Some a -> NoDup (a_votes a).
Proof. exact no_double_count_on_tree. Qed.
Print Assumptions C02_no_double_count_on_tree.

Theorem C02_quorum_distinct_on_tree : forall h b n cl park ms,
  let s := run gen_tree_cfg init h in
  let s' := fst (vote gen_tree_cfg s b n cl park ms) in
  last_obs s' <> last_obs s ->
  exists a, aget keq (n, cl) (atts s') = Some a /\ a_obs a = true /\ NoDup (a_votes a) /\
            66 * last_total s <= 100 * dpower (oracles s) (a_votes a) + 99.
Proof. exact quorum_distinct_on_tree. Qed.
Print Assumptions C02_quorum_distinct_on_tree.

Theorem C02_total_ge_online_on_tree : forall h,
  online_power (oracles (run gen_tree_cfg init h)) <= last_total (run gen_tree_cfg init h).
Proof. exact total_ge_online_on_tree. Qed.
Print Assumptions C02_total_ge_online_on_tree.

(* GENERAL (any configuration whose code keeps the cursor on unbond; since /repo 9161b71, c_unbond_del = false):
   no oracle is counted twice, every history *)
Theorem C02_no_double_count : forall c h k a,
  c_unbond_del c = false ->
  aget keq k (atts (run c init h)) = Some a -> NoDup (a_votes a).
Proof. exact votes_distinct_fixed. Qed.
Print Assumptions C02_no_double_count.

(* PRIMARY: the quorum bound for the DISTINCT registered voters, every history *)
Theorem C02_quorum_distinct : forall c h b n cl park ms,
  0 <= c_threshold c -> c_unbond_del c = false ->
  let s := run c init h in
  let s' := fst (vote c s b n cl park ms) in
  last_obs s' <> last_obs s ->
  exists a, aget keq (n, cl) (atts s') = Some a /\ a_obs a = true /\ NoDup (a_votes a) /\
            66 * last_total s <= 100 * dpower (oracles s) (a_votes a) + 99.
Proof. exact quorum_distinct_fixed. Qed.
Print Assumptions C02_quorum_distinct.

(* PRE-FIX DOCUMENTATION: while UnbondedOracle deleted the cursor, the unguarded statement was false
   (finding C02-2 = C01-1, fixed): votes [0;1;0], 50 % of the power sufficed *)
Theorem C02_prefix_double_count_refuted :
  exists c h, 0 <= c_threshold c /\ c_unbond_del c = true /\
    let s := run c init h in
    exists a, aget keq (1, 1) (atts s) = Some a /\ a_obs a = true /\ last_obs s = 1 /\
              a_votes a = [0; 1; 0] /\ nonces_of 0 (vlog s) = [1; 1] /\
              last_total s = 1000 /\ dpower (oracles s) (a_votes a) = 500 /\
              100 * dpower (oracles s) (a_votes a) + 99 < 66 * last_total s.
Proof. exact revote_refuted. Qed.
Print Assumptions C02_prefix_double_count_refuted.

(* the same, about the explicit variant cfg0 (c_unbond_del := true) and the explicit history, evaluated by vm_compute *)
Theorem C02_prefix_double_count_refuted_explicit :
  c_unbond_del cfg0 = true /\
  let s := run cfg0 init h_rebond in
  exists a, aget keq (1, 1) (atts s) = Some a /\ a_obs a = true /\ last_obs s = 1 /\
            a_votes a = [0; 1; 0] /\ nonces_of 0 (vlog s) = [1; 1] /\
            last_total s = 1000 /\ dpower (oracles s) (a_votes a) = 500.
Proof. exact revote_refuted_explicit. Qed.
Print Assumptions C02_prefix_double_count_refuted_explicit.

(* the literal reading "P >= 66 % of total" is false by less than one power unit: 331 of 503 *)
Theorem C02_truncation_refuted :
  exists c h, 0 <= c_threshold c /\ guarded c safe_unbond init h /\
    let s := run c init h in
    exists a, aget keq (1, 1) (atts s) = Some a /\ a_obs a = true /\ last_obs s = 1 /\ NoDup (a_votes a) /\
              last_total s = 503 /\ dpower (oracles s) (a_votes a) = 331 /\
              100 * dpower (oracles s) (a_votes a) < 66 * last_total s.
Proof. exact truncation_refuted. Qed.
Print Assumptions C02_truncation_refuted.

(* the bar in terms of STAKE: power is stake/10^20 truncated per oracle, so with n online oracles the counted voters'
   stake covers 66 % of the online stake up to (99 + 66 n) power units *)
Theorem C02_quorum_in_stake : forall c h b n cl park ms,
  0 <= c_threshold c ->
  let s := run c init h in
  let s' := fst (vote c s b n cl park ms) in
  last_obs s' <> last_obs s ->
  exists a, aget keq (n, cl) (atts s') = Some a /\ a_obs a = true /\
            66 * online_stake (oracles s) <=
            100 * vote_stake (oracles s) (a_votes a) + (99 + 66 * online_count (oracles s)) * U.
Proof. exact quorum_in_stake. Qed.
Print Assumptions C02_quorum_in_stake.

Theorem C02_power_rounding : forall o, 0 <= o_stake o -> power o * U <= o_stake o < (power o + 1) * U.
Proof. exact power_stake_bounds. Qed.
Print Assumptions C02_power_rounding.

(* votes of addresses that are not registered oracles add nothing *)
Theorem C02_nonmember_ignored : forall os req votes acc,
  tally os req acc votes = tally os req acc (filter (registered os) votes).
Proof. exact tally_ignores_nonmembers. Qed.
Print Assumptions C02_nonmember_ignored.

Theorem C02_nonmember_zero : forall os v votes,
  aget Z.eqb v os = None -> vpower os v = 0 /\ vote_power os (v :: votes) = vote_power os votes.
Proof. exact nonmember_power_zero. Qed.
Print Assumptions C02_nonmember_zero.

(* the recorded total power is never lower than the combined power of the online oracles *)
Theorem C02_total_ge_online : forall c h, 0 <= c_threshold c ->
  online_power (oracles (run c init h)) <= last_total (run c init h).
Proof. exact total_ge_online. Qed.
Print Assumptions C02_total_ge_online.

(* a vote is accepted only from the registered bridger of an online oracle *)
Theorem C02_admission : forall c h b n cl park ms,
  let s := run c init h in
  snd (vote c s b n cl park ms) = Ok ->
  exists o rec, aget Z.eqb b (by_bridger s) = Some o /\ aget Z.eqb o (oracles s) = Some rec /\
                o_online rec = true /\ o_bridger rec = b.
Proof. exact vote_admission. Qed.
Print Assumptions C02_admission.

(* ---- lifecycle: genesis export + import; C02_total_ge_online, C02_admission, C02_no_double_count and C02_quorum*
        quantify over histories with such steps; the step itself: ---- *)
Theorem C02_export_import : forall c s,
  let s' := export_import c s in
  last_obs s' = last_obs s /\ atts s' = atts s /\ applied s' = applied s /\ effects s' = effects s /\
  vlog s' = vlog s /\ oracles s' = oracles s /\ proposal s' = proposal s /\
  pending s' = [] /\ last_total s' = online_power (oracles s') /\
  (forall k a v, aget keq k (atts s) = Some a -> In v (a_votes a) -> fst k <= cursor c s' v).
Proof. exact export_import_effect. Qed.
Print Assumptions C02_export_import.

(* ---- real end-block steps: M_EndBlock.slashing (three loops, signed window, unslashed-object selection) decides
        who is slashed; C02_total_ge_online and C02_admission above quantify over these steps too ---- *)

(* an online oracle that had to confirm a due oracle set / batch / bridge call and did not is offline after the
   end blocker, and the recorded total is recomputed in the same step *)
Theorem C02_end_block_slashes_nonconfirmers : forall s newset s' x o rec,
  end_block s newset = (s', Ok) ->
  e_window (eb s) < e_height (eb s) ->
  due_objects s x ->
  aget Z.eqb o (oracles s) = Some rec -> o_online rec = true ->
  o_start rec <= EB.ob_height x -> ~ In o (EB.ob_confirms x) ->
  (exists rec', aget Z.eqb o (oracles s') = Some rec' /\ o_online rec' = false /\ o_stake rec' = o_stake rec) /\
  last_total s' = online_power (oracles s').
Proof. exact end_block_slashes_nonconfirmers. Qed.
Print Assumptions C02_end_block_slashes_nonconfirmers.

(* ... and its claims are refused from then on *)
Theorem C02_slashed_oracle_cannot_vote : forall c s newset s' x o rec b n cl park ms,
  end_block s newset = (s', Ok) ->
  e_window (eb s) < e_height (eb s) -> due_objects s x ->
  aget Z.eqb o (oracles s) = Some rec -> o_online rec = true ->
  o_start rec <= EB.ob_height x -> ~ In o (EB.ob_confirms x) ->
  aget Z.eqb b (by_bridger s') = Some o ->
  snd (vote c s' b n cl park ms) <> Ok.
Proof. exact slashed_oracle_cannot_vote. Qed.
Print Assumptions C02_slashed_oracle_cannot_vote.

(* the end blocker never brings an oracle online, never changes a stake, and leaves the total untouched or fresh *)
Theorem C02_end_block_effect : forall s newset s',
  end_block s newset = (s', Ok) ->
  frame_all s s' /\ e_height (eb s') = e_height (eb s) + 1 /\
  (forall o, match aget Z.eqb o (oracles s), aget Z.eqb o (oracles s') with
             | Some r, Some r' => o_stake r' = o_stake r /\ o_bridger r' = o_bridger r /\ o_ext r' = o_ext r /\
                                  (o_online r' = true -> o_online r = true /\ o_slash r' = o_slash r)
             | None, None => True
             | _, _ => False
             end) /\
  ((oracles s' = oracles s /\ last_total s' = last_total s) \/ last_total s' = online_power (oracles s')).
Proof. exact end_block_effect. Qed.
Print Assumptions C02_end_block_effect.

Theorem C02_end_block_nonvacuous :
  let s := run cfg0 init h_endblock in
  map (fun p => (fst p, o_online (snd p), o_slash (snd p))) (oracles s) = [(2, false, 1); (1, true, 0); (0, true, 0)] /\
  last_total s = 400 /\ online_power (oracles s) = 400 /\ e_last_oset (eb s) = 1 /\ e_height (eb s) = 5 /\
  map EB.ob_key (e_osets (eb s)) = [1; 2] /\
  snd (step cfg0 s (Vote 2 1 1 true [])) = Err E_Offline /\ snd (step cfg0 s (Vote 1 1 1 true [])) = Ok.
Proof. exact example_endblock. Qed.
Print Assumptions C02_end_block_nonvacuous.

(* transaction layer: an accepted MsgClaim was signed by the wrapper's bridger and is counted for the
   wrapped claim's bridger *)
Theorem C02_claim_tx_accept : forall c unpacked chk s signers t,
  snd (deliver_claim c unpacked chk s signers t) = Ok ->
  In (required_signer t) signers /\
  exists o rec, aget Z.eqb (t_inner t) (by_bridger s) = Some o /\ aget Z.eqb o (oracles s) = Some rec /\
                o_online rec = true /\
                In (o, t_nonce t) (vlog (fst (deliver_claim c unpacked chk s signers t))).
Proof. exact claim_tx_accept. Qed.
Print Assumptions C02_claim_tx_accept.

(* LATENT (not reachable through a transaction on the tree this was written for: every MsgClaim decoded from
   bytes fails ValidateBasic, C02_bytes_path_rejects).  Statements about the handler chain once the message
   carries its claim: if ValidateBasic compared the two addresses, the counted bridger would have had to sign *)
Theorem C02_signer_guarded : forall c unpacked s signers t,
  snd (deliver_claim c unpacked true s signers t) = Ok -> In (t_inner t) signers.
Proof. exact signer_guarded. Qed.
Print Assumptions C02_signer_guarded.

(* it does not compare them: on the message-object level an account that is nobody's bridger casts the votes of
   oracles 0,1,2 and event nonce 1 takes effect (docs/findings/C02-1.md: latent; shown on the real ante chain +
   message router with the message object; becomes real the moment MsgClaim gets UnpackInterfaces) *)
Theorem C02_signer_refuted :
  exists c h signers,
    let s0 := run c init h in
    (forall b o, aget Z.eqb b (by_bridger s0) = Some o -> ~ In b signers) /\
    let s1 := fst (deliver_claim_mem c s0 signers (forged 0)) in
    let s2 := fst (deliver_claim_mem c s1 signers (forged 1)) in
    let s3 := fst (deliver_claim_mem c s2 signers (forged 2)) in
    snd (deliver_claim_mem c s0 signers (forged 0)) = Ok /\
    snd (deliver_claim_mem c s1 signers (forged 1)) = Ok /\
    snd (deliver_claim_mem c s2 signers (forged 2)) = Ok /\
    last_obs s0 = 0 /\ last_obs s3 = 1 /\
    vlog s3 = [(0, 1); (1, 1); (2, 1)].
Proof. exact signer_refuted. Qed.
Print Assumptions C02_signer_refuted.

(* as the code is, a MsgClaim decoded from transaction bytes never passes ValidateBasic (no UnpackInterfaces) *)
Theorem C02_bytes_path_rejects : forall c s signers t, deliver_claim_bytes c s signers t = (s, Err E_Invalid).
Proof. exact bytes_path_rejects. Qed.
Print Assumptions C02_bytes_path_rejects.

Theorem C02_nonvacuous :
  guarded cfg0 safe_unbond init h_example /\
  let s := run cfg0 init h_example in
  applied s = [(1, 1); (2, 2); (3, 4)] /\ last_obs s = 3 /\ effects s = [3; 2] /\ pending s = [] /\
  vlog s = [(0, 1); (1, 1); (0, 2); (1, 2); (0, 3); (1, 3); (2, 1); (2, 2); (2, 3)] /\
  last_total s = 900 /\ online_power (oracles s) = 900 /\
  (exists a, aget keq (2, 3) (atts s) = Some a /\ a_obs a = false /\ a_votes a = [1]).
Proof. exact example_history. Qed.
Print Assumptions C02_nonvacuous.

(* tie to the source: the constants and the set of store writers read from /repo by harness/gen_c01 on this run
   are the ones the model transcribes *)
Theorem C02_source_shape :
  gen_vote_threshold = vote_threshold /\ gen_tally_divisor = 100 /\
  gen_change_threshold = change_threshold /\ gen_max_keep = max_keep /\ gen_max_oracles = max_oracles /\
  gen_power_reduction = power_reduction /\
  (gen_writer_sites = expected_writer_sites \/ gen_writer_sites = expected_writer_sites_repaired) /\
  gen_raw_key_users = expected_raw_key_users /\
  gen_getalloracles_loop = "for init=false; iterator.Valid(); iterator.Next(); early exits=0"%string.
Proof. exact gen_matches_model. Qed.
Print Assumptions C02_source_shape.

Theorem C02_end_block_source_shape :
  Gen_EndBlock.gen_slash_args = slash_args0 /\
  Gen_EndBlock.gen_slashing_calls = ["GetAllOracles"; "oracleSetSlashing"; "batchSlashing"; "bridgeCallSlashing"; "SetLastTotalPower"]%string /\
  Gen_EndBlock.gen_endblock_phases = ["GetSignedWindow"; "slashing"; "createOracleSetRequest"; "pruneOracleSet"]%string.
Proof. exact gen_endblock_matches_model. Qed.
Print Assumptions C02_end_block_source_shape.
