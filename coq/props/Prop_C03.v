(* Property C03: two claims for the same event nonce are tallied together only if they agree on every
   field that influences what is executed; the effect applied is the one the quorum voted for, whichever
   oracle's vote crosses the threshold.

   Gen_* are regenerated from x/crosschain/types/msgs.go (+ tx.pb.go, keeper handlers) on every run.
   [verdict sp] is, by computation on the generated format,
       injective sp  (equal ClaimHash pre-images of ValidateBasic-valid claims => equal relevant fields)
     or refuted sp   (a concrete pair of valid claims differing in a relevant field with equal pre-image). *)
From Coq Require Import ZArith List String.
From FxV Require Import model.M_ClaimHash model.M_AttestExec gen.Gen_ClaimHash
     proofs.P_ClaimHash proofs.P_ClaimHashGen proofs.P_AttestExec.
Import ListNotations.
Open Scope Z_scope.

(* the current decisions, for the log: (type, criterion holds, relevant fields missing from the hash) *)
Eval vm_compute in map (fun sp => (s_name sp, check_fmt sp, missing_fields sp)) Gen_all.

Theorem C03_check_fmt_sound : forall sp, check_fmt sp = true ->
  forall c1 c2, wf sp c1 -> wf sp c2 -> preimage sp c1 = preimage sp c2 -> relevant sp c1 = relevant sp c2.
Proof. exact check_fmt_sound. Qed.
Print Assumptions C03_check_fmt_sound.

Theorem C03_SendToFx : verdict Gen_SendToFx.
Proof. exact v_SendToFx. Qed.
Print Assumptions C03_SendToFx.

Theorem C03_BridgeCall : verdict Gen_BridgeCall.
Proof. exact v_BridgeCall. Qed.
Print Assumptions C03_BridgeCall.

Theorem C03_BridgeCallResult : verdict Gen_BridgeCallResult.
Proof. exact v_BridgeCallResult. Qed.
Print Assumptions C03_BridgeCallResult.

Theorem C03_SendToExternal : verdict Gen_SendToExternal.
Proof. exact v_SendToExternal. Qed.
Print Assumptions C03_SendToExternal.

Theorem C03_BridgeToken : verdict Gen_BridgeToken.
Proof. exact v_BridgeToken. Qed.
Print Assumptions C03_BridgeToken.

Theorem C03_OracleSetUpdated : verdict Gen_OracleSetUpdated.
Proof. exact v_OracleSetUpdated. Qed.
Print Assumptions C03_OracleSetUpdated.

Theorem C03_verdicts_exclusive : forall sp, refuted sp -> ~ injective sp.
Proof. exact refuted_not_injective. Qed.
Print Assumptions C03_verdicts_exclusive.

Theorem C03_handlers_read_only_relevant : forallb reads_covered Gen_all = true.
Proof. exact reads_all_covered. Qed.
Print Assumptions C03_handlers_read_only_relevant.

(* schedule part: the executed object is the threshold-crossing voter's; all votes tallied with it carry the
   same nonce and hash pre-image — for every vote history *)
Theorem C03_executed_is_current_voter : forall C nonce key power required ops o c st' e,
  vote C nonce key power required (fst (run C nonce key power required (init C) ops)) o c = (st', Executed e) ->
  e = c /\
  exists a, In a (atts C st') /\ a_observed C a = true /\ In (o, c) (a_votes C a) /\
            forall o' c', In (o', c') (a_votes C a) -> nonce c' = nonce e /\ key c' = key e.
Proof. exact executed_along_history. Qed.
Print Assumptions C03_executed_is_current_voter.

Theorem C03_executed_is_voted : forall sp power required ops o c st' e,
  injective sp ->
  Forall (fun oc => wf sp (snd oc)) ops -> wf sp c ->
  vote claim c_nonce (preimage sp) power required
       (fst (run claim c_nonce (preimage sp) power required (init claim) ops)) o c = (st', Executed e) ->
  e = c /\
  exists a, In a (atts claim st') /\ a_observed claim a = true /\ In (o, c) (a_votes claim a) /\
            forall o' c', In (o', c') (a_votes claim a) -> relevant sp c' = relevant sp e.
Proof. exact executed_is_voted_spec. Qed.
Print Assumptions C03_executed_is_voted.

Theorem C03_collision_changes_execution : forall sp c1 c2,
  wf sp c1 -> wf sp c2 -> relevant sp c1 <> relevant sp c2 -> preimage sp c1 = preimage sp c2 ->
  c_nonce c1 = 1 -> c_nonce c2 = 1 ->
  exists st a,
    run claim c_nonce (preimage sp) (fun _ => 1) 2 (init claim) [(1, c1); (2, c2)] = (st, [Voted; Executed c2]) /\
    In a (atts claim st) /\ a_observed claim a = true /\ a_claim claim a = c1 /\
    In (1, c1) (a_votes claim a) /\ In (2, c2) (a_votes claim a) /\
    relevant sp c1 <> relevant sp c2.
Proof. exact collision_changes_execution. Qed.
Print Assumptions C03_collision_changes_execution.

Theorem C03_nonvacuous :
  forallb (fun sp => wfb sp (dflt_claim sp)) Gen_all = true /\ forallb decided_b Gen_all = true /\
  wfb Gen_SendToExternal ex_c1 = true /\ wfb Gen_SendToExternal ex_c2 = true /\
  list_eqb fval_eqb (relevant Gen_SendToExternal ex_c1) (relevant Gen_SendToExternal ex_c2) = false /\
  bytes_eqb (preimage Gen_SendToExternal ex_c1) (preimage Gen_SendToExternal ex_c2) = false.
Proof. exact (conj dflt_wf_all (conj decided_all example_pair)). Qed.
Print Assumptions C03_nonvacuous.
