(* Property C03: two claims for the same event nonce are tallied together only if they agree on every
   field that influences what is executed; the effect applied is the one the quorum voted for, whichever
   oracle's vote crosses the threshold.

   Gen_* are regenerated from x/crosschain/types/msgs.go (+ tx.pb.go, keeper handlers) on every run.
   [injective sp]: equal ClaimHash pre-images of two ValidateBasic-valid claims => equal relevant fields;
   [refuted sp]: a concrete pair of valid claims (same nonce) differing in a relevant field with equal pre-image. *)
From Coq Require Import ZArith List String.
From FxV Require Import model.M_ClaimHash model.M_ClaimHashPreFix model.M_AttestExec gen.Gen_ClaimHash
     proofs.P_ClaimHash proofs.P_ClaimHashGen proofs.P_AttestExec proofs.P_ClaimHashX
     model.M_AttestExecDyn proofs.P_AttestExecDyn.
Import ListNotations.
Open Scope Z_scope.

(* the current decisions, for the log: (type, criterion holds, relevant fields missing from the hash) *)
Eval vm_compute in map (fun sp => (s_name sp, check_fmt sp, missing_fields sp)) Gen_all.

Theorem C03_check_fmt_sound : forall sp, check_fmt sp = true ->
  forall c1 c2, wf sp c1 -> wf sp c2 -> preimage sp c1 = preimage sp c2 -> relevant sp c1 = relevant sp c2.
Proof. exact check_fmt_sound. Qed.
Print Assumptions C03_check_fmt_sound.

(* --- the property for the six claim types of the current source: for ALL field values, two ValidateBasic-valid
       claims with equal ClaimHash pre-image agree on every execution-relevant field --- *)
Theorem C03_SendToFx_injective : forall c1 c2, wf Gen_SendToFx c1 -> wf Gen_SendToFx c2 ->
  preimage Gen_SendToFx c1 = preimage Gen_SendToFx c2 -> relevant Gen_SendToFx c1 = relevant Gen_SendToFx c2.
Proof. exact inj_SendToFx. Qed.
Print Assumptions C03_SendToFx_injective.

Theorem C03_BridgeCall_injective : forall c1 c2, wf Gen_BridgeCall c1 -> wf Gen_BridgeCall c2 ->
  preimage Gen_BridgeCall c1 = preimage Gen_BridgeCall c2 -> relevant Gen_BridgeCall c1 = relevant Gen_BridgeCall c2.
Proof. exact inj_BridgeCall. Qed.
Print Assumptions C03_BridgeCall_injective.

Theorem C03_BridgeCallResult_injective : forall c1 c2, wf Gen_BridgeCallResult c1 -> wf Gen_BridgeCallResult c2 ->
  preimage Gen_BridgeCallResult c1 = preimage Gen_BridgeCallResult c2 ->
  relevant Gen_BridgeCallResult c1 = relevant Gen_BridgeCallResult c2.
Proof. exact inj_BridgeCallResult. Qed.
Print Assumptions C03_BridgeCallResult_injective.

Theorem C03_SendToExternal_injective : forall c1 c2, wf Gen_SendToExternal c1 -> wf Gen_SendToExternal c2 ->
  preimage Gen_SendToExternal c1 = preimage Gen_SendToExternal c2 ->
  relevant Gen_SendToExternal c1 = relevant Gen_SendToExternal c2.
Proof. exact inj_SendToExternal. Qed.
Print Assumptions C03_SendToExternal_injective.

Theorem C03_BridgeToken_injective : forall c1 c2, wf Gen_BridgeToken c1 -> wf Gen_BridgeToken c2 ->
  preimage Gen_BridgeToken c1 = preimage Gen_BridgeToken c2 -> relevant Gen_BridgeToken c1 = relevant Gen_BridgeToken c2.
Proof. exact inj_BridgeToken. Qed.
Print Assumptions C03_BridgeToken_injective.

Theorem C03_OracleSetUpdated_injective : forall c1 c2, wf Gen_OracleSetUpdated c1 -> wf Gen_OracleSetUpdated c2 ->
  preimage Gen_OracleSetUpdated c1 = preimage Gen_OracleSetUpdated c2 ->
  relevant Gen_OracleSetUpdated c1 = relevant Gen_OracleSetUpdated c2.
Proof. exact inj_OracleSetUpdated. Qed.
Print Assumptions C03_OracleSetUpdated_injective.

(* --- history: the explicit PRE-FIX format constants of findings C03-1/2/3 (model/M_ClaimHashPreFix.v; not the
       current code) each admitted two valid claims with the same nonce, different relevant fields, equal pre-image --- *)
Theorem C03_prefix_BridgeCall_refuted : refuted PreFix_BridgeCall.
Proof. exact prefix_BridgeCall_refuted. Qed.
Print Assumptions C03_prefix_BridgeCall_refuted.

Theorem C03_prefix_BridgeCallResult_refuted : refuted PreFix_BridgeCallResult.
Proof. exact prefix_BridgeCallResult_refuted. Qed.
Print Assumptions C03_prefix_BridgeCallResult_refuted.

Theorem C03_prefix_BridgeToken_refuted : refuted PreFix_BridgeToken.
Proof. exact prefix_BridgeToken_refuted. Qed.
Print Assumptions C03_prefix_BridgeToken_refuted.

Theorem C03_verdicts_exclusive : forall sp, refuted sp -> ~ injective sp.
Proof. exact refuted_not_injective. Qed.
Print Assumptions C03_verdicts_exclusive.

Theorem C03_handlers_read_only_relevant : forallb reads_covered Gen_all = true.
Proof. exact reads_all_covered. Qed.
Print Assumptions C03_handlers_read_only_relevant.

(* schedule part: the executed object is the threshold-crossing voter's; all votes tallied with it carry the
   same nonce and hash pre-image — for every vote history *)
Theorem C03_executed_is_current_voter : forall C nonce key power required ops o c st' e,
  vote C nonce key power required (fst (run C nonce key power required (init C) ops)) o c = (st', Executed e) ->
  e = c /\
  exists a, In a (atts C st') /\ a_observed C a = true /\ In (o, c) (a_votes C a) /\
            forall o' c', In (o', c') (a_votes C a) -> nonce c' = nonce e /\ key c' = key e.
Proof. exact executed_along_history. Qed.
Print Assumptions C03_executed_is_current_voter.

(* ... and it is backed by a quorum: for EVERY interleaving of votes over any event nonces (votes for n+1 may arrive and
   reach quorum power before n is observed; each oracle votes its nonces in order), whatever is executed at a nonce is the
   current voter's object, sits in an attestation all of whose votes carry the same nonce and pre-image, cast by pairwise
   distinct oracles whose powers sum to at least the required power *)
Theorem C03_executed_by_quorum : forall C nonce key power required ops o c st' e,
  (forall o', 0 <= power o') ->
  vote C nonce key power required (fst (run C nonce key power required (init C) ops)) o c = (st', Executed e) ->
  e = c /\
  exists a, In a (atts C st') /\ a_observed C a = true /\ In (o, c) (a_votes C a) /\
            (forall o' c', In (o', c') (a_votes C a) -> nonce c' = nonce e /\ key c' = key e) /\
            NoDup (map fst (a_votes C a)) /\ required <= sum_power C power (a_votes C a).
Proof. exact executed_by_quorum. Qed.
Print Assumptions C03_executed_by_quorum.

Theorem C03_executed_is_voted : forall sp power required ops o c st' e,
  injective sp ->
  Forall (fun oc => wf sp (snd oc)) ops -> wf sp c ->
  vote claim c_nonce (preimage sp) power required
       (fst (run claim c_nonce (preimage sp) power required (init claim) ops)) o c = (st', Executed e) ->
  e = c /\
  exists a, In a (atts claim st') /\ a_observed claim a = true /\ In (o, c) (a_votes claim a) /\
            forall o' c', In (o', c') (a_votes claim a) -> relevant sp c' = relevant sp e.
Proof. exact executed_is_voted_spec. Qed.
Print Assumptions C03_executed_is_voted.

(* claims of DIFFERENT types never share a pre-image (the attestation key is (nonce, hash) whatever the type) *)
Theorem C03_cross_type_distinct : forall a b, In a Gen_all -> In b Gen_all -> s_name a <> s_name b ->
  forall c1 c2, wf a c1 -> wf b c2 -> preimage a c1 <> preimage b c2.
Proof. exact cross_type_distinct. Qed.
Print Assumptions C03_cross_type_distinct.

(* all six types voting into one attestation store: whatever is executed has the type and the relevant payload
   every tallied voter voted for *)
Theorem C03_executed_is_voted_all_types : forall power required ops o tc st' e,
  Forall (fun oc => t_valid (snd oc)) ops -> t_valid tc ->
  vote tclaim t_nonce t_key power required
       (fst (run tclaim t_nonce t_key power required (init tclaim) ops)) o tc = (st', Executed e) ->
  e = tc /\
  exists a, In a (atts tclaim st') /\ a_observed tclaim a = true /\ In (o, tc) (a_votes tclaim a) /\
            forall o' tc', In (o', tc') (a_votes tclaim a) -> t_payload tc' = t_payload e.
Proof. exact executed_is_voted_all_types. Qed.
Print Assumptions C03_executed_is_voted_all_types.

(* --- oracle powers and LastTotalPower CHANGING between the votes (add-delegate, re-delegate, removal, end-block
       update of the total): histories are lists of DVote / DPower / DTotal (model/M_AttestExecDyn.v).  Whatever is
       executed is the current voter's object; the attestation it sits in only holds votes of that nonce and pre-image,
       cast by pairwise distinct oracles, whose powers AT THE CROSSING VOTE reach the required power OF THAT MOMENT --- *)
Theorem C03_dyn_executed_by_quorum : forall C nonce key ops o c d' e,
  ops_nonneg C ops ->
  dstep C nonce key (fst (drun C nonce key (dinit C) ops)) (DVote o c) = (d', Some (Executed e)) ->
  e = c /\
  exists a, In a (atts C (d_core C d')) /\ a_observed C a = true /\ In (o, c) (a_votes C a) /\
            (forall o' c', In (o', c') (a_votes C a) -> nonce c' = nonce e /\ key c' = key e) /\
            NoDup (map fst (a_votes C a)) /\
            drequired C (fst (drun C nonce key (dinit C) ops))
              <= sum_power C (dpower C (fst (drun C nonce key (dinit C) ops))) (a_votes C a).
Proof. exact dyn_executed_by_quorum. Qed.
Print Assumptions C03_dyn_executed_by_quorum.

(* ... and, for all six claim types voting into one store, it has the type and the relevant payload of every vote
   tallied with it, however the powers moved in between *)
Theorem C03_dyn_executed_is_voted_all_types : forall ops o tc d' e,
  dops_valid tclaim t_valid ops -> t_valid tc ->
  dstep tclaim t_nonce t_key (fst (drun tclaim t_nonce t_key (dinit tclaim) ops)) (DVote o tc) = (d', Some (Executed e)) ->
  e = tc /\
  exists a, In a (atts tclaim (d_core tclaim d')) /\ a_observed tclaim a = true /\ In (o, tc) (a_votes tclaim a) /\
            forall o' tc', In (o', tc') (a_votes tclaim a) -> t_payload tc' = t_payload e.
Proof. exact dyn_executed_is_voted_all_types. Qed.
Print Assumptions C03_dyn_executed_is_voted_all_types.

(* the dynamic part is not vacuous: the same three votes execute at the second or at the third vote depending on a
   power change between them (powers and required power are those of the crossing moment) *)
Theorem C03_dyn_nonvacuous :
  snd (drun qclaim q_nonce q_key (dinit qclaim) (ex_setup ++ [DVote 1 ex_c; DVote 2 ex_c; DVote 3 ex_c]))
    = [Voted; Executed ex_c; Voted] /\
  snd (drun qclaim q_nonce q_key (dinit qclaim) (ex_setup ++ [DVote 1 ex_c; DPower 1 10; DVote 2 ex_c; DVote 3 ex_c]))
    = [Voted; Voted; Executed ex_c] /\
  snd (drun qclaim q_nonce q_key (dinit qclaim) (ex_setup ++ [DVote 1 ex_c; DPower 1 10; DTotal 210; DVote 2 ex_c; DVote 3 ex_c]))
    = [Voted; Voted; Executed ex_c] /\
  snd (drun qclaim q_nonce q_key (dinit qclaim) (ex_setup ++ [DVote 1 ex_c; DPower 1 10; DPower 2 200; DVote 2 ex_c; DVote 3 ex_c]))
    = [Voted; Executed ex_c; Voted].
Proof. exact dyn_example. Qed.
Print Assumptions C03_dyn_nonvacuous.

Theorem C03_collision_changes_execution : forall sp c1 c2,
  wf sp c1 -> wf sp c2 -> relevant sp c1 <> relevant sp c2 -> preimage sp c1 = preimage sp c2 ->
  c_nonce c1 = 1 -> c_nonce c2 = 1 ->
  exists st a,
    run claim c_nonce (preimage sp) (fun _ => 1) 2 (init claim) [(1, c1); (2, c2)] = (st, [Voted; Executed c2]) /\
    In a (atts claim st) /\ a_observed claim a = true /\ a_claim claim a = c1 /\
    In (1, c1) (a_votes claim a) /\ In (2, c2) (a_votes claim a) /\
    relevant sp c1 <> relevant sp c2.
Proof. exact collision_changes_execution. Qed.
Print Assumptions C03_collision_changes_execution.

Theorem C03_nonvacuous :
  forallb (fun sp => wfb sp (dflt_claim sp)) Gen_all = true /\ forallb decided_b Gen_all = true /\
  wfb Gen_SendToExternal ex_c1 = true /\ wfb Gen_SendToExternal ex_c2 = true /\
  list_eqb fval_eqb (relevant Gen_SendToExternal ex_c1) (relevant Gen_SendToExternal ex_c2) = false /\
  bytes_eqb (preimage Gen_SendToExternal ex_c1) (preimage Gen_SendToExternal ex_c2) = false.
Proof. exact (conj dflt_wf_all (conj decided_all example_pair)). Qed.
Print Assumptions C03_nonvacuous.
