(* Property C04 — bridge solvency: per token, what users hold on fxcore in any representation plus what is in flight
   equals initial holdings plus deposits minus withdrawals observed as executed; no operation touches an account it does
   not name; holdings stay withdrawable (reading and refutation below).
   Model: coq/model/M_Ledger.v (transcription of x/crosschain many_to_one / pool / batch / bridge-call code, the
   crosschain precompile and the erc20 conversions), tied to /repo by harness/c04 on every run. *)
From Coq Require Import ZArith List.
From FxV Require Import model.M_Ledger proofs.P_Ledger proofs.P_LedgerC04 proofs.P_LedgerGhost.
Import ListNotations.
Open Scope Z_scope.

(* for every token t, every set U of non-module accounts and every list of operations naming only accounts of U *)
Theorem C04_conservation : forall U g t s0 ops,
  users U -> recs_wf U (sr s0) -> Forall (op_ok U) ops ->
  let s := steps g s0 ops in
  user_holdings U t s + in_flight t s =
  user_holdings U t s0 + in_flight t s0 + (deposited t s - deposited t s0) - (executed_out t s - executed_out t s0).
Proof. exact conservation. Qed.
Print Assumptions C04_conservation.

(* `deposited` / `executed_out` (and the per-chain `dep_via` / `exe_via` inside net_in) are counters the model's steps maintain.
   WHEN they move: an accepted step moves them by exactly the events of that step — dep_events: the amount(s) the executed
   inbound claim carries (MsgSendToFxClaim, MsgBridgeCallClaim, inbound IBC); exe_events: the total of the batch an observed
   MsgSendToExternalClaim names, the token list of the call a successful MsgBridgeCallResultClaim names, what is handed to an
   IBC channel — and a refused step, or any other operation, moves nothing (its event lists are empty). *)
Theorem C04_counters_move_with_the_step : forall g t c s o,
  let s' := fst (step g s o) in
  deposited t s' = deposited t s + ev_tok t (step_deps g s o) /\
  executed_out t s' = executed_out t s + ev_tok t (step_exes g s o) /\
  dep_via c t s' = dep_via c t s + ev_on t c (step_deps g s o) /\
  exe_via c t s' = exe_via c t s + ev_on t c (step_exes g s o).
Proof. exact counters_move_with_the_step. Qed.
Print Assumptions C04_counters_move_with_the_step.

(* the event lists, spelled out *)
Theorem C04_events_spelled_out : forall g s o,
  step_deps g s o = (if snd (step g s o) then dep_events o else []) /\
  step_exes g s o = (if snd (step g s o) then exe_events (sr s) o else []) /\
  (forall c t r x tg, dep_events (OSendToFx c t r x tg) = [(t, c, x)]) /\
  (forall c sd to rf toks m ok tm, dep_events (OBridgeCallIn c sd to rf toks m ok tm) = map (fun p => (fst p, c, snd p)) toks) /\
  (forall c h t n r, exe_events r (OBatchExecuted c h t n) =
     match find_batch c t n (batches r) with Some b => [(t, c, total_of (b_txs b))] | None => [] end) /\
  (forall c n r, exe_events r (OBridgeCallResult c n true) =
     match find_call c n (calls r) with Some b => map (fun p => (fst p, c, snd p)) (c_toks b) | None => [] end) /\
  (forall c t a amt fee r, dep_events (OSendToExternal c t a amt fee) = [] /\ exe_events r (OSendToExternal c t a amt fee) = []).
Proof. intros. repeat split. Qed.
Print Assumptions C04_events_spelled_out.

(* hence the counters are sums over the operation list ... *)
Theorem C04_counters_are_sums : forall g t c ops s,
  deposited t (steps g s ops) = deposited t s + ev_tok t (deps_of g s ops) /\
  executed_out t (steps g s ops) = executed_out t s + ev_tok t (exes_of g s ops) /\
  dep_via c t (steps g s ops) = dep_via c t s + ev_on t c (deps_of g s ops) /\
  exe_via c t (steps g s ops) = exe_via c t s + ev_on t c (exes_of g s ops).
Proof. exact counters_are_sums. Qed.
Print Assumptions C04_counters_are_sums.

(* ... and conservation reads: holdings + in-flight = initial + (sum of the deposits of the accepted steps) - (sum of the
   withdrawals of the accepted steps), no model-maintained counter involved *)
Theorem C04_conservation_over_the_op_list : forall U g t s0 ops,
  users U -> recs_wf U (sr s0) -> Forall (op_ok U) ops ->
  let s := steps g s0 ops in
  user_holdings U t s + in_flight t s =
  user_holdings U t s0 + in_flight t s0 + ev_tok t (deps_of g s0 ops) - ev_tok t (exes_of g s0 ops).
Proof. exact conservation_over_the_op_list. Qed.
Print Assumptions C04_conservation_over_the_op_list.

(* user_holdings sums, over the users, the ten denominations of the token (base, bridge denoms, IBC voucher) and the ERC-20 *)
Theorem C04_holdings_is_the_sum : forall U t s,
  user_holdings U t s =
  fold_right (fun a acc => (fold_right (fun r acc' => get2 (a, 10 * t + r) (bank (sb s)) + acc') 0 reps
                            + get2 (t, a) (ebal (sb s))) + acc) 0 U.
Proof. exact user_holdings_unfold. Qed.
Print Assumptions C04_holdings_is_the_sum.

(* an account that is not named, is no module account and no stored refund address keeps every bank and ERC-20 balance *)
Theorem C04_local : forall U g a0 s0 ops,
  ~ In a0 U -> is_module a0 = false -> recs_wf U (sr s0) -> Forall (op_ok U) ops ->
  let s := steps g s0 ops in
  (forall d, get2 (a0, d) (bank (sb s)) = get2 (a0, d) (bank (sb s0))) /\
  (forall i, get2 (i, a0) (ebal (sb s)) = get2 (i, a0) (ebal (sb s0))).
Proof. exact frame. Qed.
Print Assumptions C04_local.

(* a refused operation changes nothing (the model's transaction semantics, checked against the real cache branch) *)
Theorem C04_refused_unchanged : forall g s o, snd (step g s o) = false -> fst (step g s o) = s.
Proof. exact refused_unchanged. Qed.
Print Assumptions C04_refused_unchanged.

(* module-owned token i on chain c: the supply of its bridge denomination tracks what is bridged in through c *)
Theorem C04_alias_supply : forall U g i c tkI s0 ops,
  users U -> chain_ok c = true -> find_tok g i = Some tkI -> t_kind tkI = KMod ->
  recs_wf U (sr s0) -> Forall (op_ok U) ops ->
  let s := steps g s0 ops in
  supply_of (10 * i + c) s - net_in c i s = supply_of (10 * i + c) s0 - net_in c i s0.
Proof. exact alias_supply. Qed.
Print Assumptions C04_alias_supply.

(* escrow identity: chain module + other module accounts + users hold exactly what is bridged in through c *)
Theorem C04_escrow_identity : forall U g i c tkI s0 ops,
  users U -> chain_ok c = true -> find_tok g i = Some tkI -> t_kind tkI = KMod ->
  recs_wf U (sr s0) -> Forall (op_ok U) ops ->
  let s := steps g s0 ops in
  held_total U (10 * i + c) s - net_in c i s = held_total U (10 * i + c) s0 - net_in c i s0.
Proof. exact escrow_identity. Qed.
Print Assumptions C04_escrow_identity.

(* withdrawable, the true guarded statement: a holder's send is accepted whenever (module-owned kind only) the chain
   module itself holds the amount in the bridge denomination; FX and externally-owned tokens need nothing module-side *)
Theorem C04_withdrawable_guarded : forall g s c i tk a amt fee,
  find_tok g i = Some tk -> on_chain tk c = true -> a <> cacc c -> 0 < amt -> 0 < fee ->
  amt + fee <= cget (CB a (base_of tk)) (sb s) ->
  0 <= cget (CB (cacc c) (base_of tk)) (sb s) -> 0 <= cget (CB a (alias_of tk c)) (sb s) ->
  0 <= cget (CB (cacc c) (alias_of tk c)) (sb s) ->
  (t_kind tk = KMod -> amt + fee <= cget (CB (cacc c) (alias_of tk c)) (sb s)) ->
  snd (step g s (OSendToExternal c i a amt fee)) = true.
Proof. exact withdrawable_guarded. Qed.
Print Assumptions C04_withdrawable_guarded.

(* its premises hold together (state after one executed deposit).  (1)(2)(3) environment: registered token with a bridge token
   on c, a user is not a module account; (4)(5) MsgSendToExternal.ValidateBasic; (6) the property's own hypothesis; (7)-(9) bank
   balances are never negative; (10) is what finding C04-1 leaves of "the amount is bridged in through c" (it would follow from
   C04_escrow_identity if the older-rule refund did not park the bridge denomination in the erc20 module); C04-2 / C04-4 are
   about other entry points (bridge-call refunds, IBC targets) and put no premise here *)
Theorem C04_withdrawable_guarded_satisfiable :
  let s := steps ex_cfg ex_s0 [OSendToFx 1 1 100 1000 0] in
  find_tok ex_cfg 1 = Some ex_tk1 /\ on_chain ex_tk1 1 = true /\ 100 <> cacc 1 /\ 0 < 990 /\ 0 < 10 /\
  990 + 10 <= cget (CB 100 (base_of ex_tk1)) (sb s) /\
  0 <= cget (CB (cacc 1) (base_of ex_tk1)) (sb s) /\ 0 <= cget (CB 100 (alias_of ex_tk1 1)) (sb s) /\
  0 <= cget (CB (cacc 1) (alias_of ex_tk1 1)) (sb s) /\
  (t_kind ex_tk1 = KMod -> 990 + 10 <= cget (CB (cacc 1) (alias_of ex_tk1 1)) (sb s)) /\
  snd (step ex_cfg s (OSendToExternal 1 1 100 990 10)) = true.
Proof. exact withdrawable_guarded_premises_satisfiable. Qed.
Print Assumptions C04_withdrawable_guarded_satisfiable.

(* the full reading (refused only if the amount exceeds what is bridged in through c) is FALSE of the code as it is:
   after the older-rule refund of a failed bridge call the bridge denomination sits in the erc20 module account *)
Theorem C04_withdrawable_refuted :
  exists g s0 ops c i a amt fee,
    let s := steps g s0 ops in
    amt + fee <= get2 (a, 10 * i) (bank (sb s)) /\ amt + fee <= net_in c i s /\
    snd (step g s (OSendToExternal c i a amt fee)) = false.
Proof. exact withdrawable_refuted. Qed.
Print Assumptions C04_withdrawable_refuted.

(* a refund is not always possible: the failed-result refund of a call carrying an externally-owned token is refused *)
Theorem C04_refund_refused_witness :
  exists g s0 ops c n,
    let s := steps g s0 ops in
    find_call c n (calls (sr s)) <> None /\ snd (step g s (OBridgeCallResult c n false)) = false.
Proof. exact refund_refused_witness. Qed.
Print Assumptions C04_refund_refused_witness.

(* IBC: FX held as WFX cannot be sent over IBC through crossChain, and an FX deposit with an IBC target cannot be executed,
   although holder resp. chain module have the coins (finding C04-4); the msg.value path works *)
Theorem C04_ibc_fx_refuted :
  let s := steps ex_cfg ex_s0 [OConvertCoin 0 100 100 1000] in
  1000 <= get2 (0, 100) (ebal (sb s)) /\ snd (step ex_cfg s (OPreCrossChainIbc 0 100 100 false)) = false /\
  300 <= get2 (1, 0) (bank (sb s)) /\ snd (step ex_cfg s (OSendToFx 1 0 100 300 2)) = false /\
  snd (step ex_cfg s (OPreCrossChainIbc 0 100 100 true)) = true.
Proof. exact ibc_fx_refuted. Qed.
Print Assumptions C04_ibc_fx_refuted.

(* observation: an inbound ICS-20 packet of any denomination other than the native coin is refused in every state (ibc-go
   gives the voucher bank metadata before the middleware runs; ManyToOne then takes it for a base denom without a pair) *)
Theorem C04_ibc_voucher_unreceivable : forall g s t tk a x,
  find_tok g t = Some tk -> is_fx tk = false -> snd (step g s (OIbcRecv t a x)) = false.
Proof. exact ibc_voucher_unreceivable. Qed.
Print Assumptions C04_ibc_voucher_unreceivable.

(* non-vacuity over whole histories: a deposit is executed and its whole amount withdrawn again (send, batch, batch observed
   as executed): all four steps accepted, holdings 0 -> 1000 -> 0, in flight 0 -> 1000 -> 0, the bridge denomination minted
   and burned, one deposit event and one withdrawal event of 1000 *)
Theorem C04_nonvacuous :
  Forall (op_ok ex_U) ex_round /\ accepted ex_cfg ex_s0 ex_round = [true; true; true; true] /\
  let s1 := steps ex_cfg ex_s0 (firstn 1 ex_round) in let s3 := steps ex_cfg ex_s0 (firstn 3 ex_round) in
  let s := steps ex_cfg ex_s0 ex_round in
  (user_holdings ex_U 1 ex_s0, user_holdings ex_U 1 s1, user_holdings ex_U 1 s3, user_holdings ex_U 1 s) = (0, 1000, 0, 0) /\
  (in_flight 1 s1, in_flight 1 s3, in_flight 1 s) = (0, 1000, 0) /\
  (supply_of 11 s1, supply_of 11 s3, supply_of 11 s) = (1000, 0, 0) /\
  deps_of ex_cfg ex_s0 ex_round = [(1, 1, 1000)] /\ exes_of ex_cfg ex_s0 ex_round = [(1, 1, 1000)] /\
  (deposited 1 s, executed_out 1 s, net_in 1 1 s) = (1000, 1000, 0).
Proof. exact round_trip_nonvacuous. Qed.
Print Assumptions C04_nonvacuous.

(* a longer mixed history (two deposits, sends of two tokens, a conversion, a batch, a cancelled precompile send, a two-token
   bridge call with a successful result): all eleven steps accepted, its events, and the values of the observables *)
Theorem C04_nonvacuous_mixed :
  accepted ex_cfg ex_s0 ex_hist = [true; true; true; true; true; true; true; true; true; true; true] /\
  deps_of ex_cfg ex_s0 ex_hist = [(1, 1, 1000); (1, 2, 500)] /\
  exes_of ex_cfg ex_s0 ex_hist = [(1, 1, 107); (0, 1, 20); (1, 1, 30)].
Proof. exact mixed_history_all_accepted. Qed.
Print Assumptions C04_nonvacuous_mixed.

Theorem C04_nonvacuous_mixed_values :
  Forall (op_ok ex_U) ex_hist /\
  map (fun o => snd (step ex_cfg (steps ex_cfg ex_s0 (firstn 0 ex_hist)) o)) (firstn 1 ex_hist) = [true] /\
  let s := steps ex_cfg ex_s0 ex_hist in
  (user_holdings ex_U 1 s, in_flight 1 s, deposited 1 s, executed_out 1 s) = (1363, 0, 1500, 137) /\
  (user_holdings ex_U 0 s, in_flight 0 s, deposited 0 s, executed_out 0 s) = (4925, 55, 0, 20) /\
  net_in 1 1 s = 863 /\ supply_of 11 s = 863 /\ held_total ex_U 11 s = 863.
Proof. exact conservation_nonvacuous. Qed.
Print Assumptions C04_nonvacuous_mixed_values.
