(* Property C04 — bridge solvency: per token, what users hold on fxcore in any representation plus what is in flight
   equals initial holdings plus deposits minus withdrawals observed as executed; no operation touches an account it does
   not name; holdings stay withdrawable (reading and refutation below).
   Model: coq/model/M_Ledger.v (transcription of x/crosschain many_to_one / pool / batch / bridge-call code, the
   crosschain precompile and the erc20 conversions), tied to /repo by harness/c04 on every run. *)
From Coq Require Import ZArith List.
From FxV Require Import model.M_Ledger proofs.P_Ledger proofs.P_LedgerC04.
Import ListNotations.
Open Scope Z_scope.

(* for every token t, every set U of non-module accounts and every list of operations naming only accounts of U *)
Theorem C04_conservation : forall U g t s0 ops,
  users U -> recs_wf U (sr s0) -> Forall (op_ok U) ops ->
  let s := steps g s0 ops in
  user_holdings U t s + in_flight t s =
  user_holdings U t s0 + in_flight t s0 + (deposited t s - deposited t s0) - (executed_out t s - executed_out t s0).
Proof. exact conservation. Qed.
Print Assumptions C04_conservation.

(* user_holdings sums, over the users, the ten denominations of the token (base, bridge denoms, IBC voucher) and the ERC-20 *)
Theorem C04_holdings_is_the_sum : forall U t s,
  user_holdings U t s =
  fold_right (fun a acc => (fold_right (fun r acc' => get2 (a, 10 * t + r) (bank (sb s)) + acc') 0 reps
                            + get2 (t, a) (ebal (sb s))) + acc) 0 U.
Proof. exact user_holdings_unfold. Qed.
Print Assumptions C04_holdings_is_the_sum.

(* an account that is not named, is no module account and no stored refund address keeps every bank and ERC-20 balance *)
Theorem C04_local : forall U g a0 s0 ops,
  ~ In a0 U -> is_module a0 = false -> recs_wf U (sr s0) -> Forall (op_ok U) ops ->
  let s := steps g s0 ops in
  (forall d, get2 (a0, d) (bank (sb s)) = get2 (a0, d) (bank (sb s0))) /\
  (forall i, get2 (i, a0) (ebal (sb s)) = get2 (i, a0) (ebal (sb s0))).
Proof. exact frame. Qed.
Print Assumptions C04_local.

(* a refused operation changes nothing (the model's transaction semantics, checked against the real cache branch) *)
Theorem C04_refused_unchanged : forall g s o, snd (step g s o) = false -> fst (step g s o) = s.
Proof. exact refused_unchanged. Qed.
Print Assumptions C04_refused_unchanged.

(* module-owned token i on chain c: the supply of its bridge denomination tracks what is bridged in through c *)
Theorem C04_alias_supply : forall U g i c tkI s0 ops,
  users U -> chain_ok c = true -> find_tok g i = Some tkI -> t_kind tkI = KMod ->
  recs_wf U (sr s0) -> Forall (op_ok U) ops ->
  let s := steps g s0 ops in
  supply_of (10 * i + c) s - net_in c i s = supply_of (10 * i + c) s0 - net_in c i s0.
Proof. exact alias_supply. Qed.
Print Assumptions C04_alias_supply.

(* escrow identity: chain module + other module accounts + users hold exactly what is bridged in through c *)
Theorem C04_escrow_identity : forall U g i c tkI s0 ops,
  users U -> chain_ok c = true -> find_tok g i = Some tkI -> t_kind tkI = KMod ->
  recs_wf U (sr s0) -> Forall (op_ok U) ops ->
  let s := steps g s0 ops in
  held_total U (10 * i + c) s - net_in c i s = held_total U (10 * i + c) s0 - net_in c i s0.
Proof. exact escrow_identity. Qed.
Print Assumptions C04_escrow_identity.

(* withdrawable, the true guarded statement: a holder's send is accepted whenever (module-owned kind only) the chain
   module itself holds the amount in the bridge denomination; FX and externally-owned tokens need nothing module-side *)
Theorem C04_withdrawable_guarded : forall g s c i tk a amt fee,
  find_tok g i = Some tk -> on_chain tk c = true -> a <> cacc c -> 0 < amt -> 0 < fee ->
  amt + fee <= cget (CB a (base_of tk)) (sb s) ->
  0 <= cget (CB (cacc c) (base_of tk)) (sb s) -> 0 <= cget (CB a (alias_of tk c)) (sb s) ->
  0 <= cget (CB (cacc c) (alias_of tk c)) (sb s) ->
  (t_kind tk = KMod -> amt + fee <= cget (CB (cacc c) (alias_of tk c)) (sb s)) ->
  snd (step g s (OSendToExternal c i a amt fee)) = true.
Proof. exact withdrawable_guarded. Qed.
Print Assumptions C04_withdrawable_guarded.

(* the full reading (refused only if the amount exceeds what is bridged in through c) is FALSE of the code as it is:
   after the older-rule refund of a failed bridge call the bridge denomination sits in the erc20 module account *)
Theorem C04_withdrawable_refuted :
  exists g s0 ops c i a amt fee,
    let s := steps g s0 ops in
    amt + fee <= get2 (a, 10 * i) (bank (sb s)) /\ amt + fee <= net_in c i s /\
    snd (step g s (OSendToExternal c i a amt fee)) = false.
Proof. exact withdrawable_refuted. Qed.
Print Assumptions C04_withdrawable_refuted.

(* a refund is not always possible: the failed-result refund of a call carrying an externally-owned token is refused *)
Theorem C04_refund_refused_witness :
  exists g s0 ops c n,
    let s := steps g s0 ops in
    find_call c n (calls (sr s)) <> None /\ snd (step g s (OBridgeCallResult c n false)) = false.
Proof. exact refund_refused_witness. Qed.
Print Assumptions C04_refund_refused_witness.

(* IBC: FX held as WFX cannot be sent over IBC through crossChain, and an FX deposit with an IBC target cannot be executed,
   although holder resp. chain module have the coins (finding C04-4); the msg.value path works *)
Theorem C04_ibc_fx_refuted :
  let s := steps ex_cfg ex_s0 [OConvertCoin 0 100 100 1000] in
  1000 <= get2 (0, 100) (ebal (sb s)) /\ snd (step ex_cfg s (OPreCrossChainIbc 0 100 100 false)) = false /\
  300 <= get2 (1, 0) (bank (sb s)) /\ snd (step ex_cfg s (OSendToFx 1 0 100 300 2)) = false /\
  snd (step ex_cfg s (OPreCrossChainIbc 0 100 100 true)) = true.
Proof. exact ibc_fx_refuted. Qed.
Print Assumptions C04_ibc_fx_refuted.

(* observation: an inbound ICS-20 packet of any denomination other than the native coin is refused in every state (ibc-go
   gives the voucher bank metadata before the middleware runs; ManyToOne then takes it for a base denom without a pair) *)
Theorem C04_ibc_voucher_unreceivable : forall g s t tk a x,
  find_tok g t = Some tk -> is_fx tk = false -> snd (step g s (OIbcRecv t a x)) = false.
Proof. exact ibc_voucher_unreceivable. Qed.
Print Assumptions C04_ibc_voucher_unreceivable.

Theorem C04_nonvacuous :
  Forall (op_ok ex_U) ex_hist /\
  map (fun o => snd (step ex_cfg (steps ex_cfg ex_s0 (firstn 0 ex_hist)) o)) (firstn 1 ex_hist) = [true] /\
  let s := steps ex_cfg ex_s0 ex_hist in
  (user_holdings ex_U 1 s, in_flight 1 s, deposited 1 s, executed_out 1 s) = (1363, 0, 1500, 137) /\
  (user_holdings ex_U 0 s, in_flight 0 s, deposited 0 s, executed_out 0 s) = (4925, 55, 0, 20) /\
  net_in 1 1 s = 863 /\ supply_of 11 s = 863 /\ held_total ex_U 11 s = 863.
Proof. exact conservation_nonvacuous. Qed.
Print Assumptions C04_nonvacuous.
