(* Property C05: every outgoing transfer / outgoing bridge call has a unique, never reused identifier, is at any
   time in exactly one place (pool, one batch, settled), is settled once; only the creator can cancel; a fee increase
   costs exactly the added fee; a cancelled batch returns its transfers unchanged; the queued payload is the supplied one.
   All statements are over coq/model/M_Pool.v (tied to x/crosschain/keeper by harness/c05 on every run). *)
From Coq Require Import ZArith List Permutation.
From FxV Require Import gen.Gen_TimeoutRules model.M_Pool proofs.P_Pool proofs.P_C05.
Import ListNotations.
Open Scope Z_scope.

Theorem C05_reachable_invariant : forall s, reachable s -> Inv s.
Proof. exact reachable_inv. Qed.
Print Assumptions C05_reachable_invariant.

Theorem C05_fresh_ids : forall s o, reachable s -> forall x, In x (live (step_state s o)) ->
  (exists y, In y (live s) /\ tx_id y = tx_id x) \/
  (tx_id x = next_tx s /\ next_tx (step_state s o) = next_tx s + 1 /\ (forall y, In y (live s) -> tx_id y < tx_id x)
   /\ exists sender dest amount fee token, is_send o sender dest amount fee token).
Proof. intros s o R; apply fresh_ids, reachable_inv, R. Qed.
Print Assumptions C05_fresh_ids.

Theorem C05_counters_never_go_back : forall s o, reachable s ->
  next_tx s <= next_tx (step_state s o) /\ next_batch s <= next_batch (step_state s o) /\ next_call s <= next_call (step_state s o).
Proof. intros s o R; apply counters_monotone, reachable_inv, R. Qed.
Print Assumptions C05_counters_never_go_back.

Theorem C05_fresh_batch_and_call_nonces : forall s o, reachable s ->
  (forall b, In b (batches (step_state s o)) ->
     In b (batches s) \/ (b_nonce b = next_batch s /\ next_batch (step_state s o) = next_batch s + 1 /\
                           forall y, In y (batches s) -> b_nonce y < b_nonce b)) /\
  (forall c, In c (calls (step_state s o)) ->
     In c (calls s) \/ (c_nonce c = next_call s /\ next_call (step_state s o) = next_call s + 1 /\
                         forall y, In y (calls s) -> c_nonce y < c_nonce c)).
Proof. intros s o R; split; [apply fresh_batch_nonces | apply fresh_call_nonces]; apply reachable_inv, R. Qed.
Print Assumptions C05_fresh_batch_and_call_nonces.

Theorem C05_exactly_one_place : forall s id p q, reachable s -> at_place s id p -> at_place s id q -> p = q.
Proof. intros s id p q R; apply exactly_one_place, reachable_inv, R. Qed.
Print Assumptions C05_exactly_one_place.

Theorem C05_no_id_twice : forall s, reachable s -> NoDup (ids (live s)) /\ (forall x, In x (live s) -> tx_id x < next_tx s).
Proof. intros s R; pose proof (reachable_inv _ R) as I; split; apply I. Qed.
Print Assumptions C05_no_id_twice.

Theorem C05_settle_once : forall ops s id, reachable s -> settled s id -> settled (run s ops) id.
Proof. intros ops s id R; apply settled_forever_run, reachable_inv, R. Qed.
Print Assumptions C05_settle_once.

Theorem C05_leaves_only_by_cancel_or_execution : forall s o s' evs x, reachable s -> accepted s o s' evs ->
  In x (live s) -> ~ is_live s' (tx_id x) ->
  (o = Cancel (tx_id x) (tx_sender x) /\ In x (pool s)) \/
  (exists h b, o = BatchExecuted (b_token b) (b_nonce b) h /\ In b (batches s) /\ In x (b_txs b)).
Proof. intros s o s' evs x R; apply leaves_only_by, reachable_inv, R. Qed.
Print Assumptions C05_leaves_only_by_cancel_or_execution.

Theorem C05_cancel_auth : forall s id who s' evs, reachable s -> accepted s (Cancel id who) s' evs ->
  exists x, In x (pool s) /\ tx_id x = id /\ tx_sender x = who /\ ~ is_live s' id /\
            evs = [EvTxRefund id who (tx_amount x + tx_fee x) (tx_token x)].
Proof. intros s id who s' evs R; apply cancel_auth, reachable_inv, R. Qed.
Print Assumptions C05_cancel_auth.

Theorem C05_executed_then_no_refund : forall s token nonce h s' evs x ops id who s2 evs2, reachable s ->
  accepted s (BatchExecuted token nonce h) s' evs -> In x (live s) -> ~ is_live s' (tx_id x) -> id = tx_id x ->
  ~ accepted (run s' ops) (Cancel id who) s2 evs2.
Proof. intros s token nonce h s' evs x ops id who s2 evs2 R; apply executed_then_no_refund, reachable_inv, R. Qed.
Print Assumptions C05_executed_then_no_refund.

(* ---- payload, preservation, ledger ---- *)
From FxV Require Import proofs.P_C06 proofs.P_C06b proofs.P_C05ex.

Theorem C05_payload_preserved : forall s o s' evs, reachable s -> accepted s o s' evs -> forall x', In x' (live s') ->
  In x' (live s) \/
  (exists sender dest amount fee token, is_send o sender dest amount fee token /\ 0 < amount /\ 0 <= fee /\
      x' = mk_tx (next_tx s) sender dest token amount fee /\ In x' (pool s')) \/
  (exists x who add token, In x (pool s) /\ is_fee_inc o (tx_id x) who add token /\ 0 < add /\
      x' = with_fee x (tx_fee x + add) /\ In x' (pool s')).
Proof. intros s o s' evs R; apply payload_preserved, reachable_inv, R. Qed.
Print Assumptions C05_payload_preserved.

Theorem C05_live_records_unchanged : forall s o s' evs, reachable s -> accepted s o s' evs -> forall x, In x (live s) ->
  In x (live s') \/
  (o = Cancel (tx_id x) (tx_sender x) /\ In x (pool s)) \/
  (exists who add token, is_fee_inc o (tx_id x) who add token /\ In x (pool s) /\
      In (with_fee x (tx_fee x + add)) (pool s')) \/
  (exists h b, o = BatchExecuted (b_token b) (b_nonce b) h /\ In b (batches s) /\ In x (b_txs b)).
Proof. intros s o s' evs R; apply live_preserved, reachable_inv, R. Qed.
Print Assumptions C05_live_records_unchanged.

Theorem C05_cancel_batch_restores : forall c s b s' evs, reachable s -> cancel_batch c s b = ROk (s', evs) ->
  exists b0, In b0 (batches s) /\ b_token b0 = b_token b /\ b_nonce b0 = b_nonce b /\
    (forall x, In x (b_txs b0) -> In x (pool s')) /\ ~ In b0 (batches s') /\
    Permutation (live s') (live s) /\ bal s' = bal s.
Proof. intros c s b s' evs R; apply cancel_batch_restores, reachable_inv, R. Qed.
Print Assumptions C05_cancel_batch_restores.

(* refund of exactly amount + fee to the account that created the transfer, stated per origin: base coins in the bank for
   MsgSendToExternal (and for FX sent from the EVM), ERC-20 tokens for a transfer started from the EVM with an ERC-20 token
   (refund_component = 2 exactly when the erc20 outgoing relation exists); afterwards the relation is gone *)
Theorem C05_refund_exact : forall s id who s' evs, reachable s -> 0 <= who -> accepted s (Cancel id who) s' evs ->
  exists x, In x (pool s) /\ tx_id x = id /\ tx_sender x = who /\
    get_bal (bal s') (who, tx_token x, refund_component s id) =
    get_bal (bal s) (who, tx_token x, refund_component s id) + (tx_amount x + tx_fee x) /\
    (forall k, user_key k -> k <> (who, tx_token x, refund_component s id) -> get_bal (bal s') k = get_bal (bal s) k) /\
    ~ In id (relation s').
Proof. intros s id who s' evs R; apply refund_exact, reachable_inv, R. Qed.
Print Assumptions C05_refund_exact.

(* the erc20 outgoing relation exists exactly for the live transfers that were started from the EVM with an ERC-20 token:
   only for live ids; kept exactly while live; created only by such a send *)
Theorem C05_relation_only_for_live_transfers : forall s, reachable s ->
  (forall r, In r (relation s) -> is_live s r) /\ NoDup (relation s).
Proof. intros s R; apply relation_only_live, reachable_inv, R. Qed.
Print Assumptions C05_relation_only_for_live_transfers.

Theorem C05_relation_kept_while_live_created_by_evm_erc20_send : forall s o s' evs, reachable s -> accepted s o s' evs -> forall r,
  In r (relation s') <-> (In r (relation s) /\ is_live s' r) \/ (r = next_tx s /\ evm_erc20_send s o).
Proof. intros s o s' evs R; apply relation_step, reachable_inv, R. Qed.
Print Assumptions C05_relation_kept_while_live_created_by_evm_erc20_send.

Theorem C05_relation_nonvacuous :
  relation (run r_init (firstn 5 r_ops)) = [2; 1] /\
  (let s := run r_init (firstn 6 r_ops) in relation s = [2] /\ get_bal (bal s) (0, 3, 2) = 1000 /\ get_bal (bal s) (0, 3, 0) = 5000 - 29) /\
  (let s := run r_init (firstn 8 r_ops) in get_bal (bal s) (0, 3, 0) = 5000 /\ get_bal (bal s) (0, 0, 0) = 5000 /\ get_bal (bal s) (0, 3, 2) = 1000) /\
  (let s := run r_init r_ops in relation s = [] /\ pool s = [] /\ batches s = [] /\ get_bal (bal s) (1, 3, 2) = 963).
Proof. exact relation_example. Qed.
Print Assumptions C05_relation_nonvacuous.

Theorem C05_fee_exact : forall s id who add token which s' evs, reachable s -> 0 <= who ->
  accepted s (IncreaseFee id who add token which) s' evs ->
  0 < add /\
  (exists w, get_bal (bal s') (who, token, w) = get_bal (bal s) (who, token, w) - add /\
     forall k, user_key k -> k <> (who, token, w) -> get_bal (bal s') k = get_bal (bal s) k) /\
  (exists x L, In x (pool s) /\ tx_id x = id /\ tx_token x = token /\
     Permutation (pool s) (x :: L) /\ Permutation (pool s') (with_fee x (tx_fee x + add) :: L)) /\
  batches s' = batches s /\ calls s' = calls s /\
  next_tx s' = next_tx s /\ next_batch s' = next_batch s /\ next_call s' = next_call s /\ obs_ext s' = obs_ext s /\ evs = [].
Proof. intros s id who add token which s' evs R; apply fee_exact, reachable_inv, R. Qed.
Print Assumptions C05_fee_exact.

Theorem C05_call_payload : forall s o s' evs, reachable s -> accepted s o s' evs -> forall c, In c (calls s') ->
  In c (calls s) \/
  (c_nonce c = next_call s /\ c_evnonce c = 0 /\ c_block c = fxh s /\
   (o = BridgeCall (c_sender c) (c_refund c) (c_tokens c) (c_to c) (c_data c) (c_memo c) \/
    exists value tokens, o = BridgeCallP (c_sender c) (c_refund c) value tokens (c_to c) (c_data c) (c_memo c) /\
                         c_tokens c = (if 0 <? value then [(0, value)] else []) ++ tokens)).
Proof. intros s o s' evs R; apply call_payload, reachable_inv, R. Qed.
Print Assumptions C05_call_payload.

(* the refund goes to the call's REFUND address: bank coins when the call was created by MsgBridgeCall, ERC-20 tokens
   (registered coin) when it was created by the precompile; nobody else's balance moves, in particular not the sender's *)
Theorem C05_call_refund_exact : forall cs s c s' evs, 0 <= c_refund c -> coins_valid (-1) (c_tokens c) = true ->
  refund_call cs s c = ROk (s', evs) ->
  evs = [EvCallRefund (c_nonce c) (c_refund c) (c_tokens c) cs] /\
  (forall t a, In (t, a) (c_tokens c) -> exists kd, kind_of (toks s) t = Some kd /\
      get_bal (bal s') (c_refund c, t, refund_which kd (call_from_msg s c)) =
      get_bal (bal s) (c_refund c, t, refund_which kd (call_from_msg s c)) + a) /\
  (forall k, user_key k -> fst (fst k) <> c_refund c -> get_bal (bal s') k = get_bal (bal s) k).
Proof. exact call_refund_exact. Qed.
Print Assumptions C05_call_refund_exact.

Theorem C05_precompile_call_refund_nonvacuous :
  let s := run p_init p_ops in
  calls (run p_init (firstn 2 p_ops)) <> [] /\ from_msg (run p_init (firstn 2 p_ops)) = [] /\ calls s = [] /\
  get_bal (bal s) (1, 0, 0) = 50 /\ get_bal (bal s) (1, 3, 2) = 60 /\ get_bal (bal s) (1, 3, 0) = 0 /\
  get_bal (bal s) (0, 0, 0) = 4950 /\ get_bal (bal s) (0, 3, 2) = 940 /\ get_bal (bal s) (0, 3, 0) = 0.
Proof. exact precompile_call_refund_example. Qed.
Print Assumptions C05_precompile_call_refund_nonvacuous.

Theorem C05_call_settled_once : forall ops s n, reachable s -> call_settled s n -> call_settled (run s ops) n.
Proof. intros ops s n R; apply call_settled_forever, reachable_inv, R. Qed.
Print Assumptions C05_call_settled_once.

(* "settled by an observed execution, after which it can never be refunded" is FALSE for bridge calls: the observed
   result is only parked; witness (replayed on the real application by harness/c05, finding C06-1) *)
Theorem C05_call_refund_after_observed_execution_refuted :
  exists s1 s2 s3 c, reachable s1 /\ In c (calls s1) /\ c_nonce c = 1 /\ c_timeout c = 1003 /\
    step s1 (ObserveResult 1 true 1002) = (s2, [], Ok) /\
    step s2 (Observe 1003) = (s3, [EvCallRefund 1 1 [(0, 50); (1, 60)] ByTimeout], Ok).
Proof. exact call_refund_after_observed_execution_refuted. Qed.
Print Assumptions C05_call_refund_after_observed_execution_refuted.

Theorem C05_nonvacuous :
  reachable ex_state /\ at_place ex_state 1 (InBatch 0 1) /\ at_place ex_state 3 InPool /\ settled ex_state 2 /\
  map (fun x => (tx_id x, tx_fee x)) (pool ex_state) = [(3, 13)] /\
  get_bal (bal ex_state) (0, 1, 0) = get_bal (bal nv_init) (0, 1, 0).
Proof. exact c05_nonvacuous. Qed.
Print Assumptions C05_nonvacuous.

(* ---- genesis export/import (finding C05-2) and the delay of time-out refunds ---- *)
From FxV Require Import proofs.P_C05g.

(* "unique, never-reused identifier" is FALSE across a genesis export + import of the module: the counters are not part of
   the genesis state (and the outgoing bridge calls are dropped); replayed on the real application by harness/c05 *)
Theorem C05_ids_across_genesis_export_import_refuted :
  reachable g_before /\
  live g_after = live g_before /\ next_tx g_before = 5 /\ next_tx g_after = 1 /\
  calls g_before <> [] /\ calls g_after = [] /\
  (let s1 := step_state g_after (Send 0 2 20 30 0) in
   ~ NoDup (ids (live s1)) /\ at_place s1 1 InPool /\ at_place s1 1 (InBatch 0 1)) /\
  (let s2 := run g_after [Send 0 2 20 30 0; NextBlock; RequestBatch 0 1 0 0 1 true] in
   map b_nonce (batches s2) = [1] /\ In 3 (ids (live g_after)) /\ ~ In 3 (ids (live s2)) /\
   get_bal (bal s2) (2, 0, 0) = get_bal (bal g_after) (2, 0, 0)).
Proof. exact export_import_refuted. Qed.
Print Assumptions C05_ids_across_genesis_export_import_refuted.

Theorem C05_genesis_export_import_keeps_records_and_patched_counters_suffice : forall s, reachable s ->
  (live (export_import s) = live s /\ NoDup (ids (live (export_import s))) /\ NoDup (bnonces (batches (export_import s)))) /\
  Inv (export_import_patched s).
Proof. intros s R. pose proof (reachable_inv _ R) as I. split; [apply export_import_keeps_records | apply export_import_patched_inv]; exact I. Qed.
Print Assumptions C05_genesis_export_import_keeps_records_and_patched_counters_suffice.

(* cleanupTimeOutBridgeCall stops at the first call that has not timed out: a timed-out call is nevertheless refunded by
   the first observed event whose height has reached the time-outs of all calls stored before it (lower nonces) and its own *)
Theorem C05_timed_out_call_refunded_unless_an_older_call_blocks : forall s h s' evs pre c post, reachable s ->
  accepted s (Observe h) s' evs -> calls s = pre ++ c :: post ->
  (forall x, In x (pre ++ [c]) -> c_timeout x <= h) ->
  ~ In (c_nonce c) (cnonces (calls s')) /\ In (EvCallRefund (c_nonce c) (c_refund c) (c_tokens c) ByTimeout) evs.
Proof. intros s h s' evs pre c post R; apply timed_out_call_refunded_unless_blocked, reachable_inv, R. Qed.
Print Assumptions C05_timed_out_call_refunded_unless_an_older_call_blocks.

(* the module migration run by the v8 upgrade is a lifecycle operation of the model ([Migrate], so every theorem above
   covers histories containing it); it rewrites parameters and nothing else *)
Theorem C05_migrate_preserves_ids_records_and_heights : forall s s' evs, accepted s Migrate s' evs ->
  pool s' = pool s /\ batches s' = batches s /\ by_block s' = by_block s /\
  next_tx s' = next_tx s /\ next_batch s' = next_batch s /\ next_call s' = next_call s /\
  calls s' = calls s /\ by_sender s' = by_sender s /\ from_msg s' = from_msg s /\ pending s' = pending s /\
  evn s' = evn s /\ obs_ext s' = obs_ext s /\ obs_fx s' = obs_fx s /\ fxh s' = fxh s /\
  bal s' = bal s /\ toks s' = toks s /\ relation s' = relation s /\ evs = [] /\
  p_batch_timeout (prm s') = p_batch_timeout (prm s) /\ p_avg_block (prm s') = p_avg_block (prm s) /\
  p_avg_ext (prm s') = p_avg_ext (prm s) /\ p_max_elems (prm s') = p_max_elems (prm s) /\ p_call_timeout (prm s') = 604800000.
Proof. exact migrate_preserves. Qed.
Print Assumptions C05_migrate_preserves_ids_records_and_heights.

(* ---- the precompile entry points (crossChain, increaseBridgeFee; cancelSendToExternal and executeClaim run the same keeper
   code as the messages) ---- *)
(* a fee increase through the precompile costs the payer exactly the added fee in the form it was offered in (FX from the bank,
   a token as ERC-20) and moves no other user balance; the transfer's origin (relation) is untouched, so a later refund
   still goes back in the form the TRANSFER came in (C05_refund_exact) *)
Theorem C05_fee_exact_through_precompile : forall s id who add token s' evs, reachable s -> 0 <= who ->
  accepted s (IncreaseFeeP id who add token) s' evs ->
  0 < add /\
  (exists k, kind_of (toks s) token = Some k /\
     get_bal (bal s') (who, token, offered_component k) = get_bal (bal s) (who, token, offered_component k) - add /\
     forall k0, user_key k0 -> k0 <> (who, token, offered_component k) -> get_bal (bal s') k0 = get_bal (bal s) k0) /\
  (exists x L, In x (pool s) /\ tx_id x = id /\ tx_token x = token /\
     Permutation (pool s) (x :: L) /\ Permutation (pool s') (with_fee x (tx_fee x + add) :: L)) /\
  batches s' = batches s /\ calls s' = calls s /\ relation s' = relation s /\
  next_tx s' = next_tx s /\ next_batch s' = next_batch s /\ next_call s' = next_call s /\ obs_ext s' = obs_ext s /\ evs = [].
Proof. intros s id who add token s' evs R; apply fee_exact_p, reachable_inv, R. Qed.
Print Assumptions C05_fee_exact_through_precompile.

(* ---- genesis round trip: what is preserved, what is not ---- *)
Theorem C05_genesis_export_import_preserves : forall s,
  let s' := export_import s in
  pool s' = pool s /\ batches s' = batches s /\ by_block s' = by_block s /\
  evn s' = evn s /\ obs_ext s' = obs_ext s /\ obs_fx s' = obs_fx s /\ fxh s' = fxh s /\
  bal s' = bal s /\ prm s' = prm s /\ toks s' = toks s /\ relation s' = relation s /\
  next_tx s' = 1 /\ next_batch s' = 1 /\ next_call s' = 1 /\
  calls s' = [] /\ by_sender s' = [] /\ from_msg s' = [] /\ pending s' = [].
Proof. exact export_import_preserves. Qed.
Print Assumptions C05_genesis_export_import_preserves.

(* ---- finding C05-3: "settled ... by a refund to its refund address" cannot happen for a bridge call that carries an
   externally owned ERC-20 (registered through RegisterNativeERC20): the refund panics, so the failure result can never be
   executed and no event at or after the time-out can be observed any more (witness; replayed on the real application) ---- *)
Theorem C05_bridge_call_refund_of_external_erc20_impossible_refuted :
  reachable e_state /\
  map c_nonce (calls e_state) = [1] /\ map c_timeout (calls e_state) = [1003] /\ pending e_state = [(2, (1, false))] /\
  get_bal (bal e_state) (0, 4, 2) = 940 /\ get_bal (bal e_state) (ERC20MOD, 4, 2) = 60 /\ get_bal (bal e_state) (MODULE, 4, 1) = 100060 /\
  snd (step e_state (ExecResult 2)) = Panic /\
  snd (step e_state (Observe 1003)) = Panic /\ snd (step e_state (Observe 5000)) = Panic /\
  snd (step e_state (Observe 1002)) = Ok.
Proof. exact erc20_call_refund_impossible. Qed.
Print Assumptions C05_bridge_call_refund_of_external_erc20_impossible_refuted.

(* ---- settled EXACTLY once, over histories ---- *)
From FxV Require Import proofs.P_C05h.

(* [settle_count s ops id] counts the steps of the history [ops] in which transfer [id] goes from live (pool or a batch) to not
   live. By C05_settlement_has_its_event each such step carries exactly the settlement event (the creator's refund, or the
   execution of its batch). An id that is not yet settled at the start is settled exactly once if it is settled at the end and
   never otherwise; one that is settled already is never settled again. (Settlement on fxcore. Whether the EXTERNAL chain has
   also executed a bridge call that fxcore refunds is C06: excluded for batches, and for bridge calls only under the guard of
   C06_no_double_spend_bridgecall_guarded — finding C06-1; and a bridge call whose refund cannot be paid is never settled at
   all — finding C05-3.) *)
Theorem C05_settled_exactly_once : forall ops s id, reachable s ->
  settle_count s ops id = (if settledb s id then O else if settledb (run s ops) id then 1%nat else O).
Proof. intros ops s id R; apply settled_exactly_once, reachable_inv, R. Qed.
Print Assumptions C05_settled_exactly_once.

Theorem C05_settled_at_most_once : forall ops s id, reachable s -> (settle_count s ops id <= 1)%nat.
Proof. intros ops s id R; apply settled_at_most_once, reachable_inv, R. Qed.
Print Assumptions C05_settled_at_most_once.

Theorem C05_settlement_has_its_event : forall s o s' evs id, reachable s -> accepted s o s' evs -> is_live s id -> ~ is_live s' id ->
  (exists x, In x (pool s) /\ tx_id x = id /\ o = Cancel id (tx_sender x) /\
             evs = [EvTxRefund id (tx_sender x) (tx_amount x + tx_fee x) (tx_token x)]) \/
  (exists h b, o = BatchExecuted (b_token b) (b_nonce b) h /\ In b (batches s) /\ In id (ids (b_txs b)) /\
               In (EvBatchExecuted (b_token b) (b_nonce b)) evs).
Proof. intros s o s' evs id R; apply settlement_has_its_event, reachable_inv, R. Qed.
Print Assumptions C05_settlement_has_its_event.

Theorem C05_call_settled_at_most_once : forall ops s n, reachable s -> (call_settle_count s ops n <= 1)%nat.
Proof. intros ops s n R; apply call_settled_at_most_once, reachable_inv, R. Qed.
Print Assumptions C05_call_settled_at_most_once.

(* ---- histories that CONTAIN a genesis export/import of the module ---- *)
(* guard needed because of finding C05-2: the import re-derives the counters from the imported records ([LImportPatched]);
   with the import as the code does it the statements are false — C05_ids_across_genesis_export_import_refuted, whose
   witness is evaluated in the model and replayed on the real application (corpus/C05/C05-2.json) *)
Theorem C05_reachable_invariant_with_patched_import : forall s, lreachable s -> Inv s.
Proof. exact lreachable_inv. Qed.
Print Assumptions C05_reachable_invariant_with_patched_import.

Theorem C05_exactly_one_place_with_patched_import : forall s id p q, lreachable s -> at_place s id p -> at_place s id q -> p = q.
Proof. intros s id p q R; apply exactly_one_place, lreachable_inv, R. Qed.
Print Assumptions C05_exactly_one_place_with_patched_import.

Theorem C05_fresh_ids_with_patched_import : forall s o, lreachable s -> forall x, In x (live (step_state s o)) ->
  (exists y, In y (live s) /\ tx_id y = tx_id x) \/
  (tx_id x = next_tx s /\ next_tx (step_state s o) = next_tx s + 1 /\ (forall y, In y (live s) -> tx_id y < tx_id x)
   /\ exists sender dest amount fee token, is_send o sender dest amount fee token).
Proof. intros s o R; apply fresh_ids, lreachable_inv, R. Qed.
Print Assumptions C05_fresh_ids_with_patched_import.
