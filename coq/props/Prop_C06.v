(* Property C06: a batch / outgoing bridge call is cancelled or refunded for time-out only in a step that observes an
   external event whose height has reached the time-out; the observed height comes from claims only; nothing is batched
   before an external height was observed; with the contract-side rule and in-order events nothing is both executed and
   released. Statements over coq/model/M_Pool.v and the generated coq/gen/Gen_TimeoutRules.v. *)
From Coq Require Import ZArith List String.
From FxV Require Import gen.Gen_TimeoutRules model.M_Pool proofs.P_Pool proofs.P_C05 proofs.P_C06.
Import ListNotations.
Open Scope Z_scope.

Theorem C06_rules_as_read_from_source :
  (forall t e, batch_cleanup_cancel t e = true -> t <= e) /\
  (forall t e, call_cleanup_stop t e = false -> t <= e) /\
  (forall b t e, contract_batch_ok b t = true -> batch_cleanup_cancel t e = true -> b < e) /\
  (forall b t e, contract_call_ok b t = true -> call_cleanup_stop t e = false -> b < e) /\
  (forall t e e', e <= e' -> batch_cleanup_cancel t e = true -> batch_cleanup_cancel t e' = true) /\
  (forall t e e', e <= e' -> call_cleanup_stop t e = false -> call_cleanup_stop t e' = false) /\
  batch_build_reject 0 = true /\ call_build_reject 0 = true /\ cal_zero_guard 0 = true /\ cal_zero_result = 0.
Proof. exact rules_as_read. Qed.
Print Assumptions C06_rules_as_read_from_source.

Theorem C06_cleanups_called_only_when_an_event_is_observed :
  cleanup_batches_callers = ["TryAttestation"%string] /\ cleanup_calls_callers = ["TryAttestation"%string] /\
  try_attestation_order = ["SetLastObservedBlockHeight"; "processAttestation"; "cleanupTimedOutBatches"; "cleanupTimeOutBridgeCall"]%string.
Proof. exact cleanup_call_sites. Qed.
Print Assumptions C06_cleanups_called_only_when_an_event_is_observed.

Theorem C06_height_written_from_claim_only : forall site, In site set_observed_sites ->
  site = ("InitGenesis", "state.LastObservedBlockHeight.ExternalBlockHeight")%string \/
  site = ("TryAttestation", "claim.GetBlockHeight()")%string.
Proof. exact height_writers. Qed.
Print Assumptions C06_height_written_from_claim_only.

Theorem C06_evidence : forall s o s' evs, reachable s -> accepted s o s' evs ->
  forall e, In e evs -> timeout_event_ok s o e.
Proof. intros s o s' evs R; apply timeout_evidence, reachable_inv, R. Qed.
Print Assumptions C06_evidence.

Theorem C06_no_projection : forall s o, reachable s ->
  obs_ext (step_state s o) = obs_ext s \/
  (exists h, observing o = Some h /\ 0 < h /\ obs_ext (step_state s o) = h /\ obs_fx (step_state s o) = fxh s).
Proof. intros s o R; apply height_from_claim_only, reachable_inv, R. Qed.
Print Assumptions C06_no_projection.

Theorem C06_no_batch_before_observation : forall s token which feercv basefee minfee auth,
  obs_ext s = 0 -> forall s' evs, exec s (RequestBatch token which feercv basefee minfee auth) <> ROk (s', evs).
Proof. exact no_batch_before_observation. Qed.
Print Assumptions C06_no_batch_before_observation.

Theorem C06_nothing_queued_before_observation : forall ops p ts l h0,
  let s := run (init p ts l h0) ops in obs_ext s = 0 -> batches s = [] /\ calls s = [].
Proof. exact nothing_queued_before_observation. Qed.
Print Assumptions C06_nothing_queued_before_observation.

(* ---- second part: the external side ---- *)
From FxV Require Import proofs.P_C06b.

Theorem C06_no_double_spend_batch : forall ops p ts l h0,
  adm_run g0 (init p ts l h0) ops -> executions_find_their_batch (init p ts l h0) ops.
Proof. intros ops p ts l h0. apply no_double_spend_batch; [apply init_inv | apply J_init]. Qed.
Print Assumptions C06_no_double_spend_batch.

Theorem C06_released_batch_never_returns : forall ops s n, reachable s -> batch_gone s n -> batch_gone (run s ops) n.
Proof. intros ops s n R; apply batch_gone_forever, reachable_inv, R. Qed.
Print Assumptions C06_released_batch_never_returns.

Theorem C06_no_double_spend_bridgecall_refuted :
  adm_run g0 w_init w_ops /\
  exists s1 s2 s3 s4 c,
    step (step_state w_init (Observe 1000)) (BridgeCall 0 1 [(0, 50); (1, 60)] 2 [171; 205] []) = (s1, [EvCallCreated 1 1003], Ok) /\
    In c (calls s1) /\ c_nonce c = 1 /\ c_timeout c = 1003 /\
    contract_call_ok 1002 (c_timeout c) = true /\ step s1 (ObserveResult 1 true 1002) = (s2, [], Ok) /\
    step s2 (Observe 1003) = (s3, [EvCallRefund 1 1 [(0, 50); (1, 60)] ByTimeout], Ok) /\
    get_bal (bal s3) (1, 0, 0) = get_bal (bal s1) (1, 0, 0) + 50 /\ get_bal (bal s3) (1, 1, 1) = get_bal (bal s1) (1, 1, 1) + 60 /\
    step s3 (ExecResult 2) = (s4, [], Panic).
Proof. exact no_double_spend_bridgecall_refuted. Qed.
Print Assumptions C06_no_double_spend_bridgecall_refuted.

Theorem C06_no_double_spend_bridgecall_guarded : forall ops p ts l h0,
  adm_run g0 (init p ts l h0) ops -> guarded_run (init p ts l h0) ops -> results_find_their_call (init p ts l h0) ops.
Proof. intros ops p ts l h0. apply no_double_spend_bridgecall_guarded; [apply init_inv | apply J_init | apply JG_init]. Qed.
Print Assumptions C06_no_double_spend_bridgecall_guarded.

Theorem C06_nonvacuous :
  adm_run g0 nv_init nv_ops /\ guarded_run nv_init nv_ops /\
  map (fun o => snd (step (run nv_init (firstn 7 nv_ops)) o)) [BatchExecuted 0 2 700] = [Ok] /\
  snd (step (run nv_init (firstn 9 nv_ops)) (ExecResult 3)) = Ok /\
  batches (run nv_init (firstn 7 nv_ops)) <> [] /\ batches (run nv_init nv_ops) = [] /\
  map tx_id (pool (run nv_init nv_ops)) = [1].
Proof. exact no_double_spend_nonvacuous. Qed.
Print Assumptions C06_nonvacuous.
