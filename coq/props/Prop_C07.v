(* Property C07 (crosschain end-block logic): block processing never halts.
   The statements are about model.M_EndBlock evaluated with what the translator read from the CURRENT
   source (gen.Gen_EndBlock): a code change that hands SlashOracle anything but the account address,
   reorders the phases, or adds a panic site breaks one of these obligations. *)
From Coq Require Import ZArith List String Lia.
From FxV Require Import model.M_EndBlock model.M_Tally gen.Gen_EndBlock proofs.P_EndBlock proofs.P_Tally.
From FxV Require Import lib.Dec model.M_Gov proofs.P_Gov proofs.P_Gov2 proofs.P_Gov3.
Import ListNotations.
Open Scope Z_scope.

(* what the three slashing loops pass to SlashOracle, as read from x/crosschain/keeper/abci.go *)
Theorem C07_slash_args_are_addresses : all_addrb gen_slash_args = true.
Proof. vm_compute. reflexivity. Qed.
Print Assumptions C07_slash_args_are_addresses.

(* for EVERY state of a chain module (any oracles, oracle sets, batches, bridge calls, confirmations,
   cursors, window) and every block height, the end blocker's slashing + oracle-set phases complete *)
Theorem C07_crosschain_endblock_total : forall s h,
  powers_ok (oracles s) -> endblock gen_slash_args s h <> Panic.
Proof. intros s h. apply endblock_never_panics. exact C07_slash_args_are_addresses. Qed.
Print Assumptions C07_crosschain_endblock_total.

(* slashing never changes anybody's stake/power, it only switches oracles offline *)
Theorem C07_slashing_keeps_powers : forall s h r,
  slashing gen_slash_args s h = Ok r -> powers (r_oracles r) = powers (oracles s).
Proof. intros s h r. apply slashing_keeps_powers. apply all_addrb_spec. exact C07_slash_args_are_addresses. Qed.
Print Assumptions C07_slashing_keeps_powers.

(* the model's phase order is the code's *)
Theorem C07_phase_order :
  gen_endblock_phases = ["GetSignedWindow"; "slashing"; "createOracleSetRequest"; "pruneOracleSet"]%string /\
  gen_slashing_calls = ["GetAllOracles"; "oracleSetSlashing"; "batchSlashing"; "bridgeCallSlashing"; "SetLastTotalPower"]%string.
Proof. split; reflexivity. Qed.
Print Assumptions C07_phase_order.

(* every panic site reachable from the end blocker is one the model accounts for:
   SlashOracle's bech32 decode and missing-record panic are [Panic] outcomes of slash_oracle;
   isNeedOracleSetRequest parses the "%.8f" rendering of a finite non-negative float (cannot fail; trusted) *)
Theorem C07_panic_sites_known :
  gen_panic_sites = [("SlashOracle", "MustAccAddressFromBech32"); ("SlashOracle", "panic");
                     ("isNeedOracleSetRequest", "panic")]%string.
Proof. reflexivity. Qed.
Print Assumptions C07_panic_sites_known.

(* isNeedOracleSetRequest renders the power difference with "%.<n>f" and panics if LegacyNewDecFromStr
   rejects the text; a LegacyDec has at most 18 decimals *)
Theorem C07_powerdiff_format_parses : exists n, gen_powerdiff_precision = Some n /\ 0 <= n <= 18.
Proof. exists 8. split; [reflexivity|lia]. Qed.
Print Assumptions C07_powerdiff_format_parses.

(* gov proposal tally (x/gov/keeper/tally.go, tail after vote summing, step list read from source): for every
   bonded total, voting power, abstain share, quorum and outcome of the uninterpreted conditions, no division
   has a zero divisor *)
Theorem C07_tally_never_divides_by_zero : forall i others,
  wf_in i -> M_Tally.run gen_tally_steps i others <> TPanic.
Proof. intros i others H. apply (safe_sound gen_tally_steps no_facts i others H (no_facts_hold i)). vm_compute. reflexivity. Qed.
Print Assumptions C07_tally_never_divides_by_zero.

(* the only other divisions in Tally divide by a bonded validator's delegator shares *)
Theorem C07_tally_loop_divisors : gen_tally_loop_divisors = ["val.DelegatorShares"; "val.DelegatorShares"]%string.
Proof. reflexivity. Qed.
Print Assumptions C07_tally_loop_divisors.

(* non-vacuity / sensitivity: hoisting the veto division above the all-abstain guard halts the chain on an
   unvoted proposal once quorum is 0 *)
Theorem C07_tally_hoisted_division_panics :
  wf_in unvoted /\ M_Tally.run steps_hoisted unvoted [] = TPanic /\ safe steps_hoisted no_facts = false.
Proof. exact hoisted_panics. Qed.
Print Assumptions C07_tally_hoisted_division_panics.

(* gov end blocker (model M_Gov of x/gov, see Prop_C15): after ANY history of submit / deposit / vote / end-block
   operations in which no passed proposal spends from the governance module account, closing proposals (refund or
   burn of every deposit, tally, message execution on a cache branch) never fails.  Without that guard it does fail:
   known finding C15-2, which this check reproduces on the real FinalizeBlock on every run. *)
Theorem C07_gov_endblock_total : forall P kf b c ops s ev t stk,
  Forall op_no_govsend ops ->
  run P kf (init b c) ops = (s, ev) ->
  end_block P kf t stk s <> None.
Proof. exact end_block_never_fails. Qed.
Print Assumptions C07_gov_endblock_total.

(* the defect this property had (fixed in /repo, see KNOWN_FINDINGS.json): with the rendered record handed
   to SlashOracle by the bridge-call loop a perfectly ordinary state halts the chain *)
Theorem C07_proto_string_argument_panics :
  powers_ok (oracles ex_state) /\ endblock bad_args ex_state 8 = Panic.
Proof. exact proto_string_arg_panics. Qed.
Print Assumptions C07_proto_string_argument_panics.

Theorem C07_nonvacuous :
  exists r m, endblock good_args ex_state 8 = Ok (r, m) /\
              map o_online (r_oracles r) = [true; false] /\ r_bcall_cursor r = 1 /\ r_any r = true.
Proof. exact good_args_example. Qed.
Print Assumptions C07_nonvacuous.
