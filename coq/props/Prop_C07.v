(* Property C07 (crosschain end-block logic): block processing never halts.
   The statements are about model.M_EndBlock evaluated with what the translator read from the CURRENT
   source (gen.Gen_EndBlock): a code change that hands SlashOracle anything but the account address,
   reorders the phases, or adds a panic site breaks one of these obligations. *)
From Coq Require Import ZArith List String Lia.
From FxV Require Import model.M_EndBlock model.M_Tally gen.Gen_EndBlock proofs.P_EndBlock proofs.P_Tally.
From FxV Require Import lib.Dec model.M_Gov proofs.P_Gov proofs.P_Gov2 proofs.P_Gov3.
From FxV Require Import model.M_GovShape gen.Gen_GovShape proofs.P_Gov5.
From FxV Require Import model.M_OsetPhase proofs.P_OsetPhase.
Import ListNotations.
Open Scope Z_scope.

(* what the three slashing loops pass to SlashOracle, as read from x/crosschain/keeper/abci.go *)
Theorem C07_slash_args_are_addresses : all_addrb gen_slash_args = true.
Proof. vm_compute. reflexivity. Qed.
Print Assumptions C07_slash_args_are_addresses.

(* for EVERY state of a chain module (any oracles, oracle sets, batches, bridge calls, confirmations,
   cursors, window) and every block height, the end blocker's slashing + oracle-set phases complete *)
Theorem C07_crosschain_endblock_total : forall s h,
  powers_ok (oracles s) -> endblock gen_slash_args s h <> Panic.
Proof. intros s h. apply endblock_never_panics. exact C07_slash_args_are_addresses. Qed.
Print Assumptions C07_crosschain_endblock_total.

(* slashing never changes anybody's stake/power, it only switches oracles offline *)
Theorem C07_slashing_keeps_powers : forall s h r,
  slashing gen_slash_args s h = Ok r -> powers (r_oracles r) = powers (oracles s).
Proof. intros s h r. apply slashing_keeps_powers. apply all_addrb_spec. exact C07_slash_args_are_addresses. Qed.
Print Assumptions C07_slashing_keeps_powers.

(* the model's phase order is the code's *)
Theorem C07_phase_order :
  gen_endblock_phases = ["GetSignedWindow"; "slashing"; "createOracleSetRequest"; "pruneOracleSet"]%string /\
  gen_slashing_calls = ["GetAllOracles"; "oracleSetSlashing"; "batchSlashing"; "bridgeCallSlashing"; "SetLastTotalPower"]%string.
Proof. split; reflexivity. Qed.
Print Assumptions C07_phase_order.

(* every panic site reachable from the end blocker is one the model accounts for:
   SlashOracle's bech32 decode and missing-record panic are [Panic] outcomes of slash_oracle;
   isNeedOracleSetRequest parses the "%.8f" rendering of a finite non-negative float (cannot fail; trusted) *)
Theorem C07_panic_sites_known :
  gen_panic_sites = [("SlashOracle", "MustAccAddressFromBech32"); ("SlashOracle", "panic");
                     ("isNeedOracleSetRequest", "panic")]%string.
Proof. reflexivity. Qed.
Print Assumptions C07_panic_sites_known.

(* isNeedOracleSetRequest renders the power difference with "%.<n>f" and panics if LegacyNewDecFromStr
   rejects the text; a LegacyDec has at most 18 decimals *)
Theorem C07_powerdiff_format_parses : exists n, gen_powerdiff_precision = Some n /\ 0 <= n <= 18.
Proof. exists 8. split; [reflexivity|lia]. Qed.
Print Assumptions C07_powerdiff_format_parses.

(* gov proposal tally (x/gov/keeper/tally.go, tail after vote summing, step list read from source): for every
   bonded total, voting power, abstain share, quorum and outcome of the uninterpreted conditions, no division
   has a zero divisor *)
Theorem C07_tally_never_divides_by_zero : forall i others,
  wf_in i -> M_Tally.run gen_tally_steps i others <> TPanic.
Proof. intros i others H. apply (safe_sound gen_tally_steps no_facts i others H (no_facts_hold i)). vm_compute. reflexivity. Qed.
Print Assumptions C07_tally_never_divides_by_zero.

(* the only other divisions in Tally divide by a bonded validator's delegator shares *)
Theorem C07_tally_loop_divisors : gen_tally_loop_divisors = ["val.DelegatorShares"; "val.DelegatorShares"]%string.
Proof. reflexivity. Qed.
Print Assumptions C07_tally_loop_divisors.

(* non-vacuity / sensitivity: hoisting the veto division above the all-abstain guard halts the chain on an
   unvoted proposal once quorum is 0 *)
Theorem C07_tally_hoisted_division_panics :
  wf_in unvoted /\ M_Tally.run steps_hoisted unvoted [] = TPanic /\ safe steps_hoisted no_facts = false.
Proof. exact hoisted_panics. Qed.
Print Assumptions C07_tally_hoisted_division_panics.

(* gov end blocker (model M_Gov of x/gov, see Prop_C15): after ANY history of submit / deposit / vote / corrupt-record /
   end-block operations in which no passed proposal moves coins out of the governance module account, closing proposals
   (refund or burn of every deposit, tally, message execution on a cache branch, the branches for undecodable stored
   proposals) never fails — stated for parameters carrying the two facts the translator reads from x/gov/abci.go of this
   tree (both undecodable-proposal branches dequeue by the walk's own key: C15-3, repaired in /repo e5a1e24 and pinned
   by C15_tree_dequeues_undecodable_by_key).  Without the remaining guard it does fail: known finding C15-2, which this
   check reproduces on the real FinalizeBlock on every run. *)
Theorem C07_gov_endblock_total_on_tree : forall P kf b c ops s ev t stk,
  bad_inactive_dequeued P = sh_bad_inactive_dequeued gen_shape ->
  bad_active_dequeued_by_key P = sh_bad_active_dequeued_by_key gen_shape ->
  Forall op_no_govsend ops ->
  run P kf (init b c) ops = (s, ev) ->
  end_block P kf t stk s <> None.
Proof. exact end_block_never_fails_on_tree. Qed.
Print Assumptions C07_gov_endblock_total_on_tree.

(* the same for ANY variant of those two branches, then with the second guard "no stored proposal record is made
   undecodable" *)
Theorem C07_gov_endblock_total : forall P kf b c ops s ev t stk,
  Forall op_no_govsend ops -> Forall op_no_corrupt ops ->
  run P kf (init b c) ops = (s, ev) ->
  end_block P kf t stk s <> None.
Proof. exact end_block_never_fails. Qed.
Print Assumptions C07_gov_endblock_total.

(* the defect this property had (fixed in /repo, see KNOWN_FINDINGS.json): with the rendered record handed
   to SlashOracle by the bridge-call loop a perfectly ordinary state halts the chain *)
Theorem C07_proto_string_argument_panics :
  powers_ok (oracles ex_state) /\ endblock bad_args ex_state 8 = Panic.
Proof. exact proto_string_arg_panics. Qed.
Print Assumptions C07_proto_string_argument_panics.

Theorem C07_nonvacuous :
  exists r m, endblock good_args ex_state 8 = Ok (r, m) /\
              map o_online (r_oracles r) = [true; false] /\ r_bcall_cursor r = 1 /\ r_any r = true.
Proof. exact good_args_example. Qed.
Print Assumptions C07_nonvacuous.

(* ---- the remaining two phases: createOracleSetRequest (float64 power difference rendered with "%.8f" and parsed
   back as a LegacyDec, panic if the text does not parse) and pruneOracleSet; model M_OsetPhase runs the float
   bit-exactly (Coq.Floats.SpecFloat) ---- *)

(* ONE block, every state: with non-negative powers below 2^64 in total and stored oracle sets whose normalised powers
   sum to at most MaxUint32 (an invariant, see the next theorem), the WHOLE crosschain EndBlocker completes — in
   particular the float64 quotient is never NaN/Inf, so the "%.8f" text always parses — the stored sets keep the
   invariant and the latest nonce moves by at most one.
   Depends on the standard library's real-number axioms through Flocq's Bdiv_correct (listed by Print Assumptions). *)
Theorem C07_endblock_full_total : forall s p h,
  powers_ok (oracles s) -> sets_ok p ->
  exists r m p', endblock_full gen_slash_args s p h = Ok (r, m, p') /\ sets_ok p' /\
                 op_latest p <= op_latest p' <= op_latest p + 1.
Proof. intros s p h. apply endblock_full_total. exact C07_slash_args_are_addresses. Qed.
Print Assumptions C07_endblock_full_total.

(* EVERY history: starting from genesis (no oracle set stored), for any number of blocks between which the oracles,
   their stakes, the pending oracle sets / batches / bridge calls, confirmations, cursors, the window, the last
   observed oracle-set nonce and the change-percent parameter change ARBITRARILY (only the stored sets and the latest
   nonce are carried from one end blocker to the next: nothing else writes them, see C07_oset_writers), no end
   blocker panics. *)
Theorem C07_every_history_endblock_total : forall bs,
  Forall (fun b => powers_ok (oracles (b_state b))) bs ->
  run_blocks gen_slash_args genesis_phase bs <> Panic.
Proof. intros bs. apply run_blocks_never_panics. exact C07_slash_args_are_addresses. Qed.
Print Assumptions C07_every_history_endblock_total.

(* the stored oracle sets and the latest nonce are written by the end blocker and by genesis import only *)
Theorem C07_oset_writers :
  gen_oset_writers = [("AddOracleSetRequest", "x/crosschain/keeper:createOracleSetRequest");
                      ("DeleteOracleSet", "x/crosschain/keeper:pruneOracleSet");
                      ("SetLatestOracleSetNonce", "x/crosschain/keeper:AddOracleSetRequest");
                      ("SetLatestOracleSetNonce", "x/crosschain/keeper:InitGenesis");
                      ("StoreOracleSet", "x/crosschain/keeper:AddOracleSetRequest");
                      ("StoreOracleSet", "x/crosschain/keeper:InitGenesis")]%string.
Proof. reflexivity. Qed.
Print Assumptions C07_oset_writers.

(* the guards and derived values of the two phases, as the model has them (need_request, create_request, prune) *)
Theorem C07_oset_conditions :
  gen_oset_conditions =
  [("createOracleSetRequest", "if currentOracleSet,isNeed:=k.isNeedOracleSetRequest(ctx); isNeed");
   ("isNeedOracleSetRequest", "if latestOracleSet==nil");
   ("isNeedOracleSetRequest", "if k.GetLastOracleSlashBlockHeight(ctx)==uint64(ctx.BlockHeight())");
   ("isNeedOracleSetRequest", "if err!=nil");
   ("isNeedOracleSetRequest", "oracleSetUpdatePowerChangePercent:=k.GetOracleSetUpdatePowerChangePercent(ctx)");
   ("isNeedOracleSetRequest", "if oracleSetUpdatePowerChangePercent.GT(sdkmath.LegacyOneDec())");
   ("isNeedOracleSetRequest", "oracleSetUpdatePowerChangePercent=sdkmath.LegacyOneDec()");
   ("isNeedOracleSetRequest", "if powerDiffDec.GTE(oracleSetUpdatePowerChangePercent)");
   ("AddOracleSetRequest", "if len(currentOracleSet.Members)==0");
   ("pruneOracleSet", "tooEarly:=currentBlock<signedOracleSetsWindow");
   ("pruneOracleSet", "if lastObserved!=nil&&!tooEarly");
   ("pruneOracleSet", "earliestToPrune:=currentBlock-signedOracleSetsWindow");
   ("pruneOracleSet", "if earliestToPrune>set.Height&&lastObserved.Nonce>set.Nonce");
   ("PowerDiff", "return math.Abs(delta/float64(math.MaxUint32))")]%string.
Proof. reflexivity. Qed.
Print Assumptions C07_oset_conditions.

(* pruning never removes an oracle set the external chain has not moved past, nor one younger than the signed
   window (slashing for it can still happen), and removes nothing else's fields *)
Theorem C07_prune_keeps_needed : forall p h w r,
  In r (op_sets p) ->
  (match op_last_observed p with None => True | Some lo => lo <= or_nonce r \/ h - w <= or_height r end) ->
  In r (op_sets (prune p h w)).
Proof. exact prune_keeps. Qed.
Print Assumptions C07_prune_keeps_needed.

(* a created request gets the next nonce, the current height and the freshly normalised members; otherwise nothing
   is stored *)
Theorem C07_create_request_shape : forall p m h sl p',
  create_request p m h sl = Ok p' ->
  (p' = p \/ created p p' m h) /\ op_last_observed p' = op_last_observed p /\ op_pct p' = op_pct p.
Proof. exact create_request_ok. Qed.
Print Assumptions C07_create_request_shape.

(* the normalised powers GetCurrentOracleSet produces are non-negative and sum to at most MaxUint32 *)
Theorem C07_normalised_powers_bounded : forall l m,
  powers_ok l -> current_oracle_set l = Ok m -> members_ok m.
Proof. exact current_oracle_set_members_ok. Qed.
Print Assumptions C07_normalised_powers_bounded.

Theorem C07_oset_phase_nonvacuous :
  exists p, run_blocks good_args genesis_phase ex_blocks = Ok p /\
            map or_nonce (op_sets p) = [2] /\ op_latest p = 2 /\
            option_map or_members (latest_set p) = Some [(0, 4294967295)].
Proof. exact ex_blocks_run. Qed.
Print Assumptions C07_oset_phase_nonvacuous.

(* gov EndBlocker: an error RETURNED by an end blocker halts the chain.  These are all the calls whose error the gov
   end blocker (and failUnsupportedProposal) hands back, read from x/gov/abci.go on every run.  Of these only the
   deposit refund/burn (bank transfers out of the gov module account) can fail on a consistent store — the subject of
   C07_gov_endblock_total and of known finding C15-2; Tally's arithmetic is C07_tally_never_divides_by_zero; the
   remaining ones are collections reads/writes of records the same walk has just read (they fail only on a corrupt
   store; an encoding error of the proposal itself is routed to failUnsupportedProposal, not returned).  Message
   execution errors and hook errors are NOT in this list: the code keeps them on a cache branch / logs them. *)
Theorem C07_gov_halting_calls :
  gen_gov_halting_calls =
  [("EndBlocker:keeper.InactiveProposalsQueue.Walk", "keeper.Proposals.Get");
   ("EndBlocker:keeper.InactiveProposalsQueue.Walk", "failUnsupportedProposal");
   ("EndBlocker:keeper.InactiveProposalsQueue.Walk", "keeper.DeleteProposal");
   ("EndBlocker:keeper.InactiveProposalsQueue.Walk", "keeper.InactiveProposalsQueue.Remove");
   ("EndBlocker:keeper.InactiveProposalsQueue.Walk", "keeper.DeleteProposal");
   ("EndBlocker:keeper.InactiveProposalsQueue.Walk", "keeper.Params.Get");
   ("EndBlocker:keeper.InactiveProposalsQueue.Walk", "keeper.RefundAndDeleteDeposits");
   ("EndBlocker:keeper.InactiveProposalsQueue.Walk", "keeper.DeleteAndBurnDeposits");
   ("EndBlocker", "keeper.InactiveProposalsQueue.Walk");
   ("EndBlocker:keeper.ActiveProposalsQueue.Walk", "keeper.Proposals.Get");
   ("EndBlocker:keeper.ActiveProposalsQueue.Walk", "failUnsupportedProposal");
   ("EndBlocker:keeper.ActiveProposalsQueue.Walk", "keeper.ActiveProposalsQueue.Remove");
   ("EndBlocker:keeper.ActiveProposalsQueue.Walk", "keeper.Tally");
   ("EndBlocker:keeper.ActiveProposalsQueue.Walk", "keeper.DeleteAndBurnDeposits");
   ("EndBlocker:keeper.ActiveProposalsQueue.Walk", "keeper.RefundAndDeleteDeposits");
   ("EndBlocker:keeper.ActiveProposalsQueue.Walk", "keeper.ActiveProposalsQueue.Remove");
   ("EndBlocker:keeper.ActiveProposalsQueue.Walk", "keeper.Params.Get");
   ("EndBlocker:keeper.ActiveProposalsQueue.Walk", "keeper.ActiveProposalsQueue.Set");
   ("EndBlocker:keeper.ActiveProposalsQueue.Walk", "keeper.SetProposal");
   ("EndBlocker", "keeper.ActiveProposalsQueue.Walk");
   ("failUnsupportedProposal", "keeper.SetProposal");
   ("failUnsupportedProposal", "keeper.RefundAndDeleteDeposits")]%string.
Proof. reflexivity. Qed.
Print Assumptions C07_gov_halting_calls.

(* a passed proposal's message handler may panic (x/crisis does so by design): safeExecuteHandler defers a function
   literal that itself calls recover() before it calls the handler, so the panic cannot leave the gov end blocker
   (exercised on the real app by the scripted "panicking handler" history of harness/c07 on every run) *)
Theorem C07_gov_handler_panic_recovered : gen_gov_safe_execute_recovers = true.
Proof. reflexivity. Qed.
Print Assumptions C07_gov_handler_panic_recovered.

(* the same reachability, continued into the hand-written functions of x/crosschain/types the end blocker reaches:
   the one panic site there is Oracle.GetOracle's bech32 decoding of the record's own OracleAddress, which SetOracle
   performs on every record before it stores it — a stored record cannot fail it *)
Theorem C07_types_panic_sites_known :
  gen_types_panic_sites = [("types.Oracle.GetOracle", "MustAccAddressFromBech32")]%string.
Proof. reflexivity. Qed.
Print Assumptions C07_types_panic_sites_known.

(* fx-core's only begin-block code (x/evm/keeper/abci.go) makes exactly these calls: it delegates to the ethermint
   fork's EVMBlockConfig (a dependency: it reads the evm / fee-market parameters and the block proposer; exercised by
   every real block of every history of this check) and contains no logic of its own *)
Theorem C07_evm_beginblock_is_a_wrapper :
  gen_evm_abci_calls = ["BeginBlock:k.EVMBlockConfig"; "BeginBlock:k.ChainID"]%string.
Proof. reflexivity. Qed.
Print Assumptions C07_evm_beginblock_is_a_wrapper.
