(* Property C08 — coin<->ERC-20 conversion conserves value and keeps the token-pair books balanced.
   Models: coq/model/M_Ledger.v (every operation of the bridge/erc20 ledger), coq/model/M_Erc20.v (pair registry;
   one EVM transaction over the two-level token store).  Tied to /repo by harness/c04 (VERIF_PROP=C08) and harness/c08. *)
From Coq Require Import ZArith List Bool.
From FxV Require Import model.M_Ledger model.M_LedgerGenesis model.M_Erc20 proofs.P_Ledger proofs.P_LedgerC04 proofs.P_LedgerC08
  proofs.P_LedgerDenom proofs.P_LedgerGenesis proofs.P_Erc20 gen.Gen_C08Facts.
Import ListNotations.
Open Scope Z_scope.

(* ConvertCoin moves exactly x: the sender's coin -x, the receiver's ERC-20 +x, no other user cell changes *)
Theorem C08_convert_coin_exact : forall tk a r x b b',
  runB (convert_coin tk a r x) b = Some b' -> is_module a = false -> is_module r = false ->
  cget (CB a (base_of tk)) b' = cget (CB a (base_of tk)) b - x /\
  cget (CE (t_id tk) r) b' = cget (CE (t_id tk) r) b + x /\
  (forall u d, is_module u = false -> (u =? a) && (d =? base_of tk) = false -> cget (CB u d) b' = cget (CB u d) b) /\
  (forall u j, is_module u = false -> (u =? r) && (j =? t_id tk) = false -> cget (CE j u) b' = cget (CE j u) b).
Proof. exact convert_coin_exact. Qed.
Print Assumptions C08_convert_coin_exact.

Theorem C08_convert_erc20_exact : forall tk a r x b b',
  runB (convert_erc20 tk a r x) b = Some b' -> is_module a = false -> is_module r = false ->
  cget (CE (t_id tk) a) b' = cget (CE (t_id tk) a) b - x /\
  cget (CB r (base_of tk)) b' = cget (CB r (base_of tk)) b + x /\
  (forall u j, is_module u = false -> (u =? a) && (j =? t_id tk) = false -> cget (CE j u) b' = cget (CE j u) b) /\
  (forall u d, is_module u = false -> (u =? r) && (d =? base_of tk) = false -> cget (CB u d) b' = cget (CB u d) b).
Proof. exact convert_erc20_exact. Qed.
Print Assumptions C08_convert_erc20_exact.

(* MsgConvertDenom (accepted: the coin is one of the token's denominations and the target differs from it) moves exactly x:
   the sender's source denomination -x, the receiver's target denomination +x (sender and receiver may be one account), no
   other account's coin changes except the erc20 module's pools, no ERC-20 cell changes at all; x of the source denomination
   leaves circulation (locked in the erc20 module or burned) and x of the target denomination enters it (released or minted);
   every other denomination's supply and pool are untouched *)
Theorem C08_convert_denom_exact : forall tk a r src tg x b b',
  runB (msg_convert_denom tk a r src tg x) b = Some b' -> is_module a = false -> is_module r = false ->
  has_rep tk src = true -> converted_rep tk src tg <> src ->
  let S := denom_rep tk src in let T := denom_rep tk (converted_rep tk src tg) in
  S <> T /\
  cget (CB a S) b' = cget (CB a S) b - x /\
  cget (CB r T) b' = cget (CB r T) b + x /\
  (forall u d, u <> A_ERC20 -> (u =? a) && (d =? S) = false -> (u =? r) && (d =? T) = false -> cget (CB u d) b' = cget (CB u d) b) /\
  (forall j u, cget (CE j u) b' = cget (CE j u) b) /\ (forall j, cget (CT j) b' = cget (CT j) b) /\
  circulating S b' = circulating S b - x /\ circulating T b' = circulating T b + x /\
  (forall d, d <> S -> d <> T -> cget (CS d) b' = cget (CS d) b /\ cget (CB A_ERC20 d) b' = cget (CB A_ERC20 d) b).
Proof. exact convert_denom_exact. Qed.
Print Assumptions C08_convert_denom_exact.

(* FROM GENESIS, with registration as an operation (model/M_LedgerGenesis.v: GRegister t = RegisterCoin / RegisterERC20 of a
   configuration token; the native coin's pair is registered by InitGenesis; an operation naming an unregistered token is
   refused).  at_genesis: nothing of any pair exists yet (no ERC-20 of a module-owned pair or of FX issued, nothing escrowed;
   of an externally-owned token's pre-existing ERC-20 the erc20 module holds nothing and no coin is minted).  Then after EVERY
   history of registrations and operations the books are balanced as EQUALITIES: *)
Theorem C08_books_from_genesis : forall U g s0 gops,
  users U -> at_genesis U g s0 -> Forall (gop_ok U) gops ->
  let s := g_st (gsteps g (genesis s0) gops) in
  (forall i, erc_sum U i s = erc_total i s) /\
  (forall i tk, find_tok g i = Some tk -> t_kind tk = KMod -> i <> 0 -> escrow_mod i s = erc_total i s) /\
  (forall tk, find_tok g 0 = Some tk -> t_kind tk = KFX -> escrow_wfx s = erc_total 0 s) /\
  (forall i tk, find_tok g i = Some tk -> t_kind tk = KExt -> t_ibc tk = false -> i <> 0 ->
     erc_escrow i s = coin_supply i s - escrow_mod i s).
Proof. exact books_from_genesis. Qed.
Print Assumptions C08_books_from_genesis.

Theorem C08_unregistered_refused : forall g gs o t,
  In t (op_tokens o) -> memZ t (g_reg gs) = false -> gstep g gs (GOp o) = (gs, false).
Proof. exact unregistered_refused. Qed.
Print Assumptions C08_unregistered_refused.

Theorem C08_register_spec : forall g gs t,
  g_st (fst (gstep g gs (GRegister t))) = g_st gs /\
  (snd (gstep g gs (GRegister t)) = true <-> (find_tok g t <> None /\ memZ t (g_reg gs) = false)) /\
  (snd (gstep g gs (GRegister t)) = true -> g_reg (fst (gstep g gs (GRegister t))) = t :: g_reg gs).
Proof. exact register_spec. Qed.
Print Assumptions C08_register_spec.

(* at_genesis is satisfiable and the theorem not vacuous: users hold FX and an externally-owned ERC-20 at genesis; operations
   before the registration of their token are refused, a second registration is refused; then deposits and conversions of all
   three kinds are accepted and the four equations hold with non-zero values *)
Theorem C08_genesis_nonvacuous :
  users ex_U /\ at_genesis ex_U ex_cfg gx_s0 /\ Forall (gop_ok ex_U) gx_hist /\
  gaccepted ex_cfg (genesis gx_s0) gx_hist = [false; true; false; true; true; false; true; true; true; true; true] /\
  let s := g_st (gsteps ex_cfg (genesis gx_s0) gx_hist) in
  (escrow_mod 1 s, erc_total 1 s) = (250, 250) /\ (escrow_wfx s, erc_total 0 s) = (700, 700) /\
  (erc_escrow 2 s, coin_supply 2 s, escrow_mod 2 s) = (200, 200, 0) /\ (erc_sum ex_U 2 s, erc_total 2 s) = (1000, 1000).
Proof. exact genesis_nonvacuous. Qed.
Print Assumptions C08_genesis_nonvacuous.

(* the same statements for an ARBITRARY start state, as preserved differences: *)
(* for EVERY operation list of the ledger model (conversions, bridge operations, precompile entry points, refunds): *)
(* module-owned pair: coins escrowed by the erc20 module - ERC-20 totalSupply never changes (both 0 at registration) *)
Theorem C08_module_owned_backed : forall U g i tkI s0 ops,
  users U -> find_tok g i = Some tkI -> t_kind tkI = KMod -> i <> 0 -> recs_wf U (sr s0) -> Forall (op_ok U) ops ->
  let s := steps g s0 ops in
  escrow_mod i s - erc_total i s = escrow_mod i s0 - erc_total i s0.
Proof. exact module_owned_backed. Qed.
Print Assumptions C08_module_owned_backed.

(* the native coin: FX held by the WFX contract - WFX totalSupply never changes *)
Theorem C08_fx_backed : forall U g tk0 s0 ops,
  users U -> find_tok g 0 = Some tk0 -> t_kind tk0 = KFX -> recs_wf U (sr s0) -> Forall (op_ok U) ops ->
  let s := steps g s0 ops in
  escrow_wfx s - erc_total 0 s = escrow_wfx s0 - erc_total 0 s0.
Proof. exact fx_backed. Qed.
Print Assumptions C08_fx_backed.

(* externally-owned pair: ERC-20 escrowed by the erc20 module - (supply over base + aliases, net of base coins parked in
   the erc20 module account by the older ConvertDenom rule) never changes *)
Theorem C08_external_backed : forall U g i tkI s0 ops,
  users U -> find_tok g i = Some tkI -> t_kind tkI = KExt -> t_ibc tkI = false -> i <> 0 ->
  recs_wf U (sr s0) -> Forall (op_ok U) ops ->
  let s := steps g s0 ops in
  erc_escrow i s - (coin_supply i s - escrow_mod i s) = erc_escrow i s0 - (coin_supply i s0 - escrow_mod i s0).
Proof. exact external_backed. Qed.
Print Assumptions C08_external_backed.

(* every ERC-20: (balance of the erc20 module + balances of the users) - totalSupply never changes *)
Theorem C08_sum_balances : forall U g i s0 ops,
  users U -> recs_wf U (sr s0) -> Forall (op_ok U) ops ->
  let s := steps g s0 ops in
  erc_sum U i s - erc_total i s = erc_sum U i s0 - erc_total i s0.
Proof. exact sum_balances. Qed.
Print Assumptions C08_sum_balances.

(* the denom, contract and alias indexes and the bank-metadata aliases describe the same set of pairs, over every
   history of register / toggle / alias update / removal of a pair whose contract self-destructed / genesis export +
   import, provided the import rebuilds the alias index from the bank metadata (IExportImport true; no_export excludes
   only IExportImport false, the InitGenesis that drops the alias index).  Which variant the code under check is, is
   probed on the real application at every run and used in the correspondence. *)
Theorem C08_indexes : forall ops, forallb no_export ops = true -> forall s, idx_ok s -> idx_ok (isteps s ops).
Proof. exact indexes_consistent. Qed.
Print Assumptions C08_indexes.

(* THIS TREE: the probed fact is a generated constant (coq/gen/Gen_C08Facts.v, regenerated from the tree under test on every
   run by `harness/c08 -facts`), pinned here: a tree whose InitGenesis does not rebuild the alias index breaks this obligation
   (and the monitor `C08:export-import:alias-index-lost` gives the replay) *)
Theorem C08_tree_rebuilds_alias_index : gen_alias_index_rebuilt = true.
Proof. reflexivity. Qed.
Print Assumptions C08_tree_rebuilds_alias_index.

(* every history as this tree executes it — each genesis export + import in it being the tree's own variant — keeps all four
   indexes and the bank metadata consistent; no hypothesis on the history *)
Definition tree_op (o : iop) : iop := match o with IExportImport _ => IExportImport gen_alias_index_rebuilt | _ => o end.
Theorem C08_indexes_on_tree : forall ops s, idx_ok s -> idx_ok (isteps s (map tree_op ops)).
Proof.
  intros ops s Hs. apply indexes_consistent; [|exact Hs].
  induction ops as [|o ops IH]; [reflexivity|]. cbn [map forallb]. rewrite IH. rewrite andb_true_r.
  destruct o; cbn [tree_op]; try reflexivity; rewrite C08_tree_rebuilds_alias_index; reflexivity.
Qed.
Print Assumptions C08_indexes_on_tree.

(* ... and over EVERY history, genesis export + import included, the pair store, the denom index and the contract index
   describe the same set of pairs *)
Theorem C08_pair_indexes : forall ops s, pidx_ok s -> pidx_ok (isteps s ops).
Proof. exact pair_indexes_consistent. Qed.
Print Assumptions C08_pair_indexes.

(* with the InitGenesis that does not rebuild the alias index (genuine defect C08-2) the reading is false: a genesis export +
   import loses the alias index while the bank metadata keeps the aliases; afterwards an alias of one denom can be registered
   as an alias of another one.  The harness replays both on the real application whenever the probe finds that variant. *)
Theorem C08_indexes_export_import_refuted :
  idx_ok i_empty /\ forallb no_export ex_export_hist = false /\
  let s := isteps i_empty ex_export_hist in
  ohas 10 (by_denom s) = true /\ In 11 (metal s 10) /\ oget 11 (alias s) = None /\ ~ idx_ok s.
Proof. exact indexes_export_import_refuted. Qed.
Print Assumptions C08_indexes_export_import_refuted.

(* the rebuilding import is the identity on the alias index whenever the indexes are consistent *)
Theorem C08_export_import_rebuild_identity : forall s a, idx_ok s -> oget a (rebuild_aliases s) = oget a (alias s).
Proof. exact rebuild_identity. Qed.
Print Assumptions C08_export_import_rebuild_identity.

Theorem C08_export_import_rebuilt_witness :
  let s := isteps i_empty [IRegisterCoin 10 [11; 12] 500; IExportImport true] in
  oget 11 (alias s) = Some 10 /\ oget 12 (alias s) = Some 10 /\ idx_ok s /\ snd (istep s (IRegisterCoin 20 [11] 501)) = false.
Proof. exact export_import_rebuilt_witness. Qed.
Print Assumptions C08_export_import_rebuilt_witness.

Theorem C08_alias_reusable_after_export_import :
  let s := isteps i_empty ex_export_hist in
  snd (istep s (IRegisterCoin 20 [11] 501)) = true /\
  snd (istep (isteps i_empty [IRegisterCoin 10 [11; 12] 500]) (IRegisterCoin 20 [11] 501)) = false.
Proof. exact alias_reusable_after_export_import. Qed.
Print Assumptions C08_alias_reusable_after_export_import.

(* mixed EVM transactions: if every token call and every conversion goes through the running EVM the books hold *)
Theorem C08_mixed_running_evm : forall H p s, NoDup H -> In C H -> In Md H ->
  forallb outer_only p = true -> forallb (targets_in H) p = true -> clean s -> booksC H s ->
  booksC H (fst (mtx p s)) /\ clean (fst (mtx p s)).
Proof. exact outer_only_keeps_books. Qed.
Print Assumptions C08_mixed_running_evm.

(* ... and also when the nested conversions (bridgeCall burn, cancelSendToExternal / executeClaim mint) all run before the
   contract touches the token *)
Theorem C08_mixed_nested_first : forall H pre q s, NoDup H -> In C H -> In Md H ->
  forallb nested pre = true -> forallb outer_only q = true -> forallb (targets_in H) q = true -> clean s -> booksC H s ->
  booksC H (fst (mtx (pre ++ q) s)) /\ clean (fst (mtx (pre ++ q) s)).
Proof. exact nested_first_keep_books. Qed.
Print Assumptions C08_mixed_nested_first.

(* ... but in general it is FALSE of the code as it is: token.transfer(X,30) then bridgeCall(token,50) in one transaction:
   the nested burn is overwritten by the outer commit, 50 tokens are created *)
Theorem C08_mixed_bridgecall_refuted :
  exists p s, clean s /\ books_ok [C; 300; Md] s = true /\
    let s' := fst (mtx p s) in
    snd (mtx p s) = true /\ books_ok [C; 300; Md] s' = false /\
    sval (SBal C) (committed s') = 70 /\ sval (SBal 300) (committed s') = 30 /\ sval STotal (committed s') = 50 /\
    escrow s' = 50 /\ out s' = 90.
Proof. exact mixed_bridgecall_refuted. Qed.
Print Assumptions C08_mixed_bridgecall_refuted.

(* the same lost update through a nested MINT (cancelSendToExternal refund, executeClaim deposit): the contract loses it *)
Theorem C08_mixed_mint_refuted :
  books_ok [C; 300; Md] (fst (mtx [MTransfer 300 30; MCancel] mix_s0)) = false /\
  sval (SBal C) (committed (fst (mtx [MTransfer 300 30; MCancel] mix_s0))) = 70 /\
  sval STotal (committed (fst (mtx [MTransfer 300 30; MCancel] mix_s0))) = 140 /\
  books_ok [C; 300; Md] (fst (mtx [MBalanceOf C; MExecClaim; MTransfer 300 1] mix_s0)) = false /\
  sval (SBal C) (committed (fst (mtx [MBalanceOf C; MExecClaim; MTransfer 300 1] mix_s0))) = 99 /\
  sval STotal (committed (fst (mtx [MBalanceOf C; MExecClaim; MTransfer 300 1] mix_s0))) = 125.
Proof. exact mixed_mint_refuted. Qed.
Print Assumptions C08_mixed_mint_refuted.

(* externally-owned pair with a token that is not a FIP20 (reverts / returns false / returns nothing): the books hold over
   every conversion history, and a conversion whose transfer does not happen is refused *)
Theorem C08_legacy_token_books : forall f ops s,
  l_esc (lsteps f s ops) - l_sup (lsteps f s ops) = l_esc s - l_sup s.
Proof. exact legacy_books. Qed.
Print Assumptions C08_legacy_token_books.

Theorem C08_failed_transfer_refused : forall f a r x s,
  lget a (l_tok s) < x -> snd (lstep f s (LConvertERC20 a r x)) = false.
Proof. exact legacy_failed_transfer_refused. Qed.
Print Assumptions C08_failed_transfer_refused.

Theorem C08_nonvacuous :
  (let s' := fst (mtx [MApprove Pc 40; MTransfer 300 30; MCrossChain 40; MBalanceOf C] mix_s0) in
   snd (mtx [MApprove Pc 40; MTransfer 300 30; MCrossChain 40; MBalanceOf C] mix_s0) = true /\
   books_ok [C; 300; Md] s' = true /\ sval (SBal C) (committed s') = 30 /\ sval STotal (committed s') = 60 /\ out s' = 80 /\
   (let s2 := fst (mtx [MBridgeCall 50; MTransfer 300 30] mix_s0) in
    books_ok [C; 300; Md] s2 = true /\ sval (SBal C) (committed s2) = 20)) /\
  (let s := isteps i_empty [IRegisterCoin 10 [11; 12] 500; IRegisterERC20 501 20 [21]; IToggle true 500; IUpdateAlias 10 13;
                            IUpdateAlias 10 11; IRemove 20; IRegisterERC20 502 20 [21]; IRegisterCoin 30 [12] 503] in
   (oget 10 (by_denom s), oget 501 (by_erc s), oget 21 (alias s), oget 13 (alias s), oget 11 (alias s), oget 20 (by_denom s), oget 30 (by_denom s))
   = (Some (500, 10), None, None, Some 10, None, None, None)).
Proof. split; [exact mixed_nonvacuous|exact indexes_nonvacuous]. Qed.
Print Assumptions C08_nonvacuous.
