(* Property C09: a precompile call is all-or-nothing across Cosmos state and EVM state.
   Model: model/M_Frames.v (journal of the ethermint state DB, frames of the EVM); method tables of both
   precompile contracts: gen/Gen_Precompiles.v (regenerated from the source on every run). *)
From Coq Require Import ZArith List String Bool.
From FxV Require Import gen.Gen_Precompiles model.M_Frames model.M_FramesRev proofs.P_Frames proofs.P_FramesRev proofs.P_PrecompileTable.
Import ListNotations.
Open Scope Z_scope.

(* For EVERY call tree (any depth, any number and placement of precompile calls, reverts, failures, caught or
   propagated), every native store and keeper semantics: journal-based execution = "a failed frame has no effect",
   on the native store, the logs, the native events and contract storage; and the receipt status agrees. *)
Theorem C09_journal_refines_spec : forall (N eff : Type) (apply : eff -> N -> N * status) body en s,
  wf_fl eff body = true ->
  let '(si, oki) := run_impl N eff apply body en s in
  let '(ss, oks) := run_spec N eff apply body en s in
  oki = oks /\ s_nat si = s_nat ss /\ s_logs si = s_logs ss /\ s_evs si = s_evs ss /\
  (forall k, s_stor si k = s_stor ss k).
Proof. exact journal_refines_spec. Qed.
Print Assumptions C09_journal_refines_spec.

(* a failed transaction hands Commit exactly the state it started from *)
Theorem C09_failed_tx_no_effect : forall (N eff : Type) (apply : eff -> N -> N * status) body en s,
  wf_fl eff body = true ->
  snd (run_impl N eff apply body en s) = false ->
  seq N (fst (run_impl N eff apply body en s)) s.
Proof. exact failed_tx_no_effect. Qed.
Print Assumptions C09_failed_tx_no_effect.

(* running out of gas (or any other cut) at any position of any frames is covered *)
Theorem C09_gas_cut_anywhere : forall (N eff : Type) (apply : eff -> N -> N * status) body en body' en' s,
  wf_fl eff body = true ->
  cut eff (Frame body en false) (Frame body' en' false) ->
  let '(si, oki) := run_impl N eff apply body' en' s in
  let '(ss, oks) := run_spec N eff apply body' en' s in
  oki = oks /\ s_nat si = s_nat ss /\ s_logs si = s_logs ss /\ s_evs si = s_evs ss /\
  (forall k, s_stor si k = s_stor ss k).
Proof. exact cut_refines. Qed.
Print Assumptions C09_gas_cut_anywhere.

(* in the words of the property: an effect is kept iff its own action succeeded, every enclosing action and
   frame returned normally, and the transaction succeeded *)
Theorem C09_effect_survives_iff : forall body en m, wf_fl meff body = true -> no_panic_list body = true ->
  (In m (s_nat (fst (m_run_impl body en))) <-> frame_kept body en = true /\ kept_in_list m body).
Proof. exact effect_survives_iff. Qed.
Print Assumptions C09_effect_survives_iff.

(* the two guards are necessary (a statement about the journal design, not about the current source): a native
   write outside ExecuteNativeAction survives the revert of its frame — what finding C09-1 (fixed in 35e508a) was *)
Theorem C09_unjournaled_write_refuted :
  wf_fl meff ex_unjournaled = false /\
  s_nat (fst (m_run_impl ex_unjournaled Return)) = [1] /\ s_nat (fst (m_run_spec ex_unjournaled Return)) = [].
Proof. exact unjournaled_write_survives_revert. Qed.
Print Assumptions C09_unjournaled_write_refuted.

(* ... and so does a write made inside an action before an EVM call that reaches another native action *)
Theorem C09_write_before_nested_action_refuted :
  wf_fl meff ex_write_before_nested = false /\
  s_nat (fst (m_run_impl ex_write_before_nested Return)) = [1] /\
  s_nat (fst (m_run_spec ex_write_before_nested Return)) = [].
Proof. exact write_before_nested_action_survives_revert. Qed.
Print Assumptions C09_write_before_nested_action_refuted.

(* the current source satisfies both guards: every state-changing method of both contracts works inside exactly
   one ExecuteNativeAction closure without touching the live context outside it ... *)
Theorem C09_table_writes_journaled :
  forallb (fun m => pm_readonly m || (Z.eqb (pm_actions m) 1 && negb (pm_outer_ctx m))) methods = true.
Proof. exact table_writes_journaled. Qed.
Print Assumptions C09_table_writes_journaled.

(* ... read-only methods start no action and only read the live context ... *)
Theorem C09_table_readonly_pure :
  forallb (fun m => negb (pm_readonly m) || (Z.eqb (pm_actions m) 0 && no_write (pm_steps m))) methods = true.
Proof. exact table_readonly_pure. Qed.
Print Assumptions C09_table_readonly_pure.

(* ... and whatever a closure of the table does along any of its paths, with arbitrary well-formed EVM calls at
   its call sites, is a well-formed action: the hypothesis of C09_journal_refines_spec holds for real programs *)
Theorem C09_table_actions_wf : forall (eff : Type) m p (l : nodes eff) evs,
  In m methods -> pm_readonly m = false -> In p (paths (pm_steps m)) -> realize eff p l ->
  wf_f eff (Action l evs) = true.
Proof. exact table_actions_wf. Qed.
Print Assumptions C09_table_actions_wf.

(* a keeper panic is not an EVM failure: nothing in the precompile code intercepts it (generated facts), so it aborts
   the transaction — in the model: status Panic, nothing published, covered by C09_journal_refines_spec *)
Theorem C09_table_panics_abort :
  staking_run_recovers = false /\ crosschain_run_recovers = false /\
  staking_pkg_recover_calls = 0 /\ crosschain_pkg_recover_calls = 0 /\
  forallb (fun m => negb (pm_defers m)) methods = true.
Proof. exact table_panics_abort. Qed.
Print Assumptions C09_table_panics_abort.

Theorem C09_panic_aborts_everything :
  wf_fl meff ex_panic = true /\ no_panic_list ex_panic = false /\
  snd (m_run_impl ex_panic Return) = false /\
  s_nat (fst (m_run_impl ex_panic Return)) = [] /\ s_logs (fst (m_run_impl ex_panic Return)) = [] /\
  s_stor (fst (m_run_impl ex_panic Return)) 1 = 0 /\ s_stor (fst (m_run_impl ex_panic Return)) 2 = 0.
Proof. exact panic_aborts_everything. Qed.
Print Assumptions C09_panic_aborts_everything.

(* the dependency sources the model transcribes are the audited ones *)
Theorem C09_deps_pinned : dep_digests = pinned_digests.
Proof. exact deps_pinned. Qed.
Print Assumptions C09_deps_pinned.

Theorem C09_frames_nonvacuous :
  wf_fl meff ex_mixed = true /\
  snd (m_run_impl ex_mixed Return) = true /\
  s_nat (fst (m_run_impl ex_mixed Return)) = [13; 10] /\
  rev (s_logs (fst (m_run_impl ex_mixed Return))) = [110; 113] /\
  s_evs (fst (m_run_impl ex_mixed Return)) = [10] /\
  s_stor (fst (m_run_impl ex_mixed Return)) 1 = 7 /\
  s_nat (fst (m_run_impl ex_mixed Revert)) = [] /\ snd (m_run_impl ex_mixed Revert) = false.
Proof. exact frames_nonvacuous. Qed.
Print Assumptions C09_frames_nonvacuous.

(* ---- the real revision bookkeeping of Snapshot / RevertToSnapshot (model/M_FramesRev.v) ----
   run_impl_r keeps validRevisions and nextRevisionID as statedb.go does: a returning frame leaves its revision on
   the stack, a reverting frame looks its id up (sort.Search), replays the journal down to the recorded index and
   truncates the stack. For EVERY tree (well-formed or not) and every keeper semantics it publishes exactly what the
   journal-length machine of M_Frames publishes: the abstraction "snapshot = journal length" loses nothing. *)
Theorem C09_revisions_refine_journal_length : forall (N eff : Type) (apply : eff -> N -> N * status) body en s,
  run_impl_r N eff apply body en s = run_impl N eff apply body en s.
Proof. exact revisions_refine_journal_length. Qed.
Print Assumptions C09_revisions_refine_journal_length.

(* hence the main refinement holds for the machine WITH the revision stack *)
Theorem C09_revision_machine_refines_spec : forall (N eff : Type) (apply : eff -> N -> N * status) body en s,
  wf_fl eff body = true ->
  let '(si, oki) := run_impl_r N eff apply body en s in
  let '(ss, oks) := run_spec N eff apply body en s in
  oki = oks /\ s_nat si = s_nat ss /\ s_logs si = s_logs ss /\ s_evs si = s_evs ss /\
  (forall k, s_stor si k = s_stor ss k).
Proof. exact revision_machine_refines_spec. Qed.
Print Assumptions C09_revision_machine_refines_spec.

(* RevertToSnapshot's panic("revision id %v cannot be reverted") is unreachable: whatever a frame's body did
   (any depth, any number of successful children whose revisions stay on the stack), the frame's own id is found,
   at the index where the stack it was entered with ends, with the journal index recorded at entry; and the ids on
   the stack stay strictly increasing (the precondition under which sort.Search's binary search is the first-index
   search rsearch of the model) *)
Theorem C09_revert_finds_own_revision : forall (N eff : Type) (apply : eff -> N -> N * status)
  (body : nodes eff) s (jr : list (jentry N)) vr nx lo s1 jr1 vr1 nx1 r,
  rsorted lo vr nx ->
  exec_list_r N eff apply body (s, jr, (vr ++ [(nx, List.length jr)])%list, S nx) = ((s1, jr1, vr1, nx1), r) ->
  revert_r N nx s1 jr1 vr1 = (let '(s', jr') := revert_to N (List.length jr) s1 jr1 in Some (s', jr', vr)) /\
  rsorted lo vr1 nx1.
Proof. exact revert_finds_own_revision. Qed.
Print Assumptions C09_revert_finds_own_revision.

(* the stack really grows along successful frames (ids 1,2 stay above 0), a revert under them empties it down to the
   entry stack, ids are never reused (3 after 0,1,2 were discarded), and a foreign id is refused (the panic branch) *)
Theorem C09_revisions_nonvacuous :
  (let '((_, _, vr, nx), r) := exec_list_r mstore meff mapply ex_rev (st0, [], [], 0%nat) in (vr, nx, r))
    = ([(3, 0)], 4, Go)%nat /\
  (let '((_, _, vr, nx), r) :=
     exec_list_r mstore meff mapply
       (ncons (Frame (ncons (Write 1 1) nnil) Return false) (ncons (Frame (ncons (Write 2 2) nnil) Return false) nnil))
       (st0, [], [(0, 0)%nat], 1%nat) in (vr, nx, r))
    = ([(0, 0); (1, 0); (2, 1)], 3, Go)%nat /\
  revert_r mstore 1 st0 [] [(0, 0); (2, 0)]%nat = None.
Proof. exact revisions_nonvacuous. Qed.
Print Assumptions C09_revisions_nonvacuous.
