(* Property C10: precompiles act only for their direct caller and only in a writable call context.
   Model: model/M_Precompile.v; method table, guard order of Contract.Run and the EVM's four call sites:
   gen/Gen_Precompiles.v (regenerated from the sources on every run). *)
From Coq Require Import ZArith List String Bool.
From FxV Require Import gen.Gen_Precompiles model.M_Precompile proofs.P_Precompile proofs.P_PrecompileTable.
Import ListNotations.
Open Scope Z_scope.

(* For every method of both contracts, every argument, every opcode, every caller and every state: whatever an
   account that is not the direct caller owns — balance, unbonding queue, delegations, reward entitlement,
   allowances it granted, pool entries, bridge calls — does not get worse; the only exception is a delegation
   whose owner granted the caller an allowance (transferFromShares): at most the allowance moves and the
   allowance drops by exactly the amount moved. *)
Theorem C10_only_caller_pays : forall k st caller value c s s',
  0 <= value -> wf_state s ->
  entry k st caller value c s = Some (Ok s') -> tp_ok caller c s s'.
Proof. exact only_caller_pays. Qed.
Print Assumptions C10_only_caller_pays.

Theorem C10_transfer_from_bounded : forall k st caller value v from to sh s s',
  0 <= value -> wf_state s -> from <> caller ->
  entry k st caller value (CTransferFromShares v from to sh) s = Some (Ok s') ->
  0 < sh <= alw s v from caller /\ alw s' v from caller = alw s v from caller - sh /\
  dlg s from v - sh <= dlg s' from v.
Proof. exact transfer_from_bounded. Qed.
Print Assumptions C10_transfer_from_bounded.

(* a method the generated table declares state-changing fails through STATICCALL, DELEGATECALL and CALLCODE *)
Theorem C10_readonly_guard : forall k st caller value c s m,
  k <> CALL -> find_method methods c = Some m -> pm_readonly m = false ->
  entry k st caller value c s = Some Err.
Proof. exact readonly_guard. Qed.
Print Assumptions C10_readonly_guard.

Theorem C10_write_methods_listed :
  map pm_name (filter (fun m => negb (pm_readonly m)) methods) =
  ["approveShares"; "transferShares"; "transferFromShares"; "withdraw"; "delegateV2"; "redelegateV2"; "undelegateV2";
   "cancelSendToExternal"; "increaseBridgeFee"; "crossChain"; "bridgeCall"; "executeClaim"]%string.
Proof. exact write_methods_listed. Qed.
Print Assumptions C10_write_methods_listed.

(* a precompile address, or address/method, disabled by governance (any letter case) cannot execute at all *)
Theorem C10_switch_blocks : forall k st caller value c s r e,
  entry k st caller value c s = Some r ->
  In e (switch s) ->
  (lower e = contract_addr (call_contract c) \/
   lower e = (contract_addr (call_contract c) ++ "/" ++ mid_of c)%string) ->
  r = Err.
Proof. exact switch_blocks. Qed.
Print Assumptions C10_switch_blocks.

(* the shape of the two sources the model is parameterised by: guard order of Contract.Run, error packing,
   acting identity, and the flags/caller at the EVM's four call sites *)
Theorem C10_source_shape :
  (staking_run_guards = expected_guards /\ crosschain_run_guards = expected_guards /\
   staking_errors_packed = true /\ crosschain_errors_packed = true /\
   staking_guards_flat = true /\ crosschain_guards_flat = true) /\
  forallb (fun m => pm_readonly m ||
                    (existsb (String.eqb "caller") (pm_identities m) &&
                     forallb (str_suffix "Event") (pm_origin_sinks m))) methods = true /\
  (evm_sites = [(CALL, "caller", "value", "false"); (CALLCODE, "caller", "value", "true");
                (DELEGATECALL, "caller", "nil", "true"); (STATICCALL, "caller", "new(big.Int)", "true")]%string /\
   evm_entry_consults_interpreter_readonly = false).
Proof. exact (conj table_guards (conj table_identities evm_sites_expected)). Qed.
Print Assumptions C10_source_shape.

(* the amount guards of the model are the sign tests found in the argument validation of the source *)
Theorem C10_amount_guards :
  arg_sign_checks =
  [("ApproveSharesArgs", "Shares", "<", "0"); ("DelegateV2Args", "Amount", "<=", "0");
   ("RedelegateArgs", "Shares", "<=", "0"); ("RedelegateV2Args", "Amount", "<=", "0");
   ("TransferSharesArgs", "Shares", "<=", "0"); ("TransferFromSharesArgs", "Shares", "<=", "0");
   ("UndelegateArgs", "Shares", "<=", "0"); ("UndelegateV2Args", "Amount", "<=", "0");
   ("CancelSendToExternalArgs", "TxID", "<=", "0"); ("CrossChainArgs", "Amount", "<=", "0");
   ("CrossChainArgs", "Fee", "<", "0"); ("IncreaseBridgeFeeArgs", "TxID", "<=", "0");
   ("IncreaseBridgeFeeArgs", "Fee", "<=", "0"); ("BridgeCallArgs", "Value", "!=", "0");
   ("ExecuteClaimArgs", "EventNonce", "<=", "0")]%string.
Proof. exact arg_sign_checks_expected. Qed.
Print Assumptions C10_amount_guards.

(* a caller without allowance cannot make transferFromShares succeed, whatever the amount *)
Theorem C10_no_allowance_no_transfer : forall k st caller value v from to sh s,
  alw s v from caller <= 0 ->
  entry k st caller value (CTransferFromShares v from to sh) s = Some Err \/
  entry k st caller value (CTransferFromShares v from to sh) s = None.
Proof. exact no_allowance_no_transfer. Qed.
Print Assumptions C10_no_allowance_no_transfer.

(* "fails when reached through a static context" is FALSE of the code: the flag handed to the precompile does not
   depend on the interpreter being inside a STATICCALL ... *)
Theorem C10_static_context_invisible : forall k caller c s,
  entry k true caller 0 c s = entry k false caller 0 c s.
Proof. exact static_context_invisible. Qed.
Print Assumptions C10_static_context_invisible.

(* ... so a value-free CALL made inside a STATICCALL executes a state-changing method (finding C10-1) *)
Theorem C10_static_context_write_refuted :
  exists s', entry CALL true 0 0 (CApproveShares 0 2 5) ex_state = Some (Ok s') /\
             alw ex_state 0 0 2 = 0 /\ alw s' 0 0 2 = 5.
Proof. exact static_context_write_refuted. Qed.
Print Assumptions C10_static_context_write_refuted.

Theorem C10_precompile_nonvacuous :
  (exists s', entry CALL false 0 0 (CTransferFromShares 0 1 0 10) ex_state = Some (Ok s') /\
              dlg s' 1 0 = 90 /\ dlg s' 0 0 = 10 /\ alw s' 0 1 0 = 20 /\ bal s' 1 = 1007 /\ rwd s' 1 0 = 0) /\
  entry CALL false 0 0 (CTransferFromShares 0 1 0 31) ex_state = Some Err /\
  entry CALL false 0 0 (CCancelSendToExternal 1) ex_state = Some Err /\
  (exists s', entry CALL false 1 0 (CCancelSendToExternal 1) ex_state = Some (Ok s') /\ pool s' 1 = None /\ bal s' 1 = 1055) /\
  entry STATICCALL false 0 0 (CApproveShares 0 2 5) ex_state = Some Err /\
  entry DELEGATECALL false 0 0 (CDelegateV2 0 5) ex_state = Some Err /\
  entry CALLCODE false 0 0 (CCrossChain 5 1) ex_state = Some Err /\
  (exists s', entry STATICCALL false 0 0 (CDelegation 0 1) ex_state = Some (Ok s')).
Proof. exact precompile_nonvacuous. Qed.
Print Assumptions C10_precompile_nonvacuous.

Theorem C10_switch_nonvacuous :
  entry CALL false 0 0 (CApproveShares 0 2 5) ex_disabled = Some Err /\
  (exists s', entry CALL false 0 0 (CDelegateV2 0 5) ex_disabled = Some (Ok s')).
Proof. exact switch_nonvacuous. Qed.
Print Assumptions C10_switch_nonvacuous.
