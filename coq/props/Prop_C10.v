(* Property C10: precompiles act only for their direct caller and only in a writable call context.
   Model: model/M_Precompile.v; method table, guard order of Contract.Run and the EVM's four call sites:
   gen/Gen_Precompiles.v (regenerated from the sources on every run). *)
From Coq Require Import ZArith List String Bool.
From FxV Require Import gen.Gen_Precompiles model.M_Precompile proofs.P_Precompile proofs.P_PrecompileTable.
Import ListNotations.
Open Scope Z_scope.

(* For every method of both contracts, every argument, every opcode, every caller and every state: whatever an
   account that is not the direct caller owns — balance, unbonding queue, delegations, reward entitlement,
   allowances it granted, pool entries, bridge calls — does not get worse; the only exception is a delegation
   whose owner granted the caller an allowance (transferFromShares): at most the allowance moves and the
   allowance drops by exactly the amount moved. *)
Theorem C10_only_caller_pays : forall k st caller value c s s',
  0 <= value -> wf_state s ->
  entry k st caller value c s = Some (Ok s') -> tp_ok caller c s s'.
Proof. exact only_caller_pays. Qed.
Print Assumptions C10_only_caller_pays.

Theorem C10_transfer_from_bounded : forall k st caller value v from to sh s s',
  0 <= value -> wf_state s -> from <> caller ->
  entry k st caller value (CTransferFromShares v from to sh) s = Some (Ok s') ->
  0 < sh <= alw s v from caller /\ alw s' v from caller = alw s v from caller - sh /\
  dlg s from v - sh <= dlg s' from v.
Proof. exact transfer_from_bounded. Qed.
Print Assumptions C10_transfer_from_bounded.

(* ---- the same over HISTORIES: the invariant is preserved by every precompile call, so the statements hold in every
   state reachable by any sequence of calls (a failed call leaves the state as it was: property C09) ---- *)
Theorem C10_invariant_preserved : forall h s, wf_state s -> values_ok h -> wf_state (run_hist h s).
Proof. exact hist_wf. Qed.
Print Assumptions C10_invariant_preserved.

Theorem C10_hist_only_caller_pays : forall h1 x h2 s0,
  wf_state s0 -> values_ok (h1 ++ x :: h2) ->
  tp_ok (h_caller x) (h_call x) (run_hist h1 s0) (do_step (run_hist h1 s0) x).
Proof. exact hist_only_caller_pays. Qed.
Print Assumptions C10_hist_only_caller_pays.

(* an account that never calls and never granted a share allowance loses nothing over any history: balance,
   delegations, unbonding, ERC-20 balance and allowance, pool entries *)
Theorem C10_hist_bystander : forall h s0 a,
  wf_state s0 -> values_ok h -> never_calls a h -> (forall v sp, alw s0 v a sp = 0) ->
  let s := run_hist h s0 in
  bal s0 a <= bal s a /\ (forall v, dlg s0 a v <= dlg s a v) /\ (forall v, unb s0 a v <= unb s a v) /\
  tok s0 a <= tok s a /\ tka s a = tka s0 a /\ (forall v sp, alw s v a sp = 0) /\
  (forall id amt fee tk, pool s0 id = Some (a, amt, fee, tk) -> exists fee', pool s id = Some (a, amt, fee', tk) /\ fee <= fee').
Proof. exact hist_bystander. Qed.
Print Assumptions C10_hist_bystander.

(* whatever the spenders do, in any order and number of calls: what leaves a delegation is bounded by the allowances
   its owner had granted them *)
Theorem C10_hist_allowance_bound : forall h s0 a v L,
  wf_state s0 -> values_ok h -> never_calls a h -> NoDup L -> Forall (fun x => In (h_caller x) L) h ->
  dlg s0 a v - salw s0 v a L <= dlg (run_hist h s0) a v.
Proof. exact hist_allowance_bound. Qed.
Print Assumptions C10_hist_allowance_bound.

(* calls that reach the precompiles through STATICCALL / DELEGATECALL / CALLCODE change nothing, over any history *)
Theorem C10_hist_readonly_context : forall h s, Forall (fun x => h_kind x <> CALL) h -> run_hist h s = s.
Proof. exact hist_readonly_context. Qed.
Print Assumptions C10_hist_readonly_context.

(* "redirected": no precompile call ever changes a reward withdraw address *)
Theorem C10_hist_withdraw_address : forall h s, wdr (run_hist h s) = wdr s.
Proof. exact hist_withdraw_address. Qed.
Print Assumptions C10_hist_withdraw_address.

(* ERC-20 paths (crossChain, increaseBridgeFee: transferFrom by the precompile; bridgeCall: ConvertERC20 of the holder):
   only the direct caller's tokens move, only the direct caller's allowance is consumed *)
Theorem C10_tokens_only_callers : forall k st caller value c s s',
  0 <= value -> wf_state s -> entry k st caller value c s = Some (Ok s') ->
  forall a, a <> caller -> tok s a <= tok s' a /\ tka s' a = tka s a.
Proof. exact tokens_only_callers. Qed.
Print Assumptions C10_tokens_only_callers.

(* executeClaim: the outcome does not depend on who submits it (the claim carries the oracle quorum's authority), and
   without a pending claim nothing happens *)
Theorem C10_execute_claim_authority : forall c1 c2 v1 v2 n s,
  method_run c1 v1 (CExecuteClaim n) s = method_run c2 v2 (CExecuteClaim n) s.
Proof. exact execute_claim_authority. Qed.
Print Assumptions C10_execute_claim_authority.

Theorem C10_execute_claim_needs_pending : forall k st caller value n s,
  claims s n = None -> entry k st caller value (CExecuteClaim n) s <> None ->
  entry k st caller value (CExecuteClaim n) s = Some Err.
Proof. exact execute_claim_needs_pending. Qed.
Print Assumptions C10_execute_claim_needs_pending.

Theorem C10_history_nonvacuous :
  wf_state ex_state /\
  let s := run_hist ex_hist ex_state in
  dlg s 1 0 = 70 /\ alw s 0 1 0 = 0 /\ dlg s 0 0 = 10 /\ dlg s 3 0 = 20 /\ dlg s 2 0 = 0 /\
  tok s 0 = 400 /\ tok s 1 = 500 /\ bal s 2 = 1090 /\ bcalls s 1 = None /\ claims s 7 = None /\ claims s 8 = None /\
  bcalls s 2 = Some (0, 1, 0, 100).
Proof. exact (conj ex_state_wf history_nonvacuous). Qed.
Print Assumptions C10_history_nonvacuous.

(* a method the generated table declares state-changing fails through STATICCALL, DELEGATECALL and CALLCODE *)
Theorem C10_readonly_guard : forall k st caller value c s m,
  k <> CALL -> find_method methods c = Some m -> pm_readonly m = false ->
  entry k st caller value c s = Some Err.
Proof. exact readonly_guard. Qed.
Print Assumptions C10_readonly_guard.

Theorem C10_write_methods_listed :
  map pm_name (filter (fun m => negb (pm_readonly m)) methods) =
  ["approveShares"; "transferShares"; "transferFromShares"; "withdraw"; "delegateV2"; "redelegateV2"; "undelegateV2";
   "cancelSendToExternal"; "increaseBridgeFee"; "crossChain"; "bridgeCall"; "executeClaim"]%string.
Proof. exact write_methods_listed. Qed.
Print Assumptions C10_write_methods_listed.

(* a precompile address, or address/method, disabled by governance (any letter case) cannot execute at all *)
Theorem C10_switch_blocks : forall k st caller value c s r e,
  entry k st caller value c s = Some r ->
  In e (switch s) ->
  (lower e = contract_addr (call_contract c) \/
   lower e = (contract_addr (call_contract c) ++ "/" ++ mid_of c)%string) ->
  r = Err.
Proof. exact switch_blocks. Qed.
Print Assumptions C10_switch_blocks.

(* the shape of the two sources the model is parameterised by: guard order of Contract.Run, error packing,
   acting identity, and the flags/caller at the EVM's four call sites *)
Theorem C10_source_shape :
  (staking_run_guards = expected_guards /\ crosschain_run_guards = expected_guards /\
   staking_errors_packed = true /\ crosschain_errors_packed = true /\
   staking_guards_flat = true /\ crosschain_guards_flat = true) /\
  forallb (fun m => pm_readonly m ||
                    (existsb (String.eqb "caller") (pm_identities m) &&
                     forallb (str_suffix "Event") (pm_origin_sinks m))) methods = true /\
  (evm_sites = [(CALL, "caller", "value", "false"); (CALLCODE, "caller", "value", "true");
                (DELEGATECALL, "caller", "nil", "true"); (STATICCALL, "caller", "new(big.Int)", "true")]%string /\
   evm_entry_consults_interpreter_readonly = false).
Proof. exact (conj table_guards (conj table_identities evm_sites_expected)). Qed.
Print Assumptions C10_source_shape.

(* the amount guards of the model are the sign tests found in the argument validation of the source *)
Theorem C10_amount_guards :
  arg_sign_checks =
  [("ApproveSharesArgs", "Shares", "<", "0"); ("DelegateV2Args", "Amount", "<=", "0");
   ("RedelegateArgs", "Shares", "<=", "0"); ("RedelegateV2Args", "Amount", "<=", "0");
   ("TransferSharesArgs", "Shares", "<=", "0"); ("TransferFromSharesArgs", "Shares", "<=", "0");
   ("UndelegateArgs", "Shares", "<=", "0"); ("UndelegateV2Args", "Amount", "<=", "0");
   ("CancelSendToExternalArgs", "TxID", "<=", "0"); ("CrossChainArgs", "Amount", "<=", "0");
   ("CrossChainArgs", "Fee", "<", "0"); ("IncreaseBridgeFeeArgs", "TxID", "<=", "0");
   ("IncreaseBridgeFeeArgs", "Fee", "<=", "0"); ("BridgeCallArgs", "Value", "!=", "0");
   ("ExecuteClaimArgs", "EventNonce", "<=", "0")]%string.
Proof. exact arg_sign_checks_expected. Qed.
Print Assumptions C10_amount_guards.

(* a caller without allowance cannot make transferFromShares succeed, whatever the amount *)
Theorem C10_no_allowance_no_transfer : forall k st caller value v from to sh s,
  alw s v from caller <= 0 ->
  entry k st caller value (CTransferFromShares v from to sh) s = Some Err \/
  entry k st caller value (CTransferFromShares v from to sh) s = None.
Proof. exact no_allowance_no_transfer. Qed.
Print Assumptions C10_no_allowance_no_transfer.

(* "fails when reached through a static context" is FALSE of the code: the flag handed to the precompile does not
   depend on the interpreter being inside a STATICCALL ... *)
Theorem C10_static_context_invisible : forall k caller c s,
  entry k true caller 0 c s = entry k false caller 0 c s.
Proof. exact static_context_invisible. Qed.
Print Assumptions C10_static_context_invisible.

(* ... so a value-free CALL made inside a STATICCALL executes a state-changing method (finding C10-1) *)
Theorem C10_static_context_write_refuted :
  exists s', entry CALL true 0 0 (CApproveShares 0 2 5) ex_state = Some (Ok s') /\
             alw ex_state 0 0 2 = 0 /\ alw s' 0 0 2 = 5.
Proof. exact static_context_write_refuted. Qed.
Print Assumptions C10_static_context_write_refuted.

Theorem C10_precompile_nonvacuous :
  (exists s', entry CALL false 0 0 (CTransferFromShares 0 1 0 10) ex_state = Some (Ok s') /\
              dlg s' 1 0 = 90 /\ dlg s' 0 0 = 10 /\ alw s' 0 1 0 = 20 /\ bal s' 1 = 1007 /\ rwd s' 1 0 = 0) /\
  entry CALL false 0 0 (CTransferFromShares 0 1 0 31) ex_state = Some Err /\
  entry CALL false 0 0 (CCancelSendToExternal 1) ex_state = Some Err /\
  (exists s', entry CALL false 1 0 (CCancelSendToExternal 1) ex_state = Some (Ok s') /\ pool s' 1 = None /\ bal s' 1 = 1055) /\
  entry STATICCALL false 0 0 (CApproveShares 0 2 5) ex_state = Some Err /\
  entry DELEGATECALL false 0 0 (CDelegateV2 0 5) ex_state = Some Err /\
  entry CALLCODE false 0 0 (CCrossChain 5 1) ex_state = Some Err /\
  (exists s', entry STATICCALL false 0 0 (CDelegation 0 1) ex_state = Some (Ok s')).
Proof. exact precompile_nonvacuous. Qed.
Print Assumptions C10_precompile_nonvacuous.

Theorem C10_switch_nonvacuous :
  entry CALL false 0 0 (CApproveShares 0 2 5) ex_disabled = Some Err /\
  (exists s', entry CALL false 0 0 (CDelegateV2 0 5) ex_disabled = Some (Ok s')).
Proof. exact switch_nonvacuous. Qed.
Print Assumptions C10_switch_nonvacuous.
