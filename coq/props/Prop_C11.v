(* Property C11: transferring delegation shares through the staking precompile conserves shares, stake
   and the reward bookkeeping.  Model: model/M_Shares.v (handlerTransferShares transcribed statement by
   statement, with the SDK staking / distribution keepers it drives); proofs: proofs/P_Shares.v.
   Every history starts at genesis (gen_state n), which the correspondence run checks against the real
   app's genesis stores.  The model follows /repo as of commit 458669b (sender == recipient refused);
   nothing below carries a "no self-transfer" guard any more. *)
From Coq Require Import ZArith List Bool.
From FxV Require Import lib.Dec model.M_Shares gen.Gen_C11 proofs.P_Shares.
Import ListNotations.
Open Scope Z_scope.

(* 1. transferShares, accepted: sender <> recipient, exactly x shares leave the sender and reach the
      recipient; validator tokens and total shares, every other delegation, every other validator and
      all allowances are unchanged; accepted only for 0 < x <= sender's shares, no incoming redelegation. *)
Theorem C11_transfer_exact : forall s s' v from to x,
  exec s (Transfer v from to x) = Ok s' ->
  from <> to /\ exists vs vs', get_val v s = Some vs /\ get_val v s' = Some vs' /\
    dget from vs' = dget from vs - dec_of_int x /\
    dget to vs' = dget to vs + dec_of_int x /\
    (forall c, c <> from -> c <> to -> kget c (v_dels vs') = kget c (v_dels vs)) /\
    v_tokens vs' = v_tokens vs /\ v_shares vs' = v_shares vs /\
    dec_of_int x <= dget from vs /\
    (forall w, w <> v -> get_val w s' = get_val w s) /\
    s_allow s' = s_allow s /\ has_receiving from v s = false /\ 0 < x.
Proof. exact transfer_exact. Qed.
Print Assumptions C11_transfer_exact.

(* 2. transferFromShares: within the allowance, which drops by exactly x; shares move as in 1. *)
Theorem C11_transfer_from_exact : forall s s' v spender from to x,
  exec s (TransferFrom v spender from to x) = Ok s' ->
  from <> to /\
  x <= aget (v, from, spender) (s_allow s) /\
  aget (v, from, spender) (s_allow s') = aget (v, from, spender) (s_allow s) - x /\
  (forall k, k <> (v, from, spender) -> aget k (s_allow s') = aget k (s_allow s)) /\
  exists vs vs', get_val v s = Some vs /\ get_val v s' = Some vs' /\
    dget from vs' = dget from vs - dec_of_int x /\
    dget to vs' = dget to vs + dec_of_int x /\
    (forall c, c <> from -> c <> to -> kget c (v_dels vs') = kget c (v_dels vs)) /\
    v_tokens vs' = v_tokens vs /\ v_shares vs' = v_shares vs /\
    dec_of_int x <= dget from vs /\
    (forall w, w <> v -> get_val w s' = get_val w s) /\ 0 < x.
Proof. exact transfer_from_exact. Qed.
Print Assumptions C11_transfer_from_exact.

Theorem C11_transfer_from_over_allowance : forall s v spender from to x,
  aget (v, from, spender) (s_allow s) < x -> step s (TransferFrom v spender from to x) = (s, false).
Proof. exact transfer_from_over_allowance. Qed.
Print Assumptions C11_transfer_from_over_allowance.

Theorem C11_approve_exact : forall s s' v owner spender x,
  exec s (Approve v owner spender x) = Ok s' ->
  aget (v, owner, spender) (s_allow s') = x /\
  (forall k, k <> (v, owner, spender) -> aget k (s_allow s') = aget k (s_allow s)) /\ s_vals s' = s_vals s.
Proof. exact approve_exact. Qed.
Print Assumptions C11_approve_exact.

(* 3. a transfer to oneself changes nothing: it is refused in every state, for every amount *)
Theorem C11_self_transfer : forall s v a x, step s (Transfer v a a x) = (s, false).
Proof. exact self_transfer_refused. Qed.
Print Assumptions C11_self_transfer.

Theorem C11_self_transfer_from : forall s v spender a x, step s (TransferFrom v spender a a x) = (s, false).
Proof. exact self_transfer_from_refused. Qed.
Print Assumptions C11_self_transfer_from.

(*    Documentation of the repaired defect (finding C11-1), about the PRE-FIX function body only
      (transfer_shares_prefix = handlerTransferShares before commit 458669b, without the guard) — not a
      statement about the current model: sending oneself 40 shares created 40 shares. *)
Theorem C11_prefix_self_transfer_witness :
  exists vs vs' pf pt, get_val 0 wit_pre = Some vs /\
    transfer_shares_prefix (s_height wit_pre) false 0 0 40 vs = Ok (vs', pf, pt) /\
    dget 0 vs = dec_of_int (100 * prec) /\
    dget 0 vs' = dec_of_int (100 * prec) + dec_of_int 40 /\
    v_shares vs' = dec_of_int (200 * prec) /\
    dsum (v_dels vs') = dec_of_int (200 * prec) + dec_of_int 40.
Proof. exact prefix_self_transfer_witness. Qed.
Print Assumptions C11_prefix_self_transfer_witness.

(* 4. after ANY list of operations (sender == recipient included), from genesis: the per-validator
      invariant (delegations sorted and non-negative and summing to the validator's shares, a starting
      info exactly for every delegation, the reference-count equation, period bounds, tokens >= 0,
      0 <= undistributed rewards <= outstanding rewards).  Operations include reward-carrying blocks,
      slashing for current and past infraction heights (unbonding and redelegation entries slashed,
      redelegated shares unbonded at the destination), jailing / unjailing and the validator leaving and
      re-entering the bonded set. *)
Theorem C11_invariant : forall n ops, Forall VInv (s_vals (run (gen_state n) ops)).
Proof. intros n ops. apply (proj1 (run_inv ops (gen_state n) (gen_state_inv n))). Qed.
Print Assumptions C11_invariant.

Theorem C11_sum_shares : forall n ops v vs,
  get_val v (run (gen_state n) ops) = Some vs -> dsum (v_dels vs) = v_shares vs.
Proof. exact sum_shares. Qed.
Print Assumptions C11_sum_shares.

(* 5. the SDK's reference-count invariant, per validator and period:
      refcount p = #starting infos at p + #slash events at p + [p = current period - 1],
      preserved by every operation including the hand-written edits of handlerTransferShares *)
Theorem C11_refcount : forall n ops v vs p,
  get_val v (run (gen_state n) ops) = Some vs ->
  href p vs = cnt_start p (v_start vs) + cnt_slash p (v_slashes vs) + b2z (p =? v_period vs - 1).
Proof. exact refcount. Qed.
Print Assumptions C11_refcount.

Theorem C11_start_iff_delegation : forall n ops v vs a,
  get_val v (run (gen_state n) ops) = Some vs ->
  khas a (v_dels vs) = khas a (v_start vs).
Proof. exact start_iff_delegation. Qed.
Print Assumptions C11_start_iff_delegation.

(* 6. the bookkeeping never blocks a delegator from withdrawing; the only thing that can is the SDK's own
      sanity check inside CalculateDelegationRewards (calc_ok: it returns a value) *)
Theorem C11_withdraw_live : forall n ops v vs a d,
  let s := run (gen_state n) ops in
  get_val v s = Some vs -> kget a (v_dels vs) = Some d -> 0 < d -> calc_ok (s_height s) a vs ->
  snd (step s (Withdraw v a)) = true.
Proof. exact withdraw_live. Qed.
Print Assumptions C11_withdraw_live.

(*    ... nor from undelegating any amount the staking module's own validation accepts (in particular
      everything): neither the distribution bookkeeping nor RemoveDelShares can fail *)
Theorem C11_undelegate_live : forall n ops v vs a d amt sh,
  let s := run (gen_state n) ops in
  get_val v s = Some vs -> kget a (v_dels vs) = Some d -> 0 < d ->
  0 < amt -> validate_unbond a amt vs = Ok sh -> ubd_entries a v s < max_entries ->
  calc_ok (s_height s) a vs ->
  snd (step s (Undelegate v a amt)) = true.
Proof. exact undelegate_live. Qed.
Print Assumptions C11_undelegate_live.

(* 7. a refused call changes nothing *)
Theorem C11_failed_call_no_effect : forall s o s', step s o = (s', false) -> s' = s.
Proof. exact failed_call_no_effect. Qed.
Print Assumptions C11_failed_call_no_effect.

(* 8. rewards: a transfer pays the sender exactly what a withdrawal on the pre-state pays and the recipient
      only if it had a delegation; both amounts come out of the validator's outstanding rewards, which
      stay >= 0 (rounding only ever leaves coins in the pool); afterwards nothing is pending for either
      party and no undistributed rewards are left behind *)
Theorem C11_transfer_rewards : forall s s' v from to x,
  SInv s -> exec s (Transfer v from to x) = Ok s' -> transfer_rewards_spec s s' v from to.
Proof. exact transfer_rewards. Qed.
Print Assumptions C11_transfer_rewards.

Theorem C11_transfer_from_rewards : forall s s' v spender from to x,
  SInv s -> exec s (TransferFrom v spender from to x) = Ok s' -> transfer_rewards_spec s s' v from to.
Proof. exact transfer_from_rewards. Qed.
Print Assumptions C11_transfer_from_rewards.

(*    ... and the recipient's entitlement is neither lost nor duplicated: the reward computed for it after
      the sender's withdrawal (the first thing a transfer does) is the reward computed on the state before
      the transfer (stake x (cumulative ratio[end] - ratio[start]) across the slash events, before clipping
      to the pot and truncation) *)
Theorem C11_recipient_entitlement : forall h from to v v1 pf,
  VInv v -> from <> to -> withdraw_delegation_rewards h from v = Ok (v1, pf) ->
  raw_reward h to v1 = raw_reward h to v.
Proof. exact recipient_entitlement_unchanged. Qed.
Print Assumptions C11_recipient_entitlement.

(* 9. the incoming-redelegation guard, over the call-path facts that harness/gen_c11 reads from
      TransferShares.Run / TransferFromShares.Run (gen/Gen_C11.v): the model's operations are the entry
      points those facts describe, and in BOTH the guard is applied to the account whose shares leave *)
Theorem C11_entry_transfer_agrees : forall s v from to x,
  exec_entry gen_transfer_facts v from from to x s = exec s (Transfer v from to x).
Proof. exact entry_transfer_agrees. Qed.
Print Assumptions C11_entry_transfer_agrees.

Theorem C11_entry_transfer_from_agrees : forall s v spender from to x,
  exec_entry gen_transfer_from_facts v spender from to x s = exec s (TransferFrom v spender from to x).
Proof. exact entry_transfer_from_agrees. Qed.
Print Assumptions C11_entry_transfer_from_agrees.

Theorem C11_guard_both_entry_points :
  In (ef_sender gen_transfer_facts) (ef_guards gen_transfer_facts) /\
  In (ef_sender gen_transfer_from_facts) (ef_guards gen_transfer_from_facts) /\
  (forall s s' v from to x, exec s (Transfer v from to x) = Ok s' -> has_receiving from v s = false) /\
  (forall s s' v spender from to x,
     exec s (TransferFrom v spender from to x) = Ok s' -> has_receiving from v s = false).
Proof. exact guard_both_entry_points. Qed.
Print Assumptions C11_guard_both_entry_points.

(* 10. lifecycle: exporting the application state (for zero height: all rewards withdrawn, every validator's
       and delegation's distribution records rebuilt at height 0; or as is) and importing it into a fresh
       application keeps every validator's tokens and shares and every delegation, and preserves the
       invariants — C11_invariant / C11_sum_shares / C11_refcount / liveness above quantify over operation
       lists that contain it *)
Theorem C11_export_import : forall s s' zero ord v vs',
  SInv s -> exec s (ExportImport zero ord) = Ok s' -> get_val v s' = Some vs' ->
  SInv s' /\ exists vs, get_val v s = Some vs /\
    v_tokens vs' = v_tokens vs /\ v_shares vs' = v_shares vs /\ v_dels vs' = v_dels vs.
Proof. exact export_import_identity_on_stake. Qed.
Print Assumptions C11_export_import.

(* 11. an approveShares (or anything else) made in a call frame that reverts afterwards takes no effect:
       transfer-from moves shares only under an allowance that took effect (C11_transfer_from_exact) *)
Theorem C11_reverted_no_effect : forall s o, step s (Reverted o) = (s, false).
Proof. exact reverted_no_effect. Qed.
Print Assumptions C11_reverted_no_effect.

(* 12. account migration (x/migrate DistrStakingMigrate): the new address holds exactly what the old one held
       on every validator, validators are unchanged, the invariants are preserved, and the incoming-
       redelegation guard follows the account — the new address has an incoming redelegation on a validator
       exactly if the old one had (so C11_guard_both_entry_points keeps refusing its transfers) *)
Theorem C11_migrate : forall s s' from to,
  SInv s -> exec s (Migrate from to) = Ok s' ->
  SInv s' /\ from <> to /\
  (forall dst, has_receiving to dst s' = has_receiving from dst s) /\
  (forall v vs, get_val v s = Some vs ->
     exists vs', get_val v s' = Some vs' /\
       v_tokens vs' = v_tokens vs /\ v_shares vs' = v_shares vs /\
       dget to vs' = dget from vs /\ dget from vs' = 0 /\
       (forall c, c <> from -> c <> to -> kget c (v_dels vs') = kget c (v_dels vs))).
Proof. exact migrate_conserves. Qed.
Print Assumptions C11_migrate.

Theorem C11_nonvacuous :
  all_ok (gen_state 2) ex_ops = true /\
  val_dget (run (gen_state 2) ex_ops) 0 3 = dec_of_int 7 + dec_of_int (20 * prec) /\
  aget (0, 1, 2) (s_allow (run (gen_state 2) ex_ops)) = 0 /\
  0 < paid_of 0 (run (gen_state 2) ex_ops) /\ 0 < paid_of 1 (run (gen_state 2) ex_ops) /\
  0 < paid_of 3 (run (gen_state 2) ex_ops) /\
  step (run (gen_state 2) ex_ops) (Transfer 0 1 1 1) = (run (gen_state 2) ex_ops, false).
Proof. exact nonvacuous. Qed.
Print Assumptions C11_nonvacuous.
