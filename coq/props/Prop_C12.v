(* Property C12: a batch / oracle-set / bridge-call confirmation is stored only with the oracle's
   signature over the checkpoint of exactly the stored object it names, submitted by that oracle's
   bridger, at most one per (object, oracle); the checkpoint fxcore signs is byte for byte what the
   bridge contract abi.encode()s and hashes, and pre-images of different (gravity id, kind, object)
   tuples differ.  keccak/ECDSA are not modelled: statements are on pre-images, `recover` is universally
   quantified. *)
From Coq Require Import ZArith List Bool.
From Coq Require String.
From FxV Require Import model.M_Abi model.M_CkDesc model.M_Confirm proofs.P_Abi proofs.P_Confirm gen.Gen_Checkpoint.
Import ListNotations.
Open Scope Z_scope.

(* ---- the ABI encoder ---- *)

Theorem C12_encode_injective : forall a b,
  sig_of a = sig_of b -> wt_args a -> wt_args b -> encode a = encode b -> a = b.
Proof. exact encode_injective. Qed.
Print Assumptions C12_encode_injective.

Theorem C12_encode_length : forall a,
  length (encode a) = (32 * length a + length (enc_tails a))%nat.
Proof. exact encode_length. Qed.
Print Assumptions C12_encode_length.

Theorem C12_args_well_typed : forall (cast : casts) gid o,
  wf_gid gid -> wf_obj o -> wt_args (ck_args cast gid o).
Proof. exact ck_args_wt. Qed.
Print Assumptions C12_args_well_typed.

(* ---- cross-domain separation, on pre-images ---- *)

Theorem C12_preimage_injective : forall tron g g' o o',
  wf_gid g -> wf_gid g' -> wf_obj o -> wf_obj o' ->
  go_preimage tron g o = go_preimage tron g' o' -> b32_of_bytes g = b32_of_bytes g' /\ o = o'.
Proof. exact go_preimage_injective. Qed.
Print Assumptions C12_preimage_injective.

Theorem C12_gravity_id_injective : forall g g',
  wf_gid g -> wf_gid g' -> ~ In 0 g -> ~ In 0 g' -> b32_of_bytes g = b32_of_bytes g' -> g = g'.
Proof. exact gravity_id_injective. Qed.
Print Assumptions C12_gravity_id_injective.

(* ---- Go (eth-like and tron) versus Solidity layout, from the generated tables ---- *)

Theorem C12_layout_tables_agree : forall k,
  option_map (map strip_cast) (norm_go_table (go_table k)) = norm_sol_table k (sol_table k)
  /\ option_map (map strip_cast) (norm_go_table (tron_table k)) = norm_sol_table k (sol_table k)
  /\ norm_sol_table k (sol_table k) <> None.
Proof. exact tables_agree. Qed.
Print Assumptions C12_layout_tables_agree.

Theorem C12_go_args_from_table : forall gid o,
  table_args (norm_go_table (go_table (kind_of o))) gid o = Some (go_checkpoint_args false gid o).
Proof. exact go_args_from_table. Qed.
Print Assumptions C12_go_args_from_table.

Theorem C12_tron_args_from_table : forall gid o,
  table_args (norm_go_table (tron_table (kind_of o))) gid o = Some (go_checkpoint_args true gid o).
Proof. exact tron_args_from_table. Qed.
Print Assumptions C12_tron_args_from_table.

Theorem C12_sol_args_from_table : forall gid o,
  table_args (norm_sol_table (kind_of o) (sol_table (kind_of o))) gid o = Some (sol_checkpoint_args gid o).
Proof. exact sol_args_from_table. Qed.
Print Assumptions C12_sol_args_from_table.

Theorem C12_layout_agrees_from_tables : forall gid o tg ts r,
  wf_obj o -> u64_small o -> map strip_cast tg = ts ->
  args_of_table gid o tg = Some r -> args_of_table gid o ts = Some r.
Proof. exact layout_agrees_from_tables. Qed.
Print Assumptions C12_layout_agrees_from_tables.

Theorem C12_layout_agrees : forall tron gid o,
  wf_obj o -> u64_small o -> go_preimage tron gid o = sol_preimage gid o.
Proof. exact layout_agrees_small. Qed.
Print Assumptions C12_layout_agrees.

Theorem C12_layout_agrees_iff : forall cs gid o,
  wf_gid gid -> wf_obj o -> (encode (ck_args cs gid o) = sol_preimage gid o <-> u64_small_cs cs o).
Proof. exact layout_agrees_iff. Qed.
Print Assumptions C12_layout_agrees_iff.

Theorem C12_uint64_cast_refuted : forall cs, k_set_nonce cs = true ->
  exists gid o, wf_gid gid /\ wf_obj o /\ encode (ck_args cs gid o) <> sol_preimage gid o.
Proof. exact uint64_cast_refuted. Qed.
Print Assumptions C12_uint64_cast_refuted.

Theorem C12_selector_stripped : go_strip = [4; 4; 4].
Proof. exact strip_is_selector. Qed.
Print Assumptions C12_selector_stripped.

Theorem C12_sig_prefix_agrees : go_sig_prefix = sol_sig_prefix /\ length go_sig_prefix = 28%nat.
Proof. exact sig_prefix_agrees. Qed.
Print Assumptions C12_sig_prefix_agrees.

(* ---- the confirm handlers ---- *)

Theorem C12_accept_rule : forall recover st m k,
  handle recover st m = Accepted k <-> accept_rule recover st m k.
Proof. exact handle_accept_iff. Qed.
Print Assumptions C12_accept_rule.

Theorem C12_confirm_step_store : forall recover st m st' r,
  confirm_step recover st m = (st', r) ->
  (forall e, In e (st_conf st) -> In e (st_conf st')) /\
  (forall k c, In (k, c) (st_conf st') ->
     In (k, c) (st_conf st) \/ (r = Accepted k /\ c = m /\ accept_rule recover st m k)).
Proof. exact confirm_step_store. Qed.
Print Assumptions C12_confirm_step_store.

Theorem C12_stored_confirm_justified : forall recover ops st k c,
  In (k, c) (st_conf (run recover ops st)) ->
  In (k, c) (st_conf st) \/ exists st0, In (st0, c) (trace recover ops st) /\ accept_rule recover st0 c k.
Proof. exact stored_confirm_justified. Qed.
Print Assumptions C12_stored_confirm_justified.

Theorem C12_at_most_one_confirm : forall recover ops st,
  NoDup (map fst (st_conf st)) -> NoDup (map fst (st_conf (run recover ops st))).
Proof. exact at_most_one_confirm. Qed.
Print Assumptions C12_at_most_one_confirm.

Theorem C12_confirm_unique : forall recover ops st k c1 c2,
  NoDup (map fst (st_conf st)) ->
  In (k, c1) (st_conf (run recover ops st)) -> In (k, c2) (st_conf (run recover ops st)) -> c1 = c2.
Proof. exact confirm_unique. Qed.
Print Assumptions C12_confirm_unique.

Theorem C12_confirm_not_overwritten : forall recover st m e,
  In e (st_conf st) -> In e (st_conf (step recover st (OConfirm m))).
Proof. exact confirm_not_overwritten. Qed.
Print Assumptions C12_confirm_not_overwritten.

Theorem C12_accepted_is_contract_digest : forall recover st m k,
  handle recover st m = Accepted k ->
  exists o sig orc,
    assoc okey_eqb (msg_okey m) (st_objs st) = Some o /\
    assoc Z.eqb (snd k) (st_oracles st) = Some orc /\
    m_sig m = Some sig /\
    (wf_obj o -> u64_small o ->
     sig_signer recover (st_tron st) (sol_preimage (st_gid st) o) sig = Some (o_external orc)).
Proof. exact accepted_is_contract_digest. Qed.
Print Assumptions C12_accepted_is_contract_digest.

Theorem C12_no_transplant : forall recover st m k g0 o0 sig orc,
  handle recover st m = Accepted k ->
  m_sig m = Some sig ->
  assoc Z.eqb (snd k) (st_oracles st) = Some orc ->
  (forall P, sig_signer recover (st_tron st) P sig = Some (o_external orc) -> P = go_preimage (st_tron st) g0 o0) ->
  wf_gid g0 -> wf_obj o0 -> wf_gid (st_gid st) ->
  forall o, assoc okey_eqb (msg_okey m) (st_objs st) = Some o -> wf_obj o ->
  b32_of_bytes (st_gid st) = b32_of_bytes g0 /\ o = o0.
Proof. exact no_transplant. Qed.
Print Assumptions C12_no_transplant.

(* ---- the recovery byte V: what is accepted is what the contract's ecrecover rule can verify ---- *)

Theorem C12_tree_vnorm_strict : vnorm_strict eth_vnorm = true /\ vnorm_strict tron_vnorm = true.
Proof. exact tree_vnorm_strict. Qed.
Print Assumptions C12_tree_vnorm_strict.

Theorem C12_accepted_v_usable : forall recover,
  (forall t pre s a, recover t pre s = Some a ->
     length s = 65%nat /\ (nth_error s 64 = Some 0 \/ nth_error s 64 = Some 1)) ->
  forall st m k,
  vnorm_strict (chain_vnorm (st_tron st)) = true ->
  handle recover st m = Accepted k ->
  exists sig v, m_sig m = Some sig /\ length sig = 65%nat /\ nth_error sig 64 = Some v /\
                (0 <= v < 256 -> contract_v v <> None).
Proof. exact accepted_v_usable. Qed.
Print Assumptions C12_accepted_v_usable.

Theorem C12_accepted_v_usable_on_tree : forall recover,
  (forall t pre s a, recover t pre s = Some a ->
     length s = 65%nat /\ (nth_error s 64 = Some 0 \/ nth_error s 64 = Some 1)) ->
  forall st m k,
  handle recover st m = Accepted k ->
  exists sig v, m_sig m = Some sig /\ length sig = 65%nat /\ nth_error sig 64 = Some v /\
                (0 <= v < 256 -> contract_v v <> None).
Proof. exact accepted_v_usable_on_tree. Qed.
Print Assumptions C12_accepted_v_usable_on_tree.

Theorem C12_vmod_not_strict : vnorm_strict (VMod 27) = false /\ apply_vnorm (VMod 27) 54 = 0 /\ contract_v 54 = None.
Proof. exact vmod_not_strict. Qed.
Print Assumptions C12_vmod_not_strict.

(* ---- genesis export + import ---- *)

Theorem C12_import_at_most_one : forall by_ext st, NoDup (map fst (import_conf by_ext st)).
Proof. exact import_nodup. Qed.
Print Assumptions C12_import_at_most_one.

(* owner of an imported confirm looked up by its bridger (the tree as it is): guarded *)
Theorem C12_import_sound_by_bridger : forall st, bridgers_resolve_to_key st ->
  forall e, In e (import_conf false st) -> In e (st_conf st).
Proof. exact import_sound_by_bridger. Qed.
Print Assumptions C12_import_sound_by_bridger.

(* ... by its external address (the proposed fix): no condition on bridgers *)
Theorem C12_import_sound : forall st, conf_attributed st -> ext_unique st ->
  forall e, In e (import_conf true st) -> In e (st_conf st).
Proof. exact import_sound_by_external. Qed.
Print Assumptions C12_import_sound.

(* this tree (C12-1 repaired, /repo 3bd6d6b) looks the owner up by external address: pinned *)
Theorem C12_tree_genesis_owner_by_external : genesis_confirm_owner_by_external = true.
Proof. exact tree_genesis_owner_by_external. Qed.
Print Assumptions C12_tree_genesis_owner_by_external.

Theorem C12_import_sound_on_tree : forall st, conf_attributed st -> ext_unique st ->
  forall e, In e (import_conf genesis_confirm_owner_by_external st) -> In e (st_conf st).
Proof. exact import_sound_on_tree. Qed.
Print Assumptions C12_import_sound_on_tree.

(* the pre-fix behaviour, stated about the explicit by-bridger variant (import_conf false), evaluated on the witness:
   without the guard of C12_import_sound_by_bridger oracle 11's confirm is filed under oracle 12; by external address
   (import_conf true) the same state is unchanged *)
Theorem C12_import_by_bridger_refuted :
  import_conf false ex_reuse_state = [(((KOracleSet, 0, 3), 12), ex_msg)] /\ m_external ex_msg = 31 /\
  assoc Z.eqb 12 (st_oracles ex_reuse_state) = Some {| o_bridger := 21; o_external := 32 |} /\
  import_conf true ex_reuse_state = st_conf ex_reuse_state.
Proof. exact import_by_bridger_refuted. Qed.
Print Assumptions C12_import_by_bridger_refuted.

(* ---- who signs the transaction ---- *)

Theorem C12_tx_signer_is_bridger : forall recover unpacks checks st s t k,
  (unpacks = false \/ checks = true) ->
  tx_deliver recover unpacks checks st s t = Accepted k ->
  exists orc, assoc Z.eqb (snd k) (st_oracles st) = Some orc /\ s = o_bridger orc.
Proof. exact tx_signer_is_bridger. Qed.
Print Assumptions C12_tx_signer_is_bridger.

Theorem C12_tree_wrapper_safe : negb msgconfirm_unpacks || msgconfirm_vb_compares_bridger = true.
Proof. exact tree_wrapper_safe. Qed.
Print Assumptions C12_tree_wrapper_safe.

Theorem C12_tx_signer_is_bridger_on_tree : forall recover st s t k,
  tx_deliver recover msgconfirm_unpacks msgconfirm_vb_compares_bridger st s t = Accepted k ->
  exists orc, assoc Z.eqb (snd k) (st_oracles st) = Some orc /\ s = o_bridger orc.
Proof. exact tx_signer_is_bridger_on_tree. Qed.
Print Assumptions C12_tx_signer_is_bridger_on_tree.

(* latent, see docs/C12.md: needs UnpackInterfaces without the comparison *)
Theorem C12_wrapped_signer_latent :
  exists recover st s t k orc,
    tx_deliver recover true false st s t = Accepted k /\
    assoc Z.eqb (snd k) (st_oracles st) = Some orc /\ s <> o_bridger orc.
Proof. exact wrapped_signer_latent. Qed.
Print Assumptions C12_wrapped_signer_latent.

Theorem C12_confirm_nonvacuous :
  handle rec_ok ex_state ex_msg = Accepted ((KOracleSet, 0, 3), 11) /\
  handle rec_other ex_state ex_msg = Rejected ESignature /\
  handle rec_ok (fst (confirm_step rec_ok ex_state ex_msg)) ex_msg = Rejected EDuplicate /\
  handle rec_ok ex_state {| m_kind := KOracleSet; m_token := 0; m_nonce := 4; m_bridger := 21; m_external := 31; m_sig := m_sig ex_msg |}
    = Rejected ENoObject /\
  handle rec_ok ex_state {| m_kind := KOracleSet; m_token := 0; m_nonce := 3; m_bridger := 22; m_external := 31; m_sig := m_sig ex_msg |}
    = Rejected EBridger /\
  handle rec_ok ex_state {| m_kind := KOracleSet; m_token := 0; m_nonce := 3; m_bridger := 21; m_external := 31; m_sig := Some (repeat 1 64) |}
    = Rejected ESignature /\
  wf_obj ex_set /\ u64_small ex_set /\ zlen (go_preimage false (st_gid ex_state) ex_set) = 352.
Proof. exact confirm_nonvacuous. Qed.
Print Assumptions C12_confirm_nonvacuous.
