(* Property C13: oracle registry one-to-one; stake recoverable; only missed signing is slashed.
   Model: model/M_OracleReg.v (transcription of x/crosschain/keeper msg_server.go, oracle.go, proposal.go,
   delegate.go, abci.go, confirm.go); proofs: proofs/P_OracleReg{,2,3}.v.
   One part of the property is FALSE of the code (and of the faithful model): recorded stake = delegated
   stake (finding C13-2, docs/findings/C13-2.md; C13_stake_backed_refuted next to the strongest true
   statement C13_stake_accounting).  A second one (C13-1, the stake of a removed oracle could not be
   withdrawn) has been fixed in /repo; the model follows the source through gen/Gen_OracleSlash.v, the
   property is proved for the fixed variant (C13_unbond_once) and refuted for the pre-fix variant. *)
From Coq Require Import ZArith List Bool.
From FxV Require Import gen.Gen_OracleSlash model.M_OracleReg proofs.P_OracleReg proofs.P_OracleReg2 proofs.P_OracleRegStake proofs.P_OracleReg3 proofs.P_OracleRegCap proofs.P_OracleRegStaking.
Import ListNotations.
Open Scope Z_scope.

(* 1. registry one-to-one, in every reachable state, for all operation lists *)
Theorem C13_indexes : forall h t ub vs p ops s, s = run (init h t ub vs p) ops ->
  (forall a1 a2 r1 r2, recs s a1 = Some r1 -> recs s a2 = Some r2 ->
      o_bridger r1 = o_bridger r2 \/ o_ext r1 = o_ext r2 -> a1 = a2) /\
  (forall a r, recs s a = Some r -> o_addr r = a) /\
  (forall a r, recs s a = Some r -> by_bridger s (o_bridger r) = Some a /\ by_ext s (o_ext r) = Some a) /\
  (forall b a, by_bridger s b = Some a -> exists r, recs s a = Some r /\ o_bridger r = b) /\
  (forall e a, by_ext s e = Some a -> exists r, recs s a = Some r /\ o_ext r = e).
Proof. exact indexes_one_to_one. Qed.
Print Assumptions C13_indexes.

(* 1b. genesis export / import (chain restart from exported state): ExportGenesis exports every oracle record
       (C13_export_covers_all_oracles is a TRANSLATOR TIE: reflexivity on the constant generated from the source on
       every run; it stops compiling when the source exports a subset), and then export + import gives back exactly the registry — records
       and both indexes — and touches nothing of the stake *)
Theorem C13_export_covers_all_oracles : export_all_oracles = true.
Proof. reflexivity. Qed.
Print Assumptions C13_export_covers_all_oracles.

Theorem C13_export_import_preserves_registry : export_all_oracles = true ->
  forall s s', idx_inv s -> keys_inv s -> step s ExportImport = Ok s' ->
  (forall a, recs s' a = recs s a) /\
  (forall b, by_bridger s' b = by_bridger s b) /\
  (forall e, by_ext s' e = by_ext s e) /\
  proposal s' = proposal s /\ prm s' = prm s /\ deleg s' = deleg s /\ ubds s' = ubds s /\
  bal_o s' = bal_o s /\ bal_d s' = bal_d s /\ burned s' = burned s /\ gov_und s' = gov_und s /\ vals s' = vals s.
Proof. exact export_import_preserves_registry. Qed.
Print Assumptions C13_export_import_preserves_registry.

(* 1c. the 30 % power cap of UpdateProposalOracles: an accepted governance list update takes away no online power
       or strictly less than floor(30 * online power / 100); the online power afterwards is exactly what was
       there minus what was taken, so more than 70 % stays; the stored LastTotalPower is not refreshed; at or
       above the cap the update is refused *)
Theorem C13_gov_power_cap : forall s l rws s', reg_inv s -> step s (GovSet l rws) = Ok s' ->
  let total := compute_power s in
  let del := removed_power s l in
  (del <= 0 \/ (del < Z.quot (change_power_pct * total) 100 /\ 100 * del < 30 * total)) /\
  compute_power s' = total - del /\
  (0 < del -> 70 * total < 100 * compute_power s') /\
  total_power s' = total_power s.
Proof. exact gov_power_cap. Qed.
Print Assumptions C13_gov_power_cap.

Theorem C13_gov_refused_over_cap : forall s l rws,
  0 < removed_power s l -> Z.quot (change_power_pct * compute_power s) 100 <= removed_power s l ->
  forall s', step s (GovSet l rws) <> Ok s'.
Proof. exact gov_set_refused_over_cap. Qed.
Print Assumptions C13_gov_refused_over_cap.

Theorem C13_power_cap_nonvacuous :
  (let s := run w_init w_setup in
   compute_power s = 700 /\ removed_power s [2; 3; 4; 5; 6] = 200 /\
   is_ok (step s (GovSet [2; 3; 4; 5; 6] [])) = true /\ compute_power (exec s (GovSet [2; 3; 4; 5; 6] [])) = 500 /\
   total_power (exec s (GovSet [2; 3; 4; 5; 6] [])) = 700 /\
   removed_power s [3; 4; 5; 6] = 300 /\ step s (GovSet [3; 4; 5; 6] []) = Err e_invalid) /\
  (let s := run w_init w_ten in
   compute_power s = 1000 /\ removed_power s [3; 4; 5; 6; 7; 8; 9] = 300 /\
   step s (GovSet [3; 4; 5; 6; 7; 8; 9] []) = Err e_invalid /\
   is_ok (step s (GovSet [2; 3; 4; 5; 6; 7; 8; 9] [])) = true).
Proof. exact power_cap_nonvacuous. Qed.
Print Assumptions C13_power_cap_nonvacuous.

(* 2. only approved oracles bond, stake inside the bounds; recorded = transferred = delegated
      ([deleg] counts SHARES scaled 10^18; [rate1 s]: no validator has been slashed by staking, 1 share = 1 token) *)
Theorem C13_bond_rules : forall s a b e v amt s', step s (Bond a b e v amt) = Ok s' ->
  In a (proposal s) /\ recs s a = None /\ by_bridger s b = None /\ by_ext s e = None /\
  p_threshold (prm s) <= amt <= max_stake (prm s) /\
  recs s' a = Some (mkOracle a b e amt (height s) true v 0) /\
  bal_o s' a = bal_o s a - amt /\ bal_d s' = bal_d s /\ burned s' = burned s /\
  (exists V' dl', stk_delegate (vals s) (deleg s) a v amt = Some (V', dl') /\ vals s' = V' /\ deleg s' = dl' /\
                  v_tok V' v = vtok s v + amt) /\
  (rate1 s -> deleg s' a v = deleg s a v + amt * dec_one).
Proof. exact bond_rules. Qed.
Print Assumptions C13_bond_rules.

Theorem C13_add_delegate_rules : forall s a amt rw s', step s (AddDelegate a amt rw) = Ok s' ->
  exists r, recs s a = Some r /\ In a (proposal s) /\
    let sl := slash_amount r (p_fraction (prm s)) in
    let dc := amt - sl in
    0 <= sl /\ 0 <= dc /\
    p_threshold (prm s) <= o_amount r + dc <= max_stake (prm s) /\
    recs s' a = Some (mkOracle (o_addr r) (o_bridger r) (o_ext r) (o_amount r + dc)
                               (if o_online r then o_start r else height s) true (o_val r) 0) /\
    bal_o s' a = bal_o s a - amt /\
    (rate1 s -> deleg s' a (o_val r) = deleg s a (o_val r) + dc * dec_one) /\
    burned s' = burned s + sl.
Proof. exact add_delegate_rules. Qed.
Print Assumptions C13_add_delegate_rules.

(* 3. the stake equation, along every operation list in which staking slashes no validator ([calm]): recorded
      stake = delegated on the oracle's behalf + what governance removal undelegated since the record was created *)
Theorem C13_stake_accounting : forall h t ub vs p ops s a r, rate1V vs -> Forall calm ops ->
  s = run (init h t ub vs p) ops -> recs s a = Some r ->
  deleg s a (o_val r) = (o_amount r - gov_und s a) * dec_one /\
  (forall v, v <> o_val r -> deleg s a v = 0) /\
  (gov_und s a = 0 -> deleg s a (o_val r) = o_amount r * dec_one) /\
  (~ In a (proposal s) -> deleg s a (o_val r) = 0) /\
  rate1 s.
Proof. exact stake_accounting. Qed.
Print Assumptions C13_stake_accounting.

Theorem C13_gov_und_moves_only_on_removal : forall s o s' a, step s o = Ok s' ->
  gov_und s' a = gov_und s a \/
  (exists b e v amt, o = Bond a b e v amt /\ gov_und s' a = 0) \/
  (exists l rws, o = GovSet l rws /\ ~ In a l /\ In a (proposal s)).
Proof. exact gov_und_moves_only_on_removal. Qed.
Print Assumptions C13_gov_und_moves_only_on_removal.

(*    ... and the full statement "recorded = delegated" is false (finding C13-2) *)
Theorem C13_stake_backed_refuted : exists ops a r,
  let s := run w_init ops in
  recs s a = Some r /\ In a (proposal s) /\ o_online r = true /\
  o_amount r = FX 10000 + 1 /\ deleg s a (o_val r) = 1 * dec_one /\ power r = 100.
Proof. exact stake_backed_refuted. Qed.
Print Assumptions C13_stake_backed_refuted.

(*    with validator slashing (the staking module takes tokens from a validator, shares stay): the crosschain
      helper GetOracleDelegateToken converts the delegation's shares at the validator's rate, so the amount it
      asks staking to re-delegate / undelegate is never refused as "invalid shares amount", whatever the rate:
      the oracle can still move away, governance can still remove it, and what matures is what is left *)
Theorem C13_delegate_token_unbondable : forall V dl a v tok,
  0 < v_tok V v -> 0 < v_shr V v -> 0 <= dl a v ->
  delegate_token V dl a v = Some tok ->
  shares_from_tokens_trunc (v_tok V v) (v_shr V v) tok <= dl a v.
Proof. exact delegate_token_unbondable. Qed.
Print Assumptions C13_delegate_token_unbondable.

Theorem C13_delegate_token_accepted_by_staking : forall V dl a v tok,
  0 < v_tok V v -> 0 < v_shr V v -> 0 <= dl a v ->
  delegate_token V dl a v = Some tok -> 0 < tok ->
  exists V' dl' back, stk_unbond V dl a v tok = Some (V', dl', back).
Proof. exact delegate_token_accepted_by_staking. Qed.
Print Assumptions C13_delegate_token_accepted_by_staking.

Theorem C13_validator_slash_life_cycle_on_tree :
  let s := run w_init w_F in
  let s' := exec s (Unbond 0) in
  vtok s 0 = FX 9595 /\ vshr s 0 = FX 10100 * dec_one /\
  recs s 3 = Some (mkOracle 3 103 203 (FX 10000) 2 true 2 0) /\ deleg s 3 2 = FX 9500 * dec_one /\ deleg s 3 0 = 0 /\
  recs s 0 = Some (mkOracle 0 100 200 (FX 10000) 2 false 0 0) /\ deleg s 0 0 = 0 /\ ubds s = [] /\
  bal_d s 0 = FX 9500 + 7 /\
  is_ok (step s (Unbond 0)) = true /\ bal_o s' 0 - bal_o s 0 = FX 9500 + 7 /\ recs s' 0 = None /\
  step s' (Unbond 0) = Err e_notfound.
Proof. exact validator_slash_life_cycle_on_tree. Qed.
Print Assumptions C13_validator_slash_life_cycle_on_tree.

(* 3b. staking-side events (validator slashed for a current or a past infraction, jailed, unbonding, unbonded):
       the real delegation moves, the crosschain records do not; the recorded stake changes in AddDelegate only;
       the penalty is computed from the recorded stake, so when staking left less than that the withdrawal is
       refused (finding C13-3) *)
Theorem C13_staking_side_blind : forall s o s', staking_side o -> step s o = Ok s' ->
  recs s' = recs s /\ by_bridger s' = by_bridger s /\ by_ext s' = by_ext s /\ proposal s' = proposal s /\
  keys s' = keys s /\ bal_o s' = bal_o s /\ burned s' = burned s /\ total_power s' = total_power s /\ prm s' = prm s.
Proof. exact staking_side_blind. Qed.
Print Assumptions C13_staking_side_blind.

Theorem C13_recorded_stake_moves_only_on_add_delegate : forall s o s' a r r', reg_inv s -> step s o = Ok s' ->
  recs s a = Some r -> recs s' a = Some r' ->
  o_amount r' = o_amount r \/ exists amt rw, o = AddDelegate a amt rw.
Proof. exact recorded_stake_moves_only_on_add_delegate. Qed.
Print Assumptions C13_recorded_stake_moves_only_on_add_delegate.

Theorem C13_unbond_refused_when_penalty_exceeds_balance : forall ne s a r, recs s a = Some r ->
  0 < slash_amount r (p_fraction (prm s)) -> bal_d s a < slash_amount r (p_fraction (prm s)) ->
  forall s', unbond_gen ne false s a <> Ok s'.
Proof. exact unbond_refused_when_penalty_exceeds_balance. Qed.
Print Assumptions C13_unbond_refused_when_penalty_exceeds_balance.

(* the witness is evaluated on the explicit refusing variant [run_with false false] (entry test as fixed, penalty rule
   as before the C13-3 patch), whatever the checked tree says *)
Theorem C13_penalty_exceeds_remaining_refuted : exists ops a r,
  let s := run_with false false w_init1 ops in
  recs s a = Some r /\ ~ In a (proposal s) /\ o_online r = false /\ o_slash r = 1 /\
  (forall u, In u (ubds s) -> u_orc u <> a) /\ deleg s a (o_val r) = 0 /\
  o_amount r = FX 10000 /\ slash_amount r (p_fraction (prm s)) = FX 10000 /\ bal_d s a = FX 9500 + 9 /\
  step_with false false s (Unbond a) = Err e_invalid.
Proof. exact penalty_exceeds_remaining_refuted. Qed.
Print Assumptions C13_penalty_exceeds_remaining_refuted.

(* the capped variant of the penalty rule (the C13-3 patch): the oracle receives max(0, matured - penalty), exactly
   min(penalty, matured) is burned, the delegate address ends empty, the records are deleted; and the same life cycle
   computed with it *)
Theorem C13_unbond_capped_pays : forall ne s a r, recs s a = Some r -> ~ In a (proposal s) -> o_online r = false ->
  has_ubd a (o_val r) (ubds s) = ne -> 0 <= bal_d s a ->
  exists s', unbond_gen ne true s a = Ok s' /\
    bal_o s' a = bal_o s a + Z.max 0 (bal_d s a - slash_amount r (p_fraction (prm s))) /\
    burned s' = burned s + Z.min (slash_amount r (p_fraction (prm s))) (bal_d s a) /\
    bal_d s' a = 0 /\ recs s' a = None /\ by_bridger s' (o_bridger r) = None /\ by_ext s' (o_ext r) = None /\
    (forall ne' cap' s'', unbond_gen ne' cap' s' a <> Ok s'').
Proof. exact unbond_capped_pays. Qed.
Print Assumptions C13_unbond_capped_pays.

Theorem C13_penalty_capped_life_cycle :
  let s := run_with false true w_init1 w_J in
  let s' := exec_with false true s (Unbond 3) in
  is_ok (step_with false true s (Unbond 3)) = true /\ bal_d s 3 = FX 9500 + 9 /\
  bal_o s' 3 = bal_o s 3 /\ burned s' = burned s + (FX 9500 + 9) /\ bal_d s' 3 = 0 /\
  recs s' 3 = None /\ by_bridger s' 103 = None /\ by_ext s' 203 = None /\
  step_with false true s' (Unbond 3) = Err e_notfound.
Proof. exact penalty_capped_life_cycle. Qed.
Print Assumptions C13_penalty_capped_life_cycle.

Theorem C13_past_infraction_nonvacuous :
  let s0 := run w_init (w_setup ++ confirm_all 1 (-1) ++ [ReDelegate 3 2 4; GovSet [1; 2; 3; 4; 5; 6] [(0, 7)]]) in
  let s := run w_init w_K in
  map u_amt (ubds s0) = [FX 10000] /\ map u_amt (ubds s) = [FX 9500] /\
  deleg s0 3 2 = FX 10000 * dec_one /\ deleg s 3 2 = FX 9500 * dec_one /\
  bal_d s 3 = bal_d s0 3 + 2 /\ recs s 3 = recs s0 3 /\ recs s 0 = recs s0 0 /\
  (o_amount (mkOracle 3 103 203 (FX 10000) 2 true 2 0) = FX 10000 /\ recs s 3 = Some (mkOracle 3 103 203 (FX 10000) 2 true 2 0)).
Proof. exact past_infraction_nonvacuous. Qed.
Print Assumptions C13_past_infraction_nonvacuous.

(* 4. penalties never exceed the stake and are charged once per offline period *)
Theorem C13_slash_bounded : forall r f, 0 <= slash_amount r f <= Z.max 0 (o_amount r).
Proof. exact penalty_bounded. Qed.
Print Assumptions C13_slash_bounded.

Theorem C13_slash_count_bounded : forall h t ub vs p ops s a r, s = run (init h t ub vs p) ops ->
  recs s a = Some r -> o_slash r = 0 \/ (o_slash r = 1 /\ o_online r = false).
Proof. exact slash_count_bounded. Qed.
Print Assumptions C13_slash_count_bounded.

Theorem C13_penalty_charged_once : forall s o s', reg_inv s -> step s o = Ok s' ->
  burned s' = burned s \/
  exists a r, recs s a = Some r /\ o_slash r = 1 /\ o_online r = false /\
    (((exists amt rw, o = AddDelegate a amt rw) /\ burned s' = burned s + slash_amount r (p_fraction (prm s))) \/
     (o = Unbond a /\
      burned s' = burned s + charged unbond_penalty_capped (slash_amount r (p_fraction (prm s))) (bal_d s a) /\
      0 <= charged unbond_penalty_capped (slash_amount r (p_fraction (prm s))) (bal_d s a)
        <= slash_amount r (p_fraction (prm s)))) /\
    slash_amount r (p_fraction (prm s)) <= Z.max 0 (o_amount r) /\
    (recs s' a = None \/ exists r', recs s' a = Some r' /\ o_slash r' = 0 /\ o_online r' = true).
Proof. exact penalty_charged_once. Qed.
Print Assumptions C13_penalty_charged_once.

Theorem C13_reachable_inv : forall h t ub vs p ops, reg_inv (run (init h t ub vs p) ops).
Proof. exact reachable_inv. Qed.
Print Assumptions C13_reachable_inv.

(* 5. who goes offline and why.  [skip_of], [due_of] are built from gen/Gen_OracleSlash.v, i.e. from the
      comparison operators found in abci.go / GetUnSlashed* of the checked tree *)
Theorem C13_source_operators :
  (forall k start created, skip_of k start created = false -> start <= created) /\
  (forall s k x, In x (due_of s k) -> In x (objs_of s k) /\ ob_height x <= height s - p_window (prm s)).
Proof. exact (conj skip_sound due_of_In). Qed.
Print Assumptions C13_source_operators.

Theorem C13_slash_rule : forall s o s' a r r', reg_inv s -> step s o = Ok s' ->
  recs s a = Some r -> o_online r = true -> recs s' a = Some r' -> o_online r' = false ->
  (exists l rws, o = GovSet l rws /\ ~ In a l /\ r' = set_offline r) \/
  (exists t1 t2 pd k x, o = EndBlock t1 t2 pd /\ r' = set_off r /\ In x (due_of s k) /\
     In x (objs_of s k) /\
     o_start r <= ob_height x /\
     has_conf_ext (o_ext r) x = false /\
     height s - ob_height x >= p_window (prm s)).
Proof. exact offline_only_if. Qed.
Print Assumptions C13_slash_rule.

Theorem C13_slashed_only_if : forall s o s' a, reg_inv s -> step s o = Ok s' ->
  slash_count s a < slash_count s' a ->
  exists t1 t2 pd r k x, o = EndBlock t1 t2 pd /\ recs s a = Some r /\ o_online r = true /\
     recs s' a = Some (set_off r) /\ In x (due_of s k) /\
     In x (objs_of s k) /\ o_start r <= ob_height x /\
     has_conf_ext (o_ext r) x = false /\ height s - ob_height x >= p_window (prm s).
Proof. exact slashed_only_if. Qed.
Print Assumptions C13_slashed_only_if.

Theorem C13_confirmed_never_slashed : forall ops s a, reg_inv s ->
  all_steps (signs_in_time a) s ops -> all_steps (never_penalised a) s ops.
Proof. exact confirmed_never_slashed. Qed.
Print Assumptions C13_confirmed_never_slashed.

Theorem C13_signed_all_old_due : forall a s,
  (forall r k x, recs s a = Some r -> In x (objs_of s k) -> o_start r <= ob_height x ->
                 height s - ob_height x >= p_window (prm s) -> has_conf_ext (o_ext r) x = true) ->
  signed_all_due a s.
Proof. exact signed_all_old_due. Qed.
Print Assumptions C13_signed_all_old_due.

Theorem C13_loop_panic_halts : forall s t1 t2 pd k,
  loop_panics (staking_end s t1) k = true -> step s (EndBlock t1 t2 pd) = Panic.
Proof. exact loop_panic_halts. Qed.
Print Assumptions C13_loop_panic_halts.

(* 5b. oracle-set requests are computed (GetCurrentOracleSet, isNeedOracleSetRequest with the float power
       difference of model.M_OsetPhase) and pruned (pruneOracleSet): pruning removes only sets past the window and
       older than the set the external chain adopted *)
Theorem C13_prune_only_old_observed : forall s x, In x (sets s) -> ~ In x (sets (prune_sets s)) ->
  exists lo, last_obs s = Some lo /\ ob_height x < height s - p_window (prm s) /\ ob_nonce x < lo.
Proof. exact prune_only_old_observed. Qed.
Print Assumptions C13_prune_only_old_observed.

Theorem C13_oset_request_nonvacuous :
  let s1 := run w_init (w_setup ++ confirm_all 1 (-1)) in
  map ob_nonce (sets s1) = [1] /\ set_mem s1 1 <> [] /\
  map ob_nonce (sets (exec s1 (EndBlock 10 15 false))) = [1] /\
  let s2 := run s1 [GovSet [1; 2; 3; 4; 5; 6] []; EndBlock 10 15 false] in
  map ob_nonce (sets s2) = [1; 2] /\ length (set_mem s2 2) = 6%nat /\
  let s3 := run s2 (confirm_all 2 0 ++ [ObserveSet 2; EndBlock 15 20 false; EndBlock 20 25 false; EndBlock 25 30 false]) in
  map ob_nonce (sets s3) = [2] /\ last_obs s3 = Some 2 /\ recs s3 1 = recs s2 1.
Proof. exact oset_request_nonvacuous. Qed.
Print Assumptions C13_oset_request_nonvacuous.

(* 6. unbonding.  Two points of UnbondedOracle are re-read from msg_server.go on every run (gen/Gen_OracleSlash.v) and
      are explicit parameters [ne], [cap] of the transcription [unbond_gen]; [step] uses the generated values.
      What an accepted call does, for every variant: *)
Theorem C13_unbond_pays_once : forall ne cap s a s', unbond_gen ne cap s a = Ok s' ->
  exists r, recs s a = Some r /\ ~ In a (proposal s) /\ o_online r = false /\
    has_ubd a (o_val r) (ubds s) = ne /\
    (cap = false -> 0 < slash_amount r (p_fraction (prm s)) -> slash_amount r (p_fraction (prm s)) <= bal_d s a) /\
    let ch := charged cap (slash_amount r (p_fraction (prm s))) (bal_d s a) in
    bal_o s' a = bal_o s a + (bal_d s a - ch) /\ bal_d s' a = 0 /\ burned s' = burned s + ch /\
    recs s' a = None /\ by_bridger s' (o_bridger r) = None /\ by_ext s' (o_ext r) = None /\
    ubds s' = ubds s /\
    (forall ne' cap' s'', unbond_gen ne' cap' s' a <> Ok s'').
Proof. exact unbond_gen_spec. Qed.
Print Assumptions C13_unbond_pays_once.

(*    THE TREE AS IT IS (translator tie): the entry test reads "refuse while an unbonding entry exists" (C13-1 is
      repaired).  On a tree with the test the other way round this and the three theorems after it stop compiling. *)
Theorem C13_tree_unbond_rule : unbond_needs_entry = false.
Proof. reflexivity. Qed.
Print Assumptions C13_tree_unbond_rule.

(*    THE PROPERTY on the checked tree, no hypothesis on the generated constants: after governance removal, once nothing
      of the oracle is left in the unbonding queue, the withdrawal is accepted, pays delegate balance - charge, burns the
      charge (the penalty; with the cap min(penalty, balance)), leaves the delegate address empty, deletes the record and
      both index entries, and cannot be repeated; while stake is still in the queue it is refused *)
Theorem C13_unbond_once_on_tree : forall s a r, recs s a = Some r -> ~ In a (proposal s) -> o_online r = false ->
  (forall u, In u (ubds s) -> u_orc u <> a) ->
  (unbond_penalty_capped = false ->
     0 < slash_amount r (p_fraction (prm s)) -> slash_amount r (p_fraction (prm s)) <= bal_d s a) ->
  let ch := charged unbond_penalty_capped (slash_amount r (p_fraction (prm s))) (bal_d s a) in
  exists s', step s (Unbond a) = Ok s' /\
    bal_o s' a = bal_o s a + (bal_d s a - ch) /\ bal_d s' a = 0 /\ burned s' = burned s + ch /\
    0 <= ch <= slash_amount r (p_fraction (prm s)) /\
    recs s' a = None /\ by_bridger s' (o_bridger r) = None /\ by_ext s' (o_ext r) = None /\
    (forall s'', step s' (Unbond a) <> Ok s'').
Proof. exact unbond_once_on_tree. Qed.
Print Assumptions C13_unbond_once_on_tree.

(*    THE TREE AS IT IS (translator tie): the penalty is capped at what matured (C13-3 is repaired, /repo 5731fb6).  On a
      tree that refuses instead this and the two theorems after it stop compiling. *)
Theorem C13_tree_penalty_capped : unbond_penalty_capped = true.
Proof. reflexivity. Qed.
Print Assumptions C13_tree_penalty_capped.

Theorem C13_unbond_pays_on_tree : forall s a r, recs s a = Some r -> ~ In a (proposal s) -> o_online r = false ->
  (forall u, In u (ubds s) -> u_orc u <> a) -> 0 <= bal_d s a ->
  exists s', step s (Unbond a) = Ok s' /\
    bal_o s' a = bal_o s a + Z.max 0 (bal_d s a - slash_amount r (p_fraction (prm s))) /\
    burned s' = burned s + Z.min (slash_amount r (p_fraction (prm s))) (bal_d s a) /\
    bal_d s' a = 0 /\ recs s' a = None /\ by_bridger s' (o_bridger r) = None /\ by_ext s' (o_ext r) = None /\
    (forall s'', step s' (Unbond a) <> Ok s'').
Proof. exact unbond_pays_on_tree. Qed.
Print Assumptions C13_unbond_pays_on_tree.

Theorem C13_penalty_capped_life_cycle_on_tree :
  let s := run w_init1 w_J in
  let s' := exec s (Unbond 3) in
  is_ok (step s (Unbond 3)) = true /\ bal_d s 3 = FX 9500 + 9 /\
  bal_o s' 3 = bal_o s 3 /\ burned s' = burned s + (FX 9500 + 9) /\ bal_d s' 3 = 0 /\
  recs s' 3 = None /\ by_bridger s' 103 = None /\ by_ext s' 203 = None /\
  step s' (Unbond 3) = Err e_notfound.
Proof. exact penalty_capped_life_cycle_on_tree. Qed.
Print Assumptions C13_penalty_capped_life_cycle_on_tree.

Theorem C13_unbond_refused_while_pending_on_tree : forall s a r,
  recs s a = Some r -> has_ubd a (o_val r) (ubds s) = true -> forall s', step s (Unbond a) <> Ok s'.
Proof. exact unbond_refused_while_pending_on_tree. Qed.
Print Assumptions C13_unbond_refused_while_pending_on_tree.

(*    the whole life cycle computed on the model of the checked tree: bonded 10000 FX, removed, unbonding period passes,
      withdraws 10000 FX + rewards once; a penalised oracle (80 %) gets 2000 FX, 8000 FX burned; before maturity: refused *)
Theorem C13_unbond_life_cycle_on_tree :
  (let s := run w_init w_A in
   let s' := exec s (Unbond 0) in
   is_ok (step s (Unbond 0)) = true /\ bal_o s' 0 - bal_o s 0 = FX 10000 + 7 /\ bal_d s' 0 = 0 /\
   recs s' 0 = None /\ by_bridger s' 100 = None /\ by_ext s' 200 = None /\ burned s' = 0 /\
   step s' (Unbond 0) = Err e_notfound) /\
  (let s := run w_init w_E in
   let s' := exec s (Unbond 3) in
   recs s 3 = Some (mkOracle 3 103 203 (FX 10000) 2 false 0 1) /\
   is_ok (step s (Unbond 3)) = true /\ bal_o s' 3 - bal_o s 3 = FX 2000 + 5 /\ burned s' = FX 8000 /\
   recs s' 3 = None /\ step s' (Unbond 3) = Err e_notfound) /\
  step (run w_init w_B) (Unbond 0) = Err e_staking.
Proof. exact unbond_life_cycle_on_tree. Qed.
Print Assumptions C13_unbond_life_cycle_on_tree.

(*    REFUTATION OF THE PRE-FIX ENTRY TEST (finding C13-1, fixed in /repo by f3a025e), about the explicit variant
      [unbond_gen true _] / [step_with true false]: refused whenever nothing is pending, every accepted call forfeits
      pending stake; the two life cycles are evaluated on that variant *)
Theorem C13_prefix_unbond_refused_without_pending_entry : forall cap s a,
  (forall u, In u (ubds s) -> u_orc u <> a) -> forall s', unbond_gen true cap s a <> Ok s'.
Proof. exact prefix_unbond_refused_without_pending_entry. Qed.
Print Assumptions C13_prefix_unbond_refused_without_pending_entry.

Theorem C13_prefix_unbond_refused_after_maturity : forall cap s t1 t2 pd s1 a, step s (EndBlock t1 t2 pd) = Ok s1 ->
  (forall u, In u (ubds s) -> u_orc u = a -> u_time u <= t1) ->
  (forall s2, unbond_gen true cap s1 a <> Ok s2) /\ bal_d s1 a = bal_d s a + matured_sum t1 (ubds s) a.
Proof. exact prefix_unbond_refused_after_maturity. Qed.
Print Assumptions C13_prefix_unbond_refused_after_maturity.

Theorem C13_prefix_unbond_accepted_forfeits_pending_stake : forall cap s a s', unbond_gen true cap s a = Ok s' ->
  exists u, In u (ubds s') /\ u_orc u = a /\ recs s' a = None.
Proof. exact prefix_unbond_accepted_forfeits_pending_stake. Qed.
Print Assumptions C13_prefix_unbond_accepted_forfeits_pending_stake.

Theorem C13_prefix_unbond_after_maturity_refuted : exists ops a r,
  let s := run_with true false w_init ops in
  recs s a = Some r /\ ~ In a (proposal s) /\ o_online r = false /\ o_slash r = 0 /\
  (forall u, In u (ubds s) -> u_orc u <> a) /\
  o_amount r = FX 10000 /\ bal_d s a = FX 10000 + 7 /\
  step_with true false s (Unbond a) = Err e_staking.
Proof. exact prefix_unbond_after_maturity_refuted. Qed.
Print Assumptions C13_prefix_unbond_after_maturity_refuted.

Theorem C13_prefix_unbond_before_maturity_refuted : exists ops a,
  let s := run_with true false w_init ops in
  let s1 := exec_with true false s (Unbond a) in
  step_with true false s (Unbond a) = Ok s1 /\
    bal_o s1 a - bal_o s a = 7 /\ recs s1 a = None /\ burned s1 = 0 /\
    (exists u, In u (ubds s1) /\ u_orc u = a /\ u_amt u = FX 10000) /\
    let s2 := exec_with true false s1 (EndBlock 1814500 1814505 true) in
    bal_d s2 a = FX 10000 /\ recs s2 a = None /\ step_with true false s2 (Unbond a) = Err e_notfound.
Proof. exact prefix_unbond_before_maturity_refuted. Qed.
Print Assumptions C13_prefix_unbond_before_maturity_refuted.

(* 7. non-vacuity *)
Theorem C13_nonvacuous :
  let s := run w_init w_D in
  recs s 3 = Some (mkOracle 3 103 203 (FX 10000) 2 false 0 1) /\
  recs s 2 = Some (mkOracle 2 102 202 (FX 10000) 2 true 2 0) /\
  by_bridger s 103 = Some 3 /\ by_ext s 203 = Some 3 /\ slashed_set s = 1 /\ total_power s = 600 /\
  slash_amount (mkOracle 3 103 203 (FX 10000) 2 false 0 1) (p_fraction (prm s)) = FX 8000 /\
  let s' := exec s (AddDelegate 3 (FX 10000) 0) in
  recs s' 3 = Some (mkOracle 3 103 203 (FX 12000) 6 true 0 0) /\ burned s' = FX 8000 /\
  deleg s' 3 0 = FX 12000 * dec_one /\ bal_o s' 3 = FX 280000 /\
  step s (AddDelegate 3 (FX 8000 - 1) 0) = Err e_invalid /\
  step w_init (Bond 0 100 200 0 (FX 10000)) = Err e_notfound /\
  step (run w_init w_setup) (AddDelegate 0 (FX 90000 + 1) 0) = Err e_above /\
  step (exec (exec w_init (Fund 9 (FX 300000))) (GovSet [9] [])) (Bond 9 100 200 0 (FX 10000 - 1)) = Err e_below.
Proof. exact c13_nonvacuous. Qed.
Print Assumptions C13_nonvacuous.
