(* Property C14: account migration moves everything, once, to the address that authorised it.
   `migrate_tx` = ValidateBasic + MigrateAccount on the model state (coq/model/M_Migrate.v);
   `recover` (signature recovery over keccak(prefix, from, to)) is universally quantified;
   `moved`, `wf`, `qcoverb`, `seen_*`, `involved_open`, `idx*_ok` are defined in coq/model/M_MigrateSpec.v.
   The theorems of the first part take the shape of the state (wf, qcoverb, balposb, idx36_ok, govwfb) as hypotheses;
   the last part (theorems C14_reachable_... and C14_reach_...) discharges them: they hold on every state reachable from `init` by
   the operations of the history model (coq/model/M_MigrateHistory.v), and every step theorem is restated there for
   `reached e ops` without them. *)
From Coq Require Import ZArith List Bool.
From FxV Require Import gen.Gen_C14 model.M_Migrate model.M_MigrateSpec model.M_MigrateCorr model.M_MigrateFollow
  model.M_MigrateHistory
  proofs.P_MigrateMature proofs.P_MigrateHist proofs.P_Migrate proofs.P_MigrateFollow proofs.P_MigrateFollowR
  proofs.P_MigrateReach proofs.P_MigrateReachThm.
Import ListNotations.
Open Scope Z_scope.

(* accepted => balances, delegations, starting info, unbonding and redelegation records and the rewritten
   indexes are at the target, the source has none, every other account, the queue entries of other
   delegators and every total are unchanged, and the record exists in both directions *)
Theorem C14_moves_everything : forall (sigT : Type) (recover : Z -> Z -> sigT -> option Z) s from to sg s',
  wf s -> migrate_tx sigT recover s from to sg = Ok s' -> moved from to s s'.
Proof. exact moves_everything. Qed.
Print Assumptions C14_moves_everything.

Theorem C14_queue_others_untouched : forall (sigT : Type) (recover : Z -> Z -> sigT -> option Z) s from to sg s',
  wf s -> migrate_tx sigT recover s from to sg = Ok s' ->
  forall t i, (forall p : Z * Z, fst p <> from -> nth_error (ubd_slice s t) i = Some p -> nth_error (ubd_slice s' t) i = Some p) /\
              (forall p : Z * (Z * Z), fst p <> from -> nth_error (red_slice s t) i = Some p -> nth_error (red_slice s' t) i = Some p) /\
              length (ubd_slice s' t) = length (ubd_slice s t).
Proof. exact queue_others. Qed.
Print Assumptions C14_queue_others_untouched.

(* well-formedness and queue coverage survive, so the statements chain over histories *)
Theorem C14_wf_preserved : forall (sigT : Type) (recover : Z -> Z -> sigT -> option Z) s from to sg s',
  wf s -> migrate_tx sigT recover s from to sg = Ok s' -> wfP s' /\ (qcoverP s -> qcoverP s').
Proof. exact wf_preserved. Qed.
Print Assumptions C14_wf_preserved.

(* afterwards the target receives matured funds as the source would have: the staking end blocker at any
   later time t commutes with the migration *)
Theorem C14_matured_funds : forall (sigT : Type) (recover : Z -> Z -> sigT -> option Z) s from to sg s',
  wf s -> qcoverb s = true -> migrate_tx sigT recover s from to sg = Ok s' ->
  forall t,
  (forall a v, ubd_of (staking_endblock t s') a v =
     sel from to a (option_map (to_ubd to) (ubd_of (staking_endblock t s) from v)) None (ubd_of (staking_endblock t s) a v)) /\
  (from <> pool_nb (cfg s) -> to <> pool_nb (cfg s) -> forall a d, a <> pool_nb (cfg s) ->
     bal_of (staking_endblock t s') a d =
       sel from to a (bal_of (staking_endblock t s) to d + bal_of (staking_endblock t s) from d) 0
                     (bal_of (staking_endblock t s) a d)).
Proof. exact matured_funds. Qed.
Print Assumptions C14_matured_funds.

Theorem C14_endblock_pays : forall s t, wf s -> qcoverb s = true ->
  (forall a v, ubd_of (staking_endblock t s) a v = immature_opt t (ubd_of s a v)) /\
  (forall a d, a <> pool_nb (cfg s) ->
     bal_of (staking_endblock t s) a d = bal_of s a d + (if d =? bond_denom (cfg s) then payout t s a else 0)).
Proof. exact endblock_pays. Qed.
Print Assumptions C14_endblock_pays.

(* "afterwards the target can withdraw, undelegate ... as the source could have".
   Follow-up transactions (coq/model/M_MigrateFollow.v): delegate, undelegate, withdraw, redelegate at the level of
   the delegator-keyed records; everything computed on the validator side (rewards, new starting info, shares <->
   tokens, completion time, unbonding id) is the answer of an arbitrary environment (env, ask, env_next) to a
   query that contains the delegator's records but not its address.  `sim2 from to s s'` (M_MigrateSpec.v):
   s' is s with the source's balances, delegations, starting infos, unbonding records, redelegations, the
   by-destination redelegation index and the queue pairs/triplets under the target's name, both well-formed and
   covered.
   One step: whatever is accepted for an actor (the source or any third party) in the world WITHOUT migration is
   accepted for the renamed actor in the migrated world, with the same environment, and the worlds stay related. *)
Theorem C14_followup_step : forall (env : Type) (ask : env -> query -> vans) (env_next : env -> query -> env)
    from to, from <> to -> forall e s s' o e1 t,
  pool_nb (cfg s) <> from -> pool_nb (cfg s) <> to ->
  sim2 from to s s' -> factor o <> to ->
  fstep env ask env_next e s o = Ok (e1, t) ->
  exists t', fstep env ask env_next e s' (ren_fop from to o) = Ok (e1, t') /\ sim2 from to t t'.
Proof. exact sim2_step. Qed.
Print Assumptions C14_followup_step.

(* every finite sequence of follow-ups commutes with the migration *)
Theorem C14_followups_commute : forall (sigT : Type) (recover : Z -> Z -> sigT -> option Z)
    (env : Type) (ask : env -> query -> vans) (env_next : env -> query -> env)
    s from to sg s' e ops e1 t,
  wf s -> qcoverb s = true -> balposb s = true -> idx36_ok s ->
  pool_nb (cfg s) <> from -> pool_nb (cfg s) <> to ->
  migrate_tx sigT recover s from to sg = Ok s' ->
  (forall o, In o ops -> factor o <> to) ->
  fruns env ask env_next e s ops = Ok (e1, t) ->
  exists t', fruns env ask env_next e s' (map (ren_fop from to) ops) = Ok (e1, t') /\ sim2 from to t t'.
Proof. exact followups_commute. Qed.
Print Assumptions C14_followups_commute.

(* ... and at any such point the staking end blocker pays the target what it would have paid the source
   (C14_matured_funds is the special case of the empty sequence) *)
Theorem C14_followups_then_matured : forall from to s s' t,
  from <> to -> sim from to s s' ->
  (forall a v, ubd_of (staking_endblock t s') a v =
     sel from to a (option_map (to_ubd to) (ubd_of (staking_endblock t s) from v)) None (ubd_of (staking_endblock t s) a v)) /\
  (from <> pool_nb (cfg s) -> to <> pool_nb (cfg s) -> forall a d, a <> pool_nb (cfg s) ->
     bal_of (staking_endblock t s') a d =
       sel from to a (bal_of (staking_endblock t s) to d + bal_of (staking_endblock t s) from d) 0
                     (bal_of (staking_endblock t s) a d)).
Proof. exact sim_endblock. Qed.
Print Assumptions C14_followups_then_matured.

(* a validator slash, as far as it is modelled (the unbonding entries at the slashed validator and the burn from the
   not-bonded pool; M_MigrateFollow.slash_ubds): the target's moved entries are slashed exactly as the source's would
   have been, third parties' identically, and the relation is kept — so slashes may be interleaved with follow-ups *)
Theorem C14_slash_keeps_relation : forall from to s s' v ih fr,
  from <> to -> pool_nb (cfg s) <> from -> pool_nb (cfg s) <> to ->
  sim2 from to s s' -> sim2 from to (slash_ubds s v ih fr) (slash_ubds s' v ih fr).
Proof. exact sim2_slash. Qed.
Print Assumptions C14_slash_keeps_relation.

Theorem C14_followups_nonvacuous :
  let s := ex_init in let s' := ex_after in
  exists t t', fruns unit ex_ask ex_next tt s ex_ops = Ok (tt, t) /\
               fruns unit ex_ask ex_next tt s' (map (ren_fop 1 5) ex_ops) = Ok (tt, t') /\
  del_of t 1 13 = Some {| d_del := 1; d_val := 13; d_shares := 450 |} /\
  del_of t' 5 13 = Some {| d_del := 5; d_val := 13; d_shares := 450 |} /\ del_of t' 1 13 = None /\
  del_of t' 5 14 = Some {| d_del := 5; d_val := 14; d_shares := 100 |} /\
  option_map (fun r => length (r_entries r)) (red_of t 1 13 14) = Some 1%nat /\
  option_map (fun r => length (r_entries r)) (red_of t' 5 13 14) = Some 1%nat /\ red_of t' 1 13 14 = None /\
  option_map (fun u => length (u_entries u)) (ubd_of t' 5 13) = Some 3%nat /\
  del_of t 9 13 = None /\ del_of t' 9 13 = None /\
  bal_of t 1 0 = 5000 + 7 + 7 + 7 + 7 - 50 /\ bal_of t' 5 0 = 5003 + 7 + 7 + 7 + 7 - 50 /\ bal_of t' 1 0 = 0 /\
  red_slice t' 1010 = [(5, (13, 14))] /\ receiving t' 5 14 = true /\ receiving t 1 14 = true.
Proof. exact followups_example. Qed.
Print Assumptions C14_followups_nonvacuous.

(* staking indexes: DelegationByValIndex 0x71, UnbondingDelegationByValIndex 0x33, RedelegationByValSrc/Dst
   0x35/0x36 and the unbonding-id index 0x38 are exact afterwards if they were before; every moved entry is
   found by its id and the index then names a key of the target (unb_writes from to s lists only such keys) *)
Theorem C14_indexes : forall (sigT : Type) (recover : Z -> Z -> sigT -> option Z) s from to sg s',
  wf s -> migrate_tx sigT recover s from to sg = Ok s' ->
  (idx71_ok s -> idx71_ok s') /\ (idx33_ok s -> idx33_ok s') /\ (idx35_ok s -> idx35_ok s') /\
  (idx36_ok s -> idx36_ok s') /\ (idx38_ok s -> idx38_ok s') /\
  (forall kv e, In kv (ubds (stake s)) -> fst (fst kv) = from -> In e (u_entries (snd kv)) ->
     exists k, sget Z.eqb (ue_id e) (unbidx (stake s')) = Some k /\ In (ue_id e, k) (unb_writes from to s)) /\
  (forall kv e, In kv (reds (stake s)) -> fst (fst kv) = from -> In e (r_entries (snd kv)) ->
     exists k, sget Z.eqb (re_id e) (unbidx (stake s')) = Some k /\ In (re_id e, k) (unb_writes from to s)).
Proof. exact indexes. Qed.
Print Assumptions C14_indexes.

Theorem C14_indexes_nonvacuous :
  wf ex_init /\ qcoverb ex_init = true /\
  idx71_ok ex_init /\ idx33_ok ex_init /\ idx38b ex_init = true /\
  migrate_tx unit sig_any ex_init 1 5 (Some tt) = Ok ex_after /\
  idx71_ok ex_after /\ idx33_ok ex_after /\ idx38b ex_after = true /\
  in71 ex_after 1 13 = false /\ in71 ex_after 5 13 = true /\
  sget Z.eqb 1 (unbidx (stake ex_after)) = Some (UKubd 5 13) /\ sget Z.eqb 2 (unbidx (stake ex_after)) = Some (UKubd 9 13).
Proof. exact index_example. Qed.
Print Assumptions C14_indexes_nonvacuous.

(* authorisation: accepted => signed by the target over exactly (source, target); no prior record;
   no validator operator; target without staking records *)
Theorem C14_auth : forall (sigT : Type) (recover : Z -> Z -> sigT -> option Z) s from to sg s',
  migrate_tx sigT recover s from to sg = Ok s' ->
  (from <> to /\ exists x, sg = Some x /\ recover from to x = Some to) /\
  has_record s from = false /\ has_record s to = false /\
  is_validator s from = false /\ is_validator s to = false /\ ~ has_staking s to.
Proof. exact auth. Qed.
Print Assumptions C14_auth.

Theorem C14_refused : forall (sigT : Type) (recover : Z -> Z -> sigT -> option Z) s from to sg,
  has_record s from = true \/ has_record s to = true \/
  is_validator s from = true \/ is_validator s to = true \/ has_staking s to \/
  (forall x, sg = Some x -> recover from to x <> Some to) ->
  forall s', migrate_tx sigT recover s from to sg <> Ok s'.
Proof. exact refused. Qed.
Print Assumptions C14_refused.

(* vesting sources: accepted => the source holds nothing afterwards (locked coins included: `bal_of` is the whole
   bank balance) and nothing it held was locked; while any held denomination has a locked part the migration
   is refused (SendCoins of the whole balance fails) *)
Theorem C14_source_emptied : forall (sigT : Type) (recover : Z -> Z -> sigT -> option Z) s from to sg s',
  wf s -> migrate_tx sigT recover s from to sg = Ok s' ->
  (forall d, bal_of s' from d = 0) /\
  (forall d x, sget k2_eqb (from, d) (bal s) = Some x -> locked_of s from d <= 0).
Proof. exact source_emptied. Qed.
Print Assumptions C14_source_emptied.

Theorem C14_locked_refused : forall (sigT : Type) (recover : Z -> Z -> sigT -> option Z) s from to sg d x,
  sget k2_eqb (from, d) (bal s) = Some x -> 0 < locked_of s from d ->
  forall s', migrate_tx sigT recover s from to sg <> Ok s'.
Proof. exact locked_refused. Qed.
Print Assumptions C14_locked_refused.

(* ... and an accepted migration carries no vesting schedule over: account objects and locked amounts of BOTH addresses
   are what they were (observation recorded in docs/C14.md: a vesting source whose locked coins are all delegated has
   nothing locked, is accepted, and its delegations become the plain target's) *)
Theorem C14_vesting_not_carried : forall (sigT : Type) (recover : Z -> Z -> sigT -> option Z) s from to sg s',
  wf s -> migrate_tx sigT recover s from to sg = Ok s' ->
  accts s' = accts s /\ locked s' = locked s /\ (forall a d, locked_of s' a d = locked_of s a d).
Proof. exact vesting_not_carried. Qed.
Print Assumptions C14_vesting_not_carried.

Theorem C14_locked_nonvacuous :
  wf ex_vesting /\ bal_of ex_vesting 2 0 = 5000 /\ locked_of ex_vesting 2 0 = 2000 /\
  migrate_tx unit sig_any ex_vesting 2 6 (Some tt) = Err EFunds /\
  (exists s', migrate_tx unit sig_any ex_vesting 1 5 (Some tt) = Ok s') /\
  (exists s', migrate_tx unit sig_any ex_init 2 6 (Some tt) = Ok s' /\ bal_of s' 2 0 = 0 /\ bal_of s' 6 0 = 5000).
Proof. exact locked_example. Qed.
Print Assumptions C14_locked_nonvacuous.

(* facts read from the current source by harness/gen_c14 (coq/gen/Gen_C14.v): the module's InitGenesis hands the
   exported records to the keeper, and the governance scan gets the year-9999 sentinel as its end key *)
Theorem C14_source_facts :
  Gen_C14.genesis_import_keeps_records = true /\ Gen_C14.gov_scan_whole_queue = true.
Proof. split; reflexivity. Qed.
Print Assumptions C14_source_facts.

(* once: whatever happens afterwards — migrations, blocks, governance, restarts from an exported genesis — no
   second migration involves either address *)
Theorem C14_once : forall (sigT : Type) (recover : Z -> Z -> sigT -> option Z) s from to sg s',
  migrate_tx sigT recover s from to sg = Ok s' ->
  forall ops f t sg2, f = from \/ f = to \/ t = from \/ t = to ->
  forall s2, migrate_tx sigT recover (run sigT recover s' ops) f t sg2 <> Ok s2.
Proof. exact once. Qed.
Print Assumptions C14_once.

Theorem C14_once_across_restart_nonvacuous :
  let s := run unit sig_any ex_init [OMigrate unit 3 7 (Some tt); OExportImport unit 9] in
  has_record s 7 = true /\ has_record s 3 = true /\
  migrate_tx unit sig_any s 2 7 (Some tt) = Err EMigrated /\ migrate_tx unit sig_any s 3 6 (Some tt) = Err EMigrated.
Proof. exact once_across_import_example. Qed.
Print Assumptions C14_once_across_restart_nonvacuous.

(* REGRESSION WITNESS, NOT THE MODEL: with the import step as it was before commit 11e9a2c (finding C14-3: the exported
   records were dropped) a used target and a used source were accepted again after the restart *)
Theorem C14_prefix_once_refuted_by_export_import :
  let s0 := run unit sig_any ex_init [OMigrate unit 3 7 (Some tt)] in
  let s := prefix_export_import s0 in
  wf s /\ has_record s0 7 = true /\ has_record s0 3 = true /\ has_record s 7 = false /\ has_record s 3 = false /\
  (exists s', migrate_tx unit sig_any s 2 7 (Some tt) = Ok s' /\ bal_of s' 7 0 = 10000) /\
  (exists s', migrate_tx unit sig_any s 3 6 (Some tt) = Ok s').
Proof. exact prefix_once_lost_on_import. Qed.
Print Assumptions C14_prefix_once_refuted_by_export_import.

(* governance: refused while the source or the target is proposer, depositor or voter of a proposal that is
   still open (status deposit or voting period), on every state with the gov store shape govwfb *)
Theorem C14_gov_block : forall (sigT : Type) (recover : Z -> Z -> sigT -> option Z) s from to sg,
  govwfb s = true -> involved_open s from \/ involved_open s to ->
  forall s', migrate_tx sigT recover s from to sg <> Ok s'.
Proof. exact gov_block. Qed.
Print Assumptions C14_gov_block.

(* the scan refuses exactly the queued proposals involving the pair (no spurious refusal) *)
Theorem C14_gov_scan_exact : forall s from to, queued_exist s ->
  (gov_validate from to s = Ok tt <-> ~ seen_inactive s from to /\ ~ seen_active s from to).
Proof. exact gov_exact. Qed.
Print Assumptions C14_gov_scan_exact.

Theorem C14_gov_block_nonvacuous :
  wf ex_gov /\ govwfb ex_gov = true /\ now ex_gov = 10 /\
  (involved_open ex_gov 1 /\ involved_open ex_gov 2 /\ involved_open ex_gov 3) /\
  migrate_tx unit sig_any ex_gov 1 5 (Some tt) = Err EGov /\
  migrate_tx unit sig_any ex_gov 2 6 (Some tt) = Err EGov /\
  migrate_tx unit sig_any ex_gov 3 7 (Some tt) = Err EGov /\
  migrate_tx unit sig_any ex_gov 6 7 (Some tt) = Err EAccount.
Proof. exact gov_block_example. Qed.
Print Assumptions C14_gov_block_nonvacuous.

(* expedited proposals: a failed one is converted by the end blocker, stays open past its first end time, and keeps
   blocking its participants until the regular period is over *)
Theorem C14_gov_expedited_nonvacuous :
  let s1 := run unit sig_any ex_init [OSubmit unit 1 600 true 100 500; OEndBlock unit 200 205 [] [1] no_vside] in
  let s2 := run unit sig_any ex_init [OSubmit unit 1 600 true 100 500; OEndBlock unit 200 205 [] [1] no_vside; OEndBlock unit 1100 1105 [] [] no_vside] in
  govwfb s1 = true /\ involved_open s1 1 /\ activeq (gov s1) = [(1010, 1)] /\
  migrate_tx unit sig_any s1 1 5 (Some tt) = Err EGov /\
  (exists s', migrate_tx unit sig_any s2 1 5 (Some tt) = Ok s').
Proof. exact gov_expedited_example. Qed.
Print Assumptions C14_gov_expedited_nonvacuous.

(* REGRESSION WITNESS, NOT THE MODEL: the validation function as it was before commit f80617f (finding C14-1)
   stopped its walk at the block time and therefore passed whenever all queued end times lay in the future;
   on the example history it passed where today's scan refuses *)
Theorem C14_prefix_scan_was_blind : forall s from to,
  (forall te pid, In (te, pid) (inactiveq (gov s)) -> now s < te) ->
  (forall te pid, In (te, pid) (activeq (gov s)) -> now s < te) ->
  prefix_gov_validate from to s = Ok tt.
Proof. exact prefix_scan_was_blind. Qed.
Print Assumptions C14_prefix_scan_was_blind.

Theorem C14_prefix_scan_example :
  prefix_gov_validate 1 5 ex_gov = Ok tt /\ gov_validate 1 5 ex_gov = Err EGov.
Proof. exact prefix_scan_example. Qed.
Print Assumptions C14_prefix_scan_example.

Theorem C14_moved_nonvacuous :
  wf ex_init /\ qcoverb ex_init = true /\ migrate_tx unit sig_any ex_init 1 5 (Some tt) = Ok ex_after /\
  bal_of ex_after 5 0 = 5003 /\ bal_of ex_after 5 1 = 77 /\ bal_of ex_after 1 0 = 0 /\
  del_of ex_after 5 13 = Some (D 5 13 700) /\ start_of ex_after 5 13 = Some (SI 2 700 4) /\
  ubd_of ex_after 5 13 = Some (U 5 13 [UE 4 500 100 100 1 0; UE 4 800 50 50 3 0]) /\
  ubd_slice ex_after 500 = [(5, 13); (9, 13)] /\ ubd_slice ex_after 800 = [(5, 13)] /\
  bal_of (staking_endblock 600 ex_after) 5 0 = 5103 /\ bal_of (staking_endblock 600 ex_after) 9 0 = 50150 /\
  bal_of (staking_endblock 600 ex_after) 1 0 = 0.
Proof. exact moved_nonvacuous. Qed.
Print Assumptions C14_moved_nonvacuous.

(* ==================== the hypotheses hold on every reachable state ====================
   History model (coq/model/M_MigrateHistory.v): `hstep` = one of migrate, end of block, submit / deposit / vote,
   restart from exported genesis, delegate / undelegate / withdraw / redelegate, validator slash, gov and staking
   parameter changes, coins arriving, account creation; `reached e ops = snd (hrun (e, init) ops)`.
   `Inv` = wfP /\ qcoverP /\ ent_ok (no entry on hold, no negative entry balance) /\ balposP (no negative balance
   outside the two module accounts) /\ idx36_ok /\ govI (queues <-> proposals in both directions, votes only on voting
   proposals, ids below the counter, deposits non-negative) /\ acct_ok (module accounts have no key).
   NAMED ENVIRONMENTAL ASSUMPTION `sane_env env ask`: the validator-side answers (F1 reward, tokens for shares, shares
   for tokens) are non-negative amounts.  Nothing else is assumed. *)
Theorem C14_reachable_invariant :
  Inv init /\
  forall (sigT : Type) (recover : Z -> Z -> sigT -> option Z)
         (env : Type) (ask : env -> query -> vans) (env_next : env -> query -> env),
  sane_env env ask ->
  (forall es o, Inv (snd es) -> Inv (snd (hstep sigT recover env ask env_next es o))) /\
  (forall e ops, Inv (reached sigT recover env ask env_next e ops)).
Proof.
  split; [exact init_inv|]. intros sigT recover env ask env_next Sane. split.
  - apply hstep_inv. exact Sane.
  - apply reach_inv. exact Sane.
Qed.
Print Assumptions C14_reachable_invariant.

(* ... in the decidable forms the step theorems above take (and the correspondence run evaluates on the real states) *)
Theorem C14_reachable_hypotheses : forall (sigT : Type) (recover : Z -> Z -> sigT -> option Z)
    (env : Type) (ask : env -> query -> vans) (env_next : env -> query -> env),
  sane_env env ask -> forall e ops, let s := reached sigT recover env ask env_next e ops in
  wf s /\ qcoverb s = true /\ idx36_ok s /\ govwfb s = true /\ queued_exist s /\ invb s = true /\
  (forall a d, a <> pool_nb (cfg s) -> a <> gov_acc (cfg s) -> 0 <= bal_of s a d).
Proof. exact reached_hyps. Qed.
Print Assumptions C14_reachable_hypotheses.

Theorem C14_reach_moves_everything : forall (sigT : Type) (recover : Z -> Z -> sigT -> option Z)
    (env : Type) (ask : env -> query -> vans) (env_next : env -> query -> env),
  sane_env env ask -> forall e ops from to sg s', let s := reached sigT recover env ask env_next e ops in
  migrate_tx sigT recover s from to sg = Ok s' -> moved from to s s'.
Proof. exact reach_moves_everything. Qed.
Print Assumptions C14_reach_moves_everything.

Theorem C14_reach_queue_others_untouched : forall (sigT : Type) (recover : Z -> Z -> sigT -> option Z)
    (env : Type) (ask : env -> query -> vans) (env_next : env -> query -> env),
  sane_env env ask -> forall e ops from to sg s', let s := reached sigT recover env ask env_next e ops in
  migrate_tx sigT recover s from to sg = Ok s' ->
  forall t i, (forall p : Z * Z, fst p <> from -> nth_error (ubd_slice s t) i = Some p -> nth_error (ubd_slice s' t) i = Some p) /\
              (forall p : Z * (Z * Z), fst p <> from -> nth_error (red_slice s t) i = Some p -> nth_error (red_slice s' t) i = Some p) /\
              length (ubd_slice s' t) = length (ubd_slice s t).
Proof. exact reach_queue_others. Qed.
Print Assumptions C14_reach_queue_others_untouched.

(* the state after an accepted migration is itself reachable (one more operation), with the invariant *)
Theorem C14_reach_wf_preserved : forall (sigT : Type) (recover : Z -> Z -> sigT -> option Z)
    (env : Type) (ask : env -> query -> vans) (env_next : env -> query -> env),
  sane_env env ask -> forall e ops from to sg s', let s := reached sigT recover env ask env_next e ops in
  migrate_tx sigT recover s from to sg = Ok s' ->
  s' = reached sigT recover env ask env_next e (ops ++ [HMigrate sigT from to sg]) /\ Inv s'.
Proof. exact reach_wf_preserved. Qed.
Print Assumptions C14_reach_wf_preserved.

Theorem C14_reach_matured_funds : forall (sigT : Type) (recover : Z -> Z -> sigT -> option Z)
    (env : Type) (ask : env -> query -> vans) (env_next : env -> query -> env),
  sane_env env ask -> forall e ops from to sg s', let s := reached sigT recover env ask env_next e ops in
  migrate_tx sigT recover s from to sg = Ok s' ->
  forall t,
  (forall a v, ubd_of (staking_endblock t s') a v =
     sel from to a (option_map (to_ubd to) (ubd_of (staking_endblock t s) from v)) None (ubd_of (staking_endblock t s) a v)) /\
  (from <> pool_nb (cfg s) -> to <> pool_nb (cfg s) -> forall a d, a <> pool_nb (cfg s) ->
     bal_of (staking_endblock t s') a d =
       sel from to a (bal_of (staking_endblock t s) to d + bal_of (staking_endblock t s) from d) 0
                     (bal_of (staking_endblock t s) a d)).
Proof. exact reach_matured_funds. Qed.
Print Assumptions C14_reach_matured_funds.

Theorem C14_reach_endblock_pays : forall (sigT : Type) (recover : Z -> Z -> sigT -> option Z)
    (env : Type) (ask : env -> query -> vans) (env_next : env -> query -> env),
  sane_env env ask -> forall e ops t, let s := reached sigT recover env ask env_next e ops in
  (forall a v, ubd_of (staking_endblock t s) a v = immature_opt t (ubd_of s a v)) /\
  (forall a d, a <> pool_nb (cfg s) ->
     bal_of (staking_endblock t s) a d = bal_of s a d + (if d =? bond_denom (cfg s) then payout t s a else 0)).
Proof. exact reach_endblock_pays. Qed.
Print Assumptions C14_reach_endblock_pays.

(* NAMED ASSUMPTION besides sane_env: neither party is the not-bonded pool and the target is not the gov module
   account (module accounts have no key and cannot sign; their balances are validator-side / tally-side quantities) *)
Theorem C14_reach_followups_commute : forall (sigT : Type) (recover : Z -> Z -> sigT -> option Z)
    (env : Type) (ask : env -> query -> vans) (env_next : env -> query -> env),
  sane_env env ask -> forall e ops from to sg s' e0 fops e1 t, let s := reached sigT recover env ask env_next e ops in
  pool_nb (cfg s) <> from -> pool_nb (cfg s) <> to -> gov_acc (cfg s) <> to ->
  migrate_tx sigT recover s from to sg = Ok s' ->
  (forall o, In o fops -> factor o <> to) ->
  fruns env ask env_next e0 s fops = Ok (e1, t) ->
  exists t', fruns env ask env_next e0 s' (map (ren_fop from to) fops) = Ok (e1, t') /\ sim2 from to t t'.
Proof. exact reach_followups_commute. Qed.
Print Assumptions C14_reach_followups_commute.

(* the four by-validator indexes 0x71 0x33 0x35 0x36 are exact on every reachable state and after every accepted
   migration from it; the unbonding-id index 0x38 stays sound wherever it is (its ids are answers of the environment;
   its soundness on the real states is evaluated on every pre-state of the correspondence run: idxallb) and every
   moved entry is found by its id under a key of the target *)
Theorem C14_reach_indexes : forall (sigT : Type) (recover : Z -> Z -> sigT -> option Z)
    (env : Type) (ask : env -> query -> vans) (env_next : env -> query -> env),
  sane_env env ask -> forall e ops from to sg s', let s := reached sigT recover env ask env_next e ops in
  (idx71_ok s /\ idx33_ok s /\ idx35_ok s /\ idx36_ok s) /\
  (migrate_tx sigT recover s from to sg = Ok s' ->
   (idx71_ok s' /\ idx33_ok s' /\ idx35_ok s' /\ idx36_ok s') /\ (idx38_ok s -> idx38_ok s') /\
   (forall kv e, In kv (ubds (stake s)) -> fst (fst kv) = from -> In e (u_entries (snd kv)) ->
      exists k, sget Z.eqb (ue_id e) (unbidx (stake s')) = Some k /\ In (ue_id e, k) (unb_writes from to s)) /\
   (forall kv e, In kv (reds (stake s)) -> fst (fst kv) = from -> In e (r_entries (snd kv)) ->
      exists k, sget Z.eqb (re_id e) (unbidx (stake s')) = Some k /\ In (re_id e, k) (unb_writes from to s))).
Proof. exact reach_indexes. Qed.
Print Assumptions C14_reach_indexes.

Theorem C14_reach_source_emptied : forall (sigT : Type) (recover : Z -> Z -> sigT -> option Z)
    (env : Type) (ask : env -> query -> vans) (env_next : env -> query -> env),
  sane_env env ask -> forall e ops from to sg s', let s := reached sigT recover env ask env_next e ops in
  migrate_tx sigT recover s from to sg = Ok s' ->
  (forall d, bal_of s' from d = 0) /\
  (forall d x, sget k2_eqb (from, d) (bal s) = Some x -> locked_of s from d <= 0) /\
  accts s' = accts s /\ locked s' = locked s.
Proof. exact reach_source_emptied. Qed.
Print Assumptions C14_reach_source_emptied.

Theorem C14_reach_gov_block : forall (sigT : Type) (recover : Z -> Z -> sigT -> option Z)
    (env : Type) (ask : env -> query -> vans) (env_next : env -> query -> env),
  sane_env env ask -> forall e ops from to sg, let s := reached sigT recover env ask env_next e ops in
  involved_open s from \/ involved_open s to -> forall s', migrate_tx sigT recover s from to sg <> Ok s'.
Proof. exact reach_gov_block. Qed.
Print Assumptions C14_reach_gov_block.

Theorem C14_reach_gov_scan_exact : forall (sigT : Type) (recover : Z -> Z -> sigT -> option Z)
    (env : Type) (ask : env -> query -> vans) (env_next : env -> query -> env),
  sane_env env ask -> forall e ops from to, let s := reached sigT recover env ask env_next e ops in
  (gov_validate from to s = Ok tt <-> ~ seen_inactive s from to /\ ~ seen_active s from to).
Proof. exact reach_gov_exact. Qed.
Print Assumptions C14_reach_gov_scan_exact.

(* non-vacuity of all of the above: a reachable state (16 operations from `init`, environment `h_ask` with
   sane_env proved) with delegations, an unbonding and a redelegation entry of account 1 and an open proposal of
   account 2; the migration of 2 is refused by the governance rule, that of 1 is accepted, moves the records, rewrites
   queue and id index, the matured funds go to 5, and the follow-ups 1 could have made are accepted for 5 *)
Theorem C14_reach_nonvacuous :
  sane_env Z h_ask /\ ex_reach = reached unit sig_any Z h_ask h_next 0 ex_hist /\
  let s := ex_reach in
  del_of s 1 13 = Some (D 1 13 700) /\ del_of s 1 14 = Some (D 1 14 200) /\
  ubd_of s 1 13 = Some (U 1 13 [UE 3 1814420 100 100 102 0]) /\
  red_of s 1 13 14 = Some (R 1 13 14 [RE 3 1814420 200 200 104 0]) /\
  ubd_slice s 1814420 = [(1, 13); (3, 13)] /\ involved_open s 2 /\ bal_of s 1 0 = 99021 /\
  migrate_tx unit sig_any s 2 6 (Some tt) = Err EGov /\
  exists s', migrate_tx unit sig_any s 1 5 (Some tt) = Ok s' /\
    del_of s' 5 13 = Some (D 5 13 700) /\ del_of s' 1 13 = None /\
    ubd_of s' 5 13 = Some (U 5 13 [UE 3 1814420 100 100 102 0]) /\
    red_of s' 5 13 14 = Some (R 5 13 14 [RE 3 1814420 200 200 104 0]) /\
    ubd_slice s' 1814420 = [(5, 13); (3, 13)] /\ bal_of s' 5 0 = 99021 /\ bal_of s' 1 0 = 0 /\
    sget Z.eqb 102 (unbidx (stake s')) = Some (UKubd 5 13) /\ sget Z.eqb 104 (unbidx (stake s')) = Some (UKred 5 13 14) /\
    bal_of (staking_endblock 1814420 s') 5 0 = 99121 /\ bal_of (staking_endblock 1814420 s) 1 0 = 99121 /\
    (exists t t', fruns Z h_ask h_next 7 s ex_follow = Ok (10, t) /\
                  fruns Z h_ask h_next 7 s' (map (ren_fop 1 5) ex_follow) = Ok (10, t') /\
                  del_of t 1 15 = Some (D 1 15 40) /\ del_of t' 5 15 = Some (D 5 15 40) /\
                  bal_of t 1 0 = 98995 /\ bal_of t' 5 0 = 98995).
Proof. split; [exact h_ask_sane|]. split; [reflexivity | exact reach_example]. Qed.
Print Assumptions C14_reach_nonvacuous.
