(* Property C15: governance deposits are conserved; each deposit is paid out exactly once when its
   proposal ends; a proposal enters voting only at the minimum applicable to its message type, is
   tallied with the voting period and quorum of its type, has messages of one type, and a passed
   proposal's messages take effect all together or not at all.

   model.M_Gov is the code as it is.  `kf_code` is the key function the code implements
   (sdk.MsgTypeURL of the Any wrapper, i.e. a constant), `kf_fixed` the intended one; theorems
   quantified over `kf` hold for both.  Theorems named *_refuted / code_* are the proved
   counterparts of the defects replayed on the real application by harness/c15. *)
From Coq Require Import ZArith List Bool.
From FxV Require Import lib.Dec model.M_Gov model.M_GovShape gen.Gen_GovShape
  proofs.P_Gov proofs.P_Gov2 proofs.P_Gov3 proofs.P_Gov4 proofs.P_Gov5.
Import ListNotations.
Open Scope Z_scope.

(* ---- deposits are conserved ---- *)
Theorem C15_conservation_general : forall P kf b c ops s ev,
  run P kf (init b c) ops = (s, ev) ->
  gov_bal s + gov_spent s = open_sum (props s) /\
  Forall (fun p => p_total p = sum_deps (p_deps p)) (props s).
Proof. exact conservation_general. Qed.
Print Assumptions C15_conservation_general.

Theorem C15_conservation : forall P kf b c ops s ev,
  Forall op_no_govsend ops ->
  run P kf (init b c) ops = (s, ev) ->
  gov_bal s = open_sum (props s).
Proof. exact conservation. Qed.
Print Assumptions C15_conservation.

Theorem C15_end_block_never_fails : forall P kf b c ops s ev t stk,
  Forall op_no_govsend ops -> Forall op_no_corrupt ops ->
  run P kf (init b c) ops = (s, ev) ->
  end_block P kf t stk s <> None.
Proof. exact end_block_never_fails. Qed.
Print Assumptions C15_end_block_never_fails.

Theorem C15_conservation_refuted_by_gov_send :
  view kf_code h_send 1 = Some (SPassed, FXu 10000, 10, 10 + 14 * day, false, q40) /\
  view kf_code h_send 2 = Some (SVoting, FXu 10000, 3610, 3610 + 14 * day, false, 0) /\
  gov_bal s_send = FXu 5000 /\ open_sum (props s_send) = FXu 10000 /\
  (let '(r, s', _) := step P0 kf_code s_send (OEndBlock (3610 + 14 * day) stk0) in
   (r, gov_bal s', open_sum (props s'))) = (RHalt, FXu 5000, FXu 10000).
Proof. exact conservation_refuted_by_gov_send. Qed.
Print Assumptions C15_conservation_refuted_by_gov_send.

(* ---- undecodable proposal records (finding C15-3) ---- *)
Theorem C15_undecodable_refuted :
  outcome P0 (h_bad 1) = ([(1, SStale); (2, SRejected)], 0, FXu 1000000, FXu 1000000, RHalt) /\
  (let s := fst (run P0 kf_code (init bal0 cust0) (firstn 4 (h_bad 2))) in
   fst (fst (step P0 kf_code s (OEndBlock (10 + 14 * day) stk0))) = RHalt) /\
  fst (fst (step P0 kf_code (fst (run P0 kf_code (init bal0 cust0) (firstn 3 (h_bad 1)))) (ODeposit 20 1 12 (FXu 5000) false)))
    = RErr EInvalid.
Proof. exact undecodable_refuted. Qed.
Print Assumptions C15_undecodable_refuted.

Theorem C15_undecodable_designated_outcome :
  outcome P0fix (h_bad 1) = ([(1, SDropped); (2, SRejected)], 0, FXu 1000000, FXu 1000000, ROk) /\
  outcome P0fix (h_bad 2) = ([(1, SDropped); (2, SFailedBad)], 0, FXu 1000000, FXu 1000000, ROk).
Proof. exact undecodable_designated_outcome. Qed.
Print Assumptions C15_undecodable_designated_outcome.

Theorem C15_end_block_never_fails_when_dequeued : forall P kf b c ops s ev t stk,
  bad_inactive_dequeued P = true -> bad_active_dequeued_by_key P = true ->
  Forall op_no_govsend ops ->
  run P kf (init b c) ops = (s, ev) ->
  end_block P kf t stk s <> None.
Proof. exact end_block_never_fails_when_dequeued. Qed.
Print Assumptions C15_end_block_never_fails_when_dequeued.

(* ---- each deposit record is paid out exactly once, in the closing step ---- *)
Theorem C15_payout_exactly_once : forall P kf b c ops s evs,
  run P kf (init b c) ops = (s, evs) ->
  forall pid,
    pays pid evs = match find_prop pid (props s) with
                   | None => []
                   | Some p => if is_open (p_status p) then [] else p_deps p
                   end.
Proof. exact payout_exactly_once. Qed.
Print Assumptions C15_payout_exactly_once.

Theorem C15_payout_in_closing_step : forall P kf b c pre o s1 e1 r s2 e2 pid p1 p2,
  run P kf (init b c) pre = (s1, e1) ->
  step P kf s1 o = (r, s2, e2) ->
  find_prop pid (props s1) = Some p1 -> is_open (p_status p1) = true ->
  find_prop pid (props s2) = Some p2 -> is_open (p_status p2) = false ->
  pays pid e1 = [] /\ pays pid e2 = p_deps p2.
Proof. exact payout_in_closing_step. Qed.
Print Assumptions C15_payout_in_closing_step.

Theorem C15_end_block_refund_xor_burn : forall P kf t stk s s' ev,
  end_block P kf t stk s = Some (s', ev) -> Forall ev_whole ev.
Proof. exact end_block_refund_xor_burn. Qed.
Print Assumptions C15_end_block_refund_xor_burn.

Theorem C15_pay_out_accounting : forall s p burn s1 ev,
  pay_out s p burn = Some (s1, ev) ->
  (forall a, a <> gov_acct -> bal s1 a = bal s a + refunds_to a ev) /\
  burned s1 = burned s + burns_of ev /\
  gov_bal s1 = gov_bal s - (refunds_of ev + burns_of ev) + (if burn then 0 else gov_part (p_deps p)) /\
  refunds_of ev + burns_of ev = sum_deps (p_deps p).
Proof. exact pay_out_accounting. Qed.
Print Assumptions C15_pay_out_accounting.

(* ---- activation ---- *)
Theorem C15_activation_step : forall P kf cust now d a p,
  p_status p = SDeposit -> p_status (deposited P kf cust now d a p) = SVoting ->
  let p' := deposited P kf cust now d a p in
  is_all_gte (coins_of_fx (p_total p')) (egf_min kf cust [(fx, min_for P p)] (p_msgs p)) = true /\
  p_vstart p' = now /\ p_vend p' = now + period_for P kf cust p /\
  p_act_total p' = p_total p' /\ p_act_req p' = egf_min kf cust [(fx, min_for P p)] (p_msgs p) /\
  p_act_period p' = period_for P kf cust p.
Proof. exact activation_step. Qed.
Print Assumptions C15_activation_step.

(* the module account as a depositor: the second shape of finding C15-2, evaluated in the model *)
Theorem C15_conservation_refuted_by_gov_deposit :
  pledge_outcome 10 = (Some (SVoting, FXu 12500, [(10, FXu 10000); (gov_acct, FXu 2500)]),
                       FXu 10000, FXu 12500, FXu 2500, (RHalt, FXu 10000, FXu 990000)) /\
  pledge_outcome 11 = (Some (SVoting, FXu 12500, [(11, FXu 10000); (gov_acct, FXu 2500)]),
                       FXu 10000, FXu 12500, FXu 2500, (ROk, 0, FXu 1000000)).
Proof. exact conservation_refuted_by_gov_deposit. Qed.
Print Assumptions C15_conservation_refuted_by_gov_deposit.

Theorem C15_voting_only_by_activation : forall P kf p p',
  evolve1 P kf p p' -> p_status p' = SVoting ->
  p_status p = SVoting \/
  (p_status p = SDeposit /\ exists cust now d a, 0 <= a /\ p' = deposited P kf cust now d a p).
Proof. exact voting_only_by_activation. Qed.
Print Assumptions C15_voting_only_by_activation.

Theorem C15_props_invariant : forall P kf (Q : proposal -> Prop),
  (forall p p', Q p -> evolve1 P kf p p' -> Q p') ->
  (forall id now pr ms ex, check_msgs ms = true -> Q (new_proposal P id now pr ms ex)) ->
  forall b c ops s ev, run P kf (init b c) ops = (s, ev) -> Forall Q (props s).
Proof. exact props_invariant. Qed.
Print Assumptions C15_props_invariant.

Theorem C15_activation_invariant : forall P kf b c ops s ev,
  run P kf (init b c) ops = (s, ev) -> Forall (act_ok P) (props s).
Proof. exact activation_invariant. Qed.
Print Assumptions C15_activation_invariant.

Theorem C15_code_activation_amount : forall P b c ops s ev p,
  0 < min_deposit P -> 0 < exp_min_deposit P ->
  run P kf_code (init b c) ops = (s, ev) -> In p (props s) ->
  decided_or_voting (p_status p) = true ->
  Z.min (min_deposit P) (exp_min_deposit P) <= p_act_total p <= p_total p.
Proof. exact code_activation_amount. Qed.
Print Assumptions C15_code_activation_amount.

Theorem C15_code_min_is_default : forall cust m ms, egf_min kf_code cust [(fx, m)] ms = [(fx, m)].
Proof. exact code_min_is_default. Qed.
Print Assumptions C15_code_min_is_default.

Theorem C15_fixed_activation_egf : forall P cust now d a p cp,
  p_status p = SDeposit -> p_status (deposited P kf_fixed cust now d a p) = SVoting ->
  0 < min_for P p -> Forall fx_request (p_msgs p) -> lookup ty_egf cust = Some cp -> c_ratio cp <> 0 ->
  Z.max (min_for P p) (share_of (c_ratio cp) (requested (p_msgs p))) <= p_total p + a.
Proof. exact fixed_activation_egf. Qed.
Print Assumptions C15_fixed_activation_egf.

Theorem C15_fixed_dust_refuted :
  view kf_fixed h_dust 1 = Some (SVoting, FXu 5000, 10, 10 + 14 * day, false, 0) /\
  (FXu 5000 <? min_deposit P0) = true.
Proof. exact fixed_dust_refuted. Qed.
Print Assumptions C15_fixed_dust_refuted.

Theorem C15_fixed_foreign_refuted :
  view kf_fixed h_foreign 1 = Some (SVoting, FXu 100, 10, 10 + 14 * day, false, 0).
Proof. exact fixed_foreign_refuted. Qed.
Print Assumptions C15_fixed_foreign_refuted.

(* ---- voting period and quorum by message type ---- *)
Theorem C15_code_type_blind : forall P cust p q,
  (p_msgs p = [] <-> p_msgs q = []) -> p_expedited p = p_expedited q ->
  period_for P kf_code cust p = period_for P kf_code cust q /\
  quorum_for P kf_code cust p = quorum_for P kf_code cust q.
Proof. exact code_type_blind. Qed.
Print Assumptions C15_code_type_blind.

Theorem C15_code_ignores_type_rules_refuted :
  view kf_code h_types 1 = Some (SVoting, FXu 10000, 10, 10 + 14 * day, false, 0) /\
  option_map c_ratio (lookup ty_egf cust0) = Some 100000000000000000 /\
  share_of 100000000000000000 (requested [egf_msg [(fx, FXu 1000000)]]) = FXu 100000 /\
  view kf_code h_types 2 = Some (SVoting, FXu 10000, 10, 10 + 14 * day, false, 0) /\
  option_map c_period (lookup ty_toggle cust0) = Some (7 * day).
Proof. exact code_ignores_type_rules. Qed.
Print Assumptions C15_code_ignores_type_rules_refuted.

Theorem C15_code_ignores_type_quorum_refuted :
  view kf_code h_quorum 1 = Some (SRejected, FXu 10000, 10, 10 + 14 * day, false, q40) /\
  option_map c_quorum (lookup ty_toggle cust0) = Some q25 /\
  (q25 <=? participation stk0 (with_votes (new_proposal P0 1 10 11 [toggle_msg] false) [(0, yes)])) = true.
Proof. exact code_ignores_type_quorum. Qed.
Print Assumptions C15_code_ignores_type_quorum_refuted.

Theorem C15_fixed_period_by_type : forall P cust p,
  period_for P kf_fixed cust p =
  match lookup (first_type (p_msgs p)) cust with
  | Some cp => c_period cp
  | None => if p_expedited p then exp_voting_period P else voting_period P
  end /\
  quorum_for P kf_fixed cust p =
  match lookup (first_type (p_msgs p)) cust with
  | Some cp => c_quorum cp
  | None => quorum P
  end.
Proof. exact fixed_period_by_type. Qed.
Print Assumptions C15_fixed_period_by_type.

Theorem C15_fixed_applies_type_rules :
  view kf_fixed h_types 1 = Some (SDeposit, FXu 10000, 0, 0, false, 0) /\
  view kf_fixed h_types 2 = Some (SPassed, FXu 10000, 10, 10 + 7 * day, false, q25).
Proof. exact fixed_applies_type_rules. Qed.
Print Assumptions C15_fixed_applies_type_rules.

Theorem C15_fixed_conversion_uses_default_period :
  view kf_fixed (firstn 1 h_conv) 1 = Some (SVoting, FXu 50000, 10, 10 + 7 * day, true, 0) /\
  view kf_fixed h_conv 1 = Some (SVoting, FXu 50000, 10, 10 + 14 * day, false, q25).
Proof. exact fixed_conversion_uses_default_period. Qed.
Print Assumptions C15_fixed_conversion_uses_default_period.

Theorem C15_tally_uses_type_quorum : forall P kf cust stk p,
  q_used (tally P kf cust stk p) = quorum_for P kf cust p /\
  (passes (tally P kf cust stk p) = true ->
   st_total_bonded stk <> 0 /\ quorum_for P kf cust p <= participation stk p).
Proof. exact tally_uses_type_quorum. Qed.
Print Assumptions C15_tally_uses_type_quorum.

Theorem C15_tallied_records_quorum : forall P kf stk s id s' e p p',
  process_active P kf stk s id = Some (s', e) ->
  find_prop id (props s) = Some p -> p_status p = SVoting ->
  find_prop id (props s') = Some p' ->
  p_quorum_used p' = quorum_for P kf (custom s) p /\
  (p_status p' = SPassed \/ p_status p' = SFailed -> quorum_for P kf (custom s) p <= participation stk p).
Proof. exact tallied_records_quorum. Qed.
Print Assumptions C15_tallied_records_quorum.

(* ---- one message type per proposal ---- *)
Theorem C15_check_msgs_spec : forall ms, check_msgs ms = true <-> same_type ms.
Proof. exact check_msgs_spec. Qed.
Print Assumptions C15_check_msgs_spec.

Theorem C15_submit_rejects_mixed : forall P kf now s proposer ms amt ex valid bd,
  ~ same_type ms -> submit P kf now s proposer ms amt ex valid bd = (RErr EMixed, s).
Proof. exact submit_rejects_mixed. Qed.
Print Assumptions C15_submit_rejects_mixed.

Theorem C15_single_type : forall P kf b c ops s ev,
  run P kf (init b c) ops = (s, ev) -> Forall (fun p => same_type (p_msgs p)) (props s).
Proof. exact single_type. Qed.
Print Assumptions C15_single_type.

(* ---- a passed proposal's messages: all together or not at all ---- *)
Theorem C15_atomic_execution : forall P kf stk s id p s1 ev pre m post si,
  find_prop id (props s) = Some p -> p_status p = SVoting ->
  passes (tally P kf (custom s) stk p) = true ->
  pay_out s p (burns (tally P kf (custom s) stk p)) = Some (s1, ev) ->
  p_msgs p = pre ++ m :: post ->
  exec_msgs (xenv_of P kf stk id) (passed_state s1 id (tally P kf (custom s) stk p)) pre = Some si ->
  exec_one (xenv_of P kf stk id) si m = None ->
  exists s', process_active P kf stk s id = Some (s', ev) /\
             world s' = world s1 /\
             exists p', find_prop id (props s') = Some p' /\ p_status p' = SFailed /\
                        forall id', id' <> id -> find_prop id' (props s') = find_prop id' (props s).
Proof. exact atomic_execution. Qed.
Print Assumptions C15_atomic_execution.

Theorem C15_all_applied : forall P kf stk s id p s1 ev s2,
  find_prop id (props s) = Some p -> p_status p = SVoting ->
  passes (tally P kf (custom s) stk p) = true ->
  pay_out s p (burns (tally P kf (custom s) stk p)) = Some (s1, ev) ->
  exec_msgs (xenv_of P kf stk id) (passed_state s1 id (tally P kf (custom s) stk p)) (p_msgs p) = Some s2 ->
  process_active P kf stk s id = Some (s2, ev) /\
  exists p', find_prop id (props s2) = Some p' /\ p_status p' = SPassed.
Proof. exact all_applied. Qed.
Print Assumptions C15_all_applied.

(* ---- the hypotheses above are met by concrete histories ---- *)
Theorem C15_main_history_nonvacuous :
  Forall op_no_govsend h_main /\
  map (fun p => (p_id p, p_status p)) (props (fst final_main))
    = [(1, SPassed); (2, SFailed); (3, SDropped); (4, SCancelled); (5, SRejected)] /\
  gov_bal (fst final_main) = 0 /\ open_sum (props (fst final_main)) = 0 /\
  ext (fst final_main) = [3] /\
  pays 1 (snd final_main) = [(10, FXu 9900); (11, FXu 100)] /\
  pays 5 (snd final_main) = [(14, FXu 2000); (15, FXu 8000)] /\
  burned (fst final_main) = FXu 5000 + FXu 10000 /\
  bal (fst final_main) 14 = FXu 1000000 - FXu 2000 /\
  bal (fst final_main) 10 = FXu 1000000.
Proof. exact main_history_nonvacuous. Qed.
Print Assumptions C15_main_history_nonvacuous.

Theorem C15_main_history_midway :
  let s := fst (run P0 kf_code (init bal0 cust0) (firstn 7 h_main)) in
  gov_bal s = FXu 10000 + FXu 10000 + FXu 100 + FXu 10000 + FXu 10000 /\
  gov_bal s = open_sum (props s) /\
  map snd (inactive_queue (props s)) = [3] /\ map snd (active_queue (props s)) = [1; 2; 4; 5].
Proof. exact main_history_midway. Qed.
Print Assumptions C15_main_history_midway.

Theorem C15_atomic_nonvacuous :
  let s := fst (run P0 kf_code (init bal0 cust0) (firstn 19 h_main)) in
  match find_prop 2 (props s) with
  | Some p =>
      let v := tally P0 kf_code (custom s) stk1 p in
      (p_status p, passes v, p_msgs p) = (SVoting, true, [toggle_msg] ++ fail_msg :: []) /\
      match pay_out s p (burns v) with
      | Some (s1, _) =>
          match exec_msgs (xenv_of P0 kf_code stk1 2) (passed_state s1 2 v) [toggle_msg] with
          | Some si => ext si = 2 :: ext s1 /\ exec_one (xenv_of P0 kf_code stk1 2) si fail_msg = None
          | None => False
          end
      | None => False
      end
  | None => False
  end.
Proof. exact atomic_nonvacuous. Qed.
Print Assumptions C15_atomic_nonvacuous.

Theorem C15_share_nonvacuous :
  view kf_fixed h_share 1 = Some (SDeposit, FXu 100000 - 1, 0, 0, false, 0) /\
  view kf_fixed (h_share ++ [ODeposit 30 1 12 (FXu 100) false]) 1
    = Some (SVoting, FXu 100100 - 1, 30, 30 + 14 * day, false, 0) /\
  option_map p_act_req (find_in kf_fixed (h_share ++ [ODeposit 30 1 12 (FXu 100) false]) 1) = Some [(fx, FXu 100000)].
Proof. exact share_nonvacuous. Qed.
Print Assumptions C15_share_nonvacuous.

(* ---- the governance Params themselves change in between (grun) ---- *)
Theorem C15_gconservation_general : forall kf gops P b c ps ev,
  grun kf (P, init b c) gops = (ps, ev) ->
  gov_bal (snd ps) + gov_spent (snd ps) = open_sum (props (snd ps)) /\
  Forall (fun p => p_total p = sum_deps (p_deps p)) (props (snd ps)).
Proof. exact gconservation_general. Qed.
Print Assumptions C15_gconservation_general.

Theorem C15_gconservation : forall kf gops P b c ps ev,
  Forall gop_no_govsend gops -> grun kf (P, init b c) gops = (ps, ev) ->
  gov_bal (snd ps) = open_sum (props (snd ps)).
Proof. exact gconservation. Qed.
Print Assumptions C15_gconservation.

Theorem C15_gend_block_never_fails : forall kf gops P b c ps ev t stk,
  Forall gop_no_govsend gops -> Forall gop_no_corrupt gops ->
  grun kf (P, init b c) gops = (ps, ev) ->
  end_block (fst ps) kf t stk (snd ps) <> None.
Proof. exact gend_block_never_fails. Qed.
Print Assumptions C15_gend_block_never_fails.

Theorem C15_gpayout_exactly_once : forall kf gops P b c ps evs,
  grun kf (P, init b c) gops = (ps, evs) ->
  forall pid,
    pays pid evs = match find_prop pid (props (snd ps)) with
                   | None => []
                   | Some p => if is_open (p_status p) then [] else p_deps p
                   end.
Proof. exact gpayout_exactly_once. Qed.
Print Assumptions C15_gpayout_exactly_once.

Theorem C15_gprops_invariant : forall kf (Q : proposal -> Prop),
  (forall P p p', Q p -> evolve1 P kf p p' -> Q p') ->
  (forall P id now pr ms ex, check_msgs ms = true -> Q (new_proposal P id now pr ms ex)) ->
  forall gops P b c ps ev, grun kf (P, init b c) gops = (ps, ev) -> Forall Q (props (snd ps)).
Proof. exact gprops_invariant. Qed.
Print Assumptions C15_gprops_invariant.

Theorem C15_gsingle_type : forall kf gops P b c ps ev,
  grun kf (P, init b c) gops = (ps, ev) -> Forall (fun p => same_type (p_msgs p)) (props (snd ps)).
Proof. exact gsingle_type. Qed.
Print Assumptions C15_gsingle_type.

(* ---- which parameter value applies at which moment ---- *)
Theorem C15_params_update_touches_nothing : forall kf P s a v P' r ps' ev,
  gstep kf (P, s) (GSetParams a v P') = (r, ps', ev) ->
  snd ps' = s /\ ev = [] /\ (fst ps' = P \/ (fst ps' = P' /\ r = ROk /\ a = true /\ v = true)).
Proof. exact params_update_touches_nothing. Qed.
Print Assumptions C15_params_update_touches_nothing.

Theorem C15_op_uses_current_params : forall kf P s o r ps' ev,
  gstep kf (P, s) (GOp o) = (r, ps', ev) ->
  fst ps' = P /\ step P kf s o = (r, snd ps', ev).
Proof. exact op_uses_current_params. Qed.
Print Assumptions C15_op_uses_current_params.

Theorem C15_params_at_submission : forall P kf now s proposer ms amt ex valid bd s',
  wf s -> submit P kf now s proposer ms amt ex valid bd = (ROk, s') ->
  initial_ok P ex amt = true /\
  exists p, find_prop (next_id s) (props s') = Some p /\
            p_submit p = now /\ p_dep_end p = now + max_deposit_period P /\ p_expedited p = ex.
Proof. exact params_at_submission. Qed.
Print Assumptions C15_params_at_submission.

Theorem C15_params_at_activation : forall P kf cust now d a p,
  p_status p = SDeposit -> p_status (deposited P kf cust now d a p) = SVoting ->
  let p' := deposited P kf cust now d a p in
  is_all_gte (coins_of_fx (p_total p')) (egf_min kf cust [(fx, min_for P p)] (p_msgs p)) = true /\
  p_vend p' = now + period_for P kf cust p /\
  (lookup (kf_key kf (p_msgs p)) cust = None ->
   p_vend p' = now + (if p_expedited p then exp_voting_period P else voting_period P)).
Proof. exact params_at_activation. Qed.
Print Assumptions C15_params_at_activation.

Theorem C15_params_at_tally : forall P kf cust stk p,
  let v := tally P kf cust stk p in
  (lookup (kf_key kf (p_msgs p)) cust = None -> q_used v = quorum P) /\
  (passes v = true ->
   (if p_expedited p then exp_threshold P else threshold P)
     < dec_quo (a_yes (tally_acc stk p)) (a_total (tally_acc stk p) - a_abstain (tally_acc stk p)) /\
   dec_quo (a_veto (tally_acc stk p)) (a_total (tally_acc stk p)) <= veto_threshold P) /\
  (burns v = true -> (burn_quorum P = true \/ burn_veto P = true)) /\
  p_vend (converted P p v) = p_vstart p + voting_period P.
Proof. exact params_at_tally. Qed.
Print Assumptions C15_params_at_tally.

Theorem C15_params_at_drop : forall P s id p s' ev,
  process_inactive P s id = Some (s', ev) -> find_prop id (props s) = Some p -> p_status p = SDeposit ->
  ev = map (fun da => EvPay (p_id p) (fst da) (if burn_prevote P then 0 else snd da)
                            (if burn_prevote P then snd da else 0)) (p_deps p).
Proof. exact params_at_drop. Qed.
Print Assumptions C15_params_at_drop.

Theorem C15_params_change_nonvacuous :
  gview (firstn 7 h_params) 1 = Some (SVoting, FXu 10000, 10, 10 + 14 * day, false, 0) /\
  gview h_params 1 = Some (SPassed, FXu 10000, 10, 10 + 14 * day, false, 100000000000000000) /\
  gview h_params 2 = Some (SDeposit, FXu 10000, 0, 0, false, 0) /\
  quorum (fst (fst (grun kf_code (P0, init bal0 cust0) h_params))) = 100000000000000000 /\
  (100000000000000000 <=? participation stk0 (with_votes (new_proposal P0 1 10 10 [text_msg] false) [(0, yes)])) = true /\
  (participation stk0 (with_votes (new_proposal P0 1 10 10 [text_msg] false) [(0, yes)]) <? 900000000000000000) = true.
Proof. exact params_change_nonvacuous. Qed.
Print Assumptions C15_params_change_nonvacuous.

(* ---- conservation of value: burned deposits leave the supply, refunds do not ---- *)
Theorem C15_step_value : forall A P kf s o r s' ev,
  NoDup A -> closed_in A s -> op_in A o -> params_in A P ->
  step P kf s o = (r, s', ev) ->
  value A s' = value A s + inflow o r /\ closed_in A s'.
Proof. exact step_value. Qed.
Print Assumptions C15_step_value.

Theorem C15_supply_conservation : forall A kf gops P b c ps ev,
  NoDup A -> params_in A P -> Forall (gop_in A) gops ->
  grun kf (P, init b c) gops = (ps, ev) ->
  sumb A (bal (snd ps)) + gov_bal (snd ps) + pool_in (snd ps)
  = sumb A b + ginflow kf (P, init b c) gops - burned (snd ps).
Proof. exact supply_conservation. Qed.
Print Assumptions C15_supply_conservation.

(* ---- the code's shape, read off the current sources by harness/gen_c15 (gen/Gen_GovShape.v) ---- *)
Theorem C15_gen_exec_all_or_nothing : forall e s1 ms,
  exec_outcome_sh gen_shape e s1 ms =
  match exec_msgs e s1 ms with Some s2 => (s2, SPassed) | None => (s1, SFailed) end.
Proof. exact gen_exec_all_or_nothing. Qed.
Print Assumptions C15_gen_exec_all_or_nothing.

Theorem C15_gen_deposit_writes_record : forall P kf cust now dep amt p,
  deposited_sh gen_shape P kf cust now dep amt p = deposited P kf cust now dep amt p.
Proof. exact gen_deposit_writes_record. Qed.
Print Assumptions C15_gen_deposit_writes_record.

Theorem C15_gen_endblock_shape :
  leqb eb_step_eqb (sh_eb_order gen_shape) model_eb_order = true /\
  sh_payout_guard gen_shape = true /\ sh_conv_period_default gen_shape = true /\
  sh_passed_in_ok_branch gen_shape = true /\ sh_failed_in_else_branch gen_shape = true.
Proof. exact gen_endblock_shape. Qed.
Print Assumptions C15_gen_endblock_shape.

Theorem C15_gen_queue_shape : queue_shape_ok gen_shape = true.
Proof. exact gen_queue_shape. Qed.
Print Assumptions C15_gen_queue_shape.

Theorem C15_gen_tally_checks : leqb tally_check_eqb (sh_tally_checks gen_shape) model_tally_checks = true.
Proof. exact gen_tally_checks. Qed.
Print Assumptions C15_gen_tally_checks.

Theorem C15_gen_keys_consistent : shape_keys_consistent gen_shape = true.
Proof. exact gen_keys_consistent. Qed.
Print Assumptions C15_gen_keys_consistent.

Theorem C15_gen_keyfun : forall ms m,
  kf_key (kf_of_shape gen_shape) ms = kf_key (if shape_is_fixed gen_shape then kf_fixed else kf_code) ms /\
  kf_is_egf (kf_of_shape gen_shape) m = kf_is_egf (if shape_is_fixed gen_shape then kf_fixed else kf_code) m.
Proof. exact gen_keyfun. Qed.
Print Assumptions C15_gen_keyfun.

Theorem C15_gen_any_key_is_type_blind :
  sh_type_key gen_shape = KAnyName -> sh_egf_key gen_shape = KAnyName ->
  forall P cust p q m ms,
    (p_msgs p = [] <-> p_msgs q = []) -> p_expedited p = p_expedited q ->
    period_for P (kf_of_shape gen_shape) cust p = period_for P (kf_of_shape gen_shape) cust q /\
    quorum_for P (kf_of_shape gen_shape) cust p = quorum_for P (kf_of_shape gen_shape) cust q /\
    egf_min (kf_of_shape gen_shape) cust [(fx, m)] ms = [(fx, m)].
Proof. exact gen_any_key_is_type_blind. Qed.
Print Assumptions C15_gen_any_key_is_type_blind.

Theorem C15_gen_mixed_compare : forall ms, check_msgs_sh gen_shape ms = check_msgs ms.
Proof. exact gen_mixed_compare. Qed.
Print Assumptions C15_gen_mixed_compare.

Theorem C15_gen_mixed_compare_fact : sh_mixed_compare gen_shape = CmpTypeURL /\ sh_mixed_fold gen_shape = true.
Proof. exact gen_mixed_compare_fact. Qed.
Print Assumptions C15_gen_mixed_compare_fact.

Theorem C15_gen_stored_value_or_default : forall P kf cust p,
  quorum_for_sh gen_shape P kf cust p = quorum_for P kf cust p /\
  period_for_sh gen_shape P kf cust p = period_for P kf cust p.
Proof. exact gen_stored_value_or_default. Qed.
Print Assumptions C15_gen_stored_value_or_default.

Theorem C15_stored_zero_quorum_is_zero : forall P kf cust p cp,
  lookup (kf_key kf (p_msgs p)) cust = Some cp -> c_quorum cp = 0 ->
  quorum_for_sh gen_shape P kf cust p = 0.
Proof. exact stored_zero_quorum_is_zero. Qed.
Print Assumptions C15_stored_zero_quorum_is_zero.

Theorem C15_tree_dequeues_undecodable_by_key :
  sh_bad_inactive_dequeued gen_shape = true /\ sh_bad_active_dequeued_by_key gen_shape = true.
Proof. exact tree_dequeues_undecodable_by_key. Qed.
Print Assumptions C15_tree_dequeues_undecodable_by_key.

Theorem C15_end_block_never_fails_on_tree : forall P kf b c ops s ev t stk,
  bad_inactive_dequeued P = sh_bad_inactive_dequeued gen_shape ->
  bad_active_dequeued_by_key P = sh_bad_active_dequeued_by_key gen_shape ->
  Forall op_no_govsend ops ->
  run P kf (init b c) ops = (s, ev) ->
  end_block P kf t stk s <> None.
Proof. exact end_block_never_fails_on_tree. Qed.
Print Assumptions C15_end_block_never_fails_on_tree.

Theorem C15_shadowed_err_matters :
  let sh := with_exec gen_shape false 0 0 1 true true in
  (ext (fst (exec_outcome_sh sh e_any s_any [m_ok; m_bad])), snd (exec_outcome_sh sh e_any s_any [m_ok; m_bad])) = ([7], SPassed) /\
  (ext (fst (exec_outcome_sh gen_shape e_any s_any [m_ok; m_bad])), snd (exec_outcome_sh gen_shape e_any s_any [m_ok; m_bad])) = ([], SFailed).
Proof. exact shadowed_err_matters. Qed.
Print Assumptions C15_shadowed_err_matters.

Theorem C15_per_message_branch_matters :
  let sh := with_exec gen_shape true 1 1 0 false false in
  (ext (fst (exec_outcome_sh sh e_any s_any [m_ok; m_bad])), snd (exec_outcome_sh sh e_any s_any [m_ok; m_bad])) = ([7], SFailed).
Proof. exact per_message_branch_matters. Qed.
Print Assumptions C15_per_message_branch_matters.
