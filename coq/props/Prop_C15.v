(* Property C15: governance deposits are conserved; proposals follow their message-type rules. *)
From Coq Require Import ZArith List Bool.
From FxV Require Import lib.Dec model.M_Gov proofs.P_Gov.
Import ListNotations.
Open Scope Z_scope.

Theorem C15_conservation_general : forall P kf b c ops s ev,
  run P kf (init b c) ops = (s, ev) ->
  gov_bal s + gov_spent s = open_sum (props s) /\
  Forall (fun p => p_total p = sum_deps (p_deps p)) (props s).
Proof. exact conservation_general. Qed.
Print Assumptions C15_conservation_general.

Theorem C15_conservation : forall P kf b c ops s ev,
  Forall op_no_govsend ops ->
  run P kf (init b c) ops = (s, ev) ->
  gov_bal s = open_sum (props s).
Proof. exact conservation. Qed.
Print Assumptions C15_conservation.

Theorem C15_end_block_never_fails : forall P kf b c ops s ev t stk,
  Forall op_no_govsend ops ->
  run P kf (init b c) ops = (s, ev) ->
  end_block P kf t stk s <> None.
Proof. exact end_block_never_fails. Qed.
Print Assumptions C15_end_block_never_fails.
