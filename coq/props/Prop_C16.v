(* Property C16: every privileged message takes effect only when its authority is the governance
   module account; with any other authority it is rejected and leaves every store unchanged.
   A raw store update additionally applies only if the current value equals the stated old value.

   The theorem content is, by the nature of the property, a finite table check over two generated
   tables (gen/Gen_AuthorityMsgs.v: from the running app's message router; gen/Gen_Authority.v: from
   fx-core's sources) plus generic lemmas about the handler shape and the compare-and-set loop. *)
From Coq Require Import ZArith List Bool String.
From FxV Require Import model.M_AuthorityTypes gen.Gen_Authority gen.Gen_AuthorityMsgs model.M_Authority proofs.P_Authority model.M_AuthNested proofs.P_AuthNested.
Import ListNotations.
Open Scope Z_scope.

(* EVERY authority-carrying message type routable in the running app — fx-core's, cosmos-sdk's, ibc-go's,
   ethermint's — has a handler in the sources (dependencies read from the module cache at the versions go.mod
   selects, files pinned by sha256); each handler compares the authority with the keeper's before any call (kind
   != or EqualFold), or is the crosschain router forwarding to such a handler after a read-only lookup, or is a
   committed exception with a recognised != guard (exactly x/gov ExecLegacyContent, which first reads the gov
   module account it compares with); the keepers' authority is bound to the gov module address in
   app/keepers/keepers.go; and the dependency files are the pinned ones *)
Theorem C16_all_guarded :
  (forall m, In m gen_authmsgs ->
     (exists r, In r gen_handlers /\ h_url r = am_url m) /\
     (forall r, In r gen_handlers -> h_url r = am_url m ->
        (is_delegate r = false /\ guards_first r = true) \/
        (is_delegate r = true /\ lookup_ok gen_lookups (h_file r) (h_delegate_via r) = true /\
         exists t, In t gen_handlers /\ h_url t = h_url r /\ h_name t = h_delegate r /\
                   is_delegate t = false /\ guards_first t = true) \/
        (is_delegate r = false /\ In (h_url r, h_against r) guard_exceptions /\ 0 <= h_guard_idx r /\ h_kind r = CmpNeq))) /\
  gen_authaddr_expr = authaddr_expected /\
  gen_dep_files = dep_files_expected.
Proof. exact all_guarded_thm. Qed.
Print Assumptions C16_all_guarded.

(* generic: handle m st = if guard m then body m st else (Err, st) *)
Theorem C16_reject_unchanged : forall (St Msg : Type) (authority_of : Msg -> str) k gov body m st,
  guard_pass k gov (authority_of m) = false ->
  handle St Msg authority_of k gov body m st = (Err, st).
Proof. exact reject_unchanged. Qed.
Print Assumptions C16_reject_unchanged.

(* for every self-checking handler row generated from the sources, whatever precedes (nothing
   effectful, by the table check) and whatever follows the guard *)
Theorem C16_generated_handlers_reject_unchanged :
  forall r, In r gen_handlers -> is_delegate r = false -> exception_ok r = false ->
  forall (St Msg : Type) (authority_of : Msg -> str) gov pre body m st,
    guard_pass (h_kind r) gov (authority_of m) = false ->
    run St Msg authority_of gov (stmts_of St Msg (h_guard_idx r) (h_kind r) (h_pre_effect r) pre body) m st = (Err, st).
Proof. exact generated_handlers_reject_unchanged. Qed.
Print Assumptions C16_generated_handlers_reject_unchanged.

(* "takes effect only when its authority is the governance account": anything but (Err, unchanged)
   means the authority equals the keeper's — exactly for `!=`, up to Unicode simple case folding for
   strings.EqualFold (x/evm CallContract) *)
Theorem C16_effect_only_gov :
  forall r, In r gen_handlers -> is_delegate r = false -> exception_ok r = false ->
  forall (St Msg : Type) (authority_of : Msg -> str) gov pre body m st,
    run St Msg authority_of gov (stmts_of St Msg (h_guard_idx r) (h_kind r) (h_pre_effect r) pre body) m st <> (Err, st) ->
    denotes_gov (h_kind r) gov (authority_of m) /\ (h_kind r = CmpNeq \/ h_kind r = CmpEqualFold).
Proof. exact generated_handlers_effect_only_gov. Qed.
Print Assumptions C16_effect_only_gov.

(* the committed exception rows: rejection leaves the state unchanged when what precedes the guard is a read *)
Theorem C16_exception_rows_reject_unchanged :
  forall r, In r gen_handlers -> exception_ok r = true -> h_pre_effect r = true ->
  forall (St Msg : Type) (authority_of : Msg -> str) gov pre body m st,
    pre m st = (Ok, st) ->
    guard_pass (h_kind r) gov (authority_of m) = false ->
    run St Msg authority_of gov (stmts_of St Msg (h_guard_idx r) (h_kind r) (h_pre_effect r) pre body) m st = (Err, st).
Proof. exact exception_rows_reject_unchanged. Qed.
Print Assumptions C16_exception_rows_reject_unchanged.

(* per keeper: every keeper constructor in app/keepers/keepers.go that receives an authority receives the governance
   module address (authAddr, bound to NewModuleAddress(gov).String(), or that expression itself), and none of the
   24 keepers known to take one has lost it *)
Theorem C16_keepers_get_gov_authority :
  keeper_authorities_ok gen_keeper_authorities = true /\ String.eqb gen_authaddr_expr authaddr_expected = true.
Proof. exact keepers_get_gov_authority. Qed.
Print Assumptions C16_keepers_get_gov_authority.

(* privileged handlers are reached only through baseapp's MsgServiceRouter, whose wrapper runs ValidateBasic
   first (pinned source): the only by-name calls in fx-core are the crosschain router's forwards *)
Theorem C16_reached_only_through_router :
  direct_callers_ok gen_direct_callers = true /\ gen_router_validates_basic = true.
Proof. exact reached_only_through_router. Qed.
Print Assumptions C16_reached_only_through_router.

Theorem C16_fold_guard_lower_gov : forall gov a,
  lower_ascii gov -> guard_pass CmpEqualFold gov a = true -> fold a = gov.
Proof. exact guard_fold_lower_gov. Qed.
Print Assumptions C16_fold_guard_lower_gov.

(* the crosschain router and the SDK router wrapper preserve "rejected and unchanged" *)
Theorem C16_route_reject_unchanged : forall (St Msg : Type) chain_of servers (m : Msg) (st : St),
  (forall p, In p servers -> snd p m st = (Err, st)) ->
  route St Msg chain_of servers m st = (Err, st).
Proof. exact route_reject_unchanged. Qed.
Print Assumptions C16_route_reject_unchanged.

(* the table check is not decoration: with an effect in front of the guard a rejected message
   leaves a trace *)
Theorem C16_guard_not_first_refuted :
  exists (body : list (stmt Z str)) (m : str) (st : Z),
    guard_pass CmpNeq [1] m = false /\
    fst (run Z str (fun m => m) [1] body m st) = Err /\
    snd (run Z str (fun m => m) [1] body m st) <> st.
Proof. exact pre_effect_refuted. Qed.
Print Assumptions C16_guard_not_first_refuted.

(* raw store update: success = every entry, at its turn, found the stated old value *)
Theorem C16_cas : forall known es st st',
  update_store known es st = (Ok, st') <-> cas_run known st es st'.
Proof. exact update_store_ok_iff. Qed.
Print Assumptions C16_cas.

Theorem C16_cas_mismatch_rejects : forall known e r st k o,
  mem_space (e_space e) known = true -> e_key e = Some k -> k <> [] -> e_old e = Some o ->
  cur st (e_space e, k) <> o ->
  update_store known (e :: r) st = (Err, st).
Proof. exact cas_mismatch_rejects. Qed.
Print Assumptions C16_cas_mismatch_rejects.

Theorem C16_cas_untouched : forall known es st o st' sk,
  update_store known es st = (o, st') ->
  (forall e k, In e es -> e_key e = Some k -> (e_space e, k) <> sk) ->
  get st' sk = get st sk.
Proof. exact cas_untouched. Qed.
Print Assumptions C16_cas_untouched.

(* a failing entry (error or panic) leaves, at tx level, nothing applied ... *)
Theorem C16_cas_fail_tx_nothing_applied : forall known (m : str * list entry) st,
  fst (update_store known (snd m) st) <> Ok ->
  tx kvs (str * list entry) (fun m st => update_store known (snd m) st) m st = st.
Proof. exact cas_fail_tx_nothing_applied. Qed.
Print Assumptions C16_cas_fail_tx_nothing_applied.

(* ... while the handler on its own context is not atomic (faithful to the code) *)
Theorem C16_cas_handler_level_partial :
  exists known es st sk,
    fst (update_store known es st) = Err /\ get (snd (update_store known es st)) sk <> get st sk.
Proof. exact cas_partial_at_handler_level. Qed.
Print Assumptions C16_cas_handler_level_partial.

Theorem C16_update_store_msg : forall known gov m st,
  (fst m <> gov -> update_store_msg known gov m st = (Err, st)) /\
  (forall st', update_store_msg known gov m st = (Ok, st') -> fst m = gov /\ cas_run known st (snd m) st').
Proof. intros. split; [apply update_store_msg_reject|apply update_store_msg_ok]. Qed.
Print Assumptions C16_update_store_msg.

Theorem C16_nonvacuous :
  update_store_msg [0; 1] ex_gov (ex_gov, ex_es) ex_st = (Ok, ([((0, [1]), []); ((1, [3]), [4]); ((0, [1]), [6])] ++ ex_st)%list) /\
  update_store_msg [0; 1] ex_gov ([70; 88; 49; 107; 115], ex_es) ex_st = (Err, ex_st) /\
  guard_pass CmpEqualFold ex_gov [70; 88; 49; 8490; 383] = true /\
  guard_pass CmpNeq ex_gov [70; 88; 49; 8490; 383] = false /\
  guard_pass CmpEqualFold ex_gov [102; 120; 49; 107; 1109] = false /\
  lower_ascii ex_gov /\
  existsb (fun r => negb (is_delegate r)) gen_handlers = true /\
  existsb am_in_fx gen_authmsgs = true /\
  existsb (fun m => negb (am_in_fx m)) gen_authmsgs = true.
Proof. exact examples. Qed.
Print Assumptions C16_nonvacuous.

(* ---- nested delivery: a privileged message wrapped in authz MsgExec, any depth (model/M_AuthNested.v: Exec +
   DispatchActions of the pinned cosmos-sdk x/authz; this is also how a governance proposal carrying a MsgExec — whose
   grantee is then the gov account — reaches the inner handler) ---- *)

(* under any nesting, with any grants, the body of a privileged handler is never run on a message whose authority its
   guard refuses: replacing the body on such messages by anything at all changes neither outcome nor state *)
Theorem C16_nested_body_only_gov :
  forall (St Msg : Type) authority_of signer_of kind_of_msg vb gov accept body junk n (m : nmsg Msg) (st : St),
    nh St Msg signer_of vb accept (leaf_handler St Msg authority_of kind_of_msg gov body) n m st =
    nh St Msg signer_of vb accept
       (leaf_handler St Msg authority_of kind_of_msg gov
          (fun x s => if guard_pass (kind_of_msg x) gov (authority_of x) then body x s else junk x s)) n m st.
Proof. exact nested_body_only_gov. Qed.
Print Assumptions C16_nested_body_only_gov.

(* a message tree that reaches a leaf whose guard refuses its authority never succeeds, whatever the grantees, the
   grants and the other (possibly governance-authorised) messages in it ... *)
Theorem C16_nested_nongov_never_ok :
  forall (St Msg : Type) authority_of signer_of kind_of_msg vb gov accept body n (m : nmsg Msg) (st : St),
    bad Msg authority_of kind_of_msg gov n m = true ->
    fst (nh St Msg signer_of vb accept (leaf_handler St Msg authority_of kind_of_msg gov body) n m st) <> Ok.
Proof. exact nested_nongov_never_ok. Qed.
Print Assumptions C16_nested_nongov_never_ok.

(* ... so at transaction / proposal-execution level it applies nothing, not even its governance-authorised siblings *)
Theorem C16_nested_nongov_tx_unchanged :
  forall (St Msg : Type) authority_of signer_of kind_of_msg vb gov accept body n (m : nmsg Msg) (st : St),
    bad Msg authority_of kind_of_msg gov n m = true ->
    tx St (nmsg Msg) (nh St Msg signer_of vb accept (leaf_handler St Msg authority_of kind_of_msg gov body) n) m st = st.
Proof. exact nested_nongov_tx_unchanged. Qed.
Print Assumptions C16_nested_nongov_tx_unchanged.

(* the would-be authority wrapping its own message (signer = grantee: authz asks for no grant): (Err, unchanged)
   on the handler's own context *)
Theorem C16_nested_self_signed_unchanged :
  forall (St Msg : Type) authority_of signer_of kind_of_msg vb gov accept body n x g (st : St),
    signer_of x = Some g ->
    guard_pass (kind_of_msg x) gov (authority_of x) = false ->
    nh St Msg signer_of vb accept (leaf_handler St Msg authority_of kind_of_msg gov body) (S n) (NExec (Some g) [NLeaf x]) st
    = (Err, st).
Proof. exact nested_single_self_signed_unchanged. Qed.
Print Assumptions C16_nested_self_signed_unchanged.

(* a message carrying the governance authority wrapped for another grantee gets no further than the authorization
   step unless that step (a grant given by the governance account itself) lets it through *)
Theorem C16_nested_gov_leaf_needs_gov_grant :
  forall (St Msg : Type) signer_of vb accept leaf n x g gr (st : St) o st1,
    signer_of x = Some g -> bytes_eqb g gr = false ->
    accept g gr (NLeaf x) st = (o, st1) -> o <> Ok ->
    nh St Msg signer_of vb accept leaf (S n) (NExec (Some gr) [NLeaf x]) st = (if vb x then (o, st1) else (Err, st)).
Proof. exact nested_gov_leaf_needs_gov_grant. Qed.
Print Assumptions C16_nested_gov_leaf_needs_gov_grant.

Theorem C16_nested_nonvacuous :
  ex_nh 3 (NExec (Some [1]) [NExec (Some [1]) [NLeaf [1]; NLeaf [1]]]) 0 = (Ok, 2) /\
  ex_nh 3 (NExec (Some [1]) [NLeaf [1]; NExec (Some [2]) [NLeaf [2]]]) 0 = (Err, 1) /\
  bad str (fun a => a) (fun _ => CmpNeq) [1] 3 (NExec (Some [1]) [NLeaf [1]; NExec (Some [2]) [NLeaf [2]]]) = true /\
  ex_nh 3 (NExec (Some [2]) [NLeaf [1]]) 0 = (Err, 0).
Proof. exact nested_examples. Qed.
Print Assumptions C16_nested_nonvacuous.
