(* Property C17: executing the same genesis and the same sequence of blocks always produces the same
   application hash, transaction results and events, independent of the process, map iteration
   order, parallelism or wall-clock time.

   What is provable in Gallina about this property is necessarily thin: (a) a finite theorem that
   every syntactic source of nondeterminism the translator finds in fx-core's sources today (range
   over a map, float arithmetic/formatting, time.Now, math/rand, goroutines, select) is in the
   committed allow-table with a discharge, and (b) for each consumer of an unordered iteration a model
   and the theorem  Permutation l l' -> f l = f l'.  The scheduler, the wall clock and the runtime's
   map order themselves cannot be exhibited by a Gallina model: that part is covered by the replay of
   one long history in several OS processes (harness/c17), i.e. by sampling. *)
From Coq Require Import ZArith List Bool Permutation Sorted Lia.
From FxV Require Import model.M_NondetTypes model.M_NondetAllow gen.Gen_NondetSites model.M_Perm proofs.P_Perm model.M_State proofs.P_State.
From FxV Require Import proofs.P_OsetPhase proofs.P_PermOset.
Import ListNotations.
Open Scope Z_scope.

(* every generated site has an allow-table entry whose discharge class FITS the site's shape as the translator read
   it from the source (collect-then-sort / accumulate-exact / accumulate-float / write-keyed-by-element for the
   map loops; the format string, telemetry argument, compare-with-constant details for the float rows), and the
   class's statement is a theorem *)
Theorem C17_all_sites_discharged : forall s, In s gen_sites ->
  exists d, lookup_allow s = Some d /\ discharge_fits d s = true /\ discharge_stmt d.
Proof. exact all_sites_discharged. Qed.
Print Assumptions C17_all_sites_discharged.

(* no wall clock, no math/rand, no goroutine, no select, no maps.Keys, no stack traces (runtime/debug,
   runtime.Stack/Caller) and no address formatting (%p, chan/func/raw pointers) anywhere in x, app, ante, types *)
Theorem C17_no_clock_rand_concurrency :
  forallb (fun s => negb (banned_kind (s_kind s))) gen_sites = true.
Proof. exact no_banned_sites. Qed.
Print Assumptions C17_no_clock_rand_concurrency.

(* GetAllBatchFees / GetSupportChains: collect from a map, sort by the unique key — for ANY sort *)
Theorem C17_sort_after_collect : forall (A : Type) (key : A -> Z) (srt : list A -> list A),
  (forall l, Permutation (srt l) l) ->
  (forall l, NoDup (map key l) -> StronglySorted (klt A key) (srt l)) ->
  forall l l', NoDup (map key l) -> Permutation l l' -> srt l = srt l'.
Proof. intros. eapply sort_after_collect_deterministic; eauto. Qed.
Print Assumptions C17_sort_after_collect.

(* ... instantiated on the executable batch-fee model: the map createBatchFees builds has distinct
   keys, and sorting any iteration order of it gives one result *)
Theorem C17_batch_fees : forall maxel pool entries',
  Permutation (create_batch_fees maxel pool) entries' ->
  isort fee_entry fst entries' = all_batch_fees maxel pool.
Proof.
  intros. unfold all_batch_fees. symmetry. apply all_batch_fees_deterministic; [apply create_batch_fees_nodup|assumption].
Qed.
Print Assumptions C17_batch_fees.

(* gov Tally, second loop over the validator map *)
Theorem C17_tally : forall (mq : Z -> Z -> Z -> Z) (mul : Z -> Z -> Z) acc vals vals',
  Permutation vals vals' -> tally_validators mq mul acc vals = tally_validators mq mul acc vals'.
Proof. exact tally_order_irrelevant. Qed.
Print Assumptions C17_tally.

(* PowerDiff: float64 accumulation over the map's values.  rnd is binary64 rounding, of which only
   "integers up to 2^53 are representable" is used; the bound on the sum follows from the code's
   constants (at most 2*MaxOracleSize entries of magnitude <= 2^32). *)
Theorem C17_power_diff : forall (rnd : Z -> Z),
  (forall z, Z.abs z <= two53 -> rnd z = z) ->
  forall vals vals', Permutation vals vals' ->
  Forall (fun v => Z.abs v <= two32) vals ->
  Z.of_nat (length vals) <= 2 * gen_max_oracle_size ->
  fsum rnd vals = sum_abs vals /\ fsum rnd vals' = fsum rnd vals.
Proof. exact power_diff_order_irrelevant. Qed.
Print Assumptions C17_power_diff.

(* the shape "accumulate-exact" in general (gov Tally is the instance with five accumulators) *)
Theorem C17_accumulate_exact : forall (A S : Type) (add : S -> S -> S) (g : A -> S),
  (forall a b, add a b = add b a) -> (forall a b c, add (add a b) c = add a (add b c)) ->
  forall acc l l', Permutation l l' ->
  fold_left (fun a x => add a (g x)) l acc = fold_left (fun a x => add a (g x)) l' acc.
Proof. exact accumulate_order_irrelevant. Qed.
Print Assumptions C17_accumulate_exact.

(* PowerDiff from the normalisation alone: non-negative powers summing to at most MaxUint32 on both sides (C07's
   stored-oracle-set invariant members_ok) => every partial sum of every iteration order of the map is an exact
   integer below 2^53, and the accumulated value is the exact sum *)
Theorem C17_power_diff_members_ok : forall (rnd : Z -> Z),
  (forall z, Z.abs z <= two53 -> rnd z = z) ->
  forall cur lat, members_ok cur -> members_ok lat ->
  forall order, Permutation (map snd (powers_of cur lat)) order ->
  (forall n, sum_abs (firstn n order) <= two53 /\ fsum rnd (firstn n order) = sum_abs (firstn n order)) /\
  fsum rnd order = power_diff_sum cur lat.
Proof. exact power_diff_exact_members_ok. Qed.
Print Assumptions C17_power_diff_members_ok.

Theorem C17_power_diff_map_size : forall b c,
  (length (powers_of b c) <= length b + length c)%nat.
Proof. exact powers_of_length. Qed.
Print Assumptions C17_power_diff_map_size.

(* map -> map rebuilds, key deletion (pruneAttestations), membership-only maps *)
Theorem C17_map_rebuild : forall entries entries',
  NoDup (map fst entries) -> Permutation entries entries' ->
  forall k, rebuild entries k = rebuild entries' k.
Proof. exact map_rebuild_order_irrelevant. Qed.
Print Assumptions C17_map_rebuild.

Theorem C17_delete_order : forall keys keys', Permutation keys keys' ->
  forall m k, delete_all m keys k = delete_all m keys' k.
Proof. exact delete_order_irrelevant. Qed.
Print Assumptions C17_delete_order.

Theorem C17_membership : forall x l l', Permutation l l' -> member_of x l = member_of x l'.
Proof. exact membership_order_irrelevant. Qed.
Print Assumptions C17_membership.

(* UpdateProposalOracles: the two address maps are only indexed *)
Theorem C17_update_proposal_oracles : forall max_size all old old' new new',
  Permutation old old' -> Permutation new new' ->
  upo max_size all old new = upo max_size all old' new'.
Proof. exact upo_order_irrelevant. Qed.
Print Assumptions C17_update_proposal_oracles.

(* pruneAttestations leaves exactly the attestations above the cut-off, whatever the deletion order *)
Theorem C17_prune : forall keep last atts,
  keep < last ->
  (forall k, prune keep last atts k = if k <=? last - keep then None else present atts k) /\
  (forall dels, Permutation dels (filter (fun n => n <=? last - keep) atts) ->
     forall k, delete_all (present atts) dels k = prune keep last atts k).
Proof.
  intros keep last atts H. split.
  - intro k. apply prune_spec. exact H.
  - intros dels P k. unfold prune. destruct (last <=? keep) eqn:E; [apply Z.leb_le in E; lia|].
    apply delete_order_irrelevant. exact P.
Qed.
Print Assumptions C17_prune.

(* K_state: every write to process-level mutable state under x/ sits in a function that is only called while
   the app is wired (finite check over the generated writer / caller lists), and the crosschain router's route
   map — written by AddRoute, which panics once sealed; sealed by NewRouterKeeper before the router reaches block
   execution — never changes after the seal *)
Theorem C17_state_wiring_only : writers_wiring_only = true /\ router_facts = true.
Proof. exact state_wiring_only. Qed.
Print Assumptions C17_state_wiring_only.

Theorem C17_router_frozen_after_seal : forall adds later r0 r1 r2,
  rrun r0 adds = Some r1 -> rstep r1 RSeal = Some r2 -> forall r3, rrun r2 later = Some r3 ->
  r_routes r3 = r_routes r1 /\ r_sealed r3 = true.
Proof. exact router_lifecycle. Qed.
Print Assumptions C17_router_frozen_after_seal.

Theorem C17_nonvacuous :
  power_diff_sum ex_b ex_c = 8000000000 /\
  fsum (fun z => z) (map snd (powers_of ex_b ex_c)) = fsum (fun z => z) (rev (map snd (powers_of ex_b ex_c))) /\
  all_batch_fees 2 [(7, (5, 100)); (7, (4, 50)); (7, (3, 10)); (2, (9, 1))] = [(2, (9, (1, 1))); (7, (9, (2, 150)))] /\
  isort fee_entry fst [(7, (9, (2, 150))); (2, (9, (1, 1)))] = isort fee_entry fst [(2, (9, (1, 1))); (7, (9, (2, 150)))] /\
  tally_validators (fun s b t => s * b / t) (fun p w => p * w / 100) tzero
     [mk_gov_val 100 10 50 [(1, 100)]; mk_gov_val 200 0 80 []; mk_gov_val 300 30 90 [(1, 60); (3, 40)]] =
  tally_validators (fun s b t => s * b / t) (fun p w => p * w / 100) tzero
     [mk_gov_val 300 30 90 [(1, 60); (3, 40)]; mk_gov_val 100 10 50 [(1, 100)]; mk_gov_val 200 0 80 []] /\
  t_total (tally_validators (fun s b t => s * b / t) (fun p w => p * w / 100) tzero
     [mk_gov_val 100 10 50 [(1, 100)]; mk_gov_val 200 0 80 []; mk_gov_val 300 30 90 [(1, 60); (3, 40)]]) = 126 /\
  (0 < Z.of_nat (length gen_sites)) /\ (20 <= gen_packages_checked).
Proof. exact perm_examples. Qed.
Print Assumptions C17_nonvacuous.
