(* Property C18: where fx-core deliberately continues after a failed sub-step (an observed event whose
   handler fails, an inbound bridge call whose contract call fails, a passed proposal whose message fails,
   an IBC packet whose follow-up fails) the state afterwards is exactly the designated outcome of that
   failure and contains nothing written by the failed sub-step. *)
From Coq Require Import ZArith List Bool.
From FxV Require Import model.M_Cache model.M_CacheShape proofs.P_Cache model.M_CacheWrites proofs.P_CacheWrites.
Import ListNotations.
Open Scope Z_scope.

(* tie to the sources (translator harness/gen_c18): position of every cache branch, which calls get the branch and
   which the outer context, under which test the branch is written — as transcribed in M_Cache.v; and: in every
   attestation handler each error return precedes the first store write (a failing handler has written nothing on this
   code), OutgoingTxBatchExecuted / SavePendingExecuteClaim can only panic *)
Theorem C18_source_shape : source_shapes_ok = true.
Proof. exact source_shapes. Qed.
Print Assumptions C18_source_shape.

(* observed event: ANY handler behaviour (any writes before the error) *)
Theorem C18_attestation_failed_handler :
  forall S (handler : S -> result S) mark_observed cleanup pre x',
  handler (mark_observed pre) = Err x' ->
  try_attestation S handler mark_observed cleanup pre = (att_designated S mark_observed cleanup pre, false).
Proof. exact att_failed_handler. Qed.
Print Assumptions C18_attestation_failed_handler.

(* the whole vote transaction (MsgClaim -> Attest): a handler ERROR is tolerated — vote recorded, event observed,
   nothing of the handler — …  *)
Theorem C18_attestation_vote_tx_error :
  forall S (handler : S -> result S) mark_observed cleanup hp record_vote finish_vote pre x,
  hp (mark_observed (record_vote pre)) = Some (Err x) ->
  claim_tx S mark_observed cleanup hp record_vote finish_vote pre =
  (finish_vote (att_designated S mark_observed cleanup (record_vote pre)), 1).
Proof. exact claim_tx_error. Qed.
Print Assumptions C18_attestation_vote_tx_error.

(* … a handler PANIC (unknown batch, oracle-set mismatch) is not: no branch catches it, the transaction fails, the state is
   exactly what it was — the vote is not recorded and the event is NOT marked observed *)
Theorem C18_attestation_panic_fails_vote :
  forall S mark_observed cleanup (hp : S -> option (result S)) record_vote finish_vote pre,
  hp (mark_observed (record_vote pre)) = None ->
  claim_tx S mark_observed cleanup hp record_vote finish_vote pre = (pre, 2).
Proof. exact claim_tx_panic. Qed.
Print Assumptions C18_attestation_panic_fails_vote.

(* a SendToFx claim forwarded over IBC is NOT a tolerated-failure boundary: deposit, conversion to the voucher and the transfer
   run on one context and every error is returned (source fact ok_sendtofx); so a transfer that fails AFTER the conversion
   wrote (closed channel, expired client) leaves nothing at all — no voucher, no burnt base coin — and the claim pending *)
Theorem C18_sendtofx_ibc_failure_keeps_nothing :
  forall S consume (deposit to_voucher transfer : S -> result S) s s1 s2 e,
  deposit (consume s) = Ok s1 -> to_voucher s1 = Ok s2 -> transfer s2 = Err e ->
  send_to_fx_ibc_tx S consume deposit to_voucher transfer s = (s, false).
Proof. exact stf_transfer_failure_keeps_nothing. Qed.
Print Assumptions C18_sendtofx_ibc_failure_keeps_nothing.

(* outgoing bridge calls coming back (BridgeCallResult claims): there is no tolerated failure — success deletes the record,
   failure refunds and deletes, and a refund that cannot be paid (or an unknown nonce) PANICS: the transaction keeps nothing *)
Theorem C18_bridgecall_result_outcomes :
  forall S (refund : Z -> S -> option S) del consume id s,
  result_tx S refund del consume id true true s = (del id (consume s), true) /\
  (forall s1, refund id (consume s) = Some s1 -> result_tx S refund del consume id true false s = (del id s1, true)) /\
  (forall found, found = false \/ refund id (consume s) = None -> result_tx S refund del consume id found false s = (s, false)).
Proof. exact result_outcomes. Qed.
Print Assumptions C18_bridgecall_result_outcomes.

(* the clean-up of timed-out outgoing calls runs INSIDE the vote transaction and its refunds can only panic.  Guarded
   statement: if every timed-out call can be refunded, a failed handler leaves the designated outcome plus the clean-up … *)
Theorem C18_attestation_failed_handler_with_cleanup :
  forall S (refund : Z -> S -> option S) del mark hp record finish timed_out pre x s3,
  hp (mark (record pre)) = Some (Err x) ->
  cleanup_calls S refund del (timed_out (mark (record pre))) (mark (record pre)) = Some s3 ->
  claim_tx_p S refund del mark hp record finish timed_out pre = (finish s3, 1).
Proof. exact claim_tx_p_payable. Qed.
Print Assumptions C18_attestation_failed_handler_with_cleanup.

(* … unguarded it is FALSE of the code as it is (finding C18-2): one timed-out call whose refund cannot be paid — at any
   position — fails the transaction; the event is not marked observed, tolerated handler failure or not *)
Theorem C18_attestation_unpayable_refund_refuted :
  exists (refund : Z -> Z -> option Z) del mark hp record finish timed_out pre,
    (exists x, hp (mark (record pre)) = Some (Err x)) /\
    claim_tx_p Z refund del mark hp record finish timed_out pre <> (finish (mark (record pre)), 1) /\
    claim_tx_p Z refund del mark hp record finish timed_out pre = (pre, 2).
Proof. exact claim_tx_p_refuted. Qed.
Print Assumptions C18_attestation_unpayable_refund_refuted.

Theorem C18_attestation_unpayable_refund_exact :
  forall S (refund : Z -> S -> option S) del mark hp record finish timed_out pre r ids1 i ids2 s1,
  hp (mark (record pre)) = Some r ->
  (let s2 := match r with Ok x => commit (mark (record pre)) x | Err x => discard (mark (record pre)) x end in
   timed_out s2 = ids1 ++ i :: ids2 /\ cleanup_calls S refund del ids1 s2 = Some s1 /\ refund i s1 = None) ->
  claim_tx_p S refund del mark hp record finish timed_out pre = (pre, 2).
Proof. exact claim_tx_p_unpayable_refund. Qed.
Print Assumptions C18_attestation_unpayable_refund_exact.

(* histories in the coarse model (a context is a value, sub-steps are functions): bookkeeping only — the content is in the
   write-level theorems at the end of this file *)
Theorem C18_history_coarse_model :
  forall S (xs : list (M_Cache.crossing S)) s,
  fold_left (fun st x => cross x st) xs s = fold_left (fun st x => M_Cache.designated x st) xs s.
Proof. exact @P_Cache.history_designated. Qed.
Print Assumptions C18_history_coarse_model.

(* proposal: failure of the message at ANY position, after any number of succeeding messages *)
Theorem C18_gov_failed_message_any_position :
  forall S (ms1 ms2 : list (S -> result S)) f pre_exec set_status pre s1 s',
  run_steps ms1 (pre_exec pre) = Ok s1 -> f s1 = Err s' ->
  gov_execute S (ms1 ++ f :: ms2) pre_exec set_status pre = (gov_designated S pre_exec set_status pre, false).
Proof. exact gov_failed_at. Qed.
Print Assumptions C18_gov_failed_message_any_position.

(* IBC packet: an error acknowledgement leaves only the core's own writes and the acknowledgement *)
Theorem C18_ibc_error_ack :
  forall S parse_ok transfer_recv hook tao write_ack pre,
  snd (mw_on_recv S parse_ok transfer_recv hook (tao pre)) = false ->
  core_recv S parse_ok transfer_recv hook tao write_ack pre = (recv_designated S tao write_ack pre, false).
Proof. exact recv_error_ack. Qed.
Print Assumptions C18_ibc_error_ack.

(* the receive transaction as a whole: a panic below the application callback (nothing recovers from it: C18_source_shape,
   fact ok_no_recover) fails the transaction and keeps nothing; otherwise the outcome is a success acknowledgement or an
   error acknowledgement with exactly the designated state *)
Theorem C18_ibc_recv_transaction_outcomes :
  forall S parse_ok transfer_recv hook tao write_ack pre,
  recv_tx S parse_ok transfer_recv hook tao write_ack true pre = (pre, 3) /\
  (let (s, cls) := recv_tx S parse_ok transfer_recv hook tao write_ack false pre in
   (cls = 1 \/ cls = 2) /\ (cls = 2 -> s = recv_designated S tao write_ack pre) /\
   (cls = 1 <-> snd (mw_on_recv S parse_ok transfer_recv hook (tao pre)) = true)).
Proof. exact recv_tx_outcomes. Qed.
Print Assumptions C18_ibc_recv_transaction_outcomes.

(* … and these are all the ways to get one: unparsable packet, the transfer module refuses, the follow-up
   (conversion to ERC-20 or memo call) fails after the transfer module has credited the receiver *)
Theorem C18_ibc_error_points :
  forall S parse_ok transfer_recv hook ctx,
  snd (mw_on_recv S parse_ok transfer_recv hook ctx) = false <->
  parse_ok = false \/
  (parse_ok = true /\ exists c, transfer_recv ctx = Err c) \/
  (parse_ok = true /\ exists c1 c2, transfer_recv ctx = Ok c1 /\ hook c1 = Err c2).
Proof. exact mw_error_points. Qed.
Print Assumptions C18_ibc_error_points.

(* inbound bridge call: nothing the failed inner step wrote survives (conversion of the first i coins, contract
   storage, …): the result is hand-over + refund run on the state right after the deposits *)
Theorem C18_bridgecall_inner_discarded :
  forall call m s s1 c,
  run_steps (map (deposit_one (receiver m)) (m_tokens m)) s = Ok s1 ->
  bridge_call_evm call m (base_coins (m_tokens m)) s1 = Err c ->
  bridge_call_handler call m s =
  bind (hand_over m (base_coins (m_tokens m)) s1) (failed_refund m (base_coins (m_tokens m))).
Proof. exact bch_inner_discarded. Qed.
Print Assumptions C18_bridgecall_inner_discarded.

(* the inner step can fail at any coin of the conversion loop … *)
Theorem C18_bridgecall_fail_at_any_coin :
  forall call m cs1 cs2 ta c0 c1 c',
  run_steps (map (to_evm_one (receiver m)) cs1) c0 = Ok c1 ->
  to_evm_one (receiver m) ta c1 = Err c' ->
  bridge_call_evm call m (cs1 ++ ta :: cs2) c0 = Err c'.
Proof. exact bce_fail_conversion. Qed.
Print Assumptions C18_bridgecall_fail_at_any_coin.

(* … or in the contract call (revert, invalid opcode, out of gas: any callee behaviour) *)
Theorem C18_bridgecall_fail_in_call :
  forall call m coins c0 c1 c',
  run_steps (map (to_evm_one (receiver m)) coins) c0 = Ok c1 ->
  m_to_is_contract m = true -> call c1 = Err c' ->
  bridge_call_evm call m coins c0 = Err c'.
Proof. exact bce_fail_call. Qed.
Print Assumptions C18_bridgecall_fail_in_call.

(* THE PROPERTY for the inbound bridge call, unguarded: for every callee (incl. the transfer of msg.Value), every claim
   (any tokens of any kind — module-owned pair, externally owned pair, the native coin FX — duplicates, any receiver / refund
   address) and every failure point of the inner step, the transaction succeeds and the state is exactly the designated
   outcome: claim consumed, one refund record for the deposited amounts, every balance of every holder (users, module
   accounts, supplies) as before, contract storage untouched *)
Theorem C18_bridgecall_designated :
  forall call m s c s1,
  0 <= receiver m -> 0 <= m_refund m ->
  (forall t, 0 <= bal s (receiver m, Base, t)) -> (forall t, 0 <= bal s (m_refund m, Base, t)) ->
  timeout_ok s = true -> pendingc s (m_nonce m) = true ->
  run_steps (map (deposit_one (receiver m)) (m_tokens m)) (del_pending s (m_nonce m)) = Ok s1 ->
  bridge_call_evm call m (base_coins (m_tokens m)) s1 = Err c ->
  exists s', execute_claim_tx call m s = (s', true) /\ bst_eq s' (bc_designated m s).
Proof. exact bch_designated. Qed.
Print Assumptions C18_bridgecall_designated.

(* a handler error (unknown token in the deposit loop) is not tolerated: the transaction keeps nothing at all *)
Theorem C18_bridgecall_error_reverts :
  forall call m s e, execute_claim call m s = Err e -> execute_claim_tx call m s = (s, false).
Proof. exact bch_failed_inner_err_reverts. Qed.
Print Assumptions C18_bridgecall_error_reverts.

(* regression, labelled: the handler as it was BEFORE the fix "a failed inbound bridge call refunds the coins that were
   actually deposited" (finding C18-1, snapshot 6774338) did not have this property *)
Theorem C18_bridgecall_prefix_variant_refuted :
  exists call m s post, execute_claim_tx_prefix call m s = (post, true) /\ ~ bst_eq post (bc_designated m s).
Proof. exact prefix_refuted. Qed.
Print Assumptions C18_bridgecall_prefix_variant_refuted.

Theorem C18_nonvacuous :
  (let (post, ok) := execute_claim_tx wit_call nv_msg wit_state_poor in
   ok = true /\ bal post (1, Base, 0) = 0 /\ bal post (1, Base, 1) = 0 /\ evmst post = 0 /\
   map oc_tokens (outcalls post) = [[(0, 10); (1, 7)]] /\ pendingc post 7 = false) /\
  (let (post, ok) := execute_claim_tx wit_call nv_msg2 wit_state_poor in
   ok = true /\ bal post (1, Base, 0) = 0 /\ bal post (2, Base, 1) = 0 /\ evmst post = 0 /\
   map oc_refund (outcalls post) = [2] /\ pendingc post 7 = false) /\
  (let s := {| bal := fun k => if key_eqb k (ModX, Base, -1) then 100 else if key_eqb k (ModX, Bridge, 5) then 100 else 0;
               registered := fun _ => true; enabled := fun _ => true;
               pendingc := fun n => n =? 7; outcalls := []; next_id := 1; timeout_ok := true; evmst := 0;
               tkind := fun t => if t =? 5 then 1 else if t =? -1 then 2 else 0 |} in
   let m := {| m_nonce := 7; m_sender := 3; m_refund := 2; m_to := 1; m_to_is_contract := true; m_sendcallto := false;
               m_tokens := [(5, 6); (-1, 4); (0, 10); (5, 1)] |} in
   let (post, ok) := execute_claim_tx wit_call m s in
   ok = true /\ bal post (ModX, Base, -1) = 100 /\ bal post (ModX, Bridge, 5) = 100 /\ bal post (1, Base, -1) = 0 /\
   bal post (2, Base, 5) = 0 /\ bal post (Supply, Base, 5) = 0 /\ evmst post = 0 /\
   map oc_tokens (outcalls post) = [[(-1, 4); (0, 10); (5, 7)]]) /\
  (let s := {| bal := fun _ => 0; registered := fun _ => true; enabled := fun t => t =? 0;
               pendingc := fun n => n =? 7; outcalls := []; next_id := 1; timeout_ok := true; evmst := 0;
               tkind := fun t => if t =? 5 then 1 else if t =? -1 then 2 else 0 |} in
   let (post, ok) := execute_claim_tx (fun c => Ok c) nv_msg2 s in
   ok = true /\ bal post (1, Erc, 0) = 0 /\ bal post (1, Base, 0) = 0 /\ length (outcalls post) = 1%nat) /\
  try_attestation Z (fun x => Err (x + 1)) (fun x => x + 10) (fun x => x) 0 = (10, false) /\
  gov_execute Z [(fun x => Ok (x + 1)); (fun x => Err (x + 1)); (fun x => Ok (x + 1))] (fun x => x + 10) (fun b x => if b then x + 100 else x + 200) 0 = (210, false) /\
  core_recv Z true (fun x => Ok (x + 1)) (fun x => Err (x + 1)) (fun x => x + 10) (fun b x => if b then x + 100 else x + 200) 0 = (210, false).
Proof. exact c18_nonvacuous. Qed.
Print Assumptions C18_nonvacuous.

(* ------------------------------------------------------------------------------------------------------------------ *)
(* THE WRITE LEVEL (model/M_CacheWrites.v).  A context is a stack of write buffers over the store; a sub-step is a list of
   store writes in source order, each computed from what its context can read at that moment; a failure point is a position
   in that list (error, or panic).  Nothing here is `discard outer cache := outer` by definition: that a dropped branch leaves
   the outer context alone, and that a written branch equals direct execution, are proved by induction over the write list
   (P_CacheWrites.writes_top, discard_after_writes, commit_after_writes). *)

(* every boundary crossing — any writes before the branch, any sub-step writes, failure (error or panic) after ANY number of them,
   clean-ups that may panic after any number of theirs — ends in the designated outcome, which is written from the pre-state
   only: after a tolerated error the residue and the common writes are computed on a view WITHOUT the sub-step's writes *)
Theorem C18_write_level_crossing :
  forall x pre, run_crossing x pre = M_CacheWrites.designated x pre.
Proof. exact crossing_designated. Qed.
Print Assumptions C18_write_level_crossing.

(* for every history over all boundaries (observed events with their clean-ups, claim executions — inbound bridge call,
   BridgeCallResult, SendToFx with an IBC target —, proposals, IBC packets; constructors x_attestation … x_ibc_recv) and every
   choice of failure points the store is the fold of the designated outcomes *)
Theorem C18_history_is_fold_of_designated_outcomes :
  forall xs s, run_history xs s = designated_history xs s.
Proof. exact P_CacheWrites.history_designated. Qed.
Print Assumptions C18_history_is_fold_of_designated_outcomes.

(* what a failed, tolerated crossing leaves does not depend on what the sub-step wrote or where it stopped *)
Theorem C18_failed_crossing_independent_of_substep :
  forall x pre n sub' n',
  x_branch x = true -> x_fail x = ErrAfter n ->
  let x' := {| x_pre := x_pre x; x_branch := true; x_sub := sub'; x_fail := ErrAfter n'; x_residue := x_residue x;
               x_success := x_success x; x_post := x_post x; x_post_fail := x_post_fail x |} in
  run_crossing x pre = run_crossing x' pre.
Proof. exact failed_crossing_independent_of_substep. Qed.
Print Assumptions C18_failed_crossing_independent_of_substep.

(* a panic (sub-step or clean-up, after any number of writes) and an error that is returned instead of tolerated keep nothing *)
Theorem C18_failed_transaction_keeps_nothing :
  forall x pre, snd (run_crossing x pre) = 2 -> fst (run_crossing x pre) = pre.
Proof. exact failed_transaction_keeps_nothing. Qed.
Print Assumptions C18_failed_transaction_keeps_nothing.

(* what the branch is there for, labelled variants that are NOT the code: with the sub-step on the transaction's own context
   ("branch removed"), or with the branch written before the error test, a sub-step that fails after a write leaves that
   write behind and the clean-ups see it *)
Theorem C18_branch_removed_refuted :
  (let x := x_attestation [w_const 1 1] [w_const 2 1] [w_const 5 7; w_const 6 7] (ErrAfter 1) [w_probe 5 9] NoFail [w_const 3 1] in
   fst (run_crossing_nobranch x []) <> fst (M_CacheWrites.designated x []) /\
   lookup (fst (run_crossing_nobranch x [])) 5 = Some 7 /\ lookup (fst (run_crossing_nobranch x [])) 9 = Some 1 /\
   lookup (fst (run_crossing x [])) 5 = None /\ lookup (fst (run_crossing x [])) 9 = Some 0) /\
  (let x := x_attestation [w_const 1 1] [w_const 2 1] [w_const 5 7; w_const 6 7] (ErrAfter 1) [w_probe 5 9] NoFail [w_const 3 1] in
   fst (run_crossing_commit_always x []) <> fst (M_CacheWrites.designated x [])).
Proof. exact (conj nobranch_refuted commit_always_refuted). Qed.
Print Assumptions C18_branch_removed_refuted.

(* … and only then.  A sub-step that stops before its first write — every attestation handler of this code when it returns an
   error (source fact ok_handlers of C18_source_shape) — runs the same with and without the branch: on such code NO execution can
   show whether the branch at attestation.go (processAttestation) is there; that it is there is the source fact
   ok_processAttestation, and the theorems above say what it buys as soon as a handler writes before failing *)
Theorem C18_branch_unobservable_when_nothing_written :
  forall x pre,
  x_branch x = true -> done_writes (x_sub x) (x_fail x) = [] -> x_fail x <> NoFail ->
  run_crossing_nobranch x pre = run_crossing x pre.
Proof. exact nobranch_same_when_nothing_written. Qed.
Print Assumptions C18_branch_unobservable_when_nothing_written.

Theorem C18_write_level_nonvacuous :
  let h := [ x_attestation [w_const 1 1] [w_const 2 1] [w_const 5 7; w_const 6 7] (ErrAfter 1) [w_probe 5 9] NoFail [w_const 3 1];
             x_bridge_call [w_const 10 0] [w_const 11 50; w_const 12 60] [w_const 13 50; w_const 14 1] (ErrAfter 2) [w_const 15 50] [w_probe 13 16];
             x_bridge_call_result [w_const 20 0] [w_const 21 1; w_const 22 1] (PanicAfter 1);
             x_send_to_fx_ibc [w_const 30 0] [w_const 31 1; w_const 32 1; w_const 33 1] (ErrAfter 2);
             x_gov [w_const 40 1] [w_const 41 1; w_const 42 1; w_const 43 1] (ErrAfter 2) [w_probe 41 44] [w_const 45 1];
             x_ibc_recv [w_const 50 1] [w_const 51 1; w_const 52 1] (ErrAfter 2) [w_probe 51 53] [w_const 54 1];
             x_attestation [w_const 1 2] [w_const 2 2] [w_const 5 8] NoFail [w_const 60 1; w_const 61 1] (PanicAfter 1) [w_const 3 2] ] in
  let s := run_history h [] in
  lookup s 5 = None /\ lookup s 9 = Some 0 /\ lookup s 2 = Some 1 /\ lookup s 3 = Some 1 /\
  lookup s 11 = Some 50 /\ lookup s 13 = None /\ lookup s 15 = Some 50 /\ lookup s 16 = Some 0 /\
  lookup s 20 = None /\ lookup s 21 = None /\ lookup s 30 = None /\ lookup s 31 = None /\
  lookup s 40 = Some 1 /\ lookup s 41 = None /\ lookup s 44 = Some 0 /\ lookup s 45 = None /\
  lookup s 50 = Some 1 /\ lookup s 51 = None /\ lookup s 53 = Some 0 /\ lookup s 54 = None /\
  lookup s 60 = None /\ lookup s 1 = Some 1.
Proof. exact writes_nonvacuous. Qed.
Print Assumptions C18_write_level_nonvacuous.
