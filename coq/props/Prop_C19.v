(* Property C19: an inbound IBC transfer addressed to a hex account credits exactly the sent amount, as ERC-20, to
   that account, or credits nothing and returns an error acknowledgement; a memo call runs with a sender derived
   from channel and original sender so that nobody can impersonate a local account.  An outbound transfer started
   from the EVM is refunded to its sender in ERC-20 form exactly once when it times out or is rejected, and its
   tracking record is removed on success, failure and timeout alike. *)
From Coq Require Import ZArith List Bool.
From FxV Require Import model.M_Cache model.M_CacheShape model.M_Ibc proofs.P_Cache proofs.P_Ibc.
Import ListNotations.
Open Scope Z_scope.

(* tie to the sources (translator harness/gen_c18): middleware receive / ack / timeout call order, the keeper hook, which
   relation key each path deletes (the IBC one, also on success), ibc-go's RecvPacket cache rule — as transcribed in M_Ibc.v *)
Theorem C19_source_shape : source_shapes_ok = true.
Proof. exact source_shapes. Qed.
Print Assumptions C19_source_shape.

(* error acknowledgement => the state is exactly what it was *)
Theorem C19_recv_error_credits_nothing :
  forall isender p s s', recv isender p s = (s', false) -> s' = s.
Proof. exact recv_error_nothing. Qed.
Print Assumptions C19_recv_error_credits_nothing.

(* success for a token other than the native coin => hex receiver, the coin is either a voucher that is the coin of pair t
   or the base coin of bridged token t come home out of escrow, and among ALL of the receiver's balances exactly one
   changed: + amount of that pair's ERC-20 *)
Theorem C19_recv_hex_credits_exactly_as_erc20 :
  forall isender p s s',
  recv isender p s = (s', true) -> ip_denom p <> DFx -> 0 <= ip_recv p -> 0 <= ip_dst p -> memo_untouched isender p ->
  exists t, (ip_denom p = DOwn t \/ ip_denom p = DBase t) /\ ip_hex p = true /\ ip_addr_ok p = true /\ 0 < ip_amt p /\
    ibal s' (ip_recv p, AErc, t) = ibal s (ip_recv p, AErc, t) + ip_amt p /\
    (forall k a, (k, a) <> (AErc, t) -> ibal s' (ip_recv p, k, a) = ibal s (ip_recv p, k, a)).
Proof. exact recv_success_erc20. Qed.
Print Assumptions C19_recv_hex_credits_exactly_as_erc20.

(* the receive-side rule as a table over (denom class, receiver class) — recv_rule_of — and what success means per cell *)
Theorem C19_recv_rule_table :
  forall isender p s s',
  recv isender p s = (s', true) -> 0 <= ip_recv p -> 0 <= ip_dst p -> memo_untouched isender p ->
  match recv_rule_of (ip_denom p) (ip_hex p) with
  | RKeepNative => ibal s' (ip_recv p, AFx, 0) = ibal s (ip_recv p, AFx, 0) + ip_amt p /\
                   (forall k a, (k, a) <> (AFx, 0) -> ibal s' (ip_recv p, k, a) = ibal s (ip_recv p, k, a))
  | RPairOfVoucher t | RPairOfBase t => credited_erc20 p s s' t
  | RRefuse | RNoPair => False
  end.
Proof. exact recv_rule_table. Qed.
Print Assumptions C19_recv_rule_table.

(* reading of "as ERC-20": the native coin arriving over IBC stays the native (EVM) balance — exactly the amount *)
Theorem C19_recv_native_fx_credits_exactly :
  forall isender p s s',
  recv isender p s = (s', true) -> ip_denom p = DFx -> 0 <= ip_recv p -> 0 <= ip_dst p -> memo_untouched isender p ->
  0 < ip_amt p /\ ibal s' (ip_recv p, AFx, 0) = ibal s (ip_recv p, AFx, 0) + ip_amt p /\
  (forall k a, (k, a) <> (AFx, 0) -> ibal s' (ip_recv p, k, a) = ibal s (ip_recv p, k, a)).
Proof. exact recv_success_fx. Qed.
Print Assumptions C19_recv_native_fx_credits_exactly.

(* (memo_untouched: the memo carries no value, or the receiver is neither the derived sender nor the callee — only then could the
   memo call itself move the receiver's coins) *)

(* a receiver the bank refuses to credit (module account, blocked address) is refused for every coin: error acknowledgement,
   nothing changes *)
Theorem C19_recv_blocked_receiver_refused :
  forall isender p s s' ok, recv isender p s = (s', ok) -> ip_recv p = BlockedAddr -> ok = false /\ s' = s.
Proof. exact recv_blocked_refused. Qed.
Print Assumptions C19_recv_blocked_receiver_refused.

(* a memo call with value runs only if the derived sender has an account and holds the value; it is the derived sender that
   pays the callee *)
Theorem C19_memo_value_paid_by_derived_sender :
  forall isender p s1 c2 f v,
  ip_memo p = MemoCall f v -> memo_step isender p s1 = Ok c2 ->
  let from := isender (ip_src p) (ip_sender p) in
  has_acct s1 from = true /\ v <= ibal s1 (from, AFx, 0) /\ f = false /\
  forall k, ibal c2 k = ladd (ladd (ibal s1) (from, AFx, 0) (- v)) (Callee, AFx, 0) v k.
Proof. exact memo_value_paid_by_derived_sender. Qed.
Print Assumptions C19_memo_value_paid_by_derived_sender.

Theorem C19_recv_bech32_nonnative_refused :
  forall isender p s s' ok, recv isender p s = (s', ok) -> ip_denom p <> DFx -> ip_hex p = false -> ok = false.
Proof. exact recv_bech32_refused. Qed.
Print Assumptions C19_recv_bech32_nonnative_refused.

(* over ALL operation lists (sends, packets, acks, timeouts, duplicated and replayed deliveries, pair toggles, any
   number of channels): per (channel, sequence) the ERC-20 re-conversion happens at most once, and only for a
   transfer that started from the EVM *)
Theorem C19_refund_once :
  forall isender s0 ops c q,
  rel s0 = [] -> ilog s0 = [] ->
  let s := run isender ops s0 in
  (count (is_reconv c q) (ilog s) <= 1)%nat /\
  ((0 < count (is_reconv c q) (ilog s))%nat -> count (is_sendevm c q) (ilog s) = 1%nat).
Proof. exact refund_once_fresh. Qed.
Print Assumptions C19_refund_once.

(* THE REFUND CLAUSE over histories.  Any history ops1 from a state satisfying the invariant (e.g. a fresh one); an EVM-started
   transfer of n of token t by a over channel c is accepted and gets sequence q; then any operations ops2 that are not a
   delivery of (c, q) itself (by the core or replayed) and not a genesis export / import (finding C19-2); at its time-out or
   failure acknowledgement, under the guards (conversion enabled — C19_refund_refused_while_conversion_disabled otherwise —,
   no voucher metadata, the bank invariant "balances are not negative" for the four accounts the refund passes through):
     - the send took exactly n of a's ERC-20, the refund gives exactly n back, every other balance of a is as before the refund;
     - record and commitment are gone;
     - after ANY further operations ops3 (replays, duplicates, toggles, export / import …) the number of re-conversions of
       (c, q) is exactly one and the record never comes back: no second refund. *)
Theorem C19_refund_exact_over_histories :
  forall isender s0 ops1 c a t n s2 ops2 o ops3,
  inv s0 ->
  let s1 := run isender ops1 s0 in
  let q := nextseq s1 c in
  send_from_evm c a (DAlias t) n s1 = Ok s2 -> 0 <= a -> 0 <= c ->
  forallb (quiet c q) ops2 = true ->
  let s3 := run isender ops2 s2 in
  refund_guards s3 a c t n ->
  o = Timeout c q \/ o = Ack c q false ->
  let s4 := step isender s3 o in
  let s5 := run isender ops3 s4 in
  ibal s2 (a, AErc, t) = ibal s1 (a, AErc, t) - n /\
  ibal s4 (a, AErc, t) = ibal s3 (a, AErc, t) + n /\
  (forall k x, (k, x) <> (AErc, t) -> ibal s4 (a, k, x) = ibal s3 (a, k, x)) /\
  in_rel (rel s4) c q = false /\ find_pk (commits s4) c q = None /\
  count (is_reconv c q) (ilog s5) = 1%nat /\ in_rel (rel s5) c q = false.
Proof. exact refund_exact_over_histories. Qed.
Print Assumptions C19_refund_exact_over_histories.

(* the bank invariant (no balance the model tracks is negative, the supply counters aside; every packet ever sent carries a
   positive amount) holds in a fresh state and is preserved by EVERY operation *)
Theorem C19_bank_invariant_preserved :
  forall isender ops s, inv2 s -> inv2 (run isender ops s).
Proof. exact inv2_run. Qed.
Print Assumptions C19_bank_invariant_preserved.

(* the refund clause with the non-negativity premises DISCHARGED from reachability (inv2 s0).  The guards that remain
   (refund_guards2): conversion enabled; no voucher metadata — the named guard of finding C19-2's companion effect; and, only
   for a transfer routed by the prefix rule over a channel that is not the token's own (c <> t), the escrow of c still holds
   the voucher — kept as a premise: nothing but this packet's refund and plain refunds of other prefix-routed packets take
   vouchers out of that escrow, which is not proved here *)
Theorem C19_refund_exact_reachable :
  forall isender s0 ops1 c a t n s2 ops2 o ops3,
  inv s0 -> inv2 s0 ->
  let s1 := run isender ops1 s0 in
  let q := nextseq s1 c in
  send_from_evm c a (DAlias t) n s1 = Ok s2 -> 0 <= a -> 0 <= c ->
  forallb (quiet c q) ops2 = true ->
  let s3 := run isender ops2 s2 in
  refund_guards2 s3 c t n ->
  o = Timeout c q \/ o = Ack c q false ->
  let s4 := step isender s3 o in
  let s5 := run isender ops3 s4 in
  ibal s2 (a, AErc, t) = ibal s1 (a, AErc, t) - n /\
  ibal s4 (a, AErc, t) = ibal s3 (a, AErc, t) + n /\
  (forall k x, (k, x) <> (AErc, t) -> ibal s4 (a, k, x) = ibal s3 (a, k, x)) /\
  in_rel (rel s4) c q = false /\ find_pk (commits s4) c q = None /\
  count (is_reconv c q) (ilog s5) = 1%nat /\ in_rel (rel s5) c q = false.
Proof. exact refund_exact_reachable. Qed.
Print Assumptions C19_refund_exact_reachable.

(* non-vacuity of the universal theorem: a concrete history — inbound FX, an EVM send of 30 (sequence 1), then unrelated traffic
   (an inbound voucher with a memo call, a second EVM send that times out, a toggle of another pair, a plain send, a replayed
   acknowledgement of the other packet), the timeout of sequence 1, then replays, a duplicate and an export / import — satisfies
   EVERY premise; the numbers: 500 -> 470 -> 470 -> 500 ERC-20, one re-conversion, still 500 after the tail *)
Theorem C19_refund_exact_nonvacuous :
  let s1 := run ex_isender nv_ops1 ex_state in
  let s2 := step ex_isender s1 (SendFromEvm 0 0 (DAlias 0) 30) in
    inv ex_state /\ inv2 ex_state /\
    send_from_evm 0 0 (DAlias 0) 30 s1 = Ok s2 /\ nextseq s1 0 = 1 /\
    forallb (quiet 0 1) nv_ops2 = true /\
    refund_guards2 (run ex_isender nv_ops2 s2) 0 0 30 /\
    let s3 := run ex_isender nv_ops2 s2 in
    let s4 := step ex_isender s3 (Timeout 0 1) in
    let s5 := run ex_isender nv_ops3 s4 in
    ibal s1 (0, AErc, 0) = 500 /\ ibal s2 (0, AErc, 0) = 470 /\ ibal s3 (0, AErc, 0) = 470 /\ ibal s4 (0, AErc, 0) = 500 /\
    ibal s3 (2, AErc, 10) = 25 /\ length (commits s3) = 2%nat /\
    in_rel (rel s4) 0 1 = false /\ find_pk (commits s4) 0 1 = None /\ length (commits s4) = 1%nat /\
    count (is_reconv 0 1) (ilog s5) = 1%nat /\ ibal s5 (0, AErc, 0) = 500.
Proof. exact refund_exact_nonvacuous. Qed.
Print Assumptions C19_refund_exact_nonvacuous.

(* the same at one state: a recorded transfer in flight, the guards => the delivery pays exactly *)
Theorem C19_refund_exact :
  forall isender s c q a t n,
  let pk := {| p_chan := c; p_seq := q; p_sender := a; p_denom := DAlias t; p_amt := n |} in
  inflight s c q pk -> 0 < n -> 0 <= a -> 0 <= c -> refund_guards s a c t n ->
  forall o, o = Timeout c q \/ o = Ack c q false ->
  let s' := step isender s o in
  ibal s' (a, AErc, t) = ibal s (a, AErc, t) + n /\
  (forall k x, (k, x) <> (AErc, t) -> ibal s' (a, k, x) = ibal s (a, k, x)) /\
  in_rel (rel s') c q = false /\ find_pk (commits s') c q = None /\
  ilog s' = ilog s ++ [EvReconv c q a t n].
Proof. exact delivery_exact. Qed.
Print Assumptions C19_refund_exact.

(* deliveries by the core, without an escape clause.  No commitment: nothing happens.  With one: a success acknowledgement always
   goes through; a failure acknowledgement and a timeout are the same callback (the refund) and go through exactly when the
   refund does — if it is refused (conversion switched off, …) the transaction fails, the state is EXACTLY as before and the
   delivery can be repeated.  Whenever a delivery goes through, record and commitment of (channel, sequence) are gone. *)
Theorem C19_record_removed_on_success_failure_timeout :
  forall c q s,
  let s0 := core_deliver (fun pk => on_ack pk true) c q s in
  let s1 := core_deliver (fun pk => on_ack pk false) c q s in
  let s2 := core_deliver on_timeout c q s in
  match find_pk (commits s) c q with
  | None => s0 = s /\ s1 = s /\ s2 = s
  | Some pk =>
      (in_rel (rel s0) c q = false /\ find_pk (commits s0) c q = None) /\
      s1 = s2 /\
      match refund pk (with_commits s (del_pk (commits s) c q)) with
      | Ok x => s2 = x /\ in_rel (rel s2) c q = false /\ find_pk (commits s2) c q = None
      | Err _ => s2 = s
      end
  end.
Proof. exact delivery_outcomes. Qed.
Print Assumptions C19_record_removed_on_success_failure_timeout.

(* a success acknowledgement for a packet in flight never fails: record and commitment are gone, no balance moves *)
Theorem C19_success_ack_processed :
  forall c q s pk,
  find_pk (commits s) c q = Some pk ->
  let s0 := core_deliver (fun pk => on_ack pk true) c q s in
  in_rel (rel s0) c q = false /\ find_pk (commits s0) c q = None /\ ibal s0 = ibal s /\ ilog s0 = ilog s.
Proof. exact success_ack_processed. Qed.
Print Assumptions C19_success_ack_processed.

(* conversion switched off by governance (EnableErc20, or the pair) while an EVM-started transfer is refunded: the
   timeout / failure acknowledgement is refused as a whole — record, commitment and balances stay, retry possible later *)
Theorem C19_refund_refused_while_conversion_disabled :
  forall c q s pk t,
  find_pk (commits s) c q = Some pk -> p_denom pk = DAlias t -> in_rel (rel s) c q = true ->
  pair_on s Erc20Switch && pair_on s t = false ->
  core_deliver on_timeout c q s = s /\ core_deliver (fun pk => on_ack pk false) c q s = s.
Proof. exact delivery_refused_while_disabled. Qed.
Print Assumptions C19_refund_refused_while_conversion_disabled.

(* regression, labelled: the success path as it was BEFORE the fix "AfterIBCAckSuccess deletes the IBC transfer
   relation" (finding C19-1, snapshot 6774338) kept the record *)
Theorem C19_prefix_variant_kept_record_on_success :
  exists pk s s', in_rel (rel s) (p_chan pk) (p_seq pk) = true /\ on_ack_prefix pk true s = Ok s' /\
                  in_rel (rel s') (p_chan pk) (p_seq pk) = true.
Proof. exact prefix_record_kept_on_success. Qed.
Print Assumptions C19_prefix_variant_kept_record_on_success.

(* genesis export / import (operation ExportImport of the histories; every theorem above that speaks of "all operation
   lists" includes it): what survives and what does not, for every state *)
Theorem C19_export_import_state :
  forall isender s,
  let s' := step isender s ExportImport in
  ibal s' = ibal s /\ commits s' = commits s /\ sent s' = sent s /\ nextseq s' = nextseq s /\ ilog s' = ilog s /\
  rel s' = [] /\ pair_on s' VoucherMeta = true /\ (forall t, t <> VoucherMeta -> pair_on s' t = pair_on s t).
Proof. exact export_import_state. Qed.
Print Assumptions C19_export_import_state.

(* FINDING C19-2 (open), labelled: the same EVM-started transfer and the same timeout, without and with a genesis
   export / import in between — without: re-converted to ERC-20 once; with: commitment consumed, nothing re-converted,
   the sender is left with voucher coins *)
Theorem C19_export_import_loses_record :
  (let s := run ex_isender [SendFromEvm 0 0 (DAlias 0) 30; Timeout 0 1] ex_state in
   commits s = [] /\ count (is_reconv 0 1) (ilog s) = 1%nat /\ ibal s (0, AErc, 0) = 500) /\
  (let s := run ex_isender [SendFromEvm 0 0 (DAlias 0) 30; ExportImport; Timeout 0 1] ex_state in
   commits s = [] /\ count (is_sendevm 0 1) (ilog s) = 1%nat /\ count (is_reconv 0 1) (ilog s) = 0%nat /\
   ibal s (0, AErc, 0) = 470 /\ ibal s (0, ACoin, 0) = 0 /\ ibal s (0, AVoucher, 0) = 30).
Proof. exact export_import_loses_record. Qed.
Print Assumptions C19_export_import_loses_record.

(* after a genesis import the voucher denoms have bank metadata of their own (ibc-go transfer InitGenesis): the refund of an
   Alias-token transfer that has a tracking record can then only fail *)
Theorem C19_alias_refund_refused_with_voucher_metadata :
  forall pk s t,
  p_denom pk = DAlias t -> in_rel (rel s) (p_chan pk) (p_seq pk) = true -> pair_on s VoucherMeta = true ->
  exists e, refund pk s = Err e.
Proof. exact alias_refund_refused_with_voucher_metadata. Qed.
Print Assumptions C19_alias_refund_refused_with_voucher_metadata.

(* memo calls.  What the code guarantees is the DERIVATION: the EVM sender of a memo call is
     IntermediateSender(port, source channel, sender string) = last 20 bytes of sha256(sha256("port/channel") || sender)
   (C19_memo_call_sender_is_derived below: a function of the packet's source channel and sender string only — not of the receiver,
   the memo, the amount —, for succeeding and failing calls alike).  That such an address is never a key-controlled or module
   account is NOT provable from the code: it is the usual assumption on the hash (a collision between a sha256-derived address
   and a keccak-of-public-key / module-name-derived one).  It is the HYPOTHESIS `forall c sd, is_local (isender c sd) = false` of
   the two theorems below — they are conditional statements and named so; the harness re-computes the derivation independently
   and checks every derived address it meets against all accounts with a key, code or module name.
   Under the hypothesis no call ever runs as a local account, over all operation lists … *)
Theorem C19_no_impersonation_under_hash_disjointness :
  forall (isender : Z -> Z -> Z) (is_local : Z -> bool),
  (forall c sd, is_local (isender c sd) = false) ->
  forall ops s a, In (EvCall a) (ilog (run isender ops s)) -> ~ In (EvCall a) (ilog s) -> is_local a = false.
Proof. exact no_impersonation. Qed.
Print Assumptions C19_no_impersonation_under_hash_disjointness.

(* … including calls that fail and whose packet is then refused *)
Theorem C19_no_impersonation_failing_calls_under_hash_disjointness :
  forall (isender : Z -> Z -> Z) (is_local : Z -> bool),
  (forall c sd, is_local (isender c sd) = false) ->
  forall p s a, In (EvCall a) (ilog (written (hook_recv isender p s))) -> ~ In (EvCall a) (ilog s) -> is_local a = false.
Proof. exact no_impersonation_failing_calls. Qed.
Print Assumptions C19_no_impersonation_failing_calls_under_hash_disjointness.

(* the sender of a memo call is the one derived from the packet's source channel and original sender *)
Theorem C19_memo_call_sender_is_derived :
  forall isender p s a,
  In (EvCall a) (ilog (written (hook_recv isender p s))) ->
  In (EvCall a) (ilog s) \/ a = isender (ip_src p) (ip_sender p).
Proof. exact hook_call_sender. Qed.
Print Assumptions C19_memo_call_sender_is_derived.

Theorem C19_nonvacuous :
  (let s := run ex_isender [SendFromEvm 0 0 (DAlias 0) 30; Ack 0 1 true; AckRaw 0 1 false] ex_state in
   ibal s (0, AErc, 0) = 470 /\ rel s = [] /\ commits s = [] /\ count (is_reconv 0 1) (ilog s) = 0%nat /\ ibal s (0, ACoin, 0) = 30) /\
  (let s := run ex_isender [SendFromEvm 0 0 (DAlias 0) 30; Timeout 0 1; TimeoutRaw 0 1; AckRaw 0 1 false] ex_state in
   ibal s (0, AErc, 0) = 500 /\ rel s = [] /\ count (is_reconv 0 1) (ilog s) = 1%nat /\ ibal s (0, ACoin, 0) = 60) /\
  (let p := {| ip_src := 7; ip_dst := 0; ip_sender := 0; ip_denom := DOwn 10; ip_amt := 25; ip_addr_ok := true; ip_hex := true; ip_recv := 2; ip_memo := MemoCall false 0 |} in
   let (s, ok) := recv ex_isender p ex_state in
   ok = true /\ ibal s (2, AErc, 10) = 25 /\ ibal s (2, ACoin, 10) = 0 /\ ilog s = [EvCredit 2 10 25; EvCall 1700]) /\
  (let p := {| ip_src := 7; ip_dst := 0; ip_sender := 0; ip_denom := DOwn 10; ip_amt := 25; ip_addr_ok := true; ip_hex := true; ip_recv := 2; ip_memo := MemoCall true 0 |} in
   snd (recv ex_isender p ex_state) = false) /\
  (let p := {| ip_src := 7; ip_dst := 0; ip_sender := 0; ip_denom := DAlias 0; ip_amt := 25; ip_addr_ok := true; ip_hex := true; ip_recv := 2; ip_memo := NoMemo |} in
   snd (recv ex_isender p ex_state) = false) /\
  (let p := {| ip_src := 7; ip_dst := 0; ip_sender := 0; ip_denom := DFx; ip_amt := 20; ip_addr_ok := true; ip_hex := false; ip_recv := 2; ip_memo := NoMemo |} in
   let (s, ok) := recv ex_isender p ex_state in ok = true /\ ibal s (2, AFx, 0) = 20).
Proof. exact c19_nonvacuous. Qed.
Print Assumptions C19_nonvacuous.
