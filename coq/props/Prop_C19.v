(* Property C19: an inbound IBC transfer addressed to a hex account credits exactly the sent amount, as ERC-20, to
   that account, or credits nothing and returns an error acknowledgement; a memo call runs with a sender derived
   from channel and original sender so that nobody can impersonate a local account.  An outbound transfer started
   from the EVM is refunded to its sender in ERC-20 form exactly once when it times out or is rejected, and its
   tracking record is removed on success, failure and timeout alike. *)
From Coq Require Import ZArith List Bool.
From FxV Require Import model.M_Cache model.M_CacheShape model.M_Ibc proofs.P_Cache proofs.P_Ibc.
Import ListNotations.
Open Scope Z_scope.

(* tie to the sources (translator harness/gen_c18): middleware receive / ack / timeout call order, the keeper hook, which
   relation key each path deletes, ibc-go's RecvPacket cache rule — as transcribed in M_Ibc.v *)
Theorem C19_source_shape : source_shapes_ok = true.
Proof. exact source_shapes. Qed.
Print Assumptions C19_source_shape.

(* error acknowledgement => the state is exactly what it was *)
Theorem C19_recv_error_credits_nothing :
  forall isender p s s', recv isender p s = (s', false) -> s' = s.
Proof. exact recv_error_nothing. Qed.
Print Assumptions C19_recv_error_credits_nothing.

(* success for a token other than the native coin => hex receiver, and among ALL of the receiver's balances exactly
   one changed: + amount of the pair's ERC-20 *)
Theorem C19_recv_hex_credits_exactly_as_erc20 :
  forall isender p s s',
  recv isender p s = (s', true) -> ip_denom p <> DFx -> 0 <= ip_recv p ->
  exists t, ip_denom p = DOwn t /\ ip_hex p = true /\ ip_addr_ok p = true /\ 0 < ip_amt p /\
    ibal s' (ip_recv p, AErc, t) = ibal s (ip_recv p, AErc, t) + ip_amt p /\
    (forall k a, (k, a) <> (AErc, t) -> ibal s' (ip_recv p, k, a) = ibal s (ip_recv p, k, a)).
Proof. exact recv_success_erc20. Qed.
Print Assumptions C19_recv_hex_credits_exactly_as_erc20.

(* reading of "as ERC-20": the native coin arriving over IBC stays the native (EVM) balance — exactly the amount *)
Theorem C19_recv_native_fx_credits_exactly :
  forall isender p s s',
  recv isender p s = (s', true) -> ip_denom p = DFx -> 0 <= ip_recv p -> 0 <= ip_dst p ->
  0 < ip_amt p /\ ibal s' (ip_recv p, AFx, 0) = ibal s (ip_recv p, AFx, 0) + ip_amt p /\
  (forall k a, (k, a) <> (AFx, 0) -> ibal s' (ip_recv p, k, a) = ibal s (ip_recv p, k, a)).
Proof. exact recv_success_fx. Qed.
Print Assumptions C19_recv_native_fx_credits_exactly.

Theorem C19_recv_bech32_nonnative_refused :
  forall isender p s s' ok, recv isender p s = (s', ok) -> ip_denom p <> DFx -> ip_hex p = false -> ok = false.
Proof. exact recv_bech32_refused. Qed.
Print Assumptions C19_recv_bech32_nonnative_refused.

(* over ALL operation lists (sends, packets, acks, timeouts, duplicated and replayed deliveries, pair toggles, any
   number of channels): per (channel, sequence) the ERC-20 re-conversion happens at most once, and only for a
   transfer that started from the EVM *)
Theorem C19_refund_once :
  forall isender s0 ops c q,
  rel s0 = [] -> ilog s0 = [] ->
  let s := run isender ops s0 in
  (count (is_reconv c q) (ilog s) <= 1)%nat /\
  ((0 < count (is_reconv c q) (ilog s))%nat -> count (is_sendevm c q) (ilog s) = 1%nat).
Proof. exact refund_once_fresh. Qed.
Print Assumptions C19_refund_once.

(* a processed failure acknowledgement / timeout leaves no tracking record (a delivery that fails changes nothing) *)
Theorem C19_record_removed_on_failure_and_timeout :
  forall c q s,
  let s1 := core_deliver (fun pk => on_ack pk false) c q s in
  let s2 := core_deliver on_timeout c q s in
  (s1 = s \/ in_rel (rel s1) c q = false) /\ (s2 = s \/ in_rel (rel s2) c q = false).
Proof. exact failure_or_timeout_removes. Qed.
Print Assumptions C19_record_removed_on_failure_and_timeout.

(* "removed on success" is FALSE of the code as it is … *)
Theorem C19_record_kept_on_success_refuted :
  exists isender s0 ops c q,
    rel s0 = [] /\ ilog s0 = [] /\
    count (is_sendevm c q) (ilog (run isender ops s0)) = 1%nat /\
    find_pk (commits (run isender ops s0)) c q = None /\
    in_rel (rel (run isender ops s0)) c q = true.
Proof. exact record_kept_on_success_refuted. Qed.
Print Assumptions C19_record_kept_on_success_refuted.

(* … what holds instead: a success acknowledgement leaves the relation set exactly as it was *)
Theorem C19_success_ack_leaves_relation_untouched :
  forall c q s, rel (core_deliver (fun pk => on_ack pk true) c q s) = rel s.
Proof. exact success_keeps_relation. Qed.
Print Assumptions C19_success_ack_leaves_relation_untouched.

(* memo calls: under the stated disjointness (derived senders are not local accounts) no call ever runs as a local
   account, over all operation lists … *)
Theorem C19_no_impersonation :
  forall (isender : Z -> Z -> Z) (is_local : Z -> bool),
  (forall c sd, is_local (isender c sd) = false) ->
  forall ops s a, In (EvCall a) (ilog (run isender ops s)) -> ~ In (EvCall a) (ilog s) -> is_local a = false.
Proof. exact no_impersonation. Qed.
Print Assumptions C19_no_impersonation.

(* … including calls that fail and whose packet is then refused *)
Theorem C19_no_impersonation_failing_calls :
  forall (isender : Z -> Z -> Z) (is_local : Z -> bool),
  (forall c sd, is_local (isender c sd) = false) ->
  forall p s a, In (EvCall a) (ilog (written (hook_recv isender p s))) -> ~ In (EvCall a) (ilog s) -> is_local a = false.
Proof. exact no_impersonation_failing_calls. Qed.
Print Assumptions C19_no_impersonation_failing_calls.

(* the sender of a memo call is the one derived from the packet's source channel and original sender *)
Theorem C19_memo_call_sender_is_derived :
  forall isender p s a,
  In (EvCall a) (ilog (written (hook_recv isender p s))) ->
  In (EvCall a) (ilog s) \/ a = isender (ip_src p) (ip_sender p).
Proof. exact hook_call_sender. Qed.
Print Assumptions C19_memo_call_sender_is_derived.

Theorem C19_nonvacuous :
  (let s := run ex_isender [SendFromEvm 0 0 (DAlias 0) 30; Timeout 0 1; TimeoutRaw 0 1; AckRaw 0 1 false] ex_state in
   ibal s (0, AErc, 0) = 500 /\ rel s = [] /\ count (is_reconv 0 1) (ilog s) = 1%nat /\ ibal s (0, ACoin, 0) = 60) /\
  (let p := {| ip_src := 7; ip_dst := 0; ip_sender := 0; ip_denom := DOwn 10; ip_amt := 25; ip_addr_ok := true; ip_hex := true; ip_recv := 2; ip_memo := MemoCall false |} in
   let (s, ok) := recv ex_isender p ex_state in
   ok = true /\ ibal s (2, AErc, 10) = 25 /\ ibal s (2, ACoin, 10) = 0 /\ ilog s = [EvCredit 2 10 25; EvCall 1700]) /\
  (let p := {| ip_src := 7; ip_dst := 0; ip_sender := 0; ip_denom := DOwn 10; ip_amt := 25; ip_addr_ok := true; ip_hex := true; ip_recv := 2; ip_memo := MemoCall true |} in
   snd (recv ex_isender p ex_state) = false) /\
  (let p := {| ip_src := 7; ip_dst := 0; ip_sender := 0; ip_denom := DAlias 0; ip_amt := 25; ip_addr_ok := true; ip_hex := true; ip_recv := 2; ip_memo := NoMemo |} in
   snd (recv ex_isender p ex_state) = false) /\
  (let p := {| ip_src := 7; ip_dst := 0; ip_sender := 0; ip_denom := DFx; ip_amt := 20; ip_addr_ok := true; ip_hex := false; ip_recv := 2; ip_memo := NoMemo |} in
   let (s, ok) := recv ex_isender p ex_state in ok = true /\ ibal s (2, AFx, 0) = 20).
Proof. exact c19_nonvacuous. Qed.
Print Assumptions C19_nonvacuous.
