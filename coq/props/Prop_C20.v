(* Property C20 (fee part): a transaction skips the node's minimum gas price only if
   every message is fee-exempt and the gas limit is within the per-message allowance;
   any other transaction below the minimum price is refused. *)
From Coq Require Import ZArith List.
From FxV Require Import model.M_Fee proofs.P_Fee.
Import ListNotations.
Open Scope Z_scope.

Theorem C20_bypass_only_if : forall c x t,
  0 <= allowance c -> is_check x = true -> node_has_min x ->
  check c x t = Admit ->
  meets_min x t \/ (msgs t <> [] /\ all_exempt c (msgs t) /\ within_allowance c t).
Proof. exact admit_only_if. Qed.
Print Assumptions C20_bypass_only_if.

Theorem C20_reject_otherwise : forall c x t,
  is_check x = true -> node_has_min x -> ~ meets_min x t ->
  ~ (msgs t <> [] /\ all_exempt c (msgs t)) \/
    ~ (gas t <= (Z.of_nat (length (msgs t)) * allowance c) mod two64) ->
  check c x t <> Admit.
Proof. exact reject_otherwise. Qed.
Print Assumptions C20_reject_otherwise.

Theorem C20_bypass_admitted : forall c x t,
  0 < gas t < two63 ->
  msgs t <> [] -> all_exempt c (msgs t) ->
  0 <= Z.of_nat (length (msgs t)) * allowance c < two64 ->
  within_allowance c t -> check c x t = Admit.
Proof. exact bypass_admitted. Qed.
Print Assumptions C20_bypass_admitted.

Theorem C20_fee_check_no_panic : forall c x t,
  0 < gas t < two63 -> (forall p, In p (min_prices x) -> 0 <= snd p) ->
  check c x t <> Panic.
Proof. exact no_panic. Qed.
Print Assumptions C20_fee_check_no_panic.

Theorem C20_fee_nonvacuous :
  check ex_cfg ex_ctx ex_bypass = Admit /\ check ex_cfg ex_ctx ex_mixed = Reject /\
  check ex_cfg ex_ctx ex_overgas = Reject /\ check ex_cfg ex_ctx ex_pays = Admit /\
  check ex_wrapcfg ex_ctx ex_wrap = Reject.
Proof. exact examples. Qed.
Print Assumptions C20_fee_nonvacuous.
