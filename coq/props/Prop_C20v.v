(* Property C20 (validation part): arbitrary bytes offered as any fxcore message, claim, precompile call data,
   cross-chain target or address are either accepted or rejected with an error; stateless validation, the ante
   handler and precompile argument decoding never panic.

   Stated over the executable model coq/model/M_Validate.v of the stateless validators (every abstract value of
   every field, including the nil numbers an absent protobuf field decodes to).  Where the faithful model panics the
   statement is refuted by a concrete witness (replayed on the real code by harness/c20v, docs/findings/C20-*.md)
   and the strongest guarded statement is proved instead. *)
From Coq Require Import ZArith List Bool String.
From FxV Require Import gen.Gen_MsgFields model.M_Validate model.M_ValidateFields proofs.P_Validate proofs.P_ValidateGen.
Import ListNotations.
Open Scope string_scope.
Open Scope Z_scope.

(* every modelled validator, on every input outside the recorded panic classes, returns ok or an error *)
Theorem C20_validate_total : forall i, known_panic_input i = false -> validate i <> VPanic.
Proof. exact validate_total. Qed.
Print Assumptions C20_validate_total.

(* the unguarded statement is false of the code as it is: absent SlashFraction / OracleSetUpdatePowerChangePercent *)
Theorem C20_validate_total_Params_refuted :
  v_Params params_absent_slash = VPanic /\ v_Params params_absent_power_change = VPanic /\
  v_MsgUpdateParams {| up_authority := BGood 1; up_chain := ChEth; up_params := params_absent_slash |} = VPanic.
Proof. exact params_refuted. Qed.
Print Assumptions C20_validate_total_Params_refuted.

(* ... and these are the ONLY inputs on which Params.ValidateBasic panics *)
Theorem C20_Params_panics_only_on_nil_dec : forall p, v_Params p = VPanic -> params_nil_dec p = true.
Proof. exact v_Params_panic_iff_reaches_nil. Qed.
Print Assumptions C20_Params_panics_only_on_nil_dec.

(* MsgBridgeCall: absent value, or a coin with an absent amount *)
Theorem C20_validate_total_MsgBridgeCall_refuted :
  v_MsgBridgeCall bridge_call_absent_value = VPanic /\ v_MsgBridgeCall bridge_call_absent_coin_amount = VPanic.
Proof. exact bridge_call_refuted. Qed.
Print Assumptions C20_validate_total_MsgBridgeCall_refuted.

Theorem C20_MsgBridgeCall_panics_only_on_nil : forall m, v_MsgBridgeCall m = VPanic ->
  int_isnil (mb_value m) = true \/ coins_nil_amount (mb_coins m) = true.
Proof. exact v_MsgBridgeCall_panic. Qed.
Print Assumptions C20_MsgBridgeCall_panics_only_on_nil.

(* MsgConfirm has no ValidateBasic; its handler dereferences an absent Any *)
Theorem C20_MsgConfirm_refuted : h_MsgConfirm_entry {| mw_confirm := AnyNil |} = VPanic.
Proof. exact confirm_refuted. Qed.
Print Assumptions C20_MsgConfirm_refuted.

(* every recorded panic class is inhabited: none of the guards above hides a vacuous statement *)
Theorem C20_known_panics_are_real :
  validate (I_Params params_absent_slash) = VPanic /\
  validate (I_MsgUpdateParams {| up_authority := BGood 1; up_chain := ChTron; up_params := params_absent_power_change |}) = VPanic /\
  validate (I_MsgBridgeCall bridge_call_absent_value) = VPanic /\
  validate (I_MsgBridgeCall bridge_call_absent_coin_amount) = VPanic /\
  validate (I_MsgConfirm {| mw_confirm := AnyNil |}) = VPanic.
Proof. exact known_panics_are_panics. Qed.
Print Assumptions C20_known_panics_are_real.

(* the two remaining classes excluded by known_panic_input panic in the transcribed Go functions but cannot be produced by
   the decoders in front of them (abi.Unpack always allocates a uint256; the IBC memo is JSON and an absent "value"
   becomes a fresh zero Int): the harness checks both facts on the real decoders *)
Theorem C20_decoder_excluded_classes :
  validate (I_CrosschainArgs (CA_BridgeCall true BgNil 0 0 false)) = VPanic /\
  validate (I_IbcCallEvmPacket {| ic_to := XEth; ic_value := INil; ic_data := HGood |}) = VPanic.
Proof. exact decoder_excluded_classes. Qed.
Print Assumptions C20_decoder_excluded_classes.

(* precompile argument validation never panics on anything go-ethereum's abi decoder can produce *)
Theorem C20_precompile_args_total :
  (forall a, v_staking_args a <> VPanic) /\ (forall a, cargs_from_abi a = true -> v_crosschain_args a <> VPanic).
Proof. exact precompile_args_total. Qed.
Print Assumptions C20_precompile_args_total.

(* Must* helpers: after a successful validation every conversion the handler applies is defined *)
Theorem C20_must_safe_MsgBridgeCall : forall m, v_MsgBridgeCall m = VOk -> all_def (must_MsgBridgeCall m) = true.
Proof. exact must_safe_bridge_call. Qed.
Print Assumptions C20_must_safe_MsgBridgeCall.

Theorem C20_must_safe_claims : forall c, v_claim c = VOk -> must_acc (claimer_of c) = Val tt.
Proof. exact must_safe_claimer. Qed.
Print Assumptions C20_must_safe_claims.

Theorem C20_must_safe_MsgClaim : forall m, v_MsgClaim m = VOk -> exists c, mc_claim m = AnyIs c /\ v_claim c = VOk.
Proof. exact must_safe_msg_claim. Qed.
Print Assumptions C20_must_safe_MsgClaim.

Theorem C20_must_safe_BridgeCallClaim_addresses : forall m, v_MsgBridgeCallClaim m = VOk -> all_def (must_BridgeCallClaim_addr m) = true.
Proof. exact must_safe_claim_addr. Qed.
Print Assumptions C20_must_safe_BridgeCallClaim_addresses.

(* ... but NOT for the amounts: ValidateBasic accepts absent and negative amounts, sdk.NewCoin in the handler panics on them *)
Theorem C20_must_safe_BridgeCallClaim_amounts_refuted :
  (v_MsgBridgeCallClaim claim_negative_amount = VOk /\ all_def (must_BridgeCallClaim_amounts claim_negative_amount) = false) /\
  (v_MsgBridgeCallClaim claim_absent_amount = VOk /\ all_def (must_BridgeCallClaim_amounts claim_absent_amount) = false).
Proof. exact must_claim_amounts_refuted. Qed.
Print Assumptions C20_must_safe_BridgeCallClaim_amounts_refuted.

Theorem C20_must_safe_BridgeCallClaim_amounts_guarded : forall m,
  (forall a, In a (bc_amounts m) -> a = IZero \/ a = IPos) -> all_def (must_BridgeCallClaim_amounts m) = true.
Proof. exact must_claim_amounts_guarded. Qed.
Print Assumptions C20_must_safe_BridgeCallClaim_amounts_guarded.

Theorem C20_must_safe_MsgUpdateStore : forall m, v_MsgUpdateStore m = VOk ->
  forall s, In s (us_stores m) -> all_def (must_UpdateStore s) = true.
Proof. exact must_safe_update_store. Qed.
Print Assumptions C20_must_safe_MsgUpdateStore.

Theorem C20_must_safe_IbcCallEvmPacket : forall m, v_IbcCallEvmPacket m = VOk -> all_def (must_IbcCallEvmPacket m) = true.
Proof. exact must_safe_ibc_call. Qed.
Print Assumptions C20_must_safe_IbcCallEvmPacket.

(* tie to the current tree (finite, recomputed from coq/gen/Gen_MsgFields.v on every run) *)
Theorem C20_every_message_type_covered : uncovered_types = [] /\ vanished_types = [].
Proof. split; [exact every_type_covered | exact modelled_types_exist]. Qed.
Print Assumptions C20_every_message_type_covered.

Theorem C20_fields_as_modelled : changed_types = [] /\ unmodelled_nilable = [].
Proof. split; [exact fields_as_modelled | exact nilable_fields_modelled]. Qed.
Print Assumptions C20_fields_as_modelled.

Theorem C20_panic_sites_named : unnamed_sites = [].
Proof. exact panic_sites_named. Qed.
Print Assumptions C20_panic_sites_named.

Theorem C20_precompile_methods_covered : unbound_methods = [].
Proof. exact precompile_methods_covered. Qed.
Print Assumptions C20_precompile_methods_covered.

Theorem C20_validate_nonvacuous :
  v_Params default_params = VOk /\
  v_MsgUpdateParams {| up_authority := BGood 1; up_chain := ChEth; up_params := default_params |} = VOk /\
  v_MsgBridgeCall ok_bridge_call = VOk /\ all_def (must_MsgBridgeCall ok_bridge_call) = true /\
  v_MsgClaim {| mc_chain := ChTron; mc_claim := AnyIs (ClBridgeCall ok_claim) |} = VOk /\
  all_def (must_BridgeCallClaim_addr ok_claim) = true /\ all_def (must_BridgeCallClaim_amounts ok_claim) = true /\
  h_MsgConfirm_entry {| mw_confirm := AnyOther |} = VErr "invalid claim" /\
  v_crosschain_args (CA_BridgeCall true BgZero 2 2 false) = VOk /\
  v_MsgSendToExternal {| se_chain := ChEth; se_sender := BGood 1; se_dest := XTron; se_amount := {| cd_ok := true; cd_id := 0; c_amt := IPos |}; se_fee := {| cd_ok := true; cd_id := 0; c_amt := IPos |} |} = VErr "invalid dest address".
Proof. exact validate_nonvacuous. Qed.
Print Assumptions C20_validate_nonvacuous.
