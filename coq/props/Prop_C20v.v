(* Property C20 (validation part): arbitrary bytes offered as any fxcore message, claim, precompile call data,
   cross-chain target or address are either accepted or rejected with an error; stateless validation, the ante
   handler and precompile argument decoding never panic.

   Stated over the executable model coq/model/M_Validate.v of the stateless validators (every abstract value of
   every field, including the nil numbers an absent protobuf field decodes to), transcribed from the tree in which
   findings C20-1..C20-6 are repaired.  The refutations that established those findings are kept as clearly labelled
   HISTORICAL theorems about the pre-fix variants (the C20_prefix theorems). *)
From Coq Require Import ZArith List Bool String.
From FxV Require Import gen.Gen_MsgFields model.M_Validate model.M_ValidateHist model.M_ValidateFields proofs.P_Validate proofs.P_ValidateHist proofs.P_ValidateGen.
Import ListNotations.
Open Scope string_scope.
Open Scope Z_scope.

(* every modelled validator returns ok or an error on EVERY input a decoder can produce (all nil numbers included).
   Since the repairs 51457a3 / cac8fd3 / 02a5a38 / edafc05 no fx-core validator is excluded. *)
Theorem C20_validate_total : forall i, decodable i = true -> validate i <> VPanic.
Proof. exact validate_total. Qed.
Print Assumptions C20_validate_total.

(* the four validators that used to panic, stated outright *)
Theorem C20_validate_total_repaired :
  (forall p, v_Params p <> VPanic) /\ (forall m, v_MsgUpdateParams m <> VPanic) /\
  (forall m, v_MsgBridgeCall m <> VPanic) /\ (forall m, h_MsgConfirm_entry m <> VPanic) /\ (forall c, v_claim c <> VPanic).
Proof. repeat split; [exact v_Params_total | exact v_MsgUpdateParams_total | exact v_MsgBridgeCall_total | exact confirm_total | exact v_claim_total]. Qed.
Print Assumptions C20_validate_total_repaired.

(* the former witnesses are now rejected with the error text the repairs introduced *)
Theorem C20_repaired_inputs_rejected :
  v_Params params_absent_slash = VErr "slash fraction cannot be empty" /\
  v_Params params_absent_power_change = VErr "oracle set update power change percent cannot be empty" /\
  v_MsgBridgeCall bridge_call_absent_value = VErr "value must be zero" /\
  v_MsgBridgeCall bridge_call_absent_coin_amount = VErr "nil coin amount" /\
  h_MsgConfirm_entry {| mw_confirm := AnyNil |} = VErr "empty confirm".
Proof. exact repaired_inputs_rejected. Qed.
Print Assumptions C20_repaired_inputs_rejected.

(* the only inputs excluded by `decodable`: they make the transcribed Go functions panic but cannot be produced by
   the decoders in front of them (abi.Unpack always allocates a uint256; the IBC memo is JSON and an absent "value"
   becomes a fresh zero Int): the harness checks both facts on the real decoders *)
Theorem C20_decoder_excluded_classes :
  validate (I_CrosschainArgs (CA_BridgeCall true BgNil 0 0 false)) = VPanic /\
  validate (I_IbcCallEvmPacket {| ic_to := XEth; ic_value := INil; ic_data := HGood |}) = VPanic.
Proof. exact decoder_excluded_classes. Qed.
Print Assumptions C20_decoder_excluded_classes.

(* HISTORICAL (pre-fix variants in model/M_ValidateHist.v, NOT the current tree): the validators as they were before the
   repairs panic on the recorded witnesses — findings C20-1, C20-2, C20-3, C20-6 — and the current ones do not *)
Theorem C20_prefix_Params_refuted :
  (v_Params_pre params_absent_slash = VPanic /\ v_Params_pre params_absent_power_change = VPanic) /\
  (v_Params params_absent_slash <> VPanic /\ v_Params params_absent_power_change <> VPanic).
Proof. exact prefix_params_refuted. Qed.
Print Assumptions C20_prefix_Params_refuted.

Theorem C20_prefix_MsgBridgeCall_refuted :
  (v_MsgBridgeCall_pre bridge_call_absent_value = VPanic /\ v_MsgBridgeCall_pre bridge_call_absent_coin_amount = VPanic) /\
  (v_MsgBridgeCall bridge_call_absent_value <> VPanic /\ v_MsgBridgeCall bridge_call_absent_coin_amount <> VPanic).
Proof. exact prefix_bridge_call_refuted. Qed.
Print Assumptions C20_prefix_MsgBridgeCall_refuted.

Theorem C20_prefix_MsgConfirm_refuted :
  h_MsgConfirm_entry_pre {| mw_confirm := AnyNil |} = VPanic /\ h_MsgConfirm_entry {| mw_confirm := AnyNil |} = VErr "empty confirm".
Proof. exact prefix_confirm_refuted. Qed.
Print Assumptions C20_prefix_MsgConfirm_refuted.

Theorem C20_prefix_BridgeCallClaim_amounts_refuted :
  (v_MsgBridgeCallClaim_pre claim_negative_amount = VOk /\ all_def (must_BridgeCallClaim_amounts claim_negative_amount) = false) /\
  (v_MsgBridgeCallClaim_pre claim_absent_amount = VOk /\ all_def (must_BridgeCallClaim_amounts claim_absent_amount) = false) /\
  (v_MsgBridgeCallClaim claim_negative_amount = VErr "invalid amount" /\ v_MsgBridgeCallClaim claim_absent_amount = VErr "invalid amount").
Proof. exact prefix_claim_amounts_refuted. Qed.
Print Assumptions C20_prefix_BridgeCallClaim_amounts_refuted.

Theorem C20_prefix_ante_refuted :
  (v_PubKeyDecorator_pre 2 1 = VPanic /\ v_MultisigGas_pre 1 3 1 0 = VPanic) /\
  (v_PubKeyDecorator 2 1 = VErr "invalid number of signer infos" /\ v_MultisigGas 1 3 1 0 = VErr "multisig bit array does not match").
Proof. exact prefix_ante_refuted. Qed.
Print Assumptions C20_prefix_ante_refuted.

(* the two fx-core ante functions repaired for C20-4/5: total for every count of signer infos / bits / keys / signatures *)
Theorem C20_ante_fx_total : (forall np ns, v_PubKeyDecorator np ns <> VPanic) /\ (forall sz nk nt ns, v_MultisigGas sz nk nt ns <> VPanic).
Proof. split; [intros np ns; exact (validate_total (I_PubKeyDecorator np ns) eq_refl) | intros sz nk nt ns; exact (validate_total (I_MultisigGas sz nk nt ns) eq_refl)]. Qed.
Print Assumptions C20_ante_fx_total.

(* precompile argument validation never panics on anything go-ethereum's abi decoder can produce *)
Theorem C20_precompile_args_total :
  (forall a, v_staking_args a <> VPanic) /\ (forall a, cargs_from_abi a = true -> v_crosschain_args a <> VPanic).
Proof. exact precompile_args_total. Qed.
Print Assumptions C20_precompile_args_total.

(* Must* helpers: after a successful validation every conversion the handler applies is defined *)
Theorem C20_must_safe_MsgBridgeCall : forall m, v_MsgBridgeCall m = VOk -> all_def (must_MsgBridgeCall m) = true.
Proof. exact must_safe_bridge_call. Qed.
Print Assumptions C20_must_safe_MsgBridgeCall.

Theorem C20_must_safe_claims : forall c, v_claim c = VOk -> must_acc (claimer_of c) = Val tt.
Proof. exact must_safe_claimer. Qed.
Print Assumptions C20_must_safe_claims.

Theorem C20_must_safe_MsgClaim : forall m, v_MsgClaim m = VOk -> exists c, mc_claim m = AnyIs c /\ v_claim c = VOk.
Proof. exact must_safe_msg_claim. Qed.
Print Assumptions C20_must_safe_MsgClaim.

Theorem C20_must_safe_BridgeCallClaim_addresses : forall m, v_MsgBridgeCallClaim m = VOk -> all_def (must_BridgeCallClaim_addr m) = true.
Proof. exact must_safe_claim_addr. Qed.
Print Assumptions C20_must_safe_BridgeCallClaim_addresses.

(* ... and, since edafc05, for the amounts as well: sdk.NewCoin(bridgeDenom, msg.Amounts[i]) is defined for every token *)
Theorem C20_must_safe_BridgeCallClaim_amounts : forall m, v_MsgBridgeCallClaim m = VOk -> all_def (must_BridgeCallClaim_amounts m) = true.
Proof. exact must_safe_claim_amounts. Qed.
Print Assumptions C20_must_safe_BridgeCallClaim_amounts.

Theorem C20_must_safe_MsgUpdateStore : forall m, v_MsgUpdateStore m = VOk ->
  forall s, In s (us_stores m) -> all_def (must_UpdateStore s) = true.
Proof. exact must_safe_update_store. Qed.
Print Assumptions C20_must_safe_MsgUpdateStore.

Theorem C20_must_safe_IbcCallEvmPacket : forall m, v_IbcCallEvmPacket m = VOk -> all_def (must_IbcCallEvmPacket m) = true.
Proof. exact must_safe_ibc_call. Qed.
Print Assumptions C20_must_safe_IbcCallEvmPacket.

(* tie to the current tree (finite, recomputed from coq/gen/Gen_MsgFields.v on every run) *)
Theorem C20_every_message_type_covered : uncovered_types = [] /\ vanished_types = [].
Proof. split; [exact every_type_covered | exact modelled_types_exist]. Qed.
Print Assumptions C20_every_message_type_covered.

Theorem C20_fields_as_modelled : changed_types = [] /\ unmodelled_nilable = [].
Proof. split; [exact fields_as_modelled | exact nilable_fields_modelled]. Qed.
Print Assumptions C20_fields_as_modelled.

Theorem C20_panic_sites_named : unnamed_sites = [].
Proof. exact panic_sites_named. Qed.
Print Assumptions C20_panic_sites_named.

Theorem C20_precompile_methods_covered : unbound_methods = [].
Proof. exact precompile_methods_covered. Qed.
Print Assumptions C20_precompile_methods_covered.

Theorem C20_signature_indexes_guarded : unguarded_indexes = [] /\ gen_index_guards <> [].
Proof. exact signature_indexes_guarded. Qed.
Print Assumptions C20_signature_indexes_guarded.

(* handler code behind the validators: every overflow-capable sink on message-derived values is named (with its guard, or as
   an open finding), and the two attacker-indexed paired lists are exactly the pairs whose equal length validation enforces *)
Theorem C20_handler_sinks_named : unnamed_arith_sites = [] /\ unchecked_pairs = [].
Proof. exact handler_sinks_named. Qed.
Print Assumptions C20_handler_sinks_named.

Theorem C20_paired_lengths_checked :
  (forall m, v_MsgBridgeCallClaim m = VOk -> List.length (bc_tokens m) = List.length (bc_amounts m)) /\
  (forall mn v nt na rz, v_crosschain_args (CA_BridgeCall mn v nt na rz) = VOk -> nt = na).
Proof. exact paired_lengths_checked. Qed.
Print Assumptions C20_paired_lengths_checked.

Theorem C20_validate_nonvacuous :
  v_Params default_params = VOk /\
  v_MsgUpdateParams {| up_authority := BGood 1; up_chain := ChEth; up_params := default_params |} = VOk /\
  v_MsgBridgeCall ok_bridge_call = VOk /\ all_def (must_MsgBridgeCall ok_bridge_call) = true /\
  v_MsgClaim {| mc_chain := ChTron; mc_claim := AnyIs (ClBridgeCall ok_claim) |} = VOk /\
  all_def (must_BridgeCallClaim_addr ok_claim) = true /\ all_def (must_BridgeCallClaim_amounts ok_claim) = true /\
  h_MsgConfirm_entry {| mw_confirm := AnyOther |} = VErr "invalid claim" /\
  h_MsgConfirm_entry {| mw_confirm := AnyNil |} = VErr "empty confirm" /\
  v_crosschain_args (CA_BridgeCall true BgZero 2 2 false) = VOk /\
  v_MsgSendToExternal {| se_chain := ChEth; se_sender := BGood 1; se_dest := XTron; se_amount := {| cd_ok := true; cd_id := 0; c_amt := IPos |}; se_fee := {| cd_ok := true; cd_id := 0; c_amt := IPos |} |} = VErr "invalid dest address".
Proof. exact validate_nonvacuous. Qed.
Print Assumptions C20_validate_nonvacuous.
