package main

// facts.go: two facts of the code under test that the model carries as switches (finding C01-1 and its
// repair), established on every run by executing the REAL keeper on a scratch chain:
//   - does MsgServer.UnbondedOracle delete the oracle's last-event-nonce cursor (store key 0x23)?
//   - does Keeper.GetLastEventNonceByOracle lift a stored cursor that is older than lastObserved-1?

import (
	"fmt"

	crosschaintypes "github.com/functionx/fx-core/v8/x/crosschain/types"

	"fxverif/lib"
)

type CodeFacts struct {
	UnbondDeletesCursor bool `json:"unbond_deletes_cursor"`
	CursorClamps        bool `json:"cursor_lifted_to_last_observed_minus_1"`
}

var codeFacts CodeFacts

func probeCodeFacts(seed int64) CodeFacts {
	var f CodeFacts
	// cursor lift: stored cursor 1, last observed 10
	{
		c := lib.NewChain(seed, 1, nil)
		x := c.X("eth")
		addr := x.NewOracle(0).Oracle.Acc()
		x.Keeper.SetLastObservedEventNonce(c.Ctx, 10)
		x.Keeper.SetLastEventNonceByOracle(c.Ctx, addr, 1)
		switch got := x.Keeper.GetLastEventNonceByOracle(c.Ctx, addr); got {
		case 1:
			f.CursorClamps = false
		case 9:
			f.CursorClamps = true
		default:
			panic(fmt.Sprintf("GetLastEventNonceByOracle(stored 1, last observed 10) = %d: neither of the behaviours the model knows", got))
		}
		x.Keeper.SetLastEventNonceByOracle(c.Ctx, addr, 9)
		if got := x.Keeper.GetLastEventNonceByOracle(c.Ctx, addr); got != 9 {
			panic(fmt.Sprintf("GetLastEventNonceByOracle(stored 9, last observed 10) = %d", got))
		}
	}
	// cursor deletion on unbond: an oracle votes, is removed, its unbonding matures, it unbonds
	{
		h := newHist(seed, "eth", "probe", lib.NewReport("probe"), "none")
		for _, o := range []Op{
			{Kind: "gov", List: []int{0, 1, 2, 3}},
			{Kind: "bond", Oracle: 0, Bridger: 0, Ext: 0, Stake: 25_000}, {Kind: "bond", Oracle: 1, Bridger: 1, Ext: 1, Stake: 25_000},
			{Kind: "bond", Oracle: 2, Bridger: 2, Ext: 2, Stake: 25_000}, {Kind: "bond", Oracle: 3, Bridger: 3, Ext: 3, Stake: 25_000},
			vote(0, 1, "call", 0),
			{Kind: "gov", List: []int{1, 2, 3}},
			{Kind: "block", Days: 22},
		} {
			h.apply(o)
		}
		if ok, e := h.apply(Op{Kind: "unbond", Oracle: 0}); !ok {
			panic("probe: UnbondedOracle of a removed oracle whose unbonding matured was refused: " + e)
		}
		kv := h.c.DumpPrefix(h.c.Ctx, "eth", crosschaintypes.GetLastEventNonceByOracleKey(h.orc[0].Oracle.Acc()))
		f.UnbondDeletesCursor = len(kv) == 0
	}
	return f
}
