package main

// gen.go: history generator (all randomness from one PRNG) and the scripted histories
// (witnesses of the Coq refutation theorems and boundary cases, replayed on the real keeper).

import (
	"fmt"
	"math/big"

	"fxverif/lib"
)

func hash2(a, b uint64) uint64 {
	x := a*0x9E3779B97F4A7C15 ^ (b+0x7F4A7C15)*0xBF58476D1CE4E5B9
	x ^= x >> 31
	x *= 0x94D049BB133111EB
	x ^= x >> 29
	return x
}

// claim kind of a nonce in a history (fixed per nonce; the variants compete within the kind)
func (h *hist) kindOf(nonce uint64) string {
	if nonce == 1 {
		return "token" // registers the bridge token the SendToFx claims use
	}
	switch hash2(uint64(h.seed), nonce) % 20 {
	case 0, 1, 2:
		return "token"
	case 3, 4, 5:
		return "oset"
	case 6, 9:
		return "call"
	case 7:
		return "callre" // bridge call whose callback contract re-enters executeClaim for the same nonce
	case 8:
		return "fxibc" // SendToFx with an IBC target (open / closed / non-existent channel)
	default:
		return "fx"
	}
}

// how the oracles split over the variants of a nonce: 0 = unanimous, 1 = two variants, 2 = three
func (h *hist) splitOf(nonce uint64) int {
	switch hash2(uint64(h.seed)+17, nonce) % 10 {
	case 0, 1, 2, 3:
		return 0
	case 4, 5, 6, 7:
		return 1
	default:
		return 2
	}
}

// stakes at the delegate bounds (threshold 10 000 FX, threshold x multiple = 100 000 FX, one power unit = 100 FX)
func boundaryStake(r *lib.Rand) int64 {
	switch r.Intn(10) {
	case 0:
		return 10_000
	case 1:
		return 10_100
	case 2:
		return 10_099 // one FX below the next unit
	case 3:
		return 100_000
	case 4:
		return 99_900
	case 5:
		return 99_999
	case 6:
		return 10_001
	default:
		return stakeDraw(r)
	}
}

func stakeDraw(r *lib.Rand) int64 {
	switch r.Intn(8) {
	case 0:
		return 10_000 // minimum
	case 1:
		return 100_000 // maximum
	case 2:
		return 10_000 + int64(r.Intn(900))*100 + 99 // not a multiple of the power unit
	default:
		return 10_000 + int64(r.Intn(90_000))
	}
}

func (h *hist) cursorOf(ob obsT, id int) uint64 {
	for _, p := range ob.lastBy {
		if p[0] == int64(id) {
			return uint64(p[1])
		}
	}
	if ob.lastObs >= 1 {
		return ob.lastObs - 1
	}
	return 0
}

func recOf(ob obsT, id int) *orcObs {
	for i := range ob.oracles {
		if ob.oracles[i].id == int64(id) {
			return &ob.oracles[i]
		}
	}
	return nil
}

func generate(h *hist, r *lib.Rand, idx int) {
	n := 1 + r.Pick(7)
	longRun := idx%15 == 7 // enough nonces to reach attestation pruning (MaxKeepEventSize = 100)
	if longRun {
		n = 1 + r.Pick(2)
	}
	if tier() == "thorough" && idx%10 == 0 {
		n = 8 + r.Pick(33)
	}
	if idx%7 == 3 {
		n = 3 + r.Pick(3)
	}
	// the property's range: up to 100 oracles, stakes at the delegate bounds (thorough: every 12th history; quick: one)
	bigSet := (tier() == "thorough" && idx%12 == 1) || (tier() != "thorough" && idx == 5)
	if bigSet {
		n = 50 + r.Pick(51)
		if tier() != "thorough" {
			n = 50 + r.Pick(15)
		}
		longRun = false
		h.light = true
	}
	universe := n + 2
	if universe > maxOracles {
		universe = maxOracles
	}
	proposal := []int{}
	for i := 0; i < n; i++ {
		proposal = append(proposal, i)
	}
	if r.Chance(30) && n < 100 {
		proposal = append(proposal, n) // approved but not (yet) bonded
	}
	if bigSet && r.Chance(30) {
		// one more than the code allows: refused as a whole
		var over []int
		for i := 0; i < 101; i++ {
			over = append(over, i)
		}
		h.apply(Op{Kind: "gov", List: over})
	}
	h.apply(Op{Kind: "gov", List: proposal})
	for i := 0; i < n; i++ {
		st := stakeDraw(r)
		if idx%6 == 1 {
			st = 10_000 + int64(i%28)*3_300 + int64(r.Intn(3))*100
		}
		if bigSet {
			st = boundaryStake(r)
		}
		h.apply(Op{Kind: "bond", Oracle: i, Bridger: i, Ext: i, Stake: st})
	}
	realSlash := h.module != "tron" && idx%4 == 2
	if realSlash {
		h.apply(Op{Kind: "window", Window: uint64(2 + r.Pick(3))})
	}
	nOps := 25 + r.Pick(40)
	if tier() == "thorough" {
		nOps = 30 + r.Pick(120)
	}
	if longRun {
		nOps = 700
		h.light = true
	}
	if bigSet {
		nOps = 450
		if tier() == "thorough" {
			nOps = 600
		}
	}
	inList := func(l []int, v int) bool {
		for _, x := range l {
			if x == v {
				return true
			}
		}
		return false
	}
	for k := 0; k < nOps; k++ {
		ob := h.observe()
		var online, offline, unreg []int
		for i := 0; i < universe; i++ {
			rec := recOf(ob, i)
			switch {
			case rec == nil:
				unreg = append(unreg, i)
			case rec.online:
				online = append(online, i)
			default:
				offline = append(offline, i)
			}
		}
		roll := r.Intn(100)
		if longRun {
			roll = r.Intn(72)
		}
		if realSlash && r.Chance(12) {
			roll = 99 // more block boundaries: the end blocker slashes oracles that did not confirm an oracle set in time
		}
		switch {
		case roll < 66: // ---- vote ----
			var id int
			for try := 0; try < 4; try++ {
				if len(online) > 0 && r.Chance(90) {
					id = online[r.Pick(len(online))]
				} else {
					id = r.Pick(universe)
				}
				if h.cursorOf(ob, id)+1 <= ob.lastObs+3 {
					break
				}
			}
			nonce := h.cursorOf(ob, id) + 1
			if r.Chance(7) {
				nonce = uint64(int64(nonce) + int64(r.Intn(4)) - 1)
			}
			if nonce == 0 {
				nonce = 1
			}
			variant := 0
			switch h.splitOf(nonce) {
			case 1:
				variant = r.Pick(2)
			case 2:
				variant = r.Pick(3)
			}
			o := Op{Kind: "vote", Bridger: id, Nonce: nonce, CKind: h.kindOf(nonce), Variant: variant}
			if (o.CKind == "call" || o.CKind == "token") && nonce > 1 && h.splitOf(nonce) == 1 {
				o.Variant = 1 + r.Pick(2) // the adversarially close pair (characters moved across a field boundary)
			}
			if o.CKind == "fxibc" {
				h.apply(Op{Kind: "channel"})
				if r.Chance(20) {
					h.apply(Op{Kind: "chanstate", Window: uint64(r.Pick(2))})
				}
			}
			if rec := recOf(ob, id); rec != nil && rec.bridger >= 0 {
				o.Bridger = int(rec.bridger) // the oracle's currently registered bridger
			}
			if r.Chance(4) {
				o.Bridger = spareBridger + r.Pick(4) // a bridger of nobody (or a stale one)
			}
			if r.Chance(5) {
				o.Bridger = id // the bridger the oracle bonded with, whatever it is registered with now
			}
			if o.CKind == "callre" {
				h.apply(Op{Kind: "install", Nonce: nonce})
			}
			if o.CKind == "oset" {
				for _, m := range online {
					if r.Chance(60) {
						o.Members = append(o.Members, m)
					}
				}
				if r.Chance(12) {
					o.Members = append(o.Members, spareExt+r.Pick(3)) // not a registered external address
				}
			}
			h.apply(o)
		case roll < 76: // ---- deferred execution ----
			var nonce uint64
			if len(ob.pending) > 0 && r.Chance(85) {
				nonce = ob.pending[r.Pick(len(ob.pending))]
			} else {
				nonce = 1 + uint64(r.Pick(int(ob.lastObs)+2))
			}
			kind := "exec"
			if r.Chance(50) {
				kind = "exec_evm"
			}
			h.apply(Op{Kind: kind, Nonce: nonce})
		case roll < 80: // ---- add delegate ----
			if len(online)+len(offline) == 0 {
				continue
			}
			var id int
			if len(offline) > 0 && r.Chance(60) {
				id = offline[r.Pick(len(offline))]
			} else if len(online) > 0 {
				id = online[r.Pick(len(online))]
			} else {
				id = offline[0]
			}
			rec := recOf(ob, id)
			// slash amount = stake * 0.8 * times, capped at stake (whole FX here)
			stakeFX := new(big.Int).Quo(rec.stake, big.NewInt(1e18)).Int64()
			need := stakeFX * 8 * rec.slash / 10
			if need > stakeFX {
				need = stakeFX
			}
			amt := need + int64(r.Intn(3000))
			var tenths int64
			if r.Chance(15) && need > 0 {
				amt = need - 1 - int64(r.Intn(100)) // not enough to cover the slash amount
			}
			if r.Chance(8) {
				amt += 95_000 // above the maximum
			}
			if r.Chance(30) && rec.slash > 0 {
				// exactly the slash amount (stake*0.8*times, capped at the stake), to the tenth of an FX: nothing is delegated
				t := stakeFX * 8 * rec.slash
				if t > stakeFX*10 {
					t = stakeFX * 10
				}
				amt, tenths = t/10, t%10
			}
			if amt <= 0 && tenths == 0 {
				amt = 1
			}
			h.apply(Op{Kind: "add", Oracle: id, Stake: amt, Tenths: tenths})
		case roll < 84: // ---- slash ----
			var l []int
			if len(online) > 0 {
				l = append(l, online[r.Pick(len(online))])
			}
			if r.Chance(25) && len(offline) > 0 {
				l = append(l, offline[r.Pick(len(offline))])
			}
			if r.Chance(20) && len(online) > 1 {
				l = append(l, online[r.Pick(len(online))])
			}
			if r.Chance(3) && len(unreg) > 0 {
				l = append(l, unreg[0]) // SlashOracle of an unknown oracle panics
			}
			h.apply(Op{Kind: "slash", List: l})
		case roll < 89: // ---- governance oracle list ----
			newList := append([]int{}, proposal...)
			switch r.Intn(4) {
			case 0, 1: // remove one (prefer one whose power is below the 30 % change limit)
				if len(newList) > 0 {
					j := r.Pick(len(newList))
					newList = append(newList[:j], newList[j+1:]...)
				}
			case 2: // add one back / a new one
				cand := r.Pick(universe)
				if !inList(newList, cand) {
					newList = append(newList, cand)
				}
			default: // several changes
				for j := 0; j < universe; j++ {
					if r.Chance(20) {
						if inList(newList, j) {
							var nl []int
							for _, x := range newList {
								if x != j {
									nl = append(nl, x)
								}
							}
							newList = nl
						} else {
							newList = append(newList, j)
						}
					}
				}
			}
			if ok, _ := h.apply(Op{Kind: "gov", List: newList}); ok {
				proposal = newList
			}
		case roll < 92: // ---- unbond ----
			var cand []int
			for _, i := range offline {
				if !inList(proposal, i) {
					cand = append(cand, i)
				}
			}
			id := r.Pick(universe)
			if len(cand) > 0 && r.Chance(85) {
				id = cand[r.Pick(len(cand))]
			}
			h.apply(Op{Kind: "unbond", Oracle: id})
		case roll < 95: // ---- bond (new or re-bond) ----
			var cand []int
			for _, i := range unreg {
				if inList(proposal, i) {
					cand = append(cand, i)
				}
			}
			id := r.Pick(universe)
			if len(cand) > 0 && r.Chance(90) {
				id = cand[r.Pick(len(cand))]
			}
			o := Op{Kind: "bond", Oracle: id, Bridger: id, Ext: id, Stake: stakeDraw(r)}
			if r.Chance(10) {
				o.Bridger = spareBridger + r.Pick(4)
			}
			if r.Chance(5) {
				o.Stake = 9_999
			}
			if r.Chance(5) {
				o.Stake = 100_001
			}
			h.apply(o)
		case roll < 97: // ---- edit bridger ----
			id := r.Pick(universe)
			if len(online) > 0 && r.Chance(85) {
				id = online[r.Pick(len(online))]
			}
			b := spareBridger + r.Pick(4)
			if r.Chance(20) {
				b = r.Pick(universe)
			}
			h.apply(Op{Kind: "edit", Oracle: id, Bridger: b})
		default: // ---- a block boundary: the real end blocker (slashing of non-confirming oracles, oracle set request) ----
			if h.module != "tron" {
				// diligent oracles confirm what is open (in the real-slash histories about a third of the oracles never do)
				for _, i := range online {
					if realSlash && hash2(uint64(h.seed)+99, uint64(i))%3 == 0 {
						continue
					}
					rec := recOf(ob, i)
					_ = rec
					confirmAll := func(kind string, l []objObs) {
						for _, x := range l {
							done := false
							for _, c := range x.confirms {
								if c == int64(i) {
									done = true
								}
							}
							if !done && (realSlash || r.Chance(30)) {
								h.apply(Op{Kind: "confirm", CKind: kind, Nonce: x.key, Ext: i})
							}
						}
					}
					confirmAll("oset", ob.osets)
					confirmAll("batch", ob.batches)
					confirmAll("bcall", ob.bcalls)
				}
			}
			o := Op{Kind: "block"}
			if r.Chance(25) {
				o.Days = 22 // beyond the unbonding period: removed oracles can now unbond
			}
			h.apply(o)
		}
		// lifecycle: genesis export + import, then somebody tries to execute claims that were already executed
		if r.Chance(2) {
			h.apply(Op{Kind: "export"})
			for n := uint64(1); n <= ob.lastObs && n <= 6; n++ {
				if r.Chance(60) {
					h.apply(Op{Kind: map[bool]string{true: "exec", false: "exec_evm"}[r.Chance(50)], Nonce: n})
				}
			}
		}
		// objects the oracles have to confirm, stray confirmations, window changes (eth-style chains)
		if h.module != "tron" && r.Chance(6) {
			switch r.Intn(6) {
			case 0:
				h.apply(Op{Kind: "batch"})
			case 1, 2:
				h.apply(Op{Kind: "bcall"})
			case 3:
				if realSlash {
					h.apply(Op{Kind: "window", Window: uint64(2 + r.Pick(4))})
				}
			default:
				kind := []string{"oset", "batch", "bcall"}[r.Pick(3)]
				ext := r.Pick(universe)
				if r.Chance(10) {
					ext = spareExt + r.Pick(3)
				}
				h.apply(Op{Kind: "confirm", CKind: kind, Nonce: uint64(1 + r.Pick(6)), Ext: ext})
			}
		}
		// an oracle leaves for good and (perhaps) comes back: removal, maturity, unbond — re-approval and re-bond
		// are left to the ordinary governance / bond operations
		if r.Chance(2) && len(online) > 2 {
			id := online[r.Pick(len(online))]
			var nl []int
			for _, x := range proposal {
				if x != id {
					nl = append(nl, x)
				}
			}
			if ok, _ := h.apply(Op{Kind: "gov", List: nl}); ok {
				proposal = nl
				h.apply(Op{Kind: "block", Days: 22})
				h.apply(Op{Kind: "unbond", Oracle: id})
				if r.Chance(60) {
					nl2 := append(append([]int{}, proposal...), id)
					if ok, _ := h.apply(Op{Kind: "gov", List: nl2}); ok {
						proposal = nl2
						h.apply(Op{Kind: "bond", Oracle: id, Bridger: id, Ext: id, Stake: stakeDraw(r)})
					}
				}
			}
		}
	}
}

// ---------- scripted histories ----------

type scenario struct {
	Name   string
	Module string
	Light  bool // long history: full store projection only every 40th operation
	Ops    []Op
	Check  func(h *hist, rep *lib.Report)
}

func vote(b int, nonce uint64, kind string, variant int) Op {
	return Op{Kind: "vote", Bridger: b, Nonce: nonce, CKind: kind, Variant: variant}
}

// longLag: oracle 2 votes event 1 and then stays silent while oracles 0 and 1 (85 % of the power) observe 104 events;
// then it tries to jump to the chain's position (must be refused) and continues at event 2
func longLag() []Op {
	ops := []Op{
		{Kind: "gov", List: []int{0, 1, 2}},
		{Kind: "bond", Oracle: 0, Bridger: 0, Ext: 0, Stake: 30_000}, {Kind: "bond", Oracle: 1, Bridger: 1, Ext: 1, Stake: 30_000},
		{Kind: "bond", Oracle: 2, Bridger: 2, Ext: 2, Stake: 10_000},
		{Kind: "vote", Bridger: 2, Nonce: 1, CKind: "oset"},
	}
	for n := uint64(1); n <= 104; n++ {
		ops = append(ops, Op{Kind: "vote", Bridger: 0, Nonce: n, CKind: "oset"}, Op{Kind: "vote", Bridger: 1, Nonce: n, CKind: "oset"})
	}
	ops = append(ops,
		Op{Kind: "vote", Bridger: 2, Nonce: 104, CKind: "oset"}, // 103 events skipped: refused
		Op{Kind: "vote", Bridger: 2, Nonce: 105, CKind: "oset"}, // refused
		Op{Kind: "vote", Bridger: 2, Nonce: 2, CKind: "oset"},   // its next event
		Op{Kind: "vote", Bridger: 2, Nonce: 3, CKind: "oset"},
		Op{Kind: "vote", Bridger: 0, Nonce: 105, CKind: "oset"}, Op{Kind: "vote", Bridger: 1, Nonce: 105, CKind: "oset"},
		Op{Kind: "vote", Bridger: 2, Nonce: 105, CKind: "oset"}, // still refused
		Op{Kind: "vote", Bridger: 2, Nonce: 4, CKind: "oset"},
	)
	return ops
}

// rotationAtMaximum: the approved list is full (100 oracles, MaxOracleSize); governance replaces four of them, the
// removed ones stay registered (offline, unbonding) while the four new ones bond: 104 records, 100 of them online
func rotationAtMaximum() []Op {
	var first, second []int
	for i := 0; i < 100; i++ {
		first = append(first, i)
	}
	for i := 4; i < 104; i++ {
		second = append(second, i)
	}
	ops := []Op{{Kind: "gov", List: first}}
	for i := 0; i < 100; i++ {
		ops = append(ops, Op{Kind: "bond", Oracle: i, Bridger: i, Ext: i, Stake: 10_000 + int64(i%7)*100})
	}
	ops = append(ops, Op{Kind: "gov", List: second})
	for i := 100; i < 104; i++ {
		ops = append(ops, Op{Kind: "bond", Oracle: i, Bridger: i, Ext: i, Stake: 10_000})
	}
	ops = append(ops, Op{Kind: "block"}, Op{Kind: "vote", Bridger: 50, Nonce: 1, CKind: "oset"}, Op{Kind: "vote", Bridger: 103, Nonce: 1, CKind: "oset"},
		Op{Kind: "add", Oracle: 101, Stake: 500}, Op{Kind: "export"}, Op{Kind: "block"})
	return ops
}

func scripted() []scenario {
	note := func(rep *lib.Report, s string) { rep.Notes = append(rep.Notes, s) }
	return []scenario{
		{Name: "long-lag", Module: "eth", Light: true, Ops: longLag(), Check: func(h *hist, rep *lib.Report) {}},
		{Name: "rotation-at-maximum", Module: "tron", Light: true, Ops: rotationAtMaximum(), Check: func(h *hist, rep *lib.Report) {}},
		{
			// witness of P_Attest.revote_refuted: four equal oracles; 0 and 1 vote; 0 is removed by governance,
			// unbonds, is approved and bonds again, votes again on the still pending attestation: votes [0,1,0]
			Name: "rebond-double-count", Module: "eth",
			Ops: []Op{
				{Kind: "gov", List: []int{0, 1, 2, 3}},
				{Kind: "bond", Oracle: 0, Bridger: 0, Ext: 0, Stake: 25_000},
				{Kind: "bond", Oracle: 1, Bridger: 1, Ext: 1, Stake: 25_000},
				{Kind: "bond", Oracle: 2, Bridger: 2, Ext: 2, Stake: 25_000},
				{Kind: "bond", Oracle: 3, Bridger: 3, Ext: 3, Stake: 25_000},
				vote(0, 1, "fx", 0), vote(1, 1, "fx", 0),
				{Kind: "gov", List: []int{1, 2, 3}},
				{Kind: "block", Days: 22}, // the unbonding of oracle 0's stake matures
				{Kind: "unbond", Oracle: 0},
				{Kind: "gov", List: []int{0, 1, 2, 3}},
				{Kind: "bond", Oracle: 0, Bridger: 0, Ext: 0, Stake: 25_000},
				vote(0, 1, "fx", 0),
			},
			Check: func(h *hist, rep *lib.Report) {
				ob := h.observe()
				switch {
				case ob.lastObs == 1 && len(ob.atts) == 1 && len(ob.atts[0].votes) == 3:
					note(rep, "C01_revote_refuted witness replayed on the real keeper: after governance removal, maturity, unbond, re-approval and re-bond, oracle 0's second vote "+
						"is counted again; event nonce 1 took effect with votes [0 1 0] = 50% of distinct power (recorded total 1000, threshold 660)")
				case ob.lastObs == 0 && len(ob.atts) == 1 && len(ob.atts[0].votes) == 2 && !codeFacts.UnbondDeletesCursor:
					note(rep, "re-bond history on this tree (UnbondedOracle keeps the cursor): the second vote of the returning oracle is refused, votes stay [0 1] (C01_revote_refused_when_fixed)")
				default:
					note(rep, fmt.Sprintf("re-bond history: unexpected outcome lastObs=%d atts=%v", ob.lastObs, ob.atts))
				}
			},
		},
		{
			// witness of P_Attest.truncation_refuted: powers 100, 231, 172 (total 503): 66*503/100 = 331 (truncated from 331.98);
			// oracles 0 and 1 (331 = 65.81 %) are enough
			Name: "truncation-boundary", Module: "eth",
			Ops: []Op{
				{Kind: "gov", List: []int{0, 1, 2}},
				{Kind: "bond", Oracle: 0, Bridger: 0, Ext: 0, Stake: 10_000},
				{Kind: "bond", Oracle: 1, Bridger: 1, Ext: 1, Stake: 23_100},
				{Kind: "bond", Oracle: 2, Bridger: 2, Ext: 2, Stake: 17_200},
				vote(0, 1, "fx", 0), vote(1, 1, "fx", 0),
			},
			Check: func(h *hist, rep *lib.Report) {
				ob := h.observe()
				if ob.lastObs == 1 {
					note(rep, "truncation boundary replayed: powers 100+231 = 331 of recorded total 503 (65.81 %) reach the bar 66*503/100 = 331; "+
						"read as rounding within one power unit (documented, not raised)")
				} else {
					note(rep, "truncation boundary: the real keeper did NOT accept 331 of 503")
				}
			},
		},
		{
			// one unit below the bar must not be enough: powers 100, 230, 173 (total 503, bar 331): 330 is refused, the third vote crosses
			Name: "one-below-bar", Module: "tron",
			Ops: []Op{
				{Kind: "gov", List: []int{0, 1, 2}},
				{Kind: "bond", Oracle: 0, Bridger: 0, Ext: 0, Stake: 10_000},
				{Kind: "bond", Oracle: 1, Bridger: 1, Ext: 1, Stake: 23_000},
				{Kind: "bond", Oracle: 2, Bridger: 2, Ext: 2, Stake: 17_300},
				vote(0, 1, "fx", 0), vote(1, 1, "fx", 0),
			},
			Check: func(h *hist, rep *lib.Report) {
				if ob := h.observe(); ob.lastObs != 0 {
					rep.Fail(lib.Failure{Kind: "monitor", What: "330 of 503 power units (bar 331) made an event take effect", Sig: h.prop + ":below-bar", Replay: h.replay()})
				}
			},
		},
		{
			// a later nonce collects all votes first; the earlier nonce is split and decided last; then the parked claims run once
			Name: "later-nonce-first", Module: "eth",
			Ops: []Op{
				{Kind: "gov", List: []int{0, 1, 2}},
				{Kind: "bond", Oracle: 0, Bridger: 0, Ext: 0, Stake: 30_000},
				{Kind: "bond", Oracle: 1, Bridger: 1, Ext: 1, Stake: 30_000},
				{Kind: "bond", Oracle: 2, Bridger: 2, Ext: 2, Stake: 30_000},
				vote(0, 1, "token", 0), vote(1, 1, "token", 0), vote(2, 1, "token", 0),
				vote(0, 2, "fx", 0), vote(1, 2, "fx", 2), // split on nonce 2
				vote(0, 3, "fx", 0), vote(1, 3, "fx", 0), // nonce 3 has 2/3 of the power before nonce 2 is decided
				vote(2, 2, "fx", 0), // decides nonce 2
				vote(2, 3, "fx", 0), // only now nonce 3 may take effect
				vote(2, 4, "fx", 1),
				{Kind: "exec_evm", Nonce: 3}, {Kind: "exec", Nonce: 3}, {Kind: "exec", Nonce: 2}, {Kind: "exec_evm", Nonce: 2},
				{Kind: "exec_evm", Nonce: 9},
			},
			Check: func(h *hist, rep *lib.Report) {},
		},
		{
			// the callback contract of a parked bridge call re-enters executeClaim(chain, same nonce) while it is executed
			Name: "reentrant-execute", Module: "eth",
			Ops: []Op{
				{Kind: "gov", List: []int{0, 1}},
				{Kind: "bond", Oracle: 0, Bridger: 0, Ext: 0, Stake: 30_000},
				{Kind: "bond", Oracle: 1, Bridger: 1, Ext: 1, Stake: 10_000},
				{Kind: "install", Nonce: 1}, {Kind: "install", Nonce: 2},
				vote(0, 1, "callre", 0), vote(0, 2, "callre", 0),
				{Kind: "exec_evm", Nonce: 1}, {Kind: "exec", Nonce: 2}, {Kind: "exec_evm", Nonce: 1}, {Kind: "exec_evm", Nonce: 2},
			},
			Check: func(h *hist, rep *lib.Report) {
				if h.handlerRuns(1) != 1 || h.handlerRuns(2) != 1 {
					note(rep, fmt.Sprintf("re-entrant callback scenario: callbacks ran %d and %d times (expected 1 and 1)", h.handlerRuns(1), h.handlerRuns(2)))
				}
			},
		},
		{
			// adversarially close claims: different bridge calls / token registrations whose fields differ only by characters
			// moved across a field boundary; each must collect its own quorum
			Name: "close-pairs", Module: "eth",
			Ops: []Op{
				{Kind: "gov", List: []int{0, 1, 2}},
				{Kind: "bond", Oracle: 0, Bridger: 0, Ext: 0, Stake: 20_000}, {Kind: "bond", Oracle: 1, Bridger: 1, Ext: 1, Stake: 20_000},
				{Kind: "bond", Oracle: 2, Bridger: 2, Ext: 2, Stake: 20_000},
				vote(0, 1, "token", 0), vote(1, 1, "token", 0), vote(2, 1, "token", 0),
				vote(0, 2, "call", 1), vote(1, 2, "call", 2), // one vote each for two different calls: nothing may take effect
				vote(0, 3, "token", 1), vote(1, 3, "token", 2),
				vote(2, 2, "call", 1), // call 1 now has two thirds
				vote(2, 3, "token", 2),
				{Kind: "exec", Nonce: 2},
			},
			Check: func(h *hist, rep *lib.Report) {},
		},
		{
			// SendToFx with an IBC target: executed repeatedly on an open, a closed and a non-existent channel; whatever the
			// IBC leg does, coins may move in at most one execution of a nonce and a failed execution moves none
			Name: "ibc-target", Module: "eth",
			Ops: []Op{
				{Kind: "gov", List: []int{0, 1}},
				{Kind: "bond", Oracle: 0, Bridger: 0, Ext: 0, Stake: 30_000}, {Kind: "bond", Oracle: 1, Bridger: 1, Ext: 1, Stake: 10_000},
				vote(0, 1, "token", 0),
				{Kind: "channel"},
				vote(0, 2, "fxibc", 0), vote(0, 3, "fxibc", 1), vote(0, 4, "fxibc", 0), vote(0, 5, "fx", 0),
				{Kind: "exec", Nonce: 3}, {Kind: "exec_evm", Nonce: 3}, {Kind: "exec", Nonce: 3},
				{Kind: "exec_evm", Nonce: 2}, {Kind: "exec", Nonce: 2},
				{Kind: "chanstate", Window: 1}, {Kind: "exec", Nonce: 4}, {Kind: "exec_evm", Nonce: 4},
				{Kind: "chanstate", Window: 0}, {Kind: "exec_evm", Nonce: 4}, {Kind: "exec", Nonce: 4},
				{Kind: "exec_evm", Nonce: 5}, {Kind: "exec", Nonce: 5},
			},
			Check: func(h *hist, rep *lib.Report) {},
		},
		{
			// lifecycle: export + import with executed and still parked claims, a lagging oracle, one that is ahead,
			// a confirmation whose bridger was edited afterwards, an open bridge call
			Name: "export-import", Module: "eth",
			Ops: []Op{
				{Kind: "gov", List: []int{0, 1, 2, 3}},
				{Kind: "bond", Oracle: 0, Bridger: 0, Ext: 0, Stake: 30_000}, {Kind: "bond", Oracle: 1, Bridger: 1, Ext: 1, Stake: 30_000},
				{Kind: "bond", Oracle: 2, Bridger: 2, Ext: 2, Stake: 15_000}, {Kind: "bond", Oracle: 3, Bridger: 3, Ext: 3, Stake: 12_000},
				vote(0, 1, "token", 0), vote(1, 1, "token", 0), vote(2, 1, "token", 0),
				vote(0, 2, "call", 0), vote(1, 2, "call", 0),
				vote(0, 3, "fx", 0), vote(1, 3, "fx", 0),
				vote(0, 4, "call", 0), vote(1, 4, "call", 1), // undecided
				vote(0, 5, "fx", 0),                            // oracle 0 is ahead
				{Kind: "exec", Nonce: 2},                       // executed; 3 stays parked
				{Kind: "block"}, {Kind: "bcall"},
				{Kind: "confirm", CKind: "oset", Nonce: 1, Ext: 0}, {Kind: "confirm", CKind: "oset", Nonce: 1, Ext: 1},
				{Kind: "edit", Oracle: 1, Bridger: spareBridger},
				{Kind: "slash", List: []int{3}},
				{Kind: "export"},
				{Kind: "exec", Nonce: 2}, {Kind: "exec_evm", Nonce: 2}, // already executed: must be refused
				{Kind: "exec", Nonce: 3},                                // was parked, lost by the export (C05-2): refused, zero executions
				vote(0, 5, "fx", 0),                                     // refused: oracle 0 already voted 5
				vote(0, 6, "fx", 0),
				vote(2, 2, "call", 0), // oracle 2 lagged at nonce 1 (last observed 3): after the restart it is at 2 like before
				vote(3, 3, "fx", 0),   // offline: refused
				vote(2, 3, "fx", 0), vote(2, 4, "call", 0),
				{Kind: "bcall"}, {Kind: "block"},
			},
			Check: func(h *hist, rep *lib.Report) {},
		},
		{
			// the three loops of the end blocker's slashing phase (signed window 2): an oracle set, a batch and a bridge call,
			// each confirmed by some oracles only; the model (M_EndBlock.slashing) must predict who goes offline and when
			Name: "endblock-three-loops", Module: "eth",
			Ops: []Op{
				{Kind: "gov", List: []int{0, 1, 2, 3}},
				{Kind: "bond", Oracle: 0, Bridger: 0, Ext: 0, Stake: 20_000}, {Kind: "bond", Oracle: 1, Bridger: 1, Ext: 1, Stake: 20_000},
				{Kind: "bond", Oracle: 2, Bridger: 2, Ext: 2, Stake: 30_000}, {Kind: "bond", Oracle: 3, Bridger: 3, Ext: 3, Stake: 30_000},
				vote(2, 1, "token", 0), vote(3, 1, "token", 0), vote(0, 1, "token", 0), // event 1 observed: bridge calls possible
				{Kind: "window", Window: 2},
				{Kind: "block"}, // oracle set 1 at height 1
				{Kind: "bcall"}, {Kind: "batch"}, {Kind: "batch"}, // second batch in the same block: refused
				{Kind: "confirm", CKind: "oset", Nonce: 1, Ext: 0}, {Kind: "confirm", CKind: "oset", Nonce: 1, Ext: 1}, {Kind: "confirm", CKind: "oset", Nonce: 1, Ext: 2},
				{Kind: "confirm", CKind: "oset", Nonce: 1, Ext: 2},  // twice: refused
				{Kind: "confirm", CKind: "oset", Nonce: 9, Ext: 3},  // no such set
				{Kind: "confirm", CKind: "bcall", Nonce: 1, Ext: 0}, {Kind: "confirm", CKind: "bcall", Nonce: 1, Ext: 3},
				{Kind: "confirm", CKind: "batch", Nonce: 2, Ext: 0}, {Kind: "confirm", CKind: "batch", Nonce: 2, Ext: 2},
				{Kind: "confirm", CKind: "batch", Nonce: 2, Ext: spareExt}, // external address of nobody
				{Kind: "block"}, {Kind: "block"}, {Kind: "block"}, // height 4: oracle set 1 is due: oracle 3 goes offline
				vote(3, 2, "fx", 0), // refused: offline
				{Kind: "block"}, {Kind: "block"}, // batch (height 2) and bridge call (height 2) become due: oracles 1 and 2 follow
				{Kind: "add", Oracle: 3, Stake: 24_000}, // pays the slash amount: online again from this height on
				{Kind: "block"}, {Kind: "block"},
				vote(0, 2, "fx", 0), vote(3, 2, "fx", 0),
			},
			Check: func(h *hist, rep *lib.Report) {},
		},
		{
			// slashed oracle cannot vote; votes of an oracle that left (record deleted) count nothing
			Name: "offline-and-left", Module: "eth",
			Ops: []Op{
				{Kind: "gov", List: []int{0, 1, 2, 3, 4}},
				{Kind: "bond", Oracle: 0, Bridger: 0, Ext: 0, Stake: 20_000},
				{Kind: "bond", Oracle: 1, Bridger: 1, Ext: 1, Stake: 20_000},
				{Kind: "bond", Oracle: 2, Bridger: 2, Ext: 2, Stake: 20_000},
				{Kind: "bond", Oracle: 3, Bridger: 3, Ext: 3, Stake: 20_000},
				{Kind: "bond", Oracle: 4, Bridger: 4, Ext: 4, Stake: 20_000},
				vote(0, 1, "call", 0), vote(1, 1, "call", 0),
				{Kind: "gov", List: []int{1, 2, 3, 4}}, {Kind: "block", Days: 22}, {Kind: "unbond", Oracle: 0}, // oracle 0 leaves; its vote stays in the list
				{Kind: "slash", List: []int{4}},
				vote(4, 1, "call", 0), // offline: refused
				vote(2, 1, "call", 0), // 1+2 = 400 of recorded total 800 (refreshed by the slash): not enough (bar 528)
				vote(3, 1, "call", 0), // 1+2+3 = 600 >= 528
				{Kind: "exec", Nonce: 1},
			},
			Check: func(h *hist, rep *lib.Report) {},
		},
	}
}
