package main

// hist.go: one history on the real app — operation descriptors, their execution through the real
// MsgServer / keeper / precompile / end blocker, the store projection after every operation.

import (
	"crypto/ecdsa"
	"crypto/sha256"
	"time"
	"encoding/binary"
	"encoding/hex"
	"fmt"
	"math/big"
	"sort"
	"strings"

	sdkmath "cosmossdk.io/math"
	codectypes "github.com/cosmos/cosmos-sdk/codec/types"
	sdk "github.com/cosmos/cosmos-sdk/types"
	"github.com/ethereum/go-ethereum/common"
	"github.com/ethereum/go-ethereum/core/vm"

	fxtypes "github.com/functionx/fx-core/v8/types"
	"github.com/functionx/fx-core/v8/x/crosschain/precompile"
	crosschainkeeper "github.com/functionx/fx-core/v8/x/crosschain/keeper"
	crosschaintypes "github.com/functionx/fx-core/v8/x/crosschain/types"

	"fxverif/lib"
)

const (
	maxOracles   = 104 // oracle universe of a history (ids 0..103; the code allows at most 100 approved oracles)
	spareBridger = 500 // bridger ids >= 500 are spare keys not initially bound to any oracle
	spareExt     = 600 // external ids >= 600: external addresses of no oracle
)

// Op is a replayable operation descriptor (everything needed to re-execute it on a fresh chain).
type Op struct {
	Kind    string  `json:"kind"` // vote exec exec_evm bond add slash gov unbond edit block window confirm batch bcall install
	Oracle  int     `json:"oracle,omitempty"`
	Bridger int     `json:"bridger,omitempty"` // vote: id of the bridger put into the claim; bond/edit: bridger id
	Ext     int     `json:"ext,omitempty"`
	Nonce   uint64  `json:"nonce,omitempty"`
	CKind   string  `json:"ckind,omitempty"` // claim kind: fx token oset call callre; confirm: oset batch bcall (Nonce = key, Ext = external id)
	Variant int     `json:"variant,omitempty"`
	Members []int   `json:"members,omitempty"` // oset claim: external ids
	Stake   int64   `json:"stake,omitempty"`   // whole FX
	Tenths  int64   `json:"tenths,omitempty"`  // plus this many tenths of an FX (add-delegate: exact slash amounts)
	Days    int     `json:"days,omitempty"`    // block: days that pass before the block (22 = beyond the unbonding period)
	List    []int   `json:"list,omitempty"`    // gov: new oracle list; slash: oracles; block: oracles that confirm open oracle sets
	Window  uint64  `json:"window,omitempty"`  // window: new SignedWindow param
}

type Replay struct {
	ChainSeed int64   `json:"chain_seed"`
	Module    string  `json:"module"`
	Ops       []Op    `json:"ops"`
	Tx        *TxCase `json:"tx,omitempty"`
}

type obsT struct {
	acc     int
	lastObs uint64
	total   *big.Int
	lastBy  [][2]int64
	atts    []attObs
	pending []uint64
	oracles []orcObs
	osets   []objObs
	batches []objObs
	bcalls  []objObs
	cursors [3]uint64
	window  uint64
}
type objObs struct {
	key, height uint64
	confirms    []int64 // external-address ids, ascending
}
type attObs struct {
	nonce uint64
	cls   int64
	hash  string
	obs   bool
	votes []int64
}
type orcObs struct {
	id      int64
	stake   *big.Int
	online  bool
	bridger int64
	slash   int64
	start   int64
}

type hist struct {
	name    string
	prop    string
	seed    int64
	module  string
	c       *lib.Chain
	x       *lib.XChain
	rep     *lib.Report
	verbose bool
	light   bool // long history: full store projection only every 40th operation and at the end

	orc   []*lib.Oracle
	spare []lib.Key
	oid   map[string]int64
	bid   map[string]int64
	eid   map[string]int64
	extOf map[int64]string

	classOf   map[string]int64
	nextClass int64

	ops   []Op
	items []string // coq (op, obs) pairs
	opsOnly []string // coq operations only (prefix of a transaction case)
	mon   *monitor
	cfg   string

	reInstalled map[uint64]bool
	ibcChannel  string
	batchNonce  uint64

	// generator bookkeeping (what the generator believes; never used by the monitor)
	unbondCount map[int]int
}

func newHist(seed int64, module, name string, rep *lib.Report, prop string) *hist {
	h := &hist{name: name, prop: prop, seed: seed, module: module, rep: rep,
		oid: map[string]int64{}, bid: map[string]int64{}, eid: map[string]int64{}, extOf: map[int64]string{},
		classOf: map[string]int64{}, unbondCount: map[int]int{}}
	h.c = lib.NewChain(seed, 1, nil)
	h.x = h.c.X(module)
	for i := 0; i < maxOracles; i++ {
		o := h.x.NewOracle(i)
		h.orc = append(h.orc, o)
		h.oid[o.Oracle.Acc().String()] = int64(i)
		h.bid[o.Bridger.Acc().String()] = int64(i)
		h.eid[o.ExtAddr] = int64(i)
		h.extOf[int64(i)] = o.ExtAddr
	}
	for i := 0; i < 8; i++ {
		k := lib.EthKey(seed, "sparebridger/"+module, i)
		h.spare = append(h.spare, k)
		h.bid[k.Acc().String()] = int64(spareBridger + i)
		e := h.x.NewOracle(1000 + i).ExtAddr
		h.eid[e] = int64(spareExt + i)
		h.extOf[int64(spareExt+i)] = e
	}
	p := h.x.Keeper.GetParams(h.c.Ctx)
	frac := new(big.Int).Set(p.SlashFraction.BigInt()) // LegacyDec: scaled by 10^18
	h.cfg = fmt.Sprintf("(mk_cfg %s %d %s %s %s)", lib.ZBig(p.DelegateThreshold.Amount.BigInt()), p.DelegateMultiple, lib.ZBig(frac),
		lib.Bool(codeFacts.UnbondDeletesCursor), lib.Bool(codeFacts.CursorClamps))
	h.mon = newMonitor(h)
	return h
}

func (h *hist) bridgerKey(id int) lib.Key {
	if id >= spareBridger {
		return h.spare[(id-spareBridger)%len(h.spare)]
	}
	return h.orc[id%maxOracles].Bridger
}

func (h *hist) funded(addr sdk.AccAddress) {
	if h.c.App.BankKeeper.GetBalance(h.c.Ctx, addr, fxtypes.DefaultDenom).Amount.LT(sdkmath.NewInt(500_000).MulRaw(1e18)) {
		h.c.Mint(addr, lib.FX(5_000_000))
	}
}

// try runs f on a cache branch with its own event manager; committed only if f returns nil.
func (h *hist) try(f func(ctx sdk.Context) error) (err error, events sdk.Events) {
	cctx, write := h.c.Ctx.CacheContext()
	cctx = cctx.WithEventManager(sdk.NewEventManager())
	defer func() {
		if r := recover(); r != nil {
			err = fmt.Errorf("PANIC: %v", r)
		}
	}()
	if e := f(cctx); e != nil {
		return e, nil
	}
	write()
	return nil, cctx.EventManager().Events()
}

// ---------- claims ----------

func (h *hist) extAddr(i int) string {
	e := lib.EthKey(7, "claimaddr", i).Hex()
	return crosschaintypes.ExternalAddrToStr(h.module, e.Bytes())
}

// mkClaim builds the claim (nonce, kind, variant); variants of one nonce differ in a hashed field.
func (h *hist) mkClaim(o Op, bridger string) crosschaintypes.ExternalClaim {
	switch o.CKind {
	case "token":
		// variant 0 of every nonce names the same token contract (so a later one fails "bridge token is exist")
		// variants 1 and 2 are an adversarially close pair: same contract, the characters "T" moved across the
		// name / symbol boundary ("TokT","K9") vs ("Tok","TK9") — different events that a careless hash would pool
		tc := h.extAddr(50 + o.Variant)
		name, symbol := "Tok", fmt.Sprintf("TK%d", o.Variant)
		switch o.Variant {
		case 0:
			symbol = fxtypes.DefaultDenom
		case 1:
			tc, name, symbol = h.extAddr(51), "TokT", "K9"
		case 2:
			tc, name, symbol = h.extAddr(51), "Tok", "TK9"
		}
		return &crosschaintypes.MsgBridgeTokenClaim{
			EventNonce: o.Nonce, BlockHeight: 1000 + o.Nonce, TokenContract: tc,
			Name: name, Symbol: symbol, Decimals: 18,
			BridgerAddress: bridger, ChainName: h.module,
		}
	case "oset":
		var ms []crosschaintypes.BridgeValidator
		for _, m := range o.Members {
			ms = append(ms, crosschaintypes.BridgeValidator{Power: uint64(1000 + o.Variant), ExternalAddress: h.extOf[int64(m)]})
		}
		return &crosschaintypes.MsgOracleSetUpdatedClaim{
			EventNonce: o.Nonce, BlockHeight: 1000 + o.Nonce, OracleSetNonce: 0, Members: ms,
			BridgerAddress: bridger, ChainName: h.module,
		}
	case "callre":
		return &crosschaintypes.MsgBridgeCallClaim{
			ChainName: h.module, BridgerAddress: bridger, EventNonce: o.Nonce, BlockHeight: 1000 + o.Nonce,
			Sender: h.extAddr(1), Refund: h.extAddr(2), TxOrigin: h.extAddr(1),
			To:    crosschaintypes.ExternalAddrToStr(h.module, h.reContract(o.Nonce).Bytes()),
			Value: sdkmath.ZeroInt(), Data: "", Memo: fmt.Sprintf("%02x", o.Variant),
		}
	case "call":
		// variants 1 and 2 are an adversarially close pair: the same call except that characters move across the
		// data / value boundary (data "ab12", value 3) vs (data "ab", value 123) — hex data, decimal value
		to, data, value := h.extAddr(3+o.Variant), "", sdkmath.ZeroInt()
		switch o.Variant {
		case 1:
			to, data, value = h.extAddr(4), "ab12", sdkmath.NewInt(3)
		case 2:
			to, data, value = h.extAddr(4), "ab", sdkmath.NewInt(123)
		}
		return &crosschaintypes.MsgBridgeCallClaim{
			ChainName: h.module, BridgerAddress: bridger, EventNonce: o.Nonce, BlockHeight: 1000 + o.Nonce,
			Sender: h.extAddr(1), Refund: h.extAddr(2), To: to, TxOrigin: h.extAddr(1),
			Value: value, Data: data, Memo: "",
		}
	case "fxibc":
		// SendToFx whose target is an IBC channel: variant 0 the transfer channel opened by the "channel" op (routable while
		// it is OPEN), other variants a channel that does not exist (the IBC leg fails)
		ch := "channel-77"
		if o.Variant == 0 && h.ibcChannel != "" {
			ch = h.ibcChannel
		}
		return &crosschaintypes.MsgSendToFxClaim{
			EventNonce: o.Nonce, BlockHeight: 1000 + o.Nonce, TokenContract: h.extAddr(50),
			Amount: sdkmath.NewInt(int64(5000 + o.Variant)), Sender: h.extAddr(4),
			Receiver:  lib.EthKey(7, "receiver", 0).Acc().String(),
			TargetIbc: hex.EncodeToString([]byte("px/transfer/" + ch)),
			BridgerAddress: bridger, ChainName: h.module,
		}
	default: // "fx": SendToFx; even variants use the token registered by the "token" claim variant 0
		tok := h.extAddr(50)
		if o.Variant%2 == 1 {
			tok = h.extAddr(90 + o.Variant) // unknown token: the deferred handler fails
		}
		return &crosschaintypes.MsgSendToFxClaim{
			EventNonce: o.Nonce, BlockHeight: 1000 + o.Nonce, TokenContract: tok,
			Amount: sdkmath.NewInt(int64(1000 + o.Variant)), Sender: h.extAddr(4),
			Receiver: lib.EthKey(7, "receiver", 0).Acc().String(), TargetIbc: "",
			BridgerAddress: bridger, ChainName: h.module,
		}
	}
}

func parks(ckind string) bool {
	return ckind == "fx" || ckind == "fxibc" || ckind == "call" || ckind == "callre"
}

// ---- re-entrant callback contract -------------------------------------------------------------
// Runtime code (hand assembled, no solc in the sandbox):
//     if (address(this).balance == 0) return;
//     sink.call{value: 1}("");                       // one wei per run: the sink's balance counts the runs
//     crosschainPrecompile.call(executeClaim(chain, nonce));   // result ignored
// The contract is funded with 3 wei, which bounds the recursion should a nested execution ever succeed.
func (h *hist) reContract(nonce uint64) common.Address {
	return lib.EthKey(h.seed, "recontract/"+h.module, int(nonce)).Hex()
}
func (h *hist) reSink(nonce uint64) common.Address {
	return lib.EthKey(h.seed, "resink/"+h.module, int(nonce)).Hex()
}

func (h *hist) installReentrant(nonce uint64) {
	if h.reInstalled == nil {
		h.reInstalled = map[uint64]bool{}
	}
	if h.reInstalled[nonce] {
		return
	}
	input, err := precompile.NewExecuteClaimMethod(nil).PackInput(crosschaintypes.ExecuteClaimArgs{Chain: h.module, EventNonce: new(big.Int).SetUint64(nonce)})
	lib.Must(err)
	a := &lib.Asm{}
	a.Op(vm.SELFBALANCE)
	dest := len(a.B) + 3 + 1 + 1
	a.B = append(a.B, byte(vm.PUSH2), byte(dest>>8), byte(dest))
	a.Op(vm.JUMPI, vm.STOP, vm.JUMPDEST)
	a.PushU(0).PushU(0).PushU(0).PushU(0).PushU(1).PushAddr(h.reSink(nonce)).Op(vm.GAS, vm.CALL, vm.POP)
	a.Call(lib.CALL, crosschaintypes.GetAddress(), 0, nil, input).Ignore().Stop()
	h.c.InstallCode(h.c.Ctx, h.reContract(nonce), a.B)
	h.c.Mint(h.reContract(nonce).Bytes(), sdk.NewCoin(fxtypes.DefaultDenom, sdkmath.NewInt(3)))
	h.reInstalled[nonce] = true
}

// handlerRuns: how many times the callback of nonce's bridge call ran (wei received by its sink).
func (h *hist) handlerRuns(nonce uint64) int64 {
	if !h.reInstalled[nonce] {
		return -1
	}
	return h.c.App.BankKeeper.GetBalance(h.c.Ctx, h.reSink(nonce).Bytes(), fxtypes.DefaultDenom).Amount.Int64()
}

func (h *hist) classID(nonce uint64, hash []byte) int64 {
	k := fmt.Sprintf("%d/%x", nonce, hash)
	if id, ok := h.classOf[k]; ok {
		return id
	}
	h.nextClass++
	h.classOf[k] = h.nextClass
	return h.nextClass
}

// ---------- applying one operation to the real app ----------

func (h *hist) apply(o Op) (accepted bool, errStr string) {
	h.ops = append(h.ops, o)
	ms := h.x.Msg()
	pre := h.mon.before(o)
	var err error
	var events sdk.Events
	coqOps := []string{}
	switch o.Kind {
	case "vote":
		bridger := h.bridgerKey(o.Bridger).Acc().String()
		claim := h.mkClaim(o, bridger)
		cls := h.classID(o.Nonce, claim.ClaimHash())
		// the event's CONTENT (every field except who reports it), independent of how the code hashes it
		if anyContent, e := codectypes.NewAnyWithValue(h.mkClaim(o, "")); e == nil {
			pre.content = anyContent.TypeUrl + ":" + hex.EncodeToString(anyContent.Value)
		}
		pre.cls = cls
		pre.hash = hex.EncodeToString(claim.ClaimHash())
		anyClaim, e := codectypes.NewAnyWithValue(claim)
		lib.Must(e)
		err, events = h.try(func(ctx sdk.Context) error {
			_, e := ms.Claim(ctx, &crosschaintypes.MsgClaim{ChainName: h.module, BridgerAddress: bridger, Claim: anyClaim})
			return e
		})
		var mem []int64
		for _, m := range o.Members {
			mem = append(mem, int64(m))
		}
		if o.CKind != "oset" {
			mem = nil
		}
		coqOps = append(coqOps, fmt.Sprintf("Vote %d %d %d %s %s", o.Bridger, o.Nonce, cls, lib.Bool(parks(o.CKind)), lib.ZList(mem)))
	case "exec", "exec_evm":
		before := h.c.DumpPrefix(h.c.Ctx, h.module, nil)
		bankBefore := h.bankDigest()
		if o.Kind == "exec" {
			err, events = h.try(func(ctx sdk.Context) error { return h.x.Keeper.ExecuteClaim(ctx, o.Nonce) })
		} else {
			err, events = h.try(func(ctx sdk.Context) error {
				data, e := precompile.NewExecuteClaimMethod(nil).PackInput(crosschaintypes.ExecuteClaimArgs{Chain: h.module, EventNonce: new(big.Int).SetUint64(o.Nonce)})
				lib.Must(e)
				caller := lib.EthKey(h.seed, "executor", 0)
				to := crosschaintypes.GetAddress()
				r := h.c.EvmCall(ctx, caller.Hex(), &to, nil, 3_000_000, data)
				// the EVM transaction is committed whether it failed or not (as in a block): what a
				// revert leaves behind is part of the observation
				if r.Err != nil {
					return r.Err
				}
				if r.Failed {
					pre.evmFailed = true
				}
				return nil
			})
			if err == nil && pre.evmFailed {
				err = fmt.Errorf("evm tx failed (reverted)")
			}
		}
		if err != nil {
			after := h.c.DumpPrefix(h.c.Ctx, h.module, nil)
			pre.storeChangedOnFailure = !sameKV(before, after)
		}
		_, found := h.pendingHas(pre.pendingBefore, o.Nonce)
		handlerOK := err == nil
		_ = found
		pre.bankChanged = bankBefore != h.bankDigest()
		coqOps = append(coqOps, fmt.Sprintf("Exec %d %s", o.Nonce, lib.Bool(handlerOK)))
	case "bond":
		oc := h.orc[o.Oracle]
		h.funded(oc.Oracle.Acc())
		ext := h.extOf[int64(o.Ext)]
		bk := h.bridgerKey(o.Bridger)
		err, events = h.try(func(ctx sdk.Context) error {
			_, e := ms.BondedOracle(ctx, &crosschaintypes.MsgBondedOracle{
				OracleAddress: oc.Oracle.Acc().String(), BridgerAddress: bk.Acc().String(), ExternalAddress: ext,
				ValidatorAddress: h.c.ValKeys[0].Val().String(),
				DelegateAmount:   sdk.NewCoin(fxtypes.DefaultDenom, sdkmath.NewInt(o.Stake).MulRaw(1e18)),
				ChainName:        h.module,
			})
			return e
		})
		coqOps = append(coqOps, fmt.Sprintf("Bond %d %d %d %s", o.Oracle, o.Bridger, o.Ext, fxZ(o.Stake)))
	case "add":
		oc := h.orc[o.Oracle]
		h.funded(oc.Oracle.Acc())
		err, events = h.try(func(ctx sdk.Context) error {
			_, e := ms.AddDelegate(ctx, &crosschaintypes.MsgAddDelegate{
				ChainName: h.module, OracleAddress: oc.Oracle.Acc().String(),
				Amount: sdk.NewCoin(fxtypes.DefaultDenom, sdkmath.NewInt(o.Stake*10+o.Tenths).MulRaw(1e17)),
			})
			return e
		})
		coqOps = append(coqOps, fmt.Sprintf("AddDelegate %d %s", o.Oracle, lib.ZBig(new(big.Int).Mul(big.NewInt(o.Stake*10+o.Tenths), big.NewInt(1e17)))))
	case "slash":
		// what keeper.slashing does for the listed oracles: SlashOracle on each, SetLastTotalPower if any
		err, events = h.try(func(ctx sdk.Context) error {
			for _, i := range o.List {
				h.x.Keeper.SlashOracle(ctx, h.orc[i].Oracle.Acc().String())
			}
			if len(o.List) > 0 {
				h.x.Keeper.SetLastTotalPower(ctx)
			}
			return nil
		})
		coqOps = append(coqOps, "SlashPass "+intList(o.List))
	case "gov":
		var addrs []string
		for _, i := range o.List {
			addrs = append(addrs, h.orc[i].Oracle.Acc().String())
		}
		err, events = h.try(func(ctx sdk.Context) error {
			_, e := ms.UpdateChainOracles(ctx, &crosschaintypes.MsgUpdateChainOracles{ChainName: h.module, Authority: lib.GovAuthority(), Oracles: addrs})
			return e
		})
		coqOps = append(coqOps, "GovSet "+intList(o.List))
	case "unbond":
		oc := h.orc[o.Oracle]
		err, events = h.try(func(ctx sdk.Context) error {
			_, e := ms.UnbondedOracle(ctx, &crosschaintypes.MsgUnbondedOracle{ChainName: h.module, OracleAddress: oc.Oracle.Acc().String()})
			return e
		})
		if err == nil {
			h.unbondCount[o.Oracle]++
		}
		coqOps = append(coqOps, fmt.Sprintf("Unbond %d", o.Oracle))
	case "edit":
		oc := h.orc[o.Oracle]
		err, events = h.try(func(ctx sdk.Context) error {
			_, e := ms.EditBridger(ctx, &crosschaintypes.MsgEditBridger{ChainName: h.module, OracleAddress: oc.Oracle.Acc().String(), BridgerAddress: h.bridgerKey(o.Bridger).Acc().String()})
			return e
		})
		coqOps = append(coqOps, fmt.Sprintf("EditBridger %d %d", o.Oracle, o.Bridger))
	case "export":
		// lifecycle: genesis export (through JSON, as a restart from an exported genesis would) -> wipe the module's store
		// -> InitGenesis of the exported state, on the running app
		err, events = h.try(func(ctx sdk.Context) error {
			cdc := h.c.App.AppCodec()
			bz := cdc.MustMarshalJSON(crosschainkeeper.ExportGenesis(ctx, h.x.Keeper))
			store := ctx.KVStore(h.c.App.GetKey(h.module))
			var keys [][]byte
			it := store.Iterator(nil, nil)
			for ; it.Valid(); it.Next() {
				keys = append(keys, append([]byte{}, it.Key()...))
			}
			it.Close()
			for _, k := range keys {
				store.Delete(k)
			}
			var st crosschaintypes.GenesisState
			cdc.MustUnmarshalJSON(bz, &st)
			crosschainkeeper.InitGenesis(ctx, h.x.Keeper, &st)
			return nil
		})
		coqOps = append(coqOps, "ExportImport")
	case "channel":
		// an OPEN ibc transfer channel on the real app (no model operation)
		if h.ibcChannel == "" {
			_, h.ibcChannel = h.c.OpenTransferChannel(1)
		}
		return true, ""
	case "chanstate":
		// close (Window = 1) / re-open (Window = 0) the transfer channel (no model operation)
		if h.ibcChannel != "" {
			h.c.SetChannelClosed(h.c.Ctx, "transfer", h.ibcChannel, o.Window == 1)
		}
		return true, ""
	case "install":
		// a callback contract for the bridge call of event nonce o.Nonce that re-enters executeClaim(chain, nonce)
		// (no model operation: nothing the model covers changes)
		h.installReentrant(o.Nonce)
		return true, ""
	case "window":
		// module parameter change through the authority-guarded handler
		p := h.x.Keeper.GetParams(h.c.Ctx)
		p.SignedWindow = o.Window
		err, events = h.try(func(ctx sdk.Context) error {
			_, e := ms.UpdateParams(ctx, &crosschaintypes.MsgUpdateParams{ChainName: h.module, Authority: lib.GovAuthority(), Params: p})
			return e
		})
		lib.Must(err)
		coqOps = append(coqOps, fmt.Sprintf("SetWindow %d", o.Window))
	case "batch":
		// an outgoing batch created in this block (stored the way BuildOutgoingTxBatch stores it; at most one per block)
		h.batchNonce++
		tok := h.extAddr(60)
		err, events = h.try(func(ctx sdk.Context) error {
			return h.x.Keeper.StoreBatch(ctx, &crosschaintypes.OutgoingTxBatch{BatchNonce: h.batchNonce, BatchTimeout: 1 << 40, TokenContract: tok,
				Block: uint64(ctx.BlockHeight()), FeeReceive: tok})
		})
		if err != nil {
			h.batchNonce--
		}
		coqOps = append(coqOps, "AddBatch")
	case "bcall":
		user := lib.EthKey(h.seed, "bcalluser", 0)
		err, events = h.try(func(ctx sdk.Context) error {
			_, e := ms.BridgeCall(ctx, &crosschaintypes.MsgBridgeCall{ChainName: h.module, Sender: user.Acc().String(), Refund: user.Acc().String(),
				To: h.extAddr(61), Value: sdkmath.ZeroInt()})
			return e
		})
		coqOps = append(coqOps, "AddBCall")
	case "confirm":
		// oracle-set / batch / bridge-call confirmation through the real handlers, signed with the external key
		// that belongs to external id o.Ext (eth-style chains)
		err, events = h.try(func(ctx sdk.Context) error { return h.confirm(ctx, o) })
		coqOps = append(coqOps, fmt.Sprintf("Confirm %d %d %d", map[string]int{"oset": 0, "batch": 1, "bcall": 2}[o.CKind], o.Nonce, o.Ext))
	case "block":
		// the REAL end blocker (and begin blocker of the next block) runs; which oracles it slashes is the MODEL's
		// prediction now (M_EndBlock.slashing inside M_Attest.end_block); the only thing read off the implementation
		// is whether an oracle set request was created
		onlineBefore := map[int64]bool{}
		for _, oc := range pre.ob.oracles {
			onlineBefore[oc.id] = oc.online
		}
		setNonceBefore := h.x.Keeper.GetLatestOracleSetNonce(h.c.Ctx)
		if o.Days > 0 {
			err = h.c.NextBlockAfter(time.Duration(o.Days)*24*time.Hour + lib.BlockStep)
			if o.Days >= 22 {
				coqOps = append(coqOps, "Mature") // the staking end blocker completes every unbonding
			}
		} else {
			err = h.c.NextBlock()
		}
		if err != nil {
			// block processing failed: not a C01/C02 matter by itself, but nothing further can be compared
			h.rep.Fail(lib.Failure{Kind: "harness", What: "block processing failed in " + h.name + ": " + short(err), Sig: "harness:block"})
			return false, short(err)
		}
		for _, oc := range h.readOracles() {
			if onlineBefore[oc.id] && !oc.online {
				h.rep.Count("block:oracle-slashed-by-end-blocker")
			}
		}
		newset := h.x.Keeper.GetLatestOracleSetNonce(h.c.Ctx) != setNonceBefore
		if newset {
			h.rep.Count("block:oracle-set-request(refresh)")
		}
		coqOps = append(coqOps, "EndBlock "+lib.Bool(newset))
	default:
		panic("unknown op kind " + o.Kind)
	}

	ob := h.observe()
	if err != nil {
		ob.acc = 1
		if strings.HasPrefix(err.Error(), "PANIC") {
			ob.acc = 2
		}
	}
	h.opsOnly = append(h.opsOnly, coqOps...)
	for i, co := range coqOps {
		if i < len(coqOps)-1 {
			h.items = append(h.items, "("+co+", mk_skip)") // internal stage of one real operation
			continue
		}
		if h.light && len(h.ops)%40 != 0 {
			h.items = append(h.items, fmt.Sprintf("(%s, mk_light %d %d %s)", co, ob.acc, ob.lastObs, lib.ZBig(ob.total)))
		} else {
			h.items = append(h.items, "("+co+", "+h.coqObs(ob)+")")
		}
	}
	h.mon.after(o, pre, ob, err, events)
	if h.verbose {
		fmt.Printf("%-3d %-60s -> acc=%d lastObs=%d total=%s pending=%v err=%s\n", len(h.ops)-1, fmt.Sprintf("%+v", o), ob.acc, ob.lastObs, ob.total, ob.pending, short(err))
	}
	return err == nil, short(err)
}

// bankDigest: a digest of every balance and supply entry (gas price is 0 in the harness' EVM calls, so an execution
// whose handler did nothing or was reverted leaves it unchanged)
func (h *hist) bankDigest() [32]byte {
	hh := sha256.New()
	for _, kv := range h.c.DumpPrefix(h.c.Ctx, "bank", nil) {
		hh.Write(kv.K)
		hh.Write([]byte{0})
		hh.Write(kv.V)
		hh.Write([]byte{1})
	}
	var out [32]byte
	copy(out[:], hh.Sum(nil))
	return out
}

func (h *hist) pendingHas(p []uint64, n uint64) (int, bool) {
	for i, v := range p {
		if v == n {
			return i, true
		}
	}
	return -1, false
}

func sameKV(a, b []lib.KV) bool {
	if len(a) != len(b) {
		return false
	}
	for i := range a {
		if string(a[i].K) != string(b[i].K) || string(a[i].V) != string(b[i].V) {
			return false
		}
	}
	return true
}

func fxZ(fx int64) string { return lib.ZBig(new(big.Int).Mul(big.NewInt(fx), big.NewInt(1e18))) }

func intList(l []int) string {
	s := make([]string, len(l))
	for i, v := range l {
		s[i] = fmt.Sprint(v)
	}
	return "[" + strings.Join(s, "; ") + "]"
}

// extKey: the external private key behind external id (own key of oracle id, or a spare one)
func (h *hist) extKey(ext int) *ecdsa.PrivateKey {
	if ext >= spareExt {
		return h.x.NewOracle(1000 + ext - spareExt).External
	}
	return h.orc[ext%maxOracles].External
}

// confirm: one confirmation through the real handler (OracleSetConfirm / ConfirmBatch / BridgeCallConfirm).
func (h *hist) confirm(ctx sdk.Context, o Op) error {
	k := h.x.Keeper
	gid := k.GetGravityID(ctx)
	extAddr := h.extOf[int64(o.Ext)]
	bridger := h.bridgerKey(o.Ext % maxOracles).Acc().String()
	if oa, found := k.GetOracleAddrByExternalAddr(ctx, extAddr); found {
		if rec, ok := k.GetOracle(ctx, oa); ok {
			bridger = rec.BridgerAddress
		}
	}
	sign := func(cp []byte) string {
		sig, err := crosschaintypes.NewEthereumSignature(cp, h.extKey(o.Ext))
		lib.Must(err)
		return hex.EncodeToString(sig)
	}
	switch o.CKind {
	case "oset":
		set := k.GetOracleSet(ctx, o.Nonce)
		sigHex := "00"
		if set != nil {
			cp, err := set.GetCheckpoint(gid)
			lib.Must(err)
			sigHex = sign(cp)
		}
		_, e := h.x.Msg().OracleSetConfirm(ctx, &crosschaintypes.MsgOracleSetConfirm{Nonce: o.Nonce, BridgerAddress: bridger,
			ExternalAddress: extAddr, Signature: sigHex, ChainName: h.module})
		return e
	case "batch": // o.Nonce is the creation block, the model's key
		var bt *crosschaintypes.OutgoingTxBatch
		for _, b := range k.GetOutgoingTxBatches(ctx) {
			if b.Block == o.Nonce {
				bt = b
			}
		}
		if bt == nil {
			_, e := h.x.Msg().ConfirmBatch(ctx, &crosschaintypes.MsgConfirmBatch{Nonce: 1 << 50, TokenContract: h.extAddr(60), BridgerAddress: bridger,
				ExternalAddress: extAddr, Signature: "00", ChainName: h.module})
			return e
		}
		cp, err := bt.GetCheckpoint(gid)
		lib.Must(err)
		_, e := h.x.Msg().ConfirmBatch(ctx, &crosschaintypes.MsgConfirmBatch{Nonce: bt.BatchNonce, TokenContract: bt.TokenContract, BridgerAddress: bridger,
			ExternalAddress: extAddr, Signature: sign(cp), ChainName: h.module})
		return e
	default: // bcall
		bc, found := k.GetOutgoingBridgeCallByNonce(ctx, o.Nonce)
		sigHex := "00"
		if found {
			cp, err := bc.GetCheckpoint(gid)
			lib.Must(err)
			sigHex = sign(cp)
		}
		_, e := h.x.Msg().BridgeCallConfirm(ctx, &crosschaintypes.MsgBridgeCallConfirm{ChainName: h.module, BridgerAddress: bridger,
			ExternalAddress: extAddr, Nonce: o.Nonce, Signature: sigHex})
		return e
	}
}

// ---------- reading the real store ----------

func (h *hist) readOracles() []orcObs {
	var out []orcObs
	for _, kv := range h.c.DumpPrefix(h.c.Ctx, h.module, crosschaintypes.OracleKey) {
		var o crosschaintypes.Oracle
		h.c.App.AppCodec().MustUnmarshal(kv.V, &o)
		id, ok := h.oid[o.OracleAddress]
		if !ok {
			id = -1
		}
		b, ok := h.bid[o.BridgerAddress]
		if !ok {
			b = -1
		}
		out = append(out, orcObs{id: id, stake: o.DelegateAmount.BigInt(), online: o.Online, bridger: b, slash: o.SlashTimes, start: o.StartHeight})
	}
	sort.Slice(out, func(i, j int) bool { return out[i].id < out[j].id })
	return out
}

func (h *hist) observe() obsT {
	ctx := h.c.Ctx
	var ob obsT
	if kv := h.c.DumpPrefix(ctx, h.module, crosschaintypes.LastObservedEventNonceKey); len(kv) == 1 {
		ob.lastObs = binary.BigEndian.Uint64(kv[0].V)
	}
	ob.total = h.x.Keeper.GetLastTotalPower(ctx).BigInt()
	for _, kv := range h.c.DumpPrefix(ctx, h.module, crosschaintypes.LastEventNonceByOracleKey) {
		id, ok := h.oid[sdk.AccAddress(kv.K[1:]).String()]
		if !ok {
			id = -1
		}
		ob.lastBy = append(ob.lastBy, [2]int64{id, int64(binary.BigEndian.Uint64(kv.V))})
	}
	sort.Slice(ob.lastBy, func(i, j int) bool { return ob.lastBy[i][0] < ob.lastBy[j][0] })
	for _, kv := range h.c.DumpPrefix(ctx, h.module, crosschaintypes.OracleAttestationKey) {
		var a crosschaintypes.Attestation
		h.c.App.AppCodec().MustUnmarshal(kv.V, &a)
		n := binary.BigEndian.Uint64(kv.K[1:9])
		hash := kv.K[9:]
		ao := attObs{nonce: n, cls: h.classID(n, hash), hash: hex.EncodeToString(hash), obs: a.Observed}
		for _, v := range a.Votes {
			id, ok := h.oid[v]
			if !ok {
				id = -1
			}
			ao.votes = append(ao.votes, id)
		}
		ob.atts = append(ob.atts, ao)
	}
	sort.Slice(ob.atts, func(i, j int) bool {
		if ob.atts[i].nonce != ob.atts[j].nonce {
			return ob.atts[i].nonce < ob.atts[j].nonce
		}
		return ob.atts[i].cls < ob.atts[j].cls
	})
	for _, kv := range h.c.DumpPrefix(ctx, h.module, crosschaintypes.PendingExecuteClaimKey) {
		ob.pending = append(ob.pending, binary.BigEndian.Uint64(kv.K[1:]))
	}
	sort.Slice(ob.pending, func(i, j int) bool { return ob.pending[i] < ob.pending[j] })
	ob.oracles = h.readOracles()
	// what the end blocker's slashing phase reads
	k := h.x.Keeper
	extIDs := func(addrs []string) []int64 {
		var l []int64
		for _, a := range addrs {
			id, ok := h.eid[a]
			if !ok {
				id = -1
			}
			l = append(l, id)
		}
		sort.Slice(l, func(i, j int) bool { return l[i] < l[j] })
		return l
	}
	for _, set := range k.GetOracleSets(ctx) {
		var cs []string
		k.IterateOracleSetConfirmByNonce(ctx, set.Nonce, func(c *crosschaintypes.MsgOracleSetConfirm) bool { cs = append(cs, c.ExternalAddress); return false })
		ob.osets = append(ob.osets, objObs{set.Nonce, set.Height, extIDs(cs)})
	}
	for _, b := range k.GetOutgoingTxBatches(ctx) {
		var cs []string
		k.IterateBatchConfirmByNonceAndTokenContract(ctx, b.BatchNonce, b.TokenContract, func(c *crosschaintypes.MsgConfirmBatch) bool { cs = append(cs, c.ExternalAddress); return false })
		ob.batches = append(ob.batches, objObs{b.Block, b.Block, extIDs(cs)})
	}
	sort.Slice(ob.batches, func(i, j int) bool { return ob.batches[i].key < ob.batches[j].key })
	k.IterateOutgoingBridgeCalls(ctx, func(bc *crosschaintypes.OutgoingBridgeCall) bool {
		var cs []string
		k.IterBridgeCallConfirmByNonce(ctx, bc.Nonce, func(c *crosschaintypes.MsgBridgeCallConfirm) bool { cs = append(cs, c.ExternalAddress); return false })
		ob.bcalls = append(ob.bcalls, objObs{bc.Nonce, bc.BlockHeight, extIDs(cs)})
		return false
	})
	sort.Slice(ob.bcalls, func(i, j int) bool { return ob.bcalls[i].key < ob.bcalls[j].key })
	ob.cursors = [3]uint64{k.GetLastSlashedOracleSetNonce(ctx), k.GetLastSlashedBatchBlock(ctx), k.GetLastSlashedBridgeCallNonce(ctx)}
	ob.window = k.GetSignedWindow(ctx)
	return ob
}

func (h *hist) coqObs(ob obsT) string {
	var lb, ats, pe, os []string
	for _, p := range ob.lastBy {
		lb = append(lb, lib.Pair(lib.Z(p[0]), lib.Z(p[1])))
	}
	for _, a := range ob.atts {
		ats = append(ats, lib.Pair(lib.Pair(lib.ZU(a.nonce), lib.Z(a.cls)), lib.Pair(lib.Bool(a.obs), lib.ZList(a.votes))))
	}
	for _, p := range ob.pending {
		pe = append(pe, lib.ZU(p))
	}
	for _, o := range ob.oracles {
		os = append(os, fmt.Sprintf("(%s, (%s, %s, %s, %s, %s))", lib.Z(o.id), lib.ZBig(o.stake), lib.Bool(o.online), lib.Z(o.bridger), lib.Z(o.slash), lib.Z(o.start)))
	}
	objs := func(l []objObs) string {
		var out []string
		for _, x := range l {
			out = append(out, fmt.Sprintf("(%d, %d, %s)", x.key, x.height, lib.ZList(x.confirms)))
		}
		return lib.List(out)
	}
	return fmt.Sprintf("mk_obs %d %d %s %s %s %s %s %s %s %s (%d, %d, %d) %d", ob.acc, ob.lastObs, lib.ZBig(ob.total), lib.List(lb), lib.List(ats), lib.List(pe), lib.List(os),
		objs(ob.osets), objs(ob.batches), objs(ob.bcalls), ob.cursors[0], ob.cursors[1], ob.cursors[2], ob.window)
}

func (h *hist) coq() string {
	return "mk_hist " + h.cfg + "\n\t[" + strings.Join(h.items, ";\n\t") + "]"
}

func (h *hist) finish() {
	if h.light {
		// a final full comparison: an operation that changes nothing
		h.light = false
		h.apply(Op{Kind: "slash", List: nil})
	}
	h.mon.end()
}

func (h *hist) replay() Replay { return Replay{ChainSeed: h.seed, Module: h.module, Ops: append([]Op{}, h.ops...)} }

