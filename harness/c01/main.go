// c01: correspondence + monitors for properties C01 (events take effect exactly once, in nonce
// order) and C02 (66 % quorum of distinct registered oracles through their bridger).
//
// One binary serves both properties (VERIF_PROP=C01|C02 selects the report id, the case file
// names and which monitor findings are reported).  It drives the REAL crosschain keeper of the
// full fx-core app (lib.NewChain + c.X("eth") / c.X("tron")): real bonded oracles with unequal
// stakes, competing claims per nonce, random vote interleavings, membership changes (bond,
// add-delegate, governance list update, slashing through the real end blocker and through
// Keeper.SlashOracle, unbond + re-bond, edit bridger) and deferred execution through
// Keeper.ExecuteClaim and the real precompile executeClaim.
//
// After every operation the projection of the module store the properties talk about
// (0x24, 0x23, 0x17, 0x54, 0x39, 0x12) is printed into Cases_<prop>.v, where the Gallina model
// M_Attest.step is run on the same operations and compared inside coqc.  Independently of the
// model, monitors written from the property text are evaluated on the same real observables.
package main

import (
	"encoding/json"
	"fmt"
	"os"
	"path/filepath"
	"sort"
	"strings"

	"fxverif/lib"
)

func main() {
	if len(os.Args) > 1 && os.Args[1] == "-facts" {
		writeTreeFacts()
		return
	}
	prop := os.Getenv("VERIF_PROP")
	if prop != "C02" {
		prop = "C01"
	}
	mode := os.Getenv("VERIF_MODE")
	rep := lib.NewReport(prop)
	rep.Rule = "one case = one operation applied to the real keeper inside a generated history (votes of N in [1,7] (thorough: up to 40) " +
		"unequal-stake oracles on up to 3 competing claims per nonce, interleaved with bond/add-delegate/slash/governance list/unbond/" +
		"re-bond/edit-bridger/deferred execution/end blocks); non-trivial = accepted vote that arrives while another claim variant " +
		"for the same nonce is stored, or on an already observed attestation, or for a nonce beyond last-observed+1, or any accepted " +
		"membership/execute operation; distinct by (history, op index)"

	if mode == "replay" {
		runReplay(rep, prop)
		rep.Write()
		return
	}

	seed := lib.Seed()
	codeFacts = probeCodeFacts(seed)
	rep.Notes = append(rep.Notes, fmt.Sprintf("code facts probed on the real keeper: UnbondedOracle deletes the per-oracle cursor = %v; GetLastEventNonceByOracle lifts an old cursor = %v",
		codeFacts.UnbondDeletesCursor, codeFacts.CursorClamps))
	nh := 60
	if tier() == "thorough" {
		nh = 200
	}
	if mode == "search" {
		nh = 120
	}
	if v := lib.EnvInt("VERIF_N", 0); v > 0 {
		nh = int(v)
	}

	var items []string
	// scripted histories first: the witnesses of the Coq refutation theorems replayed on the real keeper,
	// and the boundary cases of the quorum rule
	for _, sc := range scripted() {
		h := newHist(seed, sc.Module, sc.Name, rep, prop)
		h.light = sc.Light
		for _, o := range sc.Ops {
			h.apply(o)
		}
		h.finish()
		items = append(items, h.coq())
		sc.Check(h, rep)
	}
	// corpus: replays of former findings; the monitors must stay silent and the recorded expectation must hold
	items = append(items, runCorpus(rep, prop)...)
	r := lib.NewRand(seed)
	for i := 0; i < nh; i++ {
		module := "eth"
		if i%5 == 4 {
			module = "tron"
		}
		h := newHist(seed*1000003+int64(i), module, fmt.Sprintf("gen-%d", i), rep, prop)
		generate(h, r, i)
		h.finish()
		items = append(items, h.coq())
	}
	lib.WriteCases("Cases_"+prop+".v", []string{"model.M_Attest", "model.M_AttestCorr"}, "hist", items, "hist_mismatch")

	if prop == "C02" {
		txCases(seed, rep)
	}
	rep.Write()
}

// runReplay re-executes the operation list of a replay file on a fresh chain and reports what the monitors say.
func runReplay(rep *lib.Report, prop string) {
	b, err := os.ReadFile(os.Getenv("VERIF_REPLAY"))
	lib.Must(err)
	var f struct {
		Replay json.RawMessage `json:"replay"`
	}
	lib.Must(json.Unmarshal(b, &f))
	var rp Replay
	lib.Must(json.Unmarshal(f.Replay, &rp))
	codeFacts = probeCodeFacts(1)
	if rp.Tx != nil {
		replayTx(rp, rep)
		return
	}
	h := newHist(rp.ChainSeed, rp.Module, "replay", rep, prop)
	h.verbose = true
	for _, o := range rp.Ops {
		h.apply(o)
	}
	h.finish()
	for _, f := range rep.Failures {
		fmt.Println("MONITOR:", f.What)
	}
	if len(rep.Failures) == 0 {
		fmt.Println("replay: no monitor failure on this tree")
	}
	lib.WriteCases("Cases_"+prop+".v", []string{"model.M_Attest", "model.M_AttestCorr"}, "hist", []string{h.coq()}, "hist_mismatch")
}

func short(err error) string {
	if err == nil {
		return ""
	}
	s := err.Error()
	s = strings.ReplaceAll(s, "\n", " ")
	if len(s) > 140 {
		s = s[:140]
	}
	return s
}

// runCorpus replays every corpus/<prop>/*.json (VERIF_CORPUS) on a fresh chain. A monitor failure is reported like
// any other; an unmet "expect" block is a regression of a fixed finding.
func runCorpus(rep *lib.Report, prop string) (items []string) {
	dir := os.Getenv("VERIF_CORPUS")
	if dir == "" {
		return nil
	}
	files, _ := filepath.Glob(filepath.Join(dir, "*.json"))
	sort.Strings(files)
	for _, f := range files {
		b, err := os.ReadFile(f)
		if err != nil {
			continue
		}
		var c struct {
			Signature string `json:"signature"`
			Expect    *struct {
				LastOpRejected *bool   `json:"last_op_rejected"`
				LastObserved   *uint64 `json:"last_observed"`
				VotesOfNonce1  []int64 `json:"votes_of_nonce_1"`
			} `json:"expect"`
			Replay Replay `json:"replay"`
		}
		if json.Unmarshal(b, &c) != nil || len(c.Replay.Ops) == 0 {
			continue
		}
		h := newHist(c.Replay.ChainSeed, c.Replay.Module, "corpus-"+filepath.Base(f), rep, prop)
		lastOK := false
		for _, o := range c.Replay.Ops {
			lastOK, _ = h.apply(o)
		}
		h.finish()
		items = append(items, h.coq())
		rep.Count("corpus-replays")
		if c.Expect != nil {
			ob := h.observe()
			var bad []string
			if c.Expect.LastOpRejected != nil && *c.Expect.LastOpRejected == lastOK {
				bad = append(bad, fmt.Sprintf("last operation accepted=%v", lastOK))
			}
			if c.Expect.LastObserved != nil && *c.Expect.LastObserved != ob.lastObs {
				bad = append(bad, fmt.Sprintf("last observed nonce %d", ob.lastObs))
			}
			if c.Expect.VotesOfNonce1 != nil {
				for _, a := range ob.atts {
					if a.nonce == 1 && fmt.Sprint(a.votes) != fmt.Sprint(c.Expect.VotesOfNonce1) {
						bad = append(bad, fmt.Sprintf("votes of nonce 1 are %v", a.votes))
					}
				}
			}
			if len(bad) > 0 {
				rep.Fail(lib.Failure{Kind: "monitor", What: "regression of a fixed finding (" + filepath.Base(f) + "): " + strings.Join(bad, "; "),
					Sig: c.Signature + ":regression", Replay: c.Replay})
			}
		}
	}
	return items
}

// tier: the search run (after a broken proof / tie) uses quick-sized histories, only more of them
func tier() string {
	if os.Getenv("VERIF_MODE") == "search" {
		return "quick"
	}
	return lib.Tier()
}
