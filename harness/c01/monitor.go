package main

// monitor.go: the properties C01/C02 evaluated on real observables only (store projection before and
// after each operation, events, results) — written from the property text, independent of the Coq model.
// It is the failing-input search; the theorems decide.

import (
	"encoding/binary"
	"fmt"
	"math/big"

	sdk "github.com/cosmos/cosmos-sdk/types"

	crosschaintypes "github.com/functionx/fx-core/v8/x/crosschain/types"

	"fxverif/lib"
)

type preT struct {
	cls, hashSet          int64
	hash                  string
	content               string
	ob                    obsT
	voteOracle            int64 // oracle id the claim's bridger maps to (-1: none)
	voteOracleOnline      bool
	voteOracleHasRecord   bool
	pendingBefore         []uint64
	evmFailed             bool
	storeChangedOnFailure bool
	blockSlashed          []int
	bankChanged           bool
}

type monitor struct {
	h         *hist
	voted     map[int64]map[uint64]bool // oracle id -> nonces it had an accepted vote for (whole history)
	lastAcc   map[int64]uint64          // oracle id -> last accepted nonce in its current registration
	execCount map[uint64]int
	moneyRuns map[uint64]int // event nonce -> executions after which balances / supply differed
	byContent map[uint64]map[string]map[int64]bool // event nonce -> claim content -> oracles with an accepted vote for exactly that content
	opIdx     int
}

func newMonitor(h *hist) *monitor {
	return &monitor{h: h, voted: map[int64]map[uint64]bool{}, lastAcc: map[int64]uint64{}, execCount: map[uint64]int{}, moneyRuns: map[uint64]int{}, byContent: map[uint64]map[string]map[int64]bool{}}
}

var powerReduction = new(big.Int).Exp(big.NewInt(10), big.NewInt(20), nil)

func powerOf(stake *big.Int) *big.Int { return new(big.Int).Quo(stake, powerReduction) }

func (m *monitor) before(o Op) *preT {
	h := m.h
	p := &preT{ob: h.observe(), voteOracle: -1}
	p.pendingBefore = p.ob.pending
	if o.Kind == "vote" {
		b := h.bridgerKey(o.Bridger).Acc()
		kv := h.c.DumpPrefix(h.c.Ctx, h.module, crosschaintypes.GetOracleAddressByBridgerKey(b))
		if len(kv) == 1 && len(kv[0].K) == 21 {
			if id, ok := h.oid[sdk.AccAddress(kv[0].V).String()]; ok {
				p.voteOracle = id
				for _, rec := range p.ob.oracles {
					if rec.id == id {
						p.voteOracleHasRecord = true
						p.voteOracleOnline = rec.online
					}
				}
			}
		}
	}
	return p
}

// at most a few failures per signature are reported, so that a frequent (known) one cannot crowd out a new one
var failsPerSig = map[string]int{}

func (m *monitor) fail(sig, what string) {
	h := m.h
	// each property reports its own findings; the shared root cause (re-vote after re-bond) is visible to both
	if len(sig) < 3 || sig[:3] != h.prop {
		return
	}
	h.rep.Count("monitor:" + sig)
	failsPerSig[sig]++
	if failsPerSig[sig] > 3 {
		return
	}
	h.rep.Fail(lib.Failure{Kind: "monitor", What: fmt.Sprintf("%s [%s/%s op %d]", what, h.module, h.name, m.opIdx), Sig: sig, Replay: h.replay()})
}

func findAtt(l []attObs, nonce uint64, hash string) *attObs {
	for i := range l {
		if l[i].nonce == nonce && l[i].hash == hash {
			return &l[i]
		}
	}
	return nil
}

func countOf(l []int64, v int64) int {
	n := 0
	for _, x := range l {
		if x == v {
			n++
		}
	}
	return n
}

func hasDup(l []int64) bool {
	seen := map[int64]bool{}
	for _, v := range l {
		if seen[v] {
			return true
		}
		seen[v] = true
	}
	return false
}

func sameU64(a, b []uint64) bool {
	if len(a) != len(b) {
		return false
	}
	for i := range a {
		if a[i] != b[i] {
			return false
		}
	}
	return true
}

func sameAtts(a, b []attObs) bool {
	if len(a) != len(b) {
		return false
	}
	for i := range a {
		if a[i].nonce != b[i].nonce || a[i].hash != b[i].hash || a[i].obs != b[i].obs || len(a[i].votes) != len(b[i].votes) {
			return false
		}
		for j := range a[i].votes {
			if a[i].votes[j] != b[i].votes[j] {
				return false
			}
		}
	}
	return true
}

func (m *monitor) after(o Op, pre *preT, ob obsT, err error, events sdk.Events) {
	h := m.h
	m.opIdx = len(h.ops) - 1
	accepted := err == nil
	old := pre.ob
	nontrivial := false

	// ---- C01: last observed nonce advances by exactly 0 or 1, only through a vote on lastObs+1 ----
	if ob.lastObs != old.lastObs && ob.lastObs != old.lastObs+1 {
		m.fail("C01:lastobs-jump", fmt.Sprintf("last observed event nonce went %d -> %d in one operation", old.lastObs, ob.lastObs))
	}
	advanced := ob.lastObs == old.lastObs+1
	if advanced && !(o.Kind == "vote" && accepted && o.Nonce == ob.lastObs) {
		m.fail("C01:advance-without-vote", fmt.Sprintf("last observed nonce advanced to %d by operation %s nonce %d accepted=%v", ob.lastObs, o.Kind, o.Nonce, accepted))
	}
	// ---- C01: at most one observed attestation per nonce; newly observed only at old lastObs+1 ----
	obsPerNonce := map[uint64]int{}
	newlyObserved := 0
	for _, a := range ob.atts {
		if !a.obs {
			continue
		}
		obsPerNonce[a.nonce]++
		if obsPerNonce[a.nonce] > 1 {
			m.fail("C01:two-observed", fmt.Sprintf("two observed attestations for event nonce %d", a.nonce))
		}
		if a.nonce > ob.lastObs {
			m.fail("C01:observed-beyond-last", fmt.Sprintf("attestation nonce %d observed but last observed nonce is %d", a.nonce, ob.lastObs))
		}
		b := findAtt(old.atts, a.nonce, a.hash)
		if b == nil || !b.obs {
			newlyObserved++
			if !(o.Kind == "vote" && accepted && a.nonce == o.Nonce && a.hash == pre.hash && a.nonce == old.lastObs+1) {
				m.fail("C01:observed-out-of-order", fmt.Sprintf("attestation nonce %d became observed while last observed was %d (op %s nonce %d)", a.nonce, old.lastObs, o.Kind, o.Nonce))
			}
		}
	}
	if advanced != (newlyObserved == 1) {
		m.fail("C01:advance-vs-observed", fmt.Sprintf("last observed advanced=%v but %d attestations became observed", advanced, newlyObserved))
	}
	for _, b := range old.atts {
		if b.obs {
			if a := findAtt(ob.atts, b.nonce, b.hash); a != nil && !a.obs {
				m.fail("C01:unobserved-again", fmt.Sprintf("attestation nonce %d lost its observed flag", b.nonce))
			}
		}
	}
	// ---- operations other than votes / executions leave events, tallies and parked claims alone ----
	if o.Kind != "vote" {
		if !sameAtts(old.atts, ob.atts) || ob.lastObs != old.lastObs {
			m.fail("C01:tally-changed-by-other-op", fmt.Sprintf("operation %s changed attestations / last observed nonce", o.Kind))
		}
		// (a genesis export drops the parked claims — not exported, finding C05-2 of the outgoing-transfer property;
		// for C01 that is "zero executions", which "at most once" allows; they must never come back, see exec-twice)
		if o.Kind == "export" && len(ob.pending) > 0 {
			newOnes := 0
			for _, n := range ob.pending {
				if _, was := h.pendingHas(old.pending, n); !was {
					newOnes++
				}
			}
			if newOnes > 0 {
				m.fail("C01:pending-changed-by-other-op", fmt.Sprintf("genesis export + import parked %d claims that were not parked before", newOnes))
			}
		}
		if o.Kind != "exec" && o.Kind != "exec_evm" && o.Kind != "export" && !sameU64(old.pending, ob.pending) {
			m.fail("C01:pending-changed-by-other-op", fmt.Sprintf("operation %s changed the parked claims", o.Kind))
		}
	}

	switch o.Kind {
	case "vote":
		flipped := false
		if a := findAtt(ob.atts, o.Nonce, pre.hash); a != nil && a.obs {
			if b := findAtt(old.atts, o.Nonce, pre.hash); b == nil || !b.obs {
				flipped = true
			}
		}
		if !accepted {
			if !sameAtts(old.atts, ob.atts) || !sameU64(old.pending, ob.pending) {
				m.fail("C01:rejected-vote-left-effects", "a rejected claim changed attestations or parked claims")
			}
			break
		}
		// ---- C02: only an online oracle through its registered bridger ----
		if pre.voteOracle < 0 || !pre.voteOracleHasRecord || !pre.voteOracleOnline {
			m.fail("C02:vote-admission", fmt.Sprintf("claim of bridger %d accepted although it maps to oracle %d record=%v online=%v", o.Bridger, pre.voteOracle, pre.voteOracleHasRecord, pre.voteOracleOnline))
		}
		if pre.voteOracleHasRecord {
			for _, rec := range old.oracles {
				if rec.id == pre.voteOracle && rec.bridger != h.bid[h.bridgerKey(o.Bridger).Acc().String()] {
					m.fail("C02:vote-admission", fmt.Sprintf("claim accepted through bridger %d which is not the registered bridger %d of oracle %d", o.Bridger, rec.bridger, rec.id))
				}
			}
		}
		// the vote is recorded once, for that oracle, on that very claim
		a := findAtt(ob.atts, o.Nonce, pre.hash)
		b := findAtt(old.atts, o.Nonce, pre.hash)
		pruned := ob.lastObs > 100 && o.Nonce <= ob.lastObs-100
		if a == nil {
			if !pruned {
				m.fail("C02:vote-not-recorded", fmt.Sprintf("accepted vote for nonce %d has no attestation", o.Nonce))
			}
		} else {
			nb := 0
			if b != nil {
				nb = len(b.votes)
			}
			if len(a.votes) != nb+1 || a.votes[len(a.votes)-1] != pre.voteOracle {
				m.fail("C02:vote-miscount", fmt.Sprintf("accepted vote of oracle %d on nonce %d: votes %v -> %v", pre.voteOracle, o.Nonce, votesOf(b), a.votes))
			}
		}
		// ---- C01: an oracle neither votes twice for a nonce nor skips one ----
		if m.voted[pre.voteOracle] == nil {
			m.voted[pre.voteOracle] = map[uint64]bool{}
		}
		if m.voted[pre.voteOracle][o.Nonce] || (a != nil && countOf(a.votes, pre.voteOracle) > 1) {
			m.fail("C01:revote", fmt.Sprintf("oracle %d had a second vote accepted for event nonce %d (votes now %v)", pre.voteOracle, o.Nonce, votesOf(a)))
			h.rep.Count("revote-after-rebond")
		}
		m.voted[pre.voteOracle][o.Nonce] = true
		// (within one registration and one run of the chain: after a restart from an exported genesis the cursors are
		// rebuilt from the stored votes and a lagging oracle restarts at lastObserved-1 like a new one — by design of
		// InitGenesis, not counted)
		if last, ok := m.lastAcc[pre.voteOracle]; ok && o.Nonce != last+1 {
			m.fail("C01:skip", fmt.Sprintf("oracle %d voted nonce %d after nonce %d within one registration", pre.voteOracle, o.Nonce, last))
		}
		m.lastAcc[pre.voteOracle] = o.Nonce
		cursorOK := false
		for _, p := range ob.lastBy {
			if p[0] == pre.voteOracle && uint64(p[1]) == o.Nonce {
				cursorOK = true
			}
		}
		if !cursorOK {
			m.fail("C01:cursor", fmt.Sprintf("per-oracle last event nonce of oracle %d is not %d after its accepted vote", pre.voteOracle, o.Nonce))
		}
		if m.byContent[o.Nonce] == nil {
			m.byContent[o.Nonce] = map[string]map[int64]bool{}
		}
		if m.byContent[o.Nonce][pre.content] == nil {
			m.byContent[o.Nonce][pre.content] = map[int64]bool{}
		}
		m.byContent[o.Nonce][pre.content][pre.voteOracle] = true
		if len(m.byContent[o.Nonce]) > 1 {
			h.rep.Count("vote:conflicting-content-for-nonce")
		}
		// ---- C02: the event that takes effect is the one THIS vote reports (TryAttestation processes the voter's claim):
		//      the distinct registered oracles that voted for exactly this content must hold the quorum ----
		if flipped {
			Pc := new(big.Int)
			for _, rec := range old.oracles {
				if rec.id >= 0 && m.byContent[o.Nonce][pre.content][rec.id] {
					Pc.Add(Pc, powerOf(rec.stake))
				}
			}
			lhsC := new(big.Int).Mul(big.NewInt(66), old.total)
			rhsC := new(big.Int).Add(new(big.Int).Mul(big.NewInt(100), Pc), big.NewInt(99))
			if lhsC.Cmp(rhsC) > 0 && (a == nil || !hasDup(a.votes)) {
				m.fail("C02:quorum-content", fmt.Sprintf("event nonce %d took effect with content %.60s… although the oracles that voted for exactly that content hold power %s of recorded total %s (bar %s); %d different contents were voted for this nonce, the attestation pools votes %v",
					o.Nonce, pre.content, Pc, old.total, new(big.Int).Quo(lhsC, big.NewInt(100)), len(m.byContent[o.Nonce]), votesOf(a)))
			}
		}
		// ---- C02: quorum of distinct registered oracles at the moment the event takes effect ----
		if flipped {
			distinct := map[int64]bool{}
			for _, v := range a.votes {
				distinct[v] = true
			}
			P := new(big.Int)
			for _, rec := range old.oracles { // votes do not change oracle records
				if distinct[rec.id] && rec.id >= 0 {
					P.Add(P, powerOf(rec.stake))
				}
			}
			T := old.total
			lhs := new(big.Int).Mul(big.NewInt(66), T)
			rhs := new(big.Int).Add(new(big.Int).Mul(big.NewInt(100), P), big.NewInt(99))
			if lhs.Cmp(rhs) > 0 {
				if hasDup(a.votes) {
					m.fail("C02:double-count", fmt.Sprintf("event nonce %d took effect with distinct registered voter power %s of recorded total %s (threshold 66*total/100 = %s): votes %v count an oracle twice", o.Nonce, P, T, new(big.Int).Quo(lhs, big.NewInt(100)), a.votes))
				} else {
					m.fail("C02:quorum", fmt.Sprintf("event nonce %d took effect with distinct registered voter power %s of recorded total %s (threshold %s), votes %v", o.Nonce, P, T, new(big.Int).Quo(lhs, big.NewInt(100)), a.votes))
				}
			} else if hasDup(a.votes) {
				h.rep.Count("flip-with-duplicate-votes-but-quorum-anyway")
			}
			if new(big.Int).Mul(big.NewInt(100), P).Cmp(lhs) < 0 {
				h.rep.Count("flip-below-literal-66pct(truncation)")
			}
			h.rep.Count("flip")
		}
		// contract_event: exactly when the event takes effect, carrying its nonce
		nEv := 0
		for _, e := range events {
			if e.Type == crosschaintypes.EventTypeContractEvent {
				nEv++
				for _, at := range e.Attributes {
					if at.Key == crosschaintypes.AttributeKeyEventNonce && at.Value != fmt.Sprint(o.Nonce) {
						m.fail("C01:event-nonce", fmt.Sprintf("contract_event carries nonce %s for a vote on %d", at.Value, o.Nonce))
					}
				}
			}
		}
		if (nEv == 1) != flipped || nEv > 1 {
			m.fail("C01:event-count", fmt.Sprintf("%d contract_event events, took effect=%v", nEv, flipped))
		}
		// classification
		others := 0
		for _, x := range old.atts {
			if x.nonce == o.Nonce && x.hash != pre.hash {
				others++
			}
		}
		if others > 0 {
			nontrivial = true
			h.rep.Count("vote:competing-variant-stored")
		}
		if b != nil && b.obs {
			nontrivial = true
			h.rep.Count("vote:on-already-observed")
		}
		if o.Nonce > old.lastObs+1 {
			nontrivial = true
			h.rep.Count("vote:ahead-of-lastobs+1")
		}
		if flipped && findLaterWithVotes(old.atts, o.Nonce) {
			h.rep.Count("flip:later-nonce-already-has-votes")
		}
	case "exec", "exec_evm":
		_, was := h.pendingHas(old.pending, o.Nonce)
		_, is := h.pendingHas(ob.pending, o.Nonce)
		// the effects of a parked claim (credit of the receiver, mint, escrow ...) at most once per event nonce, whatever
		// the call reported: balances / supply may differ after at most one execution attempt of a nonce
		if pre.bankChanged {
			m.moneyRuns[o.Nonce]++
			h.rep.Count("exec:moved-coins")
			if m.moneyRuns[o.Nonce] > 1 {
				m.fail("C01:exec-twice", fmt.Sprintf("the effects of parked claim %d moved coins in %d separate executions (accepted=%v, still parked=%v)", o.Nonce, m.moneyRuns[o.Nonce], accepted, is))
			}
			if !accepted {
				m.fail("C01:failed-exec-left-effects", fmt.Sprintf("failed execution of nonce %d changed balances / supply", o.Nonce))
			}
		}
		if accepted {
			nontrivial = true
			m.execCount[o.Nonce]++
			if !was {
				m.fail("C01:exec-not-parked", fmt.Sprintf("execution of nonce %d succeeded although no claim was parked", o.Nonce))
			}
			if is {
				m.fail("C01:exec-still-parked", fmt.Sprintf("claim %d still parked after its execution succeeded", o.Nonce))
			}
			if m.execCount[o.Nonce] > 1 {
				m.fail("C01:exec-twice", fmt.Sprintf("parked claim %d executed %d times", o.Nonce, m.execCount[o.Nonce]))
			}
			if runs := h.handlerRuns(o.Nonce); runs >= 0 {
				h.rep.Count("exec:callback-reenters-executeClaim")
				if runs != 1 {
					m.fail("C01:exec-twice", fmt.Sprintf("the effects of parked claim %d ran %d times within one execution (its callback re-entered executeClaim for the same nonce)", o.Nonce, runs))
				}
			}
		} else {
			if was != is || !sameU64(old.pending, ob.pending) {
				m.fail("C01:failed-exec-pending", fmt.Sprintf("failed execution of nonce %d changed the parked claims %v -> %v", o.Nonce, old.pending, ob.pending))
			}
			if pre.storeChangedOnFailure {
				m.fail("C01:failed-exec-left-effects", fmt.Sprintf("failed execution of nonce %d left changes in the %s store", o.Nonce, h.module))
			}
			if was {
				h.rep.Count("exec:handler-failed-claim-kept")
			}
		}
	case "unbond":
		if accepted {
			delete(m.lastAcc, int64(o.Oracle)) // a later registration starts where the chain then is
		}
		nontrivial = accepted
	case "export":
		m.lastAcc = map[int64]uint64{} // restart: cursors are rebuilt by InitGenesis
		nontrivial = true
		// the export/import must preserve what the properties rest on
		if ob.lastObs != old.lastObs || !sameAtts(old.atts, ob.atts) {
			m.fail("C01:export-import", "genesis export + import changed the last observed nonce or the attestations")
		}
		for _, p := range old.lastBy {
			if uint64(p[1]) >= old.lastObs { // a cursor at or beyond the last observed nonce must survive exactly
				found := false
				for _, q := range ob.lastBy {
					if q[0] == p[0] && q[1] == p[1] {
						found = true
					}
				}
				if !found {
					m.fail("C01:export-import", fmt.Sprintf("genesis export + import lost the cursor %d of oracle %d (last observed %d): it could vote again for a nonce it voted for", p[1], p[0], old.lastObs))
				}
			}
		}
	default:
		nontrivial = accepted
	}

	// ---- C02: recorded total power never below the power of the online oracles ----
	sum := new(big.Int)
	for _, rec := range ob.oracles {
		if rec.online {
			sum.Add(sum, powerOf(rec.stake))
		}
	}
	if ob.total.Cmp(sum) < 0 {
		m.fail("C02:total-below-online", fmt.Sprintf("recorded total power %s is below the online oracles' power %s after %s", ob.total, sum, o.Kind))
	}
	if ob.total.Cmp(sum) > 0 {
		h.rep.Count("total>online(stale-high)")
	}

	h.rep.Case(fmt.Sprintf("%s/%d", h.name, m.opIdx), nontrivial)
	h.rep.Count("op:" + o.Kind + map[bool]string{true: ":ok", false: ":rejected"}[accepted])
	if h.rep.Evaluations%97 == 1 {
		h.rep.Sample(map[string]interface{}{"history": h.name, "module": h.module, "op": o, "accepted": accepted, "last_observed": ob.lastObs, "total_power": ob.total.String()})
	}
}

func votesOf(a *attObs) []int64 {
	if a == nil {
		return nil
	}
	return a.votes
}

func findLaterWithVotes(l []attObs, nonce uint64) bool {
	for _, a := range l {
		if a.nonce > nonce && len(a.votes) > 0 {
			return true
		}
	}
	return false
}

func (m *monitor) end() {}

var _ = binary.BigEndian
