package main

import "fxverif/lib"

type TxCase struct {
	Signer  int `json:"signer"`
	Wrapper int `json:"wrapper"`
	Inner   int `json:"inner"`
}

func txCases(seed int64, rep *lib.Report) {}
func replayTx(rp Replay, rep *lib.Report) {}
