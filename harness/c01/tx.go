package main

// tx.go (C02): who must sign a MsgClaim transaction versus whose vote is counted.
// Real, fully signed transactions (SIGN_MODE_DIRECT) are delivered through the app's real
// runTx path in finalize mode (ValidateBasic of every message, the whole ante chain incl.
// signature verification against the signing context's required signers, message routing
// through the MsgServiceRouter into the crosschain router MsgServer).

import (
	"fmt"
	"strings"

	sdkmath "cosmossdk.io/math"
	storetypes "cosmossdk.io/store/types"
	clienttx "github.com/cosmos/cosmos-sdk/client/tx"
	codectypes "github.com/cosmos/cosmos-sdk/codec/types"
	sdk "github.com/cosmos/cosmos-sdk/types"
	"github.com/cosmos/cosmos-sdk/types/tx/signing"
	authsigning "github.com/cosmos/cosmos-sdk/x/auth/signing"

	fxtypes "github.com/functionx/fx-core/v8/types"
	crosschaintypes "github.com/functionx/fx-core/v8/x/crosschain/types"

	"fxverif/lib"
)

const outsiderBase = 300 // account ids >= 300: funded accounts that are nobody's bridger

// TxCase: after `Oracles` equal-stake oracles are bonded (and `PreVotes` honest votes cast), one MsgClaim
// transaction signed by account Signer, wrapper bridger_address = Wrapper, wrapped claim's bridger = Inner.
type TxCase struct {
	Name     string `json:"name"`
	Module   string `json:"module"`
	Oracles  int    `json:"oracles"`
	PreVotes []int  `json:"pre_votes,omitempty"` // bridger ids voting honestly for (nonce 1, variant 0) first
	Signer   int    `json:"signer"`
	Wrapper  int    `json:"wrapper"`
	Inner    int    `json:"inner"`
	Nonce    uint64 `json:"nonce"`
	BadInner bool   `json:"bad_inner,omitempty"` // wrapped claim fails its own ValidateBasic (zero block height)
	// a sequence of forged transactions instead of one (Signer signs all; Inner ranges over ForgeFor)
	ForgeFor []int `json:"forge_for,omitempty"`
	Bytes    bool  `json:"bytes"` // delivered as encoded bytes (true) or as a message object (false)
}

func (h *hist) accountKey(id int) lib.Key {
	if id >= outsiderBase {
		return lib.EthKey(h.seed, "outsider", id-outsiderBase)
	}
	return h.bridgerKey(id)
}

// deliverClaimTx builds, signs (by signer only) and delivers one MsgClaim transaction.
// asBytes: through BaseApp.runTx in finalize mode on the encoded transaction (decode, ValidateBasic, ante chain,
// message router).  Otherwise the same steps on the transaction object itself (ValidateBasic of each message,
// the app's real ante handler, the real MsgServiceRouter handler; state committed only if all succeed) —
// i.e. what runTx does once decoding has produced the message.
func (h *hist) deliverClaimTx(asBytes bool, signer, wrapper, inner lib.Key, claim crosschaintypes.ExternalClaim) (requiredSigners []string, err error) {
	app := h.c.App
	ctx := h.c.Ctx
	anyClaim, e := codectypes.NewAnyWithValue(claim)
	lib.Must(e)
	msg := &crosschaintypes.MsgClaim{ChainName: h.module, BridgerAddress: wrapper.Acc().String(), Claim: anyClaim}
	// required signers according to the app's signing context
	sgs, _, e := app.AppCodec().GetMsgV1Signers(msg)
	lib.Must(e)
	for _, s := range sgs {
		requiredSigners = append(requiredSigners, sdk.AccAddress(s).String())
	}

	h.funded(signer.Acc())
	acc := app.AccountKeeper.GetAccount(ctx, signer.Acc())
	txCfg := app.GetTxConfig()
	b := txCfg.NewTxBuilder()
	lib.Must(b.SetMsgs(msg))
	b.SetGasLimit(2_000_000)
	b.SetFeeAmount(sdk.NewCoins(sdk.NewCoin(fxtypes.DefaultDenom, sdkmath.NewInt(10).MulRaw(1e18))))
	mode := signing.SignMode_SIGN_MODE_DIRECT
	lib.Must(b.SetSignatures(signing.SignatureV2{PubKey: signer.Priv.PubKey(), Data: &signing.SingleSignatureData{SignMode: mode}, Sequence: acc.GetSequence()}))
	sd := authsigning.SignerData{ChainID: ctx.ChainID(), AccountNumber: acc.GetAccountNumber(), Sequence: acc.GetSequence(), PubKey: signer.Priv.PubKey(), Address: signer.Acc().String()}
	sig, e := clienttx.SignWithPrivKey(ctx, mode, sd, b, signer.Priv, txCfg, acc.GetSequence())
	lib.Must(e)
	lib.Must(b.SetSignatures(sig))
	defer func() {
		if r := recover(); r != nil {
			err = fmt.Errorf("PANIC: %v", r)
		}
	}()
	if asBytes {
		_, _, err = app.SimDeliver(txCfg.TxEncoder(), b.GetTx())
		return requiredSigners, err
	}
	tx := b.GetTx()
	bz, e := txCfg.TxEncoder()(tx)
	lib.Must(e)
	err, _ = h.try(func(cctx sdk.Context) error {
		cctx = cctx.WithTxBytes(bz).WithGasMeter(storetypes.NewInfiniteGasMeter())
		for _, m := range tx.GetMsgs() {
			if hv, ok := m.(sdk.HasValidateBasic); ok {
				if e := hv.ValidateBasic(); e != nil {
					return e
				}
			}
		}
		actx, e := app.AnteHandler()(cctx, tx, false)
		if e != nil {
			return e
		}
		for _, m := range tx.GetMsgs() {
			handler := app.MsgServiceRouter().Handler(m)
			if handler == nil {
				return fmt.Errorf("no message handler")
			}
			if _, e := handler(actx.WithEventManager(sdk.NewEventManager()), m); e != nil {
				return e
			}
		}
		return nil
	})
	return requiredSigners, err
}

func txScenarios() []TxCase {
	return []TxCase{
		{Name: "honest", Module: "eth", Oracles: 3, Signer: 1, Wrapper: 1, Inner: 1, Nonce: 1},
		{Name: "outsider-signs-for-oracle-1", Module: "eth", Oracles: 3, Signer: outsiderBase, Wrapper: outsiderBase, Inner: 1, Nonce: 1},
		{Name: "outsider-signs-wrapper-names-oracle", Module: "eth", Oracles: 3, Signer: outsiderBase, Wrapper: 1, Inner: 1, Nonce: 1},
		{Name: "oracle-2-signs-vote-counted-for-oracle-0", Module: "eth", Oracles: 3, Signer: 2, Wrapper: 2, Inner: 0, Nonce: 1},
		{Name: "outsider-claims-for-itself", Module: "eth", Oracles: 3, Signer: outsiderBase + 1, Wrapper: outsiderBase + 1, Inner: outsiderBase + 1, Nonce: 1},
		{Name: "invalid-wrapped-claim", Module: "eth", Oracles: 3, Signer: 1, Wrapper: 1, Inner: 1, Nonce: 1, BadInner: true},
		{Name: "outsider-after-honest-votes", Module: "tron", Oracles: 4, PreVotes: []int{0}, Signer: outsiderBase, Wrapper: outsiderBase, Inner: 2, Nonce: 1},
		{Name: "outsider-second-vote-for-same-oracle", Module: "eth", Oracles: 3, PreVotes: []int{1}, Signer: outsiderBase, Wrapper: outsiderBase, Inner: 1, Nonce: 1},
		{Name: "forged-quorum", Module: "eth", Oracles: 4, Signer: outsiderBase, Wrapper: outsiderBase, Inner: 0, Nonce: 1, ForgeFor: []int{0, 1, 2}},
	}
}

// runTxCase executes one case on a fresh chain; returns the Coq items and whether the defect showed.
func runTxCase(seed int64, tc TxCase, rep *lib.Report, verbose bool) (items []string) {
	h := newHist(seed, tc.Module, "tx-"+tc.Name, rep, "C02")
	var all []int
	for i := 0; i < tc.Oracles; i++ {
		all = append(all, i)
	}
	h.apply(Op{Kind: "gov", List: all})
	for i := 0; i < tc.Oracles; i++ {
		h.apply(Op{Kind: "bond", Oracle: i, Bridger: i, Ext: i, Stake: 20_000})
	}
	for _, b := range tc.PreVotes {
		h.apply(vote(b, tc.Nonce, "call", 0))
	}
	inners := []int{tc.Inner}
	if len(tc.ForgeFor) > 0 {
		inners = tc.ForgeFor
	}
	for _, innerID := range inners {
		signer, wrapper, inner := h.accountKey(tc.Signer), h.accountKey(tc.Wrapper), h.accountKey(innerID)
		o := vote(innerID, tc.Nonce, "call", 0)
		claim := h.mkClaim(o, inner.Acc().String())
		if tc.BadInner {
			claim.(*crosschaintypes.MsgBridgeCallClaim).BlockHeight = 0
		}
		cls := h.classID(tc.Nonce, claim.ClaimHash())
		before := h.observe()
		required, err := h.deliverClaimTx(tc.Bytes, signer, wrapper, inner, claim)
		after := h.observe()
		accepted := err == nil
		var votes []int64
		for _, a := range after.atts {
			if a.nonce == tc.Nonce && a.cls == cls {
				votes = a.votes
			}
		}
		// ---- monitor (property text): a vote is cast only by an online oracle acting through its registered
		// bridger — so every oracle that gained a vote must have its registered bridger among the accounts
		// that had to sign the transaction ----
		gained := gainedVoters(before, after)
		for _, oid := range gained {
			var regBridger string
			for _, rec := range before.oracles {
				if rec.id == oid && rec.bridger >= 0 {
					regBridger = h.accountKey(int(rec.bridger)).Acc().String()
				}
			}
			signedByBridger := false
			for _, s := range required {
				if s == regBridger {
					signedByBridger = true
				}
			}
			if !signedByBridger || signer.Acc().String() != regBridger {
				what := fmt.Sprintf("a MsgClaim transaction whose only required signer is %s (signed by account %d) recorded a vote for oracle %d, whose registered bridger %s did not sign [%s]%s",
					strings.Join(required, ","), tc.Signer, oid, regBridger, tc.Name,
					map[bool]string{true: fmt.Sprintf("; last observed nonce is now %d", after.lastObs), false: ""}[after.lastObs != before.lastObs])
				if tc.Bytes {
					// reachable through a real transaction: a violation of C02
					rep.Fail(lib.Failure{Kind: "monitor", What: what + " — delivered as transaction bytes through BaseApp.runTx",
						Sig: "C02:signer-not-bridger", Replay: Replay{ChainSeed: seed, Module: tc.Module, Tx: &tc}})
				} else {
					// message object handed to the real ante handler + message router: latent on a tree where no MsgClaim
					// survives decoding; recorded, not raised
					rep.Count("tx:object:vote-counted-for-non-signer(latent)")
					noteOnce(rep, "latent (docs/findings/C02-1.md): with the MsgClaim OBJECT handed to the real ante handler and message router, a transaction signed only by an outsider "+
						"is counted as the vote of an oracle whose bridger did not sign (nothing compares wrapper and wrapped bridger_address); "+
						"not raised because on this tree no MsgClaim decoded from transaction bytes passes ValidateBasic — it is raised as soon as the byte path accepts such a transaction")
				}
			}
		}
		rep.Case("tx/"+tc.Name+fmt.Sprint(innerID), true)
		rep.Count(fmt.Sprintf("tx:%s:%s", map[bool]string{true: "bytes", false: "object"}[tc.Bytes], map[bool]string{true: "accepted", false: "rejected"}[accepted]))
		if tc.Bytes && tc.Signer == tc.Wrapper && tc.Wrapper == innerID && !tc.BadInner && innerID < tc.Oracles && !accepted && strings.Contains(err.Error(), "expected claim type") {
			noteOnce(rep, "observation (liveness, outside C01/C02): an honest MsgClaim transaction delivered as encoded bytes is rejected by MsgClaim.ValidateBasic "+
				"('expected claim type ... got <nil>'): MsgClaim has no UnpackInterfaces, the wrapped Any has no cached value after decoding; "+
				"on this tree no claim can be cast through a real transaction, which also masks the signer defect on that path")
		}
		if verbose {
			fmt.Printf("tx %-45s signer=%d wrapper=%d inner=%d required=%v accepted=%v votes=%v lastObs=%d err=%s\n", tc.Name, tc.Signer, tc.Wrapper, innerID, required, accepted, votes, after.lastObs, short(err))
		}
		items = append(items, fmt.Sprintf("mk_tx_case %s\n\t[%s]\n\t%s [%d] %d %d %s %d %d true [] %s %s",
			h.cfg, strings.Join(h.opsOnly, "; "), lib.Bool(tc.Bytes), tc.Signer, tc.Wrapper, innerID, lib.Bool(!tc.BadInner), tc.Nonce, cls, lib.Bool(accepted), lib.ZList(votes)))
		// keep the model prefix in step with what happened on the chain
		if accepted {
			h.opsOnly = append(h.opsOnly, fmt.Sprintf("Vote %d %d %d true []", innerID, tc.Nonce, cls))
		}
	}
	return items
}

func gainedVoters(before, after obsT) []int64 {
	count := func(ob obsT) map[int64]int {
		m := map[int64]int{}
		for _, a := range ob.atts {
			for _, v := range a.votes {
				m[v]++
			}
		}
		return m
	}
	b, a := count(before), count(after)
	var out []int64
	for id, n := range a {
		if n > b[id] {
			out = append(out, id)
		}
	}
	return out
}

func noteOnce(rep *lib.Report, s string) {
	for _, n := range rep.Notes {
		if n == s {
			return
		}
	}
	rep.Notes = append(rep.Notes, s)
}

func txCases(seed int64, rep *lib.Report) {
	var items []string
	for i, tc := range txScenarios() {
		for _, asBytes := range []bool{false, true} {
			tc.Bytes = asBytes
			items = append(items, runTxCase(seed*7919+int64(i), tc, rep, false)...)
		}
	}
	lib.WriteCases("Cases_C02tx.v", []string{"model.M_Attest", "model.M_AttestCorr"}, "tx_case", items, "tx_mismatch")
}

func replayTx(rp Replay, rep *lib.Report) {
	runTxCase(rp.ChainSeed, *rp.Tx, rep, true)
	for _, f := range rep.Failures {
		fmt.Println("MONITOR:", f.What)
	}
	if len(rep.Failures) == 0 {
		fmt.Println("replay: no monitor failure on this tree")
	}
}
