package main

// dynquorum.go: phase 3b - vote schedules on the real app in which oracle powers move BETWEEN the votes of competing
// claims (MsgAddDelegate raises an oracle's power and rewrites LastTotalPower at once; blocks are closed in between so
// that the end blockers run).  Before every vote the harness reads the real GetOracle(..).GetPower() of
// every oracle and the real GetLastTotalPower and prints what changed as DPower / DTotal operations; the per-vote
// outcome (rejected / voted / executed + whose object) must equal model M_AttestExecDyn (Cases_C03_dyn.v).

import (
	"encoding/hex"
	"fmt"
	"reflect"

	sdkmath "cosmossdk.io/math"
	sdk "github.com/cosmos/cosmos-sdk/types"

	fxtypes "github.com/functionx/fx-core/v8/types"
	crosschaintypes "github.com/functionx/fx-core/v8/x/crosschain/types"

	"fxverif/gen_c03/extract"
	"fxverif/lib"
)

func dynSchedule(rep *lib.Report, tab *extract.Table, r *lib.Rand, chainSeed int64) string {
	ct := tab.Get(pendingTypes[r.Intn(len(pendingTypes))])
	module := []string{"eth", "bsc", "tron", "polygon"}[r.Intn(4)]
	c := lib.NewChain(chainSeed, 2, nil)
	x := c.X(module)
	nOr := 3 + r.Intn(3)
	stakes := make([]int64, nOr)
	for i := range stakes {
		stakes[i] = []int64{10000, 10000, 15000, 20000, 30000}[r.Intn(5)]
	}
	x.SetupOracles(stakes)
	lib.Must(c.NextBlock())

	// two competing variants per nonce, differing in one hashed relevant field
	g := &gen{r: r, chain: module, noNil: true}
	var variants []*variantT
	hashes := map[string]int{}
	for nonce := uint64(1); nonce <= 2; nonce++ {
		base := g.claim(ct)
		fieldOf(base, "EventNonce").SetUint(nonce)
		variants = append(variants, &variantT{id: len(variants), nonce: nonce, claim: base})
		var cands []extract.Field
		for _, f := range ct.Fields {
			if extract.IsIrrelevant(f.Name) || f.Name == "EventNonce" || f.Kind == "strlist" || f.Kind == "intlist" || !ct.Hashed(f.Name) {
				continue
			}
			cands = append(cands, f)
		}
		if len(cands) == 0 {
			continue
		}
		v := clone(ct, base)
		f := cands[r.Intn(len(cands))]
		for try := 0; try < 10; try++ {
			fieldOf(v, f.Name).Set(reflect.ValueOf(g.value(f, 0)))
			if canon(ct, v, relevantOnly) != canon(ct, base, relevantOnly) {
				break
			}
		}
		if canon(ct, v, relevantOnly) != canon(ct, base, relevantOnly) {
			variants = append(variants, &variantT{id: len(variants), nonce: nonce, claim: v})
		}
	}
	for _, v := range variants {
		h := hex.EncodeToString(v.claim.ClaimHash())
		if _, ok := hashes[h]; !ok {
			hashes[h] = len(hashes)
		}
		v.keyid = hashes[h]
	}
	byNonce := func(n uint64) []*variantT {
		var l []*variantT
		for _, v := range variants {
			if v.nonce == n {
				l = append(l, v)
			}
		}
		return l
	}

	var ops, codes []string
	knownPow := map[int]int64{}
	knownTotal := int64(0)
	sync := func() ([]int64, int64) { // what TryAttestation would read now
		ps, req := powers(x)
		for i, p := range ps {
			if knownPow[i] != p {
				knownPow[i] = p
				ops = append(ops, fmt.Sprintf("DPower %s %s", lib.Z(int64(i)), lib.Z(p)))
			}
		}
		if t := x.Keeper.GetLastTotalPower(c.Ctx).Int64(); t != knownTotal {
			knownTotal = t
			ops = append(ops, "DTotal "+lib.Z(t))
		}
		return ps, req
	}

	type voted struct {
		oracle int
		v      *variantT
	}
	var accepted []voted
	distinctVoted := map[int]bool{}
	next := make([]uint64, nOr)
	for i := range next {
		next[i] = 1
	}
	powerMoves, movedMidAttestation := 0, false
	var ps0 []int64 // powers / required power at the first vote: what a model with constant powers would use
	var req0 int64
	nVotes := nOr*2 + r.Intn(4)
	for i := 0; i < nVotes; i++ {
		// power movements between the votes
		if r.Chance(45) {
			oi := r.Intn(nOr)
			amt := []int64{100, 1000, 5000, 10000, 20000, 40000}[r.Intn(6)]
			if amt > stakes[oi]*15 {
				amt = stakes[oi] * 15
			}
			err := c.Try(func(ctx sdk.Context) error {
				_, e := x.Msg().AddDelegate(ctx, &crosschaintypes.MsgAddDelegate{
					ChainName: module, OracleAddress: x.Oracles[oi].Oracle.Acc().String(),
					Amount: sdk.NewCoin(fxtypes.DefaultDenom, sdkmath.NewInt(amt).MulRaw(1e18)),
				})
				return e
			})
			if err == nil {
				powerMoves++
				rep.Count("phase3b:add-delegate")
				if len(accepted) > 0 {
					movedMidAttestation = true
				}
			} else {
				rep.Count("phase3b:add-delegate-refused")
			}
		}
		if r.Chance(30) {
			lib.Must(c.NextBlock())
		}

		oi := r.Intn(nOr)
		nonce := next[oi]
		if nonce > 2 || r.Chance(10) {
			nonce = uint64(1 + r.Intn(2))
		}
		vs := byNonce(nonce)
		v := vs[r.Intn(len(vs))]
		if r.Chance(60) {
			v = vs[0] // a majority forms around the first variant
		}
		ps, req := sync()
		if i == 0 {
			ps0, req0 = append([]int64(nil), ps...), req
		}
		before := x.Keeper.GetLastObservedEventNonce(c.Ctx)
		err := x.Claim(x.Oracles[oi], clone(ct, v.claim))
		after := x.Keeper.GetLastObservedEventNonce(c.Ctx)
		code := int64(1)
		switch {
		case err != nil:
			code = 0
		case after != before:
			code = -1
			if pc, found := x.Keeper.GetPendingExecuteClaim(c.Ctx, v.nonce); found {
				for _, w := range variants {
					if w.nonce == v.nonce && canon(ct, w.claim, relevantOnly) == canon(ct, pc, relevantOnly) {
						code = int64(2 + w.id)
					}
				}
				// monitor (property text): the oracles that voted for exactly the executed payload hold, with the
				// powers of this moment, the power required at this moment
				var support int64
				counted := map[int]bool{}
				for _, a := range append(append([]voted(nil), accepted...), voted{oi, v}) {
					if a.v.nonce == v.nonce && !counted[a.oracle] && canon(ct, a.v.claim, relevantOnly) == canon(ct, pc, relevantOnly) {
						counted[a.oracle] = true
						support += ps[a.oracle]
					}
				}
				if support < req {
					failOnce(rep, lib.Failure{Kind: "monitor", Sig: sigOf("schedule", ct.Go, "executed-without-quorum"),
						What: fmt.Sprintf("real quorum on %s with powers changing between the votes: a %s was executed although the oracles that voted for it hold power %d < required %d at that moment", module, ct.Go, support, req),
						Replay: map[string]interface{}{"chain_seed": chainSeed, "module": module, "powers_now": ps, "required_now": req,
							"ops_so_far": append([]string(nil), ops...), "crossing_vote": fmt.Sprintf("oracle %d variant %d", oi, v.id), "executed": describe(ct, pc)}})
				}
			}
		}
		if err == nil && v.nonce == before+1 {
			// would the fire decision have been the same with the powers of the first vote?
			var static int64
			seen := map[int]bool{}
			for _, a := range append(append([]voted(nil), accepted...), voted{oi, v}) {
				if a.v.nonce == v.nonce && a.v.keyid == v.keyid && !seen[a.oracle] {
					seen[a.oracle] = true
					static += ps0[a.oracle]
				}
			}
			if (static >= req0) != (after != before) {
				rep.Count("phase3b:power-move-decisive")
			}
		}
		if err == nil {
			accepted = append(accepted, voted{oi, v})
			distinctVoted[v.id] = true
			if next[oi] == v.nonce {
				next[oi]++
			}
		}
		rep.Count(fmt.Sprintf("phase3b:vote=%s", map[int64]string{0: "rejected", 1: "voted", -1: "executed-unknown-object"}[min64(code, 1)]))
		if code >= 2 {
			rep.Count("phase3b:vote=executed")
		}
		ops = append(ops, fmt.Sprintf("DVote %s (%d, %d, %d)", lib.Z(int64(oi)), v.id, v.nonce, v.keyid))
		codes = append(codes, lib.Z(code))
	}
	if powerMoves > 0 {
		rep.Count("phase3b:schedule-with-power-moves")
	}
	rep.Case(fmt.Sprintf("dyn|%d|%s|%v|%v", chainSeed, ct.Go, ops, codes), len(distinctVoted) >= 2 && movedMidAttestation)
	return fmt.Sprintf("mk_dyn_case %s %s", lib.List(ops), lib.List(codes))
}
