// c03: correspondence + monitor for property C03 (the executed bridge event is field-for-field the
// event the quorum voted for).
//
// Phase 1 (tie of translator + Coq render model to the real code):
//
//	the token table is re-extracted from the checked tree (fxverif/gen_c03/extract); claims of all six
//	types are generated (strings with '/', ' ', ']', '[', '{', digits, empty strings, long lists, nil and
//	negative Ints, eth and tron address formats, deliberately invalid fields); an independent renderer
//	driven ONLY by the token table (no fmt) produces the pre-image and sha256(pre-image) must equal the
//	REAL ClaimHash(); the claim, the real ValidateBasic verdict and the pre-image bytes go to
//	Cases_C03.v where the Coq `preimage` must produce the same bytes and `wfb` must hold whenever the
//	real ValidateBasic accepted.
//
// Phase 2 (monitor on the real functions, independent of the model): pairs of ValidateBasic-valid claims
//
//	differing in exactly one field, or in how two free-form strings are split around a separator, or of
//	different claim types, must have different ClaimHash().  A collision in a field the execution
//	handlers read is a monitor failure.  All pairs (valid or not) also go to Cases_C03_pairs.v: the model's
//	pre-images must collide exactly when the real hashes do.
//
// Phase 3 (real quorum): vote schedules on the real app (lib.NewChain, 3-5 oracles with unequal stake,
//
//	competing variants of one claim per nonce) - which vote executes and whose claim object is executed
//	is compared with model M_AttestExec in Cases_C03_quorum.v; for every colliding pair found in phase 2
//	the pair is pushed through a real 3-oracle quorum where the threshold-crossing voter uses the variant:
//	the executed object / effect is compared with what the first voter voted for.
package main

import (
	"bytes"
	"crypto/sha256"
	"encoding/hex"
	"encoding/json"
	"fmt"
	"math/big"
	"os"
	"reflect"
	"sort"
	"strconv"
	"strings"

	sdkmath "cosmossdk.io/math"
	sdk "github.com/cosmos/cosmos-sdk/types"

	crosschaintypes "github.com/functionx/fx-core/v8/x/crosschain/types"

	"fxverif/gen_c03/extract"
	"fxverif/lib"
)

// ------------------------------------------------------------------ real messages by reflection

func newMsg(goType string) crosschaintypes.ExternalClaim {
	switch goType {
	case "MsgSendToFxClaim":
		return &crosschaintypes.MsgSendToFxClaim{}
	case "MsgBridgeCallClaim":
		return &crosschaintypes.MsgBridgeCallClaim{}
	case "MsgBridgeCallResultClaim":
		return &crosschaintypes.MsgBridgeCallResultClaim{}
	case "MsgSendToExternalClaim":
		return &crosschaintypes.MsgSendToExternalClaim{}
	case "MsgBridgeTokenClaim":
		return &crosschaintypes.MsgBridgeTokenClaim{}
	case "MsgOracleSetUpdatedClaim":
		return &crosschaintypes.MsgOracleSetUpdatedClaim{}
	}
	panic("unknown claim type " + goType)
}

func fieldOf(m crosschaintypes.ExternalClaim, name string) reflect.Value {
	v := reflect.ValueOf(m).Elem().FieldByName(name)
	if !v.IsValid() {
		panic("no field " + name)
	}
	return v
}

func clone(ct *extract.Claim, m crosschaintypes.ExternalClaim) crosschaintypes.ExternalClaim {
	n := newMsg(ct.Go)
	for _, f := range ct.Fields {
		src := fieldOf(m, f.Name)
		dst := fieldOf(n, f.Name)
		switch f.Kind {
		case "strlist":
			dst.Set(reflect.ValueOf(append([]string(nil), src.Interface().([]string)...)))
		case "intlist":
			dst.Set(reflect.ValueOf(append([]sdkmath.Int(nil), src.Interface().([]sdkmath.Int)...)))
		case "members":
			dst.Set(reflect.ValueOf(append([]crosschaintypes.BridgeValidator(nil), src.Interface().([]crosschaintypes.BridgeValidator)...)))
		default:
			dst.Set(src)
		}
	}
	return n
}

// ------------------------------------------------------------------ value generation

type gen struct {
	r     *lib.Rand
	chain string
	big   bool // long lists / long strings
	noNil bool // never draw the nil Int (it does not survive the store round trip of a pending claim)
}

var evmChains = []string{"eth", "bsc", "polygon", "avalanche", "arbitrum", "optimism", "layer2"}

func (g *gen) bytesN(n int) []byte {
	b := make([]byte, n)
	for i := range b {
		b[i] = byte(g.r.Intn(256))
	}
	return b
}

func (g *gen) addr() string {
	bz := g.bytesN(20)
	if g.r.Chance(10) { // few leading digits / all-digit hex
		for i := range bz {
			bz[i] = byte(g.r.Intn(10))<<4 | byte(g.r.Intn(10))
		}
	}
	return crosschaintypes.ExternalAddrToStr(g.chain, bz)
}

const tricky = "/ ][{}<>-0123456789abxT%\"\\\n:,"

func (g *gen) freeStr(nonempty bool) string {
	n := g.r.Intn(6)
	if g.big && g.r.Chance(30) {
		n = 20 + g.r.Intn(200)
	}
	if nonempty && n == 0 {
		n = 1
	}
	var sb strings.Builder
	for i := 0; i < n; i++ {
		switch g.r.Intn(4) {
		case 0:
			sb.WriteByte('/')
		case 1:
			sb.WriteByte(tricky[g.r.Intn(len(tricky))])
		case 2:
			sb.WriteString([]string{"FX", "a", "b", "USDT", "é", "0x"}[g.r.Intn(6)])
		default:
			sb.WriteByte(byte('a' + g.r.Intn(26)))
		}
	}
	return sb.String()
}

func (g *gen) hexStr() string {
	n := g.r.Intn(5)
	if g.r.Chance(35) {
		n = 0
	}
	if g.big && g.r.Chance(30) {
		n = 32 + g.r.Intn(100)
	}
	s := hex.EncodeToString(g.bytesN(n))
	if g.r.Chance(25) {
		s = strings.ToUpper(s)
	}
	return s
}

func (g *gen) bech32() string { return sdk.AccAddress(g.bytesN(20)).String() }

func (g *gen) intv(class string) sdkmath.Int {
	var z *big.Int
	switch g.r.Intn(6) {
	case 0:
		z = big.NewInt(0)
	case 1:
		z = big.NewInt(int64(g.r.Intn(1000)))
	case 2:
		z = new(big.Int).Lsh(big.NewInt(1), uint(g.r.Intn(200)))
	default:
		z = new(big.Int).SetBytes(g.bytesN(1 + g.r.Intn(24)))
	}
	if class != "nonneg" {
		switch g.r.Intn(8) {
		case 0:
			z.Neg(z)
		case 1:
			if g.noNil {
				break
			}
			return sdkmath.Int{} // the nil Int (what an empty proto field unmarshals to)
		}
	}
	return sdkmath.NewIntFromBigInt(z)
}

func (g *gen) u64() uint64 {
	for {
		if n := g.r.U64Edge(); n != 0 {
			return n
		}
	}
}

func (g *gen) listLen() int {
	if g.big && g.r.Chance(40) {
		return 20 + g.r.Intn(60)
	}
	return g.r.Intn(4)
}

// value draws a ValidateBasic-compatible value for field f.
func (g *gen) value(f extract.Field, listN int) interface{} {
	switch f.Kind {
	case "u64":
		if f.Name == "Decimals" {
			return uint64(g.r.Intn(25))
		}
		return g.u64()
	case "bool":
		return g.r.Chance(50)
	case "int":
		return g.intv(f.Class)
	case "str":
		if f.Name == "ChainName" {
			return g.chain
		}
		switch f.Class {
		case "addr":
			return g.addr()
		case "bech32":
			return g.bech32()
		case "hex":
			return g.hexStr()
		case "nonempty":
			return g.freeStr(true)
		}
		return g.freeStr(false)
	case "strlist":
		l := make([]string, listN)
		for i := range l {
			if f.Class == "addr" {
				l[i] = g.addr()
			} else {
				l[i] = g.freeStr(false)
			}
		}
		return l
	case "intlist":
		l := make([]sdkmath.Int, listN)
		for i := range l {
			l[i] = g.intv("any")
		}
		return l
	case "members":
		n := listN
		if n == 0 {
			n = 1
		}
		l := make([]crosschaintypes.BridgeValidator, n)
		for i := range l {
			l[i] = crosschaintypes.BridgeValidator{Power: g.u64(), ExternalAddress: g.addr()}
		}
		return l
	}
	panic("kind " + f.Kind)
}

func (g *gen) claim(ct *extract.Claim) crosschaintypes.ExternalClaim {
	m := newMsg(ct.Go)
	n := g.listLen()
	for _, f := range ct.Fields {
		fieldOf(m, f.Name).Set(reflect.ValueOf(g.value(f, n)))
	}
	return m
}

// dirty breaks the character class of one field (the real ValidateBasic should then reject).
func (g *gen) dirty(ct *extract.Claim, m crosschaintypes.ExternalClaim) string {
	var cands []extract.Field
	for _, f := range ct.Fields {
		if f.Name != "ChainName" && (f.Kind == "str" || f.Kind == "strlist" || f.Kind == "members" || f.Kind == "intlist") {
			cands = append(cands, f)
		}
	}
	f := cands[g.r.Intn(len(cands))]
	mangle := func(s string) string {
		ins := []string{"/", " ", "]", "[", "{1 x}", "} {", "0", "zz", "/1", "x"}[g.r.Intn(10)]
		switch g.r.Intn(4) {
		case 0:
			return s + ins
		case 1:
			return ins + s
		case 2:
			if len(s) > 2 {
				return s[:len(s)/2] + ins + s[len(s)/2:]
			}
			return ins
		default:
			if len(s) > 1 {
				return s[1:]
			}
			return ""
		}
	}
	v := fieldOf(m, f.Name)
	switch f.Kind {
	case "str":
		v.SetString(mangle(v.String()))
	case "strlist":
		l := v.Interface().([]string)
		if len(l) == 0 {
			l = []string{""}
		} else {
			i := g.r.Intn(len(l))
			l[i] = mangle(l[i])
		}
		v.Set(reflect.ValueOf(l))
	case "intlist":
		l := v.Interface().([]sdkmath.Int)
		l = append(l, g.intv("any")) // length mismatch with the contracts
		v.Set(reflect.ValueOf(l))
	case "members":
		l := v.Interface().([]crosschaintypes.BridgeValidator)
		i := g.r.Intn(len(l))
		if g.r.Chance(30) {
			l[i].Power = 0
		} else {
			l[i].ExternalAddress = mangle(l[i].ExternalAddress)
		}
	}
	return f.Name
}

// ------------------------------------------------------------------ independent renderer (token table only, no fmt)

func decU(n uint64) string { return strconv.FormatUint(n, 10) }

func decInt(i sdkmath.Int) string {
	if i.IsNil() {
		return "<nil>"
	}
	return i.BigInt().Text(10)
}

func renderTable(ct *extract.Claim, m crosschaintypes.ExternalClaim) []byte {
	var b bytes.Buffer
	for _, t := range ct.Toks {
		if t.Kind == "lit" {
			b.WriteString(t.Lit)
			continue
		}
		v := fieldOf(m, t.Field)
		switch t.Kind {
		case "u64":
			b.WriteString(decU(v.Uint()))
		case "str":
			b.WriteString(v.String())
		case "hexstr":
			const digits = "0123456789abcdef"
			for _, ch := range []byte(v.String()) {
				b.WriteByte(digits[ch>>4])
				b.WriteByte(digits[ch&15])
			}
		case "hexstrlist":
			const digits = "0123456789abcdef"
			b.WriteByte('[')
			for i, s := range v.Interface().([]string) {
				if i > 0 {
					b.WriteByte(' ')
				}
				for _, ch := range []byte(s) {
					b.WriteByte(digits[ch>>4])
					b.WriteByte(digits[ch&15])
				}
			}
			b.WriteByte(']')
		case "int":
			b.WriteString(decInt(v.Interface().(sdkmath.Int)))
		case "bool":
			if v.Bool() {
				b.WriteString("true")
			} else {
				b.WriteString("false")
			}
		case "strlist":
			b.WriteByte('[')
			for i, s := range v.Interface().([]string) {
				if i > 0 {
					b.WriteByte(' ')
				}
				b.WriteString(s)
			}
			b.WriteByte(']')
		case "intlist":
			b.WriteByte('[')
			for i, s := range v.Interface().([]sdkmath.Int) {
				if i > 0 {
					b.WriteByte(' ')
				}
				b.WriteString(decInt(s))
			}
			b.WriteByte(']')
		case "members":
			b.WriteByte('[')
			for i, s := range v.Interface().([]crosschaintypes.BridgeValidator) {
				if i > 0 {
					b.WriteByte(' ')
				}
				b.WriteByte('{')
				b.WriteString(decU(s.Power))
				b.WriteByte(' ')
				b.WriteString(s.ExternalAddress)
				b.WriteByte('}')
			}
			b.WriteByte(']')
		default:
			panic("token kind " + t.Kind)
		}
	}
	return b.Bytes()
}

// ------------------------------------------------------------------ Coq terms

func coqOInt(i sdkmath.Int) string {
	if i.IsNil() {
		return "None"
	}
	return "(Some " + lib.ZBig(i.BigInt()) + ")"
}

func coqClaim(ct *extract.Claim, m crosschaintypes.ExternalClaim) string {
	var items []string
	for _, f := range ct.Fields {
		v := fieldOf(m, f.Name)
		var t string
		switch f.Kind {
		case "u64":
			t = "VU64 " + lib.ZU(v.Uint())
		case "str":
			t = "VStr " + lib.Bytes([]byte(v.String()))
		case "int":
			t = "VInt " + coqOInt(v.Interface().(sdkmath.Int))
		case "bool":
			t = "VBool " + lib.Bool(v.Bool())
		case "strlist":
			var l []string
			for _, s := range v.Interface().([]string) {
				l = append(l, lib.Bytes([]byte(s)))
			}
			t = "VStrList " + lib.List(l)
		case "intlist":
			var l []string
			for _, s := range v.Interface().([]sdkmath.Int) {
				l = append(l, coqOInt(s))
			}
			t = "VIntList " + lib.List(l)
		case "members":
			var l []string
			for _, s := range v.Interface().([]crosschaintypes.BridgeValidator) {
				l = append(l, lib.Pair(lib.ZU(s.Power), lib.Bytes([]byte(s.ExternalAddress))))
			}
			t = "VMembers " + lib.List(l)
		}
		items = append(items, t)
	}
	return "(zipc Gen_" + ct.Short + " " + lib.List(items) + ")"
}

// canon encodes the fields selected by keep (unambiguous, length-prefixed) for Go-side comparisons.
func canon(ct *extract.Claim, m crosschaintypes.ExternalClaim, keep func(string) bool) string {
	var sb strings.Builder
	w := func(s string) { sb.WriteString(strconv.Itoa(len(s)) + ":" + s + ";") }
	for _, f := range ct.Fields {
		if !keep(f.Name) {
			continue
		}
		v := fieldOf(m, f.Name)
		sb.WriteString(f.Name + "=")
		switch f.Kind {
		case "u64":
			w(decU(v.Uint()))
		case "str":
			w(v.String())
		case "int":
			w(decInt(v.Interface().(sdkmath.Int)))
		case "bool":
			w(lib.Bool(v.Bool()))
		case "strlist":
			l := v.Interface().([]string)
			w(strconv.Itoa(len(l)))
			for _, s := range l {
				w(s)
			}
		case "intlist":
			l := v.Interface().([]sdkmath.Int)
			w(strconv.Itoa(len(l)))
			for _, s := range l {
				w(decInt(s))
			}
		case "members":
			l := v.Interface().([]crosschaintypes.BridgeValidator)
			w(strconv.Itoa(len(l)))
			for _, s := range l {
				w(decU(s.Power))
				w(s.ExternalAddress)
			}
		}
	}
	return sb.String()
}

func relevantOnly(name string) bool { return !extract.IsIrrelevant(name) }

func describe(ct *extract.Claim, m crosschaintypes.ExternalClaim) map[string]string {
	d := map[string]string{"type": ct.Go}
	for _, f := range ct.Fields {
		d[f.Name] = canon(&extract.Claim{Fields: []extract.Field{f}}, m, func(string) bool { return true })
	}
	return d
}

func isRead(ct *extract.Claim, field string) bool {
	for _, r := range ct.Read {
		if r == field {
			return true
		}
	}
	return false
}

// ---------------------------------------------------------------- corpus (run first)
//
// corpus/C03/*.json: pairs of claims that used to collide (the findings C03-1/2/3 before their fix, and pairs from
// seeded changes).  Format: {"kind":"pair","type":"MsgBridgeCallClaim","what":"...","a":{field:value...},"b":{...}}
// with every field of the struct given: numbers and Ints as decimal strings, lists as arrays, members as
// [{"power":"1","addr":"0x.."}].  They are ordinary pairs: nothing is assumed about their hashes; on a tree where
// they collide again they are reported like any other collision and replayed through a real quorum.
type corpusEntry struct {
	Kind string                 `json:"kind"`
	Type string                 `json:"type"`
	What string                 `json:"what"`
	A    map[string]interface{} `json:"a"`
	B    map[string]interface{} `json:"b"`
}

func claimFromJSON(ct *extract.Claim, m map[string]interface{}) (c crosschaintypes.ExternalClaim, err error) {
	defer func() {
		if r := recover(); r != nil {
			err = fmt.Errorf("corpus claim: %v", r)
		}
	}()
	c = newMsg(ct.Go)
	str := func(v interface{}) string { return fmt.Sprint(v) }
	bigOf := func(v interface{}) sdkmath.Int {
		z, ok := new(big.Int).SetString(str(v), 10)
		if !ok {
			panic("bad integer " + str(v))
		}
		return sdkmath.NewIntFromBigInt(z)
	}
	for _, f := range ct.Fields {
		v, ok := m[f.Name]
		if !ok {
			continue // a field added after the corpus entry was written keeps its zero value
		}
		fv := fieldOf(c, f.Name)
		switch f.Kind {
		case "u64":
			n, e := strconv.ParseUint(str(v), 10, 64)
			if e != nil {
				panic(e)
			}
			fv.SetUint(n)
		case "str":
			fv.SetString(str(v))
		case "bool":
			fv.SetBool(v.(bool))
		case "int":
			fv.Set(reflect.ValueOf(bigOf(v)))
		case "strlist":
			l := []string{}
			for _, e := range v.([]interface{}) {
				l = append(l, str(e))
			}
			fv.Set(reflect.ValueOf(l))
		case "intlist":
			l := []sdkmath.Int{}
			for _, e := range v.([]interface{}) {
				l = append(l, bigOf(e))
			}
			fv.Set(reflect.ValueOf(l))
		case "members":
			l := []crosschaintypes.BridgeValidator{}
			for _, e := range v.([]interface{}) {
				mm := e.(map[string]interface{})
				p, e2 := strconv.ParseUint(str(mm["power"]), 10, 64)
				if e2 != nil {
					panic(e2)
				}
				l = append(l, crosschaintypes.BridgeValidator{Power: p, ExternalAddress: str(mm["addr"])})
			}
			fv.Set(reflect.ValueOf(l))
		}
	}
	return c, nil
}

func corpusPairs(rep *lib.Report, tab *extract.Table) []pairT {
	dir := os.Getenv("VERIF_CORPUS")
	if dir == "" {
		return nil
	}
	files, _ := os.ReadDir(dir)
	var out []pairT
	for _, f := range files {
		bz, err := os.ReadFile(dir + "/" + f.Name())
		if err != nil || !strings.HasSuffix(f.Name(), ".json") {
			continue
		}
		var e corpusEntry
		if json.Unmarshal(bz, &e) != nil || e.Kind != "pair" {
			continue
		}
		ct := tab.Get(e.Type)
		if ct == nil {
			continue
		}
		a, err1 := claimFromJSON(ct, e.A)
		b, err2 := claimFromJSON(ct, e.B)
		if err1 != nil || err2 != nil {
			rep.Notes = append(rep.Notes, fmt.Sprintf("corpus entry %s unreadable: %v %v", f.Name(), err1, err2))
			continue
		}
		// addresses that depend on the configured bech32 prefix are filled in here
		for _, c := range []crosschaintypes.ExternalClaim{a, b} {
			for _, fn := range []string{"BridgerAddress", "Receiver"} {
				if fld := ct.Field(fn); fld != nil && fld.Class == "bech32" && fieldOf(c, fn).String() == "" {
					fieldOf(c, fn).SetString(sdk.AccAddress(bytes.Repeat([]byte{9}, 20)).String())
				}
			}
		}
		rep.Count("corpus-pair")
		out = append(out, pairT{ct: ct, a: a, b: b, kind: "corpus:" + strings.TrimSuffix(f.Name(), ".json")})
	}
	return out
}

// sigOf: failure signature "C03:<type>:<fields>;<family>" - KNOWN_FINDINGS entries are prefixes up to the ';',
// so one entry covers the hash collision, the schedule monitor, the quorum replay and the effect scenario
// of the same defect, and nothing else.
func sigOf(family, goType, fields string) string {
	return "C03:" + goType + ":" + fields + ";" + family
}

var failedOnce = map[string]bool{}

func failOnce(rep *lib.Report, f lib.Failure) {
	if failedOnce[f.Sig] {
		rep.Count("repeat:" + f.Sig)
		return
	}
	failedOnce[f.Sig] = true
	rep.Fail(f)
}

// ------------------------------------------------------------------ main

type pairT struct {
	ct     *extract.Claim
	a, b   crosschaintypes.ExternalClaim
	kind   string // field name or "split:F/G"
	valid  bool
	reason string
}

func main() {
	repo := os.Getenv("VERIF_REPO")
	if repo == "" {
		repo = "/repo"
	}
	mode := os.Getenv("VERIF_MODE")
	seed := lib.Seed()
	r := lib.NewRand(seed)
	rep := lib.NewReport("C03")
	rep.Rule = "phase1: claims of the six types (eth/tron address formats, free strings over a tricky alphabet incl. '/', ' ', ']', '[', '{', digits, empty; nil/negative Ints; long lists; ~25% with one deliberately invalid field): sha256(table-driven render) == real ClaimHash(), bytes and ValidateBasic verdict re-checked by the Coq model; " +
		"phase2: pairs of valid claims differing in exactly one field / in the split of two free-form strings / in type: real ClaimHash() must differ; " +
		"phase3: real 3-5 oracle quorums with competing variants per nonce, executed object vs model M_AttestExec, colliding pairs replayed with the variant crossing the threshold. " +
		"non-trivial = a valid claim pair differing in one execution-relevant field, or a quorum schedule in which at least two variants received votes; distinct by content"

	tab, err := extract.Extract(repo)
	if err != nil {
		rep.Fail(lib.Failure{Kind: "tie", What: "translator cannot extract the ClaimHash table: " + err.Error(), Sig: "C03:extract"})
		if tab == nil {
			rep.Write()
			return
		}
		// the monitors below only need field lists / classes / read-sets: keep searching for a failing input
	}

	perType, pairBases, schedules := 80, 8, 24
	if lib.Tier() == "thorough" {
		perType, pairBases, schedules = 900, 80, 150
	}
	if mode == "search" {
		perType, pairBases, schedules = 300, 150, 60
	}
	if v := lib.EnvInt("VERIF_N", 0); v > 0 {
		perType = int(v)
	}
	if mode == "replay" {
		// deterministic re-run of the collision search and of the quorum / effect scenarios for this seed;
		// every monitor failure is printed (see the end of main)
		perType, pairBases, schedules = 0, 3, 4
	}

	// ---------------- phase 1
	var items []string
	for _, ct := range tab.Claims {
		if ct.Err != "" {
			continue // no token table for this type: nothing to tie
		}
		for i := 0; i < perType; i++ {
			g := &gen{r: r, chain: evmChains[r.Intn(len(evmChains))], big: r.Chance(12)}
			if r.Chance(25) {
				g.chain = "tron"
			}
			m := g.claim(ct)
			dirtied := ""
			if r.Chance(25) {
				dirtied = g.dirty(ct, m)
			}
			valid := m.ValidateBasic() == nil
			pre := renderTable(ct, m)
			sum := sha256.Sum256(pre)
			real := m.ClaimHash()
			rep.Case(ct.Go+"|"+string(pre)+"|"+canon(ct, m, func(string) bool { return true }), valid)
			rep.Count("phase1:" + ct.Short + ":valid=" + lib.Bool(valid))
			if dirtied != "" {
				rep.Count("phase1:dirtied:accepted=" + lib.Bool(valid))
			}
			if i < 1 {
				rep.Sample(map[string]interface{}{"type": ct.Go, "preimage": string(pre), "claim_hash": hex.EncodeToString(real), "valid": valid})
			}
			if !bytes.Equal(sum[:], real) {
				rep.Fail(lib.Failure{Kind: "tie", Sig: "C03:render:" + ct.Go,
					What:   "sha256 of the pre-image rendered from the extracted token table differs from the real ClaimHash() of " + ct.Go,
					Replay: map[string]interface{}{"claim": describe(ct, m), "rendered": string(pre), "real_hash": hex.EncodeToString(real)}})
			}
			items = append(items, fmt.Sprintf("mk_ch_case Gen_%s %s %s %s", ct.Short, coqClaim(ct, m), lib.Bool(valid), lib.Bytes(pre)))
		}
	}
	// one claim with more than 100 list elements per list-bearing type (rendering of long lists)
	for _, ct := range tab.Claims {
		hasList := false
		for _, f := range ct.Fields {
			hasList = hasList || f.Kind == "members" || f.Kind == "strlist"
		}
		if !hasList || ct.Err != "" {
			continue
		}
		g := &gen{r: r, chain: "eth", noNil: true}
		m := g.claim(ct)
		for _, f := range ct.Fields {
			if f.Kind == "members" || f.Kind == "strlist" || f.Kind == "intlist" {
				fieldOf(m, f.Name).Set(reflect.ValueOf(g.value(f, 101)))
			}
		}
		pre := renderTable(ct, m)
		sum := sha256.Sum256(pre)
		valid := m.ValidateBasic() == nil
		rep.Case(ct.Go+"|long|"+string(pre), valid)
		rep.Count("phase1:long-list")
		if !bytes.Equal(sum[:], m.ClaimHash()) {
			rep.Fail(lib.Failure{Kind: "tie", Sig: "C03:render:" + ct.Go,
				What:   "sha256 of the pre-image rendered from the extracted token table differs from the real ClaimHash() of " + ct.Go + " (101-element lists)",
				Replay: map[string]interface{}{"claim": describe(ct, m), "rendered": string(pre)}})
		}
		items = append(items, fmt.Sprintf("mk_ch_case Gen_%s %s %s %s", ct.Short, coqClaim(ct, m), lib.Bool(valid), lib.Bytes(pre)))
	}
	lib.WriteCases("Cases_C03.v", []string{"model.M_ClaimHash", "model.M_ClaimHashCorr", "gen.Gen_ClaimHash"}, "ch_case", items, "ch_mismatch")

	// ---------------- phase 2
	var pairs []pairT
	pairs = append(pairs, corpusPairs(rep, tab)...)
	for _, ct := range tab.Claims {
		for i := 0; i < pairBases; i++ {
			g := &gen{r: r, chain: evmChains[r.Intn(len(evmChains))], big: r.Chance(8)}
			if r.Chance(20) {
				g.chain = "tron"
			}
			base := g.claim(ct)
			if ct.Go == "MsgBridgeCallClaim" && len(fieldOf(base, "TokenContracts").Interface().([]string)) == 0 && r.Chance(70) {
				fieldOf(base, "TokenContracts").Set(reflect.ValueOf([]string{g.addr(), g.addr()}))
				fieldOf(base, "Amounts").Set(reflect.ValueOf([]sdkmath.Int{g.intv("any"), g.intv("any")}))
			}
			// single-field variants
			for _, f := range ct.Fields {
				if extract.IsIrrelevant(f.Name) {
					continue
				}
				v := clone(ct, base)
				fv := fieldOf(v, f.Name)
				before := canon(ct, v, func(n string) bool { return n == f.Name })
				for try := 0; try < 20; try++ {
					switch f.Kind {
					case "strlist", "intlist", "members": // keep the length (ValidateBasic ties the two lists), change one element
						n := fv.Len()
						if n == 0 {
							break
						}
						k := r.Intn(n)
						nv := reflect.ValueOf(g.value(f, n))
						fv.Index(k).Set(nv.Index(k))
					default:
						fv.Set(reflect.ValueOf(g.value(f, 0)))
					}
					if canon(ct, v, func(n string) bool { return n == f.Name }) != before {
						break
					}
				}
				if canon(ct, v, func(n string) bool { return n == f.Name }) == before {
					continue
				}
				pairs = append(pairs, pairT{ct: ct, a: base, b: v, kind: f.Name})
			}
			// integers that agree modulo 2^64 / 2^128 (a hash of a truncated amount would confuse them)
			for _, f := range ct.Fields {
				if f.Kind != "int" || extract.IsIrrelevant(f.Name) {
					continue
				}
				cur := fieldOf(base, f.Name).Interface().(sdkmath.Int)
				if cur.IsNil() || cur.IsNegative() {
					continue
				}
				for _, sh := range []uint{64, 128} {
					if cur.BigInt().BitLen() > 200 {
						continue
					}
					v := clone(ct, base)
					fieldOf(v, f.Name).Set(reflect.ValueOf(sdkmath.NewIntFromBigInt(new(big.Int).Add(cur.BigInt(), new(big.Int).Lsh(big.NewInt(1), sh)))))
					pairs = append(pairs, pairT{ct: ct, a: base, b: v, kind: fmt.Sprintf("%s+2^%d", f.Name, sh)})
				}
			}
			// letter case: a hash that folds case (ToUpper/ToLower/EqualFold-style normalisation) confuses strings the
			// handlers compare exactly (Symbol == "FX"); hex fields keep their case in the hash as well
			for _, f := range ct.Fields {
				if f.Kind != "str" || extract.IsIrrelevant(f.Name) {
					continue
				}
				cur := fieldOf(base, f.Name).String()
				cands := []string{strings.ToUpper(cur), strings.ToLower(cur)}
				if f.Class == "free" || f.Class == "nonempty" {
					cands = append(cands, "FX", "Fx", "fx", "usdt", "USDT")
				}
				for k, cv := range cands {
					a, b := clone(ct, base), clone(ct, base)
					if k >= 2 { // explicit pairs: Fx/FX, fx/FX, usdt/USDT ...
						fieldOf(a, f.Name).SetString(cv)
						fieldOf(b, f.Name).SetString(strings.ToUpper(cv))
						if f.Name == "Symbol" && ct.Field("Decimals") != nil {
							fieldOf(a, "Decimals").SetUint(18)
							fieldOf(b, "Decimals").SetUint(18)
						}
					} else {
						fieldOf(b, f.Name).SetString(cv)
					}
					if fieldOf(a, f.Name).String() == fieldOf(b, f.Name).String() {
						continue
					}
					pairs = append(pairs, pairT{ct: ct, a: a, b: b, kind: "case:" + f.Name})
				}
			}
			// a list of numbers printed without separators would confuse [1 23] and [12 3]
			for _, f := range ct.Fields {
				if f.Kind != "intlist" || extract.IsIrrelevant(f.Name) {
					continue
				}
				for _, sp := range [][4]int64{{1, 23, 12, 3}, {1005, 1, 100, 51}} {
					a, b := clone(ct, base), clone(ct, base)
					for _, g2 := range ct.Fields { // the companion address list gets two entries as well
						if g2.Kind == "strlist" {
							two := []string{g.addr(), g.addr()}
							fieldOf(a, g2.Name).Set(reflect.ValueOf(two))
							fieldOf(b, g2.Name).Set(reflect.ValueOf(append([]string(nil), two...)))
						}
					}
					fieldOf(a, f.Name).Set(reflect.ValueOf([]sdkmath.Int{sdkmath.NewInt(sp[0]), sdkmath.NewInt(sp[1])}))
					fieldOf(b, f.Name).Set(reflect.ValueOf([]sdkmath.Int{sdkmath.NewInt(sp[2]), sdkmath.NewInt(sp[3])}))
					pairs = append(pairs, pairT{ct: ct, a: a, b: b, kind: "listdigits:" + f.Name})
				}
			}
			// both lists of a bridge call grow together
			if ct.Go == "MsgBridgeCallClaim" {
				v := clone(ct, base)
				fieldOf(v, "TokenContracts").Set(reflect.ValueOf(append(fieldOf(v, "TokenContracts").Interface().([]string), g.addr())))
				fieldOf(v, "Amounts").Set(reflect.ValueOf(append(fieldOf(v, "Amounts").Interface().([]sdkmath.Int), g.intv("any"))))
				pairs = append(pairs, pairT{ct: ct, a: base, b: v, kind: "TokenContracts+Amounts"})
			}
			// split of two string fields around a separator
			var strs []extract.Field
			for _, f := range ct.Fields {
				if f.Kind == "str" && !extract.IsIrrelevant(f.Name) {
					strs = append(strs, f)
				}
			}
			for _, f1 := range strs {
				for _, f2 := range strs {
					if f1.Name == f2.Name {
						continue
					}
					free := (f1.Class == "free" || f1.Class == "nonempty") && (f2.Class == "free" || f2.Class == "nonempty")
					if !free && !r.Chance(15) {
						continue // for constrained classes the pair is (almost surely) invalid: only sampled for the model tie
					}
					sep := []string{"/", "/", " ", "", "]", "/1/"}[r.Intn(6)]
					x, y, z := g.freeStr(true), g.freeStr(true), g.freeStr(true)
					if !free {
						x, y, z = "a1", "b2", "c3"
					}
					a, b := clone(ct, base), clone(ct, base)
					fieldOf(a, f1.Name).SetString(x + sep + y)
					fieldOf(a, f2.Name).SetString(z)
					fieldOf(b, f1.Name).SetString(x)
					fieldOf(b, f2.Name).SetString(y + sep + z)
					pairs = append(pairs, pairT{ct: ct, a: a, b: b, kind: "split:" + f1.Name + "/" + f2.Name})
				}
			}
			// two numbers printed back to back would make 1|23 and 12|3 collide
			if i%3 == 0 {
				var nums []extract.Field
				for _, f := range ct.Fields {
					if f.Kind == "u64" {
						nums = append(nums, f)
					}
				}
				for _, f1 := range nums {
					for _, f2 := range nums {
						if f1.Name != f2.Name {
							a, b := clone(ct, base), clone(ct, base)
							fieldOf(a, f1.Name).SetUint(1)
							fieldOf(a, f2.Name).SetUint(23)
							fieldOf(b, f1.Name).SetUint(12)
							fieldOf(b, f2.Name).SetUint(3)
							pairs = append(pairs, pairT{ct: ct, a: a, b: b, kind: "shift:" + f1.Name + "/" + f2.Name})
						}
					}
				}
			}
			// digit shift between a number and the string that follows it, list boundary shifts (invalid claims; model tie)
			if i%4 == 0 {
				for _, f := range ct.Fields {
					if f.Kind == "str" && f.Class == "addr" {
						a, b := clone(ct, base), clone(ct, base)
						fieldOf(a, "EventNonce").SetUint(1)
						fieldOf(a, f.Name).SetString("23x")
						fieldOf(b, "EventNonce").SetUint(12)
						fieldOf(b, f.Name).SetString("3x")
						pairs = append(pairs, pairT{ct: ct, a: a, b: b, kind: "shift:EventNonce/" + f.Name})
					}
					if f.Kind == "strlist" {
						a, b := clone(ct, base), clone(ct, base)
						fieldOf(a, f.Name).Set(reflect.ValueOf([]string{"a b"}))
						fieldOf(b, f.Name).Set(reflect.ValueOf([]string{"a", "b"}))
						pairs = append(pairs, pairT{ct: ct, a: a, b: b, kind: "listshift:" + f.Name})
					}
					if f.Kind == "members" {
						a, b := clone(ct, base), clone(ct, base)
						fieldOf(a, f.Name).Set(reflect.ValueOf([]crosschaintypes.BridgeValidator{{Power: 1, ExternalAddress: "a} {2 b"}}))
						fieldOf(b, f.Name).Set(reflect.ValueOf([]crosschaintypes.BridgeValidator{{Power: 1, ExternalAddress: "a"}, {Power: 2, ExternalAddress: "b"}}))
						pairs = append(pairs, pairT{ct: ct, a: a, b: b, kind: "listshift:" + f.Name})
					}
				}
			}
		}
	}
	// scale: lists of 99, 100, 101, 120, 250 elements (members repeated where validation allows it) with a single
	// element changed in every region: first, around the 100th, last.  A rendering that stops after N elements, or a
	// tally keyed by a truncated list, shows up only here.
	for _, ct := range tab.Claims {
		var lists []extract.Field
		for _, f := range ct.Fields {
			if (f.Kind == "strlist" || f.Kind == "intlist" || f.Kind == "members") && !extract.IsIrrelevant(f.Name) {
				lists = append(lists, f)
			}
		}
		if len(lists) == 0 {
			continue
		}
		for _, n := range []int{99, 100, 101, 120, 250} {
			g := &gen{r: r, chain: "eth", noNil: true}
			base := g.claim(ct)
			pool := []string{g.addr(), g.addr(), g.addr()}
			for _, f := range lists {
				v := reflect.ValueOf(g.value(f, n))
				if f.Kind == "members" && n%2 == 1 { // repeated members
					for k := 0; k < v.Len(); k++ {
						v.Index(k).FieldByName("ExternalAddress").SetString(pool[k%len(pool)])
					}
				}
				if f.Kind == "intlist" { // amounts must pass ValidateBasic: non-negative
					for k := 0; k < v.Len(); k++ {
						v.Index(k).Set(reflect.ValueOf(v.Index(k).Interface().(sdkmath.Int).Abs()))
					}
				}
				fieldOf(base, f.Name).Set(v)
			}
			for _, f := range lists {
				for _, k := range []int{0, 98, 99, 100, n - 1} {
					if k >= n {
						continue
					}
					for try := 0; try < 2; try++ { // members: once the address, once the power
						v := clone(ct, base)
						el := fieldOf(v, f.Name).Index(k)
						switch f.Kind {
						case "members":
							if try == 0 {
								el.FieldByName("ExternalAddress").SetString(g.addr())
							} else {
								el.FieldByName("Power").SetUint(el.FieldByName("Power").Uint() ^ 4_000_000_000 | 1)
							}
						case "strlist":
							el.SetString(g.addr())
						case "intlist":
							el.Set(reflect.ValueOf(el.Interface().(sdkmath.Int).AddRaw(1)))
						}
						if canon(ct, v, relevantOnly) != canon(ct, base, relevantOnly) {
							pairs = append(pairs, pairT{ct: ct, a: base, b: v, kind: fmt.Sprintf("long:%s[%d/%d]", f.Name, k, n)})
						}
						if f.Kind != "members" {
							break
						}
					}
				}
			}
		}
	}
	var pitems []string
	type collT struct {
		p   pairT
		sig string
	}
	var collisions []collT
	seenSig := map[string]bool{}
	for _, p := range pairs {
		va, vb := p.a.ValidateBasic() == nil, p.b.ValidateBasic() == nil
		p.valid = va && vb
		same := bytes.Equal(p.a.ClaimHash(), p.b.ClaimHash())
		sameRel := canon(p.ct, p.a, relevantOnly) == canon(p.ct, p.b, relevantOnly)
		nontriv := p.valid && !sameRel
		rep.Case("pair|"+p.ct.Go+"|"+p.kind+"|"+canon(p.ct, p.a, relevantOnly)+"|"+canon(p.ct, p.b, relevantOnly), nontriv)
		rep.Count(fmt.Sprintf("phase2:valid=%v:collide=%v", p.valid, same))
		if strings.HasPrefix(p.kind, "corpus:") {
			rep.Count(fmt.Sprintf("corpus-pair:valid=%v:collide=%v", p.valid, same))
			if !p.valid {
				rep.Notes = append(rep.Notes, p.kind+": a claim of this corpus pair no longer passes ValidateBasic (entry is stale)")
			}
		}
		if p.ct.Err == "" && (lib.Tier() == "thorough" || !strings.HasPrefix(p.kind, "long:") || strings.HasSuffix(p.kind, "[100/101]")) {
			pitems = append(pitems, fmt.Sprintf("mk_pair_case Gen_%s %s %s %s %s", p.ct.Short, coqClaim(p.ct, p.a), coqClaim(p.ct, p.b), lib.Bool(same), lib.Bool(sameRel)))
		}
		if !(p.valid && same && !sameRel) {
			continue
		}
		if p.a.GetEventNonce() != p.b.GetEventNonce() {
			// different event nonces are never tallied together (the attestation key is nonce || hash): not a violation
			rep.Count("phase2:same-hash-different-nonce")
			continue
		}
		// a collision between two ValidateBasic-valid claims that differ in a relevant field
		differing := []string{}
		for _, f := range p.ct.Fields {
			one := func(n string) bool { return n == f.Name }
			if relevantOnly(f.Name) && canon(p.ct, p.a, one) != canon(p.ct, p.b, one) {
				differing = append(differing, f.Name)
			}
		}
		read := false
		for _, f := range differing {
			read = read || isRead(p.ct, f)
		}
		sig := sigOf("collision", p.ct.Go, strings.Join(differing, "+"))
		rep.Count("phase2:" + sig)
		if !read {
			if !seenSig[sig] {
				rep.Notes = append(rep.Notes, "ClaimHash collision on fields no handler reads (not an alarm): "+sig)
			}
			seenSig[sig] = true
			continue
		}
		if seenSig[sig] {
			continue // one report per signature; the histogram has the count
		}
		collisions = append(collisions, collT{p, sig})
		seenSig[sig] = true
		rep.Fail(lib.Failure{Kind: "monitor", Sig: sig,
			What:   fmt.Sprintf("two ValidateBasic-valid %s with different %s have the same ClaimHash(): they are tallied in one attestation and the threshold-crossing voter's version is executed", p.ct.Go, strings.Join(differing, "/")),
			Replay: map[string]interface{}{"kind": p.kind, "claim_a": describe(p.ct, p.a), "claim_b": describe(p.ct, p.b), "claim_hash": hex.EncodeToString(p.a.ClaimHash())}})
	}
	lib.WriteCases("Cases_C03_pairs.v", []string{"model.M_ClaimHash", "model.M_ClaimHashCorr", "gen.Gen_ClaimHash"}, "pair_case", pitems, "pair_mismatch")

	// cross-type: valid claims of different types with the same height and nonce never share a hash
	for i := 0; i < pairBases*4; i++ {
		g := &gen{r: r, chain: evmChains[r.Intn(len(evmChains))]}
		t1, t2 := tab.Claims[r.Intn(len(tab.Claims))], tab.Claims[r.Intn(len(tab.Claims))]
		if t1 == t2 {
			continue
		}
		a, b := g.claim(t1), g.claim(t2)
		fieldOf(b, "EventNonce").SetUint(a.GetEventNonce())
		fieldOf(b, "BlockHeight").SetUint(a.GetBlockHeight())
		rep.Case("xtype|"+t1.Go+"|"+t2.Go+"|"+canon(t1, a, relevantOnly)+canon(t2, b, relevantOnly), true)
		rep.Count("phase2:crosstype")
		if a.ValidateBasic() == nil && b.ValidateBasic() == nil && bytes.Equal(a.ClaimHash(), b.ClaimHash()) {
			rep.Fail(lib.Failure{Kind: "monitor", Sig: sigOf("crosstype", t1.Go, t2.Go),
				What:   "claims of different types share a ClaimHash()",
				Replay: map[string]interface{}{"claim_a": describe(t1, a), "claim_b": describe(t2, b)}})
		}
	}

	// ---------------- phase 3
	var qitems []string
	for i := 0; i < schedules; i++ {
		qitems = append(qitems, quorumSchedule(rep, tab, r, seed+int64(i), i%2 == 1))
	}
	lib.WriteCases("Cases_C03_quorum.v", []string{"model.M_ClaimHash", "model.M_AttestExec"}, "quorum_case", qitems, "quorum_mismatch")

	// ---------------- phase 3b: the same machinery with oracle powers moving between the votes (dynquorum.go)
	var ditems []string
	for i := 0; i < schedules; i++ {
		ditems = append(ditems, dynSchedule(rep, tab, r, seed+5000+int64(i)))
	}
	lib.WriteCases("Cases_C03_dyn.v", []string{"model.M_ClaimHash", "model.M_AttestExec", "model.M_AttestExecDyn"}, "dyn_case", ditems, "dyn_mismatch")

	sort.Slice(collisions, func(i, j int) bool { return collisions[i].sig < collisions[j].sig })
	for _, c := range collisions {
		replayThroughQuorum(rep, tab, c.p, c.sig, seed)
	}
	memoShowcase(rep, seed)
	oracleSetScaleScenario(rep, seed)
	rep.Write()
	if mode == "replay" {
		for _, f := range rep.Failures {
			b, _ := json.MarshalIndent(f.Replay, "  ", " ")
			fmt.Printf("%s\n  %s\n  %s\n\n", f.Sig, f.What, b)
		}
		fmt.Printf("%d monitor failures reproduced with seed %d\n", len(rep.Failures), seed)
	}
}
