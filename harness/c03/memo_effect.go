package main

// memo_effect.go: a concrete effect of the Memo omission, on the real app:
// a bridge call carrying native FX whose Memo selects "send call to" delivers the tokens to the
// SENDER (and calls `to` as the sender with the raw data) instead of delivering them to `To`.
// Setup: the FX bridge token of the module is registered through a real quorum (nonce 1), the module
// account is funded; then nonce 2 is a MsgBridgeCallClaim voted by oracle 0 with an empty memo and by the
// threshold-crossing oracle 1 with Memo = MemoSendCallTo (same ClaimHash), followed by ExecuteClaim.

import (
	"bytes"
	"encoding/hex"
	"fmt"

	sdkmath "cosmossdk.io/math"
	sdk "github.com/cosmos/cosmos-sdk/types"
	minttypes "github.com/cosmos/cosmos-sdk/x/mint/types"
	"github.com/ethereum/go-ethereum/common"

	fxtypes "github.com/functionx/fx-core/v8/types"
	crosschaintypes "github.com/functionx/fx-core/v8/x/crosschain/types"

	"fxverif/lib"
)

type memoRun struct {
	Errors       []string `json:"errors"`
	ExecErr      string   `json:"execute_claim_error"`
	ToFX         string   `json:"balance_of_to"`
	SenderFX     string   `json:"balance_of_sender"`
	ExecutedMemo string   `json:"executed_memo"`
}

func memoEffect(seed int64, variantMemo string) (res memoRun, sameHash bool) {
	c := lib.NewChain(seed, 2, nil)
	x := c.X("eth")
	x.SetupOracles([]int64{10000, 10000, 10000})
	lib.Must(c.NextBlock())
	fxContract := common.BytesToAddress(bytes.Repeat([]byte{0xf1}, 20)).Hex()
	// nonce 1: register the FX bridge token (all three oracles agree)
	for i := 0; i < 2; i++ {
		err := x.Claim(x.Oracles[i], &crosschaintypes.MsgBridgeTokenClaim{EventNonce: 1, BlockHeight: 100, TokenContract: fxContract,
			Name: "Function X", Symbol: fxtypes.DefaultDenom, Decimals: 18})
		if err != nil {
			res.Errors = append(res.Errors, "bridge token vote: "+err.Error())
		}
	}
	// fund the module account so that it can release FX
	amt := sdk.NewCoins(lib.FX(1000))
	lib.Must(c.App.BankKeeper.MintCoins(c.Ctx, minttypes.ModuleName, amt))
	lib.Must(c.App.BankKeeper.SendCoinsFromModuleToModule(c.Ctx, minttypes.ModuleName, "eth", amt))
	lib.Must(c.NextBlock())

	sender := common.BytesToAddress(bytes.Repeat([]byte{0xa1}, 20))
	to := common.BytesToAddress(bytes.Repeat([]byte{0xb2}, 20))
	mk := func(memo string) *crosschaintypes.MsgBridgeCallClaim {
		return &crosschaintypes.MsgBridgeCallClaim{EventNonce: 2, BlockHeight: 101, Sender: sender.Hex(), Refund: sender.Hex(),
			TokenContracts: []string{fxContract}, Amounts: []sdkmath.Int{sdkmath.NewInt(5).MulRaw(1e18)}, To: to.Hex(),
			Data: "", Value: sdkmath.ZeroInt(), Memo: memo, TxOrigin: sender.Hex()}
	}
	first, second := mk(""), mk(variantMemo)
	sameHash = bytes.Equal(first.ClaimHash(), second.ClaimHash())
	for i, cl := range []*crosschaintypes.MsgBridgeCallClaim{first, second} {
		if err := x.Claim(x.Oracles[i], cl); err != nil {
			res.Errors = append(res.Errors, "bridge call vote: "+err.Error())
		}
		if err := cl.ValidateBasic(); err != nil {
			res.Errors = append(res.Errors, "ValidateBasic: "+err.Error())
		}
	}
	if pc, found := x.Keeper.GetPendingExecuteClaim(c.Ctx, 2); found {
		res.ExecutedMemo = pc.(*crosschaintypes.MsgBridgeCallClaim).Memo
	} else {
		res.Errors = append(res.Errors, "no pending claim for nonce 2 (threshold not crossed)")
	}
	if err := c.Try(func(ctx sdk.Context) error { return x.Keeper.ExecuteClaim(ctx, 2) }); err != nil {
		res.ExecErr = err.Error()
	}
	// the base coin is handed over as the ERC-20 of its token pair (WFX for the native coin)
	pair, found := c.App.Erc20Keeper.GetTokenPair(c.Ctx, fxtypes.DefaultDenom)
	bal := func(a common.Address) string {
		s := c.App.BankKeeper.GetBalance(c.Ctx, a.Bytes(), fxtypes.DefaultDenom).Amount.String() + " FX"
		if found {
			if b, err := c.App.EvmKeeper.ERC20BalanceOf(c.Ctx, common.HexToAddress(pair.Erc20Address), a); err == nil {
				s += " + " + b.String() + " WFX"
			} else {
				s += " + ? (" + err.Error() + ")"
			}
		}
		return s
	}
	res.ToFX, res.SenderFX = bal(to), bal(sender)
	return
}

func memoShowcase(rep *lib.Report, seed int64) {
	variant := hex.EncodeToString(crosschaintypes.MemoSendCallTo.Bytes())
	ctl, _ := memoEffect(seed, "")
	v, same := memoEffect(seed, variant)
	rep.Count("phase3:memo-effect")
	if !same {
		return // the hash distinguishes the memo: nothing to show
	}
	if len(ctl.Errors)+len(v.Errors) > 0 || ctl.ExecErr != "" || v.ExecErr != "" {
		rep.Notes = append(rep.Notes, fmt.Sprintf("memo effect scenario inconclusive: control=%+v variant=%+v", ctl, v))
		return
	}
	if ctl.ToFX == v.ToFX && ctl.SenderFX == v.SenderFX {
		rep.Notes = append(rep.Notes, fmt.Sprintf("memo effect scenario: same balances control=%+v variant=%+v", ctl, v))
		return
	}
	rep.Case("memo-effect", true)
	rep.Fail(lib.Failure{Kind: "monitor", Sig: sigOf("effect", "MsgBridgeCallClaim", "Memo"),
		What: fmt.Sprintf("real quorum on eth: oracle 0 voted a 5 FX bridge call to %s with an empty memo; oracle 1 crossed the threshold with Memo=MemoSendCallTo (same ClaimHash): after ExecuteClaim `to` holds %s and the sender %s (all-honest run: to %s, sender %s)",
			"0xb2..b2", v.ToFX, v.SenderFX, ctl.ToFX, ctl.SenderFX),
		Replay: map[string]interface{}{"seed": seed, "module": "eth", "control": ctl, "variant": v, "variant_memo": variant}})
}
