package main

// quorum.go: phase 3 - the real attestation machinery (MsgServer.Claim -> Attest -> TryAttestation ->
// AttestationHandler / ExecuteClaim) on the full app.

import (
	"bytes"
	"encoding/hex"
	"fmt"
	"os"
	"reflect"
	"strings"

	sdkmath "cosmossdk.io/math"
	sdk "github.com/cosmos/cosmos-sdk/types"

	crosschaintypes "github.com/functionx/fx-core/v8/x/crosschain/types"

	"fxverif/gen_c03/extract"
	"fxverif/lib"
)

// pendingTypes: claim types whose quorum only stores the claim object for a later executeClaim;
// their attestation never panics, so any vote schedule is admissible.
var pendingTypes = []string{"MsgSendToFxClaim", "MsgBridgeCallClaim", "MsgBridgeCallResultClaim"}

type variantT struct {
	id    int
	nonce uint64
	claim crosschaintypes.ExternalClaim
	keyid int
}

func powers(x *lib.XChain) ([]int64, int64) {
	var ps []int64
	for _, o := range x.Oracles {
		or, found := x.Keeper.GetOracle(x.C.Ctx, o.Oracle.Acc())
		if !found {
			ps = append(ps, 0)
			continue
		}
		ps = append(ps, or.GetPower().Int64())
	}
	req := crosschaintypes.AttestationVotesPowerThreshold.Mul(x.Keeper.GetLastTotalPower(x.C.Ctx)).Quo(sdkmath.NewInt(100))
	return ps, req.Int64()
}

// quorumSchedule runs one random vote schedule on a fresh real chain and returns the Coq case.
// With directed = true the schedule follows the multi-nonce pattern "votes for n+1 reach quorum power before n is
// observed": 5-6 equal oracles (4 votes = quorum); a group of 4 splits nonce 1 three to one and then all vote X at
// nonce 2, in a random interleaving that keeps each oracle's own order; a fifth oracle completes nonce 1 and then
// (mostly) votes a DIFFERENT claim Y at nonce 2; the remaining votes follow in random order.  The quorum-completing
// and the divergent votes are taken by different oracles / variants from schedule to schedule.
func quorumSchedule(rep *lib.Report, tab *extract.Table, r *lib.Rand, chainSeed int64, directed bool) string {
	ct := tab.Get(pendingTypes[r.Intn(len(pendingTypes))])
	module := []string{"eth", "bsc", "tron", "polygon"}[r.Intn(4)]
	c := lib.NewChain(chainSeed, 2, nil)
	x := c.X(module)
	nOr := 3 + r.Intn(3)
	if directed {
		nOr = 5 + r.Intn(2)
	}
	stakes := make([]int64, nOr)
	for i := range stakes {
		stakes[i] = []int64{10000, 10000, 15000, 20000, 30000, 50000}[r.Intn(6)]
		if directed {
			stakes[i] = 10000
		}
	}
	x.SetupOracles(stakes)
	lib.Must(c.NextBlock())

	g := &gen{r: r, chain: module, noNil: true}
	avoidKnown := r.Chance(50) || directed // half of the schedules only use variants that differ in hashed fields
	var variants []*variantT
	hashes := map[string]int{}
	for nonce := uint64(1); nonce <= 2; nonce++ {
		base := g.claim(ct)
		fieldOf(base, "EventNonce").SetUint(nonce)
		nv := 2 + r.Intn(2)
		for k := 0; k < nv; k++ {
			v := clone(ct, base)
			if k > 0 {
				// change one relevant field; prefer a field outside the hash when allowed
				var cands []extract.Field
				for _, f := range ct.Fields {
					if extract.IsIrrelevant(f.Name) || f.Name == "EventNonce" || f.Kind == "strlist" || f.Kind == "intlist" {
						continue
					}
					if avoidKnown && !ct.Hashed(f.Name) {
						continue
					}
					if !avoidKnown && k == 1 && ct.Hashed(f.Name) && len(ct.Fields)-len(ct.Args) > 2 {
						continue
					}
					cands = append(cands, f)
				}
				if len(cands) == 0 {
					for _, f := range ct.Fields {
						if !extract.IsIrrelevant(f.Name) && f.Name != "EventNonce" && f.Kind != "strlist" && f.Kind != "intlist" {
							cands = append(cands, f)
						}
					}
				}
				f := cands[r.Intn(len(cands))]
				for try := 0; try < 10; try++ {
					fieldOf(v, f.Name).Set(reflect.ValueOf(g.value(f, 0)))
					if canon(ct, v, relevantOnly) != canon(ct, base, relevantOnly) {
						break
					}
				}
			}
			dup := false
			for _, o := range variants {
				if o.nonce == nonce && canon(ct, o.claim, relevantOnly) == canon(ct, v, relevantOnly) {
					dup = true
				}
			}
			if dup {
				continue
			}
			variants = append(variants, &variantT{id: len(variants), nonce: nonce, claim: v})
		}
	}
	for _, v := range variants {
		// the hash does not depend on bridger/chain name, so it can be taken before the vote sets them
		h := hex.EncodeToString(v.claim.ClaimHash())
		if _, ok := hashes[h]; !ok {
			hashes[h] = len(hashes)
		}
		v.keyid = hashes[h]
	}
	byNonce := func(n uint64) []*variantT {
		var l []*variantT
		for _, v := range variants {
			if v.nonce == n {
				l = append(l, v)
			}
		}
		return l
	}

	ps, req := powers(x)
	var pw []string
	for i, p := range ps {
		pw = append(pw, lib.Pair(lib.Z(int64(i)), lib.Z(p)))
	}
	type voted struct {
		oracle int
		v      *variantT
	}
	var votes, codes []string
	var accepted []voted
	distinctVoted := map[int]bool{}
	nVotes := nOr*2 + r.Intn(4)
	next := make([]uint64, nOr) // next nonce an oracle is expected to vote for
	for i := range next {
		next[i] = 1
	}
	type planned struct {
		oi    int
		nonce uint64
		vi    int
	}
	var plan []planned
	if directed && len(byNonce(1)) >= 2 && len(byNonce(2)) >= 2 {
		perm := r.Perm(nOr)
		grp, rest := perm[:4], perm[4:]
		dissent := r.Intn(4) // which member of the group votes the other claim at nonce 1
		todo := map[int][]planned{}
		for k, oi := range grp {
			v1 := 0
			if k == dissent {
				v1 = 1
			}
			todo[oi] = []planned{{oi, 1, v1}, {oi, 2, 0}}
		}
		for left := 8; left > 0; left-- { // random interleaving, each oracle in its own order
			oi := grp[r.Intn(4)]
			for len(todo[oi]) == 0 {
				oi = grp[r.Intn(4)]
			}
			plan = append(plan, todo[oi][0])
			todo[oi] = todo[oi][1:]
		}
		plan = append(plan, planned{rest[0], 1, 0}) // completes nonce 1
		y := 1
		if r.Chance(25) {
			y = 0
		}
		plan = append(plan, planned{rest[0], 2, y}) // mostly a different claim for nonce 2
		for _, oi := range rest[1:] {
			plan = append(plan, planned{oi, 1, r.Intn(2)}, planned{oi, 2, r.Intn(2)})
		}
		for k := 0; k < 2; k++ { // a few stray votes (rejected by the real code)
			plan = append(plan, planned{r.Intn(nOr), uint64(1 + r.Intn(2)), r.Intn(2)})
		}
		nVotes = len(plan)
		rep.Count("phase3:directed-schedule")
	}
	for i := 0; i < nVotes; i++ {
		oi := r.Intn(nOr)
		nonce := next[oi]
		if nonce > 2 || r.Chance(12) {
			nonce = uint64(1 + r.Intn(2)) // out-of-order / repeated vote: must be rejected by the real code
		}
		vs := byNonce(nonce)
		v := vs[r.Intn(len(vs))]
		if plan != nil {
			oi, nonce = plan[i].oi, plan[i].nonce
			vs = byNonce(nonce)
			v = vs[plan[i].vi%len(vs)]
		}
		before := x.Keeper.GetLastObservedEventNonce(c.Ctx)
		cl := clone(ct, v.claim)
		err := x.Claim(x.Oracles[oi], cl)
		after := x.Keeper.GetLastObservedEventNonce(c.Ctx)
		code := int64(1)
		switch {
		case err != nil:
			code = 0
			if os.Getenv("C03_DEBUG") != "" {
				fmt.Fprintf(os.Stderr, "DEBUG seed=%d vote %d oracle=%d nonce=%d rejected: %v\n", chainSeed, i, oi, v.nonce, err)
			}
		case after != before:
			// executed: which object was handed to the handler?  (stored as the pending claim)
			pc, found := x.Keeper.GetPendingExecuteClaim(c.Ctx, v.nonce)
			code = -1
			if found {
				for _, w := range variants {
					if w.nonce == v.nonce && canon(ct, w.claim, relevantOnly) == canon(ct, pc, relevantOnly) {
						code = int64(2 + w.id)
					}
				}
				// monitor (property text): the executed event is what a quorum voted for - the oracles that voted
				// for exactly this payload hold the required power on their own
				var support int64
				counted := map[int]bool{}
				for _, a := range append(append([]voted(nil), accepted...), voted{oi, v}) {
					if a.v.nonce == v.nonce && !counted[a.oracle] && canon(ct, a.v.claim, relevantOnly) == canon(ct, pc, relevantOnly) {
						counted[a.oracle] = true
						support += ps[a.oracle]
					}
				}
				if support < req {
					failOnce(rep, lib.Failure{Kind: "monitor", Sig: sigOf("schedule", ct.Go, "executed-without-quorum"),
						What: fmt.Sprintf("real quorum on %s: a %s was executed although the oracles that voted for it hold power %d < required %d (votes for conflicting claims of the nonce were counted)", module, ct.Go, support, req),
						Replay: map[string]interface{}{"chain_seed": chainSeed, "module": module, "stakes_fx": stakes, "powers": ps, "required": req,
							"votes_so_far(oracle,(variant,nonce,hash id))": append([]string(nil), append(votes, lib.Pair(lib.Z(int64(oi)), fmt.Sprintf("(%d, %d, %d)", v.id, v.nonce, v.keyid)))...),
							"executed": describe(ct, pc)}})
				}
				// monitor (property text): every vote tallied in the executed attestation agrees with the
				// executed object on all execution-relevant fields
				for _, a := range append(accepted, voted{oi, v}) {
					if a.v.nonce == v.nonce && a.v.keyid == v.keyid && canon(ct, a.v.claim, relevantOnly) != canon(ct, pc, relevantOnly) {
						var diff []string
						for _, f := range ct.Fields {
							one := func(n string) bool { return n == f.Name }
							if relevantOnly(f.Name) && canon(ct, a.v.claim, one) != canon(ct, pc, one) {
								diff = append(diff, f.Name)
							}
						}
						for _, fld := range diff {
							failOnce(rep, lib.Failure{Kind: "monitor", Sig: sigOf("schedule", ct.Go, fld),
								What: fmt.Sprintf("real quorum on %s: the executed %s differs in %s from what oracle %d voted for in the same attestation", module, ct.Go, fld, a.oracle),
								Replay: map[string]interface{}{"chain_seed": chainSeed, "module": module, "stakes_fx": stakes,
									"executed": describe(ct, pc), "voted_by_oracle": a.oracle, "voted": describe(ct, a.v.claim)}})
						}
						break
					}
				}
			}
		}
		if err == nil {
			accepted = append(accepted, voted{oi, v})
			distinctVoted[v.id] = true
			if next[oi] == v.nonce {
				next[oi]++
			}
		}
		if code == -1 && os.Getenv("C03_DEBUG") != "" {
			pc, found := x.Keeper.GetPendingExecuteClaim(c.Ctx, v.nonce)
			fmt.Fprintf(os.Stderr, "DEBUG seed=%d type=%s found=%v before=%d after=%d nonce=%d\n", chainSeed, ct.Go, found, before, after, v.nonce)
			if found {
				fmt.Fprintf(os.Stderr, "  pc=%s\n", canon(ct, pc, relevantOnly))
			}
			for _, w := range variants {
				fmt.Fprintf(os.Stderr, "  v%d n=%d %s\n", w.id, w.nonce, canon(ct, w.claim, relevantOnly))
			}
		}
		rep.Count(fmt.Sprintf("phase3:vote=%s", map[int64]string{0: "rejected", 1: "voted", -1: "executed-unknown-object"}[min64(code, 1)]))
		if code >= 2 {
			rep.Count("phase3:vote=executed")
		}
		votes = append(votes, lib.Pair(lib.Z(int64(oi)), fmt.Sprintf("(%d, %d, %d)", v.id, v.nonce, v.keyid)))
		codes = append(codes, lib.Z(code))
		if r.Chance(20) {
			lib.Must(c.NextBlock())
		}
	}
	rep.Case(fmt.Sprintf("quorum|%d|%s|%v|%v", chainSeed, ct.Go, votes, codes), len(distinctVoted) >= 2)
	return fmt.Sprintf("mk_quorum_case %s %s %s %s", lib.List(pw), lib.Z(req), lib.List(votes), lib.List(codes))
}

func min64(a, b int64) int64 {
	if a < b {
		return a
	}
	return b
}

// localizeMembers makes an oracle-set claim acceptable to the real message server: claimLogicCheck requires every
// member address to be the external address of a registered oracle (repetitions are allowed), and
// UpdateOracleSetExecuted only records the observed set unconditionally for OracleSetNonce 0.  Addresses are
// renamed consistently over both claims of the pair (distinct stays distinct at every position where they differ).
func localizeMembers(ct *extract.Claim, x *lib.XChain, p pairT, claims ...crosschaintypes.ExternalClaim) {
	var mf string
	for _, f := range ct.Fields {
		if f.Kind == "members" {
			mf = f.Name
		}
	}
	if mf == "" {
		return
	}
	la := fieldOf(p.a, mf).Interface().([]crosschaintypes.BridgeValidator)
	lb := fieldOf(p.b, mf).Interface().([]crosschaintypes.BridgeValidator)
	n := len(x.Oracles)
	m := map[string]int{}
	for k, mem := range la {
		if _, ok := m[mem.ExternalAddress]; !ok {
			m[mem.ExternalAddress] = k % n
		}
	}
	for k, mem := range lb {
		if _, ok := m[mem.ExternalAddress]; !ok {
			m[mem.ExternalAddress] = k % n
			if k < len(la) && la[k].ExternalAddress != mem.ExternalAddress && m[la[k].ExternalAddress] == k%n {
				m[mem.ExternalAddress] = (k + 1) % n
			}
		}
	}
	for _, c := range claims {
		l := fieldOf(c, mf).Interface().([]crosschaintypes.BridgeValidator)
		for k := range l {
			if i, ok := m[l[k].ExternalAddress]; ok {
				l[k].ExternalAddress = x.Oracles[i].ExtAddr
			}
		}
		if f := ct.Field("OracleSetNonce"); f != nil {
			fieldOf(c, "OracleSetNonce").SetUint(0)
		}
	}
}

// replayThroughQuorum pushes a colliding pair (a, b) through a real 3-oracle quorum twice:
// control: oracle 0 and oracle 1 vote a;  variant: oracle 0 votes a, oracle 1 (crossing) votes b.
// It reports what was executed and how the resulting state differs.
func replayThroughQuorum(rep *lib.Report, tab *extract.Table, p pairT, sig string, seed int64) {
	ct := p.ct
	module := fieldOf(p.a, "ChainName").String()
	run := func(second crosschaintypes.ExternalClaim) (errs []string, executed crosschaintypes.ExternalClaim, dump map[string][]string, execErr string) {
		c := lib.NewChain(seed, 2, nil)
		x := c.X(module)
		x.SetupOracles([]int64{10000, 10000, 10000})
		lib.Must(c.NextBlock())
		first := clone(ct, p.a)
		fieldOf(first, "EventNonce").SetUint(1)
		sec := clone(ct, second)
		fieldOf(sec, "EventNonce").SetUint(1)
		localizeMembers(ct, x, p, first, sec)
		for i, cl := range []crosschaintypes.ExternalClaim{first, sec} {
			err := x.Claim(x.Oracles[i], cl)
			if e := cl.ValidateBasic(); e != nil {
				errs = append(errs, "ValidateBasic: "+e.Error())
			}
			if err != nil {
				errs = append(errs, err.Error())
			}
		}
		if x.Keeper.GetLastObservedEventNonce(c.Ctx) != 1 {
			errs = append(errs, "second vote did not cross the threshold")
		}
		if pc, found := x.Keeper.GetPendingExecuteClaim(c.Ctx, 1); found {
			executed = pc
			// what the executeClaim precompile does: keeper.ExecuteClaim(ctx, nonce)
			if err := c.Try(func(ctx sdk.Context) error { return x.Keeper.ExecuteClaim(ctx, 1) }); err != nil {
				execErr = err.Error()
			}
		}
		dump = c.DumpAll(c.Ctx)
		return
	}
	errsC, exC, dumpC, eeC := run(p.a)
	errsV, exV, dumpV, eeV := run(p.b)
	one := clone(ct, p.a)
	fieldOf(one, "EventNonce").SetUint(1)
	two := clone(ct, p.b)
	fieldOf(two, "EventNonce").SetUint(1)
	if !bytes.Equal(one.ClaimHash(), two.ClaimHash()) {
		return
	}
	diff := lib.DiffDumps(dumpC, dumpV)
	// ignore the stored pending claim / attestation bytes themselves when judging the EFFECT
	var effect []string
	for _, d := range diff {
		effect = append(effect, d)
	}
	what := fmt.Sprintf("real 3-oracle quorum on %s: oracle 0 voted one %s, oracle 1 crossed the threshold with a variant of the same ClaimHash", module, ct.Go)
	replay := map[string]interface{}{"seed": seed, "module": module, "stakes_fx": []int64{10000, 10000, 10000},
		"vote_0": describe(ct, one), "vote_1_crossing": describe(ct, two),
		"errors_control": errsC, "errors_variant": errsV, "execute_claim_error_control": eeC, "execute_claim_error_variant": eeV,
		"state_diff_control_vs_variant": effect}
	differs := len(diff) > 0
	if exV != nil {
		replay["executed_object"] = describe(ct, exV)
		if canon(ct, exV, relevantOnly) != canon(ct, one, relevantOnly) {
			differs = true
			what += "; the object handed to the handler is the variant, not what oracle 0 voted for"
		}
		_ = exC
	}
	if len(diff) > 0 {
		what += fmt.Sprintf("; resulting state differs from the all-honest run in %d store entries", len(diff))
	}
	if !differs || len(errsV) > 0 {
		rep.Notes = append(rep.Notes, fmt.Sprintf("%s: quorum replay inconclusive (errors %v, diff %d)", sig, errsV, len(diff)))
		return
	}
	rep.Case("replay|"+sig, true)
	failOnce(rep, lib.Failure{Kind: "monitor", Sig: strings.TrimSuffix(sig, "collision") + "quorum", What: what, Replay: replay})
}
