package main

// scale_scenario.go: one real vote schedule with oracle-set claims of 101 members (more than MaxOracleSize;
// neither ValidateBasic nor claimLogicCheck bounds the length or forbids repeated members).  Four equal oracles:
// oracles 0 and 1 report list A, oracle 2 reports A' = A with the power of member #101 changed, oracle 3 reports A.
// Property: A' never shares an attestation with A - nothing is observed after the third vote (A holds 50 %), and after the
// fourth vote the recorded last observed oracle set is A, member for member.

import (
	"fmt"

	crosschaintypes "github.com/functionx/fx-core/v8/x/crosschain/types"

	"fxverif/lib"
)

func oracleSetScaleScenario(rep *lib.Report, seed int64) {
	c := lib.NewChain(seed, 2, nil)
	x := c.X("eth")
	x.SetupOracles([]int64{10000, 10000, 10000, 10000})
	lib.Must(c.NextBlock())
	const n = 101
	mk := func(lastPower uint64) *crosschaintypes.MsgOracleSetUpdatedClaim {
		ms := make([]crosschaintypes.BridgeValidator, n)
		for k := range ms {
			ms[k] = crosschaintypes.BridgeValidator{Power: uint64(1000 + k), ExternalAddress: x.Oracles[k%len(x.Oracles)].ExtAddr}
		}
		ms[n-1].Power = lastPower
		return &crosschaintypes.MsgOracleSetUpdatedClaim{EventNonce: 1, BlockHeight: 500, OracleSetNonce: 0, Members: ms}
	}
	honest, variant := uint64(1000+n-1), uint64(4_000_000_000)
	var errs []string
	vote := func(i int, p uint64) {
		cl := mk(p)
		if err := x.Claim(x.Oracles[i], cl); err != nil {
			errs = append(errs, fmt.Sprintf("oracle %d: %v", i, err))
		}
		if err := cl.ValidateBasic(); err != nil {
			errs = append(errs, fmt.Sprintf("oracle %d ValidateBasic: %v", i, err))
		}
	}
	observedPower := func() uint64 {
		os := x.Keeper.GetLastObservedOracleSet(c.Ctx)
		if os == nil || len(os.Members) != n {
			return 0
		}
		return os.Members[n-1].Power
	}
	vote(0, honest)
	vote(1, honest)
	vote(2, variant)
	afterThird, p3 := x.Keeper.GetLastObservedEventNonce(c.Ctx), observedPower()
	vote(3, honest)
	afterFourth, p4 := x.Keeper.GetLastObservedEventNonce(c.Ctx), observedPower()
	rep.Count("phase3:oracle-set-scale")
	rep.Case(fmt.Sprintf("scale|%d", seed), true)
	replay := map[string]interface{}{"seed": seed, "module": "eth", "stakes_fx": []int64{10000, 10000, 10000, 10000}, "members": n,
		"votes":  "oracle0: A, oracle1: A, oracle2: A' (power of member #101 = 4000000000), oracle3: A",
		"errors": errs, "observed_nonce_after_third_vote": afterThird, "member101_power_recorded_after_third_vote": p3,
		"observed_nonce_after_fourth_vote": afterFourth, "member101_power_recorded_after_fourth_vote": p4,
		"same_claim_hash": string(mk(honest).ClaimHash()) == string(mk(variant).ClaimHash())}
	switch {
	case len(errs) > 0:
		rep.Notes = append(rep.Notes, fmt.Sprintf("oracle-set scale scenario inconclusive: %v", errs))
	case afterThird != 0:
		failOnce(rep, lib.Failure{Kind: "monitor", Sig: sigOf("scale", "MsgOracleSetUpdatedClaim", "Members"),
			What:   fmt.Sprintf("real quorum on eth, 4 equal oracles, 101-member oracle-set claims: the event was observed after oracle 2 voted a list differing at member #101 from the list oracles 0 and 1 (50%% of the power) voted; recorded power of member #101 = %d (the two oracles voted %d)", p3, honest),
			Replay: replay})
	case afterFourth != 1 || p4 != honest:
		failOnce(rep, lib.Failure{Kind: "monitor", Sig: sigOf("scale", "MsgOracleSetUpdatedClaim", "Members"),
			What:   fmt.Sprintf("real quorum on eth, 101-member oracle-set claims: after three of four oracles voted list A the recorded last observed oracle set is not A (observed nonce %d, member #101 power %d, expected %d)", afterFourth, p4, honest),
			Replay: replay})
	}
}
