package main

// falsetoken.go: an externally-owned ERC-20 that is NOT a FIP20: hand-written EVM assembly (geth core/asm; no solc) that
// signals a transfer it cannot do by RETURNING FALSE instead of reverting (ZRX / BAT style).  balanceOf[a] lives at storage
// slot a, totalSupply at slot 0, allowance[o][s] at keccak(o, s).  name() symbol() decimals() totalSupply() balanceOf()
// allowance() approve() transfer() transferFrom() mint() (mint is open: the harness plays the issuer).
// transfer / transferFrom: insufficient balance or allowance -> return false, nothing written; otherwise return true.

import (
	"fmt"

	"github.com/ethereum/go-ethereum/common"
	"github.com/ethereum/go-ethereum/core/asm"
)

func falseTokenCode(name, symbol string) []byte {
	strWord := func(s string) string {
		b := make([]byte, 32)
		copy(b, s)
		return "0x" + common.Bytes2Hex(b)
	}
	retStr := func(s string) string {
		return fmt.Sprintf("push 32\npush 0\nmstore\npush %d\npush 32\nmstore\npush %s\npush 64\nmstore\npush 96\npush 0\nreturn\n", len(s), strWord(s))
	}
	retTop := "push 0\nmstore\npush 32\npush 0\nreturn\n" // return the word on top of the stack
	retTrue := "push 1\n" + retTop
	retFalse := "push 0\n" + retTop
	sel := func(id, label string) string { return "dup1\npush " + id + "\neq\njumpi @" + label + "\n" }
	src := "push 0\ncalldataload\npush 224\nshr\n" +
		sel("0x70a08231", "balanceOf") + sel("0xa9059cbb", "transfer") + sel("0x23b872dd", "transferFrom") +
		sel("0x095ea7b3", "approve") + sel("0xdd62ed3e", "allowance") + sel("0x18160ddd", "totalSupply") +
		sel("0x40c10f19", "mint") + sel("0x06fdde03", "name") + sel("0x95d89b41", "symbol") + sel("0x313ce567", "decimals") +
		"push 0\npush 0\nrevert\n" +
		"balanceOf:\npush 4\ncalldataload\nsload\n" + retTop +
		"totalSupply:\npush 0\nsload\n" + retTop +
		"decimals:\npush 18\n" + retTop +
		"name:\n" + retStr(name) +
		"symbol:\n" + retStr(symbol) +
		// allowance(owner, spender)
		"allowance:\npush 4\ncalldataload\npush 0\nmstore\npush 36\ncalldataload\npush 32\nmstore\npush 64\npush 0\nkeccak256\nsload\n" + retTop +
		// approve(spender, x): allowance[caller][spender] = x
		"approve:\ncaller\npush 0\nmstore\npush 4\ncalldataload\npush 32\nmstore\npush 36\ncalldataload\npush 64\npush 0\nkeccak256\nsstore\n" + retTrue +
		// mint(to, x)
		"mint:\npush 36\ncalldataload\ndup1\npush 4\ncalldataload\nsload\nadd\npush 4\ncalldataload\nsstore\npush 0\nsload\nadd\npush 0\nsstore\nstop\n" +
		// transfer(to, x)
		"transfer:\npush 36\ncalldataload\ncaller\nsload\ndup2\ndup2\nlt\njumpi @fail\ndup2\nswap1\nsub\ncaller\nsstore\n" +
		"push 4\ncalldataload\ndup1\nsload\ndup3\nadd\nswap1\nsstore\npop\n" + retTrue +
		// transferFrom(from, to, x)
		"transferFrom:\npush 4\ncalldataload\npush 0\nmstore\ncaller\npush 32\nmstore\npush 64\npush 0\nkeccak256\n" + // [aslot]
		"push 68\ncalldataload\n" + // [x, aslot]
		"dup1\npush 4\ncalldataload\nsload\nlt\njumpi @fail\n" + // balance[from] < x
		"dup1\ndup3\nsload\nlt\njumpi @fail\n" + // allowance < x
		"dup1\ndup3\nsload\nsub\ndup3\nsstore\n" + // allowance -= x
		"dup1\npush 4\ncalldataload\nsload\nsub\npush 4\ncalldataload\nsstore\n" + // balance[from] -= x
		"push 36\ncalldataload\nsload\nadd\npush 36\ncalldataload\nsstore\npop\n" + retTrue + // balance[to] += x
		"fail:\n" + retFalse
	comp := asm.NewCompiler(false)
	comp.Feed(asm.Lex([]byte(src), false))
	hex, errs := comp.Compile()
	if len(errs) > 0 {
		panic(fmt.Sprint(errs))
	}
	return common.Hex2Bytes(hex)
}
