package main

// gen.go: history generator.  Operations are drawn from one PRNG; parameters are chosen from the REAL current
// state (balances, pool, batches, calls) so that most operations are valid, with a share of deliberately
// invalid ones (amount above balance, foreign tx id, chain without alias, disabled pair ...).

import (
	"math/big"

	sdk "github.com/cosmos/cosmos-sdk/types"

	crosschaintypes "github.com/functionx/fx-core/v8/x/crosschain/types"

	"fxverif/lib"
)

type Gen struct {
	R       *lib.Rand
	W       *World
	probed  bool
	Mon     *Monitor
	Prop    string // "C04" or "C08": shifts the weights
	AvoidKF bool   // avoid the triggers of the known findings (old-rule refunds, external-token bridge calls)
}

func (g *Gen) user() int { return uBase + g.R.Pick(len(g.W.Users)) }
func (g *Gen) tok() int  { return g.R.Pick(len(g.W.Toks)) }
func (g *Gen) chainOf(t int) int {
	tk := g.W.Toks[t]
	if g.R.Chance(8) || len(tk.Aliases) == 0 { // a chain on which the token may have no alias
		return g.W.Chains[g.R.Pick(len(g.W.Chains))]
	}
	return chainID(tk.Aliases[g.R.Pick(len(tk.Aliases))].Chain)
}

// amount in [1, bal] mostly; sometimes bal+1.. (invalid)
func (g *Gen) amt(bal *big.Int, cap int64) int64 {
	b := int64(1 << 40)
	if bal.IsInt64() {
		b = bal.Int64()
	}
	if b > cap {
		b = cap
	}
	if g.R.Chance(7) {
		return b + 1 + int64(g.R.Pick(50))
	}
	if g.R.Chance(3) {
		return 0 // zero amounts: refused by ValidateBasic / the keepers, or accepted as a no-op — the model must agree
	}
	if b <= 0 {
		return 1 + int64(g.R.Pick(20))
	}
	switch g.R.Pick(6) {
	case 0:
		return b
	case 1:
		return 1
	default:
		return 1 + int64(g.R.Intn(int(b)))
	}
}

func (g *Gen) bankBal(a, t, which int) *big.Int {
	d := g.W.denomOf(t, which)
	if d == "" {
		return new(big.Int)
	}
	return g.W.C.Bal(g.W.C.Ctx, g.W.Addr(a), d)
}
func (g *Gen) ercBal(a, t int) *big.Int {
	return g.W.C.ERC20BalanceOf(g.W.C.Ctx, g.W.Toks[t].ERC20, g.W.Hex(a))
}

type poolTx struct {
	C      int
	ID     int64
	Sender int
	T      int
}

func (g *Gen) poolTxs() []poolTx {
	var out []poolTx
	w := g.W
	for _, c := range w.Chains {
		for _, tx := range w.xs(c).Keeper.GetUnbatchedTransactions(w.C.Ctx) {
			p := poolTx{C: c, ID: int64(tx.Id), T: w.tokByContract(c, tx.Token.Contract), Sender: -1}
			for a, ad := range w.addr {
				if ad.String() == tx.Sender {
					p.Sender = a
				}
			}
			out = append(out, p)
		}
	}
	return out
}

type batchRef struct {
	C, T  int
	Nonce int64
}

func (g *Gen) batches() []batchRef {
	var out []batchRef
	w := g.W
	for _, c := range w.Chains {
		for _, b := range w.xs(c).Keeper.GetOutgoingTxBatches(w.C.Ctx) {
			out = append(out, batchRef{c, w.tokByContract(c, b.TokenContract), int64(b.BatchNonce)})
		}
	}
	return out
}

type callRef struct {
	C      int
	Nonce  int64
	HasExt bool
	HasMod bool
}

func (g *Gen) calls() []callRef {
	var out []callRef
	w := g.W
	for _, c := range w.Chains {
		w.xs(c).Keeper.IterateOutgoingBridgeCalls(w.C.Ctx, func(o *crosschaintypes.OutgoingBridgeCall) bool {
			r := callRef{C: c, Nonce: int64(o.Nonce)}
			for _, tk := range o.Tokens {
				if t := w.tokByContract(c, tk.Contract); t >= 0 {
					r.HasExt = r.HasExt || w.Toks[t].Kind == lib.TokExternal
					r.HasMod = r.HasMod || w.Toks[t].Kind == lib.TokModuleOwned
				}
			}
			out = append(out, r)
			return false
		})
	}
	return out
}

func (g *Gen) liveChain(c int) bool { return !g.W.stuck[c] }

// aliasHolder finds a user holding a bridge denom of a non-FX token
func (g *Gen) aliasHolder() (a, t, c int, ok bool) {
	for i := range g.W.Users {
		for tt, tk := range g.W.Toks {
			if tk.Kind == lib.TokFX {
				continue
			}
			for _, al := range tk.Aliases {
				if g.W.C.Bal(g.W.C.Ctx, g.W.Addr(uBase+i), al.Denom).Sign() > 0 {
					return uBase + i, tt, chainID(al.Chain), true
				}
			}
		}
	}
	return 0, 0, 0, false
}

// receiver of a conversion: mostly the sender or another user; sometimes a blocked module address (erc20 module, a
// chain module, the evm module: MintingEnabled / the bank must refuse) or the pair's own contract (allowed)
func (g *Gen) receiver(a, t int) int {
	switch n := g.R.Pick(100); {
	case n < 50:
		return a
	case n < 84:
		return g.user()
	case n < 90:
		return aERC20
	case n < 93:
		return g.W.Chains[g.R.Pick(len(g.W.Chains))]
	case n < 95:
		return aEVM
	case n < 97:
		return aIBC
	default:
		if t > 0 {
			return tokAcct + t
		}
		return a // (coins or WFX sent to the WFX contract itself over-collateralise it: outside the stated equations)
	}
}

// extDeposit: an externally-owned token can only come back from chain c after it really arrived there: at most what
// was observed as executed towards c minus what already came back (the external chain cannot return tokens that are
// still in flight); sometimes more than the module has locked at all (must be refused)
func (g *Gen) extDeposit(t, c int) int64 {
	if g.R.Chance(7) {
		locked := g.bankBal(c, t, c)
		if locked.IsInt64() {
			return locked.Int64() + 1 + int64(g.R.Pick(50))
		}
	}
	lim := new(big.Int).Sub(via(g.Mon.exeVia, t, c), via(g.Mon.depVia, t, c))
	if lim.Sign() <= 0 || !lim.IsInt64() {
		return 0
	}
	return 1 + int64(g.R.Intn(int(lim.Int64())))
}

// holder picks a (user, token) pair with a positive balance (bank base coin or ERC-20), mostly; random otherwise
func (g *Gen) holder(erc bool) (int, int) {
	if g.R.Chance(10) {
		return g.user(), g.tok()
	}
	type pr struct{ a, t int }
	var cand []pr
	for i := range g.W.Users {
		for t := range g.W.Toks {
			var b *big.Int
			if erc {
				b = g.ercBal(uBase+i, t)
			} else {
				b = g.bankBal(uBase+i, t, 0)
			}
			if b.Sign() > 0 {
				cand = append(cand, pr{uBase + i, t})
				if t != 0 { // favour the non-FX tokens (everybody holds FX)
					cand = append(cand, pr{uBase + i, t}, pr{uBase + i, t})
				}
			}
		}
	}
	if len(cand) == 0 {
		return g.user(), g.tok()
	}
	p := cand[g.R.Pick(len(cand))]
	return p.a, p.t
}

// a token list for a bridge call: 1-2 distinct tokens with amounts from the holder's balance (bank or erc20)
func (g *Gen) tokList(a, c int, erc bool) [][2]int64 {
	var out [][2]int64
	n := 1 + g.R.Pick(2)
	seen := map[int]bool{}
	for i := 0; i < n; i++ {
		t := g.tok()
		for k := 0; k < 4; k++ { // prefer a token the holder has
			if (erc && g.ercBal(a, t).Sign() > 0) || (!erc && g.bankBal(a, t, 0).Sign() > 0) {
				break
			}
			t = g.tok()
		}
		if seen[t] {
			continue
		}
		if g.AvoidKF && g.W.Toks[t].Kind != lib.TokFX {
			// known findings: the refund of a module-owned / external token's outgoing bridge call uses the older rule
			continue
		}
		seen[t] = true
		var bal *big.Int
		if erc {
			bal = g.ercBal(a, t)
		} else {
			bal = g.bankBal(a, t, 0)
		}
		out = append(out, [2]int64{int64(t), g.amt(bal, 5000)})
	}
	if len(out) == 0 {
		out = append(out, [2]int64{0, g.amt(g.bankBal(a, 0, 0), 5000)})
		if erc {
			out[0][1] = g.amt(g.ercBal(a, 0), 5000)
		}
	}
	// sdk.Coins order = sorted by denom string; the model treats the list as given, so sort here the same way
	if !erc && len(out) == 2 && g.W.Toks[out[0][0]].Base > g.W.Toks[out[1][0]].Base {
		out[0], out[1] = out[1], out[0]
	}
	return out
}

// Next draws the next real operation.
func (g *Gen) Next(step int) Op {
	w := g.W
	r := g.R
	if len(w.disabledTok) > 0 {
		// a disabled pair makes refunds to ERC-20 impossible (ConvertCoin refuses, the refund panics): a pair stays
		// disabled for exactly one probing conversion, then it is enabled again
		for t := range w.Toks {
			if w.disabledTok[t] {
				if g.probed {
					g.probed = false
					return Op{K: "Toggle", T: t}
				}
				g.probed = true
				a := g.user()
				switch r.Pick(3) {
				case 0:
					return Op{K: "ConvertCoin", T: t, A: a, B: a, X: g.amt(g.bankBal(a, t, 0), 5000)}
				case 1:
					return Op{K: "ConvertERC20", T: t, A: a, B: a, X: g.amt(g.ercBal(a, t), 5000)}
				default:
					c := g.chainOf(t)
					return Op{K: "SendToFx", C: c, T: t, A: a, X: int64(10 + r.Intn(500)), Tgt: 1}
				}
			}
		}
	}
	if step < 5 || r.Chance(12) { // deposits seed the balances
		t := g.tok()
		c := g.chainOf(t)
		if !g.liveChain(c) {
			c = 1
		}
		tgt := 0
		if r.Chance(35) {
			tgt = 1
		} else if r.Chance(12) {
			tgt = 2 // IBC target
		}
		x := int64(100 + r.Intn(5000))
		if w.Toks[t].Kind == lib.TokExternal {
			if x = g.extDeposit(t, c); x <= 0 { // nothing of it has arrived on that chain yet: deposit the module-owned token instead
				t = 1
				c = g.chainOf(t)
				x = int64(100 + r.Intn(5000))
			}
		}
		o := Op{K: "SendToFx", C: c, T: t, A: g.user(), X: x, Tgt: tgt}
		// sometimes the observed deposit is left unexecuted for a while (valid module-owned token, plain target: nothing
		// but the pending-execute record decides whether it can be executed later)
		if tgt == 0 && w.Toks[t].Kind == lib.TokModuleOwned && w.Toks[t].Alias(chainName(c)) != nil && g.liveChain(c) && r.Chance(25) {
			o.Park = true
		}
		return o
	}
	if len(w.parked) > 0 && r.Chance(12) {
		p := w.parked[r.Pick(len(w.parked))]
		return Op{K: "ExecParked", C: p.C, ID: p.ID}
	}
	if bs := g.batches(); len(bs) > 0 && r.Chance(4) { // a pending batch is left to time out (cancel-batch path: its transfers return to the pool)
		if b := bs[r.Pick(len(bs))]; g.liveChain(b.C) {
			return Op{K: "ObserveJump", C: b.C, X: 1}
		}
	}
	weights := []struct {
		k string
		w int
	}{
		{"SendToExternal", 14}, {"Cancel", 7}, {"IncreaseFee", 4}, {"RequestBatch", 9}, {"BatchExecuted", 5}, {"ObserveJump", 4},
		{"BridgeCallMsg", 6}, {"BridgeCallResult", 6}, {"BridgeCallIn", 5},
		{"ConvertCoin", 8}, {"ConvertERC20", 7}, {"ConvertDenom", 4}, {"Toggle", 1},
		{"PreCrossChain", 7}, {"PreBridgeCall", 6}, {"PreCancel", 3}, {"PreIncreaseFee", 3},
		{"BankSend", 3}, {"Erc20Transfer", 3}, {"WfxDeposit", 2}, {"WfxWithdraw", 2}, {"IbcMint", 2}, {"IbcToBase", 2}, {"BaseToIbc", 2}, {"PreCrossChainIbc", 3}, {"IbcRecv", 2},
	}
	if g.Prop == "C08" {
		for i := range weights {
			switch weights[i].k {
			case "ConvertCoin", "ConvertERC20":
				weights[i].w *= 3
			case "ConvertDenom", "Toggle", "WfxDeposit", "WfxWithdraw", "Erc20Transfer", "PreIncreaseFee":
				weights[i].w *= 2
			}
		}
	}
	tot := 0
	for _, x := range weights {
		tot += x.w
	}
	for try := 0; try < 50; try++ {
		n := r.Intn(tot)
		k := ""
		for _, x := range weights {
			if n < x.w {
				k = x.k
				break
			}
			n -= x.w
		}
		a := g.user()
		t := g.tok()
		c := g.chainOf(t)
		switch k {
		case "SendToExternal":
			a, t = g.holder(false)
			c = g.chainOf(t)
			bal := g.bankBal(a, t, 0)
			x := g.amt(bal, 4000)
			fee := int64(r.Pick(21)) // 0 (refused) .. 20
			if r.Chance(30) && bal.IsInt64() && bal.Int64() > x { // amount + fee = exactly the balance
				fee = bal.Int64() - x
			}
			return Op{K: k, C: c, T: t, A: a, X: x, Y: fee}
		case "Cancel", "PreCancel":
			ps := g.poolTxs()
			if len(ps) == 0 {
				if r.Chance(10) {
					return Op{K: k, C: c, A: a, ID: int64(1 + r.Pick(3))}
				}
				continue
			}
			p := ps[r.Pick(len(ps))]
			s := p.Sender
			if r.Chance(10) || s < 0 {
				s = g.user()
			}
			return Op{K: k, C: p.C, A: s, ID: p.ID}
		case "IncreaseFee":
			ps := g.poolTxs()
			if len(ps) == 0 {
				continue
			}
			p := ps[r.Pick(len(ps))]
			tt := p.T
			if r.Chance(10) {
				tt = g.tok()
			}
			if tt < 0 {
				continue
			}
			which := p.C
			if w.Toks[tt].Kind == lib.TokFX {
				which = 0
			}
			if w.denomOf(tt, which) == "" {
				continue
			}
			return Op{K: k, C: p.C, T: tt, A: a, ID: p.ID, X: g.amt(g.bankBal(a, tt, which), 300)}
		case "PreIncreaseFee":
			ps := g.poolTxs()
			if len(ps) == 0 {
				continue
			}
			p := ps[r.Pick(len(ps))]
			if p.T < 0 {
				continue
			}
			nat := w.Toks[p.T].Kind == lib.TokFX && r.Chance(50)
			bal := g.ercBal(a, p.T)
			if nat {
				bal = g.bankBal(a, 0, 0)
			}
			return Op{K: k, C: p.C, T: p.T, A: a, ID: p.ID, X: g.amt(bal, 300), Flag: nat}
		case "RequestBatch":
			ps := g.poolTxs()
			if len(ps) == 0 || r.Chance(10) {
				if w.denomOf(t, c) == "" && w.Toks[t].Kind != lib.TokFX {
					continue
				}
				return Op{K: k, C: c, T: t}
			}
			p := ps[r.Pick(len(ps))]
			if p.T < 0 {
				continue
			}
			return Op{K: k, C: p.C, T: p.T}
		case "BatchExecuted":
			bs := g.batches()
			if len(w.liveBatch) > 0 { // what the external chain may execute (not what the fxcore store still holds)
				bs = nil
				for _, lb := range w.liveBatch {
					bs = append(bs, batchRef{lb.C, lb.T, int64(lb.Nonce)})
				}
			}
			if len(bs) == 0 {
				continue
			}
			b := bs[r.Pick(len(bs))]
			if !g.liveChain(b.C) || b.T < 0 {
				continue
			}
			return Op{K: k, C: b.C, T: b.T, ID: b.Nonce}
		case "ObserveJump":
			// jump the observed external height beyond a batch / bridge-call timeout
			if !g.liveChain(c) {
				continue
			}
			x := int64(r.Pick(3))
			if bs := g.batches(); len(bs) > 0 && r.Chance(50) { // a pending batch: let it time out (the cancel-batch path)
				if b := bs[r.Pick(len(bs))]; g.liveChain(b.C) {
					c, x = b.C, 1
				}
			}
			return Op{K: k, C: c, X: x}
		case "BridgeCallMsg":
			a, _ = g.holder(false)
			rf := a
			if r.Chance(40) {
				rf = g.user()
			}
			if !g.liveChain(c) {
				continue
			}
			return Op{K: k, C: c, A: a, B: rf, Toks: g.tokList(a, c, false)}
		case "PreBridgeCall":
			a, _ = g.holder(true)
			rf := a
			if r.Chance(40) {
				rf = g.user()
			}
			var val int64
			toks := g.tokList(a, c, true)
			if r.Chance(30) {
				val = g.amt(g.bankBal(a, 0, 0), 3000)
				if r.Chance(50) {
					toks = nil
				}
			}
			return Op{K: k, C: c, A: a, B: rf, Y: val, Toks: toks}
		case "BridgeCallResult":
			cs := g.calls()
			if len(cs) == 0 {
				continue
			}
			cr := cs[r.Pick(len(cs))]
			if !g.liveChain(cr.C) {
				continue
			}
			ok := r.Chance(50)
			if g.AvoidKF && (cr.HasExt || cr.HasMod) {
				ok = true
			}
			return Op{K: k, C: cr.C, ID: cr.Nonce, Flag: ok}
		case "BridgeCallIn":
			if !g.liveChain(c) {
				continue
			}
			to := g.user()
			okk := true
			switch r.Pick(6) {
			case 0:
				to = cOK
			case 1:
				to, okk = cBad, false
			case 2:
				to = cRe // its callback re-enters executeClaim for the very claim being executed (refused; swallowed)
			}
			rf := to
			if r.Chance(40) || to == cBad {
				rf = g.user()
			}
			var toks [][2]int64
			x := int64(50 + r.Intn(3000))
			if w.Toks[t].Kind == lib.TokExternal {
				if x = g.extDeposit(t, c); x <= 0 {
					t = 1
					c = g.chainOf(t)
					x = int64(50 + r.Intn(3000))
				}
			}
			toks = append(toks, [2]int64{int64(t), x})
			if g.AvoidKF && !okk {
				to, okk, rf = g.user(), true, a
			}
			// the (external) sender's own fxcore account: another user; the memo: mostly empty, sometimes arbitrary, sometimes
			// exactly the send-call-to marker (then the sender's account is credited and `to` is called as the sender)
			sd := g.user()
			for i := 0; i < 4 && sd == to; i++ {
				sd = g.user()
			}
			memo := 0
			switch n := r.Pick(100); {
			case n < 22:
				memo = 2
			case n < 36:
				memo = 1
			}
			if memo == 2 && rf == to && r.Chance(50) {
				rf = sd
			}
			return Op{K: k, C: c, A: to, B: rf, S: sd, Memo: memo, X: int64(r.Pick(3)), Toks: toks, Flag: okk, To: to}
		case "ConvertCoin":
			a, t = g.holder(false)
			return Op{K: k, T: t, A: a, B: g.receiver(a, t), X: g.amt(g.bankBal(a, t, 0), 5000)}
		case "ConvertERC20":
			a, t = g.holder(true)
			return Op{K: k, T: t, A: a, B: g.receiver(a, t), X: g.amt(g.ercBal(a, t), 5000)}
		case "ConvertDenom":
			if g.AvoidKF {
				continue
			}
			a, t = g.holder(false)
			c = g.chainOf(t)
			if aa, tt, cc, ok := g.aliasHolder(); ok && r.Chance(60) { // someone holds a bridge denom: convert it on (alias -> base / other alias)
				tgt := 0
				if r.Chance(60) {
					tgt = g.chainOf(tt)
				}
				return Op{K: k, T: tt, A: aa, B: g.receiver(aa, tt), Src: cc, Tgt: tgt, X: g.amt(g.bankBal(aa, tt, cc), 2000)}
			}
			src, tgt := 0, c
			if r.Chance(50) {
				src, tgt = c, 0
				if r.Chance(20) {
					tgt = w.Chains[r.Pick(len(w.Chains))]
				}
			}
			if w.denomOf(t, src) == "" {
				continue
			}
			return Op{K: k, T: t, A: a, B: g.receiver(a, t), Src: src, Tgt: tgt, X: g.amt(g.bankBal(a, t, src), 2000)}
		case "Toggle":
			if len(g.calls()) > 0 || len(w.disabledTok) > 0 {
				continue // a disabled pair makes refunds to ERC-20 impossible (ConvertCoin refuses): kept out of the histories
			}
			return Op{K: k, T: t}
		case "PreCrossChain":
			a, t = g.holder(true)
			c = g.chainOf(t)
			nat := w.Toks[t].Kind == lib.TokFX && r.Chance(50)
			bal := g.ercBal(a, t)
			if nat {
				bal = g.bankBal(a, 0, 0)
			}
			fee := int64(r.Pick(21))
			if r.Chance(30) { // the precompile accepts a bridge fee of exactly 0; such a transfer is only ever batched next to a paying one
				fee = 0
			}
			return Op{K: k, C: c, T: t, A: a, X: g.amt(bal, 4000), Y: fee, Flag: nat}
		case "PreCrossChainIbc":
			a, t = g.holder(true)
			nat := r.Chance(30)
			if nat {
				t = 0
				return Op{K: k, T: t, A: a, X: g.amt(g.bankBal(a, 0, 0), 3000), Flag: true}
			}
			return Op{K: k, T: t, A: a, X: g.amt(g.ercBal(a, t), 3000)}
		case "IbcRecv":
			if r.Chance(60) {
				return Op{K: k, T: 0, A: a, X: g.amt(g.bankBal(aESC, 0, 0), 2000)}
			}
			return Op{K: k, T: t, A: a, X: int64(1 + r.Intn(1000))}
		case "BankSend":
			a, t = g.holder(false)
			c = g.chainOf(t)
			which := 0
			if r.Chance(30) && t != 0 {
				which = c
			}
			if w.denomOf(t, which) == "" {
				continue
			}
			return Op{K: k, T: t, Src: which, A: a, B: g.user(), X: g.amt(g.bankBal(a, t, which), 3000)}
		case "Erc20Transfer":
			a, t = g.holder(true)
			return Op{K: k, T: t, A: a, B: g.user(), X: g.amt(g.ercBal(a, t), 3000)}
		case "WfxDeposit":
			return Op{K: k, A: a, X: g.amt(g.bankBal(a, 0, 0), 3000)}
		case "WfxWithdraw":
			return Op{K: k, A: a, X: g.amt(g.ercBal(a, 0), 3000)}
		case "IbcMint":
			if w.Toks[1].IBCDenom != "" && !r.Chance(10) {
				t = 1
			}
			if w.Toks[t].IBCDenom == "" && !r.Chance(10) {
				continue
			}
			return Op{K: k, T: t, A: a, X: int64(10 + r.Intn(2000))}
		case "IbcToBase":
			if w.Toks[1].IBCDenom != "" && !r.Chance(10) {
				t = 1
			}
			if w.Toks[t].IBCDenom == "" && !r.Chance(10) {
				continue
			}
			return Op{K: k, T: t, A: a, X: g.amt(g.bankBal(a, t, 9), 2000)}
		case "BaseToIbc":
			if w.Toks[1].IBCDenom != "" && !r.Chance(10) {
				t = 1
			}
			if w.Toks[t].IBCDenom == "" && !r.Chance(10) {
				continue
			}
			return Op{K: k, T: t, A: a, X: g.amt(g.bankBal(a, t, 0), 2000)}
		}
	}
	return Op{K: "Toggle", T: g.tok()}
}

var _ = sdk.Coin{}
