package main

// ibc.go: an OPEN ICS-20 channel on the real app and inbound packets through the app's real transfer stack
// (fx IBC middleware around ibc-go transfer), the way ibc-go's core does it (cache context written only on a
// successful acknowledgement).  Small copy of what harness/c18/tok does (owned by C18/C19), kept local on purpose.

import (
	"fmt"

	sdk "github.com/cosmos/cosmos-sdk/types"
	capabilitytypes "github.com/cosmos/ibc-go/modules/capability/types"
	transfertypes "github.com/cosmos/ibc-go/v8/modules/apps/transfer/types"
	clienttypes "github.com/cosmos/ibc-go/v8/modules/core/02-client/types"
	connectiontypes "github.com/cosmos/ibc-go/v8/modules/core/03-connection/types"
	channeltypes "github.com/cosmos/ibc-go/v8/modules/core/04-channel/types"
	commitmenttypes "github.com/cosmos/ibc-go/v8/modules/core/23-commitment/types"
	host "github.com/cosmos/ibc-go/v8/modules/core/24-host"
	"github.com/cosmos/ibc-go/v8/modules/core/exported"
	ibctm "github.com/cosmos/ibc-go/v8/modules/light-clients/07-tendermint"
	localhost "github.com/cosmos/ibc-go/v8/modules/light-clients/09-localhost"

	"fxverif/lib"
)

// openChannel opens transfer/channel-<n> (localhost client, OPEN connection and channel, capability claimed by the
// transfer module) like testutil/helpers.GenIBCTransferChannel, deterministically.
func openChannel(c *lib.Chain, ctx sdk.Context, firstSeq uint64) string {
	portID := "transfer"
	app := c.App
	seq := app.IBCKeeper.ChannelKeeper.GetNextChannelSequence(ctx)
	channelID := fmt.Sprintf("channel-%d", seq)
	connectionID := connectiontypes.FormatConnectionIdentifier(seq)
	clientID := clienttypes.FormatClientIdentifier(exported.Localhost, seq)
	revision := clienttypes.ParseChainID(ctx.ChainID())
	lh := localhost.NewClientState(clienttypes.NewHeight(revision, uint64(ctx.BlockHeight())))
	app.IBCKeeper.ClientKeeper.SetClientState(ctx, clientID, lh)
	params := app.IBCKeeper.ClientKeeper.GetParams(ctx)
	params.AllowedClients = append(params.AllowedClients, lh.ClientType())
	app.IBCKeeper.ClientKeeper.SetParams(ctx, params)
	cons := &ibctm.ConsensusState{Timestamp: ctx.BlockTime(), NextValidatorsHash: ctx.BlockHeader().NextValidatorsHash}
	app.IBCKeeper.ClientKeeper.SetClientConsensusState(ctx, clientID, clienttypes.NewHeight(0, uint64(ctx.BlockHeight())), cons)
	capab, err := app.ScopedIBCKeeper.NewCapability(ctx, host.ChannelCapabilityPath(portID, channelID))
	lib.Must(err)
	lib.Must(app.ScopedTransferKeeper.ClaimCapability(ctx, capabilitytypes.NewCapability(capab.Index), host.ChannelCapabilityPath(portID, channelID)))
	conn := connectiontypes.NewConnectionEnd(connectiontypes.OPEN, clientID,
		connectiontypes.Counterparty{ClientId: "clientId", ConnectionId: "connection-1", Prefix: commitmenttypes.NewMerklePrefix([]byte("prefix"))},
		connectiontypes.GetCompatibleVersions(), 500)
	app.IBCKeeper.ConnectionKeeper.SetConnection(ctx, connectionID, conn)
	ch := channeltypes.NewChannel(channeltypes.OPEN, channeltypes.UNORDERED, channeltypes.NewCounterparty(portID, channelID), []string{connectionID}, transfertypes.Version)
	app.IBCKeeper.ChannelKeeper.SetChannel(ctx, portID, channelID, ch)
	app.IBCKeeper.ChannelKeeper.SetNextSequenceSend(ctx, portID, channelID, firstSeq)
	app.IBCKeeper.ChannelKeeper.SetNextChannelSequence(ctx, seq+1)
	return channelID
}

// ibcRecv delivers an inbound ICS-20 packet (denom as named by the counterparty) to the app's transfer stack and
// applies ibc-go core's rule: state is written only if the acknowledgement is a success.
func ibcRecv(c *lib.Chain, ctx sdk.Context, seq uint64, channel, denom, amount, sender, receiver, memo string) (bool, string) {
	data := transfertypes.NewFungibleTokenPacketData(denom, amount, sender, receiver, memo)
	pkt := channeltypes.NewPacket(data.GetBytes(), seq, "transfer", channel, "transfer", channel, clienttypes.NewHeight(0, 1_000_000), 0)
	m, ok := c.App.IBCKeeper.Router.GetRoute(transfertypes.ModuleName)
	if !ok {
		panic("no transfer route")
	}
	cacheCtx, write := ctx.CacheContext()
	ack := m.OnRecvPacket(cacheCtx, pkt, lib.ModuleAcc("relayer"))
	if ack == nil || ack.Success() {
		write()
		return true, ""
	}
	return false, string(ack.Acknowledgement())
}

const (
	ibcChannel = "channel-0"
	ibcTarget  = "ibc/0/px" // FxTarget of that channel, bech32 prefix px on the other side
)

func escrowAddr(channel string) sdk.AccAddress { return transfertypes.GetEscrowAddress("transfer", channel) }
