package main

// lifecycle.go: one history per run on a chain of its own that ends with a genesis export + import through the real
// application-level path (lib.Chain.ExportImport: commit, App.ExportAppStateAndValidators, InitChain of a new application
// on an empty database).  The pair books are live when the chain is exported (coins escrowed for minted ERC-20s of a
// module-owned pair and of FX, ERC-20s locked for minted coins of an externally-owned pair, bridge denominations locked in
// chain modules, pending transfers).  Monitors after the import:
//   - every tracked balance, supply, ERC-20 balance / totalSupply and in-flight amount is what it was before the export
//     (export + import is the identity on the ledger);
//   - the pair-books equations (escrow = totalSupply, locked ERC-20 = coin supply, sum of balances = totalSupply, pool
//     equation) hold on the new chain;
//   - a holder can still convert back (ERC-20 -> coin) on the new chain and the books still hold;
//   - (C04) the crosschain bridge-token registry still resolves every token contract and bridging goes on: deposits of every
//     token kind are observed and executed, sends / fee increases / batch requests are accepted (regression of C04-5);
//   - (C08) what hangs on the erc20 alias index still works: lookups, ConvertDenom of an alias coin, the bridge fee of an
//     externally-owned token is locked not burned, IsOriginOrConvertedDenom unchanged (regression of C08-2).
// Monitor-only: nothing follows in the ledger model (the registry side of export/import is modelled in M_Erc20 part A).

import (
	"fmt"
	"strings"

	"fxverif/lib"
)

func lifecycleOps() []Op {
	return []Op{
		{K: "SendToFx", C: 1, T: 1, A: 100, X: 5000},
		{K: "SendToFx", C: 2, T: 1, A: 101, X: 3000},
		{K: "ConvertCoin", T: 1, A: 100, B: 100, X: 1200},
		{K: "ConvertCoin", T: 1, A: 101, B: 102, X: 700},
		{K: "ConvertERC20", T: 2, A: 100, B: 100, X: 4000},
		{K: "ConvertDenom", T: 2, A: 100, B: 100, Src: 0, Tgt: 1, X: 500},
		{K: "WfxDeposit", A: 103, X: 900},
		{K: "ConvertCoin", T: 0, A: 102, B: 102, X: 350},
		{K: "SendToExternal", C: 1, T: 1, A: 100, X: 400, Y: 3},
		{K: "PreCrossChain", C: 1, T: 2, A: 101, X: 600, Y: 2},
		{K: "SendToExternal", C: 1, T: 0, A: 103, X: 250, Y: 5},
		{K: "RequestBatch", C: 1, T: 0},
	}
}

func lifecycleHistory(seed int64, rep *lib.Report) {
	saved := xcache
	defer func() { xcache = saved }()
	xcache = map[string]*lib.XChain{}
	c := lib.NewChain(seed*17+5, 1, nil)
	for _, ch := range []string{"eth", "bsc", "tron"} {
		x := c.X(ch)
		x.SetupOracles([]int64{10000, 10000, 10000})
		xcache[ch] = x
	}
	lib.Must(c.NextBlock())
	h := &History{Seed: seed*1_000_003 + 950_000, Spec: Spec{Chains: []string{"eth", "bsc", "tron"}, ModChains: []string{"eth", "bsc"}, ExtChains: []string{"eth"}}}
	w := NewWorld(c, h.Spec, h.Seed)
	mon := newMonitor(w, rep, h)
	replayDoc := map[string]interface{}{"lifecycle": true, "seed": seed}
	fail := func(sig, what string) {
		if !strings.HasPrefix(sig, prop+":") {
			return // the C04 run reports the C04 readings, the C08 run the C08 ones
		}
		rep.Fail(lib.Failure{Kind: "monitor", What: what, Sig: sig, Replay: replayDoc})
	}
	record := func(o Op, err error) {
		rep.Count("lifecycle-op:" + o.K + ":" + map[bool]string{true: "ok", false: "rej"}[err == nil])
	}
	for _, o := range lifecycleOps() {
		o := o
		pre := mon.before(o)
		res := w.perform(&o, record, mon)
		mon.after(o, pre, res)
		if !res.ok {
			fail("C08:export-import:setup", fmt.Sprintf("lifecycle history: %s was refused: %v", o.Coq(), res.err))
			return
		}
	}
	nc, err := c.ExportImport()
	if err != nil {
		fail("C08:export-import:refused", "the application cannot be restarted from its own exported genesis: "+err.Error())
		return
	}
	rep.Count("lifecycle:export-import")
	before := w.cells(c.Ctx) // (ExportImport committed the block: c is at the exported state)
	names := w.cellNames()
	// crosschain bridge-token registry (contract -> bridge denomination) and the erc20 mint-vs-unlock rule, before
	type regKey struct{ ch, contract string }
	regBefore := map[regKey]string{}
	originBefore := map[string]bool{}
	var regKeys []regKey
	for _, tk := range w.Toks {
		for _, a := range tk.Aliases {
			d, _ := xcache[a.Chain].Keeper.GetBridgeDenomByContract(c.Ctx, a.Contract)
			regBefore[regKey{a.Chain, a.Contract}] = d
			regKeys = append(regKeys, regKey{a.Chain, a.Contract})
			originBefore[a.Denom] = c.App.Erc20Keeper.IsOriginOrConvertedDenom(c.Ctx, a.Denom)
		}
	}
	w.C = nc
	for _, ch := range []string{"eth", "bsc", "tron"} {
		nx := nc.X(ch)
		nx.Oracles = xcache[ch].Oracles // (the same oracle identities: their registration is part of the imported state)
		xcache[ch] = nx
	}
	after := w.cells(nc.Ctx)
	for i := range before {
		if before[i].Cmp(after[i]) != 0 {
			fail(prop+":export-import:ledger-changed", fmt.Sprintf("genesis export + import changed %s: %s before, %s after", names[i], before[i], after[i]))
			break
		}
	}
	for _, k := range regKeys {
		if d, _ := xcache[k.ch].Keeper.GetBridgeDenomByContract(nc.Ctx, k.contract); d != regBefore[k] {
			fail("C04:export-import:bridge-token-registry-lost", fmt.Sprintf("after a genesis export + import the %s module no longer finds the bridge denomination of token contract %s (%q before, %q after): InitGenesis calls AddBridgeToken(token, denom) with the arguments the other way round, the registry is keyed by the contract address instead of the bridge denomination; deposits of that token can no longer be executed and sends towards it are refused", k.ch, k.contract, regBefore[k], d))
			break
		}
	}
	// bridging goes on after the import (regression of C04-5, fixed in /repo c0804db): a deposit of every bridged token kind is
	// observed and executed, a holder can send towards the chain, a pending transfer's fee can be raised, a batch is requested
	w.height[1], w.height[2] = 0, 0
	for _, ch := range []int{1, 2} {
		w.nonce[ch] = xcache[chainName(ch)].Keeper.GetLastObservedEventNonce(nc.Ctx)
	}
	for _, o := range []Op{
		{K: "SendToFx", C: 1, T: 1, A: 102, X: 321}, {K: "SendToFx", C: 1, T: 0, A: 102, X: 77}, {K: "SendToFx", C: 2, T: 1, A: 103, X: 55},
		{K: "SendToFx", C: 1, T: 2, A: 103, X: 300},
		{K: "SendToExternal", C: 1, T: 1, A: 100, X: 100, Y: 2},
		{K: "IncreaseFee", C: 1, T: 2, A: 100, ID: 2, X: 20}, // (transfer 2: pending since before the export; 100 holds the bridge denomination)
		{K: "RequestBatch", C: 1, T: 1},
	} {
		o := o
		pre := mon.before(o)
		res := w.perform(&o, record, mon)
		mon.after(o, pre, res)
		if !res.ok {
			fail("C04:export-import:bridge-token-registry-lost:"+o.K, fmt.Sprintf("after a genesis export + import %s is refused: %v", o.Coq(), res.err))
			break
		}
	}
	eo := Op{K: "Toggle", T: 0} // (only names the step in the monitors' messages)
	mon.books(eo)
	// convert back on the new chain
	for _, o := range []Op{{K: "ConvertERC20", T: 1, A: 100, B: 100, X: 1200}, {K: "ConvertERC20", T: 0, A: 102, B: 102, X: 350}, {K: "ConvertCoin", T: 2, A: 100, B: 100, X: 1000}} {
		o := o
		pre := mon.before(o)
		res := w.perform(&o, record, mon)
		if !res.ok {
			fail("C08:export-import:convert-back", fmt.Sprintf("after a genesis export + import %s is refused: %v", o.Coq(), res.err))
			continue
		}
		_ = pre
		mon.books(o)
	}
	// what depends on the erc20 alias index (alias denom -> base denom), which is not part of the erc20 genesis state (C08-2):
	// (a) the lookups themselves, (b) an alias coin converts to the base denom, (c) the mint-vs-unlock rule
	// (IsOriginOrConvertedDenom: the bridge denomination of an externally-owned token is locked / unlocked, not burned / minted)
	lost := func(what, detail string) {
		fail("C08:export-import:alias-index-lost:"+what, "after a genesis export + import "+detail)
	}
	for _, t := range []int{1, 2} {
		al := w.Toks[t].Alias("eth").Denom
		if d, found := nc.App.Erc20Keeper.GetAliasDenom(nc.Ctx, al); !found || d != w.Toks[t].Base {
			lost("lookup", fmt.Sprintf("the erc20 module no longer knows that %s is an alias of %s (GetAliasDenom: %q, %v) although the bank metadata lists it", al, w.Toks[t].Base, d, found))
			break
		}
	}
	cd := Op{K: "ConvertDenom", T: 2, A: 100, B: 100, Src: 1, Tgt: 0, X: 200}
	if res := w.perform(&cd, record, mon); !res.ok {
		lost("convert-denom", fmt.Sprintf("a holder of the alias coin can no longer convert it to the base denomination: %s is refused: %v", cd.Coq(), res.err))
	} else {
		mon.books(cd)
	}
	extAlias := w.Toks[2].Alias("eth").Denom
	supBefore := w.C.Supply(nc.Ctx, extAlias)
	fee := Op{K: "IncreaseFee", C: 1, T: 2, A: 100, ID: 2, X: 50}
	if res := w.perform(&fee, record, mon); !res.ok {
		fail("C08:export-import:setup", fmt.Sprintf("lifecycle history: %s was refused: %v", fee.Coq(), res.err))
	} else if supAfter := w.C.Supply(nc.Ctx, extAlias); supAfter.Cmp(supBefore) != 0 {
		lost("bridge-fee-burned", fmt.Sprintf("%s burns the bridge denomination of an externally-owned token (supply of %s %s -> %s) instead of locking it in the chain module", fee.Coq(), extAlias, supBefore, supAfter))
	} else {
		mon.books(fee)
	}
	for _, tk := range w.Toks {
		for _, al := range tk.Aliases {
			if now := nc.App.Erc20Keeper.IsOriginOrConvertedDenom(nc.Ctx, al.Denom); now != originBefore[al.Denom] {
				lost("mint-vs-unlock", fmt.Sprintf("IsOriginOrConvertedDenom(%s) (bridge denomination of the %s token %s: lock/unlock in the chain module vs. burn/mint, used by AddBridgeFee, TransferBridgeCoinToExternal and the bridge-call refund) was %v before the export and is %v after the import", al.Denom, tk.Kind, tk.Symbol, originBefore[al.Denom], now))
				return
			}
		}
	}
}

// cellNames: a readable name for every tracked cell, in the order of cells()
func (w *World) cellNames() []string {
	var out []string
	dn := w.allDenoms()
	for _, a := range w.Accts {
		for _, d := range dn {
			out = append(out, fmt.Sprintf("the balance of account %d in %s", a, d.Name))
		}
	}
	for _, d := range dn {
		out = append(out, "the supply of "+d.Name)
	}
	for _, tk := range w.Toks {
		for _, a := range w.Accts {
			out = append(out, fmt.Sprintf("the %s ERC-20 balance of account %d", tk.Symbol, a))
		}
	}
	for _, tk := range w.Toks {
		out = append(out, "the totalSupply of the "+tk.Symbol+" ERC-20")
	}
	for _, c := range w.Chains {
		for _, tk := range w.Toks {
			out = append(out, fmt.Sprintf("the in-flight amount of %s on %s", tk.Symbol, chainName(c)))
		}
	}
	return out
}
