// c04: correspondence + monitors for C04 (bridge solvency) and — with VERIF_PROP=C08 — the conversion half of C08
// (pair books) on the REAL fx-core app with the real bank / erc20 / evm keepers.
//
// One history = one cache branch of a prepared chain (oracles on eth, bsc, tron): a fresh token universe is
// registered (FX; a module-owned pair with 1-3 bridge aliases and optionally an IBC alias; an externally-owned pair
// with aliases; sometimes a second module-owned pair), then 25-45 operations enter through Cosmos messages, the
// crosschain precompile (real EVM transactions) and observed oracle claims + ExecuteClaim.  After every step the
// harness records accept/reject and a checksum of all tracked observables (M_LedgerCorr.v); the model is evaluated on
// the same steps by coqc.  Independently of the model the monitors recompute the property from real balances,
// in-flight records and the claims that were fed.
package main

import (
	"encoding/hex"
	"encoding/json"
	"fmt"
	"math/big"
	"os"
	"strings"

	sdkmath "cosmossdk.io/math"
	sdk "github.com/cosmos/cosmos-sdk/types"

	crosschaintypes "github.com/functionx/fx-core/v8/x/crosschain/types"

	"fxverif/lib"
)

type Step struct {
	Op  Op     `json:"op"`
	OK  bool   `json:"ok"`
	Err string `json:"err,omitempty"`
	Chk string `json:"-"`
}

type History struct {
	Seed  int64  `json:"hist_seed"`
	Spec  Spec   `json:"spec"`
	Avoid bool   `json:"avoid_known"`
	Ops   []Op   `json:"ops"`   // the generated operations (what replay re-executes)
	Steps []Step `json:"steps"` // the recorded model-level steps with the real outcome
}

var prop = "C04"

func main() {
	if p := os.Getenv("VERIF_PROP"); p != "" {
		prop = p
	}
	mode := os.Getenv("VERIF_MODE")
	seed := lib.Seed()
	rep := lib.NewReport(prop)
	rep.Rule = "one case = one history (25-45 steps) on a fresh token universe (FX, module-owned pair with 1-3 bridge aliases +- IBC alias, externally-owned pair with 1-2 aliases, sometimes a 2nd module-owned pair) entered through Cosmos messages, precompile EVM txs and observed claims; parameters drawn from real balances with ~8% invalid; non-trivial = at least 3 accepted value-moving bridge steps and 2 token kinds touched; distinct by op-kind sequence + accept pattern"

	c := lib.NewChain(seed, 1, nil)
	for _, ch := range []string{"eth", "bsc", "tron"} {
		x := c.X(ch)
		x.SetupOracles([]int64{10000, 10000, 10000})
		xcache[ch] = x
	}
	lib.Must(c.NextBlock())
	if ch := openChannel(c, c.Ctx, 1); ch != ibcChannel {
		panic("unexpected channel id " + ch)
	}

	if mode == "replay" {
		replay(c, rep)
		return
	}


	n := 45
	if lib.Tier() == "thorough" {
		n = 450
	}
	if mode == "search" {
		n = 600
	}
	if v := lib.EnvInt("VERIF_N", 0); v > 0 {
		n = int(v)
	}
	var items []string
	// the machine-checked witnesses of P_LedgerC04.v (and one more known trigger) replayed on the real application
	{
		for i, sc := range scripted() {
			if !strings.Contains(sc.props, prop) {
				continue
			}
			h := &History{Seed: seed*1_000_003 + 900_000 + int64(i), Spec: sc.spec, Avoid: false}
			items = append(items, execHistory(c, h, lib.NewRand(h.Seed), sc.ops, rep))
			rep.Count("scripted:" + sc.name)
			if os.Getenv("VERIF_DEBUG") != "" {
				fmt.Println("== scripted:", sc.name)
				for _, st := range h.Steps {
					fmt.Printf("   %-70s ok=%v %s\n", st.Op.Coq(), st.OK, st.Err)
				}
			}
		}
	}
	if mode != "search" || os.Getenv("VERIF_LIFECYCLE") != "" {
		lifecycleHistory(seed, rep)
	}
	for i := 0; i < n; i++ {
		hseed := seed*1_000_003 + int64(i)
		avoid := i%3 == 0 // a third of the histories avoid the triggers of the known findings
		h, item := runHistory(c, hseed, avoid, rep)
		items = append(items, item)
		if i < 2 {
			rep.Sample(map[string]interface{}{"hist_seed": h.Seed, "spec": h.Spec, "steps": len(h.Steps), "first_ops": firstOps(h, 6)})
		}
	}
	if mode != "search" {
		lib.WriteCases("Cases_"+prop+".v", []string{"model.M_Ledger", "model.M_LedgerCorr"}, "lcase", items, "ledger_mismatch")
	}
	rep.Write()
}

type script struct {
	props string
	name  string
	spec  Spec
	ops   []Op
}

// bulk: more pending transfers of one token than a batch holds (OutgoingTxBatchSize = 100), by three users with tied and
// distinct fees, then the batch request, a cancel of a transfer that stayed behind, the batch's execution, another batch
func bulkOps() []Op {
	ops := []Op{
		{K: "SendToFx", C: 1, T: 1, A: 100, X: 60000}, {K: "SendToFx", C: 1, T: 1, A: 101, X: 60000}, {K: "SendToFx", C: 1, T: 1, A: 102, X: 60000},
	}
	for i := 0; i < 104; i++ {
		ops = append(ops, Op{K: "SendToExternal", C: 1, T: 1, A: 100 + i%3, X: int64(10 + i%7), Y: int64(1 + i%5)})
	}
	ops = append(ops, Op{K: "RequestBatch", C: 1, T: 1},
		Op{K: "Cancel", C: 1, A: 100, ID: 1}, // fee 1, lowest id: stayed in the pool
		Op{K: "Cancel", C: 1, A: 102, ID: 3}, // fee 3: was batched, must be refused
		Op{K: "BatchExecuted", C: 1, T: 1, ID: 1},
		Op{K: "RequestBatch", C: 1, T: 1},
		Op{K: "BatchExecuted", C: 1, T: 1, ID: 2})
	return ops
}

func scripted() []script {
	sp := Spec{Chains: []string{"eth", "bsc", "tron"}, ModChains: []string{"eth", "bsc"}, ExtChains: []string{"eth"}}
	spi := sp
	spi.ModIBC = true
	spf := sp
	spf.ExtFalse = true
	return []script{
		{"C04 C05", "bulk: 104 pending transfers against the batch size of 100", sp, bulkOps()},
		{"C08", "conversions to blocked receivers (erc20 module, chain module) and to the pair contract", sp, []Op{
			{K: "ConvertERC20", T: 2, A: 100, B: 100, X: 1000},
			{K: "ConvertCoin", T: 2, A: 100, B: aERC20, X: 300},
			{K: "ConvertCoin", T: 2, A: 100, B: 1, X: 200},
			{K: "ConvertCoin", T: 2, A: 100, B: tokAcct + 2, X: 100},
			{K: "SendToFx", C: 1, T: 1, A: 101, X: 5000},
			{K: "ConvertCoin", T: 1, A: 101, B: aERC20, X: 700},
			{K: "ConvertCoin", T: 1, A: 101, B: 102, X: 700},
			{K: "ConvertERC20", T: 1, A: 102, B: aEVM, X: 100},
			{K: "ConvertERC20", T: 1, A: 102, B: 103, X: 100},
			{K: "ConvertCoin", T: 0, A: 100, B: aERC20, X: 50},
			{K: "ConvertDenom", T: 2, A: 100, B: aERC20, Src: 0, Tgt: 1, X: 50},
		}},
		{"C04 C05 C06", "two tokens of one chain with a pending batch each, the higher-nonce batch executed first", sp, []Op{
			{K: "SendToFx", C: 1, T: 1, A: 100, X: 1000},
			{K: "SendToExternal", C: 1, T: 1, A: 100, X: 100, Y: 5},
			{K: "RequestBatch", C: 1, T: 1},
			{K: "SendToExternal", C: 1, T: 0, A: 101, X: 50, Y: 5},
			{K: "RequestBatch", C: 1, T: 0},
			{K: "BatchExecuted", C: 1, T: 0, ID: 2},
			{K: "Cancel", C: 1, A: 100, ID: 1},
			{K: "BatchExecuted", C: 1, T: 1, ID: 1},
		}},
		{"C08", "module-owned pair with two aliases: convert-denom base->alias and alias->other alias", sp, []Op{
			{K: "SendToFx", C: 1, T: 1, A: 100, X: 1000},
			{K: "SendToFx", C: 2, T: 1, A: 100, X: 500},
			{K: "BridgeCallMsg", C: 1, A: 100, B: 100, Toks: [][2]int64{{1, 400}}},
			{K: "BridgeCallResult", C: 1, ID: 1, Flag: false},
			{K: "ConvertDenom", T: 1, A: 100, B: 100, Src: 0, Tgt: 1, X: 300},
			{K: "ConvertDenom", T: 1, A: 100, B: 100, Src: 1, Tgt: 2, X: 100},
			{K: "ConvertDenom", T: 1, A: 100, B: 101, Src: 1, Tgt: 0, X: 50},
		}},
		{"C04 C08", "zero amounts through every entry point", spi, zeroOps()},
		{"C04 C05", "a transfer with bridge fee 0 (crossChain precompile) batched next to a paying one; the batch times out, a later one is superseded: every transfer is back in the pool and can be cancelled", sp, zeroFeeBatchOps()},
		{"C08 C04", "a module-owned pair whose denom is a case variant of the native coin's (fx): conversions both ways, bridging", spfx("fx"), caseVariantOps()},
		{"C08", "a module-owned pair whose denom is a case variant of the native coin's (Fx)", spfx("Fx"), caseVariantOps()},
		{"C08 C04", "convert-denom to ANOTHER account while the erc20 module holds the target denom (escrow / parked alias)", sp, []Op{
			{K: "SendToFx", C: 1, T: 1, A: 100, X: 3000},
			{K: "SendToFx", C: 1, T: 1, A: 102, X: 2000},
			{K: "ConvertCoin", T: 1, A: 102, B: 102, X: 1500}, // the module escrows base coins
			{K: "BridgeCallMsg", C: 1, A: 100, B: 100, Toks: [][2]int64{{1, 400}}},
			{K: "BridgeCallResult", C: 1, ID: 1, Flag: false}, // older-rule refund: the bridge denom is parked in the erc20 module
			{K: "ConvertDenom", T: 1, A: 100, B: 101, Src: 0, Tgt: 1, X: 150}, // base -> alias, paid to 101 (400 parked: enough for the amount twice)
			{K: "ConvertDenom", T: 1, A: 101, B: 103, Src: 1, Tgt: 0, X: 120}, // alias -> base, paid to 103 (the module holds 1500 base in escrow)
			{K: "ConvertDenom", T: 1, A: 101, B: 101, Src: 1, Tgt: 0, X: 30},
			{K: "ConvertERC20", T: 2, A: 100, B: 100, X: 2000},
			{K: "ConvertDenom", T: 2, A: 100, B: 101, Src: 0, Tgt: 1, X: 500}, // externally-owned: base -> alias to 101
			{K: "ConvertDenom", T: 2, A: 101, B: 102, Src: 1, Tgt: 0, X: 200}, // and back to 102 (the module holds the 500 base parked)
			{K: "ConvertERC20", T: 1, A: 102, B: 102, X: 1500}, // the last holder redeems the whole supply
		}},
		{"C04", "IBC: FX cannot leave over IBC through BaseCoinToIBCCoin (C04-4); alias vouchers cannot be received", spi, []Op{
			{K: "SendToFx", C: 1, T: 0, A: 100, X: 300, Tgt: 2},
			{K: "ConvertCoin", T: 0, A: 100, B: 100, X: 1000},
			{K: "PreCrossChainIbc", T: 0, A: 100, X: 100},
			{K: "PreCrossChainIbc", T: 0, A: 100, X: 100, Flag: true},
			{K: "IbcRecv", T: 0, A: 101, X: 60},
			{K: "IbcRecv", T: 0, A: 101, X: 60},
			{K: "IbcRecv", T: 1, A: 101, X: 500},
			{K: "IbcMint", T: 1, A: 100, X: 500},
			{K: "IbcToBase", T: 1, A: 100, X: 400},
			{K: "SendToFx", C: 1, T: 1, A: 101, X: 150, Tgt: 2},
			{K: "SendToFx", C: 1, T: 1, A: 101, X: 300, Tgt: 2},
			{K: "ConvertCoin", T: 1, A: 100, B: 100, X: 200},
			{K: "PreCrossChainIbc", T: 1, A: 100, X: 120},
			{K: "PreCrossChainIbc", T: 1, A: 100, X: 200},
			{K: "BaseToIbc", T: 0, A: 100, X: 10},
		}},
		{"C04", "withdrawable-refuted (older-rule refund parks the bridge denom)", sp, []Op{
			{K: "SendToFx", C: 1, T: 1, A: 100, X: 1000},
			{K: "BridgeCallMsg", C: 1, A: 100, B: 100, Toks: [][2]int64{{1, 400}}},
			{K: "BridgeCallResult", C: 1, ID: 1, Flag: false},
			{K: "SendToExternal", C: 1, T: 1, A: 100, X: 900, Y: 1},
		}},
		{"C04", "refund-refused (externally-owned token, failed result)", sp, []Op{
			{K: "ObserveJump", C: 1, X: 0},
			{K: "ConvertERC20", T: 2, A: 100, B: 100, X: 1000},
			{K: "BridgeCallMsg", C: 1, A: 100, B: 100, Toks: [][2]int64{{2, 300}}},
			{K: "BridgeCallResult", C: 1, ID: 1, Flag: false},
		}},
		{"C04", "refund-refused (externally-owned token, time-out wedges the chain's claims)", sp, []Op{
			{K: "ObserveJump", C: 1, X: 0},
			{K: "PreBridgeCall", C: 1, A: 100, B: 101, Toks: [][2]int64{{2, 250}}},
			{K: "ObserveJump", C: 1, X: 2},
			{K: "SendToFx", C: 1, T: 0, A: 101, X: 77},
		}},
		{"C04", "inbound bridge call fails: the deposit is handed to the refund address (regression of fixed C04-3)", sp, []Op{
			{K: "BridgeCallIn", C: 1, A: cBad, B: 100, To: cBad, Toks: [][2]int64{{0, 500}}, Flag: false},
		}},
		{"C04 C01", "inbound bridge calls whose receiving contract re-enters executeClaim for the claim being executed", sp, []Op{
			{K: "BridgeCallIn", C: 1, A: cRe, B: 100, To: cRe, Toks: [][2]int64{{1, 1000}}, Flag: true},
			{K: "BridgeCallIn", C: 1, A: cRe, B: 101, To: cRe, Toks: [][2]int64{{0, 300}}, Flag: true},
			{K: "SendToFx", C: 1, T: 1, A: 100, X: 700},
			{K: "BridgeCallIn", C: 2, A: cRe, B: cRe, To: cRe, Toks: [][2]int64{{1, 250}}, Flag: true},
			{K: "SendToExternal", C: 1, T: 1, A: 100, X: 600, Y: 2},
		}},
		{"C04", "inbound bridge calls with the send-call-to memo marker: the SENDER's account is credited (pre-funded and not), `to` is only called", sp, []Op{
			{K: "BridgeCallIn", C: 1, S: 101, To: 100, B: 100, Toks: [][2]int64{{0, 500}}, Memo: 2, Flag: true},
			{K: "BridgeCallIn", C: 1, S: 102, To: cOK, B: 102, Toks: [][2]int64{{1, 700}}, Memo: 2, Flag: true},
			{K: "BridgeCallIn", C: 1, S: 102, To: 103, B: 103, Toks: [][2]int64{{1, 400}}, Memo: 2, Flag: true},
			{K: "BridgeCallIn", C: 1, S: 101, To: cBad, B: 103, Toks: [][2]int64{{0, 300}}, Memo: 2, Flag: false},
			{K: "BridgeCallIn", C: 1, S: 101, To: 100, B: 100, Toks: [][2]int64{{0, 200}}, Memo: 1, Flag: true},
			{K: "BridgeCallIn", C: 1, S: 101, To: cOK, B: 100, Toks: [][2]int64{{1, 150}}, Memo: 1, X: 1, Flag: true},
			{K: "BridgeCallIn", C: 2, S: 100, To: cRe, B: 100, Toks: [][2]int64{{1, 250}}, Memo: 2, Flag: true},
			{K: "PreCrossChain", C: 1, T: 1, A: 102, X: 1000, Y: 5}, // the credited sender can withdraw what it was credited (ERC-20)
		}},
		{"C04 C08", "externally-owned token that returns false instead of reverting: transfers it cannot do through every entry point", spf, falseTokenOps()},
		{"C04 C01", "scale: a deposit left unexecuted while 103 further events of its chain are observed, executed afterwards", sp, parkedOps()},
	}
}

// parkedOps: one observed deposit is not executed; more than MaxKeepEventSize (100) further events of the same chain are
// observed (tiny deposits executed at once, and bare observations), attestation pruning runs on each; then the first deposit
// is executed and withdrawn again
func parkedOps() []Op {
	ops := []Op{{K: "SendToFx", C: 1, T: 1, A: 100, X: 1000, Park: true}}
	for i := 0; i < 103; i++ {
		if i%3 == 0 {
			ops = append(ops, Op{K: "SendToFx", C: 1, T: 1, A: 101 + i%2, X: int64(1 + i%5)})
		} else {
			ops = append(ops, Op{K: "ObserveJump", C: 1, X: 0})
		}
	}
	return append(ops, Op{K: "ExecParked", C: 1}, Op{K: "SendToExternal", C: 1, T: 1, A: 100, X: 990, Y: 10})
}

func spfx(denom string) Spec {
	return Spec{Chains: []string{"eth", "bsc", "tron"}, ModChains: []string{"eth", "bsc"}, ExtChains: []string{"eth"}, Mod2: []string{"eth"}, Mod2Denom: denom}
}

// caseVariantOps: token 3 is the second module-owned pair; bridged in, converted to ERC-20 and back, sent out, next to the native coin
func caseVariantOps() []Op {
	return []Op{
		{K: "SendToFx", C: 1, T: 3, A: 100, X: 5000},
		{K: "ConvertCoin", T: 3, A: 100, B: 100, X: 1200},
		{K: "ConvertCoin", T: 0, A: 100, B: 100, X: 700},
		{K: "ConvertCoin", T: 3, A: 100, B: 101, X: 300},
		{K: "ConvertERC20", T: 3, A: 100, B: 100, X: 1000},
		{K: "SendToFx", C: 1, T: 3, A: 102, X: 400, Tgt: 1},
		{K: "PreCrossChain", C: 1, T: 3, A: 101, X: 200, Y: 3},
		{K: "SendToExternal", C: 1, T: 3, A: 100, X: 500, Y: 5},
		{K: "BridgeCallIn", C: 1, S: 103, To: 101, B: 101, Toks: [][2]int64{{3, 250}}, Flag: true},
		{K: "ConvertERC20", T: 3, A: 101, B: 101, X: 350},
		{K: "ConvertERC20", T: 0, A: 100, B: 100, X: 700},
		{K: "BankSend", T: 3, Src: 0, A: 100, B: 103, X: 10},
	}
}

// falseTokenOps: the externally-owned token signals failure by returning false (users hold 20000 each): amounts above the
// balance / allowance through the precompile (crossChain, increaseBridgeFee, bridgeCall), MsgConvertERC20 and a plain transfer,
// interleaved with the same calls within the balance
func falseTokenOps() []Op {
	return []Op{
		{K: "ObserveJump", C: 1, X: 0},
		{K: "PreCrossChain", C: 1, T: 2, A: 101, X: 30000, Y: 5},
		{K: "PreCrossChain", C: 1, T: 2, A: 101, X: 19990, Y: 11},
		{K: "PreCrossChain", C: 1, T: 2, A: 101, X: 600, Y: 4},
		{K: "PreIncreaseFee", C: 1, T: 2, A: 101, ID: 1, X: 25000},
		{K: "PreIncreaseFee", C: 1, T: 2, A: 102, ID: 1, X: 20001},
		{K: "PreIncreaseFee", C: 1, T: 2, A: 102, ID: 1, X: 7},
		{K: "Erc20Transfer", T: 2, A: 100, B: 103, X: 20001},
		{K: "Erc20Transfer", T: 2, A: 100, B: 103, X: 5000},
		{K: "ConvertERC20", T: 2, A: 100, B: 100, X: 15001},
		{K: "ConvertERC20", T: 2, A: 100, B: 100, X: 3000},
		{K: "PreBridgeCall", C: 1, A: 103, B: 103, Toks: [][2]int64{{2, 25001}}},
		{K: "ConvertCoin", T: 2, A: 100, B: 101, X: 1000},
		{K: "PreCrossChain", C: 1, T: 2, A: 103, X: 24000, Y: 1000},
		{K: "PreCrossChain", C: 1, T: 2, A: 103, X: 24000, Y: 1001},
		{K: "Cancel", C: 1, A: 101, ID: 1},
	}
}

// zeroOps: amounts / fees of 0 through every entry point (most are refused by ValidateBasic or by the keepers; some are
// accepted as no-ops; the model must agree on each)
func zeroOps() []Op {
	return []Op{
		{K: "SendToFx", C: 1, T: 1, A: 100, X: 3000},
		{K: "SendToFx", C: 1, T: 1, A: 100, X: 0},
		{K: "SendToFx", C: 1, T: 1, A: 100, X: 0, Tgt: 1},
		{K: "SendToFx", C: 1, T: 0, A: 100, X: 0},
		{K: "SendToExternal", C: 1, T: 1, A: 100, X: 0, Y: 1},
		{K: "SendToExternal", C: 1, T: 1, A: 100, X: 10, Y: 0},
		{K: "SendToExternal", C: 1, T: 1, A: 100, X: 10, Y: 1},
		{K: "IncreaseFee", C: 1, T: 1, A: 100, ID: 1, X: 0},
		{K: "IncreaseFee", C: 1, T: 0, A: 100, ID: 1, X: 0},
		{K: "BridgeCallMsg", C: 1, A: 100, B: 100, Toks: [][2]int64{{1, 0}}},
		{K: "BridgeCallMsg", C: 1, A: 100, B: 100, Toks: [][2]int64{{0, 0}, {1, 5}}},
		{K: "BridgeCallIn", C: 1, A: 101, B: 101, To: 101, Toks: [][2]int64{{1, 0}}, Flag: true},
		{K: "BridgeCallIn", C: 1, A: cBad, B: 101, To: cBad, Toks: [][2]int64{{1, 0}}, Flag: false},
		{K: "ConvertCoin", T: 1, A: 100, B: 100, X: 0},
		{K: "ConvertCoin", T: 1, A: 100, B: 100, X: 500},
		{K: "ConvertERC20", T: 1, A: 100, B: 100, X: 0},
		{K: "ConvertDenom", T: 2, A: 100, B: 100, Src: 0, Tgt: 1, X: 0},
		{K: "PreCrossChain", C: 1, T: 1, A: 100, X: 0, Y: 1},
		{K: "PreCrossChain", C: 1, T: 1, A: 100, X: 7, Y: 0},
		{K: "PreCrossChain", C: 1, T: 1, A: 100, X: 0, Y: 0},
		{K: "PreCrossChain", C: 1, T: 0, A: 100, X: 0, Y: 0, Flag: true},
		{K: "PreBridgeCall", C: 1, A: 100, B: 100, Toks: [][2]int64{{1, 0}}},
		{K: "PreBridgeCall", C: 1, A: 100, B: 100, Toks: nil},
		{K: "PreIncreaseFee", C: 1, T: 1, A: 100, ID: 1, X: 0},
		{K: "BankSend", T: 1, Src: 0, A: 100, B: 101, X: 0},
		{K: "Erc20Transfer", T: 1, A: 100, B: 101, X: 0},
		{K: "WfxDeposit", A: 100, X: 0},
		{K: "WfxWithdraw", A: 100, X: 0},
		{K: "IbcMint", T: 1, A: 100, X: 0},
		{K: "IbcToBase", T: 1, A: 100, X: 0},
		{K: "BaseToIbc", T: 1, A: 100, X: 0},
		{K: "RequestBatch", C: 1, T: 1},
		{K: "BridgeCallResult", C: 1, ID: 1, Flag: false},
		{K: "BridgeCallResult", C: 1, ID: 2, Flag: true},
	}
}

// zeroFeeBatchOps: the crossChain precompile accepts a bridge fee of exactly 0 (MsgSendToExternal does not). Such a transfer
// cannot be batched alone (total fee below the minimum fee) but rides along with a paying transfer of the same token (base
// fee 0). The batch is then CANCELLED - once by the batch time-out, once by the execution of a later batch of the token -
// and every transfer, the unpaid one included, must be pending again and refundable to its owner.
func zeroFeeBatchOps() []Op {
	return []Op{
		{K: "SendToFx", C: 1, T: 1, A: 100, X: 3000},
		{K: "SendToFx", C: 1, T: 1, A: 101, X: 3000},
		{K: "ConvertCoin", T: 1, A: 100, B: 100, X: 2000},
		{K: "PreCrossChain", C: 1, T: 1, A: 100, X: 500, Y: 0}, // id 1, fee 0
		{K: "RequestBatch", C: 1, T: 1},                         // refused: total fee 0 < minimum fee 1
		{K: "SendToExternal", C: 1, T: 1, A: 101, X: 400, Y: 7}, // id 2
		{K: "RequestBatch", C: 1, T: 1},                         // batch 1 = {2, 1}
		{K: "Cancel", C: 1, A: 100, ID: 1},                      // refused: batched
		{K: "ObserveJump", C: 1, X: 1},                          // batch 1 times out
		{K: "Cancel", C: 1, A: 100, ID: 1},                      // accepted: 500 back
		{K: "PreCrossChain", C: 1, T: 1, A: 100, X: 300, Y: 0},  // id 3, fee 0
		{K: "RequestBatch", C: 1, T: 1},                         // batch 2 = {2, 3}
		{K: "SendToExternal", C: 1, T: 1, A: 101, X: 100, Y: 9}, // id 4
		{K: "RequestBatch", C: 1, T: 1},                         // batch 3 = {4}
		{K: "BatchExecuted", C: 1, T: 1, ID: 3},                 // batch 2 superseded: 2 and 3 back in the pool
		{K: "PreCancel", C: 1, A: 100, ID: 3},                   // accepted
		{K: "Cancel", C: 1, A: 101, ID: 2},                      // accepted
	}
}

// zeroFeeBatches: the pending batches (chain/token/nonce) that contain a transfer with bridge fee 0
func (w *World) zeroFeeBatches() map[string]bool {
	out := map[string]bool{}
	for _, c := range w.Chains {
		for _, b := range w.xs(c).Keeper.GetOutgoingTxBatches(w.C.Ctx) {
			for _, tx := range b.Transactions {
				if tx.Fee.Amount.IsZero() {
					out[fmt.Sprintf("%d/%d/%d", c, w.tokByContract(c, b.TokenContract), b.BatchNonce)] = true
					break
				}
			}
		}
	}
	return out
}

func firstOps(h *History, n int) []string {
	var out []string
	for i, s := range h.Steps {
		if i >= n {
			break
		}
		out = append(out, fmt.Sprintf("%s ok=%v", s.Op.Coq(), s.OK))
	}
	return out
}

func pickSpec(r *lib.Rand) Spec {
	sub := func(must string, min int) []string {
		all := []string{"eth", "bsc", "tron"}
		for {
			var out []string
			for _, ch := range all {
				if ch == must || r.Chance(55) {
					out = append(out, ch)
				}
			}
			if len(out) >= min {
				return out
			}
		}
	}
	sp := Spec{Chains: []string{"eth", "bsc", "tron"}}
	sp.ModChains = sub("", 1)
	sp.ModIBC = r.Chance(50)
	sp.ExtChains = sub("", 1)
	if len(sp.ExtChains) > 2 {
		sp.ExtChains = sp.ExtChains[:2]
	}
	if r.Chance(30) {
		sp.Mod2 = sub("", 1)
		// its base denom: half of the time a case variant / near-miss of a special denom (the native coin, its wrapper, another
		// registered denom, a bridge denomination)
		if r.Chance(50) {
			sp.Mod2Denom = []string{"fx", "Fx", "fX", "FXX", "wfx", "WFX", "Usdt", "EXT", "@alias"}[r.Pick(9)]
		}
	}
	sp.ExtFalse = r.Chance(35)
	return sp
}

func runHistory(c *lib.Chain, hseed int64, avoid bool, rep *lib.Report) (*History, string) {
	r := lib.NewRand(hseed)
	sp := pickSpec(r)
	h := &History{Seed: hseed, Spec: sp, Avoid: avoid}
	return h, execHistory(c, h, r, nil, rep)
}

// execHistory runs (generating, or replaying fixed when fixed != nil) one history on a cache branch of c.
func execHistory(c *lib.Chain, h *History, r *lib.Rand, fixed []Op, rep *lib.Report) string {
	base := c.Ctx
	branch, _ := base.CacheContext()
	c.Ctx = branch
	defer func() { c.Ctx = base }()

	w := NewWorld(c, h.Spec, h.Seed)
	mon := newMonitor(w, rep, h)
	g := &Gen{R: r, W: w, Prop: prop, AvoidKF: h.Avoid, Mon: mon}

	init := w.cells(c.Ctx)
	initCoq := w.initCoq(init)

	var stepsCoq []string
	record := func(o Op, err error) {
		cells := w.cells(c.Ctx)
		chk := checksum(cells)
		st := Step{Op: o, OK: err == nil, Chk: chk.String()}
		if err != nil {
			st.Err = trunc(err.Error(), 160)
		}
		h.Steps = append(h.Steps, st)
		stepsCoq = append(stepsCoq, fmt.Sprintf("(%s, %s, %s)", o.Coq(), lib.Bool(err == nil), lib.ZBig(chk)))
		rep.Count("op:" + o.K + ":" + map[bool]string{true: "ok", false: "rej"}[err == nil])
		if err != nil {
			rep.Count("err:" + errClass(err))
		}
	}

	nSteps := 25 + r.Pick(21)
	if fixed != nil {
		nSteps = len(fixed)
	}
	moved, kinds := 0, map[lib.TokenKind]bool{}
	for i := 0; i < nSteps; i++ {
		var o Op
		if fixed != nil {
			o = fixed[i]
		} else {
			o = g.Next(i)
		}
		h.Ops = append(h.Ops, o)
		pre := mon.before(o)
		zb := w.zeroFeeBatches()
		subs := w.perform(&o, record, mon)
		mon.after(o, pre, subs)
		if fixed == nil { // coverage of the generator: batches carrying an unpaid (fee 0) transfer, and how they ended
			za := w.zeroFeeBatches()
			for key := range za {
				if !zb[key] {
					rep.Count("cover:gen:batch-with-zero-fee-transfer:requested")
				}
			}
			for key := range zb {
				if !za[key] && !(o.K == "BatchExecuted" && key == fmt.Sprintf("%d/%d/%d", o.C, o.T, o.ID)) {
					rep.Count("cover:gen:batch-with-zero-fee-transfer:cancelled")
				}
			}
		}
		if subs.ok && o.K != "Toggle" && o.K != "Observe" {
			moved++
			if o.T < len(w.Toks) {
				kinds[w.Toks[o.T].Kind] = true
			}
			for _, p := range o.Toks {
				kinds[w.Toks[p[0]].Kind] = true
			}
		}
	}
	// every deposit still parked at the end of the history must be executable
	for len(w.parked) > 0 {
		o := Op{K: "ExecParked", C: w.parked[0].C, ID: w.parked[0].ID}
		pre := mon.before(o)
		subs := w.perform(&o, record, mon)
		mon.after(o, pre, subs)
	}
	key := ""
	for _, s := range h.Steps {
		key += s.Op.K[:2] + map[bool]string{true: "+", false: "-"}[s.OK]
	}
	rep.Case(key, moved >= 3 && len(kinds) >= 2)
	rep.Count(fmt.Sprintf("tokens:%d", len(w.Toks)))
	rep.Count(fmt.Sprintf("mod-aliases:%d", len(h.Spec.ModChains)))
	hist := fmt.Sprintf("mk_lcase %s %s %s %s\n   %s", w.cfgCoq(), intsCoq(w.Accts), intsCoq(w.Chains), initCoq, lib.List(stepsCoq))
	return hist
}

func trunc(s string, n int) string {
	if len(s) > n {
		return s[:n]
	}
	return s
}

func intsCoq(l []int) string {
	var s []string
	for _, v := range l {
		s = append(s, zi(v))
	}
	return lib.List(s)
}

func (w *World) cfgCoq() string {
	var ts []string
	for t, tk := range w.Toks {
		kind := map[lib.TokenKind]string{lib.TokFX: "KFX", lib.TokModuleOwned: "KMod", lib.TokExternal: "KExt"}[tk.Kind]
		var chs []int
		for _, a := range tk.Aliases {
			chs = append(chs, chainID(a.Chain))
		}
		ts = append(ts, fmt.Sprintf("{| t_id := %d; t_kind := %s; t_chains := %s; t_ibc := %s |}", t, kind, intsCoq(chs), lib.Bool(tk.IBCDenom != "")))
	}
	return lib.List(ts)
}

// initCoq renders the initial bank / supply / ebal / etot maps and the per-chain observed heights from a cell dump.
func (w *World) initCoq(cells []*big.Int) string {
	dn := w.allDenoms()
	i := 0
	var bank, sup, eb, et []string
	for _, a := range w.Accts {
		for _, d := range dn {
			if cells[i].Sign() != 0 {
				bank = append(bank, fmt.Sprintf("((%d, %d), %s)", a, w.denomID(d.T, d.Which), lib.ZBig(cells[i])))
			}
			i++
		}
	}
	for _, d := range dn {
		if cells[i].Sign() != 0 {
			sup = append(sup, fmt.Sprintf("(%d, %s)", w.denomID(d.T, d.Which), lib.ZBig(cells[i])))
		}
		i++
	}
	for t := range w.Toks {
		for _, a := range w.Accts {
			if cells[i].Sign() != 0 {
				eb = append(eb, fmt.Sprintf("((%d, %d), %s)", t, a, lib.ZBig(cells[i])))
			}
			i++
		}
	}
	for t := range w.Toks {
		if cells[i].Sign() != 0 {
			et = append(et, fmt.Sprintf("(%d, %s)", t, lib.ZBig(cells[i])))
		}
		i++
	}
	var hs []string
	for _, c := range w.Chains {
		hs = append(hs, fmt.Sprintf("(%d, %d)", c, w.xs(c).Keeper.GetLastObservedBlockHeight(w.C.Ctx).ExternalBlockHeight))
	}
	return fmt.Sprintf("%s %s %s %s %s", lib.List(bank), lib.List(sup), lib.List(eb), lib.List(et), lib.List(hs))
}

type perfResult struct {
	ok       bool
	err      error
	executed bool // the value-moving part (exec of the pending claim) ran and succeeded
	observed bool // this operation's deposit claim became observed now (executed or not)
	parked   bool // the executed / refused claim had been parked by an earlier operation
}

// perform executes one generated operation; composite real operations (observe + execute) are recorded as the
// model's separate steps.
func (w *World) perform(o *Op, record func(Op, error), mon *Monitor) perfResult {
	c := o.C
	nextH := func() uint64 {
		h := w.height[c]
		if h == 0 {
			h = w.xs(c).Keeper.GetLastObservedBlockHeight(w.C.Ctx).ExternalBlockHeight
		}
		if h == 0 {
			h = 1000
		}
		return h + 1
	}
	obsFail := fmt.Errorf("observation failed (claim transaction aborted)")
	switch o.K {
	case "SendToFx":
		if w.stuck[c] {
			c = 1
			o.C = 1
		}
		a := w.Toks[o.T].Alias(chainName(c))
		contractAddr := lib.ExternalContract(w.C.Seed, chainName(c), 777) // unknown contract if the token has no alias here
		if a != nil {
			contractAddr = a.Contract
		}
		tgt := ""
		if o.Tgt == 1 {
			tgt = hexTarget("erc20")
		} else if o.Tgt == 2 {
			tgt = hexTarget(ibcTarget)
		}
		h := nextH()
		n, ok := w.observe(c, h, func(n, h uint64) crosschaintypes.ExternalClaim {
			return &crosschaintypes.MsgSendToFxClaim{EventNonce: n, BlockHeight: h, TokenContract: contractAddr, Amount: sdkmath.NewInt(o.X),
				Sender: lib.ExternalAccount(w.C.Seed, chainName(c), 0), Receiver: w.Addr(o.A).String(), TargetIbc: tgt}
		})
		if !ok {
			record(Op{K: "Observe", C: c, H: int64(h)}, obsFail)
			mon.obsH = h
			mon.refundRefused(*o, "observe")
			return perfResult{}
		}
		record(Op{K: "Observe", C: c, H: int64(h)}, nil)
		o.ID = int64(n)
		if o.Park { // observed, not executed: the application keeps the claim in its pending-execute store
			w.parked = append(w.parked, *o)
			return perfResult{ok: true, observed: true}
		}
		err := w.Exec(o)
		record(*o, err)
		return perfResult{ok: err == nil, err: err, executed: err == nil, observed: true}
	case "ExecParked":
		// execute a claim parked earlier (ID = its event nonce, 0 = the oldest parked claim of the chain)
		for i, p := range w.parked {
			if p.C == c && (o.ID == 0 || p.ID == o.ID) {
				w.parked = append(w.parked[:i:i], w.parked[i+1:]...)
				p.Park = false
				*o = p
				err := w.Exec(o)
				record(*o, err)
				return perfResult{ok: err == nil, err: err, executed: err == nil, parked: true}
			}
		}
		return perfResult{} // nothing parked: no operation
	case "ObserveJump":
		// X: 0 = +1, 1 = beyond the earliest batch timeout, 2 = beyond the earliest bridge-call timeout
		h := nextH()
		switch o.X {
		case 1:
			for _, b := range w.xs(c).Keeper.GetOutgoingTxBatches(w.C.Ctx) {
				if b.BatchTimeout+1 > h {
					h = b.BatchTimeout + 1
				}
			}
		case 2:
			var first uint64
			w.xs(c).Keeper.IterateOutgoingBridgeCalls(w.C.Ctx, func(oc *crosschaintypes.OutgoingBridgeCall) bool {
				first = oc.Timeout
				return true
			})
			if first > h {
				h = first
			}
		}
		a := w.Toks[1].Alias(chainName(c))
		ca := lib.ExternalContract(w.C.Seed, chainName(c), 778)
		if a != nil {
			ca = a.Contract
		}
		_, ok := w.observe(c, h, func(n, h uint64) crosschaintypes.ExternalClaim {
			return &crosschaintypes.MsgSendToFxClaim{EventNonce: n, BlockHeight: h, TokenContract: ca, Amount: sdkmath.ZeroInt(),
				Sender: lib.ExternalAccount(w.C.Seed, chainName(c), 0), Receiver: w.Addr(uBase).String()}
		})
		oo := Op{K: "Observe", C: c, H: int64(h)}
		if !ok {
			record(oo, obsFail)
			mon.obsH = h
			mon.refundRefused(oo, "timeout")
			return perfResult{}
		}
		record(oo, nil)
		*o = oo
		return perfResult{ok: true}
	case "BatchExecuted":
		a := w.Toks[o.T].Alias(chainName(c))
		h := nextH()
		o.H = int64(h)
		mon.noteBatch(c, a.Contract, uint64(o.ID))
		_, ok := w.observe(c, h, func(n, h uint64) crosschaintypes.ExternalClaim {
			return &crosschaintypes.MsgSendToExternalClaim{EventNonce: n, BlockHeight: h, BatchNonce: uint64(o.ID), TokenContract: a.Contract}
		})
		if !ok {
			record(*o, obsFail)
			mon.batchRefused(*o)
			return perfResult{}
		}
		record(*o, nil)
		w.dropBatches(func(b liveBatch) bool { return !(b.C == c && b.T == o.T && b.Nonce <= uint64(o.ID)) })
		return perfResult{ok: true, executed: true}
	case "BridgeCallResult":
		h := nextH()
		mon.noteCall(c, uint64(o.ID))
		n, ok := w.observe(c, h, func(n, h uint64) crosschaintypes.ExternalClaim {
			return &crosschaintypes.MsgBridgeCallResultClaim{EventNonce: n, BlockHeight: h, Nonce: uint64(o.ID),
				TxOrigin: lib.ExternalAccount(w.C.Seed, chainName(c), 3), Success: o.Flag, Cause: "x"}
		})
		if !ok {
			record(Op{K: "Observe", C: c, H: int64(h)}, obsFail)
			mon.obsH = h
			mon.refundRefused(*o, "observe")
			return perfResult{}
		}
		record(Op{K: "Observe", C: c, H: int64(h)}, nil)
		o.H = int64(n)
		err := w.Exec(o)
		record(*o, err)
		if err != nil && !o.Flag {
			mon.refundRefused(*o, "result")
		}
		return perfResult{ok: err == nil, err: err, executed: err == nil}
	case "BridgeCallIn":
		h := nextH()
		if o.S == 0 { // (older scripts / replays: any tracked user other than `to`)
			o.S = uBase + 3
			if o.To == o.S {
				o.S = uBase + 2
			}
		}
		// the harness' own reading of who is credited (for the monitors; the model computes it from the memo flag itself)
		o.A = o.To
		if o.Memo == 2 {
			o.A = o.S
		}
		memo := ""
		switch o.Memo {
		case 1:
			memo = []string{"c0ffee", "0000000000000000000000000000000000000000000000000000000000010001", "00010000"}[int(o.X)%3]
		case 2:
			memo = hex.EncodeToString(crosschaintypes.MemoSendCallTo.Bytes())
		}
		var contracts []string
		var amounts []sdkmath.Int
		for _, p := range o.Toks {
			a := w.Toks[p[0]].Alias(chainName(c))
			ca := lib.ExternalContract(w.C.Seed, chainName(c), 779)
			if a != nil {
				ca = a.Contract
			}
			contracts = append(contracts, ca)
			amounts = append(amounts, sdkmath.NewInt(p[1]))
		}
		if o.To == cRe {
			w.armReentrant(c, w.nonce[c]+1, o.Toks, o.A)
		}
		n, ok := w.observe(c, h, func(n, h uint64) crosschaintypes.ExternalClaim {
			return &crosschaintypes.MsgBridgeCallClaim{EventNonce: n, BlockHeight: h, Sender: w.extAddr(c, o.S),
				Refund: w.extAddr(c, o.B), TokenContracts: contracts, Amounts: amounts, To: w.extAddr(c, o.To), Data: "", Value: sdkmath.ZeroInt(),
				Memo: memo, TxOrigin: lib.ExternalAccount(w.C.Seed, chainName(c), 3)}
		})
		if !ok {
			record(Op{K: "Observe", C: c, H: int64(h)}, obsFail)
			mon.obsH = h
			mon.refundRefused(*o, "observe")
			return perfResult{}
		}
		record(Op{K: "Observe", C: c, H: int64(h)}, nil)
		o.H = int64(n)
		err := w.Exec(o)
		record(*o, err)
		return perfResult{ok: err == nil, err: err, executed: err == nil, observed: true}
	}
	err := w.Exec(o)
	record(*o, err)
	return perfResult{ok: err == nil, err: err, executed: err == nil}
}

// ---------------- replay ----------------

func replay(c *lib.Chain, rep *lib.Report) {
	path := os.Getenv("VERIF_REPLAY")
	b, err := os.ReadFile(path)
	lib.Must(err)
	var doc struct {
		Replay json.RawMessage `json:"replay"`
	}
	lib.Must(json.Unmarshal(b, &doc))
	var lc struct {
		Lifecycle bool  `json:"lifecycle"`
		Seed      int64 `json:"seed"`
	}
	if len(doc.Replay) > 0 && json.Unmarshal(doc.Replay, &lc) == nil && lc.Lifecycle {
		lifecycleHistory(lc.Seed, rep)
		for _, f := range rep.Failures {
			fmt.Println("FAILURE:", f.Sig, "—", f.What)
		}
		if len(rep.Failures) == 0 {
			fmt.Println("no monitor failure on replay")
		}
		rep.Write()
		return
	}
	var h History
	if len(doc.Replay) > 0 {
		lib.Must(json.Unmarshal(doc.Replay, &h))
	} else {
		lib.Must(json.Unmarshal(b, &h))
	}
	ops := h.Ops
	h2 := &History{Seed: h.Seed, Spec: h.Spec, Avoid: h.Avoid}
	execHistory(c, h2, lib.NewRand(h.Seed), ops, rep)
	for _, s := range h2.Steps {
		fmt.Printf("%-60s ok=%v %s\n", s.Op.Coq(), s.OK, s.Err)
	}
	for _, f := range rep.Failures {
		fmt.Println("FAILURE:", f.Sig, "—", f.What)
	}
	if len(rep.Failures) == 0 {
		fmt.Println("no monitor failure on replay")
	}
	rep.Write()
	_ = strings.TrimSpace
	_ = sdk.Coin{}
}
