package main

import (
	"fmt"
	"math/big"

	sdkmath "cosmossdk.io/math"
	sdk "github.com/cosmos/cosmos-sdk/types"
	"github.com/ethereum/go-ethereum/common"

	crosschaintypes "github.com/functionx/fx-core/v8/x/crosschain/types"
	erc20types "github.com/functionx/fx-core/v8/x/erc20/types"

	"fxverif/lib"
)

func main() {
	c := lib.NewChain(1, 1, nil)
	chains := []string{"eth", "bsc", "tron"}
	xs := map[string]*lib.XChain{}
	for _, ch := range chains {
		x := c.X(ch)
		x.SetupOracles([]int64{10000, 10000, 10000})
		xs[ch] = x
	}
	lib.Must(c.NextBlock())
	fx := c.SetupFX([]string{"eth"})
	mod, err := c.SetupModuleOwned("USDT", 1, chains, "channel-0")
	lib.Must(err)
	owner := lib.EthKey(1, "extowner", 0)
	ext, err := c.SetupExternal("EXT", 2, owner, []string{"eth", "bsc"})
	lib.Must(err)
	fmt.Println(fx, "\n", mod, "\n", ext)
	u := lib.EthKey(1, "user", 0)
	v := lib.EthKey(1, "user", 1)
	c.EnsureAccount(c.Ctx, u.Acc())
	c.EnsureAccount(c.Ctx, v.Acc())
	toks := []*lib.Token{fx, mod, ext}
	accs := map[string]sdk.AccAddress{"u": u.Acc(), "v": v.Acc(), "eth": lib.ModuleAcc("eth"), "bsc": lib.ModuleAcc("bsc"), "tron": lib.ModuleAcc("tron"), "erc20": lib.ModuleAcc("erc20"), "wfx": fx.ERC20.Bytes(), "ibc": lib.ModuleAcc("transfer")}
	order := []string{"u", "v", "eth", "bsc", "tron", "erc20", "wfx", "ibc"}
	bal := func(tag string) {
		fmt.Println("==", tag)
		for _, t := range toks {
			if t.Kind == lib.TokFX {
				continue
			}
			for _, d := range t.Denoms() {
				s := fmt.Sprintf("  %-12.12s sup=%s", d, c.Supply(c.Ctx, d))
				for _, a := range order {
					b := c.Bal(c.Ctx, accs[a], d)
					if b.Sign() != 0 {
						s += fmt.Sprintf(" %s=%s", a, b)
					}
				}
				fmt.Println(s)
			}
			s := fmt.Sprintf("  erc20 %s total=%s", t.Symbol, c.ERC20TotalSupply(c.Ctx, t.ERC20))
			for _, a := range order {
				b := c.ERC20BalanceOf(c.Ctx, t.ERC20, common.BytesToAddress(accs[a]))
				if b.Sign() != 0 {
					s += fmt.Sprintf(" %s=%s", a, b)
				}
			}
			fmt.Println(s)
		}
		s := "  FX"
		for _, a := range []string{"eth", "erc20", "wfx"} {
			s += fmt.Sprintf(" %s=%s", a, c.Bal(c.Ctx, accs[a], "FX"))
		}
		fmt.Println(s, "wfxTotal", c.ERC20TotalSupply(c.Ctx, fx.ERC20))
	}
	bal("init")
	nonces := map[string]uint64{}
	claimExec := func(ch string, mk func(n uint64) crosschaintypes.ExternalClaim) error {
		nonces[ch]++
		n := nonces[ch]
		errs := xs[ch].ObserveAll(func() crosschaintypes.ExternalClaim { return mk(n) })
		for _, e := range errs {
			if e != nil {
				fmt.Println("  claim err", e)
			}
		}
		return c.Try(func(ctx sdk.Context) error { return xs[ch].Keeper.ExecuteClaim(ctx, n) })
	}
	height := uint64(1000)
	sendToFx := func(ch string, t *lib.Token, to sdk.AccAddress, amt int64, target string) error {
		height++
		return claimExec(ch, func(n uint64) crosschaintypes.ExternalClaim {
			return &crosschaintypes.MsgSendToFxClaim{EventNonce: n, BlockHeight: height, TokenContract: t.Alias(ch).Contract, Amount: sdkmath.NewInt(amt), Sender: lib.ExternalAccount(1, ch, 0), Receiver: to.String(), TargetIbc: target}
		})
	}
	try := func(tag string, e error) { fmt.Println(tag, "->", e); bal(tag) }
	try("sendToFx usdt eth 1000 -> u", sendToFx("eth", mod, u.Acc(), 1000, ""))
	try("sendToFx usdt bsc 500 -> v", sendToFx("bsc", mod, v.Acc(), 500, ""))
	try("sendToFx FX eth 300 -> u", sendToFx("eth", fx, u.Acc(), 300, ""))
	try("sendToFx EXT eth 300 -> u (nothing locked)", sendToFx("eth", ext, u.Acc(), 300, ""))
	// external: owner mints 5000 EXT erc20 to u, u converts 2000 to coin
	lib.Must(c.ERC20OwnerMint(c.Ctx, ext.ERC20, owner, u.Hex(), big.NewInt(5000)))
	try("convertERC20 EXT 2000", c.Try(func(ctx sdk.Context) error {
		_, e := c.App.Erc20Keeper.ConvertERC20(ctx, &erc20types.MsgConvertERC20{ContractAddress: ext.ERC20.Hex(), Amount: sdkmath.NewInt(2000), Receiver: u.Acc().String(), Sender: u.Hex().Hex()})
		return e
	}))
	send := func(ch string, from lib.Key, denom string, amt, fee int64) error {
		return c.Try(func(ctx sdk.Context) error {
			m := &crosschaintypes.MsgSendToExternal{Sender: from.Acc().String(), Dest: lib.ExternalAccount(1, ch, 1), Amount: lib.Coin(denom, amt), BridgeFee: lib.Coin(denom, fee), ChainName: ch}
			if e := m.ValidateBasic(); e != nil {
				return e
			}
			r, e := xs[ch].Msg().SendToExternal(ctx, m)
			if e == nil {
				fmt.Println("  txid", r.OutgoingTxId)
			}
			return e
		})
	}
	try("send usdt eth 100+7 by u", send("eth", u, "usdt", 100, 7))
	try("send usdt bsc 600+0 by u (only 500 in via bsc)", send("bsc", u, "usdt", 600, 1))
	try("send usdt tron 10+1 by u (0 in via tron)", send("tron", u, "usdt", 10, 1))
	try("send ext eth 400+5 by u", send("eth", u, "ext", 400, 5))
	try("send FX eth 50+5 by u", send("eth", u, "FX", 50, 5))
	try("sendToFx EXT eth 300 -> v (405 locked)", sendToFx("eth", ext, v.Acc(), 300, ""))
	cancel := func(ch string, from lib.Key, id uint64) error {
		return c.Try(func(ctx sdk.Context) error {
			_, e := xs[ch].Msg().CancelSendToExternal(ctx, &crosschaintypes.MsgCancelSendToExternal{ChainName: ch, TransactionId: id, Sender: from.Acc().String()})
			return e
		})
	}
	try("cancel usdt eth #1", cancel("eth", u, 1))
	try("convertCoin usdt 200 u->u", c.Try(func(ctx sdk.Context) error {
		_, e := c.App.Erc20Keeper.ConvertCoin(ctx, &erc20types.MsgConvertCoin{Coin: lib.Coin("usdt", 200), Receiver: u.Hex().Hex(), Sender: u.Acc().String()})
		return e
	}))
	try("convertCoin FX 100 u->u", c.Try(func(ctx sdk.Context) error {
		_, e := c.App.Erc20Keeper.ConvertCoin(ctx, &erc20types.MsgConvertCoin{Coin: lib.Coin("FX", 100), Receiver: u.Hex().Hex(), Sender: u.Acc().String()})
		return e
	}))
	// bridge call out msg + failed result => old-rule refund
	bcall := func(ch string, from, refund lib.Key, coins sdk.Coins) error {
		return c.Try(func(ctx sdk.Context) error {
			m := &crosschaintypes.MsgBridgeCall{ChainName: ch, Sender: from.Acc().String(), Refund: refund.Acc().String(), Coins: coins, To: lib.ExternalAccount(1, ch, 2), Data: "", Memo: "", Value: sdkmath.ZeroInt()}
			if e := m.ValidateBasic(); e != nil {
				return e
			}
			_, e := xs[ch].Msg().BridgeCall(ctx, m)
			return e
		})
	}
	try("bridgeCall msg eth usdt 150", bcall("eth", u, u, sdk.NewCoins(lib.Coin("usdt", 150))))
	try("bridgeCall msg eth FX 20", bcall("eth", u, u, sdk.NewCoins(lib.Coin("FX", 20))))
	try("bridgeCall msg eth ext 30", bcall("eth", u, u, sdk.NewCoins(lib.Coin("ext", 30))))
	result := func(ch string, nonce uint64, ok bool) error {
		height++
		return claimExec(ch, func(n uint64) crosschaintypes.ExternalClaim {
			return &crosschaintypes.MsgBridgeCallResultClaim{EventNonce: n, BlockHeight: height, Nonce: nonce, TxOrigin: lib.ExternalAccount(1, ch, 3), Success: ok, Cause: "x"}
		})
	}
	try("result fail #1 (usdt refund, old rule)", result("eth", 1, false))
	try("result fail #2 (FX refund)", result("eth", 2, false))
	try("result fail #3 (ext refund)", result("eth", 3, false))
	try("send usdt eth 700+0 by u after refund", send("eth", u, "usdt", 700, 1))
}
