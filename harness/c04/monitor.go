package main

// monitor.go: the property recomputed from REAL observables, independently of the Coq model.
//   conservation   per token group: sum over non-module accounts of (every bank denomination + ERC-20) + in-flight
//                  records + observed deposits not executed yet == initial holdings + deposits the harness fed and saw
//                  OBSERVED - withdrawals it fed as executed
//   once           an executed deposit claim cannot be executed again (probed on a discarded branch after every execution)
//   parked         an observed deposit of a registered bridge token stays executable however many events follow it: a
//                  deliberately parked claim (valid module-owned token, positive amount, plain target) must execute when
//                  it is executed later, at the latest at the end of the history
//   local          an operation changes no balance of a non-module account it does not name
//   withdrawable   reading (towards not alarming): a send / bridge call towards chain X by a holder whose own balance
//                  suffices may be refused for lack of module-side funds only if the amount exceeds what is currently
//                  bridged in through X (deposited via X - executed via X - in flight on X); FX and externally-owned
//                  tokens need no module-side funds at all
//   refunds        a refund (failed result / time-out) is never refused
//   pair books     module-owned: coins escrowed by the erc20 module (FX: by the WFX contract) == ERC-20 totalSupply;
//                  externally-owned: ERC-20 balance of the erc20 module == supply over base + aliases, not counting base
//                  coins parked in the erc20 module account itself (older ConvertDenom rule locks base there);
//                  every ERC-20: sum of balances of all tracked holders == totalSupply

import (
	"fmt"
	"math/big"
	"sort"
	"strings"

	sdk "github.com/cosmos/cosmos-sdk/types"

	crosschaintypes "github.com/functionx/fx-core/v8/x/crosschain/types"

	"fxverif/lib"
)

type Monitor struct {
	w        *World
	rep      *lib.Report
	h        *History
	initHold []*big.Int
	dep, exe []*big.Int
	pend     []*big.Int // observed deposits whose execution has not succeeded (yet)
	obsH     uint64     // external height of the observation that just aborted
	depVia   map[[2]int]*big.Int
	exeVia   map[[2]int]*big.Int
	batch    map[string][]*big.Int // noted batch contents per token
	call     map[string][]*big.Int
	seen     map[string]bool
}

func (m *Monitor) users() []int {
	var out []int
	for _, a := range m.w.Accts {
		if a >= uBase {
			out = append(out, a)
		}
	}
	return out
}

func (m *Monitor) holdings(ctx sdk.Context, t int) *big.Int {
	w := m.w
	sum := new(big.Int)
	for _, a := range m.users() {
		for _, d := range w.allDenoms() {
			if d.T == t {
				sum.Add(sum, w.C.Bal(ctx, w.Addr(a), d.Name))
			}
		}
		sum.Add(sum, w.C.ERC20BalanceOf(ctx, w.Toks[t].ERC20, w.Hex(a)))
	}
	return sum
}

func (m *Monitor) inflightAll(ctx sdk.Context, t int) *big.Int {
	sum := new(big.Int)
	for _, c := range m.w.Chains {
		sum.Add(sum, m.w.inflight(ctx, c)[t])
	}
	return sum
}

func newMonitor(w *World, rep *lib.Report, h *History) *Monitor {
	m := &Monitor{w: w, rep: rep, h: h, depVia: map[[2]int]*big.Int{}, exeVia: map[[2]int]*big.Int{}, batch: map[string][]*big.Int{},
		call: map[string][]*big.Int{}, seen: map[string]bool{}}
	for t := range w.Toks {
		m.initHold = append(m.initHold, m.holdings(w.C.Ctx, t))
		m.dep = append(m.dep, new(big.Int))
		m.exe = append(m.exe, new(big.Int))
		m.pend = append(m.pend, new(big.Int))
	}
	return m
}

func via(mp map[[2]int]*big.Int, t, c int) *big.Int {
	k := [2]int{t, c}
	if mp[k] == nil {
		mp[k] = new(big.Int)
	}
	return mp[k]
}

func (m *Monitor) fail(sig, what string) {
	if prop == "C08" && !strings.HasPrefix(sig, "C08:") {
		return // the C08 run of this harness reports the pair-books monitors only
	}
	if prop == "C04" && strings.HasPrefix(sig, "C08:") {
		return
	}
	if m.seen[sig] {
		return
	}
	m.seen[sig] = true
	m.rep.Fail(lib.Failure{Kind: "monitor", What: what, Sig: sig, Replay: m.h})
}

func (m *Monitor) noteBatch(c int, contractAddr string, nonce uint64) {
	out := make([]*big.Int, len(m.w.Toks))
	for i := range out {
		out[i] = new(big.Int)
	}
	if b := m.w.xs(c).Keeper.GetOutgoingTxBatch(m.w.C.Ctx, contractAddr, nonce); b != nil {
		for _, tx := range b.Transactions {
			if t := m.w.tokByContract(c, tx.Token.Contract); t >= 0 {
				out[t].Add(out[t], tx.Token.Amount.BigInt())
				out[t].Add(out[t], tx.Fee.Amount.BigInt())
			}
		}
	}
	m.batch[fmt.Sprint(c, nonce)] = out
}

func (m *Monitor) noteCall(c int, nonce uint64) {
	out := make([]*big.Int, len(m.w.Toks))
	for i := range out {
		out[i] = new(big.Int)
	}
	if oc, ok := m.w.xs(c).Keeper.GetOutgoingBridgeCallByNonce(m.w.C.Ctx, nonce); ok {
		for _, tk := range oc.Tokens {
			if t := m.w.tokByContract(c, tk.Contract); t >= 0 {
				out[t].Add(out[t], tk.Amount.BigInt())
			}
		}
	}
	m.call[fmt.Sprint(c, nonce)] = out
}

type preState struct {
	user     map[int][]*big.Int // per non-module account: its cells (bank denoms then erc20 per token)
	refunds  map[int]bool       // refund accounts of outgoing calls on the op's chain
	inflight []*big.Int         // on the op's chain
	parked   map[int]*big.Int   // token -> bridge alias of the op's chain held by the erc20 module
	modAlias map[int]*big.Int   // token -> bridge alias of the op's chain held by the chain module
	calls    []callKinds
}

type callKinds struct {
	nonce   uint64
	timeout uint64
	kinds   string
}

func (m *Monitor) userCells(ctx sdk.Context, a int) []*big.Int {
	w := m.w
	var out []*big.Int
	for _, d := range w.allDenoms() {
		out = append(out, w.C.Bal(ctx, w.Addr(a), d.Name))
	}
	for _, tk := range w.Toks {
		out = append(out, w.C.ERC20BalanceOf(ctx, tk.ERC20, w.Hex(a)))
	}
	return out
}

func (m *Monitor) kindsOf(c int, toks []crosschaintypes.ERC20Token) string {
	set := map[string]bool{}
	for _, tk := range toks {
		if t := m.w.tokByContract(c, tk.Contract); t >= 0 {
			set[m.w.Toks[t].Kind.String()] = true
		}
	}
	var l []string
	for k := range set {
		l = append(l, k)
	}
	sort.Strings(l)
	return strings.Join(l, "+")
}

func (m *Monitor) before(o Op) *preState {
	w := m.w
	ctx := w.C.Ctx
	p := &preState{user: map[int][]*big.Int{}, refunds: map[int]bool{}, parked: map[int]*big.Int{}, modAlias: map[int]*big.Int{}}
	for _, a := range m.users() {
		p.user[a] = m.userCells(ctx, a)
	}
	if o.C != 0 {
		p.inflight = w.inflight(ctx, o.C)
		w.xs(o.C).Keeper.IterateOutgoingBridgeCalls(ctx, func(oc *crosschaintypes.OutgoingBridgeCall) bool {
			ra := crosschaintypes.ExternalAddrToAccAddr(chainName(o.C), oc.Refund)
			for a, ad := range w.addr {
				if ad.Equals(ra) {
					p.refunds[a] = true
				}
			}
			p.calls = append(p.calls, callKinds{oc.Nonce, oc.Timeout, m.kindsOf(o.C, oc.Tokens)})
			return false
		})
		for t, tk := range w.Toks {
			if a := tk.Alias(chainName(o.C)); a != nil && tk.Kind != lib.TokFX {
				p.parked[t] = w.C.Bal(ctx, w.Addr(aERC20), a.Denom)
				p.modAlias[t] = w.C.Bal(ctx, w.Addr(o.C), a.Denom)
			}
		}
	}
	return p
}

type need struct {
	t   int
	x   int64
	erc bool
}

func (m *Monitor) after(o Op, p *preState, res perfResult) {
	w := m.w
	ctx := w.C.Ctx
	// ---- tallies: a deposit counts from the moment its event is OBSERVED (property text: "deposits from observed
	// events"); until its execution succeeds it is owed to the receiver (pend) ----
	deposits := func() [][2]int64 { // (token, amount) of registered bridge tokens of chain o.C carried by the claim
		var out [][2]int64
		switch o.K {
		case "SendToFx":
			out = [][2]int64{{int64(o.T), o.X}}
		case "BridgeCallIn":
			out = o.Toks
		}
		var reg [][2]int64
		for _, q := range out {
			if w.Toks[q[0]].Alias(chainName(o.C)) != nil {
				reg = append(reg, q)
			}
		}
		return reg
	}
	if res.observed {
		for _, q := range deposits() {
			m.dep[q[0]].Add(m.dep[q[0]], big.NewInt(q[1]))
			m.pend[q[0]].Add(m.pend[q[0]], big.NewInt(q[1]))
		}
	}
	if res.parked && !res.ok {
		m.fail("C04:parked-deposit-unexecutable", fmt.Sprintf("%s: a deposit that was observed (event nonce %d of %s) and left unexecuted can no longer be executed: %v — the receiver is never credited although the tokens are locked on the external chain", o.Coq(), o.ID, chainName(o.C), res.err))
	}
	if res.executed && (o.K == "SendToFx" || o.K == "BridgeCallIn") {
		n := uint64(o.ID)
		if o.K == "BridgeCallIn" {
			n = uint64(o.H)
		}
		if w.executableAgain(o.C, n) {
			m.fail("C04:deposit-executable-twice", fmt.Sprintf("%s: the deposit's claim (event nonce %d of %s) was executed and can be executed once more: its value would be credited twice", o.Coq(), n, chainName(o.C)))
		}
	}
	if res.executed {
		switch o.K {
		case "SendToFx", "BridgeCallIn":
			for _, q := range deposits() {
				m.pend[q[0]].Sub(m.pend[q[0]], big.NewInt(q[1]))
				via(m.depVia, int(q[0]), o.C).Add(via(m.depVia, int(q[0]), o.C), big.NewInt(q[1]))
			}
			if o.K == "SendToFx" && o.Tgt == 2 { // forwarded over IBC at once
				m.exe[o.T].Add(m.exe[o.T], big.NewInt(o.X))
			}
		case "IbcMint", "IbcRecv":
			m.dep[o.T].Add(m.dep[o.T], big.NewInt(o.X))
		case "PreCrossChainIbc": // handed to the IBC channel: executed out of fxcore
			m.exe[o.T].Add(m.exe[o.T], big.NewInt(o.X))
		case "BatchExecuted":
			for t, v := range m.batch[fmt.Sprint(o.C, uint64(o.ID))] {
				m.exe[t].Add(m.exe[t], v)
				via(m.exeVia, t, o.C).Add(via(m.exeVia, t, o.C), v)
			}
		case "BridgeCallResult":
			if o.Flag {
				for t, v := range m.call[fmt.Sprint(o.C, uint64(o.ID))] {
					m.exe[t].Add(m.exe[t], v)
					via(m.exeVia, t, o.C).Add(via(m.exeVia, t, o.C), v)
				}
			}
		}
	}
	// ---- conservation ----
	for t, tk := range w.Toks {
		lhs := new(big.Int).Add(m.holdings(ctx, t), m.inflightAll(ctx, t))
		lhs.Add(lhs, m.pend[t])
		rhs := new(big.Int).Add(m.initHold[t], m.dep[t])
		rhs.Sub(rhs, m.exe[t])
		if lhs.Cmp(rhs) != 0 && !m.seen[fmt.Sprint("cons", t)] {
			m.seen[fmt.Sprint("cons", t)] = true // report the step that broke it, not every later one
			m.fail("C04:conservation:"+tk.Kind.String()+":"+o.K,
				fmt.Sprintf("conservation broken for %s (%s) after %s: holdings+in-flight+observed-unexecuted=%s, initial+deposited(observed)-executed=%s", tk.Symbol, tk.Kind, o.Coq(), lhs, rhs))
		}
	}
	// ---- local ----
	named := map[int]bool{}
	for _, a := range o.Named() {
		named[a] = true
	}
	switch o.K {
	case "SendToFx", "Observe", "ObserveJump", "BatchExecuted", "BridgeCallResult", "BridgeCallIn":
		for a := range p.refunds { // an observed claim may time out calls and refund them
			named[a] = true
		}
	}
	for _, a := range m.users() {
		if named[a] {
			continue
		}
		now := m.userCells(ctx, a)
		for i := range now {
			if now[i].Cmp(p.user[a][i]) != 0 {
				m.fail("C04:local:"+o.K, fmt.Sprintf("%s changed a balance of account %d which it does not name (%s -> %s)", o.Coq(), a, p.user[a][i], now[i]))
				break
			}
		}
	}
	// ---- redeemable: a conversion of a positive amount the holder owns, on an enabled pair, to an ordinary account is not
	// refused (the pair books guarantee that the other side of the pair is there) ----
	if (o.K == "ConvertERC20" || o.K == "ConvertCoin") && !res.ok && o.X > 0 && m.w.isUserLike(o.A) && m.w.isUserLike(o.B) && !w.disabledTok[o.T] {
		nd := len(w.allDenoms())
		have := p.user[o.A][nd+o.T]
		if o.K == "ConvertCoin" {
			for i, d := range w.allDenoms() {
				if d.T == o.T && d.Which == 0 {
					have = p.user[o.A][i]
				}
			}
		}
		if have.Cmp(big.NewInt(o.X)) >= 0 {
			m.fail("C08:conversion-refused:"+w.Toks[o.T].Kind.String()+":"+o.K, fmt.Sprintf("%s is refused (%v) although the holder owns %s, the pair is enabled and the receiver is an ordinary account", o.Coq(), res.err, have))
		}
	}
	// ---- per account: MsgConvertDenom debits the sender exactly what it credits to the receiver (same token, another
	// denomination); paying to another (unblocked) account cannot be refused for funds when paying to oneself is not ----
	if o.K == "ConvertDenom" && m.w.isUserLike(o.A) && m.w.isUserLike(o.B) {
		nd := len(w.allDenoms())
		tot := func(cells []*big.Int) *big.Int {
			sum := new(big.Int).Set(cells[nd+o.T])
			for i, d := range w.allDenoms() {
				if d.T == o.T {
					sum.Add(sum, cells[i])
				}
			}
			return sum
		}
		if res.ok {
			dS := new(big.Int).Sub(tot(m.userCells(ctx, o.A)), tot(p.user[o.A]))
			dR := new(big.Int).Sub(tot(m.userCells(ctx, o.B)), tot(p.user[o.B]))
			wantS, wantR := big.NewInt(-o.X), big.NewInt(o.X)
			if o.A == o.B {
				wantS, wantR = big.NewInt(0), big.NewInt(0)
			}
			if dS.Cmp(wantS) != 0 || dR.Cmp(wantR) != 0 {
				m.fail("C08:convert-denom:per-account", fmt.Sprintf("%s: the sender's holdings of %s changed by %s (expected %s), the receiver's by %s (expected %s)", o.Coq(), w.Toks[o.T].Symbol, dS, wantS, dR, wantR))
			}
		} else if o.A != o.B && errClass(res.err) == "insufficient" {
			self := o
			self.B = o.A
			if w.wouldSucceed(&self) {
				m.fail("C08:convert-denom:receiver-leg-refused", fmt.Sprintf("%s is refused for insufficient funds (%v) although the same conversion paid to the sender itself goes through: the leg that hands the converted coins to the receiver draws on somebody else's balance", o.Coq(), res.err))
			}
		}
	}
	// ---- per account: an executed inbound bridge call whose EVM part succeeded credits exactly the bridged amounts to the
	// designated receiver (the sender's own account under the send-call-to memo marker, `to` otherwise) and to nobody else
	// (the `local` monitor above: `to` is not named under the marker) ----
	if o.K == "BridgeCallIn" && res.executed && o.Flag {
		recv := o.To
		if o.Memo == 2 {
			recv = o.S
		}
		nd := len(w.allDenoms())
		tot := func(cells []*big.Int, t int) *big.Int {
			sum := new(big.Int).Set(cells[nd+t])
			for i, d := range w.allDenoms() {
				if d.T == t {
					sum.Add(sum, cells[i])
				}
			}
			return sum
		}
		want := map[int]int64{}
		for _, q := range o.Toks {
			want[int(q[0])] += q[1]
		}
		now := m.userCells(ctx, recv)
		for t, x := range want {
			got := new(big.Int).Sub(tot(now, t), tot(p.user[recv], t))
			if p.refunds[recv] && got.Cmp(big.NewInt(x)) > 0 {
				continue // the observation of this claim also timed out an outgoing call whose refund address is the receiver
			}
			if got.Cmp(big.NewInt(x)) != 0 {
				m.fail("C04:bridge-call-in:receiver-not-credited", fmt.Sprintf("%s: the designated receiver (account %d: %s) holds %s more of %s after the call, the call bridged in %d",
					o.Coq(), recv, map[bool]string{true: "the sender's account, memo = send-call-to marker", false: "`to`"}[o.Memo == 2], got, w.Toks[t].Symbol, x))
				break
			}
		}
	}
	if o.K == "BridgeCallIn" && res.executed && !o.Flag && o.A != o.B {
		// failed inbound call: the deposit went to `to` (A); the refund is drawn from the refund address (B)
		now := m.userCells(ctx, o.B)
		for i := range now {
			if now[i].Cmp(p.user[o.B][i]) < 0 {
				m.fail("C04:local:bridge-call-in-refund-debits-refund-address",
					fmt.Sprintf("%s: the EVM call failed; the deposit stayed with the receiver %d and the refund was drawn from the refund address %d's own funds (%s -> %s)", o.Coq(), o.A, o.B, p.user[o.B][i], now[i]))
				break
			}
		}
	}
	// ---- FX towards an IBC channel (C04-4): the holder / the chain module has the coins, the refusal is for funds the
	// transfer module account is expected to hold ----
	if !res.ok && errClass(res.err) == "insufficient" && w.Toks[o.T].Kind == lib.TokFX {
		switch {
		case o.K == "SendToFx" && o.Tgt == 2 && w.C.Bal(ctx, w.Addr(o.C), "FX").Cmp(big.NewInt(o.X)) >= 0:
			m.fail("C04:deposit-stuck:fx:ibc-target", fmt.Sprintf("%s: an observed deposit of FX with an IBC target can never be executed (the %s module holds the coins; BaseCoinToIBCCoin wants them in the transfer module account): the deposit stays unreachable: %v", o.Coq(), chainName(o.C), res.err))
		case o.K == "PreCrossChainIbc" && !o.Flag && p.user[o.A][len(w.allDenoms())+0].Cmp(big.NewInt(o.X)) >= 0:
			m.fail("C04:withdrawable:fx:ibc", fmt.Sprintf("%s: a holder of WFX cannot send it over IBC through crossChain although the balance suffices: %v", o.Coq(), res.err))
		}
	}
	// ---- withdrawable ----
	if !res.ok && errClass(res.err) == "insufficient" {
		var needs []need
		switch o.K {
		case "SendToExternal":
			needs = []need{{o.T, o.X + o.Y, false}}
		case "PreCrossChain":
			needs = []need{{o.T, o.X + o.Y, !o.Flag}}
		case "BridgeCallMsg":
			for _, q := range o.Toks {
				needs = append(needs, need{int(q[0]), q[1], false})
			}
		case "PreBridgeCall":
			if o.Y > 0 {
				needs = append(needs, need{0, o.Y, false})
			}
			for _, q := range o.Toks {
				needs = append(needs, need{int(q[0]), q[1], true})
			}
		}
		if len(needs) > 0 {
			holderOK := true
			tot := map[[2]int]int64{}
			for _, n := range needs {
				k := [2]int{n.t, 0}
				if n.erc {
					k[1] = 1
				}
				tot[k] += n.x
			}
			cells := p.user[o.A]
			nd := len(w.allDenoms())
			for k, x := range tot {
				var have *big.Int
				if k[1] == 1 {
					have = cells[nd+k[0]]
				} else {
					for i, d := range w.allDenoms() {
						if d.T == k[0] && d.Which == 0 {
							have = cells[i]
						}
					}
				}
				if have == nil || have.Cmp(big.NewInt(x)) < 0 {
					holderOK = false
				}
			}
			if holderOK {
				// which module-owned token (if any) lacks module-side funds on this chain?
				explained := false
				done := map[int]bool{}
				for _, n := range needs {
					tk := w.Toks[n.t]
					if tk.Kind != lib.TokModuleOwned || tk.Alias(chainName(o.C)) == nil || done[n.t] {
						continue
					}
					done[n.t] = true
					var sum int64
					for _, q := range needs {
						if q.t == n.t {
							sum += q.x
						}
					}
					if p.modAlias[n.t].Cmp(big.NewInt(sum)) >= 0 {
						continue // the module holds enough of this bridge denom: not the reason
					}
					explained = true
					net := new(big.Int).Sub(via(m.depVia, n.t, o.C), via(m.exeVia, n.t, o.C))
					net.Sub(net, p.inflight[n.t])
					if net.Cmp(big.NewInt(sum)) >= 0 {
						why := "unexplained"
						if p.parked[n.t] != nil && p.parked[n.t].Sign() > 0 {
							why = "alias-parked-in-erc20-module"
						}
						m.fail("C04:withdrawable:module-owned:"+why,
							fmt.Sprintf("%s refused for lack of module-side funds: holder balance suffices, %s currently bridged in through %s (deposited-executed-in flight) >= %d requested, but the %s module holds only %s of the bridge denom (%s parked in the erc20 module by an older-rule refund/conversion): %v",
								o.Coq(), net, chainName(o.C), sum, chainName(o.C), p.modAlias[n.t], p.parked[n.t], res.err))
					}
				}
				if !explained {
					m.fail("C04:withdrawable:refusal-without-cause",
						fmt.Sprintf("%s refused for insufficient funds although the holder's balances suffice and no module-owned token lacks module-side funds: %v", o.Coq(), res.err))
				}
			}
		}
	}
	m.liveBatches(o)
	m.books(o)
}

// batchRefused: the external chain executed a batch the protocol still considers live, fxcore cannot take the claim
func (m *Monitor) batchRefused(o Op) {
	for _, b := range m.w.liveBatch {
		if b.C == o.C && b.T == o.T && b.Nonce == uint64(o.ID) {
			m.fail("C04:batch-executed-refused", fmt.Sprintf("%s: the external chain executed a batch that was requested, not timed out and not superseded by a later batch of its token, but fxcore cannot process the claim (the claim transaction aborts): its transfers were paid out externally and are not accounted as executed", o.Coq()))
		}
	}
}

// liveBatches: every batch the external chain may still execute must still exist on fxcore with its transfers
func (m *Monitor) liveBatches(o Op) {
	w := m.w
	for _, b := range w.liveBatch {
		a := w.Toks[b.T].Alias(chainName(b.C))
		if a == nil {
			continue
		}
		if w.xs(b.C).Keeper.GetOutgoingTxBatch(w.C.Ctx, a.Contract, b.Nonce) == nil {
			m.fail("C04:batch-dissolved:"+o.K, fmt.Sprintf("after %s the batch (%s, %s, nonce %d) no longer exists on fxcore although the external chain can still execute it (not executed, not timed out at the observed height, no later batch of the same token executed): its transfers are cancellable and refundable while they can still be paid out externally",
				o.Coq(), chainName(b.C), w.Toks[b.T].Symbol, b.Nonce))
		}
	}
}

// refundRefused: a refund (failed result / timed-out call) could not be executed
func (m *Monitor) refundRefused(o Op, why string) {
	kinds := "?"
	ctx := m.w.C.Ctx
	c := o.C
	if why == "result" {
		oc, ok := m.w.xs(c).Keeper.GetOutgoingBridgeCallByNonce(ctx, uint64(o.ID))
		if !ok {
			return // a result for a call that does not exist: nothing to refund
		}
		kinds = m.kindsOf(c, oc.Tokens)
	} else {
		// the observation aborted: one of the calls it timed out (timeout not above the observed height, in nonce order) is the one whose
		// refund cannot run; the token kinds of all of them together
		var toks []crosschaintypes.ERC20Token
		m.w.xs(c).Keeper.IterateOutgoingBridgeCalls(ctx, func(oc *crosschaintypes.OutgoingBridgeCall) bool {
			if oc.Timeout > m.obsH {
				return true
			}
			toks = append(toks, oc.Tokens...)
			return false
		})
		kinds = m.kindsOf(c, toks)
	}
	m.fail("C04:refund-refused:"+kinds+":"+why,
		fmt.Sprintf("%s: the refund of an outgoing bridge call carrying %s tokens cannot be executed (%s path): the value stays in flight forever%s",
			o.Coq(), kinds, why, map[bool]string{true: " and every later claim of this chain aborts in cleanupTimeOutBridgeCall", false: ""}[why != "result"]))
}

// books: the C08 pair-books equations on real balances
func (m *Monitor) books(o Op) {
	w := m.w
	ctx := w.C.Ctx
	for t, tk := range w.Toks {
		total := w.C.ERC20TotalSupply(ctx, tk.ERC20)
		sum := new(big.Int)
		for _, a := range w.Accts {
			sum.Add(sum, w.C.ERC20BalanceOf(ctx, tk.ERC20, w.Hex(a)))
		}
		if tk.Kind == lib.TokExternal { // the owner is a holder too
			sum.Add(sum, w.C.ERC20BalanceOf(ctx, tk.ERC20, tk.Owner.Hex()))
		}
		if sum.Cmp(total) != 0 {
			m.fail("C08:sum-balances:"+tk.Kind.String(), fmt.Sprintf("after %s: sum of %s ERC-20 balances %s != totalSupply %s", o.Coq(), tk.Symbol, sum, total))
		}
		switch tk.Kind {
		case lib.TokFX:
			if esc := w.C.Bal(ctx, w.Addr(aWFX), tk.Base); esc.Cmp(total) != 0 {
				m.fail("C08:backing:fx", fmt.Sprintf("after %s: FX held by the WFX contract %s != WFX totalSupply %s", o.Coq(), esc, total))
			}
		case lib.TokModuleOwned:
			if esc := w.C.Bal(ctx, w.Addr(aERC20), tk.Base); esc.Cmp(total) != 0 {
				m.fail("C08:backing:module-owned", fmt.Sprintf("after %s: %s escrowed by the erc20 module %s != ERC-20 totalSupply %s", o.Coq(), tk.Base, esc, total))
			}
			// pool equation: every base coin in existence is backed by an alias coin (bridge denom / IBC voucher) locked in a
			// module account: supply(base) == sum over aliases of (supply(alias) - alias held by non-module accounts)
			locked := new(big.Int)
			for _, d := range w.allDenoms() {
				if d.T == t && d.Which != 0 {
					locked.Add(locked, w.C.Supply(ctx, d.Name))
					for _, a := range m.users() {
						locked.Sub(locked, w.C.Bal(ctx, w.Addr(a), d.Name))
					}
				}
			}
			if bs := w.C.Supply(ctx, tk.Base); bs.Cmp(locked) != 0 {
				m.fail("C08:pool:module-owned", fmt.Sprintf("after %s: supply of %s = %s but the alias coins locked in module accounts add up to %s", o.Coq(), tk.Base, bs, locked))
			}
		case lib.TokExternal:
			sup := new(big.Int)
			for _, d := range w.allDenoms() {
				if d.T == t {
					sup.Add(sup, w.C.Supply(ctx, d.Name))
				}
			}
			sup.Sub(sup, w.C.Bal(ctx, w.Addr(aERC20), tk.Base))
			if esc := w.C.ERC20BalanceOf(ctx, tk.ERC20, w.Hex(aERC20)); esc.Cmp(sup) != 0 {
				m.fail("C08:backing:external", fmt.Sprintf("after %s: ERC-20 held by the erc20 module %s != coin supply over base+aliases (net of base parked in the module) %s", o.Coq(), esc, sup))
			}
		}
	}
	_ = t0
}

var t0 = 0
