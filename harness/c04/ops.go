package main

// ops.go: the operation vocabulary (mirrors M_Ledger.op), its execution on the real app and its Coq rendering.

import (
	"errors"
	"fmt"
	"math/big"
	"strings"

	sdkmath "cosmossdk.io/math"
	sdk "github.com/cosmos/cosmos-sdk/types"
	"github.com/cosmos/cosmos-sdk/types/bech32"
	banktypes "github.com/cosmos/cosmos-sdk/x/bank/types"
	"github.com/ethereum/go-ethereum/common"

	fxtypes "github.com/functionx/fx-core/v8/types"
	"github.com/functionx/fx-core/v8/x/crosschain/precompile"
	crosschaintypes "github.com/functionx/fx-core/v8/x/crosschain/types"
	erc20types "github.com/functionx/fx-core/v8/x/erc20/types"

	"fxverif/lib"
)

type Op struct {
	K       string     `json:"k"`
	C       int        `json:"c,omitempty"`
	T       int        `json:"t,omitempty"`
	A       int        `json:"a,omitempty"` // sender / receiver / holder
	B       int        `json:"b,omitempty"` // receiver / refund
	X       int64      `json:"x,omitempty"` // amount
	Y       int64      `json:"y,omitempty"` // fee / value
	ID      int64      `json:"id,omitempty"`
	Src     int        `json:"src,omitempty"`
	Tgt     int        `json:"tgt,omitempty"`
	Toks    [][2]int64 `json:"toks,omitempty"`
	Flag    bool       `json:"flag,omitempty"` // success / evm_ok / native
	H       int64      `json:"h,omitempty"`
	Timeout int64      `json:"timeout,omitempty"` // read back from the real record
	To      int        `json:"to,omitempty"`      // inbound bridge call: account of `to`
	S       int        `json:"s,omitempty"`       // inbound bridge call: account of the (external) sender
	Memo    int        `json:"memo,omitempty"`    // inbound bridge call: 0 = empty memo, 1 = some other memo, 2 = exactly the MemoSendCallTo marker
	Park    bool       `json:"park,omitempty"`    // SendToFx: observe only; the pending claim is executed later (ExecParked)
}

func z(n int64) string { return lib.Z(n) }
func zi(n int) string  { return lib.Z(int64(n)) }
func toksCoq(t [][2]int64) string {
	var s []string
	for _, p := range t {
		s = append(s, lib.Pair(z(p[0]), z(p[1])))
	}
	return lib.List(s)
}

func (o Op) Coq() string {
	f := func(name string, args ...string) string { return "(" + name + " " + strings.Join(args, " ") + ")" }
	switch o.K {
	case "SendToFx":
		return f("OSendToFx", zi(o.C), zi(o.T), zi(o.A), z(o.X), zi(o.Tgt))
	case "ExecParked": // (never recorded as such: perform replaces it by the parked SendToFx)
		return f("ExecParked", zi(o.C), z(o.ID))
	case "SendToExternal":
		return f("OSendToExternal", zi(o.C), zi(o.T), zi(o.A), z(o.X), z(o.Y))
	case "Cancel":
		return f("OCancel", zi(o.C), zi(o.A), z(o.ID))
	case "IncreaseFee":
		return f("OIncreaseFee", zi(o.C), zi(o.T), zi(o.A), z(o.ID), z(o.X))
	case "RequestBatch":
		return f("ORequestBatch", zi(o.C), zi(o.T), z(o.Timeout))
	case "Observe":
		return f("OObserve", zi(o.C), z(o.H))
	case "BatchExecuted":
		return f("OBatchExecuted", zi(o.C), z(o.H), zi(o.T), z(o.ID))
	case "BridgeCallMsg":
		// the message carries an sdk.Coins: a zero amount is not representable in it (Coins.Add drops it, Coins.Validate
		// refuses it), so the operation the application sees has the positive entries only
		var pos [][2]int64
		for _, q := range o.Toks {
			if q[1] > 0 {
				pos = append(pos, q)
			}
		}
		return f("OBridgeCallMsg", zi(o.C), zi(o.A), zi(o.B), toksCoq(pos), z(o.Timeout))
	case "BridgeCallResult":
		return f("OBridgeCallResult", zi(o.C), z(o.ID), lib.Bool(o.Flag))
	case "BridgeCallIn":
		return f("OBridgeCallIn", zi(o.C), zi(o.S), zi(o.To), zi(o.B), toksCoq(o.Toks), lib.Bool(o.Memo == 2), lib.Bool(o.Flag), z(o.Timeout))
	case "ConvertCoin":
		return f("OConvertCoin", zi(o.T), zi(o.A), zi(o.B), z(o.X))
	case "ConvertERC20":
		return f("OConvertERC20", zi(o.T), zi(o.A), zi(o.B), z(o.X))
	case "ConvertDenom":
		return f("OConvertDenom", zi(o.T), zi(o.A), zi(o.B), zi(o.Src), zi(o.Tgt), z(o.X))
	case "Toggle":
		return f("OToggle", zi(o.T))
	case "PreCrossChain":
		return f("OPreCrossChain", zi(o.C), zi(o.T), zi(o.A), z(o.X), z(o.Y), lib.Bool(o.Flag))
	case "PreBridgeCall":
		return f("OPreBridgeCall", zi(o.C), zi(o.A), zi(o.B), z(o.Y), toksCoq(o.Toks), z(o.Timeout))
	case "PreCancel":
		return f("OPreCancel", zi(o.C), zi(o.A), z(o.ID))
	case "PreIncreaseFee":
		return f("OPreIncreaseFee", zi(o.C), zi(o.T), zi(o.A), z(o.ID), z(o.X), lib.Bool(o.Flag))
	case "BankSend":
		d := 10*o.T + o.Src
		if o.T == 0 { // FX: every representation is the base coin itself
			d = 0
		}
		return f("OBankSend", zi(o.A), zi(o.B), zi(d), z(o.X))
	case "Erc20Transfer":
		return f("OErc20Transfer", zi(o.T), zi(o.A), zi(o.B), z(o.X))
	case "WfxDeposit":
		return f("OWfxDeposit", zi(o.A), z(o.X))
	case "WfxWithdraw":
		return f("OWfxWithdraw", zi(o.A), z(o.X))
	case "PreCrossChainIbc":
		return f("OPreCrossChainIbc", zi(o.T), zi(o.A), z(o.X), lib.Bool(o.Flag))
	case "IbcRecv":
		return f("OIbcRecv", zi(o.T), zi(o.A), z(o.X))
	case "IbcMint":
		return f("OIbcMint", zi(o.T), zi(o.A), z(o.X))
	case "IbcToBase":
		return f("OIbcToBase", zi(o.T), zi(o.A), z(o.X))
	case "BaseToIbc":
		return f("OBaseToIbc", zi(o.T), zi(o.A), z(o.X))
	}
	panic("op kind " + o.K)
}

// Named: the non-module accounts the operation names (the only non-module accounts whose balances may change)
func (o Op) Named() []int {
	switch o.K {
	case "BridgeCallIn":
		return []int{o.A, o.B}
	case "Observe", "BatchExecuted", "RequestBatch", "Toggle":
		return nil // clean-ups may refund: see the monitor (refund addresses of timed-out calls are added there)
	}
	return []int{o.A, o.B}
}

func (w *World) coin(t, which int, x int64) sdk.Coin {
	return sdk.NewCoin(w.denomOf(t, which), sdkmath.NewInt(x))
}

func (w *World) coinsOf(toks [][2]int64) sdk.Coins {
	cs := sdk.NewCoins()
	for _, p := range toks {
		cs = cs.Add(w.coin(int(p[0]), 0, p[1]))
	}
	return cs
}

func hexTarget(s string) string { return fmt.Sprintf("%x", s) }

// Exec runs the operation on the real app; it may fill read-back fields (Timeout) of o.
func (w *World) Exec(o *Op) error {
	c := w.C
	switch o.K {
	case "SendToFx":
		// (the observation was a separate Observe op; here: execute the pending claim)
		return w.execute(o.C, uint64(o.ID))
	case "SendToExternal":
		return w.try(func(ctx sdk.Context) error {
			m := &crosschaintypes.MsgSendToExternal{Sender: w.Addr(o.A).String(), Dest: lib.ExternalAccount(c.Seed, chainName(o.C), 1),
				Amount: w.coin(o.T, 0, o.X), BridgeFee: w.coin(o.T, 0, o.Y), ChainName: chainName(o.C)}
			if e := m.ValidateBasic(); e != nil {
				return e
			}
			_, e := w.xs(o.C).Msg().SendToExternal(ctx, m)
			return e
		})
	case "Cancel":
		return w.try(func(ctx sdk.Context) error {
			m := &crosschaintypes.MsgCancelSendToExternal{ChainName: chainName(o.C), TransactionId: uint64(o.ID), Sender: w.Addr(o.A).String()}
			if e := m.ValidateBasic(); e != nil {
				return e
			}
			_, e := w.xs(o.C).Msg().CancelSendToExternal(ctx, m)
			return e
		})
	case "IncreaseFee":
		return w.try(func(ctx sdk.Context) error {
			m := &crosschaintypes.MsgIncreaseBridgeFee{ChainName: chainName(o.C), TransactionId: uint64(o.ID), Sender: w.Addr(o.A).String(),
				AddBridgeFee: w.coin(o.T, o.C, o.X)}
			if w.Toks[o.T].Kind == lib.TokFX {
				m.AddBridgeFee = w.coin(o.T, 0, o.X)
			}
			if e := m.ValidateBasic(); e != nil {
				return e
			}
			_, e := w.xs(o.C).Msg().IncreaseBridgeFee(ctx, m)
			return e
		})
	case "RequestBatch":
		w.bumpBlock() // StoreBatch allows one batch per block
		var nonce uint64
		err := w.try(func(ctx sdk.Context) error {
			d := w.denomOf(o.T, o.C)
			if w.Toks[o.T].Kind == lib.TokFX {
				d = fxtypes.DefaultDenom
			}
			m := &crosschaintypes.MsgRequestBatch{ChainName: chainName(o.C), Sender: w.xs(o.C).Oracles[0].Bridger.Acc().String(), Denom: d,
				MinimumFee: sdkmath.NewInt(1), FeeReceive: lib.ExternalAccount(c.Seed, chainName(o.C), 7), BaseFee: sdkmath.ZeroInt()}
			if e := m.ValidateBasic(); e != nil {
				return e
			}
			r, e := w.xs(o.C).Msg().RequestBatch(ctx, m)
			if e == nil {
				nonce = r.BatchNonce
			}
			return e
		})
		if err == nil {
			a := w.Toks[o.T].Alias(chainName(o.C))
			b := w.xs(o.C).Keeper.GetOutgoingTxBatch(c.Ctx, a.Contract, nonce)
			o.Timeout = int64(b.BatchTimeout)
			w.liveBatch = append(w.liveBatch, liveBatch{C: o.C, T: o.T, Nonce: nonce, Timeout: b.BatchTimeout})
		}
		return err
	case "BridgeCallMsg":
		err := w.try(func(ctx sdk.Context) error {
			m := &crosschaintypes.MsgBridgeCall{ChainName: chainName(o.C), Sender: w.Addr(o.A).String(), Refund: w.Addr(o.B).String(),
				Coins: w.coinsOf(o.Toks), To: lib.ExternalAccount(c.Seed, chainName(o.C), 2), Data: "", Memo: "", Value: sdkmath.ZeroInt()}
			if e := m.ValidateBasic(); e != nil {
				return e
			}
			_, e := w.xs(o.C).Msg().BridgeCall(ctx, m)
			return e
		})
		if err == nil {
			o.Timeout = w.lastCallTimeout(o.C)
		}
		return err
	case "BridgeCallResult":
		return w.execute(o.C, uint64(o.H)) // H carries the event nonce of the pending result claim
	case "BridgeCallIn":
		before := w.lastCallNonce(o.C)
		err := w.execute(o.C, uint64(o.H))
		if err == nil && w.lastCallNonce(o.C) != before {
			o.Timeout = w.lastCallTimeout(o.C)
		}
		return err
	case "ConvertCoin":
		return w.try(func(ctx sdk.Context) error {
			m := &erc20types.MsgConvertCoin{Coin: w.coin(o.T, 0, o.X), Receiver: w.Hex(o.B).Hex(), Sender: w.Addr(o.A).String()}
			if e := m.ValidateBasic(); e != nil {
				return e
			}
			_, e := c.App.Erc20Keeper.ConvertCoin(ctx, m)
			return e
		})
	case "ConvertERC20":
		return w.try(func(ctx sdk.Context) error {
			m := &erc20types.MsgConvertERC20{ContractAddress: w.Toks[o.T].ERC20.Hex(), Amount: sdkmath.NewInt(o.X), Receiver: w.Addr(o.B).String(), Sender: w.Hex(o.A).Hex()}
			if e := m.ValidateBasic(); e != nil {
				return e
			}
			_, e := c.App.Erc20Keeper.ConvertERC20(ctx, m)
			return e
		})
	case "ConvertDenom":
		return w.try(func(ctx sdk.Context) error {
			tgt := ""
			if o.Tgt != 0 {
				tgt = chainName(o.Tgt)
			}
			m := &erc20types.MsgConvertDenom{Sender: w.Addr(o.A).String(), Receiver: w.Addr(o.B).String(), Coin: w.coin(o.T, o.Src, o.X), Target: tgt}
			if e := m.ValidateBasic(); e != nil {
				return e
			}
			_, e := c.App.Erc20Keeper.ConvertDenom(ctx, m)
			return e
		})
	case "Toggle":
		err := w.try(func(ctx sdk.Context) error {
			_, e := c.App.Erc20Keeper.ToggleTokenConversion(ctx, &erc20types.MsgToggleTokenConversion{Authority: lib.GovAuthority(), Token: w.Toks[o.T].Base})
			return e
		})
		if err == nil {
			if w.disabledTok[o.T] {
				delete(w.disabledTok, o.T)
			} else {
				w.disabledTok[o.T] = true
			}
		}
		return err
	case "PreCrossChain":
		return w.try(func(ctx sdk.Context) error {
			tk := w.Toks[o.T]
			args := crosschaintypes.CrossChainArgs{Token: tk.ERC20, Receipt: lib.ExternalAccount(c.Seed, chainName(o.C), 1),
				Amount: big.NewInt(o.X), Fee: big.NewInt(o.Y), Target: fxtypes.MustStrToByte32(chainName(o.C)), Memo: ""}
			var value *big.Int
			if o.Flag {
				args.Token = common.Address{}
				value = big.NewInt(o.X + o.Y)
			} else {
				ap, _ := fip20.Pack("approve", lib.CrosschainPrecompile, big.NewInt(o.X+o.Y))
				if e := w.evmTx(ctx, w.Hex(o.A), tk.ERC20, nil, ap); e != nil {
					return e
				}
			}
			data, e := precompile.NewCrossChainMethod(nil).PackInput(args)
			if e != nil {
				return e
			}
			return w.evmTx(ctx, w.Hex(o.A), lib.CrosschainPrecompile, value, data)
		})
	case "PreBridgeCall":
		err := w.try(func(ctx sdk.Context) error {
			ts, as := packTokens(w, o.Toks)
			if ts == nil {
				ts, as = []common.Address{}, []*big.Int{}
			}
			data, e := precompile.NewBridgeCallMethod(nil).PackInput(crosschaintypes.BridgeCallArgs{DstChain: chainName(o.C), Refund: w.Hex(o.B),
				Tokens: ts, Amounts: as, To: common.HexToAddress("0x00000000000000000000000000000000000000e1"), Data: []byte{}, Value: big.NewInt(0), Memo: []byte{}})
			if e != nil {
				return e
			}
			var value *big.Int
			if o.Y > 0 {
				value = big.NewInt(o.Y)
			}
			return w.evmTx(ctx, w.Hex(o.A), lib.CrosschainPrecompile, value, data)
		})
		if err == nil {
			o.Timeout = w.lastCallTimeout(o.C)
		}
		return err
	case "PreCancel":
		return w.try(func(ctx sdk.Context) error {
			data, e := precompile.NewCancelSendToExternalMethod(nil).PackInput(chainName(o.C), big.NewInt(o.ID))
			if e != nil {
				return e
			}
			return w.evmTx(ctx, w.Hex(o.A), lib.CrosschainPrecompile, nil, data)
		})
	case "PreIncreaseFee":
		return w.try(func(ctx sdk.Context) error {
			tk := w.Toks[o.T]
			token := tk.ERC20
			var value *big.Int
			if o.Flag {
				token = common.Address{}
				value = big.NewInt(o.X)
			} else {
				ap, _ := fip20.Pack("approve", lib.CrosschainPrecompile, big.NewInt(o.X))
				if e := w.evmTx(ctx, w.Hex(o.A), tk.ERC20, nil, ap); e != nil {
					return e
				}
			}
			data, e := precompile.NewIncreaseBridgeFeeMethod(nil).PackInput(chainName(o.C), big.NewInt(o.ID), token, big.NewInt(o.X))
			if e != nil {
				return e
			}
			return w.evmTx(ctx, w.Hex(o.A), lib.CrosschainPrecompile, value, data)
		})
	case "BankSend":
		return w.try(func(ctx sdk.Context) error {
			m := &banktypes.MsgSend{FromAddress: w.Addr(o.A).String(), ToAddress: w.Addr(o.B).String(), Amount: sdk.NewCoins(w.coin(o.T, o.Src, o.X))}
			return c.App.BankKeeper.SendCoins(ctx, w.Addr(o.A), w.Addr(o.B), m.Amount)
		})
	case "Erc20Transfer":
		return w.try(func(ctx sdk.Context) error {
			data, _ := fip20.Pack("transfer", w.Hex(o.B), big.NewInt(o.X))
			res := w.C.EvmCall(ctx, w.Hex(o.A), &w.Toks[o.T].ERC20, nil, 8_000_000, data)
			if res.Err != nil {
				return res.Err
			}
			if res.Failed {
				return errors.New("evm: " + res.VmError + " " + revertReason(res.Ret))
			}
			if len(res.Ret) == 32 && new(big.Int).SetBytes(res.Ret).Sign() == 0 {
				return errors.New("transfer returned false") // a token that does not revert: nothing was moved
			}
			return nil
		})
	case "WfxDeposit":
		return w.try(func(ctx sdk.Context) error {
			return w.evmTx(ctx, w.Hex(o.A), w.Toks[0].ERC20, big.NewInt(o.X), []byte{0xd0, 0xe3, 0x0d, 0xb0}) // deposit()
		})
	case "WfxWithdraw":
		return w.try(func(ctx sdk.Context) error {
			data := append([]byte{0x2e, 0x1a, 0x7d, 0x4d}, common.LeftPadBytes(big.NewInt(o.X).Bytes(), 32)...) // withdraw(uint256)
			return w.evmTx(ctx, w.Hex(o.A), w.Toks[0].ERC20, nil, data)
		})
	case "IbcMint":
		return w.try(func(ctx sdk.Context) error {
			d := w.denomOf(o.T, 9)
			if d == "" || w.Toks[o.T].Kind == lib.TokFX {
				return fmt.Errorf("no ibc alias")
			}
			cs := sdk.NewCoins(sdk.NewCoin(d, sdkmath.NewInt(o.X)))
			if e := c.App.BankKeeper.MintCoins(ctx, "transfer", cs); e != nil {
				return e
			}
			return c.App.BankKeeper.SendCoinsFromModuleToAccount(ctx, "transfer", w.Addr(o.A), cs)
		})
	case "IbcToBase":
		return w.try(func(ctx sdk.Context) error {
			d := w.denomOf(o.T, 9)
			if d == "" || w.Toks[o.T].Kind == lib.TokFX {
				return fmt.Errorf("no ibc alias")
			}
			_, e := c.App.EthKeeper.IBCCoinToBaseCoin(ctx, sdk.NewCoin(d, sdkmath.NewInt(o.X)), w.Addr(o.A))
			return e
		})
	case "BaseToIbc":
		return w.try(func(ctx sdk.Context) error {
			_, e := c.App.EthKeeper.BaseCoinToIBCCoin(ctx, w.coin(o.T, 0, o.X), w.Addr(o.A), ibcTarget)
			return e
		})
	case "PreCrossChainIbc":
		return w.try(func(ctx sdk.Context) error {
			tk := w.Toks[o.T]
			to, _ := bech32.ConvertAndEncode("px", w.Addr(o.A))
			args := crosschaintypes.CrossChainArgs{Token: tk.ERC20, Receipt: to, Amount: big.NewInt(o.X), Fee: big.NewInt(0),
				Target: fxtypes.MustStrToByte32(ibcTarget), Memo: ""}
			var value *big.Int
			if o.Flag {
				args.Token = common.Address{}
				value = big.NewInt(o.X)
			} else {
				ap, _ := fip20.Pack("approve", lib.CrosschainPrecompile, big.NewInt(o.X))
				if e := w.evmTx(ctx, w.Hex(o.A), tk.ERC20, nil, ap); e != nil {
					return e
				}
			}
			data, e := precompile.NewCrossChainMethod(nil).PackInput(args)
			if e != nil {
				return e
			}
			return w.evmTx(ctx, w.Hex(o.A), lib.CrosschainPrecompile, value, data)
		})
	case "IbcRecv":
		// a real inbound ICS-20 packet: the native coin coming back, or the remote denom whose voucher is the token's IBC alias
		tk := w.Toks[o.T]
		denom := "transfer/" + ibcChannel + "/" + fxtypes.DefaultDenom
		if tk.Kind != lib.TokFX {
			denom = strings.ToLower(tk.Symbol) + "-remote"
		}
		w.ibcSeq++
		ok, ack := ibcRecv(c, c.Ctx, w.ibcSeq, ibcChannel, denom, fmt.Sprint(o.X), "px1remote", w.Hex(o.A).Hex(), "")
		if !ok {
			return fmt.Errorf("error acknowledgement: %s", ack)
		}
		return nil
	}
	panic("exec " + o.K)
}

func (w *World) lastCallNonce(c int) uint64 {
	var n uint64
	w.xs(c).Keeper.IterateOutgoingBridgeCalls(w.C.Ctx, func(o *crosschaintypes.OutgoingBridgeCall) bool {
		if o.Nonce > n {
			n = o.Nonce
		}
		return false
	})
	return n
}

func (w *World) lastCallTimeout(c int) int64 {
	var n, t uint64
	w.xs(c).Keeper.IterateOutgoingBridgeCalls(w.C.Ctx, func(o *crosschaintypes.OutgoingBridgeCall) bool {
		if o.Nonce > n {
			n, t = o.Nonce, o.Timeout
		}
		return false
	})
	return int64(t)
}
