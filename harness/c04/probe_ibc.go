package main

import (
	"fmt"
	"math/big"

	sdkmath "cosmossdk.io/math"
	sdk "github.com/cosmos/cosmos-sdk/types"
	"github.com/cosmos/cosmos-sdk/types/bech32"
	"github.com/ethereum/go-ethereum/common"

	fxtypes "github.com/functionx/fx-core/v8/types"
	"github.com/functionx/fx-core/v8/x/crosschain/precompile"
	crosschaintypes "github.com/functionx/fx-core/v8/x/crosschain/types"
	erc20types "github.com/functionx/fx-core/v8/x/erc20/types"

	"fxverif/lib"
)

func ibcProbe(c *lib.Chain) {
	ch := openChannel(c, c.Ctx, 1)
	fmt.Println("channel", ch)
	sp := Spec{Chains: []string{"eth", "bsc", "tron"}, ModChains: []string{"eth"}, ModIBC: true, ExtChains: []string{"eth"}}
	w := NewWorld(c, sp, 1)
	ctx := c.Ctx
	mod := w.Toks[1]
	u := w.Users[0]
	show := func(tag string) {
		fmt.Printf("  [%s] u: usdt=%s voucher=%s FX=%s wfx=%s | transfer mod: usdt=%s voucher=%s FX=%s | supply voucher=%s usdt=%s | erc20(usdt) u=%s\n", tag,
			c.Bal(ctx, u.Acc(), "usdt"), c.Bal(ctx, u.Acc(), mod.IBCDenom), c.Bal(ctx, u.Acc(), "FX"), c.ERC20BalanceOf(ctx, w.Toks[0].ERC20, u.Hex()),
			c.Bal(ctx, lib.ModuleAcc("transfer"), "usdt"), c.Bal(ctx, lib.ModuleAcc("transfer"), mod.IBCDenom), c.Bal(ctx, lib.ModuleAcc("transfer"), "FX"),
			c.Supply(ctx, mod.IBCDenom), c.Supply(ctx, "usdt"), c.ERC20BalanceOf(ctx, mod.ERC20, u.Hex()))
	}
	fmt.Println("voucher alias:", mod.IBCDenom, "metadata:", c.App.BankKeeper.HasDenomMetaData(ctx, mod.IBCDenom))
	show("init")
	// (a) inbound packet carrying the remote denom whose voucher is the alias
	ok, ack := ibcRecv(c, ctx, 1, ch, "usdt-remote", "100", "px1sender", u.Hex().Hex(), "")
	fmt.Println("(a) recv alias voucher -> success:", ok, ack, "metadata now:", c.App.BankKeeper.HasDenomMetaData(ctx, mod.IBCDenom))
	show("after recv")
	// keeper level conversion with and without metadata
	lib.Must(c.App.BankKeeper.MintCoins(ctx, "transfer", sdk.NewCoins(sdk.NewCoin(mod.IBCDenom, sdkmath.NewInt(50)))))
	lib.Must(c.App.BankKeeper.SendCoinsFromModuleToAccount(ctx, "transfer", u.Acc(), sdk.NewCoins(sdk.NewCoin(mod.IBCDenom, sdkmath.NewInt(50)))))
	e := c.Try(func(ctx sdk.Context) error {
		_, err := c.App.EthKeeper.IBCCoinToBaseCoin(ctx, sdk.NewCoin(mod.IBCDenom, sdkmath.NewInt(50)), u.Acc())
		return err
	})
	fmt.Println("keeper IBCCoinToBaseCoin 50 (no metadata):", e)
	show("after keeper conversion")
	// (b) SendToFx FX with IBC target
	x := w.xs(1)
	tgt := fmt.Sprintf("%x", "ibc/0/px")
	n := uint64(1)
	claim := func(contractAddr string, amt int64) error {
		for _, e := range x.ObserveAll(func() crosschaintypes.ExternalClaim {
			return &crosschaintypes.MsgSendToFxClaim{EventNonce: n, BlockHeight: 1000 + n, TokenContract: contractAddr, Amount: sdkmath.NewInt(amt),
				Sender: lib.ExternalAccount(1, "eth", 0), Receiver: u.Acc().String(), TargetIbc: tgt}
		}) {
			_ = e
		}
		err := c.Try(func(ctx sdk.Context) error { return x.Keeper.ExecuteClaim(ctx, n) })
		n++
		return err
	}
	fmt.Println("(b1) SendToFx FX 300 target ibc/0/px:", claim(w.Toks[0].Alias("eth").Contract, 300))
	show("after b1")
	fmt.Println("(b2) SendToFx USDT 200 target ibc/0/px (50 vouchers locked):", claim(mod.Alias("eth").Contract, 200))
	fmt.Println("(b3) SendToFx USDT 40 target ibc/0/px:", claim(mod.Alias("eth").Contract, 40))
	show("after b3")
	// (c) crossChain precompile, IBC target
	pxAddr, _ := bech32.ConvertAndEncode("px", u.Acc())
	cc := func(token common.Address, amt int64, value *big.Int) error {
		return c.Try(func(ctx sdk.Context) error {
			if value == nil {
				ap, _ := fip20.Pack("approve", lib.CrosschainPrecompile, big.NewInt(amt))
				if e := w.evmTx(ctx, u.Hex(), token, nil, ap); e != nil {
					return e
				}
			}
			data, e := precompile.NewCrossChainMethod(nil).PackInput(crosschaintypes.CrossChainArgs{Token: token, Receipt: pxAddr,
				Amount: big.NewInt(amt), Fee: big.NewInt(0), Target: fxtypes.MustStrToByte32("ibc/0/px"), Memo: ""})
			if e != nil {
				return e
			}
			return w.evmTx(ctx, u.Hex(), lib.CrosschainPrecompile, value, data)
		})
	}
	_, err := c.App.Erc20Keeper.ConvertCoin(ctx, &erc20types.MsgConvertCoin{Coin: lib.Coin("FX", 1000), Receiver: u.Hex().Hex(), Sender: u.Acc().String()})
	lib.Must(err)
	show("u has 1000 WFX")
	fmt.Println("(c1) crossChain WFX 100 over IBC:", cc(w.Toks[0].ERC20, 100, nil))
	fmt.Println("(c2) crossChain native FX 100 (msg.value) over IBC:", cc(common.Address{}, 100, big.NewInt(100)))
	show("after c2")
	// what if the transfer module account holds FX?
	lib.Must(c.App.BankKeeper.MintCoins(ctx, "transfer", sdk.NewCoins(lib.Coin("FX", 500))))
	fmt.Println("(c3) crossChain WFX 100 over IBC, transfer module holds 500 FX:", cc(w.Toks[0].ERC20, 100, nil))
	show("after c3")
	ccU := func(amt int64) error { // module-owned token over IBC through crossChain
		return cc(mod.ERC20, amt, nil)
	}
	_, err = c.App.Erc20Keeper.ConvertCoin(ctx, &erc20types.MsgConvertCoin{Coin: lib.Coin("usdt", 30), Receiver: u.Hex().Hex(), Sender: u.Acc().String()})
	lib.Must(err)
	fmt.Println("(d1) crossChain USDT(erc20) 20 over IBC (10 vouchers locked):", ccU(20))
	fmt.Println("(d2) crossChain USDT(erc20) 8 over IBC:", ccU(8))
	show("after d2")
	fmt.Println("supply FX", c.Supply(ctx, "FX"))
	fmt.Println("supply FX delta visible above; escrow addr balance:", c.Bal(ctx, escrowAddr(ch), "FX"))
}
