package main

// world.go: one history's world on the REAL app — token universe, users, contracts, and the execution of
// every operation kind through the real entry points (crosschain MsgServer, erc20 MsgServer, the crosschain
// precompile through a real EVM transaction, observed oracle claims + ExecuteClaim).

import (
	"errors"
	"fmt"
	"math/big"
	"sort"
	"strings"

	sdkmath "cosmossdk.io/math"
	sdk "github.com/cosmos/cosmos-sdk/types"
	banktypes "github.com/cosmos/cosmos-sdk/x/bank/types"
	"github.com/ethereum/go-ethereum/common"
	"github.com/ethereum/go-ethereum/core/vm"

	"github.com/functionx/fx-core/v8/contract"
	fxtypes "github.com/functionx/fx-core/v8/types"
	"github.com/functionx/fx-core/v8/x/crosschain/precompile"
	crosschaintypes "github.com/functionx/fx-core/v8/x/crosschain/types"
	erc20types "github.com/functionx/fx-core/v8/x/erc20/types"

	"fxverif/lib"
)

const (
	aERC20 = 20
	aIBC   = 21
	aWFX   = 22
	aEVM   = 23
	aPRE   = 24
	aESC   = 25 // ICS-20 escrow address of the transfer channel
	uBase  = 100 // users 100..
	cOK    = 200 // contract whose code is STOP
	cBad   = 201 // contract that always reverts
	cRe    = 202 // re-entrant receiver: its callback calls the precompile's executeClaim(chain, nonce of the claim being executed)
	tokAcct = 210 // 210+t: the ERC-20 contract of token t (t >= 1) as an account
)

func chainID(name string) int {
	for i, n := range lib.ChainModules {
		if n == name {
			return i + 1
		}
	}
	panic("chain " + name)
}
func chainName(id int) string { return lib.ChainModules[id-1] }

type World struct {
	C      *lib.Chain
	Chains []int // chain ids in use
	Toks   []*lib.Token
	Users  []lib.Key
	Accts  []int // tracked account ids, in cell order
	addr   map[int]sdk.AccAddress
	nonce  map[int]uint64 // per chain: last event nonce fed
	height map[int]uint64 // per chain: last claim block height fed
	stuck  map[int]bool
	blockH int64
	disabledTok map[int]bool
	ibcSeq      uint64
	// deposits that were observed but deliberately not executed yet (the pending-execute record must keep them executable)
	parked []Op
	// batches the external chain may still execute, as the protocol sees it (independent of the fxcore store):
	// requested, not executed, not superseded by an executed higher-nonce batch of the SAME token, not timed out
	liveBatch []liveBatch
	// monitor tallies (independent of the model): per token
	deposited, executed []*big.Int
	netIn               map[[2]int]*big.Int // (token, chain) -> deposited - executed through that chain (incl. cancelled refunds etc. via in-flight)
}

func (w *World) X(c int) *lib.XChain { return w.xs(c) }

var xcache = map[string]*lib.XChain{}

func (w *World) xs(c int) *lib.XChain {
	n := chainName(c)
	if x, ok := xcache[n]; ok {
		return x
	}
	panic("chain not set up: " + n)
}

func (w *World) Addr(a int) sdk.AccAddress {
	if v, ok := w.addr[a]; ok {
		return v
	}
	panic(fmt.Sprintf("unknown account %d", a))
}
func (w *World) Hex(a int) common.Address { return common.BytesToAddress(w.Addr(a)) }

// denomOf mirrors the model's encoding: which 0 = base, 1..8 = bridge alias on that chain, 9 = IBC alias
func (w *World) denomOf(t, which int) string {
	tk := w.Toks[t]
	switch {
	case which == 0:
		return tk.Base
	case which == 9:
		return tk.IBCDenom
	default:
		if a := tk.Alias(chainName(which)); a != nil {
			return a.Denom
		}
	}
	return ""
}

func (w *World) denomID(t, which int) int { return 10*t + which }

// allDenoms in the model's cell order: per token base, aliases (in t_chains order), ibc
type denomRef struct {
	T, Which int
	Name     string
}

func (w *World) allDenoms() []denomRef {
	var out []denomRef
	for t, tk := range w.Toks {
		out = append(out, denomRef{t, 0, tk.Base})
		if tk.Kind != lib.TokFX {
			for _, a := range tk.Aliases {
				out = append(out, denomRef{t, chainID(a.Chain), a.Denom})
			}
		}
		if tk.IBCDenom != "" {
			out = append(out, denomRef{t, 9, tk.IBCDenom})
		}
	}
	return out
}

func (w *World) tokByContract(c int, contractAddr string) int {
	for t, tk := range w.Toks {
		if a := tk.Alias(chainName(c)); a != nil && a.Contract == contractAddr {
			return t
		}
	}
	return -1
}

// inflight per (chain, token) from the REAL store records
func (w *World) inflight(ctx sdk.Context, c int) []*big.Int {
	out := make([]*big.Int, len(w.Toks))
	for i := range out {
		out[i] = new(big.Int)
	}
	k := w.xs(c).Keeper
	add := func(contractAddr string, amt sdkmath.Int) {
		if t := w.tokByContract(c, contractAddr); t >= 0 {
			out[t].Add(out[t], amt.BigInt())
		}
	}
	for _, tx := range k.GetUnbatchedTransactions(ctx) {
		add(tx.Token.Contract, tx.Token.Amount)
		add(tx.Fee.Contract, tx.Fee.Amount)
	}
	for _, b := range k.GetOutgoingTxBatches(ctx) {
		for _, tx := range b.Transactions {
			add(tx.Token.Contract, tx.Token.Amount)
			add(tx.Fee.Contract, tx.Fee.Amount)
		}
	}
	k.IterateOutgoingBridgeCalls(ctx, func(o *crosschaintypes.OutgoingBridgeCall) bool {
		for _, tk := range o.Tokens {
			add(tk.Contract, tk.Amount)
		}
		return false
	})
	return out
}

// cells: the tracked observables in the model's order (M_LedgerCorr.cells)
func (w *World) cells(ctx sdk.Context) []*big.Int {
	var out []*big.Int
	dn := w.allDenoms()
	for _, a := range w.Accts {
		for _, d := range dn {
			out = append(out, w.C.Bal(ctx, w.Addr(a), d.Name))
		}
	}
	for _, d := range dn {
		out = append(out, w.C.Supply(ctx, d.Name))
	}
	for _, tk := range w.Toks {
		for _, a := range w.Accts {
			out = append(out, w.C.ERC20BalanceOf(ctx, tk.ERC20, w.Hex(a)))
		}
	}
	for _, tk := range w.Toks {
		out = append(out, w.C.ERC20TotalSupply(ctx, tk.ERC20))
	}
	for _, c := range w.Chains {
		out = append(out, w.inflight(ctx, c)...)
	}
	return out
}

func checksum(cells []*big.Int) *big.Int {
	sum := new(big.Int)
	for i, v := range cells {
		wgt := big.NewInt(int64(i+1)*int64(i+1)*7919 + 13)
		sum.Add(sum, wgt.Mul(wgt, v))
	}
	return sum
}

// ---------------- construction ----------------

type Spec struct {
	Chains    []string // chains with oracles (always includes eth)
	ModChains []string // aliases of the module-owned token
	ModIBC    bool
	ExtChains []string
	Mod2      []string // optional second module-owned token's chains (nil = none)
	Mod2Denom string   `json:",omitempty"` // its base denom ("" = pundix): case variants / near-misses of the special denoms
	ExtFalse  bool     `json:",omitempty"` // the externally-owned token returns false instead of reverting (falsetoken.go)
}

var (
	okCode  = (&lib.Asm{}).Stop().B
	badCode = (&lib.Asm{}).Revert().B
)

// NewWorld registers the token universe on the chain's CURRENT context (a per-history cache branch).
func NewWorld(c *lib.Chain, sp Spec, hseed int64) *World {
	w := &World{C: c, addr: map[int]sdk.AccAddress{}, nonce: map[int]uint64{}, height: map[int]uint64{}, stuck: map[int]bool{}, disabledTok: map[int]bool{},
		netIn: map[[2]int]*big.Int{}}
	for _, ch := range sp.Chains {
		w.Chains = append(w.Chains, chainID(ch))
	}
	sort.Ints(w.Chains)
	fx := c.SetupFX([]string{"eth"})
	w.Toks = append(w.Toks, fx)
	ibc := ""
	if sp.ModIBC {
		ibc = "channel-0"
	}
	mod, err := c.SetupModuleOwned("USDT", 1, sp.ModChains, ibc)
	lib.Must(err)
	w.Toks = append(w.Toks, mod)
	owner := lib.EthKey(c.Seed, "extowner", 0)
	var ext *lib.Token
	if sp.ExtFalse {
		at := common.HexToAddress("0xE200000000000000000000000000000000000e20")
		c.EnsureAccount(c.Ctx, owner.Acc())
		c.InstallCode(c.Ctx, at, falseTokenCode("EXT token", "EXT"))
		ext, err = c.SetupExternalAt("EXT", 2, owner, at, sp.ExtChains)
	} else {
		ext, err = c.SetupExternal("EXT", 2, owner, sp.ExtChains)
	}
	lib.Must(err)
	w.Toks = append(w.Toks, ext)
	if sp.Mod2 != nil {
		var m2 *lib.Token
		if sp.Mod2Denom == "" {
			m2, err = c.SetupModuleOwned("PUNDIX", 3, sp.Mod2, "")
		} else {
			d := sp.Mod2Denom
			if d == "@alias" { // the bridge denomination of the first token on eth, in another case (a different denom string)
				d = strings.ToLower(mod.Aliases[0].Denom)
				if d == mod.Aliases[0].Denom {
					d = strings.ToUpper(d[:3]) + d[3:]
				}
			}
			m2, err = c.SetupModuleOwnedAs(d, "SND", 3, sp.Mod2, "")
		}
		lib.Must(err)
		w.Toks = append(w.Toks, m2)
	}
	for i := 0; i < 4; i++ {
		u := lib.EthKey(c.Seed, "user", i)
		w.Users = append(w.Users, u)
		w.addr[uBase+i] = u.Acc()
		c.EnsureAccount(c.Ctx, u.Acc())
		c.Mint(u.Acc(), lib.Coin(fxtypes.DefaultDenom, 1_000_000))
		lib.Must(c.ERC20OwnerMint(c.Ctx, ext.ERC20, owner, u.Hex(), big.NewInt(20_000)))
		w.Accts = append(w.Accts, uBase+i)
	}
	okAddr := common.HexToAddress("0xc0000000000000000000000000000000000000c8")
	badAddr := common.HexToAddress("0xc0000000000000000000000000000000000000c9")
	c.InstallCode(c.Ctx, okAddr, okCode)
	c.InstallCode(c.Ctx, badAddr, badCode)
	reAddr := common.HexToAddress("0xc0000000000000000000000000000000000000ca")
	c.InstallCode(c.Ctx, reAddr, okCode) // re-armed for a specific claim by armReentrant
	w.addr[cOK], w.addr[cBad], w.addr[cRe] = okAddr.Bytes(), badAddr.Bytes(), reAddr.Bytes()
	w.Accts = append(w.Accts, cOK, cBad, cRe)
	for t, tk := range w.Toks { // the pair contracts themselves can be named as receivers (not blocked addresses)
		if t > 0 {
			w.addr[tokAcct+t] = tk.ERC20.Bytes()
			w.Accts = append(w.Accts, tokAcct+t)
		}
	}
	for _, ch := range w.Chains {
		w.addr[ch] = lib.ModuleAcc(chainName(ch))
		w.Accts = append(w.Accts, ch)
	}
	w.addr[aERC20] = lib.ModuleAcc(erc20types.ModuleName)
	w.addr[aIBC] = lib.ModuleAcc("transfer")
	w.addr[aWFX] = fx.ERC20.Bytes()
	w.addr[aEVM] = lib.ModuleAcc("evm")
	w.addr[aPRE] = crosschaintypes.GetAddress().Bytes()
	w.addr[aESC] = escrowAddr(ibcChannel)
	w.Accts = append(w.Accts, aERC20, aIBC, aWFX, aEVM, aPRE, aESC)
	for range w.Toks {
		w.deposited = append(w.deposited, new(big.Int))
		w.executed = append(w.executed, new(big.Int))
	}
	w.blockH = c.Ctx.BlockHeight()
	return w
}

func (w *World) userIdx(a int) int { return a - uBase }
func (w *World) isUser(a int) bool { return a >= uBase && a < uBase+len(w.Users) }

// try: what a transaction does — cache branch committed only on success, panic = failure
func (w *World) try(f func(ctx sdk.Context) error) error { return w.C.Try(f) }

func (w *World) bumpBlock() {
	w.blockH++
	w.C.Ctx = w.C.Ctx.WithBlockHeight(w.blockH).WithBlockTime(w.C.Ctx.BlockTime().Add(lib.BlockStep))
}

type liveBatch struct {
	C, T    int
	Nonce   uint64
	Timeout uint64
}

func (w *World) dropBatches(keep func(b liveBatch) bool) {
	var out []liveBatch
	for _, b := range w.liveBatch {
		if keep(b) {
			out = append(out, b)
		}
	}
	w.liveBatch = out
}

// ---------------- claims ----------------

func (w *World) extAddr(c int, a int) string {
	return crosschaintypes.ExternalAddrToStr(chainName(c), w.Hex(a).Bytes())
}

// observe feeds mk's claim from every oracle of chain c; reports whether the event became observed.
func (w *World) observe(c int, h uint64, mk func(n uint64, h uint64) crosschaintypes.ExternalClaim) (uint64, bool) {
	x := w.xs(c)
	n := w.nonce[c] + 1
	for _, e := range x.ObserveAll(func() crosschaintypes.ExternalClaim { return mk(n, h) }) {
		_ = e
	}
	if x.Keeper.GetLastObservedEventNonce(w.C.Ctx) == n {
		w.nonce[c] = n
		w.height[c] = h
		w.dropBatches(func(b liveBatch) bool { return b.C != c || b.Timeout >= h }) // timed out: legitimately cancelled
		return n, true
	}
	w.stuck[c] = true
	return n, false
}

func (w *World) execute(c int, n uint64) error {
	return w.try(func(ctx sdk.Context) error { return w.xs(c).Keeper.ExecuteClaim(ctx, n) })
}

// armReentrant gives the receiver contract cRe the runtime code (hand assembled, no solc in the sandbox)
//     if (token.balanceOf(holder) >= bound) return;
//     crosschainPrecompile.call(executeClaim(chain, nonce));       // result ignored
// for the inbound bridge call with event nonce `nonce` carrying toks.  bound = the contract's current ERC-20 balance of
// the first token with a positive amount + twice that amount: the callback of the first execution (balance + amount)
// re-enters, the callback of a nested execution (if the application ever lets one happen) does not — the recursion is
// bounded whatever the application does.  On the unchanged application the nested executeClaim is refused ("claim not
// found": the pending record is deleted before the handler runs), the refusal is swallowed and the callback succeeds.
func (w *World) armReentrant(c int, nonce uint64, toks [][2]int64, holder int) {
	code := okCode
	for _, p := range toks {
		tk := w.Toks[p[0]]
		if p[1] <= 0 || tk.Alias(chainName(c)) == nil {
			continue
		}
		input, err := precompile.NewExecuteClaimMethod(nil).PackInput(crosschaintypes.ExecuteClaimArgs{Chain: chainName(c), EventNonce: new(big.Int).SetUint64(nonce)})
		lib.Must(err)
		// (holder = the account the call credits: cRe itself, or the sender's account under the send-call-to memo)
		bound := new(big.Int).Add(w.C.ERC20BalanceOf(w.C.Ctx, tk.ERC20, w.Hex(holder)), big.NewInt(2*p[1]))
		balanceOf := append([]byte{0x70, 0xa0, 0x82, 0x31}, common.LeftPadBytes(w.Hex(holder).Bytes(), 32)...)
		a := &lib.Asm{}
		a.StoreMem(0, balanceOf)
		a.PushU(32).PushU(0).PushU(36).PushU(0).PushAddr(tk.ERC20).Op(vm.GAS, vm.STATICCALL, vm.POP)
		a.Push(bound.Bytes()).PushU(0).Op(vm.MLOAD, vm.LT) // balance < bound
		dest := len(a.B) + 3 + 1 + 1
		a.B = append(a.B, byte(vm.PUSH2), byte(dest>>8), byte(dest))
		a.Op(vm.JUMPI, vm.STOP, vm.JUMPDEST)
		a.Call(lib.CALL, crosschaintypes.GetAddress(), 0, nil, input).Ignore().Stop()
		code = a.B
		break
	}
	w.C.InstallCode(w.C.Ctx, w.Hex(cRe), code)
}

var errProbe = errors.New("probe: executed once more")

// executableAgain: would the claim with event nonce n execute (once more)?  Runs on a branch that is always discarded.
func (w *World) executableAgain(c int, n uint64) bool {
	err := w.try(func(ctx sdk.Context) error {
		if e := w.xs(c).Keeper.ExecuteClaim(ctx, n); e != nil {
			return e
		}
		return errProbe
	})
	return err == errProbe
}

// isUserLike: a tracked non-module account (user or contract)
func (w *World) isUserLike(a int) bool { return a >= uBase }

// wouldSucceed runs the operation on a branch that is always discarded
func (w *World) wouldSucceed(o *Op) bool {
	saved := w.C.Ctx
	branch, _ := saved.CacheContext()
	w.C.Ctx = branch
	defer func() { w.C.Ctx = saved }()
	cp := *o
	return w.Exec(&cp) == nil
}

// ---------------- EVM transactions from an EOA ----------------

func (w *World) evmTx(ctx sdk.Context, from common.Address, to common.Address, value *big.Int, data []byte) error {
	res := w.C.EvmCall(ctx, from, &to, value, 8_000_000, data)
	if res.Err != nil {
		return res.Err
	}
	if res.Failed {
		return errors.New("evm: " + res.VmError + " " + revertReason(res.Ret))
	}
	return nil
}

func revertReason(ret []byte) string {
	if len(ret) < 68 {
		return ""
	}
	n := new(big.Int).SetBytes(ret[36:68]).Int64()
	if n < 0 || int(68+n) > len(ret) {
		return ""
	}
	return string(ret[68 : 68+n])
}

var fip20 = contract.GetFIP20().ABI

func packTokens(w *World, toks [][2]int64) ([]common.Address, []*big.Int) {
	var ts []common.Address
	var as []*big.Int
	for _, p := range toks {
		ts = append(ts, w.Toks[p[0]].ERC20)
		as = append(as, big.NewInt(p[1]))
	}
	return ts, as
}

// ---------------- error classes (for the monitors only) ----------------

func errClass(err error) string {
	if err == nil {
		return "ok"
	}
	s := err.Error()
	switch {
	case strings.Contains(s, "PANIC"):
		return "panic"
	case strings.Contains(s, "insufficient funds"), strings.Contains(s, "exceeds balance"), strings.Contains(s, "insufficient"):
		return "insufficient"
	case strings.Contains(s, "not enabled"), strings.Contains(s, "disabled"):
		return "disabled"
	default:
		return "other"
	}
}

// which account the "insufficient funds" complaint is about: the bank error names the short-falling denom only,
// so the monitors recompute it from balances instead.
var _ = banktypes.ModuleName
var _ = precompile.NewBridgeCallMethod
