package main

// coq.go: rendering of operations and observations as Coq terms of model.M_PoolCorr

import (
	"fmt"
	"math/big"
	"strings"

	"fxverif/lib"
)

func zi(n int) string { return lib.Z(int64(n)) }

func bytesZ(b []byte) string { return lib.Bytes(b) }

func coqOp(o Op) string {
	if o.Kind == "ExportImport" {
		return "XExportImport"
	}
	return "XO (" + coqOp0(o) + ")"
}

func coqOp0(o Op) string {
	switch o.Kind {
	case "Send":
		return fmt.Sprintf("Send %s %s %s %s %s", zi(o.Sender), zi(o.Dest), lib.Z(o.Amount), lib.Z(o.Fee), zi(o.Token))
	case "SendP":
		return fmt.Sprintf("SendP %s %s %s %s %s", zi(o.Sender), zi(o.Dest), lib.Z(o.Amount), lib.Z(o.Fee), zi(o.Token))
	case "Cancel":
		return fmt.Sprintf("Cancel %s %s", lib.ZU(o.ID), zi(o.Who))
	case "IncreaseFee":
		return fmt.Sprintf("IncreaseFee %s %s %s %s %s", lib.ZU(o.ID), zi(o.Who), lib.Z(o.Add), zi(o.Token), zi(o.Which))
	case "IncreaseFeeP":
		return fmt.Sprintf("IncreaseFeeP %s %s %s %s", lib.ZU(o.ID), zi(o.Who), lib.Z(o.Add), zi(o.Token))
	case "RequestBatch":
		return fmt.Sprintf("RequestBatch %s %s %s %s %s %s", zi(o.Token), zi(o.Which), zi(o.FeeRcv), lib.Z(o.BaseFee), lib.Z(o.MinFee), lib.Bool(o.Auth))
	case "BatchExecuted":
		return fmt.Sprintf("BatchExecuted %s %s %s", zi(o.Token), lib.ZU(o.Nonce), lib.ZU(o.H))
	case "Observe":
		return fmt.Sprintf("Observe %s", lib.ZU(o.H))
	case "BridgeCall":
		var cs []string
		for _, c := range o.Coins {
			cs = append(cs, lib.Pair(lib.Z(c[0]), lib.Z(c[1])))
		}
		return fmt.Sprintf("BridgeCall %s %s %s %s %s %s", zi(o.Sender), zi(o.Refund), lib.List(cs), zi(o.To), bytesZ(o.Data), bytesZ(o.Memo))
	case "BridgeCallP":
		var cs []string
		for _, c := range o.Coins {
			cs = append(cs, lib.Pair(lib.Z(c[0]), lib.Z(c[1])))
		}
		return fmt.Sprintf("BridgeCallP %s %s %s %s %s %s %s", zi(o.Sender), zi(o.Refund), lib.Z(o.Amount), lib.List(cs), zi(o.To), bytesZ(o.Data), bytesZ(o.Memo))
	case "ObserveResult":
		return fmt.Sprintf("ObserveResult %s %s %s", lib.ZU(o.Nonce), lib.Bool(o.Success), lib.ZU(o.H))
	case "ExecResult":
		return fmt.Sprintf("ExecResult %s", lib.ZU(o.E))
	case "NextBlock":
		return "NextBlock"
	case "Migrate":
		return "Migrate"
	case "SetParams":
		return fmt.Sprintf("SetParams (P %s %s %s %s 0)", lib.ZU(o.Params[0]), lib.ZU(o.Params[1]), lib.ZU(o.Params[2]), lib.ZU(o.Params[3]))
	}
	panic("coqOp " + o.Kind)
}

func coqTx(t Tx) string {
	return fmt.Sprintf("T %s %s %s %s %s %s", lib.ZU(t.ID), zi(t.Sender), zi(t.Dest), zi(t.Token), lib.ZBig(t.Amount), lib.ZBig(t.Fee))
}

func coqTxs(l []Tx) string {
	var s []string
	for _, t := range l {
		s = append(s, coqTx(t))
	}
	return lib.List(s)
}

func coqObs(ok bool, s Snap) string {
	var bs, bb, cs, sn, fm, pd, bl, ev, rl []string
	for _, id := range s.Relation {
		rl = append(rl, lib.ZU(id))
	}
	for _, b := range s.Batches {
		bs = append(bs, fmt.Sprintf("B %s %s %s %s %s %s", lib.ZU(b.Nonce), lib.ZU(b.Timeout), coqTxs(b.Txs), zi(b.Token), zi(b.FeeRcv), lib.ZU(b.Block)))
	}
	for _, e := range s.ByBlock {
		bb = append(bb, lib.Pair(lib.ZU(e[0]), lib.Pair(lib.ZU(e[1]), lib.ZU(e[2]))))
	}
	for _, c := range s.Calls {
		var ts []string
		for _, t := range c.Tokens {
			ts = append(ts, lib.Pair(lib.ZBig(t[0]), lib.ZBig(t[1])))
		}
		cs = append(cs, fmt.Sprintf("C %s %s %s %s %s %s %s %s %s %s", lib.ZU(c.Nonce), lib.ZU(c.Timeout), lib.ZU(c.Block), zi(c.Sender), zi(c.Refund),
			lib.List(ts), zi(c.To), bytesZ(c.Data), bytesZ(c.Memo), lib.ZU(c.EvNonce)))
	}
	for _, e := range s.BySender {
		sn = append(sn, lib.Pair(lib.ZU(e[0]), lib.ZU(e[1])))
	}
	for _, n := range s.FromMsg {
		fm = append(fm, lib.ZU(n))
	}
	for _, p := range s.Pending {
		pd = append(pd, lib.Pair(lib.ZU(p.E), lib.Pair(lib.ZU(p.Nonce), lib.Bool(p.Ok))))
	}
	for _, b := range s.Bals {
		bl = append(bl, lib.ZBig(b))
	}
	for _, e := range s.Events {
		ev = append(ev, lib.Pair(lib.Z(e[0]), lib.Z(e[1])))
	}
	return fmt.Sprintf("mk_obs %s %s %s %s %s %s %s %s %s %s %s %s %s %s %s %s %s", lib.Bool(ok), coqTxs(s.Pool), lib.List(bs), lib.List(bb),
		lib.ZU(s.Ctr[0]), lib.ZU(s.Ctr[1]), lib.ZU(s.Ctr[2]), lib.List(cs), lib.List(sn), lib.List(fm), lib.List(pd),
		lib.ZU(s.Evn), lib.ZU(s.Ext), lib.ZU(s.Fx), lib.List(bl), lib.List(rl), lib.List(ev))
}

func coqCase(w *World, steps []string) string {
	var toks, keys, b0 []string
	for i, t := range w.toks {
		switch t.Kind {
		case "native":
			toks = append(toks, lib.Pair(zi(i), "KNative"))
		case "ext":
			toks = append(toks, lib.Pair(zi(i), "KExt"))
		case "coin":
			toks = append(toks, lib.Pair(zi(i), "KCoin"))
		case "erc":
			toks = append(toks, lib.Pair(zi(i), "KErc"))
		}
	}
	for _, k := range w.keys {
		keys = append(keys, fmt.Sprintf("(%s, %s, %s)", zi(k.Acct), zi(k.Token), zi(k.Which)))
	}
	for _, b := range w.bal0 {
		b0 = append(b0, lib.ZBig(b))
	}
	p := w.params0
	return fmt.Sprintf("mk_pool_case (P %s %s %s %s %d) %s %s %s %s\n   [%s]", lib.ZU(p[0]), lib.ZU(p[1]), lib.ZU(p[2]), lib.ZU(p[3]), maxElems,
		lib.List(toks), lib.List(keys), lib.List(b0), lib.Z(w.h0), strings.Join(steps, ";\n\t"))
}

var _ = big.NewInt
