package main

// gen.go: history generator. All choices derive from one PRNG; the generator looks at the real
// state (last snapshot) to aim operations at existing ids / batches / calls and at the boundary
// heights T-1, T, T+1 of existing time-outs.

import (
	"sort"

	"fxverif/lib"
)

const maxElems = 100 // types.OutgoingTxBatchSize (checked against the source at start-up)

var paramSets = [][4]uint64{
	{12 * 3600 * 1000, 7000, 5000, 604_800_000}, // defaults
	{60000, 100, 100, 3_600_001},
	{60000, 7000, 1_200_000, 3_600_001}, // batch timeout adds 0 external blocks, bridge call 3
	{120000, 30000, 20000, 4_000_000},
	{60000, 1 << 63, 100, 3_600_001}, // uint64 wrap in the projection
	{90000, 5000, 30000, 3_700_000},
}

type genBatch struct {
	token    int
	timeout  uint64
	executed bool
}

type Gen struct {
	seen     map[uint64]*genBatch // every batch ever seen in the store
	lastExec map[int]uint64       // token -> highest nonce whose execution was observed
	maxH     uint64               // highest height of an observed event
	r        *lib.Rand
	prop     string
	motif    []Op // queued scripted operations
	endBad   bool // finish the history with an execution claim for a batch that does not exist
	importAt int  // step at which the history does a genesis export/import of the module (0 = never)
}

func (g *Gen) fee() int64 {
	return []int64{1, 2, 3, 5, 5, 5, 8, 10}[g.r.Intn(8)]
}

func (g *Gen) heightNear(s Snap) uint64 {
	r := g.r
	var ts []uint64
	for _, b := range s.Batches {
		ts = append(ts, b.Timeout)
	}
	for _, c := range s.Calls {
		ts = append(ts, c.Timeout)
	}
	base := s.Ext
	if base == 0 {
		base = uint64(1 + r.Intn(2000))
	}
	switch k := r.Intn(100); {
	case k < 45 && len(ts) > 0:
		t := ts[r.Intn(len(ts))]
		d := []int64{-1, 0, 1, -1, 0, 1, 2, -2}[r.Intn(8)]
		h := int64(t) + d
		if h < 1 {
			h = 1
		}
		return uint64(h)
	case k < 60:
		return base
	case k < 85:
		return base + uint64(1+r.Intn(4))
	case k < 92:
		return base + uint64(r.Intn(5000))
	case k < 96:
		if base > 3 {
			return base - uint64(1+r.Intn(3)) // an event with a lower height (not excluded by the code)
		}
		return base
	case k < 98:
		return 0 // rejected by ValidateBasic
	default:
		return ^uint64(0) - uint64(r.Intn(2))
	}
}

// next = next0 plus, on observing operations, an occasional dissenting oracle (reports another height for the same event)
func (g *Gen) next(s Snap, remaining int) Op {
	o := g.next0(s, remaining)
	r := g.r
	// uneven vote schedule (divergent report + slow oracle) around an execution / result event followed by an event
	// past the time-out: the first event must still be applied first
	pct := 10
	if g.prop == "C06" {
		pct = 30
	}
	if remaining > 2 && len(g.motif) == 0 && o.H > 0 && o.Dissent == 0 && r.Chance(pct) {
		var t uint64
		switch o.Kind {
		case "BatchExecuted":
			for _, b := range s.Batches {
				if b.Nonce == o.Nonce && b.Token == o.Token {
					t = b.Timeout
				}
			}
		case "ObserveResult":
			for _, c := range s.Calls {
				if c.Nonce == o.Nonce {
					t = c.Timeout
				}
			}
		}
		if t > 1 && t-1 >= s.Ext && t-1 >= g.maxH {
			o.H = t - 1
			o.Dissent, o.DissentBy = t+uint64(r.Intn(3)), 1
			return Op{Kind: "Race", Sub: []Op{o, {Kind: "Observe", H: t + uint64(r.Intn(3))}}}
		}
	}
	if (o.Kind == "Observe" && r.Chance(25)) || ((o.Kind == "ObserveResult" || o.Kind == "BatchExecuted") && r.Chance(10)) {
		if o.H > 0 && !(remaining == 1 && g.endBad) {
			d := g.heightNear(s)
			switch r.Intn(3) {
			case 0:
				d = o.H + uint64(1+r.Intn(5000))
			case 1:
				if o.H > 1 {
					d = o.H - 1
				}
			}
			if d != 0 && d != o.H {
				o.Dissent, o.DissentBy = d, []int{1, 1, 1, 0, 2}[r.Intn(5)]
			}
		}
	}
	return o
}

func (g *Gen) next0(s Snap, remaining int) Op {
	r := g.r
	if len(g.motif) > 0 {
		o := g.motif[0]
		g.motif = g.motif[1:]
		return o
	}
	if remaining == 1 && g.endBad {
		return Op{Kind: "BatchExecuted", Token: r.Intn(5), Nonce: s.Ctr[1] + uint64(r.Intn(2)), H: s.Ext + 1}
	}
	// scripted motifs, occasionally
	if r.Chance(6) {
		g.queueMotif(s)
		if len(g.motif) > 0 {
			return g.next0(s, remaining)
		}
	}
	if r.Chance(2) { // the upgrade's module migration, anywhere in a history
		return Op{Kind: "Migrate"}
	}
	w := []int{22, 8, 8, 13, 8, 10, 8, 6, 6, 9, 2}
	if g.prop == "C06" {
		w = []int{16, 4, 4, 14, 10, 16, 11, 9, 7, 8, 3}
	}
	if s.Ext == 0 && r.Chance(25) {
		return Op{Kind: "Observe", H: g.heightNear(s)}
	}
	tot := 0
	for _, x := range w {
		tot += x
	}
	k := r.Intn(tot)
	kind := 0
	for i, x := range w {
		if k < x {
			kind = i
			break
		}
		k -= x
	}
	switch kind {
	case 0:
		o := Op{Kind: "Send", Sender: r.Intn(3), Dest: r.Intn(3), Amount: int64(1 + r.Intn(400)), Fee: g.fee(), Token: r.Intn(4)}
		if r.Chance(22) { // started from the EVM through the crossChain precompile: FX as value, or the registered coin's ERC-20
			o.Kind = "SendP"
			o.Token = []int{0, 3, 3, 4, 4}[r.Intn(5)]
			if r.Chance(8) {
				o.Fee = 0 // the precompile accepts a zero fee
			}
			if r.Chance(4) {
				o.Amount = 3000 // more than the ERC-20 / FX balance
			}
			return o
		}
		switch x := r.Intn(100); {
		case x < 3:
			o.Token = 5
		case x < 5:
			o.Amount = 0
		case x < 7:
			o.Fee = 0
		case x < 10:
			o.Amount = 6000 // more than the balance
		}
		return o
	case 1:
		o := Op{Kind: "Cancel", Who: r.Intn(3), Evm: r.Chance(35)}
		switch x := r.Intn(100); {
		case x < 70 && len(s.Pool) > 0:
			t := s.Pool[r.Intn(len(s.Pool))]
			o.ID = t.ID
			if r.Chance(80) {
				o.Who = t.Sender
			}
		case x < 88 && len(s.Batches) > 0:
			b := s.Batches[r.Intn(len(s.Batches))]
			t := b.Txs[r.Intn(len(b.Txs))]
			o.ID, o.Who = t.ID, t.Sender
		case x < 92:
			o.ID = 0
		default:
			o.ID = uint64(r.Intn(int(s.Ctr[0]) + 2))
		}
		return o
	case 2:
		o := Op{Kind: "IncreaseFee", Who: r.Intn(3), Add: int64(1 + r.Intn(5)), Which: 1}
		if len(s.Pool) > 0 && r.Chance(80) {
			t := s.Pool[r.Intn(len(s.Pool))]
			o.ID, o.Token = t.ID, t.Token
		} else if len(s.Batches) > 0 && r.Chance(60) {
			b := s.Batches[r.Intn(len(s.Batches))]
			o.ID, o.Token = b.Txs[0].ID, b.Token
		} else {
			o.ID, o.Token = uint64(r.Intn(int(s.Ctr[0])+2)), r.Intn(5)
		}
		if r.Chance(35) { // through the increaseBridgeFee precompile: FX as msg.value, or ERC-20 tokens
			o.Kind, o.Which = "IncreaseFeeP", 0
			if r.Chance(5) {
				o.Add = 5000 // more than the payer holds
			}
			if r.Chance(6) {
				o.Token = r.Intn(6)
			}
			return o
		}
		switch x := r.Intn(100); {
		case x < 6:
			o.Token = r.Intn(6)
		case x < 12:
			o.Which = 0
		case x < 15:
			o.Add = 0
		case x >= 90: // the bridge denom of another registered token (the payer holds it)
			o.Token = 1 + (o.Token+r.Intn(3))%4
		case x < 18:
			o.Add = 100000
		}
		return o
	case 3:
		o := Op{Kind: "RequestBatch", Token: r.Intn(5), Which: 1, FeeRcv: r.Intn(3), Auth: !r.Chance(7), ID: uint64(r.Intn(3)),
			BaseFee: []int64{0, 0, 0, 1, 3, 5, 6, 100}[r.Intn(8)], MinFee: []int64{1, 1, 1, 5, 12, 1000}[r.Intn(6)]}
		if len(s.Pool) > 0 && r.Chance(60) {
			o.Token = s.Pool[r.Intn(len(s.Pool))].Token
		}
		switch x := r.Intn(100); {
		case x < 3:
			o.Token = 5
		case x < 8:
			o.Which = 0
		case x < 10:
			o.MinFee = 0
		}
		return o
	case 4:
		if o, found := g.goneButExecutable(s); found && r.Chance(50) {
			return o
		}
		if len(s.Batches) == 0 {
			return Op{Kind: "Observe", H: g.heightNear(s)}
		}
		b := s.Batches[r.Intn(len(s.Batches))]
		if r.Chance(50) { // the newest batch of some token (older ones of the token get cancelled)
			b = s.Batches[0]
		}
		o := Op{Kind: "BatchExecuted", Token: b.Token, Nonce: b.Nonce}
		switch x := r.Intn(100); {
		case x < 55: // admissible: not below the last observed height, below the timeout
			o.H = s.Ext
			if b.Timeout > s.Ext+1 && r.Chance(60) {
				o.H = b.Timeout - 1
			}
		case x < 75:
			o.H = s.Ext + uint64(r.Intn(3))
		default:
			o.H = g.heightNear(s)
		}
		if o.H == 0 {
			o.H = 1
		}
		return o
	case 5:
		return Op{Kind: "Observe", H: g.heightNear(s)}
	case 6:
		o := Op{Kind: "BridgeCall", Sender: r.Intn(3), Refund: r.Intn(3), To: r.Intn(3)}
		if r.Chance(40) { // through the precompile: FX as msg.value, ERC-20 tokens of the registered coin; no from-msg marker
			p := Op{Kind: "BridgeCallP", Sender: o.Sender, Refund: o.Refund, To: o.To, Data: []byte{byte(r.Intn(256))}}
			if r.Chance(60) {
				p.Amount = int64(1 + r.Intn(120))
			}
			if r.Chance(60) || p.Amount == 0 {
				p.Coins = [][2]int64{{3, int64(1 + r.Intn(120))}}
			}
			if g.prop == "C05" && r.Chance(4) {
				p.Coins = [][2]int64{{4, int64(1 + r.Intn(50))}} // an externally owned ERC-20: its refund cannot be paid (finding C05-3)
			}
			if r.Chance(4) {
				p.Coins = [][2]int64{{3, 2000}} // more ERC-20 than the caller holds
			}
			if r.Chance(3) {
				p.Amount = 9000
			}
			return p
		}
		for t := 0; t < 4; t++ {
			if r.Chance(40) {
				o.Coins = append(o.Coins, [2]int64{int64(t), int64(1 + r.Intn(120))})
			}
		}
		for i, n := 0, r.Intn(4); i < n; i++ {
			o.Data = append(o.Data, byte(r.Intn(256)))
		}
		for i, n := 0, r.Intn(3); i < n; i++ {
			o.Memo = append(o.Memo, byte(r.Intn(256)))
		}
		if r.Chance(3) {
			o.Coins = append(o.Coins, [2]int64{5, 5})
		}
		if r.Chance(3) && len(o.Coins) > 0 {
			o.Coins[0][1] = 9000 // more than the balance
		}
		return o
	case 7:
		o := Op{Kind: "ObserveResult", Success: r.Chance(55)}
		if len(s.Calls) > 0 && r.Chance(88) {
			c := s.Calls[r.Intn(len(s.Calls))]
			o.Nonce = c.Nonce
			switch x := r.Intn(100); {
			case x < 50:
				o.H = c.Timeout - 1
				if o.H < s.Ext {
					o.H = s.Ext
				}
			case x < 70:
				o.H = s.Ext
			default:
				o.H = g.heightNear(s)
			}
		} else {
			o.Nonce, o.H = uint64(r.Intn(int(s.Ctr[2])+2)), g.heightNear(s)
		}
		if o.H == 0 && r.Chance(70) {
			o.H = 1
		}
		return o
	case 8:
		o := Op{Kind: "ExecResult", E: 9999, Evm: r.Chance(35)}
		if len(s.Pending) > 0 && r.Chance(90) {
			o.E = s.Pending[r.Intn(len(s.Pending))].E
		}
		return o
	case 9:
		return Op{Kind: "NextBlock"}
	default:
		p := paramSets[r.Intn(len(paramSets))]
		if r.Chance(25) {
			p[r.Intn(4)] = uint64(r.Intn(200)) // below the validated minimum
		}
		return Op{Kind: "SetParams", Params: p}
	}
}

// scripted sequences for the situations the property text names
func (g *Gen) queueMotif(s Snap) {
	r := g.r
	tok := r.Intn(4)
	h := s.Ext
	if h == 0 {
		h = uint64(100 + r.Intn(1000))
		g.motif = append(g.motif, Op{Kind: "Observe", H: h})
	}
	switch r.Intn(7) {
	case 6: // a batch, then blocks pass without any event (the projected height runs ahead of the observed one), then the migration
		g.motif = append(g.motif,
			Op{Kind: "Send", Sender: 0, Dest: 1, Amount: 10, Fee: 5, Token: tok},
			Op{Kind: "RequestBatch", Token: tok, Which: 1, FeeRcv: 0, BaseFee: 0, MinFee: 1, Auth: true})
		for i, n := 0, 6+r.Intn(8); i < n; i++ {
			g.motif = append(g.motif, Op{Kind: "NextBlock"})
		}
		g.motif = append(g.motif, Op{Kind: "Migrate"}, Op{Kind: "Send", Sender: 1, Dest: 1, Amount: 3, Fee: 2, Token: tok})
	case 5: // batch time-outs that are not monotone in the nonce: the older batch has the later time-out
		nb := 1 + r.Intn(4)
		g.motif = append(g.motif, Op{Kind: "Send", Sender: 0, Dest: 1, Amount: 10, Fee: 5, Token: tok})
		for i := 0; i < nb; i++ {
			g.motif = append(g.motif, Op{Kind: "NextBlock"})
		}
		g.motif = append(g.motif,
			Op{Kind: "RequestBatch", Token: tok, Which: 1, FeeRcv: 0, BaseFee: 0, MinFee: 1, Auth: true},
			Op{Kind: "Observe", H: h + 1},
			Op{Kind: "Send", Sender: 1, Dest: 2, Amount: 20, Fee: 9, Token: tok},
			Op{Kind: "NextBlock"},
			Op{Kind: "RequestBatch", Token: tok, Which: 1, FeeRcv: 1, BaseFee: 0, MinFee: 1, Auth: true},
		) // the heights that follow are drawn around the two live time-outs by heightNear
	case 0: // two batches of one token; the second is executed while the first is still alive
		g.motif = append(g.motif,
			Op{Kind: "Send", Sender: 0, Dest: 1, Amount: 10, Fee: 5, Token: tok},
			Op{Kind: "Send", Sender: 1, Dest: 2, Amount: 20, Fee: 5, Token: tok},
			Op{Kind: "NextBlock"},
			Op{Kind: "RequestBatch", Token: tok, Which: 1, FeeRcv: 0, BaseFee: 0, MinFee: 1, Auth: true},
			Op{Kind: "Send", Sender: 2, Dest: 0, Amount: 30, Fee: 50, Token: tok},
			Op{Kind: "NextBlock"},
			Op{Kind: "RequestBatch", Token: tok, Which: 1, FeeRcv: 1, BaseFee: 0, MinFee: 1, Auth: true},
			Op{Kind: "BatchExecuted", Token: tok, Nonce: s.Ctr[1] + 1, H: h},
			Op{Kind: "Cancel", ID: s.Ctr[0], Who: 0},
		)
	case 1: // fee increase racing a batch request
		g.motif = append(g.motif,
			Op{Kind: "Send", Sender: 0, Dest: 1, Amount: 10, Fee: 5, Token: tok},
			Op{Kind: "Send", Sender: 1, Dest: 1, Amount: 11, Fee: 5, Token: tok},
			Op{Kind: "IncreaseFee", ID: s.Ctr[0], Who: 2, Add: 1, Token: tok, Which: 1},
			Op{Kind: "NextBlock"},
			Op{Kind: "RequestBatch", Token: tok, Which: 1, FeeRcv: 0, BaseFee: 6, MinFee: 1, Auth: true},
			Op{Kind: "IncreaseFee", ID: s.Ctr[0], Who: 0, Add: 2, Token: tok, Which: 1},
			Op{Kind: "IncreaseFee", ID: s.Ctr[0] + 1, Who: 1, Add: 1, Token: tok, Which: 1},
			Op{Kind: "Cancel", ID: s.Ctr[0], Who: 0},
			Op{Kind: "Cancel", ID: s.Ctr[0] + 1, Who: 1},
		)
	case 2: // bridge call, result parked at T-1, then executed, then an event at T
		g.motif = append(g.motif,
			Op{Kind: "BridgeCall", Sender: 0, Refund: 1, Coins: [][2]int64{{0, 40}}, To: 2, Data: []byte{1}},
		)
	case 3: // batch request in the very block of another batch, then the next block
		g.motif = append(g.motif,
			Op{Kind: "Send", Sender: 0, Dest: 1, Amount: 10, Fee: 5, Token: 0},
			Op{Kind: "Send", Sender: 0, Dest: 1, Amount: 10, Fee: 5, Token: 1},
			Op{Kind: "RequestBatch", Token: 0, Which: 1, FeeRcv: 0, BaseFee: 0, MinFee: 1, Auth: true},
			Op{Kind: "RequestBatch", Token: 1, Which: 1, FeeRcv: 0, BaseFee: 0, MinFee: 1, Auth: true},
			Op{Kind: "NextBlock"},
			Op{Kind: "RequestBatch", Token: 1, Which: 1, FeeRcv: 0, BaseFee: 0, MinFee: 1, Auth: true},
		)
	default: // equal fees: iteration order among equal keys is by id
		for i := 0; i < 4; i++ {
			g.motif = append(g.motif, Op{Kind: "Send", Sender: i % 3, Dest: 0, Amount: int64(5 + i), Fee: 5, Token: tok})
		}
		g.motif = append(g.motif, Op{Kind: "IncreaseFee", ID: s.Ctr[0] + 1, Who: 0, Add: 0 + 5, Token: tok, Which: 1},
			Op{Kind: "IncreaseFee", ID: s.Ctr[0] + 2, Who: 0, Add: 5, Token: tok, Which: 1})
	}
}

// note is told every performed step: remembers batches and observed executions / heights
func (g *Gen) note(op Op, ok bool, s Snap) {
	if g.seen == nil {
		g.seen, g.lastExec = map[uint64]*genBatch{}, map[int]uint64{}
	}
	for _, b := range s.Batches {
		if _, known := g.seen[b.Nonce]; !known {
			g.seen[b.Nonce] = &genBatch{token: b.Token, timeout: b.Timeout}
		}
	}
	if ok && (op.Kind == "Observe" || op.Kind == "BatchExecuted" || op.Kind == "ObserveResult") {
		if op.H > g.maxH {
			g.maxH = op.H
		}
		if op.Kind == "BatchExecuted" {
			if b := g.seen[op.Nonce]; b != nil && b.token == op.Token {
				b.executed = true
			}
			if op.Nonce > g.lastExec[op.Token] {
				g.lastExec[op.Token] = op.Nonce
			}
		}
	}
}

// goneButExecutable: a batch that is no longer stored although the external contract would still execute it
// (height below its time-out, nonce above the last executed one of its token, heights in order). On code where the
// property holds there is none (theorem C06_no_double_spend_batch), so this never produces an operation there.
func (g *Gen) goneButExecutable(s Snap) (Op, bool) {
	h := g.maxH
	if s.Ext > h {
		h = s.Ext
	}
	var nonces []uint64
	for n := range g.seen {
		nonces = append(nonces, n)
	}
	sort.Slice(nonces, func(i, j int) bool { return nonces[i] < nonces[j] })
	for _, n := range nonces {
		b := g.seen[n]
		live := false
		for _, x := range s.Batches {
			if x.Nonce == n {
				live = true
			}
		}
		if !live && !b.executed && h > 0 && h < b.timeout && n > g.lastExec[b.token] {
			return Op{Kind: "BatchExecuted", Token: b.token, Nonce: n, H: h}, true
		}
	}
	return Op{}, false
}
