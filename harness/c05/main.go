package main

import (
	"fmt"

	sdkmath "cosmossdk.io/math"
	sdk "github.com/cosmos/cosmos-sdk/types"
	authtypes "github.com/cosmos/cosmos-sdk/x/auth/types"
	"github.com/ethereum/go-ethereum/common"

	fxtypes "github.com/functionx/fx-core/v8/types"
	crosschaintypes "github.com/functionx/fx-core/v8/x/crosschain/types"
	erc20types "github.com/functionx/fx-core/v8/x/erc20/types"

	"fxverif/lib"
)

func main() {
	c := lib.NewChain(1, 1, nil)
	x := c.X("eth")
	x.SetupOracles([]int64{10000, 10000, 10000})
	if err := c.NextBlock(); err != nil {
		panic(err)
	}
	ctx := c.Ctx
	k := x.Keeper
	mod := authtypes.NewModuleAddress("eth")
	cFX := "0x1111111111111111111111111111111111111111"
	cB := "0x2222222222222222222222222222222222222222"
	lib.Must(k.AddBridgeTokenExecuted(ctx, &crosschaintypes.MsgBridgeTokenClaim{TokenContract: cFX, Name: "Function X", Symbol: "FX", Decimals: 18, ChainName: "eth"}))
	bdB := crosschaintypes.NewBridgeDenom("eth", cB)
	lib.Must(k.SetToken(ctx, "Test Token", "usdt", 18, bdB))
	lib.Must(k.AddBridgeTokenExecuted(ctx, &crosschaintypes.MsgBridgeTokenClaim{TokenContract: cB, Name: "Test Token", Symbol: bdB, Decimals: 18, ChainName: "eth"}))
	erc20Mod := common.BytesToAddress(authtypes.NewModuleAddress(erc20types.ModuleName).Bytes())
	addr, err := c.App.Erc20Keeper.DeployUpgradableToken(ctx, erc20Mod, "Test Token", "USDT", 18)
	lib.Must(err)
	c.App.Erc20Keeper.AddTokenPair(ctx, erc20types.TokenPair{Erc20Address: addr.String(), Denom: "usdt", Enabled: true, ContractOwner: erc20types.OWNER_EXTERNAL})

	u := lib.EthKey(1, "user", 0)
	v := lib.EthKey(1, "user", 1)
	c.Mint(u.Acc(), lib.FX(100), sdk.NewCoin("usdt", sdkmath.NewInt(1000)), sdk.NewCoin(bdB, sdkmath.NewInt(1000)))
	c.Mint(v.Acc(), lib.FX(100), sdk.NewCoin("usdt", sdkmath.NewInt(1000)), sdk.NewCoin(bdB, sdkmath.NewInt(1000)))
	lib.Must(c.App.BankKeeper.MintCoins(c.Ctx, "eth", sdk.NewCoins(sdk.NewCoin(bdB, sdkmath.NewInt(5000)))))
	bal := func(tag string) {
		fmt.Println(tag, "u:", c.App.BankKeeper.GetAllBalances(c.Ctx, u.Acc()), "v:", c.App.BankKeeper.GetAllBalances(c.Ctx, v.Acc()), "mod:", c.App.BankKeeper.GetAllBalances(c.Ctx, mod))
	}
	bal("init")
	dest := "0x3333333333333333333333333333333333333333"
	try := func(tag string, f func(ctx sdk.Context) error) {
		err := c.Try(f)
		fmt.Println(tag, "->", err)
		bal(tag)
	}
	ms := x.Msg()
	try("sendFX", func(ctx sdk.Context) error {
		m := &crosschaintypes.MsgSendToExternal{Sender: u.Acc().String(), Dest: dest, Amount: sdk.NewCoin(fxtypes.DefaultDenom, sdkmath.NewInt(100)), BridgeFee: sdk.NewCoin(fxtypes.DefaultDenom, sdkmath.NewInt(7)), ChainName: "eth"}
		if e := m.ValidateBasic(); e != nil {
			return e
		}
		r, e := ms.SendToExternal(ctx, m)
		fmt.Println("  resp", r)
		return e
	})
	try("sendB", func(ctx sdk.Context) error {
		m := &crosschaintypes.MsgSendToExternal{Sender: u.Acc().String(), Dest: dest, Amount: sdk.NewCoin("usdt", sdkmath.NewInt(100)), BridgeFee: sdk.NewCoin("usdt", sdkmath.NewInt(7)), ChainName: "eth"}
		r, e := ms.SendToExternal(ctx, m)
		fmt.Println("  resp", r)
		return e
	})
	try("incFX", func(ctx sdk.Context) error {
		_, e := ms.IncreaseBridgeFee(ctx, &crosschaintypes.MsgIncreaseBridgeFee{ChainName: "eth", TransactionId: 1, Sender: v.Acc().String(), AddBridgeFee: sdk.NewCoin("FX", sdkmath.NewInt(3))})
		return e
	})
	try("incB-base", func(ctx sdk.Context) error {
		_, e := ms.IncreaseBridgeFee(ctx, &crosschaintypes.MsgIncreaseBridgeFee{ChainName: "eth", TransactionId: 2, Sender: v.Acc().String(), AddBridgeFee: sdk.NewCoin("usdt", sdkmath.NewInt(3))})
		return e
	})
	try("incB-bridge", func(ctx sdk.Context) error {
		_, e := ms.IncreaseBridgeFee(ctx, &crosschaintypes.MsgIncreaseBridgeFee{ChainName: "eth", TransactionId: 2, Sender: v.Acc().String(), AddBridgeFee: sdk.NewCoin(bdB, sdkmath.NewInt(3))})
		return e
	})
	for _, kv := range c.DumpPrefix(c.Ctx, "eth", []byte{0x18}) {
		fmt.Printf("pool %x\n", kv.K)
	}
	for _, kv := range c.DumpPrefix(c.Ctx, "eth", []byte{0x25}) {
		fmt.Printf("seq %s %x\n", kv.K[1:], kv.V)
	}
	try("reqbatch-noheight", func(ctx sdk.Context) error {
		_, e := ms.RequestBatch(ctx, &crosschaintypes.MsgRequestBatch{ChainName: "eth", Sender: x.Oracles[0].Bridger.Acc().String(), Denom: "FX", MinimumFee: sdkmath.NewInt(1), FeeReceive: dest, BaseFee: sdkmath.NewInt(0)})
		return e
	})
	try("bridgecall-noheight", func(ctx sdk.Context) error {
		m := &crosschaintypes.MsgBridgeCall{ChainName: "eth", Sender: u.Acc().String(), Refund: v.Acc().String(), Coins: sdk.NewCoins(sdk.NewCoin("FX", sdkmath.NewInt(50)), sdk.NewCoin("usdt", sdkmath.NewInt(60))), To: dest, Data: "abcd", Memo: "", Value: sdkmath.ZeroInt()}
		if e := m.ValidateBasic(); e != nil {
			return e
		}
		_, e := ms.BridgeCall(ctx, m)
		return e
	})
	// observe a height
	nonce := uint64(1)
	obs := func(h uint64) {
		errs := x.ObserveAll(func() crosschaintypes.ExternalClaim {
			return &crosschaintypes.MsgSendToFxClaim{EventNonce: nonce, BlockHeight: h, TokenContract: cFX, Amount: sdkmath.NewInt(1), Sender: dest, Receiver: u.Acc().String()}
		})
		fmt.Println("observe", h, errs, k.GetLastObservedBlockHeight(c.Ctx))
		nonce++
	}
	obs(1000)
	try("reqbatchFX", func(ctx sdk.Context) error {
		r, e := ms.RequestBatch(ctx, &crosschaintypes.MsgRequestBatch{ChainName: "eth", Sender: x.Oracles[0].Bridger.Acc().String(), Denom: "FX", MinimumFee: sdkmath.NewInt(1), FeeReceive: dest, BaseFee: sdkmath.NewInt(0)})
		fmt.Println("  resp", r)
		return e
	})
	try("reqbatchB-sameblock", func(ctx sdk.Context) error {
		r, e := ms.RequestBatch(ctx, &crosschaintypes.MsgRequestBatch{ChainName: "eth", Sender: x.Oracles[0].Bridger.Acc().String(), Denom: bdB, MinimumFee: sdkmath.NewInt(1), FeeReceive: dest, BaseFee: sdkmath.NewInt(0)})
		fmt.Println("  resp", r)
		return e
	})
	try("reqbatchB-basedenom", func(ctx sdk.Context) error {
		r, e := ms.RequestBatch(ctx, &crosschaintypes.MsgRequestBatch{ChainName: "eth", Sender: x.Oracles[0].Bridger.Acc().String(), Denom: "usdt", MinimumFee: sdkmath.NewInt(1), FeeReceive: dest, BaseFee: sdkmath.NewInt(0)})
		fmt.Println("  resp", r)
		return e
	})
	try("cancelB", func(ctx sdk.Context) error {
		_, e := ms.CancelSendToExternal(ctx, &crosschaintypes.MsgCancelSendToExternal{ChainName: "eth", TransactionId: 2, Sender: u.Acc().String()})
		return e
	})
	try("bridgecall", func(ctx sdk.Context) error {
		m := &crosschaintypes.MsgBridgeCall{ChainName: "eth", Sender: u.Acc().String(), Refund: v.Acc().String(), Coins: sdk.NewCoins(sdk.NewCoin("FX", sdkmath.NewInt(50)), sdk.NewCoin("usdt", sdkmath.NewInt(60))), To: dest, Data: "abcd", Memo: "", Value: sdkmath.ZeroInt()}
		if e := m.ValidateBasic(); e != nil {
			return e
		}
		_, e := ms.BridgeCall(ctx, m)
		return e
	})
	k.IterateOutgoingBridgeCalls(c.Ctx, func(o *crosschaintypes.OutgoingBridgeCall) bool { fmt.Println("bc", o); return false })
	for _, b := range k.GetOutgoingTxBatches(c.Ctx) {
		fmt.Println("batch", b)
	}
	bc, _ := k.GetOutgoingBridgeCallByNonce(c.Ctx, 1)
	T := bc.Timeout
	// result success at T-1, parked
	errs := x.ObserveAll(func() crosschaintypes.ExternalClaim {
		return &crosschaintypes.MsgBridgeCallResultClaim{EventNonce: nonce, BlockHeight: T - 1, Nonce: 1, TxOrigin: dest, Success: true, Cause: ""}
	})
	resNonce := nonce
	nonce++
	fmt.Println("result claim", errs)
	bal("after result observed")
	obs(T)
	bal("after observe T")
	_, found := k.GetOutgoingBridgeCallByNonce(c.Ctx, 1)
	fmt.Println("bc still there:", found)
	try("execclaim", func(ctx sdk.Context) error { return k.ExecuteClaim(ctx, resNonce) })
	_ = fxtypes.DefaultDenom
}
