// c05: correspondence + monitors for properties C05 (every outgoing transfer is in exactly one place and is
// settled once) and C06 (time-outs only on an observed external height). VERIF_PROP selects which property's
// monitors and generator weights are used; the correspondence stream (real application vs coq/model/M_Pool.v)
// is the same machinery for both.
//
// Every operation goes through the real MsgServer / real oracle claims of the full application
// (lib.NewChain); after every operation the raw stores 0x18, 0x20, 0x21, 0x25, 0x48, 0x49, 0x51, 0x54, 0x24,
// 0x32, the balances of the accounts involved and the three events are read and written, together with the
// operation, into Cases_<prop>.v where coqc evaluates the model on the same history.
package main

import (
	"encoding/json"
	"fmt"
	"os"

	crosschaintypes "github.com/functionx/fx-core/v8/x/crosschain/types"

	"fxverif/lib"
)

type histResult struct {
	ops   []Op
	fails []monFail
	steps []string
	w     *World
	seed  int64
	float int64
	chain string
}

func runHistory(prop, chain string, seed int64, prm [4]uint64, float int64, n int, g *Gen, script []Op, rep *lib.Report, hid string) histResult {
	setChain(chain)
	rep.Count("chain=" + chainName)
	w := NewWorld(seed, prm, float)
	mon := NewMonitor(w)
	prev := w.snapshot()
	var res histResult
	res.w, res.seed, res.float, res.chain = w, seed, float, chainName
	changed := 0
	for i := 0; i < n; i++ {
		var op Op
		if script != nil {
			if i >= len(script) {
				break
			}
			op = script[i]
		} else if g != nil && g.importAt > 0 && i == g.importAt {
			op = Op{Kind: "ExportImport"}
		} else {
			op = g.next(prev, n-i)
		}
		if w.stuck && (op.Kind == "Observe" || op.Kind == "BatchExecuted" || op.Kind == "ObserveResult" || op.Kind == "Race") {
			break
		}
		for _, st := range w.steps(op) {
			ok, cur := st.Ok, st.Snap
			if g != nil {
				g.note(st.Op, ok, cur)
			}
			mon.Check(prop, st.Op, ok, prev, cur)
			res.steps = append(res.steps, "("+coqOp(st.Op)+", "+coqObs(ok, cur)+")")
			rep.Count("op=" + st.Op.Kind)
			if ok {
				rep.Count("accepted")
				changed++
			} else {
				rep.Count("refused")
			}
			rep.Case(fmt.Sprintf("%s/%d/%s/%v", hid, i, coqOp(st.Op), ok), ok && st.Op.Kind != "NextBlock")
			prev = cur
		}
		res.ops = append(res.ops, op)
		if op.Kind == "Race" {
			rep.Count("race")
		}
	}
	for _, e := range prev.Events {
		_ = e
	}
	res.fails = mon.fails
	return res
}

func main() {
	prop := os.Getenv("VERIF_PROP")
	if prop == "" {
		prop = "C05"
	}
	if crosschaintypes.OutgoingTxBatchSize != maxElems {
		fmt.Println("types.OutgoingTxBatchSize changed:", crosschaintypes.OutgoingTxBatchSize)
		os.Exit(3)
	}
	if os.Getenv("VERIF_MODE") == "replay" {
		replay(prop)
		return
	}
	seed := lib.Seed()
	if prop == "C06" {
		seed += 1000003
	}
	r := lib.NewRand(seed)
	nHist, nOps := 70, 36
	if lib.Tier() == "thorough" {
		nHist, nOps = 500, 60
	}
	if os.Getenv("VERIF_MODE") == "search" {
		nHist, nOps = 700, 50
	}
	if v := lib.EnvInt("VERIF_N", 0); v > 0 {
		nHist = int(v)
	}
	rep := lib.NewReport(prop)
	rep.Rule = "histories of Send/Cancel/IncreaseFee/RequestBatch/BatchExecuted/Observe/BridgeCall/ObserveResult/ExecResult/NextBlock/SetParams on a fresh real app (3 users, FX + 2 plain bridge tokens + 1 unregistered, 6 parameter sets incl. uint64 wrap), targets and heights aimed at live ids and at T-1,T,T+1 of live time-outs, scripted motifs (newer batch executed first, fee increase racing a batch, equal fees, two batches in one block, >100 entries); one evaluation = one step; non-trivial = accepted state-changing step; distinct by (history, step, operation)"

	var items []string
	record := func(h histResult, hid string) {
		items = append(items, coqCase(h.w, h.steps))
		seenSig := map[string]int{}
		for _, f := range h.fails {
			seenSig[f.sig]++
		}
		for _, f := range h.fails {
			// one report per signature and history (the report keeps at most 50 failures: repeated consequences of one
			// known finding must not crowd out anything else)
			if seenSig[f.sig] < 0 {
				continue
			}
			if n := seenSig[f.sig]; n > 1 {
				f.what = fmt.Sprintf("%s (%d occurrences in this history)", f.what, n)
			}
			seenSig[f.sig] = -1
			rep.Fail(lib.Failure{Kind: "monitor", What: f.what, Sig: f.sig, Replay: map[string]interface{}{"history": hid, "prop": prop, "chain_seed": h.seed, "chain": h.chain,
				"module_float": h.float, "params": h.w.params0, "ops": h.ops}})
		}
		if len(h.ops) > 0 {
			rep.Sample(map[string]interface{}{"history": hid, "first_ops": h.ops[:min(6, len(h.ops))]})
		}
	}

	// VERIF_DUMP_SCRIPTS=<dir>: write every scripted history as a replay file (the format bin/replay reads) and stop;
	// this is how the files under corpus/C05, corpus/C06 are produced
	if dir := os.Getenv("VERIF_DUMP_SCRIPTS"); dir != "" {
		for i, sc := range scripted(prop) {
			b, _ := json.MarshalIndent(map[string]interface{}{"property": prop, "kind": "failing-input", "harness": "c05",
				"replay": map[string]interface{}{"history": fmt.Sprintf("script-%d", i), "prop": prop, "chain_seed": seed + int64(i), "chain": sc.chain,
					"module_float": sc.float, "params": sc.prm, "ops": sc.ops}}, "", " ")
			lib.Must(os.WriteFile(fmt.Sprintf("%s/%s-script-%d.json", dir, prop, i), b, 0o644))
		}
		return
	}
	// scripted histories first: the witnesses of the Coq development replayed on the real application
	for i, sc := range scripted(prop) {
		hid := fmt.Sprintf("script-%d", i)
		record(runHistory(prop, sc.chain, seed+int64(i), sc.prm, sc.float, len(sc.ops), nil, sc.ops, rep, hid), hid)
	}
	for i := 0; i < nHist; i++ {
		g := &Gen{r: r, prop: prop, endBad: r.Chance(6)}
		if prop == "C05" && r.Chance(6) { // a genesis round trip of the module; the history goes on for a few steps (C05-2 signature)
			g.importAt = nOps - 3 - r.Intn(6)
			g.endBad = false
		}
		prm := paramSets[r.Intn(len(paramSets))]
		float := int64(100000)
		if r.Chance(25) {
			float = 0
		}
		hid := fmt.Sprintf("h%d", i)
		// every third history runs on the tron module (base58 contract / external addresses); by index, so that the
		// operation stream of the other histories does not depend on it
		chain := "eth"
		if i%3 == 2 {
			chain = "tron"
		}
		record(runHistory(prop, chain, seed*1000+int64(i), prm, float, nOps, g, nil, rep, hid), hid)
	}
	lib.WriteCases("Cases_"+prop+".v", []string{"gen.Gen_TimeoutRules", "model.M_Pool", "model.M_PoolCorr"}, "pool_case", items, "pool_mismatch")
	rep.Write()
}

func min(a, b int) int {
	if a < b {
		return a
	}
	return b
}

type script struct {
	prm   [4]uint64
	float int64
	ops   []Op
	chain string // "" = eth
}

// scripted: deterministic histories — the witnesses used by the Coq files, replayed on the real code.
func scripted(prop string) []script {
	var out []script
	// (1) the C06 bridge-call witness: call with timeout T; all oracles observe result(success) at T-1, nobody
	// executes it; any event at height >= T; then ExecuteClaim.
	// params {60000,7000,1_200_000,3_600_001}: observed 1000 at the call's block => T = 1000 + 3 = 1003
	out = append(out, script{prm: paramSets[2], float: 100000, ops: []Op{
		{Kind: "Observe", H: 1000},
		{Kind: "BridgeCall", Sender: 0, Refund: 1, Coins: [][2]int64{{0, 50}, {1, 60}}, To: 2, Data: []byte{0xab, 0xcd}},
		{Kind: "ObserveResult", Nonce: 1, Success: true, H: 1002},
		{Kind: "Observe", H: 1003},
		{Kind: "ExecResult", E: 2},
	}})
	// (2) same, but the result is executed before the next event: no refund, the later event finds nothing
	out = append(out, script{prm: paramSets[2], float: 100000, ops: []Op{
		{Kind: "Observe", H: 1000},
		{Kind: "BridgeCall", Sender: 0, Refund: 1, Coins: [][2]int64{{0, 50}, {1, 60}}, To: 2, Data: []byte{0xab, 0xcd}},
		{Kind: "ObserveResult", Nonce: 1, Success: true, H: 1002},
		{Kind: "ExecResult", E: 2},
		{Kind: "Observe", H: 1003},
	}})
	// (3) batches: boundary T-1 (kept), T (kept: strict comparison), T+1 (cancelled); newer batch executed first
	out = append(out, script{prm: paramSets[2], float: 100000, ops: []Op{
		{Kind: "Send", Sender: 0, Dest: 1, Amount: 10, Fee: 5, Token: 0},
		{Kind: "RequestBatch", Token: 0, Which: 1, FeeRcv: 0, MinFee: 1, Auth: true}, // refused: nothing observed yet
		{Kind: "Observe", H: 500},
		{Kind: "RequestBatch", Token: 0, Which: 1, FeeRcv: 0, MinFee: 1, Auth: true}, // T = 500
		{Kind: "Send", Sender: 1, Dest: 1, Amount: 20, Fee: 9, Token: 0},
		{Kind: "NextBlock"},
		{Kind: "RequestBatch", Token: 0, Which: 1, FeeRcv: 0, MinFee: 1, Auth: true},
		{Kind: "Observe", H: 499},
		{Kind: "Observe", H: 500},
		{Kind: "BridgeCall", Sender: 2, Refund: 2, Coins: [][2]int64{{2, 7}}, To: 0},
		{Kind: "Observe", H: 501},
		{Kind: "Cancel", ID: 1, Who: 0},
		{Kind: "Observe", H: 503},
		{Kind: "Observe", H: 504},
	}})
	// (5) time-outs are not monotone in the batch nonce: batch 1 is requested three blocks after the last event (projection
	// runs ahead: T1 = 1000+3*70+600 = 1810), an event at 1001 resets the projection, the more profitable batch 2 gets
	// T2 = 1001+70+600 = 1671; the event at 1700 may release batch 2 only; batch 1 must still be executable at 1750
	out = append(out, script{prm: [4]uint64{60000, 7000, 100, 3_600_001}, float: 100000, ops: []Op{
		{Kind: "Observe", H: 1000},
		{Kind: "Send", Sender: 0, Dest: 1, Amount: 10, Fee: 5, Token: 1},
		{Kind: "NextBlock"}, {Kind: "NextBlock"}, {Kind: "NextBlock"},
		{Kind: "RequestBatch", Token: 1, Which: 1, FeeRcv: 0, MinFee: 1, Auth: true},
		{Kind: "Observe", H: 1001},
		{Kind: "Send", Sender: 1, Dest: 2, Amount: 20, Fee: 9, Token: 1},
		{Kind: "NextBlock"},
		{Kind: "RequestBatch", Token: 1, Which: 1, FeeRcv: 1, MinFee: 1, Auth: true},
		{Kind: "Observe", H: 1700},
		{Kind: "Cancel", ID: 1, Who: 0},
		{Kind: "BatchExecuted", Token: 1, Nonce: 1, H: 1750},
	}})
	// (6) one of three oracles reports the event with another height (here: far beyond every time-out, as the
	// threshold-crossing second voter): the observed height must be the one the other two agree on
	out = append(out, script{prm: paramSets[2], float: 100000, ops: []Op{
		{Kind: "Observe", H: 1000},
		{Kind: "Send", Sender: 0, Dest: 1, Amount: 10, Fee: 5, Token: 0},
		{Kind: "RequestBatch", Token: 0, Which: 1, FeeRcv: 0, MinFee: 1, Auth: true},
		{Kind: "BridgeCall", Sender: 0, Refund: 1, Coins: [][2]int64{{0, 50}}, To: 2, Data: []byte{1}},
		{Kind: "Observe", H: 1000, Dissent: 900000, DissentBy: 1},
		{Kind: "Observe", H: 1001, Dissent: 900000, DissentBy: 0},
		{Kind: "Observe", H: 1001, Dissent: 900000, DissentBy: 2},
	}})
	// (7) bridge calls queued by the real bridgeCall precompile (no from-msg marker), refund address != sender:
	// one settled by a failed result, one by its time-out (T = 1000+3 = 1003), one created by MsgBridgeCall for contrast;
	// the refund address must receive FX in the bank / the registered coin as ERC-20 (as base coins for the msg call)
	out = append(out, script{prm: paramSets[2], float: 100000, ops: []Op{
		{Kind: "Observe", H: 1000},
		{Kind: "BridgeCallP", Sender: 0, Refund: 1, Amount: 50, Coins: [][2]int64{{3, 60}}, To: 2, Data: []byte{1}},
		{Kind: "BridgeCallP", Sender: 2, Refund: 0, Coins: [][2]int64{{3, 70}}, To: 1, Data: []byte{2}, Memo: []byte{9}},
		{Kind: "BridgeCall", Sender: 1, Refund: 2, Coins: [][2]int64{{0, 5}, {3, 30}}, To: 0, Data: []byte{3}},
		{Kind: "ObserveResult", Nonce: 1, Success: false, H: 1001},
		{Kind: "ExecResult", E: 2},
		{Kind: "Observe", H: 1003},
	}})
	// (8) C05 only — finding C05-2: genesis export + import of the module restarts the three id counters and drops the
	// outgoing bridge calls: new ids collide with live ones, a new batch overwrites a stored one
	if prop == "C05" {
		out = append(out, script{prm: paramSets[1], float: 100000, ops: []Op{
			{Kind: "Observe", H: 1000},
			{Kind: "Send", Sender: 0, Dest: 1, Amount: 10, Fee: 5, Token: 0},
			{Kind: "Send", Sender: 1, Dest: 1, Amount: 11, Fee: 6, Token: 3},
			{Kind: "Send", Sender: 2, Dest: 1, Amount: 12, Fee: 7, Token: 0},
			{Kind: "RequestBatch", Token: 0, Which: 1, FeeRcv: 0, MinFee: 1, Auth: true},
			{Kind: "Send", Sender: 0, Dest: 2, Amount: 13, Fee: 8, Token: 0},
			{Kind: "BridgeCall", Sender: 0, Refund: 1, Coins: [][2]int64{{0, 50}}, To: 2, Data: []byte{1}},
			{Kind: "NextBlock"},
			{Kind: "ExportImport"},
			{Kind: "Send", Sender: 0, Dest: 2, Amount: 20, Fee: 9, Token: 0},
			{Kind: "Send", Sender: 0, Dest: 2, Amount: 21, Fee: 5, Token: 0},
			{Kind: "NextBlock"},
			{Kind: "RequestBatch", Token: 0, Which: 1, FeeRcv: 0, MinFee: 1, Auth: true},
			{Kind: "BridgeCall", Sender: 0, Refund: 1, Coins: [][2]int64{{0, 50}}, To: 2, Data: []byte{1}},
			// the restored registry: bridged tokens keep working after the import (ids collide: C05-2)
			{Kind: "Send", Sender: 1, Dest: 0, Amount: 14, Fee: 9, Token: 1},
			{Kind: "SendP", Sender: 2, Dest: 0, Amount: 15, Fee: 3, Token: 3},
			{Kind: "IncreaseFee", ID: 2, Who: 0, Add: 4, Token: 3, Which: 1},
			{Kind: "NextBlock"},
			{Kind: "RequestBatch", Token: 3, Which: 1, FeeRcv: 0, MinFee: 1, Auth: true},
			{Kind: "Observe", H: 1001},
			{Kind: "Cancel", ID: 4, Who: 1},
			{Kind: "BatchExecuted", Token: 3, Nonce: 2, H: 1002},
		}})
	}
	// (9) transfers started from the EVM through the real crossChain precompile: ERC-20 of the registered coin (outgoing
	// relation, refund as ERC-20), FX as msg.value (no relation, refund in the bank), next to message-originated ones;
	// cancel of each kind, fee increase on an EVM-originated one, execution of a batch holding one (relation deleted)
	out = append(out, script{prm: paramSets[1], float: 100000, ops: []Op{
		{Kind: "Observe", H: 1000},
		{Kind: "SendP", Sender: 0, Dest: 1, Amount: 40, Fee: 5, Token: 3},
		{Kind: "SendP", Sender: 1, Dest: 2, Amount: 30, Fee: 0, Token: 3},
		{Kind: "SendP", Sender: 2, Dest: 0, Amount: 20, Fee: 3, Token: 0},
		{Kind: "Send", Sender: 0, Dest: 1, Amount: 25, Fee: 4, Token: 3},
		{Kind: "IncreaseFee", ID: 2, Who: 2, Add: 6, Token: 3, Which: 1},
		{Kind: "Cancel", ID: 2, Who: 1},
		{Kind: "Cancel", ID: 4, Who: 0},
		{Kind: "Cancel", ID: 3, Who: 2},
		{Kind: "RequestBatch", Token: 3, Which: 1, FeeRcv: 0, MinFee: 1, Auth: true},
		{Kind: "Cancel", ID: 1, Who: 0},
		{Kind: "BatchExecuted", Token: 3, Nonce: 1, H: 1001},
		{Kind: "SendP", Sender: 0, Dest: 1, Amount: 7, Fee: 2, Token: 3},
		{Kind: "Cancel", ID: 5, Who: 1},
		{Kind: "Cancel", ID: 5, Who: 0},
	}})
	// (10) lifecycle: the module migration in the middle of a history with a live transfer, a batch whose time-out (1600) the
	// PROJECTED height (1000 + 10 blocks * 70) has passed while the OBSERVED height (1000) has not, a bridge call; afterwards
	// ids continue, the creator can cancel, the batch is still there and executable
	out = append(out, script{prm: [4]uint64{60000, 7000, 100, 3_600_001}, float: 100000, ops: []Op{
		{Kind: "Observe", H: 1000},
		{Kind: "Send", Sender: 0, Dest: 1, Amount: 10, Fee: 5, Token: 0},
		{Kind: "Send", Sender: 1, Dest: 2, Amount: 11, Fee: 6, Token: 3},
		{Kind: "RequestBatch", Token: 0, Which: 1, FeeRcv: 0, MinFee: 1, Auth: true},
		{Kind: "BridgeCall", Sender: 0, Refund: 1, Coins: [][2]int64{{0, 50}}, To: 2, Data: []byte{1}},
		{Kind: "NextBlock"}, {Kind: "NextBlock"}, {Kind: "NextBlock"}, {Kind: "NextBlock"}, {Kind: "NextBlock"},
		{Kind: "NextBlock"}, {Kind: "NextBlock"}, {Kind: "NextBlock"}, {Kind: "NextBlock"}, {Kind: "NextBlock"},
		{Kind: "Migrate"},
		{Kind: "Send", Sender: 2, Dest: 0, Amount: 12, Fee: 7, Token: 0},
		{Kind: "Cancel", ID: 2, Who: 1},
		{Kind: "RequestBatch", Token: 0, Which: 1, FeeRcv: 1, MinFee: 1, Auth: true},
		{Kind: "BridgeCall", Sender: 1, Refund: 2, Coins: [][2]int64{{0, 5}}, To: 0, Data: []byte{2}},
		{Kind: "BatchExecuted", Token: 0, Nonce: 1, H: 1001},
	}})
	// (11) C05 only (size): 101 outgoing bridge calls of 1 FX each, all timed out by ONE observed event: every one is refunded
	// once, every record is gone, and the next event refunds nothing
	if prop == "C05" {
		bulk := []Op{{Kind: "Observe", H: 1000}}
		for i := 0; i < 101; i++ {
			bulk = append(bulk, Op{Kind: "BridgeCall", Sender: i % 3, Refund: (i + 1) % 3, Coins: [][2]int64{{0, 1}}, To: 0})
		}
		bulk = append(bulk, Op{Kind: "Observe", H: 1003}, Op{Kind: "Observe", H: 1004}, Op{Kind: "Observe", H: 1005})
		out = append(out, script{prm: paramSets[2], float: 100000, ops: bulk})
	}
	// (12) uneven vote schedule: batch 1 (time-out 1600) is executed externally at 1599, the next external event is at 1601;
	// oracle 1 mis-reports the height of the execution, oracle 2 is slow: oracles 0 and 1 have already reported the second
	// event when oracle 2 completes the quorum of the first. The execution must be applied first (batch settled, transfer
	// not back in the pool, creator cannot cancel), then the later event. Same for a bridge-call result at T-1.
	out = append(out, script{prm: paramSets[1], float: 100000, ops: []Op{
		{Kind: "Observe", H: 1000},
		{Kind: "Send", Sender: 0, Dest: 1, Amount: 10, Fee: 5, Token: 0},
		{Kind: "RequestBatch", Token: 0, Which: 1, FeeRcv: 0, MinFee: 1, Auth: true},
		{Kind: "Race", Sub: []Op{{Kind: "BatchExecuted", Token: 0, Nonce: 1, H: 1599, Dissent: 1602, DissentBy: 1}, {Kind: "Observe", H: 1601}}},
		{Kind: "Cancel", ID: 1, Who: 0},
		{Kind: "BridgeCall", Sender: 0, Refund: 1, Coins: [][2]int64{{0, 50}}, To: 2, Data: []byte{1}},
		{Kind: "Observe", H: 1700},
	}})
	// (13) the result of a bridge call arrives with an event nonce different from the call nonce, is executed, and a later
	// event reaches the call's time-out: nothing may be refunded (call 1 settled by its result); an unrelated pending call
	// whose nonce equals that event nonce (call 3, event 3) must keep its record
	out = append(out, script{prm: paramSets[2], float: 100000, ops: []Op{
		{Kind: "Observe", H: 1000},
		{Kind: "BridgeCall", Sender: 0, Refund: 1, Coins: [][2]int64{{0, 50}}, To: 2, Data: []byte{1}},
		{Kind: "Observe", H: 1000},
		{Kind: "NextBlock"},
		{Kind: "BridgeCall", Sender: 1, Refund: 2, Coins: [][2]int64{{0, 20}}, To: 2, Data: []byte{2}},
		{Kind: "BridgeCall", Sender: 2, Refund: 0, Coins: [][2]int64{{0, 30}}, To: 2, Data: []byte{3}},
		{Kind: "ObserveResult", Nonce: 1, Success: true, H: 1001},
		{Kind: "ExecResult", E: 3},
		{Kind: "Observe", H: 1003},
		{Kind: "Observe", H: 1004},
	}})
	// (14) C05 only — finding C05-3: an outgoing bridge call carrying an externally owned ERC-20 (registered the production
	// way) can never be refunded: the failure result cannot be executed, and the event that reaches the time-out cannot be
	// observed at all (the time-out refund panics inside the oracles' claim), which blocks every later event of the module
	if prop == "C05" {
		out = append(out, script{prm: paramSets[2], float: 100000, ops: []Op{
			{Kind: "Observe", H: 1000},
			{Kind: "BridgeCallP", Sender: 0, Refund: 1, Coins: [][2]int64{{4, 60}}, To: 2, Data: []byte{1}},
			{Kind: "ObserveResult", Nonce: 1, Success: false, H: 1001},
			{Kind: "ExecResult", E: 2},
			{Kind: "ExecResult", E: 2, Evm: true},
			{Kind: "Send", Sender: 0, Dest: 1, Amount: 10, Fee: 5, Token: 0},
			{Kind: "Observe", H: 1003},
			{Kind: "Observe", H: 1004},
		}})
	}
	// (15) the precompile entry points with both kinds of registered ERC-20 and FX: crossChain (relation, refund as ERC-20),
	// increaseBridgeFee (paid as ERC-20 / FX value), cancelSendToExternal and executeClaim through the precompile; the fee
	// increase of the externally owned token leaves base coins locked in the erc20 module, out of which a later bridge-call
	// refund of that token can be paid
	out = append(out, script{prm: paramSets[2], float: 100000, ops: []Op{
		{Kind: "Observe", H: 1000},
		{Kind: "SendP", Sender: 0, Dest: 1, Amount: 40, Fee: 5, Token: 4},
		{Kind: "SendP", Sender: 1, Dest: 2, Amount: 30, Fee: 2, Token: 3},
		{Kind: "SendP", Sender: 2, Dest: 0, Amount: 20, Fee: 3, Token: 0},
		{Kind: "Send", Sender: 0, Dest: 1, Amount: 25, Fee: 4, Token: 3},
		{Kind: "IncreaseFeeP", ID: 1, Who: 2, Add: 100, Token: 4},
		{Kind: "IncreaseFeeP", ID: 2, Who: 0, Add: 7, Token: 3},
		{Kind: "IncreaseFeeP", ID: 3, Who: 1, Add: 6, Token: 0},
		{Kind: "IncreaseFeeP", ID: 4, Who: 1, Add: 5, Token: 3},
		{Kind: "IncreaseFee", ID: 1, Who: 1, Add: 2, Token: 4, Which: 1},
		{Kind: "Cancel", ID: 1, Who: 0, Evm: true},
		{Kind: "Cancel", ID: 3, Who: 2, Evm: true},
		{Kind: "Cancel", ID: 4, Who: 1, Evm: true},
		{Kind: "Cancel", ID: 4, Who: 0, Evm: true},
		{Kind: "BridgeCallP", Sender: 0, Refund: 1, Coins: [][2]int64{{4, 60}}, To: 2, Data: []byte{1}},
		{Kind: "ObserveResult", Nonce: 1, Success: false, H: 1001},
		{Kind: "ExecResult", E: 2, Evm: true},
		{Kind: "RequestBatch", Token: 3, Which: 1, FeeRcv: 0, MinFee: 1, Auth: true},
		{Kind: "BatchExecuted", Token: 3, Nonce: 1, H: 1002},
	}})
	// (4) more than 100 entries of one token: the batch takes the 100 best, ties by descending id
	var big []Op
	big = append(big, Op{Kind: "Observe", H: 77})
	for i := 0; i < 103; i++ {
		big = append(big, Op{Kind: "Send", Sender: i % 3, Dest: 0, Amount: 1, Fee: int64(1 + i%3), Token: 1})
	}
	big = append(big, Op{Kind: "RequestBatch", Token: 1, Which: 1, FeeRcv: 0, MinFee: 1, Auth: true},
		Op{Kind: "NextBlock"},
		Op{Kind: "RequestBatch", Token: 1, Which: 1, FeeRcv: 0, MinFee: 1, Auth: true},
		Op{Kind: "IncreaseFee", ID: 1, Who: 0, Add: 300, Token: 1, Which: 1},
		Op{Kind: "RequestBatch", Token: 1, Which: 1, FeeRcv: 0, MinFee: 1, Auth: true},
		Op{Kind: "BatchExecuted", Token: 1, Nonce: 2, H: 78},
	)
	out = append(out, script{prm: paramSets[0], float: 100000, ops: big})
	// (16) the life of transfers of two bridged tokens with fee increases offered in every registered denomination: the
	// transfer's own bridge denom (accepted), the bridge denom of ANOTHER registered token, FX, the base denom (all refused:
	// a fee is raised in the transfer's own token only), then cancel / batch / execution. Run on the hex-address module
	// and on tron (base58 contract strings), where every address comparison of the keeper sees non-hex strings.
	two := []Op{
		{Kind: "Observe", H: 1000},
		{Kind: "Send", Sender: 0, Dest: 1, Amount: 10, Fee: 5, Token: 1},
		{Kind: "Send", Sender: 1, Dest: 2, Amount: 20, Fee: 6, Token: 2},
		{Kind: "Send", Sender: 2, Dest: 0, Amount: 30, Fee: 7, Token: 3},
		{Kind: "IncreaseFee", ID: 1, Who: 0, Add: 3, Token: 1, Which: 1},
		{Kind: "IncreaseFee", ID: 1, Who: 0, Add: 4, Token: 2, Which: 1},
		{Kind: "IncreaseFee", ID: 2, Who: 2, Add: 2, Token: 1, Which: 1},
		{Kind: "IncreaseFee", ID: 2, Who: 1, Add: 2, Token: 0, Which: 1},
		{Kind: "IncreaseFee", ID: 3, Who: 2, Add: 2, Token: 4, Which: 1},
		{Kind: "IncreaseFee", ID: 1, Who: 1, Add: 2, Token: 3, Which: 1},
		{Kind: "IncreaseFee", ID: 2, Who: 1, Add: 2, Token: 2, Which: 0},
		{Kind: "IncreaseFee", ID: 2, Who: 1, Add: 1, Token: 2, Which: 1},
		{Kind: "IncreaseFeeP", ID: 3, Who: 0, Add: 2, Token: 4},
		{Kind: "IncreaseFeeP", ID: 1, Who: 0, Add: 2, Token: 3},
		{Kind: "IncreaseFeeP", ID: 3, Who: 1, Add: 2, Token: 3},
		{Kind: "Cancel", ID: 1, Who: 0},
		{Kind: "RequestBatch", Token: 2, Which: 1, FeeRcv: 0, MinFee: 1, Auth: true},
		{Kind: "Cancel", ID: 3, Who: 2},
		{Kind: "BatchExecuted", Token: 2, Nonce: 1, H: 1001},
	}
	out = append(out, script{prm: paramSets[2], float: 100000, ops: two}, script{prm: paramSets[2], float: 100000, ops: two, chain: "tron"})
	return out
}

// replay re-runs the history of a replay file (written by bin/check) on the real application and prints,
// step by step, what was accepted and what the monitor says; exit status 1 if the monitor fails again.
func replay(defaultProp string) {
	raw, err := os.ReadFile(os.Getenv("VERIF_REPLAY"))
	if err != nil {
		fmt.Println("cannot read replay file:", err)
		os.Exit(2)
	}
	var file struct {
		Replay struct {
			Prop   string    `json:"prop"`
			Seed   int64     `json:"chain_seed"`
			Chain  string    `json:"chain"`
			Float  int64     `json:"module_float"`
			Params [4]uint64 `json:"params"`
			Ops    []Op      `json:"ops"`
		} `json:"replay"`
	}
	if err := json.Unmarshal(raw, &file); err != nil {
		fmt.Println("cannot parse replay file:", err)
		os.Exit(2)
	}
	r := file.Replay
	prop := r.Prop
	if prop == "" {
		prop = defaultProp
	}
	setChain(r.Chain)
	w := NewWorld(r.Seed, r.Params, r.Float)
	mon := NewMonitor(w)
	prev := w.snapshot()
	for i, op := range r.Ops {
		for _, st := range w.steps(op) {
			ok, cur := st.Ok, st.Snap
			n := len(mon.fails)
			mon.Check(prop, st.Op, ok, prev, cur)
			fmt.Printf("%3d %-60s accepted=%v pool=%d batches=%d calls=%d ext=%d\n", i, coqOp(st.Op), ok, len(cur.Pool), len(cur.Batches), len(cur.Calls), cur.Ext)
			for _, f := range mon.fails[n:] {
				fmt.Printf("    MONITOR %s: %s\n", f.sig, f.what)
			}
			prev = cur
		}
	}
	if len(mon.fails) > 0 {
		os.Exit(1)
	}
}
