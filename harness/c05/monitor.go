package main

// monitor.go: the properties C05 and C06 written directly over the REAL observables (raw stores,
// balances), independent of the Coq model. Used for the failing-input search; a failure here is a
// failure of the implementation.

import (
	"fmt"
	"math/big"
	"sort"
)

type txInfo struct {
	tx      Tx
	place   string // "pool" | "batch:<nonce>"
	settled string // "" | "refunded" | "executed"
}

type Monitor struct {
	w        *World
	created  map[uint64]*txInfo // every transfer id ever seen
	calls    map[uint64]*callInfo
	batchTO  map[uint64]batchInfo // batch nonce -> token, timeout (every batch ever created)
	lastExec map[int]uint64       // token -> highest batch nonce executed externally (as told by the claims)
	maxH     uint64               // highest external height carried by an observed event
	imported bool                 // a genesis export/import happened in this history
	executed map[uint64]bool      // call nonce -> its (successful) result claim has been EXECUTED (ExecuteClaim accepted)
	evm      map[uint64]bool      // transfer ids created through the crossChain precompile with an ERC-20 token
	fails    []monFail
}

type callInfo struct {
	call       Call
	done       string // "" | "refunded-timeout" | "refunded-failure" | "executed"
	resultSeen int    // 0 none, 1 success observed (admissibly), 2 failure observed
}
type batchInfo struct {
	token   int
	timeout uint64
	gone    string // "" | "executed" | "cancelled"
}
type monFail struct{ sig, what string }

func NewMonitor(w *World) *Monitor {
	return &Monitor{w: w, created: map[uint64]*txInfo{}, calls: map[uint64]*callInfo{}, batchTO: map[uint64]batchInfo{}, lastExec: map[int]uint64{}, evm: map[uint64]bool{}, executed: map[uint64]bool{}}
}

func (m *Monitor) fail(sig, format string, a ...interface{}) {
	m.fails = append(m.fails, monFail{sig, fmt.Sprintf(format, a...)})
}

func sameTx(a, b Tx, ignoreFee bool) bool {
	return a.ID == b.ID && a.Sender == b.Sender && a.Dest == b.Dest && a.Token == b.Token && a.Amount.Cmp(b.Amount) == 0 && (ignoreFee || a.Fee.Cmp(b.Fee) == 0)
}

func (m *Monitor) balDelta(prev, cur Snap, acct, tok, which int) *big.Int {
	for i, k := range m.w.keys {
		if k.Acct == acct && k.Token == tok && (k.Which == which || (m.w.toks[tok].Kind == "native" && which != 2)) {
			return new(big.Int).Sub(cur.Bals[i], prev.Bals[i])
		}
	}
	return nil
}

func places(s Snap) (map[uint64][]string, map[uint64]Tx) {
	pl := map[uint64][]string{}
	txs := map[uint64]Tx{}
	for _, t := range s.Pool {
		pl[t.ID] = append(pl[t.ID], "pool")
		txs[t.ID] = t
	}
	for _, b := range s.Batches {
		for _, t := range b.Txs {
			pl[t.ID] = append(pl[t.ID], fmt.Sprintf("batch:%d", b.Nonce))
			txs[t.ID] = t
		}
	}
	return pl, txs
}

func observing(op Op) bool {
	return op.Kind == "Observe" || op.Kind == "BatchExecuted" || op.Kind == "ObserveResult"
}

// Check is called after every step with the snapshots around it.
func (m *Monitor) Check(prop string, op Op, ok bool, prev, cur Snap) {
	if op.Kind == "ExportImport" {
		m.imported = true
	}
	if m.imported {
		// everything the round trip breaks is one finding (C05-2); its consequences carry that signature
		n := len(m.fails)
		defer func() {
			for i := n; i < len(m.fails); i++ {
				m.fails[i].sig = "C05:genesis-export-import:" + m.fails[i].sig
			}
		}()
	}
	for _, p := range cur.Problems {
		m.fail(prop+":store:"+p, "%s", p)
	}
	m.common(prop, op, ok, prev, cur)
	if prop == "C05" {
		m.c05(op, ok, prev, cur)
	} else {
		m.c06(op, ok, prev, cur)
	}
	m.track(op, ok, prev, cur)
}

// identifiers: counters never go back, new records carry the counter's value
func (m *Monitor) common(prop string, op Op, ok bool, prev, cur Snap) {
	for i := 0; i < 3; i++ {
		if cur.Ctr[i] < prev.Ctr[i] {
			m.fail("C05:counter-decreased", "sequence counter %d went from %d to %d", i, prev.Ctr[i], cur.Ctr[i])
		}
	}
	// an execution the contract admits (height < timeout, nonce above the last executed one, heights in order)
	// must still find its batch: otherwise the batch's transfers were handed back (refundable) although the
	// external chain has paid them out
	if op.Kind == "BatchExecuted" && !ok && op.H > 0 {
		if bi, known := m.batchTO[op.Nonce]; known && bi.token == op.Token && op.H < bi.timeout && op.Nonce > m.lastExec[op.Token] && op.H >= m.maxH && bi.gone != "executed" {
			m.fail(prop+":batch-executed-and-released", "batch %d (timeout %d) executed externally at height %d had already been released on fxcore (its transfers went back to the pool)", op.Nonce, bi.timeout, op.H)
		}
	}
	if !ok {
		// a refused operation leaves everything as it was
		if fmt.Sprint(prev.Pool, prev.Batches, prev.Calls, prev.Ctr, prev.Ext, prev.Bals) != fmt.Sprint(cur.Pool, cur.Batches, cur.Calls, cur.Ctr, cur.Ext, cur.Bals) {
			m.fail("C05:refused-op-changed-state", "refused %s changed the outgoing state", op.Kind)
		}
	}
}

func (m *Monitor) c05(op Op, ok bool, prev, cur Snap) {
	pl, txs := places(cur)
	ppl, ptxs := places(prev)
	// exactly one place
	for id, ps := range pl {
		if len(ps) != 1 {
			m.fail("C05:two-places", "transfer %d is in %v", id, ps)
		}
		if id >= cur.Ctr[0] {
			m.fail("C05:id-beyond-counter", "transfer %d exists but the counter says next id is %d", id, cur.Ctr[0])
		}
	}
	// new ids are exactly the old counter value, created by Send with the supplied payload
	for id, t := range txs {
		if _, was := ptxs[id]; was {
			continue
		}
		if info, seen := m.created[id]; seen {
			m.fail("C05:id-reused-or-resurrected", "transfer %d (%s) is live again", id, info.settled)
			continue
		}
		if !((op.Kind == "Send" || op.Kind == "SendP") && ok && id == prev.Ctr[0] && cur.Ctr[0] == prev.Ctr[0]+1) {
			m.fail("C05:unexpected-new-transfer", "transfer %d appeared in a %s step (counter %d)", id, op.Kind, prev.Ctr[0])
			continue
		}
		if t.Sender != op.Sender || t.Dest != op.Dest || t.Token != op.Token || t.Amount.Cmp(big.NewInt(op.Amount)) != 0 || t.Fee.Cmp(big.NewInt(op.Fee)) != 0 || pl[id][0] != "pool" {
			m.fail("C05:payload-differs", "queued transfer %d is %+v, supplied %+v", id, t, op)
		}
		paidIn := 0 // base denom; a transfer started from the EVM with an ERC-20 token is paid in ERC-20
		if op.Kind == "SendP" && (m.w.toks[op.Token].Kind == "coin" || m.w.toks[op.Token].Kind == "erc") {
			paidIn = 2
			m.evm[id] = true
			if d := m.balDelta(prev, cur, op.Sender, op.Token, 0); d == nil || d.Sign() != 0 {
				m.fail("C05:send-debit", "EVM-originated send moved the sender's bank balance by %v", d)
			}
		}
		if d := m.balDelta(prev, cur, op.Sender, op.Token, paidIn); d == nil || d.Cmp(big.NewInt(-(op.Amount+op.Fee))) != 0 {
			m.fail("C05:send-debit", "send of %d+%d debited the sender by %v", op.Amount, op.Fee, d)
		}
	}
	// live transfers keep their payload; only IncreaseFee changes a fee, by exactly the added amount
	for id, t := range txs {
		p, was := ptxs[id]
		if !was {
			continue
		}
		if sameTx(p, t, false) {
			continue
		}
		inc := (op.Kind == "IncreaseFee" || op.Kind == "IncreaseFeeP") && ok && op.ID == id && sameTx(p, t, true) &&
			new(big.Int).Sub(t.Fee, p.Fee).Cmp(big.NewInt(op.Add)) == 0 && ppl[id][0] == "pool" && pl[id][0] == "pool"
		if !inc {
			m.fail("C05:payload-changed", "transfer %d changed from %+v to %+v in a %s step", id, p, t, op.Kind)
		}
	}
	if (op.Kind == "IncreaseFee" || op.Kind == "IncreaseFeeP") && ok {
		which := op.Which
		if op.Kind == "IncreaseFeeP" { // paid in the form it was offered in: FX from the bank, a token as ERC-20
			which = 0
			if kd := m.w.toks[op.Token].Kind; kd == "coin" || kd == "erc" {
				which = 2
			}
		}
		if d := m.balDelta(prev, cur, op.Who, op.Token, which); d == nil || d.Cmp(big.NewInt(-op.Add)) != 0 {
			m.fail("C05:fee-debit", "fee increase of %d debited the payer by %v", op.Add, d)
		}
		for i, k := range m.w.keys { // nobody else pays or receives, apart from the modules; the payer only in the offered form
			if k.Acct == op.Who && k.Token == op.Token && k.Which != which && m.w.toks[op.Token].Kind != "native" && prev.Bals[i].Cmp(cur.Bals[i]) != 0 {
				m.fail("C05:fee-other-balance", "fee increase changed the payer's balance %v too", k)
			}
			if k.Acct >= 0 && !(k.Acct == op.Who && k.Token == op.Token) && prev.Bals[i].Cmp(cur.Bals[i]) != 0 {
				m.fail("C05:fee-other-balance", "fee increase changed balance %v", k)
			}
		}
		// the fee is raised in the transfer's own token: what the payer gives up is what the recorded fee grows by
		if p, had := ptxs[op.ID]; had && p.Token != op.Token {
			m.fail("C05:fee-in-other-token", "fee of transfer %d (token %d) raised by %d paid in a denomination of token %d", op.ID, p.Token, op.Add, op.Token)
		}
		if _, had := ptxs[op.ID]; !had || ppl[op.ID][0] != "pool" {
			m.fail("C05:fee-on-non-pool", "fee increase accepted for transfer %d which is not in the pool", op.ID)
		}
		if len(cur.Batches) != len(prev.Batches) || len(cur.Calls) != len(prev.Calls) || len(cur.Pool) != len(prev.Pool) {
			m.fail("C05:fee-side-effect", "fee increase changed the number of records")
		}
	}
	// transfers that left: only by the creator's cancel (refund of exactly amount+fee) or an executed batch
	for id, p := range ptxs {
		if _, still := txs[id]; still {
			continue
		}
		switch {
		case op.Kind == "Cancel" && ok && op.ID == id:
			if op.Who != p.Sender {
				m.fail("C05:cancel-by-other", "transfer %d of user %d cancelled by user %d", id, p.Sender, op.Who)
			}
			if ppl[id][0] != "pool" {
				m.fail("C05:cancel-batched", "transfer %d cancelled while in %s", id, ppl[id][0])
			}
			want := new(big.Int).Add(p.Amount, p.Fee)
			refundIn := 0 // bank coins to the creator; ERC-20 tokens when the transfer was started from the EVM with an ERC-20 token
			if m.evm[id] {
				refundIn = 2
				if d := m.balDelta(prev, cur, p.Sender, p.Token, 0); d == nil || d.Sign() != 0 {
					m.fail("C05:refund-origin", "cancel of the EVM-originated transfer %d moved the creator's bank balance by %v", id, d)
				}
			} else if m.w.toks[p.Token].Kind == "coin" || m.w.toks[p.Token].Kind == "erc" {
				if d := m.balDelta(prev, cur, p.Sender, p.Token, 2); d == nil || d.Sign() != 0 {
					m.fail("C05:refund-origin", "cancel of the message-originated transfer %d moved the creator's ERC-20 balance by %v", id, d)
				}
			}
			if d := m.balDelta(prev, cur, p.Sender, p.Token, refundIn); d == nil || d.Cmp(want) != 0 {
				m.fail("C05:refund-amount", "cancel of %d refunded %v, expected %v", id, d, want)
			}
		case op.Kind == "BatchExecuted" && ok && ppl[id][0] == fmt.Sprintf("batch:%d", op.Nonce) && p.Token == op.Token:
			for i, k := range m.w.keys {
				// (a bridge call timing out in the same step may refund the same account)
				if len(prev.Calls) == len(cur.Calls) && k.Acct == p.Sender && prev.Bals[i].Cmp(cur.Bals[i]) != 0 {
					m.fail("C05:refund-at-execution", "execution of batch %d changed the balance %v of a sender", op.Nonce, k)
				}
			}
		default:
			m.fail("C05:transfer-vanished", "transfer %d (was in %s) disappeared in a %s step", id, ppl[id][0], op.Kind)
		}
	}
	if op.Kind == "Cancel" && ok {
		if _, was := ptxs[op.ID]; !was {
			m.fail("C05:cancel-of-nothing", "cancel of %d accepted but it was not live", op.ID)
		}
	}
	// a cancelled (not executed) batch hands all its transfers back to the pool
	for _, b := range prev.Batches {
		still := false
		for _, c := range cur.Batches {
			if c.Nonce == b.Nonce && c.Token == b.Token {
				still = true
				if fmt.Sprint(c) != fmt.Sprint(b) {
					m.fail("C05:batch-changed", "batch %d changed", b.Nonce)
				}
			}
		}
		if still || (op.Kind == "BatchExecuted" && ok && op.Nonce == b.Nonce && op.Token == b.Token) {
			continue
		}
		for _, t := range b.Txs {
			if len(pl[t.ID]) != 1 || pl[t.ID][0] != "pool" || !sameTx(t, txs[t.ID], false) {
				m.fail("C05:batch-cancel-loses", "batch %d was cancelled but transfer %d is now %v", b.Nonce, t.ID, pl[t.ID])
			}
		}
	}
	// bridge calls: nonce fresh, payload as supplied, removal only by result / time-out, refund exact
	cc := map[uint64]Call{}
	for _, c := range cur.Calls {
		if _, dup := cc[c.Nonce]; dup {
			m.fail("C05:call-dup", "bridge call nonce %d stored twice", c.Nonce)
		}
		cc[c.Nonce] = c
	}
	pc := map[uint64]Call{}
	for _, c := range prev.Calls {
		pc[c.Nonce] = c
	}
	for n, c := range cc {
		if p, was := pc[n]; was {
			if fmt.Sprint(p) != fmt.Sprint(c) {
				m.fail("C05:call-changed", "bridge call %d changed", n)
			}
			continue
		}
		if _, seen := m.calls[n]; seen {
			m.fail("C05:call-resurrected", "bridge call %d is live again", n)
			continue
		}
		if !((op.Kind == "BridgeCall" || op.Kind == "BridgeCallP") && ok && n == prev.Ctr[2] && cur.Ctr[2] == n+1) {
			m.fail("C05:unexpected-new-call", "bridge call %d appeared in a %s step", n, op.Kind)
			continue
		}
		supplied := op.Coins
		if op.Kind == "BridgeCallP" && op.Amount > 0 { // msg.value travels as the first token (FX)
			supplied = append([][2]int64{{0, op.Amount}}, op.Coins...)
		}
		good := c.Sender == op.Sender && c.Refund == op.Refund && c.To == op.To && string(c.Data) == string(op.Data) && string(c.Memo) == string(op.Memo) && len(c.Tokens) == len(supplied)
		for i := range supplied {
			if good && (c.Tokens[i][0].Int64() != supplied[i][0] || c.Tokens[i][1].Cmp(big.NewInt(supplied[i][1])) != 0) {
				good = false
			}
		}
		if !good {
			m.fail("C05:call-payload-differs", "queued bridge call %d is %+v, supplied %+v", n, c, op)
		}
		marked := false
		for _, x := range cur.FromMsg {
			if x == n {
				marked = true
			}
		}
		if marked != (op.Kind == "BridgeCall") {
			m.fail("C05:call-origin-marker", "bridge call %d created by %s has from-msg marker = %v", n, op.Kind, marked)
		}
	}
	for n, p := range pc {
		if _, still := cc[n]; still {
			continue
		}
		refunded := false
		for _, e := range cur.Events {
			if e[0] == 3 && int(e[1]) == p.Refund {
				refunded = true
			}
		}
		byResult := op.Kind == "ExecResult" && ok
		byTimeout := observing(op) && ok
		if !byResult && !byTimeout {
			m.fail("C05:call-vanished", "bridge call %d disappeared in a %s step", n, op.Kind)
			continue
		}
		_ = byTimeout
		if info := m.calls[n]; info != nil && info.resultSeen == 1 && refunded && byTimeout {
			m.fail("C05:bridgecall:refund-after-observed-success", "bridge call %d was refunded although its successful execution had been observed", n)
		}
	}
	m.refundsExact(op, ok, prev, cur, pc, cc)
	// a refund that is due must be payable: executing the parked FAILURE result of a live call has to succeed
	if op.Kind == "ExecResult" && !ok {
		for _, pd := range prev.Pending {
			if c, live := pc[pd.Nonce]; pd.E == op.E && live && !pd.Ok {
				m.fail("C05:bridgecall:refund-cannot-be-paid", "the failure result of bridge call %d (tokens %v) cannot be executed: its refund can never be paid", pd.Nonce, c.Tokens)
			}
		}
	}
	// ... and an event whose height has reached the time-out of a live call must be observable (the time-out refund runs inside it)
	if observing(op) && !ok && op.H > 0 && !m.w.stuckBefore {
		for _, c := range prev.Calls {
			if c.Timeout <= op.H && !(op.Kind == "BatchExecuted") {
				m.fail("C05:bridgecall:refund-cannot-be-paid", "the event at height %d cannot be observed: the time-out refund of bridge call %d (timeout %d, tokens %v) fails inside it, which blocks every later event of the module", op.H, c.Nonce, c.Timeout, c.Tokens)
				break
			}
		}
	}
	// the erc20 outgoing relation exists exactly for the live transfers that were started from the EVM with an ERC-20 token
	rel := map[uint64]bool{}
	for _, id := range cur.Relation {
		rel[id] = true
		if _, live := txs[id]; !live {
			m.fail("C05:relation-of-settled-transfer", "outgoing relation of transfer %d exists although the transfer is not live", id)
		}
	}
	for id := range txs {
		if rel[id] != m.evm[id] {
			m.fail("C05:relation-origin", "transfer %d: started from the EVM with an ERC-20 token = %v, outgoing relation present = %v", id, m.evm[id], rel[id])
		}
	}
}

// refundsExact: in a step that only settles bridge calls (an observed event or ExecuteClaim of a result) the user
// balances move by exactly the refunds due: every refunded call pays each of its token amounts to ITS REFUND ADDRESS —
// in the bank when the call was created by MsgBridgeCall (FX; bridge denom of a plain token; base denom of a registered
// coin), as ERC-20 tokens when it was created by the precompile (registered coin; FX stays in the bank) — and nobody
// else (in particular not the call's sender) receives anything.
func (m *Monitor) refundsExact(op Op, ok bool, prev, cur Snap, pc, cc map[uint64]Call) {
	if !ok || !(observing(op) || op.Kind == "ExecResult") {
		return
	}
	fromMsg := map[uint64]bool{}
	for _, n := range prev.FromMsg {
		fromMsg[n] = true
	}
	want := map[acctKey]*big.Int{}
	var nonces []uint64
	for n := range pc {
		nonces = append(nonces, n)
	}
	sort.Slice(nonces, func(i, j int) bool { return nonces[i] < nonces[j] })
	for _, n := range nonces {
		p := pc[n]
		if _, still := cc[n]; still {
			continue
		}
		if op.Kind == "ExecResult" {
			success := false
			for _, pd := range prev.Pending {
				if pd.E == op.E && pd.Nonce == n {
					success = pd.Ok
				}
			}
			if success {
				continue // executed externally: no refund
			}
		}
		for _, t := range p.Tokens {
			tok := int(t[0].Int64())
			which := 0
			switch m.w.toks[tok].Kind {
			case "ext":
				which = 1
			case "coin", "erc":
				if !fromMsg[n] {
					which = 2
				}
			}
			k := acctKey{p.Refund, tok, which}
			if want[k] == nil {
				want[k] = new(big.Int)
			}
			want[k].Add(want[k], t[1])
		}
	}
	for i, k := range m.w.keys {
		if k.Acct < 0 {
			continue
		}
		d := new(big.Int).Sub(cur.Bals[i], prev.Bals[i])
		exp := want[k]
		if exp == nil {
			exp = new(big.Int)
		}
		if d.Cmp(exp) != 0 {
			m.fail("C05:call-refund-destination", "settling bridge calls in a %s step: balance (user %d, token %d, %s) moved by %v, the refunds due to that account are %v",
				op.Kind, k.Acct, k.Token, []string{"base denom", "bridge denom", "ERC-20"}[k.Which], d, exp)
		}
	}
}

func (m *Monitor) c06(op Op, ok bool, prev, cur Snap) {
	if op.Kind == "ExecResult" && ok {
		if n, found := pendingCall(prev, op.E); found {
			for _, c := range cur.Calls {
				if c.Nonce == n {
					m.fail("C06:bridgecall:result-executed-but-call-still-pending", "the result of bridge call %d (event nonce %d) was executed but the call is still stored: it will be refunded by its time-out although it is settled", n, op.E)
				}
			}
		}
	}
	if op.Part != 0 && !ok {
		m.fail("C06:event-not-applied-in-order", "external event %d of 2 consecutive ones (%s at height %d) was not applied when its quorum completed: a later event was observed first", op.Part, op.Kind, op.H)
	}
	// the observed external height only ever takes the height carried by the observed event
	if cur.Ext != prev.Ext || cur.Fx != prev.Fx {
		if !(observing(op) && ok && cur.Ext == op.H && cur.Fx == uint64(prev.FxHeight)) {
			m.fail("C06:height-not-from-claim", "observed height went %d->%d in a %s step carrying %d", prev.Ext, cur.Ext, op.Kind, op.H)
		}
	}
	if observing(op) && ok && cur.Ext != op.H {
		if op.Dissent != 0 && cur.Ext == op.Dissent {
			m.fail("C06:height-from-single-oracle", "two of three oracles reported the event at height %d, one at %d: the stored observed height is %d", op.H, op.Dissent, cur.Ext)
		} else {
			m.fail("C06:height-not-from-claim", "event at %d observed but the stored height is %d", op.H, cur.Ext)
		}
	}
	// nothing batched / queued for execution before an external height was observed
	if cur.Ext == 0 && (len(cur.Batches) > 0 || len(cur.Calls) > 0) {
		m.fail("C06:batch-before-observation", "%d batches / %d bridge calls exist although no external height was ever observed", len(cur.Batches), len(cur.Calls))
	}
	// cancellation of a batch: only in an observing step; superseded by an executed newer batch, or timed out
	for _, b := range prev.Batches {
		still := false
		for _, c := range cur.Batches {
			if c.Nonce == b.Nonce && c.Token == b.Token {
				still = true
			}
		}
		if still {
			continue
		}
		if !(observing(op) && ok) {
			m.fail("C06:batch-released-without-event", "batch %d left the store in a %s step", b.Nonce, op.Kind)
			continue
		}
		if op.Kind == "BatchExecuted" && op.Token == b.Token && op.Nonce >= b.Nonce {
			continue // executed, or superseded by the execution of a newer batch of the token
		}
		if !(b.Timeout <= op.H) { // "has reached its timeout height"; the keeper is stricter (<), which is fine
			m.fail("C06:batch-timeout-early", "batch %d (timeout %d) was cancelled on an event at height %d", b.Nonce, b.Timeout, op.H)
		}
	}
	// time-out refund of a bridge call: only in an observing step whose height reached the timeout
	for _, p := range prev.Calls {
		still := false
		for _, c := range cur.Calls {
			if c.Nonce == p.Nonce {
				still = true
			}
		}
		if still {
			continue
		}
		if op.Kind == "ExecResult" && ok {
			if named, found := pendingCall(prev, op.E); !found || named != p.Nonce {
				m.fail("C06:call-released-by-unrelated-result", "executing the result claim with event nonce %d (for bridge call %d) removed bridge call %d", op.E, named, p.Nonce)
			}
			continue
		}
		if !(observing(op) && ok) {
			m.fail("C06:call-released-without-event", "bridge call %d left the store in a %s step", p.Nonce, op.Kind)
			continue
		}
		if m.executed[p.Nonce] {
			m.fail("C06:bridgecall:refund-after-executed-result", "bridge call %d (timeout %d) was refunded at observed height %d although its successful result had been observed AND executed on fxcore: executed externally and refunded", p.Nonce, p.Timeout, op.H)
			continue
		}
		if !(p.Timeout <= op.H) {
			m.fail("C06:call-timeout-early", "bridge call %d (timeout %d) was refunded on an event at height %d", p.Nonce, p.Timeout, op.H)
		}
		if info := m.calls[p.Nonce]; info != nil && info.resultSeen == 1 {
			m.fail("C06:bridgecall:refund-after-observed-success", "bridge call %d (timeout %d) refunded at observed height %d although its successful external execution (height < timeout) had already been observed and parked", p.Nonce, p.Timeout, op.H)
		}
	}
}

func pendingCall(s Snap, e uint64) (uint64, bool) {
	for _, p := range s.Pending {
		if p.E == e {
			return p.Nonce, true
		}
	}
	return 0, false
}

// bookkeeping shared by both monitors
func (m *Monitor) track(op Op, ok bool, prev, cur Snap) {
	pl, txs := places(cur)
	for id, t := range txs {
		if _, seen := m.created[id]; !seen {
			m.created[id] = &txInfo{tx: t}
		}
		m.created[id].place = pl[id][0]
	}
	_, ptxs := places(prev)
	for id := range ptxs {
		if _, still := txs[id]; !still {
			if op.Kind == "Cancel" {
				m.created[id].settled = "refunded"
			} else {
				m.created[id].settled = "executed"
			}
		}
	}
	for _, b := range cur.Batches {
		if _, seen := m.batchTO[b.Nonce]; !seen {
			m.batchTO[b.Nonce] = batchInfo{token: b.Token, timeout: b.Timeout}
		}
	}
	for _, b := range prev.Batches {
		still := false
		for _, c := range cur.Batches {
			if c.Nonce == b.Nonce {
				still = true
			}
		}
		if !still {
			bi := m.batchTO[b.Nonce]
			bi.gone = "cancelled"
			if op.Kind == "BatchExecuted" && op.Nonce == b.Nonce && op.Token == b.Token {
				bi.gone = "executed"
			}
			m.batchTO[b.Nonce] = bi
		}
	}
	for _, c := range cur.Calls {
		if _, seen := m.calls[c.Nonce]; !seen {
			m.calls[c.Nonce] = &callInfo{call: c}
		}
	}
	if op.Kind == "ExecResult" && ok {
		for _, p := range prev.Pending {
			if p.E == op.E && p.Ok {
				m.executed[p.Nonce] = true
			}
		}
	}
	if op.Kind == "ObserveResult" && ok {
		if info := m.calls[op.Nonce]; info != nil && info.resultSeen == 0 {
			// what the contract admits: executed below the timeout, events in height order
			if op.H < info.call.Timeout && op.H >= m.maxH {
				if op.Success {
					info.resultSeen = 1
				} else {
					info.resultSeen = 2
				}
			}
		}
	}
	if observing(op) && ok {
		if op.Kind == "BatchExecuted" && op.Nonce > m.lastExec[op.Token] {
			m.lastExec[op.Token] = op.Nonce
		}
		if op.H > m.maxH {
			m.maxH = op.H
		}
	}
}
