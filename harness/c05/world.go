package main

// world.go: one history = one fresh real application with three bonded oracles on the history's chain module
// (chainName: "eth" or "tron"), three
// registered bridge tokens (FX and two plain bridge tokens, set up the way the repository's own
// keeper tests do), three users and three external addresses. apply() performs one operation
// through the real MsgServer / real oracle claims; snapshot() reads the raw stores.

import (
	"encoding/binary"
	"encoding/hex"
	"fmt"
	"math/big"
	"sort"
	"strings"

	sdkmath "cosmossdk.io/math"
	sdk "github.com/cosmos/cosmos-sdk/types"
	authtypes "github.com/cosmos/cosmos-sdk/x/auth/types"
	banktypes "github.com/cosmos/cosmos-sdk/x/bank/types"
	"github.com/ethereum/go-ethereum/common"

	"github.com/functionx/fx-core/v8/contract"
	fxtypes "github.com/functionx/fx-core/v8/types"
	crosschainkeeper "github.com/functionx/fx-core/v8/x/crosschain/keeper"
	crosschainprecompile "github.com/functionx/fx-core/v8/x/crosschain/precompile"
	crosschaintypes "github.com/functionx/fx-core/v8/x/crosschain/types"
	erc20types "github.com/functionx/fx-core/v8/x/erc20/types"

	"fxverif/lib"
)

// chainName: the crosschain module the current history runs on. "eth" stands for every module with hex addresses;
// "tron" is the one module whose contract / external addresses are base58check strings ('T…', x/tron/types).
// Histories run one after the other; runHistory / replay set it before building the world.
var chainName = "eth"

func setChain(name string) {
	if name == "" {
		name = "eth"
	}
	chainName = name
}

// cx: the 20-byte address given in hex, in the address format of the current chain module. Base58check keeps the
// order of the underlying bytes for strings of equal length, so token indexes stay ordered like the contract strings.
func cx(h string) string {
	if chainName == "tron" {
		return crosschaintypes.ExternalAddrToStr(chainName, common.HexToAddress(h).Bytes())
	}
	return h
}

type Op struct {
	Kind      string     `json:"op"`
	Sender    int        `json:"sender,omitempty"`
	Dest      int        `json:"dest,omitempty"`
	Amount    int64      `json:"amount,omitempty"`
	Fee       int64      `json:"fee,omitempty"`
	Token     int        `json:"token,omitempty"`
	Which     int        `json:"which,omitempty"`
	ID        uint64     `json:"id,omitempty"`
	Who       int        `json:"who,omitempty"`
	Add       int64      `json:"add,omitempty"`
	FeeRcv    int        `json:"fee_receiver,omitempty"`
	BaseFee   int64      `json:"base_fee,omitempty"`
	MinFee    int64      `json:"min_fee,omitempty"`
	Auth      bool       `json:"auth,omitempty"`
	Nonce     uint64     `json:"nonce,omitempty"`
	H         uint64     `json:"h,omitempty"`
	Dissent   uint64     `json:"dissent_height,omitempty"` // one oracle (DissentBy) reports the same event with this height instead of H
	DissentBy int        `json:"dissent_by,omitempty"`
	Sub       []Op       `json:"race,omitempty"`           // Kind "Race": two consecutive external events with a divergent and a slow oracle
	Evm       bool       `json:"via_precompile,omitempty"` // Cancel / ExecResult: through the cancelSendToExternal / executeClaim precompile
	Part      int        `json:"race_part,omitempty"`      // 1, 2: this operation is the first / second event of a Race
	Success   bool       `json:"success,omitempty"`
	Refund    int        `json:"refund,omitempty"`
	Coins     [][2]int64 `json:"coins,omitempty"`
	To        int        `json:"to,omitempty"`
	Data      []byte     `json:"data,omitempty"`
	Memo      []byte     `json:"memo,omitempty"`
	E         uint64     `json:"event_nonce,omitempty"`
	Params    [4]uint64  `json:"params,omitempty"` // batch timeout, avg block, avg ext block, bridge call timeout
}

type Tx struct {
	ID                  uint64
	Sender, Dest, Token int
	Amount, Fee         *big.Int
}
type Batch struct {
	Nonce, Timeout, Block uint64
	Token, FeeRcv         int
	Txs                   []Tx
}
type Call struct {
	Nonce, Timeout, Block, EvNonce uint64
	Sender, Refund, To             int
	Tokens                         [][2]*big.Int // token idx, amount
	Data, Memo                     []byte
}
type Pend struct {
	E, Nonce uint64
	Ok       bool
}
type Snap struct {
	Pool     []Tx
	Batches  []Batch
	ByBlock  [][3]uint64 // block, token, nonce
	Ctr      [3]uint64
	Calls    []Call
	BySender [][2]uint64 // sender idx, nonce
	FromMsg  []uint64
	Pending  []Pend
	Evn      uint64
	Ext, Fx  uint64
	Bals     []*big.Int
	Events   [][2]int64
	Relation []uint64 // transfer ids with an erc20 outgoing relation for this module, descending
	FxHeight int64
	Problems []string // store-level inconsistencies seen while decoding (monitor input)
}

type tokenInfo struct {
	Kind     string // "native" | "ext" | "none"
	Base     string
	Bridge   string
	Contract string
}

type acctKey struct{ Acct, Token, Which int }

type World struct {
	c                                           *lib.Chain
	x                                           *lib.XChain
	users                                       []lib.Key
	exts                                        []string
	toks                                        []tokenInfo
	keys                                        []acctKey
	nextEv                                      uint64
	coinErc20                                   common.Address
	erc20Of                                     map[int]common.Address // ERC-20 contract of tokens 3 and 4
	stuckBefore                                 bool                   // value of stuck before the current operation
	stuck                                       bool                   // the event stream can no longer advance (an observed claim panicked)
	params0                                     [4]uint64
	h0                                          int64
	bal0                                        []*big.Int
	userByAcc, userByHex, extIdx, tokByContract map[string]int
}

var contracts = []string{
	"0x1111111111111111111111111111111111111111",
	"0x2222222222222222222222222222222222222222",
	"0x3333333333333333333333333333333333333333",
}
var extAddrs = []string{
	"0x4444444444444444444444444444444444444444",
	"0x5555555555555555555555555555555555555555",
	"0x6666666666666666666666666666666666666666",
}

const moduleAcct = -1
const erc20Acct = -2
const coinContract = "0x8888888888888888888888888888888888888888"
const ercContract = "0x9999999999999999999999999999999999999999"

func NewWorld(seed int64, prm [4]uint64, moduleFloat int64) *World {
	c := lib.NewChain(seed, 1, nil)
	x := c.X(chainName)
	x.SetupOracles([]int64{10000, 10000, 10000})
	lib.Must(c.NextBlock())
	w := &World{c: c, x: x, nextEv: 1, userByAcc: map[string]int{}, userByHex: map[string]int{}, extIdx: map[string]int{}, tokByContract: map[string]int{}}
	ctx := c.Ctx
	k := x.Keeper

	p := k.GetParams(ctx)
	p.ExternalBatchTimeout, p.AverageBlockTime, p.AverageExternalBlockTime, p.BridgeCallTimeout = prm[0], prm[1], prm[2], prm[3]
	lib.Must(k.SetParams(ctx, &p))
	w.params0 = prm

	// token 0: FX; tokens 1,2: plain bridge tokens as in keeper_v1_test.go AddRandomBaseToken(false); token 3: registered coin; token 4: externally owned ERC-20 registered through RegisterNativeERC20; token 5: not registered
	w.toks = []tokenInfo{
		{Kind: "native", Base: fxtypes.DefaultDenom, Bridge: fxtypes.DefaultDenom, Contract: cx(contracts[0])},
		{Kind: "ext", Base: "usda", Bridge: crosschaintypes.NewBridgeDenom(chainName, cx(contracts[1])), Contract: cx(contracts[1])},
		{Kind: "ext", Base: "usdb", Bridge: crosschaintypes.NewBridgeDenom(chainName, cx(contracts[2])), Contract: cx(contracts[2])},
		{Kind: "coin", Base: "usdc", Bridge: crosschaintypes.NewBridgeDenom(chainName, cx(coinContract)), Contract: cx(coinContract)},
		{Kind: "erc", Base: "usdd", Bridge: crosschaintypes.NewBridgeDenom(chainName, cx(ercContract)), Contract: cx(ercContract)},
		{Kind: "none", Base: "zzz", Bridge: crosschaintypes.NewBridgeDenom(chainName, cx("0x7777777777777777777777777777777777777777")), Contract: cx("0x7777777777777777777777777777777777777777")},
	}
	// token 3: a coin registered in x/erc20 (module-owned ERC-20, bridge denom as alias), the set-up the repository's
	// bridge-call refund tests use; the only kind whose precompile-originated refund (ERC-20) works end to end
	lib.Must(k.AddBridgeTokenExecuted(ctx, &crosschaintypes.MsgBridgeTokenClaim{TokenContract: w.toks[3].Contract, Name: "USD Coin", Symbol: "USDC", Decimals: 18, ChainName: chainName}))
	_, rerr := c.App.Erc20Keeper.RegisterCoin(ctx, &erc20types.MsgRegisterCoin{Authority: lib.GovAuthority(), Metadata: banktypes.Metadata{
		Description: "registered coin", DenomUnits: []*banktypes.DenomUnit{{Denom: "usdc", Exponent: 0, Aliases: []string{w.toks[3].Bridge}}, {Denom: "USDC", Exponent: 18}},
		Base: "usdc", Display: "USDC", Name: "USD Coin", Symbol: "USDC"}})
	lib.Must(rerr)
	pair, _ := c.App.Erc20Keeper.GetTokenPair(ctx, "usdc")
	w.coinErc20 = pair.GetERC20Contract()
	// token 4: an ERC-20 deployed and owned by a user, registered the production way (MsgRegisterERC20 -> RegisterNativeERC20)
	// with the bridge denom as alias
	tokOwner := lib.EthKey(seed, "c05tokowner", 0)
	c.Mint(tokOwner.Acc(), lib.FX(10))
	ercAddr, derr := c.DeployFIP20(tokOwner, "USD Digital", "USDD")
	lib.Must(derr)
	lib.Must(k.AddBridgeTokenExecuted(ctx, &crosschaintypes.MsgBridgeTokenClaim{TokenContract: w.toks[4].Contract, Name: "USD Digital", Symbol: "USDD", Decimals: 18, ChainName: chainName}))
	_, nerr := c.App.Erc20Keeper.RegisterNativeERC20(ctx, ercAddr, w.toks[4].Bridge)
	lib.Must(nerr)
	w.erc20Of = map[int]common.Address{3: w.coinErc20, 4: ercAddr}
	lib.Must(k.AddBridgeTokenExecuted(ctx, &crosschaintypes.MsgBridgeTokenClaim{TokenContract: w.toks[0].Contract, Name: "Function X", Symbol: fxtypes.DefaultDenom, Decimals: 18, ChainName: chainName}))
	erc20Mod := common.BytesToAddress(authtypes.NewModuleAddress(erc20types.ModuleName).Bytes())
	for i := 1; i <= 2; i++ {
		t := w.toks[i]
		lib.Must(k.SetToken(ctx, "Test Token "+t.Base, t.Base, 18, t.Bridge))
		lib.Must(k.AddBridgeTokenExecuted(ctx, &crosschaintypes.MsgBridgeTokenClaim{TokenContract: t.Contract, Name: "Test Token", Symbol: t.Bridge, Decimals: 18, ChainName: chainName}))
		addr, err := c.App.Erc20Keeper.DeployUpgradableToken(ctx, erc20Mod, "Test Token", strings.ToUpper(t.Base), 18)
		lib.Must(err)
		c.App.Erc20Keeper.AddTokenPair(ctx, erc20types.TokenPair{Erc20Address: addr.String(), Denom: t.Base, Enabled: true, ContractOwner: erc20types.OWNER_EXTERNAL})
	}
	for i, t := range w.toks {
		w.tokByContract[t.Contract] = i
	}
	for i := 0; i < 3; i++ {
		u := lib.EthKey(seed, "c05user", i)
		w.users = append(w.users, u)
		w.userByAcc[u.Acc().String()] = i
		w.userByHex[crosschaintypes.ExternalAddrToStr(chainName, u.Acc().Bytes())] = i
		c.Mint(u.Acc(), sdk.NewCoin(fxtypes.DefaultDenom, sdkmath.NewInt(5000)))
		for t := 1; t <= 2; t++ {
			c.Mint(u.Acc(), sdk.NewCoin(w.toks[t].Base, sdkmath.NewInt(5000)), sdk.NewCoin(w.toks[t].Bridge, sdkmath.NewInt(300)))
		}
		c.Mint(u.Acc(), sdk.NewCoin("zzz", sdkmath.NewInt(1000)))
		c.Mint(u.Acc(), sdk.NewCoin("usdc", sdkmath.NewInt(5000)), sdk.NewCoin(w.toks[3].Bridge, sdkmath.NewInt(300)))
		_, cerr := c.App.Erc20Keeper.ConvertCoin(ctx, &erc20types.MsgConvertCoin{Coin: sdk.NewCoin("usdc", sdkmath.NewInt(1000)), Receiver: u.Hex().String(), Sender: u.Acc().String()})
		lib.Must(cerr)
		// the crossChain precompile pulls ERC-20 tokens with transferFrom: standing approval
		approve, aerr := contract.GetFIP20().ABI.Pack("approve", lib.CrosschainPrecompile, new(big.Int).Lsh(big.NewInt(1), 200))
		lib.Must(aerr)
		c.Mint(u.Acc(), sdk.NewCoin(w.toks[4].Bridge, sdkmath.NewInt(300)))
		lib.Must(c.ERC20OwnerMint(ctx, ercAddr, tokOwner, u.Hex(), big.NewInt(1000)))
		for _, tk := range []common.Address{w.coinErc20, ercAddr} {
			tk := tk
			if r := c.EvmCall(ctx, u.Hex(), &tk, nil, 500_000, approve); r.Err != nil || r.Failed {
				panic(fmt.Sprintf("approve failed: %v %s", r.Err, r.VmError))
			}
		}
	}
	if moduleFloat > 0 {
		for t := 1; t <= 4; t++ {
			lib.Must(c.App.BankKeeper.MintCoins(ctx, chainName, sdk.NewCoins(sdk.NewCoin(w.toks[t].Bridge, sdkmath.NewInt(moduleFloat)))))
		}
	}
	for i, e := range extAddrs {
		w.exts = append(w.exts, cx(e))
		w.extIdx[cx(e)] = i
	}
	for a := -2; a < 3; a++ {
		w.keys = append(w.keys, acctKey{a, 0, 0})
		for t := 1; t <= 2; t++ {
			w.keys = append(w.keys, acctKey{a, t, 0}, acctKey{a, t, 1})
		}
		w.keys = append(w.keys, acctKey{a, 3, 0}, acctKey{a, 3, 1}, acctKey{a, 3, 2}, acctKey{a, 4, 0}, acctKey{a, 4, 1}, acctKey{a, 4, 2})
	}
	w.h0 = c.Ctx.BlockHeight()
	w.bal0 = w.balances()
	return w
}

func (w *World) acc(a int) sdk.AccAddress {
	if a == moduleAcct {
		return authtypes.NewModuleAddress(chainName)
	}
	if a == erc20Acct {
		return authtypes.NewModuleAddress(erc20types.ModuleName)
	}
	return w.users[a].Acc()
}

func (w *World) denom(t, which int) string {
	if which == 1 {
		return w.toks[t].Bridge
	}
	return w.toks[t].Base
}

func (w *World) balances() []*big.Int {
	var out []*big.Int
	for _, k := range w.keys {
		if k.Which == 2 { // ERC-20 balance of the registered coin
			b, err := w.c.App.EvmKeeper.ERC20BalanceOf(w.c.Ctx, w.erc20Of[k.Token], common.BytesToAddress(w.acc(k.Acct)))
			lib.Must(err)
			out = append(out, b)
			continue
		}
		out = append(out, w.c.App.BankKeeper.GetBalance(w.c.Ctx, w.acc(k.Acct), w.denom(k.Token, k.Which)).Amount.BigInt())
	}
	return out
}

// ---------- operations on the real application ----------

func (w *World) tryMsg(f func(ctx sdk.Context) error) bool {
	return w.c.Try(f) == nil
}

// observeClaim lets every oracle vote for the event; oracle op.DissentBy reports it with the height op.Dissent
// (if non-zero) instead of op.H, the other two agree on op.H. Returns whether the event became observed.
func (w *World) observeClaim(op Op, mk func(nonce, height uint64) crosschaintypes.ExternalClaim) bool {
	if w.stuck {
		return false
	}
	// ValidateBasic is what the ante handler runs; an invalid claim never reaches the keeper
	type vb interface{ ValidateBasic() error }
	filled := mk(w.nextEv, op.H)
	fillForValidation(filled, w.x.Oracles[0].Bridger.Acc().String())
	if err := filled.(vb).ValidateBasic(); err != nil {
		return false
	}
	before := w.x.Keeper.GetLastObservedEventNonce(w.c.Ctx)
	for i, o := range w.x.Oracles {
		h := op.H
		if op.Dissent != 0 && i == op.DissentBy%len(w.x.Oracles) {
			h = op.Dissent
		}
		_ = w.x.Claim(o, mk(w.nextEv, h))
	}
	after := w.x.Keeper.GetLastObservedEventNonce(w.c.Ctx)
	if after == before+1 && after == w.nextEv {
		w.nextEv++
		return true
	}
	// the observing vote panicked: no oracle can get past this event nonce any more
	w.stuck = true
	return false
}

// mkClaim: the external event an observing operation stands for, as the claim an oracle submits for it
func (w *World) mkClaim(op Op) func(n, h uint64) crosschaintypes.ExternalClaim {
	switch op.Kind {
	case "BatchExecuted":
		return func(n, h uint64) crosschaintypes.ExternalClaim {
			return &crosschaintypes.MsgSendToExternalClaim{EventNonce: n, BlockHeight: h, BatchNonce: op.Nonce, TokenContract: w.toks[op.Token].Contract}
		}
	case "ObserveResult":
		return func(n, h uint64) crosschaintypes.ExternalClaim {
			return &crosschaintypes.MsgBridgeCallResultClaim{EventNonce: n, BlockHeight: h, Nonce: op.Nonce, TxOrigin: w.exts[1], Success: op.Success}
		}
	}
	return func(n, h uint64) crosschaintypes.ExternalClaim {
		return &crosschaintypes.MsgSendToFxClaim{EventNonce: n, BlockHeight: h, TokenContract: w.toks[0].Contract, Amount: sdkmath.NewInt(1),
			Sender: w.exts[0], Receiver: lib.EthKey(w.c.Seed, "c05sink", 0).Acc().String()}
	}
}

type subStep struct {
	Op   Op
	Ok   bool
	Snap Snap
}

// steps performs one generated operation; a Race yields two model steps
func (w *World) steps(op Op) []subStep {
	if op.Kind == "Race" && len(op.Sub) == 2 {
		return w.race(op.Sub[0], op.Sub[1])
	}
	ok, s := w.step(op)
	return []subStep{{op, ok, s}}
}

// race: two consecutive external events a (nonce n) and b (nonce n+1) reported by three oracles with an uneven
// schedule: oracle 0 reports a; oracle 1 reports a with ANOTHER height (a divergent report: a different attestation);
// oracles 0 and 1 go on and report b; only then the slow oracle 2 reports a, and finally b. Events must take effect
// in nonce order: a when oracle 2's report completes its quorum (oracles 0+2), b afterwards. Model: step a, then step b.
func (w *World) race(a, b Op) []subStep {
	a.Part, b.Part = 1, 2
	n := w.nextEv
	O := w.x.Oracles
	mkA, mkB := w.mkClaim(a), w.mkClaim(b)
	div := a.Dissent
	if div == 0 || div == a.H {
		div = a.H + 1
	}
	w.c.Ctx = w.c.Ctx.WithEventManager(sdk.NewEventManager())
	_ = w.x.Claim(O[0], mkA(n, a.H))
	_ = w.x.Claim(O[1], mkA(n, div))
	_ = w.x.Claim(O[0], mkB(n+1, b.H))
	_ = w.x.Claim(O[1], mkB(n+1, b.H))
	_ = w.x.Claim(O[2], mkA(n, a.H))
	okA := w.x.Keeper.GetLastObservedEventNonce(w.c.Ctx) == n
	sA := w.snapshot()
	sA.Events = w.events()
	w.c.Ctx = w.c.Ctx.WithEventManager(sdk.NewEventManager())
	_ = w.x.Claim(O[2], mkB(n+1, b.H))
	okB := okA && w.x.Keeper.GetLastObservedEventNonce(w.c.Ctx) == n+1
	sB := w.snapshot()
	sB.Events = w.events()
	if okB {
		w.nextEv = n + 2
	} else {
		w.stuck = true
	}
	return []subStep{{a, okA, sA}, {b, okB, sB}}
}

func fillForValidation(c crosschaintypes.ExternalClaim, bridger string) {
	switch m := c.(type) {
	case *crosschaintypes.MsgSendToFxClaim:
		m.BridgerAddress, m.ChainName = bridger, chainName
	case *crosschaintypes.MsgSendToExternalClaim:
		m.BridgerAddress, m.ChainName = bridger, chainName
	case *crosschaintypes.MsgBridgeCallResultClaim:
		m.BridgerAddress, m.ChainName = bridger, chainName
	}
}

func (w *World) apply(op Op) (accepted bool) {
	ms := w.x.Msg()
	switch op.Kind {
	case "Send":
		d := w.toks[op.Token].Base
		m := &crosschaintypes.MsgSendToExternal{Sender: w.users[op.Sender].Acc().String(), Dest: w.exts[op.Dest],
			Amount: sdk.Coin{Denom: d, Amount: sdkmath.NewInt(op.Amount)}, BridgeFee: sdk.Coin{Denom: d, Amount: sdkmath.NewInt(op.Fee)}, ChainName: chainName}
		return w.tryMsg(func(ctx sdk.Context) error {
			if err := m.ValidateBasic(); err != nil {
				return err
			}
			_, err := ms.SendToExternal(ctx, m)
			return err
		})
	case "SendP":
		// the REAL crossChain precompile: FX as msg.value (token = zero address) or ERC-20 tokens of the registered coin
		args := crosschaintypes.CrossChainArgs{Receipt: w.exts[op.Dest], Amount: big.NewInt(op.Amount), Fee: big.NewInt(op.Fee),
			Target: fxtypes.MustStrToByte32(chainName), Memo: ""}
		value := big.NewInt(0)
		if op.Token == 0 {
			value = big.NewInt(op.Amount + op.Fee)
		} else {
			args.Token = w.erc20Of[op.Token]
		}
		return w.tryMsg(func(ctx sdk.Context) error {
			if err := args.Validate(); err != nil {
				return err
			}
			data, err := crosschainprecompile.NewCrossChainMethod(nil).PackInput(args)
			if err != nil {
				return err
			}
			pre := lib.CrosschainPrecompile
			r := w.c.EvmCall(ctx, w.users[op.Sender].Hex(), &pre, value, 5_000_000, data)
			if r.Err != nil {
				return r.Err
			}
			if r.Failed {
				return fmt.Errorf("evm: %s", r.VmError)
			}
			return nil
		})
	case "IncreaseFeeP":
		// the REAL increaseBridgeFee precompile: the added fee as FX msg.value or as ERC-20 tokens
		value, token := big.NewInt(0), common.Address{}
		if op.Token == 0 {
			value = big.NewInt(op.Add)
		} else if a, has := w.erc20Of[op.Token]; has {
			token = a
		} else {
			token = common.HexToAddress("0x00000000000000000000000000000000000000ff") // a token without ERC-20 contract
		}
		return w.evmCall(op.Who, value, func() ([]byte, error) {
			return crosschainprecompile.NewIncreaseBridgeFeeMethod(nil).PackInput(chainName, new(big.Int).SetUint64(op.ID), token, big.NewInt(op.Add))
		})
	case "Cancel":
		if op.Evm { // the REAL cancelSendToExternal precompile
			return w.evmCall(op.Who, big.NewInt(0), func() ([]byte, error) {
				return crosschainprecompile.NewCancelSendToExternalMethod(nil).PackInput(chainName, new(big.Int).SetUint64(op.ID))
			})
		}
		m := &crosschaintypes.MsgCancelSendToExternal{ChainName: chainName, TransactionId: op.ID, Sender: w.users[op.Who].Acc().String()}
		return w.tryMsg(func(ctx sdk.Context) error {
			if err := m.ValidateBasic(); err != nil {
				return err
			}
			_, err := ms.CancelSendToExternal(ctx, m)
			return err
		})
	case "IncreaseFee":
		m := &crosschaintypes.MsgIncreaseBridgeFee{ChainName: chainName, TransactionId: op.ID, Sender: w.users[op.Who].Acc().String(),
			AddBridgeFee: sdk.Coin{Denom: w.denom(op.Token, op.Which), Amount: sdkmath.NewInt(op.Add)}}
		return w.tryMsg(func(ctx sdk.Context) error {
			if err := m.ValidateBasic(); err != nil {
				return err
			}
			_, err := ms.IncreaseBridgeFee(ctx, m)
			return err
		})
	case "RequestBatch":
		sender := w.users[0].Acc().String()
		if op.Auth {
			sender = w.x.Oracles[int(op.ID)%len(w.x.Oracles)].Bridger.Acc().String()
		}
		m := &crosschaintypes.MsgRequestBatch{ChainName: chainName, Sender: sender, Denom: w.denom(op.Token, op.Which),
			MinimumFee: sdkmath.NewInt(op.MinFee), FeeReceive: w.exts[op.FeeRcv], BaseFee: sdkmath.NewInt(op.BaseFee)}
		return w.tryMsg(func(ctx sdk.Context) error {
			if err := m.ValidateBasic(); err != nil {
				return err
			}
			_, err := ms.RequestBatch(ctx, m)
			return err
		})
	case "BatchExecuted", "Observe", "ObserveResult":
		return w.observeClaim(op, w.mkClaim(op))
	case "ExecResult":
		if op.Evm { // the REAL executeClaim precompile, called by some user
			return w.evmCall(0, big.NewInt(0), func() ([]byte, error) {
				return crosschainprecompile.NewExecuteClaimMethod(nil).PackInput(crosschaintypes.ExecuteClaimArgs{Chain: chainName, EventNonce: new(big.Int).SetUint64(op.E)})
			})
		}
		return w.tryMsg(func(ctx sdk.Context) error { return w.x.Keeper.ExecuteClaim(ctx, op.E) })
	case "BridgeCall":
		var coins sdk.Coins
		for _, cn := range op.Coins {
			coins = append(coins, sdk.Coin{Denom: w.toks[cn[0]].Base, Amount: sdkmath.NewInt(cn[1])})
		}
		m := &crosschaintypes.MsgBridgeCall{ChainName: chainName, Sender: w.users[op.Sender].Acc().String(), Refund: w.users[op.Refund].Acc().String(),
			Coins: coins, To: w.exts[op.To], Data: hex.EncodeToString(op.Data), Memo: hex.EncodeToString(op.Memo), Value: sdkmath.ZeroInt()}
		return w.tryMsg(func(ctx sdk.Context) error {
			if err := m.ValidateBasic(); err != nil {
				return err
			}
			_, err := ms.BridgeCall(ctx, m)
			return err
		})
	case "BridgeCallP":
		// the REAL bridgeCall precompile: msg.value of FX and/or ERC-20 tokens of the registered coin
		args := crosschaintypes.BridgeCallArgs{DstChain: chainName, Refund: w.users[op.Refund].Hex(), To: common.HexToAddress(extAddrs[op.To]),
			Data: op.Data, Value: big.NewInt(0), Memo: op.Memo}
		for _, cn := range op.Coins {
			args.Tokens = append(args.Tokens, w.erc20Of[int(cn[0])])
			args.Amounts = append(args.Amounts, big.NewInt(cn[1]))
		}
		return w.tryMsg(func(ctx sdk.Context) error {
			data, err := crosschainprecompile.NewBridgeCallMethod(nil).PackInput(args)
			if err != nil {
				return err
			}
			pre := lib.CrosschainPrecompile
			r := w.c.EvmCall(ctx, w.users[op.Sender].Hex(), &pre, big.NewInt(op.Amount), 5_000_000, data)
			if r.Err != nil {
				return r.Err
			}
			if r.Failed {
				return fmt.Errorf("evm: %s", r.VmError)
			}
			return nil
		})
	case "ExportImport":
		// genesis round trip of the module: ExportGenesis, an empty module store (what a fresh application has),
		// InitGenesis; every other module keeps its state, as in a full export/import
		return w.tryMsg(func(ctx sdk.Context) error {
			gs := crosschainkeeper.ExportGenesis(ctx, w.x.Keeper)
			store := ctx.KVStore(w.c.App.GetKey(chainName))
			var keys [][]byte
			it := store.Iterator(nil, nil)
			for ; it.Valid(); it.Next() {
				keys = append(keys, append([]byte{}, it.Key()...))
			}
			it.Close()
			for _, k := range keys {
				store.Delete(k)
			}
			crosschainkeeper.InitGenesis(ctx, w.x.Keeper, gs)
			// the imported genesis restores the bridge token registry itself: every registered token must be usable again
			for _, t := range w.toks[:5] {
				if c, found := w.x.Keeper.GetContractByBridgeDenom(ctx, t.Bridge); !found || c != t.Contract {
					return fmt.Errorf("bridge token %s lost by the genesis round trip", t.Bridge)
				}
			}
			return nil
		})
	case "Migrate":
		// the module migration the v8 upgrade runs for the crosschain modules (x/eth/module.go RegisterServices -> Migrator.Migrate)
		return w.tryMsg(func(ctx sdk.Context) error { return crosschainkeeper.NewMigrator(w.x.Keeper).Migrate(ctx) })
	case "NextBlock":
		if err := w.c.NextBlock(); err != nil {
			panic(fmt.Sprintf("block processing failed: %v", err))
		}
		return true
	case "SetParams":
		return w.tryMsg(func(ctx sdk.Context) error {
			p := w.x.Keeper.GetParams(ctx)
			p.ExternalBatchTimeout, p.AverageBlockTime, p.AverageExternalBlockTime, p.BridgeCallTimeout = op.Params[0], op.Params[1], op.Params[2], op.Params[3]
			return w.x.Keeper.SetParams(ctx, &p)
		})
	}
	panic("unknown op " + op.Kind)
}

// evmCall: a call of user [who] to the crosschain precompile contract on the real EVM, as one transaction
func (w *World) evmCall(who int, value *big.Int, pack func() ([]byte, error)) bool {
	return w.tryMsg(func(ctx sdk.Context) error {
		data, err := pack()
		if err != nil {
			return err
		}
		pre := lib.CrosschainPrecompile
		r := w.c.EvmCall(ctx, w.users[who].Hex(), &pre, value, 5_000_000, data)
		if r.Err != nil {
			return r.Err
		}
		if r.Failed {
			return fmt.Errorf("evm: %s", r.VmError)
		}
		return nil
	})
}

// step = fresh event manager, apply, snapshot
func (w *World) step(op Op) (bool, Snap) {
	w.stuckBefore = w.stuck
	w.c.Ctx = w.c.Ctx.WithEventManager(sdk.NewEventManager())
	ok := w.apply(op)
	s := w.snapshot()
	if op.Kind != "NextBlock" {
		s.Events = w.events()
	}
	return ok, s
}

func (w *World) events() [][2]int64 {
	var out [][2]int64
	for _, e := range w.c.Ctx.EventManager().Events() {
		attr := func(k string) string {
			for _, a := range e.Attributes {
				if a.Key == k {
					return a.Value
				}
			}
			return ""
		}
		switch e.Type {
		case crosschaintypes.EventTypeSendToExternalCanceled:
			var id int64
			fmt.Sscan(attr(crosschaintypes.AttributeKeyOutgoingTxID), &id)
			out = append(out, [2]int64{1, id})
		case crosschaintypes.EventTypeOutgoingBatchCanceled:
			var n int64
			fmt.Sscan(attr(crosschaintypes.AttributeKeyOutgoingBatchNonce), &n)
			out = append(out, [2]int64{2, n})
		case crosschaintypes.EventTypeBridgeCallRefund:
			out = append(out, [2]int64{3, int64(w.idx(w.userByAcc, attr(crosschaintypes.AttributeKeyRefund)))})
		}
	}
	return out
}

func (w *World) idx(m map[string]int, k string) int {
	if i, ok := m[k]; ok {
		return i
	}
	return 99
}

func (w *World) decodeTx(t *crosschaintypes.OutgoingTransferTx, s *Snap) Tx {
	if t.Token.Contract != t.Fee.Contract {
		s.Problems = append(s.Problems, fmt.Sprintf("tx %d: fee contract differs from token contract", t.Id))
	}
	return Tx{ID: t.Id, Sender: w.idx(w.userByAcc, t.Sender), Dest: w.idx(w.extIdx, t.DestAddress), Token: w.idx(w.tokByContract, t.Token.Contract),
		Amount: t.Token.Amount.BigInt(), Fee: t.Fee.Amount.BigInt()}
}

func (w *World) decodeBatch(b *crosschaintypes.OutgoingTxBatch, s *Snap) Batch {
	out := Batch{Nonce: b.BatchNonce, Timeout: b.BatchTimeout, Block: b.Block, Token: w.idx(w.tokByContract, b.TokenContract), FeeRcv: w.idx(w.extIdx, b.FeeReceive)}
	for _, t := range b.Transactions {
		out.Txs = append(out.Txs, w.decodeTx(t, s))
	}
	return out
}

func reverse[T any](l []T) []T {
	out := make([]T, len(l))
	for i, v := range l {
		out[len(l)-1-i] = v
	}
	return out
}

func (w *World) snapshot() Snap {
	var s Snap
	c, ctx := w.c, w.c.Ctx
	cdc := c.App.AppCodec()
	s.FxHeight = ctx.BlockHeight()
	// 0x18 pool, reverse iteration order (what IterateUnbatchedTransactions walks)
	for _, kv := range reverse(c.DumpPrefix(ctx, chainName, crosschaintypes.OutgoingTxPoolKey)) {
		var t crosschaintypes.OutgoingTransferTx
		cdc.MustUnmarshal(kv.V, &t)
		tx := w.decodeTx(&t, &s)
		want := crosschaintypes.GetOutgoingTxPoolKey(t.Fee, t.Id)
		if string(want) != string(kv.K) {
			s.Problems = append(s.Problems, fmt.Sprintf("pool entry %d stored under a key that does not match its fee/id", t.Id))
		}
		s.Pool = append(s.Pool, tx)
	}
	// 0x20 batches, reverse iteration order
	for _, kv := range reverse(c.DumpPrefix(ctx, chainName, crosschaintypes.OutgoingTxBatchKey)) {
		var b crosschaintypes.OutgoingTxBatch
		cdc.MustUnmarshal(kv.V, &b)
		s.Batches = append(s.Batches, w.decodeBatch(&b, &s))
	}
	// 0x21 block index
	for _, kv := range c.DumpPrefix(ctx, chainName, crosschaintypes.OutgoingTxBatchBlockKey) {
		var b crosschaintypes.OutgoingTxBatch
		cdc.MustUnmarshal(kv.V, &b)
		blk := binary.BigEndian.Uint64(kv.K[1:])
		s.ByBlock = append(s.ByBlock, [3]uint64{blk, uint64(w.idx(w.tokByContract, b.TokenContract)), b.BatchNonce})
		rec := w.x.Keeper.GetOutgoingTxBatch(ctx, b.TokenContract, b.BatchNonce)
		if rec == nil || string(cdc.MustMarshal(rec)) != string(kv.V) || b.Block != blk {
			s.Problems = append(s.Problems, fmt.Sprintf("block index %d does not point at a stored batch with the same content", blk))
		}
	}
	// 0x25 counters
	s.Ctr = [3]uint64{1, 1, 1}
	for i, key := range [][]byte{crosschaintypes.KeyLastTxPoolID, crosschaintypes.KeyLastOutgoingBatchID, crosschaintypes.KeyLastBridgeCallID} {
		if kvs := c.DumpPrefix(ctx, chainName, key); len(kvs) == 1 {
			s.Ctr[i] = binary.BigEndian.Uint64(kvs[0].V)
		}
	}
	// 0x48 calls ascending, 0x49 by sender, 0x51 from msg
	for _, kv := range c.DumpPrefix(ctx, chainName, crosschaintypes.OutgoingBridgeCallNonceKey) {
		var o crosschaintypes.OutgoingBridgeCall
		cdc.MustUnmarshal(kv.V, &o)
		call := Call{Nonce: o.Nonce, Timeout: o.Timeout, Block: o.BlockHeight, EvNonce: o.EventNonce, Sender: w.idx(w.userByHex, o.Sender),
			Refund: w.idx(w.userByHex, o.Refund), To: w.idx(w.extIdx, o.To)}
		call.Data, _ = hex.DecodeString(o.Data)
		call.Memo, _ = hex.DecodeString(o.Memo)
		for _, t := range o.Tokens {
			call.Tokens = append(call.Tokens, [2]*big.Int{big.NewInt(int64(w.idx(w.tokByContract, t.Contract))), t.Amount.BigInt()})
		}
		if binary.BigEndian.Uint64(kv.K[1:]) != o.Nonce {
			s.Problems = append(s.Problems, fmt.Sprintf("bridge call %d stored under another nonce key", o.Nonce))
		}
		s.Calls = append(s.Calls, call)
	}
	for _, kv := range c.DumpPrefix(ctx, chainName, crosschaintypes.OutgoingBridgeCallAddressAndNonceKey) {
		addr := string(kv.K[1 : len(kv.K)-8])
		s.BySender = append(s.BySender, [2]uint64{uint64(w.idx(w.userByHex, addr)), binary.BigEndian.Uint64(kv.K[len(kv.K)-8:])})
	}
	sort.Slice(s.BySender, func(i, j int) bool { return s.BySender[i][1] > s.BySender[j][1] })
	for _, kv := range c.DumpPrefix(ctx, chainName, crosschaintypes.BridgeCallFromMsgKey) {
		s.FromMsg = append(s.FromMsg, binary.BigEndian.Uint64(kv.K[1:]))
	}
	sort.Slice(s.FromMsg, func(i, j int) bool { return s.FromMsg[i] > s.FromMsg[j] })
	// 0x54 parked claims: BridgeCallResult ones only
	for _, kv := range c.DumpPrefix(ctx, chainName, crosschaintypes.PendingExecuteClaimKey) {
		e := binary.BigEndian.Uint64(kv.K[1:])
		cl, found := w.x.Keeper.GetPendingExecuteClaim(ctx, e)
		if !found {
			continue
		}
		if r, ok := cl.(*crosschaintypes.MsgBridgeCallResultClaim); ok {
			s.Pending = append(s.Pending, Pend{E: e, Nonce: r.Nonce, Ok: r.Success})
		}
	}
	sort.Slice(s.Pending, func(i, j int) bool { return s.Pending[i].E > s.Pending[j].E })
	s.Evn = w.x.Keeper.GetLastObservedEventNonce(ctx)
	oh := w.x.Keeper.GetLastObservedBlockHeight(ctx)
	s.Ext, s.Fx = oh.ExternalBlockHeight, oh.BlockHeight
	s.Bals = w.balances()
	for id := uint64(400); id >= 1; id-- {
		if c.App.Erc20Keeper.HasOutgoingTransferRelation(ctx, chainName, id) {
			s.Relation = append(s.Relation, id)
		}
	}
	return s
}
