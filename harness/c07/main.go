// c07: block processing never halts.  Aging histories on the REAL app: bonded oracles, the signed
// window lowered to its minimum through the real authority-guarded param update, oracle sets created
// by the real end blocker, outgoing bridge calls through the real MsgServer, batches and confirmations
// placed through the keeper, oracles that stop confirming, oracles that come back online.  After every
// generated block the REAL FinalizeBlock/Commit result is the monitor (a panic/error = violation), and
// the pre-state read from the real store + the observed post-state form one correspondence case for the
// Coq model M_EndBlock.endblock (evaluated with the slash-argument kinds the translator read from source).
package main

import (
	"encoding/json"
	"fmt"
	"math/big"
	"os"
	"sort"
	"strings"
	"time"

	sdkmath "cosmossdk.io/math"
	sdk "github.com/cosmos/cosmos-sdk/types"
	banktypes "github.com/cosmos/cosmos-sdk/x/bank/types"
	crisistypes "github.com/cosmos/cosmos-sdk/x/crisis/types"
	govv1 "github.com/cosmos/cosmos-sdk/x/gov/types/v1"

	fxtypes "github.com/functionx/fx-core/v8/types"
	crosschaintypes "github.com/functionx/fx-core/v8/x/crosschain/types"
	fxgovtypes "github.com/functionx/fx-core/v8/x/gov/types"

	"fxverif/lib"
)

type op struct {
	Kind string `json:"kind"`
	A    int    `json:"a,omitempty"`
	B    uint64 `json:"b,omitempty"`
	Res  string `json:"res,omitempty"`
}

type history struct {
	Seed      int64   `json:"seed"`
	Module    string  `json:"module"`
	Stakes    []int64 `json:"stakes_fx"`
	Window    uint64  `json:"signed_window"`
	LowStake  bool    `json:"low_stake_threshold,omitempty"`
	GovQuorum string  `json:"gov_quorum"`
	Blocks    [][]op  `json:"ops_per_block"`
	Failure   string  `json:"failure,omitempty"`
}

type objT struct {
	Key, Height uint64
	Confirms    []int
}

type pre struct {
	Oracles [][5]int64 // id, online, start, slashTimes, power
	Osets   []objT
	C1      uint64
	Batches []objT
	C2      uint64
	Bcalls  []objT
	C3      uint64
	LSH     uint64
	Window  uint64
	H       int64
	// oracle-set phase
	Sets    []setT
	Latest  uint64
	LastObs int64 // -1: none observed
	Pct     string
}

type setT struct {
	Nonce, Height uint64
	Members       [][2]int64 // ext id, normalised power
}

func main() {
	if os.Getenv("VERIF_MODE") == "replay" {
		replay()
		return
	}
	seed := lib.Seed()
	r := lib.NewRand(seed)
	nHist := 24
	if lib.Tier() == "thorough" || os.Getenv("VERIF_MODE") == "search" {
		nHist = 160
	}
	if v := lib.EnvInt("VERIF_N", 0); v > 0 {
		nHist = int(v)
	}
	rep := lib.NewReport("C07")
	rep.Rule = "aging histories on the real app (1-5 oracles, unequal stakes, SignedWindow 2-4, all chain modules in rotation): per block 0-3 ops among bridge-call creation, batch injection, oracle-set/batch/bridge-call confirmations by some oracles, add-delegate of slashed oracles, gov proposals; one case = one real FinalizeBlock/Commit; non-trivial = a block in which the signed window has elapsed over at least one unconfirmed oracle set, batch or bridge call (a slashing decision was taken); distinct by (module, pre-state)"
	var items []string
	// corpus first: minimised failing histories kept from earlier findings, replayed exactly
	if dir := os.Getenv("VERIF_CORPUS"); dir != "" {
		files, _ := os.ReadDir(dir)
		for _, f := range files {
			bz, err := os.ReadFile(dir + "/" + f.Name())
			if err != nil {
				continue
			}
			var rf struct {
				Replay history `json:"replay"`
			}
			if json.Unmarshal(bz, &rf) != nil || rf.Replay.Module == "" {
				continue
			}
			runHistory(nil, rf.Replay.Seed, rf.Replay.Module, rep, &items, &rf.Replay)
			rep.Count("corpus-history")
		}
	}
	// scripted: the known finding C15-2 seen from C07 (a passed MsgSend from the gov account spends another open
	// proposal's deposit; that proposal's refund then fails and the gov end blocker returns an error)
	{
		sc := history{Seed: 424242, Module: "eth", Stakes: []int64{20000, 30000}, Window: 3, GovQuorum: "0.4", Blocks: [][]op{
			{{Kind: "gov_proposal", A: 2}, {Kind: "gov_proposal", A: 4}},
			{{Kind: "gov_vote", A: 0, B: 0}, {Kind: "gov_vote", A: 1, B: 0}},
			{}, {}, {}, {}, {},
		}}
		runHistory(nil, sc.Seed, sc.Module, rep, &items, &sc)
		rep.Count("scripted-history")
	}
	// scripted: an expedited proposal misses its threshold, is converted to a regular one by the end blocker and is
	// cancelled by its proposer in the following block (queue bookkeeping of the conversion); and the same with a
	// second expedited proposal that simply runs to its regular end
	for k, blocks := range [][][]op{
		// proposal 1 regular and unvoted; proposal 2 expedited: the governance account deposits into proposal 1; it passes
		// first, then proposal 1 closes and its refund loop reaches the governance account's own deposit
		{{{Kind: "gov_proposal", A: 2}, {Kind: "gov_proposal_dep", A: 0, B: 0}}, {{Kind: "gov_vote", A: 0, B: 1}, {Kind: "gov_vote", A: 1, B: 1}}, {}, {}, {}, {}, {}},
		{{{Kind: "gov_proposal", A: 10}}, {}, {{Kind: "gov_cancel", B: 0}}, {}, {}, {}, {}},
		// malformed custom parameters (empty quorum / ratio) offered under both live keys, then proposals with and without
		// messages are voted and end: whatever the validation admitted is read by the tally in the end blocker
		{{{Kind: "gov_custom_params", A: 6, B: 3}, {Kind: "gov_custom_params", A: 1, B: 3}, {Kind: "gov_custom_params", A: 3, B: 4}, {Kind: "gov_custom_params", A: 4, B: 2}},
			{{Kind: "gov_proposal", A: 2}, {Kind: "gov_proposal", A: 1}}, {{Kind: "gov_vote", A: 0, B: 0}, {Kind: "gov_vote", A: 1, B: 1}}, {}, {}, {}, {}, {}},
		// a passed proposal whose handler panics (both validators vote yes): the panic must stay inside x/gov
		// (the second proposal only parks a 20 000 FX deposit in the gov account: deposits of the executing proposal itself
		// are refunded before its messages run, so the fee can only be charged to somebody else's deposit)
		{{{Kind: "gov_proposal_panic"}, {Kind: "gov_proposal_panic"}}, {{Kind: "gov_vote", A: 0, B: 0}, {Kind: "gov_vote", A: 1, B: 0}}, {}, {}, {}, {}, {}},
		{{{Kind: "gov_proposal", A: 10}, {Kind: "gov_proposal", A: 20}}, {}, {}, {{Kind: "gov_cancel", B: 1}}, {}, {}, {}, {}},
	} {
		sc := history{Seed: 434343 + int64(k), Module: "bsc", Stakes: []int64{20000, 30000}, Window: 3, GovQuorum: "0.4", Blocks: blocks}
		runHistory(nil, sc.Seed, sc.Module, rep, &items, &sc)
		rep.Count("scripted-history")
	}
	for i := 0; i < nHist; i++ {
		h := runHistory(r, seed*1000+int64(i), lib.ChainModules[(i+int(seed))%len(lib.ChainModules)], rep, &items, nil)
		rep.Sample(map[string]interface{}{"module": h.Module, "stakes_fx": h.Stakes, "window": h.Window, "blocks": len(h.Blocks), "first_blocks": firstN(h.Blocks, 6)})
	}
	lib.WriteCases("Cases_C07.v", []string{"model.M_EndBlock", "gen.Gen_EndBlock", "model.M_EndBlockCorr"}, "eb_case", items, "eb_mismatch")
	lib.WriteCases("Cases_C07_pdiff.v", []string{"model.M_EndBlock", "model.M_OsetPhase", "model.M_OsetPhaseCorr"}, "pd_case", powerDiffCases(r, rep), "pd_mismatch")
	lib.WriteCases("Cases_C07_full.v", []string{"model.M_EndBlock", "gen.Gen_EndBlock", "model.M_EndBlockCorr", "model.M_OsetPhase", "model.M_OsetPhaseCorr"}, "eb2_case", items2, "eb2_mismatch")
	rep.Write()
}

func firstN(b [][]op, n int) [][]op {
	if len(b) > n {
		return b[:n]
	}
	return b
}

func replay() {
	bz, err := os.ReadFile(os.Getenv("VERIF_REPLAY"))
	lib.Must(err)
	var f struct {
		Replay history `json:"replay"`
	}
	lib.Must(json.Unmarshal(bz, &f))
	rep := lib.NewReport("C07")
	var items []string
	h := runHistory(nil, f.Replay.Seed, f.Replay.Module, rep, &items, &f.Replay)
	if h.Failure != "" {
		fmt.Println("REPLAY: block processing failed again:", h.Failure)
		os.Exit(1)
	}
	fmt.Println("REPLAY: history completed without a block-processing failure")
}

// runHistory generates (or, with script != nil, replays) one history.
var items2 []string

func runHistory(r *lib.Rand, hseed int64, module string, rep *lib.Report, items *[]string, script *history) history {
	h := history{Seed: hseed, Module: module}
	c := lib.NewChain(hseed, 2, nil)
	lib.Must(c.NextBlock())
	x := c.X(module)
	if script != nil {
		h.Stakes, h.Window, h.LowStake = script.Stakes, script.Window, script.LowStake
	} else {
		n := 1 + r.Intn(5)
		// rare configuration: governance lowers the delegate threshold below one power unit (100 FX), so oracles
		// with power 0 exist — possibly ALL of them
		h.LowStake = r.Chance(15)
		for i := 0; i < n; i++ {
			if h.LowStake {
				if r.Chance(25) {
					h.Stakes = append(h.Stakes, 100+int64(r.Intn(50)))
				} else {
					h.Stakes = append(h.Stakes, 10+int64(r.Intn(90)))
				}
			} else {
				h.Stakes = append(h.Stakes, 10000+int64(r.Intn(10))*10000)
			}
		}
		h.Window = 2 + uint64(r.Intn(3))
	}
	if h.LowStake {
		lp := x.Keeper.GetParams(c.Ctx)
		lp.DelegateThreshold = sdk.NewCoin(fxtypes.DefaultDenom, sdkmath.NewInt(10).MulRaw(1e18))
		lp.DelegateMultiple = 1000
		_, err := x.Msg().UpdateParams(c.Ctx, &crosschaintypes.MsgUpdateParams{ChainName: module, Authority: lib.GovAuthority(), Params: lp})
		lib.Must(err)
	}
	x.SetupOracles(h.Stakes)
	params := x.Keeper.GetParams(c.Ctx)
	params.SignedWindow = h.Window
	_, err := x.Msg().UpdateParams(c.Ctx, &crosschaintypes.MsgUpdateParams{ChainName: module, Authority: lib.GovAuthority(), Params: params})
	lib.Must(err)
	user := lib.EthKey(hseed, "user", 0)
	c.Mint(user.Acc(), lib.FX(1000000))
	// governance (a valid governance action): short periods so proposals end inside the history; quorum 0 in half of them
	if script != nil {
		h.GovQuorum = script.GovQuorum
	} else {
		h.GovQuorum = []string{"", "0", "0.4"}[r.Intn(3)]
	}
	if h.GovQuorum != "" {
		gp, err := c.App.GovKeeper.Params.Get(c.Ctx)
		lib.Must(err)
		vp, dp, evp := 15*time.Second, 10*time.Second, 5*time.Second
		gp.VotingPeriod, gp.MaxDepositPeriod, gp.ExpeditedVotingPeriod, gp.Quorum = &vp, &dp, &evp, h.GovQuorum
		if len(gp.MinDeposit) > 0 {
			gp.ExpeditedMinDeposit = sdk.NewCoins(sdk.NewCoin(gp.MinDeposit[0].Denom, gp.MinDeposit[0].Amount.MulRaw(2)))
		}
		m := &govv1.MsgUpdateParams{Authority: lib.GovAuthority(), Params: gp}
		if _, err := c.App.MsgServiceRouter().Handler(m)(c.Ctx, m); err != nil {
			h.GovQuorum = "rejected:" + short(err.Error())
		}
	}
	extID := map[string]int{}
	accID := map[string]int{}
	for i, o := range x.Oracles {
		extID[o.ExtAddr] = i
		accID[o.Oracle.Acc().String()] = i
	}
	tok := crosschaintypes.ExternalAddrToStr(module, lib.EthKey(hseed, "tok", 0).Hex().Bytes())
	// an observed event so that an external height exists (bridge calls need a timeout height)
	for _, o := range x.Oracles {
		lib.Must(x.Claim(o, &crosschaintypes.MsgBridgeTokenClaim{EventNonce: 1, BlockHeight: 1000, TokenContract: tok, Name: "Tok", Symbol: "TOK", Decimals: 18}))
	}
	batchNonce := uint64(0)
	proposals := 0

	nBlocks := 0
	if script != nil {
		nBlocks = len(script.Blocks)
	} else {
		nBlocks = 10 + r.Intn(14)
	}
	for b := 0; b < nBlocks; b++ {
		var ops []op
		if script != nil {
			ops = script.Blocks[b]
		} else {
			for k := r.Intn(4); k > 0; k-- {
				ops = append(ops, genOp(r, len(x.Oracles)))
			}
		}
		for i := range ops {
			o := &ops[i]
			switch o.Kind {
			case "bridge_call":
				e := c.Try(func(ctx sdk.Context) error {
					_, err := x.Msg().BridgeCall(ctx, &crosschaintypes.MsgBridgeCall{ChainName: module, Sender: user.Acc().String(), Refund: user.Acc().String(),
						To: tok, Value: sdkmath.ZeroInt()})
					return err
				})
				o.Res = errClass(e)
			case "inject_batch":
				batchNonce++
				e := x.Keeper.StoreBatch(c.Ctx, &crosschaintypes.OutgoingTxBatch{BatchNonce: batchNonce, BatchTimeout: 1 << 40, TokenContract: tok,
					Block: uint64(c.Ctx.BlockHeight()), FeeReceive: tok})
				if e != nil {
					batchNonce--
				}
				o.Res = errClass(e)
			case "confirm_oset":
				sets := x.Keeper.GetOracleSets(c.Ctx)
				if len(sets) == 0 {
					o.Res = "none"
					break
				}
				set := sets[int(o.B)%len(sets)]
				or := x.Oracles[o.A%len(x.Oracles)]
				x.Keeper.SetOracleSetConfirm(c.Ctx, or.Oracle.Acc(), &crosschaintypes.MsgOracleSetConfirm{Nonce: set.Nonce, BridgerAddress: or.Bridger.Acc().String(),
					ExternalAddress: or.ExtAddr, Signature: "00", ChainName: module})
				o.Res = fmt.Sprintf("set=%d", set.Nonce)
			case "confirm_batch":
				bs := x.Keeper.GetOutgoingTxBatches(c.Ctx)
				if len(bs) == 0 {
					o.Res = "none"
					break
				}
				bt := bs[int(o.B)%len(bs)]
				or := x.Oracles[o.A%len(x.Oracles)]
				x.Keeper.SetBatchConfirm(c.Ctx, or.Oracle.Acc(), &crosschaintypes.MsgConfirmBatch{Nonce: bt.BatchNonce, TokenContract: bt.TokenContract,
					BridgerAddress: or.Bridger.Acc().String(), ExternalAddress: or.ExtAddr, Signature: "00", ChainName: module})
				o.Res = fmt.Sprintf("batch=%d", bt.BatchNonce)
			case "confirm_bcall":
				var calls []*crosschaintypes.OutgoingBridgeCall
				x.Keeper.IterateOutgoingBridgeCalls(c.Ctx, func(oc *crosschaintypes.OutgoingBridgeCall) bool { calls = append(calls, oc); return false })
				if len(calls) == 0 {
					o.Res = "none"
					break
				}
				bc := calls[int(o.B)%len(calls)]
				or := x.Oracles[o.A%len(x.Oracles)]
				x.Keeper.SetBridgeCallConfirm(c.Ctx, or.Oracle.Acc(), &crosschaintypes.MsgBridgeCallConfirm{ChainName: module, BridgerAddress: or.Bridger.Acc().String(),
					ExternalAddress: or.ExtAddr, Nonce: bc.Nonce, Signature: "00"})
				o.Res = fmt.Sprintf("call=%d", bc.Nonce)
			case "add_delegate":
				or := x.Oracles[o.A%len(x.Oracles)]
				rec, found := x.Keeper.GetOracle(c.Ctx, or.Oracle.Acc())
				if !found {
					o.Res = "none"
					break
				}
				amt := rec.GetSlashAmount(x.Keeper.GetSlashFraction(c.Ctx))
				c.Mint(or.Oracle.Acc(), sdk.NewCoin(fxtypes.DefaultDenom, amt.AddRaw(1)))
				e := c.Try(func(ctx sdk.Context) error {
					_, err := x.Msg().AddDelegate(ctx, &crosschaintypes.MsgAddDelegate{ChainName: module, OracleAddress: or.Oracle.Acc().String(),
						Amount: sdk.NewCoin(fxtypes.DefaultDenom, amt)})
					return err
				})
				o.Res = errClass(e)
			case "set_window":
				// governance changes the signed window while slashing cursors already exist (both directions)
				params := x.Keeper.GetParams(c.Ctx)
				params.SignedWindow = 2 + o.B%7
				_, e := x.Msg().UpdateParams(c.Ctx, &crosschaintypes.MsgUpdateParams{ChainName: module, Authority: lib.GovAuthority(), Params: params})
				o.Res = errClass(e)
			case "gov_cancel":
				if proposals == 0 {
					o.Res = "none"
					break
				}
				pid := uint64(1 + int(o.B)%proposals)
				e := c.Try(func(ctx sdk.Context) error {
					m := govv1.NewMsgCancelProposal(pid, user.Acc().String())
					_, err := c.App.MsgServiceRouter().Handler(m)(ctx, m)
					return err
				})
				o.Res = errClass(e)
			case "observe_oset":
				// the external chain reports that a stored oracle set took effect (LastObservedOracleSet): enables pruning
				sets := x.Keeper.GetOracleSets(c.Ctx)
				if len(sets) == 0 {
					o.Res = "none"
					break
				}
				set := sets[int(o.B)%len(sets)]
				if lo := x.Keeper.GetLastObservedOracleSet(c.Ctx); lo != nil && lo.Nonce >= set.Nonce {
					o.Res = "stale"
					break
				}
				x.Keeper.SetLastObservedOracleSet(c.Ctx, set)
				o.Res = fmt.Sprintf("set=%d", set.Nonce)
			case "set_pct":
				params := x.Keeper.GetParams(c.Ctx)
				params.OracleSetUpdatePowerChangePercent = sdkmath.LegacyMustNewDecFromStr([]string{"0.1", "0.001", "0.00000001", "0", "1", "0.05", "0.33333333", "0.000000005"}[o.B%8])
				_, e := x.Msg().UpdateParams(c.Ctx, &crosschaintypes.MsgUpdateParams{ChainName: module, Authority: lib.GovAuthority(), Params: params})
				o.Res = errClass(e)
			case "top_up":
				// a small stake increase by an ONLINE oracle: a small non-zero normalised power change
				or := x.Oracles[o.A%len(x.Oracles)]
				amt := sdkmath.NewInt(int64(1+o.B) * 100).MulRaw(1e18)
				c.Mint(or.Oracle.Acc(), sdk.NewCoin(fxtypes.DefaultDenom, amt))
				e := c.Try(func(ctx sdk.Context) error {
					_, err := x.Msg().AddDelegate(ctx, &crosschaintypes.MsgAddDelegate{ChainName: module, OracleAddress: or.Oracle.Acc().String(),
						Amount: sdk.NewCoin(fxtypes.DefaultDenom, amt)})
					return err
				})
				o.Res = errClass(e)
			case "gov_vote":
				if proposals == 0 {
					o.Res = "none"
					break
				}
				pid := uint64(1 + int(o.B)%proposals)
				voter := c.ValKeys[o.A%len(c.ValKeys)]
				opt := []govv1.VoteOption{govv1.OptionYes, govv1.OptionNo, govv1.OptionAbstain, govv1.OptionNoWithVeto}[int(o.B>>1)%4]
				e := c.Try(func(ctx sdk.Context) error {
					m := govv1.NewMsgVote(voter.Acc(), pid, opt, "")
					_, err := c.App.MsgServiceRouter().Handler(m)(ctx, m)
					return err
				})
				o.Res = errClass(e)
			case "gov_proposal_dep":
				// a proposal whose message is a deposit BY the governance account into another open proposal
				if proposals == 0 {
					o.Res = "none"
					break
				}
				proposals++
				target := uint64(1 + int(o.B)%(proposals-1))
				o.Res = errClass(submitDepositProposal(c, user, target, o.A%2 == 0))
			case "gov_custom_params":
				// governance sets per-message custom parameters under the keys the keeper's look-up derives ("/google.protobuf.Any"
				// for proposals with messages, "" for those without) with boundary and MALFORMED field values: what the message's
				// validation lets through is later read by the tally inside the end blocker
				quorum := []string{"0", "1", "0.000000000000000001", "", " ", "abc", "-0.1", "1.5", "0.334"}[o.B%9]
				ratio := []string{"0", "1", "", "0.5", "x", "0.000000000000000001"}[(o.B/2+uint64(o.A))%6]
				var vp *time.Duration
				if o.A%5 != 0 {
					d := []time.Duration{time.Second, 5 * time.Second, 0, -time.Second, 20 * time.Second}[o.A%5]
					vp = &d
				}
				url := []string{"/google.protobuf.Any", "", sdk.MsgTypeURL(&banktypes.MsgSend{})}[o.A%3]
				e := c.Try(func(ctx sdk.Context) error {
					m := &fxgovtypes.MsgUpdateCustomParams{Authority: lib.GovAuthority(), MsgUrl: url,
						CustomParams: fxgovtypes.CustomParams{DepositRatio: ratio, VotingPeriod: vp, Quorum: quorum}}
					_, err := c.App.MsgServiceRouter().Handler(m)(ctx, m)
					return err
				})
				o.Res = errClass(e)
			case "gov_proposal_panic":
				// a proposal whose message handler PANICS when executed: crisis MsgVerifyInvariant sent by the governance
				// account for the gov module-account invariant — the handler first charges the constant fee (13 333 FX) to
				// the gov account, i.e. takes it out of the deposits held there, which breaks exactly that invariant, and
				// x/crisis panics by design.  x/gov must recover the panic (safeExecuteHandler) and fail the proposal.
				proposals++
				o.Res = errClass(submitPanicProposal(c, user))
			case "gov_proposal":
				// a bank send out of the gov account (fails at execution: gov has no such funds) or a text-like proposal;
				// exercises the real gov end blocker (deposit refund/burn, tally, failing message)
				proposals++
				o.Res = errClass(submitProposal(c, user, o.A))
			}
		}
		h.Blocks = append(h.Blocks, ops)
		if os.Getenv("VERIF_DEBUG") != "" {
			fmt.Fprintf(os.Stderr, "block %d time %s ops %+v govq=%s\n", b, c.Ctx.BlockTime().Format("15:04:05"), ops, h.GovQuorum)
			for pid := uint64(1); pid <= uint64(proposals); pid++ {
				if pr, err := c.App.GovKeeper.Proposals.Get(c.Ctx, pid); err == nil {
					fmt.Fprintf(os.Stderr, "   proposal %d status %s end %v deposit %s reason %q\n", pid, pr.Status, pr.VotingEndTime, sdk.NewCoins(pr.TotalDeposit...), pr.FailedReason)
				}
			}
		}
		p := snapshot(c, x, extID, accID, h.Window)
		err := c.NextBlock()
		if err != nil {
			h.Failure = err.Error()
			rep.Case(fmt.Sprintf("%s/%v", module, p), true)
			rep.Count("block=FAILED")
			rep.Fail(lib.Failure{Kind: "monitor", What: "block processing failed: " + short(err.Error()),
				Sig: "C07:endblock:" + failClass(err.Error()), Replay: h})
			// a halt caused by another module (e.g. the gov refund failure) is outside the crosschain end-block model
			if cl := failClass(err.Error()); cl == "bech32-decode" || cl == "panic" {
				base := coqCase(p, nil, x, c, accID, extID)
				*items = append(*items, base)
				items2 = append(items2, coqCase2(base, p, false, x, c, extID))
			}
			return h
		}
		nontrivial := decision(p)
		rep.Case(fmt.Sprintf("%s/%v", module, p), nontrivial)
		if nontrivial {
			rep.Count("block=slashing-decision")
		} else {
			rep.Count("block=quiet")
		}
		for _, o := range ops {
			rep.Count("op=" + o.Kind)
		}
		base := coqCase(p, &p, x, c, accID, extID)
		*items = append(*items, base)
		items2 = append(items2, coqCase2(base, p, true, x, c, extID))
		if len(p.Sets) > 0 && p.LastObs >= 0 {
			rep.Count("block=prune-eligible")
		}
	}
	for pid := uint64(1); pid <= uint64(proposals); pid++ {
		if pr, err := c.App.GovKeeper.Proposals.Get(c.Ctx, pid); err == nil && strings.Contains(pr.FailedReason, "PANICKED") {
			rep.Count("gov=handler-panic-recovered")
		}
	}
	return h
}

func genOp(r *lib.Rand, nOracles int) op {
	kinds := []string{"bridge_call", "bridge_call", "inject_batch", "inject_batch", "confirm_oset", "confirm_oset", "confirm_batch", "confirm_bcall", "confirm_bcall", "add_delegate", "add_delegate", "add_delegate", "confirm_oset", "confirm_batch", "gov_proposal", "top_up", "top_up", "gov_vote", "gov_vote", "set_window", "gov_cancel", "gov_proposal_dep", "observe_oset", "observe_oset", "set_pct", "gov_proposal_panic", "gov_custom_params", "gov_custom_params"}
	return op{Kind: kinds[r.Intn(len(kinds))], A: r.Intn(nOracles + 6), B: uint64(r.Intn(8))}
}

func submitDepositProposal(c *lib.Chain, user lib.Key, target uint64, expedited bool) error {
	return c.Try(func(ctx sdk.Context) error {
		params, err := c.App.GovKeeper.Params.Get(ctx)
		if err != nil {
			return err
		}
		dep := sdk.NewCoins(params.MinDeposit...)
		if expedited && len(params.ExpeditedMinDeposit) > 0 && params.ExpeditedMinDeposit[0].Denom == dep[0].Denom {
			dep = sdk.NewCoins(params.ExpeditedMinDeposit...)
		} else {
			expedited = false
		}
		inner := govv1.NewMsgDeposit(sdk.MustAccAddressFromBech32(lib.GovAuthority()), target, sdk.NewCoins(sdk.NewCoin(params.MinDeposit[0].Denom, params.MinDeposit[0].Amount.QuoRaw(10))))
		m, err := govv1.NewMsgSubmitProposal([]sdk.Msg{inner}, dep, user.Acc().String(), "", "t", "s", expedited)
		if err != nil {
			return err
		}
		_, err = c.App.MsgServiceRouter().Handler(m)(ctx, m)
		return err
	})
}

func submitPanicProposal(c *lib.Chain, user lib.Key) error {
	return c.Try(func(ctx sdk.Context) error {
		params, err := c.App.GovKeeper.Params.Get(ctx)
		if err != nil {
			return err
		}
		dep := sdk.NewCoins(params.MinDeposit...)
		if len(dep) > 0 && dep[0].Amount.LT(lib.FX(20000).Amount) {
			dep = sdk.NewCoins(sdk.NewCoin(dep[0].Denom, lib.FX(20000).Amount))
		}
		msgs := []sdk.Msg{&crisistypes.MsgVerifyInvariant{Sender: lib.GovAuthority(), InvariantModuleName: "gov", InvariantRoute: "module-account"}}
		m, err := govv1.NewMsgSubmitProposal(msgs, dep, user.Acc().String(), "", "panicking handler", "s", false)
		if err != nil {
			return err
		}
		_, err = c.App.MsgServiceRouter().Handler(m)(ctx, m)
		return err
	})
}

func submitProposal(c *lib.Chain, user lib.Key, variant int) error {
	return c.Try(func(ctx sdk.Context) error {
		var msgs []sdk.Msg
		if variant%2 == 0 {
			msgs = append(msgs, &banktypes.MsgSend{FromAddress: lib.GovAuthority(), ToAddress: user.Acc().String(), Amount: sdk.NewCoins(lib.FX(1))})
		}
		params, err := c.App.GovKeeper.Params.Get(ctx)
		if err != nil {
			return err
		}
		dep := sdk.NewCoins(params.MinDeposit...)
		if variant%3 == 0 && len(dep) > 0 {
			dep = sdk.NewCoins(sdk.NewCoin(dep[0].Denom, dep[0].Amount.QuoRaw(10)))
		}
		expedited := variant%5 == 0 && len(params.ExpeditedMinDeposit) > 0 && params.ExpeditedMinDeposit[0].Denom == dep[0].Denom
		if expedited {
			dep = sdk.NewCoins(params.ExpeditedMinDeposit...)
		}
		m, err := govv1.NewMsgSubmitProposal(msgs, dep, user.Acc().String(), "", "t", "s", expedited)
		if err != nil {
			return err
		}
		_, err = c.App.MsgServiceRouter().Handler(m)(ctx, m)
		return err
	})
}

func snapshot(c *lib.Chain, x *lib.XChain, extID, accID map[string]int, window uint64) pre {
	ctx := c.Ctx
	p := pre{Window: x.Keeper.GetSignedWindow(ctx), H: c.Height + 1}
	_ = window
	for _, o := range x.Keeper.GetAllOracles(ctx, false) {
		on := int64(0)
		if o.Online {
			on = 1
		}
		p.Oracles = append(p.Oracles, [5]int64{int64(accID[o.OracleAddress]), on, o.StartHeight, o.SlashTimes, o.GetPower().Int64()})
	}
	for _, s := range x.Keeper.GetOracleSets(ctx) {
		ob := objT{Key: s.Nonce, Height: s.Height}
		x.Keeper.IterateOracleSetConfirmByNonce(ctx, s.Nonce, func(cf *crosschaintypes.MsgOracleSetConfirm) bool {
			ob.Confirms = append(ob.Confirms, extID[cf.ExternalAddress])
			return false
		})
		p.Osets = append(p.Osets, ob)
	}
	p.C1 = x.Keeper.GetLastSlashedOracleSetNonce(ctx)
	x.Keeper.IterateBatchByBlockHeight(ctx, 0, 1<<62, func(b *crosschaintypes.OutgoingTxBatch) bool {
		ob := objT{Key: b.Block, Height: b.Block}
		x.Keeper.IterateBatchConfirmByNonceAndTokenContract(ctx, b.BatchNonce, b.TokenContract, func(cf *crosschaintypes.MsgConfirmBatch) bool {
			ob.Confirms = append(ob.Confirms, extID[cf.ExternalAddress])
			return false
		})
		p.Batches = append(p.Batches, ob)
		return false
	})
	p.C2 = x.Keeper.GetLastSlashedBatchBlock(ctx)
	x.Keeper.IterateOutgoingBridgeCalls(ctx, func(oc *crosschaintypes.OutgoingBridgeCall) bool {
		ob := objT{Key: oc.Nonce, Height: oc.BlockHeight}
		x.Keeper.IterBridgeCallConfirmByNonce(ctx, oc.Nonce, func(cf *crosschaintypes.MsgBridgeCallConfirm) bool {
			ob.Confirms = append(ob.Confirms, extID[cf.ExternalAddress])
			return false
		})
		p.Bcalls = append(p.Bcalls, ob)
		return false
	})
	if len(c.DumpPrefix(ctx, x.Module, crosschaintypes.LastSlashedBridgeCallNonce)) > 0 {
		p.C3 = x.Keeper.GetLastSlashedBridgeCallNonce(ctx)
	}
	p.LSH = x.Keeper.GetLastOracleSlashBlockHeight(ctx)
	for _, st := range x.Keeper.GetOracleSets(ctx) {
		p.Sets = append(p.Sets, setT{Nonce: st.Nonce, Height: st.Height, Members: memberIDs(extID, st.Members)})
	}
	p.Latest = x.Keeper.GetLatestOracleSetNonce(ctx)
	p.LastObs = -1
	if lo := x.Keeper.GetLastObservedOracleSet(ctx); lo != nil {
		p.LastObs = int64(lo.Nonce)
	}
	p.Pct = x.Keeper.GetOracleSetUpdatePowerChangePercent(ctx).BigInt().String()
	return p
}

// memberIDs: (external-address id, normalised power), ascending id; an address that is no oracle key of this
// history gets an id above every oracle's
func memberIDs(extID map[string]int, ms crosschaintypes.BridgeValidators) [][2]int64 {
	var out [][2]int64
	for i, m := range ms {
		id, ok := extID[m.ExternalAddress]
		if !ok {
			id = 1000 + i
		}
		out = append(out, [2]int64{int64(id), int64(m.Power)})
	}
	sort.Slice(out, func(i, j int) bool { return out[i][0] < out[j][0] })
	return out
}

func pairs(ms [][2]int64) string {
	var s []string
	for _, m := range ms {
		s = append(s, lib.Pair(fmt.Sprint(m[0]), fmt.Sprint(m[1])))
	}
	return lib.List(s)
}

// coqCase2: the same block as coqCase, extended by the oracle-set phase (create request + prune)
func coqCase2(base string, p pre, ok bool, x *lib.XChain, c *lib.Chain, extID map[string]int) string {
	var sets []string
	for _, st := range p.Sets {
		sets = append(sets, fmt.Sprintf("mk_set %d %d %s", st.Nonce, st.Height, pairs(st.Members)))
	}
	obs := "Obs2Panic"
	if ok {
		ctx := c.Ctx
		var stored []string
		for _, st := range x.Keeper.GetOracleSets(ctx) {
			stored = append(stored, lib.Pair(fmt.Sprint(st.Nonce), fmt.Sprint(st.Height)))
		}
		var mem [][2]int64
		if ls := x.Keeper.GetLatestOracleSet(ctx); ls != nil {
			mem = memberIDs(extID, ls.Members)
		}
		obs = fmt.Sprintf("(Obs2Ok %s %d %s)", lib.List(stored), x.Keeper.GetLatestOracleSetNonce(ctx), pairs(mem))
	}
	return fmt.Sprintf("mk_eb2_case (%s) %s %d (%d) %s %s", base, lib.List(sets), p.Latest, p.LastObs, p.Pct, obs)
}

// decision: the window has elapsed over some object an online oracle has not confirmed
func decision(p pre) bool {
	if uint64(p.H) <= p.Window {
		return false
	}
	max := uint64(p.H) - p.Window
	for _, s := range p.Osets {
		if s.Key > p.C1 && s.Height < max && len(s.Confirms) < len(p.Oracles) {
			return true
		}
	}
	for _, s := range p.Batches {
		if s.Key > p.C2 && s.Key < max && len(s.Confirms) < len(p.Oracles) {
			return true
		}
	}
	for _, s := range p.Bcalls {
		if s.Key >= p.C3 && s.Height <= max && len(s.Confirms) < len(p.Oracles) {
			return true
		}
	}
	return false
}

func coqCase(p pre, ok *pre, x *lib.XChain, c *lib.Chain, accID, extID map[string]int) string {
	var os []string
	for _, o := range p.Oracles {
		os = append(os, fmt.Sprintf("mk_o %d %s %d %d %d", o[0], lib.Bool(o[1] == 1), o[2], o[3], o[4]))
	}
	objs := func(xs []objT) string {
		var s []string
		for _, o := range xs {
			cs := make([]int64, len(o.Confirms))
			for i, v := range o.Confirms {
				cs[i] = int64(v)
			}
			s = append(s, fmt.Sprintf("mk_obj %d %d %s", o.Key, o.Height, lib.ZList(cs)))
		}
		return lib.List(s)
	}
	obs := "ObsPanic"
	if ok != nil {
		ctx := c.Ctx
		var flags, times []string
		for _, o := range x.Keeper.GetAllOracles(ctx, false) {
			flags = append(flags, lib.Bool(o.Online))
			times = append(times, fmt.Sprint(o.SlashTimes))
		}
		c3 := uint64(0)
		if len(c.DumpPrefix(ctx, x.Module, crosschaintypes.LastSlashedBridgeCallNonce)) > 0 {
			c3 = x.Keeper.GetLastSlashedBridgeCallNonce(ctx)
		}
		// the normalised member powers the end blocker computed: GetCurrentOracleSet is a pure function of the
		// oracle records, re-evaluated on the post-state
		var mem []string
		cur := x.Keeper.GetCurrentOracleSet(ctx)
		type mp struct {
			id int
			p  uint64
		}
		var mps []mp
		for _, m := range cur.Members {
			mps = append(mps, mp{extID[m.ExternalAddress], m.Power})
		}
		sort.Slice(mps, func(i, j int) bool { return mps[i].id < mps[j].id })
		for _, m := range mps {
			mem = append(mem, lib.Pair(fmt.Sprint(m.id), fmt.Sprint(m.p)))
		}
		obs = fmt.Sprintf("(ObsOk %s %s %d %d %d %d %s)", lib.List(flags), lib.List(times),
			x.Keeper.GetLastSlashedOracleSetNonce(ctx), x.Keeper.GetLastSlashedBatchBlock(ctx), c3,
			x.Keeper.GetLastOracleSlashBlockHeight(ctx), lib.List(mem))
	}
	return fmt.Sprintf("mk_eb_case %s %s %d %s %d %s %d %d %d %d %s", lib.List(os), objs(p.Osets), p.C1, objs(p.Batches), p.C2, objs(p.Bcalls), p.C3, p.LSH, p.Window, p.H, obs)
}

func errClass(e error) string {
	if e == nil {
		return "ok"
	}
	if strings.HasPrefix(e.Error(), "PANIC") {
		return "panic"
	}
	return "err"
}

func failClass(s string) string {
	switch {
	case strings.Contains(s, "insufficient funds"):
		return "gov-refund-insufficient-funds"
	case strings.Contains(s, "bech32"):
		return "bech32-decode"
	case strings.Contains(s, "PANIC"):
		return "panic"
	}
	return "error"
}

func short(s string) string {
	if len(s) > 200 {
		return s[:200]
	}
	return s
}

// powerDiffCases: the float64 computation of isNeedOracleSetRequest on its own — the real BridgeValidators.PowerDiff,
// fmt's "%.8f" and LegacyNewDecFromStr against the model's SpecFloat evaluation — on random member lists (members
// joining, leaving, changing power) and on deltas placed next to the rounding boundaries (k + 1/2)·10^-8 of the quotient
func powerDiffCases(r *lib.Rand, rep *lib.Report) []string {
	n := 600
	if lib.Tier() == "thorough" || os.Getenv("VERIF_MODE") == "search" {
		n = 6000
	}
	const maxU32 = 4294967295
	addr := func(i int) string { return fmt.Sprintf("0x%040x", i+1) }
	var out []string
	emit := func(kind string, cur, lat [][2]int64) {
		var bc, bl crosschaintypes.BridgeValidators
		for _, m := range cur {
			bc = append(bc, crosschaintypes.BridgeValidator{Power: uint64(m[1]), ExternalAddress: addr(int(m[0]))})
		}
		for _, m := range lat {
			bl = append(bl, crosschaintypes.BridgeValidator{Power: uint64(m[1]), ExternalAddress: addr(int(m[0]))})
		}
		txt := fmt.Sprintf("%.8f", bc.PowerDiff(bl))
		d, err := sdkmath.LegacyNewDecFromStr(txt)
		if err != nil {
			rep.Fail(lib.Failure{Kind: "monitor", What: "isNeedOracleSetRequest would panic: the rendered power difference " + txt + " does not parse: " + err.Error(),
				Sig: "C07:powerdiff:unparsable", Replay: map[string]interface{}{"cur": cur, "latest": lat}})
			return
		}
		rep.Count("pdiff=" + kind)
		rep.Case(fmt.Sprintf("pdiff/%v/%v", cur, lat), true)
		out = append(out, fmt.Sprintf("mk_pd_case %s %s %s", pairs(cur), pairs(lat), d.BigInt().String()))
	}
	for i := 0; i < n; i++ {
		switch {
		case i%3 == 0:
			// next to a rounding boundary: delta ≈ (k + 1/2)·10^-8 · MaxUint32, one member changing its power by delta
			k := int64(r.Intn(100000000))
			num := new(big.Int).Mul(big.NewInt(2*k+1), big.NewInt(maxU32))
			delta := new(big.Int).Quo(num, big.NewInt(200000000)).Int64() + int64(r.Intn(5)) - 2
			if delta < 0 {
				delta = 0
			}
			if delta > maxU32 {
				delta = maxU32
			}
			a := delta + int64(r.Intn(int(maxU32-delta)+1))
			emit("boundary", [][2]int64{{0, a}}, [][2]int64{{0, a - delta}})
		default:
			mk := func() [][2]int64 {
				var m [][2]int64
				left := int64(maxU32)
				for id := 0; id < 6; id++ {
					if r.Chance(35) {
						continue
					}
					p := int64(r.Intn(int(left/2) + 1))
					if r.Chance(10) {
						p = left
					}
					left -= p
					m = append(m, [2]int64{int64(id), p})
				}
				return m
			}
			cur, lat := mk(), mk()
			if r.Chance(30) { // small perturbation of the same set
				lat = nil
				for _, m := range cur {
					d := int64(r.Intn(2000)) - 1000
					if m[1]+d < 0 {
						d = 0
					}
					lat = append(lat, [2]int64{m[0], m[1] + d})
				}
			}
			emit("random", cur, lat)
		}
	}
	return out
}
