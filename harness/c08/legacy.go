package main

// legacy.go — part C: externally-owned pairs whose token is NOT a FIP20.  The token is hand-written EVM assembly
// (compiled with geth's core/asm; no solc): balances live at storage slot = holder address, totalSupply at slot 0;
// name() symbol() decimals() balanceOf() totalSupply() transfer().  Three flavours of signalling a failed transfer:
//   revert   — reverts, returns true on success (OpenZeppelin style)
//   false    — returns false instead of reverting, true on success
//   nothing  — reverts on failure, returns NO data on success (legacy USDT style)
// installed with CreateContractWithCode, registered through the real RegisterERC20, then MsgConvertERC20 /
// MsgConvertCoin with amounts around the holders' balances.

import (
	"fmt"
	"math/big"
	"strings"

	sdkmath "cosmossdk.io/math"
	sdk "github.com/cosmos/cosmos-sdk/types"
	"github.com/ethereum/go-ethereum/common"
	"github.com/ethereum/go-ethereum/core/asm"

	erc20types "github.com/functionx/fx-core/v8/x/erc20/types"

	"fxverif/lib"
)

var flavours = []string{"revert", "false", "nothing"}

func strWord(s string) string { // left-aligned 32-byte word of a short string
	b := make([]byte, 32)
	copy(b, s)
	return "0x" + common.Bytes2Hex(b)
}

func legacyCode(flavour, name, symbol string) []byte {
	onFail := "push 0\npush 0\nrevert\n"
	if flavour == "false" {
		onFail = "push 0\npush 0\nmstore\npush 32\npush 0\nreturn\n"
	}
	onOK := "push 1\npush 0\nmstore\npush 32\npush 0\nreturn\n"
	if flavour == "nothing" {
		onOK = "stop\n"
	}
	retStr := func(s string) string {
		return fmt.Sprintf("push 32\npush 0\nmstore\npush %d\npush 32\nmstore\npush %s\npush 64\nmstore\npush 96\npush 0\nreturn\n", len(s), strWord(s))
	}
	src := `
push 0
calldataload
push 224
shr
dup1
push 0x70a08231
eq
jumpi @balanceOf
dup1
push 0xa9059cbb
eq
jumpi @transfer
dup1
push 0x18160ddd
eq
jumpi @totalSupply
dup1
push 0x06fdde03
eq
jumpi @name
dup1
push 0x95d89b41
eq
jumpi @symbol
dup1
push 0x313ce567
eq
jumpi @decimals
push 0
push 0
revert
balanceOf:
push 4
calldataload
sload
push 0
mstore
push 32
push 0
return
totalSupply:
push 0
sload
push 0
mstore
push 32
push 0
return
decimals:
push 18
push 0
mstore
push 32
push 0
return
name:
` + retStr(name) + `
symbol:
` + retStr(symbol) + `
transfer:
push 36
calldataload
caller
sload
dup2
dup2
lt
jumpi @fail
dup2
swap1
sub
caller
sstore
push 4
calldataload
dup1
sload
dup3
add
swap1
sstore
pop
` + onOK + `
fail:
` + onFail
	comp := asm.NewCompiler(false)
	comp.Feed(asm.Lex([]byte(src), false))
	hex, errs := comp.Compile()
	if len(errs) > 0 {
		panic(fmt.Sprint(errs))
	}
	return common.Hex2Bytes(hex)
}

type GOp struct {
	K  string `json:"k"` // ConvertERC20 | ConvertCoin
	A  int    `json:"a"`
	R  int    `json:"r"`
	X  int64  `json:"x"`
	OK bool   `json:"ok"`
}

type GCase struct {
	Seed    int64  `json:"seed"`
	Flavour int    `json:"flavour"`
	Bal     [2]int64 `json:"bal"`
	Ops     []GOp  `json:"ops"`
}

func (o GOp) Coq() string {
	if o.K == "ConvertERC20" {
		return fmt.Sprintf("(LConvertERC20 %d %d %d)", o.A, o.R, o.X)
	}
	return fmt.Sprintf("(LConvertCoin %d %d %d)", o.A, o.R, o.X)
}

func legacyCase(c *lib.Chain, gc *GCase, fixed bool, rep *lib.Report) string {
	base := c.Ctx
	branch, _ := base.CacheContext()
	c.Ctx = branch
	defer func() { c.Ctx = base }()
	ctx := c.Ctx
	r := lib.NewRand(gc.Seed)
	fl := flavours[gc.Flavour]
	symbol := "LG" + strings.ToUpper(fl[:1])
	denom := strings.ToLower(symbol)
	token := common.HexToAddress("0xE100000000000000000000000000000000000e1" + fmt.Sprint(gc.Flavour))
	c.InstallCode(ctx, token, legacyCode(fl, "Legacy", symbol))
	users := []lib.Key{lib.EthKey(c.Seed, "lguser", 0), lib.EthKey(c.Seed, "lguser", 1)}
	var total int64
	for i, u := range users {
		c.EnsureAccount(ctx, u.Acc())
		c.App.EvmKeeper.SetState(ctx, token, common.BytesToHash(u.Hex().Bytes()), common.BigToHash(big.NewInt(gc.Bal[i])).Bytes())
		total += gc.Bal[i]
	}
	c.App.EvmKeeper.SetState(ctx, token, common.Hash{}, common.BigToHash(big.NewInt(total)).Bytes())
	msg := &erc20types.MsgRegisterERC20{Authority: lib.GovAuthority(), Erc20Address: token.Hex()}
	lib.Must(msg.ValidateBasic())
	_, err := c.App.Erc20Keeper.RegisterERC20(ctx, msg)
	lib.Must(err)
	modHex := lib.ModuleHex(erc20types.ModuleName)
	obs := func() []*big.Int {
		return []*big.Int{c.ERC20BalanceOf(ctx, token, modHex), c.Supply(ctx, denom),
			c.ERC20BalanceOf(ctx, token, users[0].Hex()), c.ERC20BalanceOf(ctx, token, users[1].Hex()),
			c.Bal(ctx, users[0].Acc(), denom), c.Bal(ctx, users[1].Acc(), denom)}
	}
	n := len(gc.Ops)
	if !fixed {
		n = 5 + r.Pick(6)
	}
	var steps []string
	accepted := 0
	for i := 0; i < n; i++ {
		var o GOp
		if fixed {
			o = gc.Ops[i]
		} else {
			cur := obs()
			o = GOp{K: "ConvertERC20", A: 100 + r.Pick(2), R: 100 + r.Pick(2)}
			bal := cur[2+o.A-100].Int64()
			if r.Chance(40) {
				o.K = "ConvertCoin"
				bal = cur[4+o.A-100].Int64()
			}
			switch {
			case r.Chance(35) || bal == 0:
				o.X = bal + 1 + int64(r.Pick(40)) // the underlying transfer cannot happen
			default:
				o.X = 1 + int64(r.Intn(int(bal)))
			}
		}
		a, rc := users[o.A-100], users[o.R-100]
		var e error
		if o.K == "ConvertERC20" {
			e = c.Try(func(ctx sdk.Context) error {
				_, err := c.App.Erc20Keeper.ConvertERC20(ctx, &erc20types.MsgConvertERC20{ContractAddress: token.Hex(), Amount: sdkmath.NewInt(o.X), Receiver: rc.Acc().String(), Sender: a.Hex().Hex()})
				return err
			})
		} else {
			e = c.Try(func(ctx sdk.Context) error {
				_, err := c.App.Erc20Keeper.ConvertCoin(ctx, &erc20types.MsgConvertCoin{Coin: lib.Coin(denom, o.X), Receiver: rc.Hex().Hex(), Sender: a.Acc().String()})
				return err
			})
		}
		o.OK = e == nil
		if o.OK {
			accepted++
		}
		if !fixed {
			gc.Ops = append(gc.Ops, o)
		} else {
			gc.Ops[i] = o
		}
		cur := obs()
		var os []string
		for _, v := range cur {
			os = append(os, lib.ZBig(v))
		}
		steps = append(steps, fmt.Sprintf("(%s, %s, %s)", o.Coq(), lib.Bool(o.OK), lib.List(os)))
		rep.Count("legacy:" + fl + ":" + o.K + ":" + map[bool]string{true: "ok", false: "rej"}[o.OK])
		if cur[0].Cmp(cur[1]) != 0 {
			rep.Fail(lib.Failure{Kind: "monitor", Sig: "C08:backing:external:legacy-" + fl,
				What: fmt.Sprintf("externally-owned pair over a token that signals a failed transfer by '%s': after %s (accepted=%v) the erc20 module holds %s tokens but the coin supply is %s", fl, o.Coq(), o.OK, cur[0], cur[1]),
				Replay: map[string]interface{}{"part": "legacy", "case": gc}})
		}
	}
	key := fl
	for _, o := range gc.Ops {
		key += o.Coq() + map[bool]string{true: "+", false: "-"}[o.OK]
	}
	rep.Case("C:"+key, accepted >= 1)
	fc := map[string]string{"revert": "FRevert", "false": "FFalse", "nothing": "FNothing"}[fl]
	return fmt.Sprintf("mk_gcase %s [(100, %d); (101, %d)]\n   %s", fc, gc.Bal[0], gc.Bal[1], lib.List(steps))
}
