// c08: correspondence + monitors for the two parts of C08 that are not ledger histories (those are run by harness/c04
// with VERIF_PROP=C08):
//
//	part A  histories of RegisterCoin / RegisterERC20 / ToggleTokenConversion / UpdateDenomAlias and the removal of a pair
//	        whose contract was destroyed, on the REAL erc20 keeper; after every operation the raw erc20 store indexes
//	        (0x01 pairs, 0x02 by denom, 0x03 by contract, 0x05 alias) and the bank-metadata aliases are dumped and
//	        (a) compared with the model (Cases_C08idx.v), (b) checked for mutual consistency by the monitor;
//	part B  one REAL EVM transaction of a hand-assembled contract C that mixes direct calls to a module-owned FIP20
//	        (transfer, approve, balanceOf) with calls to the crosschain precompile (crossChain: running EVM;
//	        bridgeCall: keeper-level nested EVM); the token's books after the transaction are compared with the
//	        two-level-store model (Cases_C08mix.v) and checked by the monitor.
package main

import (
	"bytes"
	"encoding/json"
	"errors"
	"fmt"
	"math/big"
	"os"
	"path/filepath"
	"sort"
	"strings"

	sdkmath "cosmossdk.io/math"
	sdk "github.com/cosmos/cosmos-sdk/types"
	"github.com/ethereum/go-ethereum/common"

	"github.com/functionx/fx-core/v8/contract"
	fxtypes "github.com/functionx/fx-core/v8/types"
	"github.com/functionx/fx-core/v8/x/crosschain/precompile"
	crosschaintypes "github.com/functionx/fx-core/v8/x/crosschain/types"
	erc20types "github.com/functionx/fx-core/v8/x/erc20/types"

	"fxverif/lib"
)

var fip20 = contract.GetFIP20().ABI

func main() {
	if len(os.Args) > 1 && os.Args[1] == "-facts" {
		writeFacts()
		return
	}
	seed := lib.Seed()
	mode := os.Getenv("VERIF_MODE")
	rep := lib.NewReport("C08")
	rep.Rule = "part A: one case = a history of 8-16 register/toggle/alias/removal operations over 3 base denoms, 5 alias denoms and the contracts they create (~30% deliberately conflicting); part B: one case = one EVM transaction of 1-5 instructions (transfer, approve, balanceOf, crossChain, bridgeCall) by a contract holding the token, amounts drawn around its balance; non-trivial = at least 2 accepted operations (A) / a successful transaction containing a precompile call (B); distinct by operation sequence"
	c := lib.NewChain(seed, 1, nil)
	x := c.X("eth")
	x.SetupOracles([]int64{10000, 10000, 10000})
	lib.Must(c.NextBlock())

	if mode == "replay" {
		replay(c, x, rep)
		return
	}
	nA, nB := 60, 150
	if lib.Tier() == "thorough" || mode == "search" {
		nA, nB = 600, 1500
	}
	if v := lib.EnvInt("VERIF_N", 0); v > 0 {
		nA, nB = int(v), int(v)*2
	}
	var itemsA, itemsB, itemsC []string
	for i := 0; i < nA; i++ {
		itemsA = append(itemsA, indexHistory(c, seed*1_000_003+int64(i), rep))
	}
	// lifecycle: the registry (with live books) survives a genesis export + import through the real application-level path;
	// the second history has more registered pairs than one page of the pair query holds
	if mode != "search" || os.Getenv("VERIF_LIFECYCLE") != "" {
		for i, lh := range lifecycleHistories() {
			h := &IHistory{Seed: seed*1_000_003 + 800_000 + int64(i), Own: true, Extra: lh.Extra}
			itemsA = append(itemsA, execIndex(c, h, lib.NewRand(h.Seed), lh.Ops, rep))
			rep.Count(fmt.Sprintf("lifecycle:export-import:%d-extra-pairs", lh.Extra))
		}
	}
	if probeNote != "" {
		rep.Notes = append(rep.Notes, probeNote)
	}
	m := setupMixed(c, x)
	// the machine-checked witness of P_Erc20.v first, then generated programs
	itemsB = append(itemsB, m.run(&MixCase{N: 100, P: 40, Q: 25, Prog: []MInstr{{K: "Transfer", X: 30}, {K: "BridgeCall", X: 50}}, Seed: -1}, rep))
	itemsB = append(itemsB, m.run(&MixCase{N: 100, P: 40, Q: 25, Prog: []MInstr{{K: "Transfer", X: 30}, {K: "Cancel"}}, Seed: -2}, rep))
	itemsB = append(itemsB, m.run(&MixCase{N: 100, P: 40, Q: 25, Prog: []MInstr{{K: "BalanceOfC"}, {K: "ExecClaim"}, {K: "Transfer", X: 1}}, Seed: -3}, rep))
	for i := 0; i < nB; i++ {
		r := lib.NewRand(seed*2_000_003 + int64(i))
		itemsB = append(itemsB, m.run(genMix(r, i, seed*2_000_003+int64(i)), rep))
	}
	// part C: a failing transfer signalled by false / nothing / revert; the first case is the deterministic trigger
	itemsC = append(itemsC, legacyCase(c, &GCase{Seed: -3, Flavour: 1, Bal: [2]int64{500, 0}, Ops: []GOp{
		{K: "ConvertERC20", A: 100, R: 100, X: 200}, {K: "ConvertERC20", A: 101, R: 101, X: 300}, {K: "ConvertERC20", A: 100, R: 101, X: 301},
		{K: "ConvertCoin", A: 100, R: 101, X: 150}}}, true, rep))
	nC := nB / 5
	for i := 0; i < nC; i++ {
		r := lib.NewRand(seed*3_000_003 + int64(i))
		gc := &GCase{Seed: seed*3_000_003 + int64(i), Flavour: i % 3, Bal: [2]int64{int64(100 + r.Intn(900)), int64(r.Intn(300))}}
		itemsC = append(itemsC, legacyCase(c, gc, false, rep))
	}
	if mode != "search" {
		lib.WriteCases("Cases_C08leg.v", []string{"model.M_Erc20", "model.M_Erc20Corr"}, "gcase", itemsC, "legacy_mismatch")
		lib.WriteCases("Cases_C08idx.v", []string{"model.M_Erc20", "model.M_Erc20Corr"}, "icase", itemsA, "index_mismatch")
		lib.WriteCases("Cases_C08mix.v", []string{"model.M_Erc20", "model.M_Erc20Corr"}, "mcase", itemsB, "mixed_mismatch")
	}
	rep.Write()
}

// ======================================================================================================
// part A: index histories

type IOp struct {
	K       string   `json:"k"`
	Base    int      `json:"base,omitempty"`    // index into bases
	Aliases []int    `json:"aliases,omitempty"` // indexes into the denom universe
	ByC     bool     `json:"by_contract,omitempty"`
	Key     int      `json:"key,omitempty"` // denom id or contract id
	Denom   int      `json:"denom,omitempty"`
	Alias   int      `json:"alias,omitempty"`
	Owner   int      `json:"owner,omitempty"`
	CID     int      `json:"contract_id,omitempty"`
	Rebuild bool     `json:"rebuilds_alias_index,omitempty"` // ExportImport: the probed code fact the model follows
	OK      bool     `json:"ok"`
	Err     string   `json:"err,omitempty"`
	Dump    []string `json:"-"`
}

type IHistory struct {
	Seed  int64 `json:"hist_seed"`
	Own   bool  `json:"own_chain,omitempty"`   // lifecycle history: runs on a chain of its own (export/import needs committed state)
	Extra int   `json:"extra_pairs,omitempty"` // scale: that many further module-owned pairs registered (through the keeper) first
	Ops   []IOp `json:"ops"`
}

// exportRebuilds: the code fact the model follows (M_Erc20.IExportImport rebuild): does InitGenesis of the code under check
// rebuild the alias index from the bank metadata?  Probed once per run on the real application: a chain of its own, one coin
// registered with one alias, real export + import, then the alias is looked up.
var probedRebuild *bool
var probeNote string

func exportRebuilds() bool {
	if probedRebuild != nil {
		return *probedRebuild
	}
	res := false
	probedRebuild = &res
	c := lib.NewChain(lib.Seed()*131+17, 1, nil)
	lib.Must(c.NextBlock())
	md := fxtypes.GetCrossChainMetadataManyToOne("probe token", "PRB", 18, "probealias")
	if _, err := c.App.Erc20Keeper.RegisterNativeCoin(c.Ctx, md); err != nil {
		probeNote = "probe registration failed: " + err.Error()
		return res
	}
	// two more aliases, added by UpdateDenomAlias after the registration: one to the probe coin, one to the FX pair (which
	// InitGenesis treats specially: it registers FX itself when the imported pairs do not contain it)
	want := map[string]string{"probealias": md.Base}
	for alias, denom := range map[string]string{"probealiasb": md.Base, "probealiasfx": fxtypes.DefaultDenom} {
		msg := &erc20types.MsgUpdateDenomAlias{Authority: lib.GovAuthority(), Denom: denom, Alias: alias}
		if err := c.Try(func(ctx sdk.Context) error {
			if e := msg.ValidateBasic(); e != nil {
				return e
			}
			_, e := c.App.Erc20Keeper.UpdateDenomAlias(ctx, msg)
			return e
		}); err == nil {
			want[alias] = denom
		}
	}
	nc, err := c.ExportImport()
	if err != nil {
		probeNote = "probe export/import failed: " + err.Error()
		return res
	}
	n := 0
	var missing []string
	for alias, denom := range want {
		if d, found := nc.App.Erc20Keeper.GetAliasDenom(nc.Ctx, alias); found && d == denom {
			n++
		} else {
			missing = append(missing, alias+"->"+denom)
		}
	}
	sort.Strings(missing)
	res = n == len(want)
	probeNote = fmt.Sprintf("code fact probed on the real application: InitGenesis rebuilds the erc20 alias index from the bank metadata = %v (%d of %d aliases found after export + import: one set at registration, the others by UpdateDenomAlias on the coin and on FX%s)",
		res, n, len(want), map[bool]string{true: "", false: "; missing " + strings.Join(missing, ", ")}[len(missing) == 0])
	return res
}

// writeFacts (`c08 -facts`, declared under "gen" in checks/C08.json): the probed code fact as a generated Coq file, so that
// the theorems about THIS tree (Prop_C08: C08_tree_rebuilds_alias_index, C08_indexes_on_tree) break when the fact changes.
func writeFacts() {
	v := exportRebuilds()
	src := "(* generated by `harness/c08 -facts` from the tree under test (probe executed on the REAL application: a chain of its\n" +
		"   own, aliases set at registration / by UpdateDenomAlias on a coin and on FX, real genesis export + InitChain of a new\n" +
		"   application, GetAliasDenom of each); do not edit *)\n" +
		"(* " + probeNote + " *)\n" +
		"Definition gen_alias_index_rebuilt : bool := " + lib.Bool(v) + ".\n"
	lib.Must(os.WriteFile(filepath.Join(lib.OutDir(), "Gen_C08Facts.v"), []byte(src), 0o644))
}

func lifecycleHistories() []*IHistory {
	return []*IHistory{
		{Own: true, Ops: []IOp{
			{K: "RegisterCoin", Base: 10, Aliases: []int{11, 12}}, {K: "RegisterERC20", Base: 20, Aliases: []int{13}}, {K: "Toggle", Key: 20},
			{K: "Fund", Denom: 10}, {K: "Fund", Denom: 0},
			{K: "ExportImport"},
			{K: "UpdateAlias", Denom: 10, Alias: 14}, {K: "Toggle", Key: 20}, {K: "RegisterCoin", Base: 30, Aliases: []int{15}},
			{K: "UpdateAlias", Denom: 10, Alias: 11}, {K: "Remove", Denom: 30}, {K: "RegisterCoin", Base: 30, Aliases: []int{11}},
		}},
		{Own: true, Extra: 104, Ops: []IOp{
			{K: "RegisterCoin", Base: 10, Aliases: []int{11}}, {K: "Fund", Denom: 10}, {K: "Fund", Denom: 0},
			{K: "ExportImport"},
			{K: "Toggle", Key: 10}, {K: "RegisterCoin", Base: 20, Aliases: []int{11}}, // (the alias of tka is accepted as an alias of tkb: C08-2)
		}},
	}
}

// universe: denoms 10,20,30 are bases (symbols TKA TKB TKC); 11..15 are alias denoms
var denomName = map[int]string{10: "tka", 20: "tkb", 30: "tkc", 11: "alpha", 12: "bravo", 13: "charlie", 14: "delta", 15: "echo"}
var denomIDs = []int{10, 11, 12, 13, 14, 15, 20, 30}
var baseIDs = []int{10, 20, 30}
var aliasIDs = []int{11, 12, 13, 14, 15}

func denomID(s string) (int, bool) {
	for k, v := range denomName {
		if v == s {
			return k, true
		}
	}
	return 0, false
}

type idxWorld struct {
	own     bool
	rep     *lib.Report
	h       *IHistory
	c       *lib.Chain
	contrID map[common.Address]int
	contrs  []common.Address // id 500+i
	user    lib.Key
}

func (w *idxWorld) cid(a common.Address) int {
	if id, ok := w.contrID[a]; ok {
		return id
	}
	id := 500 + len(w.contrs)
	w.contrID[a] = id
	w.contrs = append(w.contrs, a)
	return id
}

func zi(n int) string { return lib.Z(int64(n)) }
func ints(l []int) string {
	var s []string
	for _, v := range l {
		s = append(s, zi(v))
	}
	return lib.List(s)
}

func (o IOp) Coq() string {
	switch o.K {
	case "RegisterCoin":
		return fmt.Sprintf("(IRegisterCoin %d %s %d)", o.Base, ints(o.Aliases), o.CID)
	case "RegisterERC20":
		return fmt.Sprintf("(IRegisterERC20 %d %d %s)", o.CID, o.Base, ints(o.Aliases))
	case "Toggle":
		return fmt.Sprintf("(IToggle %s %d)", lib.Bool(o.ByC), o.Key)
	case "UpdateAlias":
		return fmt.Sprintf("(IUpdateAlias %d %d)", o.Denom, o.Alias)
	case "Remove":
		return fmt.Sprintf("(IRemove %d)", o.Denom)
	case "ExportImport":
		return "(IExportImport " + lib.Bool(o.Rebuild) + ")"
	case "Fund":
		return fmt.Sprintf("(* fund %d *)", o.Denom)
	}
	panic(o.K)
}

// dump reads the four raw erc20 indexes and the bank metadata, projected on the universe, in the model's order.
func (w *idxWorld) dump(ctx sdk.Context) (string, *idxDump) {
	c := w.c
	d := &idxDump{byDenom: map[int][2]int{}, byErc: map[int][2]int{}, alias: map[int]int{}, meta: map[int][]int{}, pairs: map[[2]int][2]bool{}}
	idOf := map[string][2]int{} // raw pair id -> (contract, denom)
	for _, kv := range c.DumpPrefix(ctx, erc20types.StoreKey, erc20types.KeyPrefixTokenPair) {
		var p erc20types.TokenPair
		c.App.AppCodec().MustUnmarshal(kv.V, &p)
		dn, ok := denomID(p.Denom)
		if !ok {
			continue // FX / WFX: outside the universe
		}
		k := [2]int{w.cid(p.GetERC20Contract()), dn}
		d.pairs[k] = [2]bool{p.Enabled, p.IsNativeCoin()}
		idOf[string(kv.K[1:])] = k
		if !bytes.Equal(kv.K[1:], p.GetID()) {
			d.bad = append(d.bad, "pair stored under a key that is not its id: "+p.Denom)
		}
	}
	for _, kv := range c.DumpPrefix(ctx, erc20types.StoreKey, erc20types.KeyPrefixTokenPairByDenom) {
		dn, ok := denomID(string(kv.K[1:]))
		if !ok {
			continue
		}
		id, known := idOf[string(kv.V)]
		if !known {
			id = [2]int{-1, -1}
			d.bad = append(d.bad, "by-denom entry points to a missing pair: "+string(kv.K[1:]))
		}
		d.byDenom[dn] = id
	}
	for _, kv := range c.DumpPrefix(ctx, erc20types.StoreKey, erc20types.KeyPrefixTokenPairByERC20) {
		addr := common.BytesToAddress(kv.K[1:])
		id, known := idOf[string(kv.V)]
		if !known {
			if _, isU := w.contrID[addr]; !isU {
				continue // WFX
			}
			id = [2]int{-1, -1}
			d.bad = append(d.bad, "by-contract entry points to a missing pair: "+addr.Hex())
		}
		d.byErc[w.cid(addr)] = id
	}
	for _, kv := range c.DumpPrefix(ctx, erc20types.StoreKey, erc20types.KeyPrefixAliasDenom) {
		a, ok := denomID(string(kv.K[1:]))
		if !ok {
			continue
		}
		b, ok2 := denomID(string(kv.V))
		if !ok2 {
			b = -1
		}
		d.alias[a] = b
	}
	for _, dn := range denomIDs {
		if md, ok := c.App.BankKeeper.GetDenomMetaData(ctx, denomName[dn]); ok {
			var al []int
			if len(md.DenomUnits) > 0 {
				for _, a := range md.DenomUnits[0].Aliases {
					id, ok := denomID(a)
					if !ok {
						id = -1
					}
					al = append(al, id)
				}
			}
			d.meta[dn] = al
		}
	}
	// render in the model's order: pairs contract-major over E x D; the others over D (resp. E) ascending
	E := make([]int, 0, len(w.contrs))
	for i := range w.contrs {
		E = append(E, 500+i)
	}
	var ps, bd, be, al, me []string
	for _, e := range E {
		for _, dn := range denomIDs {
			if v, ok := d.pairs[[2]int{e, dn}]; ok {
				ps = append(ps, fmt.Sprintf("(%d, %d, %s, %s)", e, dn, lib.Bool(v[0]), lib.Bool(v[1])))
			}
		}
	}
	for _, dn := range denomIDs {
		if v, ok := d.byDenom[dn]; ok {
			bd = append(bd, fmt.Sprintf("(%d, (%s, %s))", dn, zi(v[0]), zi(v[1])))
		}
		if v, ok := d.alias[dn]; ok {
			al = append(al, fmt.Sprintf("(%d, %s)", dn, zi(v)))
		}
		if v, ok := d.meta[dn]; ok {
			me = append(me, fmt.Sprintf("(%d, %s)", dn, ints(v)))
		}
	}
	for _, e := range E {
		if v, ok := d.byErc[e]; ok {
			be = append(be, fmt.Sprintf("(%d, (%s, %s))", e, zi(v[0]), zi(v[1])))
		}
	}
	return fmt.Sprintf("(mk_idump %s %s %s %s %s)", lib.List(ps), lib.List(bd), lib.List(be), lib.List(al), lib.List(me)), d
}

type idxDump struct {
	pairs   map[[2]int][2]bool
	byDenom map[int][2]int
	byErc   map[int][2]int
	alias   map[int]int
	meta    map[int][]int
	bad     []string
}

// monitor: the indexes describe the same set of pairs; alias index and bank metadata agree for registered denoms
func (d *idxDump) check() []string {
	out := append([]string{}, d.bad...)
	for k := range d.pairs {
		if v, ok := d.byDenom[k[1]]; !ok || v != k {
			out = append(out, fmt.Sprintf("pair (%d,%d) is not reachable through the denom index", k[0], k[1]))
		}
		if v, ok := d.byErc[k[0]]; !ok || v != k {
			out = append(out, fmt.Sprintf("pair (%d,%d) is not reachable through the contract index", k[0], k[1]))
		}
	}
	for dn, id := range d.byDenom {
		if _, ok := d.pairs[id]; !ok || id[1] != dn {
			out = append(out, fmt.Sprintf("denom index entry %d -> (%d,%d) has no matching pair", dn, id[0], id[1]))
		}
	}
	for e, id := range d.byErc {
		if _, ok := d.pairs[id]; !ok || id[0] != e {
			out = append(out, fmt.Sprintf("contract index entry %d -> (%d,%d) has no matching pair", e, id[0], id[1]))
		}
	}
	for a, b := range d.alias {
		if _, ok := d.byDenom[b]; !ok {
			out = append(out, fmt.Sprintf("alias %d points to denom %d which is not registered", a, b))
		}
		if _, ok := d.byDenom[a]; ok {
			out = append(out, fmt.Sprintf("alias %d is itself a registered denom", a))
		}
		found := false
		for _, m := range d.meta[b] {
			found = found || m == a
		}
		if !found {
			out = append(out, fmt.Sprintf("alias %d -> %d is missing from the bank metadata of %d", a, b, b))
		}
	}
	for dn := range d.byDenom {
		for _, a := range d.meta[dn] {
			if d.alias[a] != dn {
				out = append(out, fmt.Sprintf("bank metadata of registered denom %d lists alias %d which the alias index does not map to it", dn, a))
			}
		}
	}
	sort.Strings(out)
	return out
}

func indexHistory(c *lib.Chain, hseed int64, rep *lib.Report) string {
	r := lib.NewRand(hseed)
	return execIndex(c, &IHistory{Seed: hseed}, r, nil, rep)
}

func execIndex(c *lib.Chain, h *IHistory, r *lib.Rand, fixed []IOp, rep *lib.Report) string {
	if h.Own {
		// a chain of its own: the operations go on its block context directly, ExportImport commits and restarts it
		c = lib.NewChain(c.Seed*31+h.Seed%1000+7, 1, nil)
		lib.Must(c.NextBlock())
	} else {
		base := c.Ctx
		branch, _ := base.CacheContext()
		c.Ctx = branch
		defer func() { c.Ctx = base }()
	}
	w := &idxWorld{own: h.Own, rep: rep, h: h, c: c, contrID: map[common.Address]int{}, user: lib.EthKey(c.Seed, "idxuser", 0)}
	c.EnsureAccount(c.Ctx, w.user.Acc())
	for i := 0; i < h.Extra; i++ {
		sym := fmt.Sprintf("XT%c%c%c", 'A'+i/26/26%26, 'A'+i/26%26, 'A'+i%26)
		_, err := c.App.Erc20Keeper.RegisterNativeCoin(c.Ctx, fxtypes.GetCrossChainMetadataManyToOne("extra "+sym, sym, 18))
		lib.Must(err)
	}
	n := 8 + r.Pick(9)
	if fixed != nil {
		n = len(fixed)
	}
	var steps []string
	accepted := 0
	imported, aliasLost := false, false
	registered := func() []int {
		var out []int
		for _, b := range baseIDs {
			if w.c.App.Erc20Keeper.IsDenomRegistered(w.c.Ctx, denomName[b]) {
				out = append(out, b)
			}
		}
		return out
	}
	pickAliases := func() []int {
		var al []int
		for _, a := range aliasIDs {
			if r.Chance(30) {
				al = append(al, a)
			}
		}
		if r.Chance(6) && len(al) > 0 {
			al = append(al, al[0]) // duplicate
		}
		if r.Chance(14) {
			b := baseIDs[r.Pick(3)] // a base denom as alias ...
			if regs := registered(); len(regs) > 0 && r.Chance(70) {
				b = regs[r.Pick(len(regs))] // ... mostly the base denom of a pair that exists at this point of the history
			}
			al = append(al, b)
		}
		return al
	}
	for i := 0; i < n; i++ {
		var o IOp
		if fixed != nil {
			o = fixed[i]
		} else {
			regs := registered()
			switch k := r.Pick(10); {
			case k < 3 || len(regs) == 0:
				o = IOp{K: "RegisterCoin", Base: baseIDs[r.Pick(3)], Aliases: pickAliases()}
				if r.Chance(40) {
					o.K = "RegisterERC20"
				}
			case k < 5:
				o = IOp{K: "Toggle", Key: regs[r.Pick(len(regs))]}
				if r.Chance(40) && len(w.contrs) > 0 {
					o.ByC, o.Key = true, 500+r.Pick(len(w.contrs))
				}
			case k < 8:
				dn := regs[r.Pick(len(regs))]
				if r.Chance(10) {
					dn = denomIDs[r.Pick(len(denomIDs))]
				}
				o = IOp{K: "UpdateAlias", Denom: dn, Alias: aliasIDs[r.Pick(len(aliasIDs))]}
				if r.Chance(8) {
					o.Alias = baseIDs[r.Pick(3)]
				}
			default:
				o = IOp{K: "Remove", Denom: regs[r.Pick(len(regs))]}
			}
		}
		err := w.exec(&o)
		o.OK = err == nil
		if err != nil {
			o.Err = err.Error()
			if len(o.Err) > 120 {
				o.Err = o.Err[:120]
			}
		} else {
			accepted++
		}
		dump, d := w.dump(w.c.Ctx)
		h.Ops = append(h.Ops, o)
		if o.K == "Fund" {
			continue // no registry operation: not a model step
		}
		steps = append(steps, fmt.Sprintf("(%s, %s, %s)", o.Coq(), lib.Bool(o.OK), dump))
		rep.Count("idx:" + o.K + ":" + map[bool]string{true: "ok", false: "rej"}[o.OK])
		if o.K == "ExportImport" && o.OK {
			d.bad = append(d.bad, w.rawCheck(w.c.Ctx)...) // every pair of the store, also those outside the universe (FX, scale pairs)
		}
		if o.K == "ExportImport" && o.OK {
			imported = true
		}
		for _, bad := range d.check() {
			if imported && strings.Contains(bad, "which the alias index does not map to it") {
				// (C08-2) the alias index is not part of the erc20 genesis: empty after an import while the bank metadata keeps the aliases
				if !aliasLost {
					aliasLost = true
					rep.Fail(lib.Failure{Kind: "monitor", What: "after a genesis export + import (" + o.Coq() + "): " + bad + " — the erc20 genesis carries params and pairs only, the alias index is neither exported nor rebuilt",
						Sig: "C08:export-import:alias-index-lost", Replay: map[string]interface{}{"part": "index", "history": h}})
				}
				continue
			}
			rep.Fail(lib.Failure{Kind: "monitor", What: "erc20 indexes inconsistent after " + o.Coq() + ": " + bad,
				Sig: "C08:indexes:" + o.K, Replay: map[string]interface{}{"part": "index", "history": h}})
			break
		}
	}
	key := ""
	for _, o := range h.Ops {
		key += o.Coq() + map[bool]string{true: "+", false: "-"}[o.OK]
	}
	rep.Case("A:"+key, accepted >= 2)
	E := make([]int, 0, len(w.contrs))
	for i := range w.contrs {
		E = append(E, 500+i)
	}
	return fmt.Sprintf("mk_icase %s %s\n   %s", ints(denomIDs), ints(E), lib.List(steps))
}

type rawReg struct {
	lines []string             // "denom erc20 enabled owner" of every pair in the pair store, sorted
	owned []string             // denoms of the module-owned pairs
	books map[string][2]string // denom -> (escrow, ERC-20 totalSupply)
}

// rawPairs reads the whole pair store of chain c (not only the universe of the model) and the books of module-owned pairs.
func (w *idxWorld) rawPairs(c *lib.Chain, ctx sdk.Context) *rawReg {
	r := &rawReg{books: map[string][2]string{}}
	for _, kv := range c.DumpPrefix(ctx, erc20types.StoreKey, erc20types.KeyPrefixTokenPair) {
		var p erc20types.TokenPair
		c.App.AppCodec().MustUnmarshal(kv.V, &p)
		r.lines = append(r.lines, fmt.Sprintf("%s %s enabled=%v owner=%d", p.Denom, p.Erc20Address, p.Enabled, p.ContractOwner))
		if p.IsNativeCoin() {
			holder := sdk.AccAddress(lib.ModuleAcc(erc20types.ModuleName))
			if p.Denom == fxtypes.DefaultDenom {
				holder = p.GetERC20Contract().Bytes()
			}
			r.owned = append(r.owned, p.Denom)
			r.books[p.Denom] = [2]string{c.Bal(ctx, holder, p.Denom).String(), c.ERC20TotalSupply(ctx, p.GetERC20Contract()).String()}
		}
	}
	sort.Strings(r.lines)
	sort.Strings(r.owned)
	return r
}

func diffLines(a, b []string) string {
	in := func(l []string) map[string]bool {
		m := map[string]bool{}
		for _, x := range l {
			m[x] = true
		}
		return m
	}
	ma, mb := in(a), in(b)
	var out []string
	for _, x := range a {
		if !mb[x] {
			out = append(out, "lost: "+x)
		}
	}
	for _, x := range b {
		if !ma[x] {
			out = append(out, "new: "+x)
		}
	}
	if len(a) != len(b) && len(out) == 0 {
		out = append(out, "a pair is stored more than once")
	}
	if len(out) > 4 {
		out = append(out[:4], fmt.Sprintf("... (%d differences)", len(out)))
	}
	return strings.Join(out, "; ")
}

// rawCheck: the three erc20 indexes over ALL pairs: every pair is reachable through its denom and its contract, every
// index entry leads to a pair with that denom / contract, no denom and no contract belongs to two pairs.
func (w *idxWorld) rawCheck(ctx sdk.Context) []string {
	c := w.c
	var out []string
	byID := map[string]erc20types.TokenPair{}
	denoms, ercs := map[string]string{}, map[string]string{}
	for _, kv := range c.DumpPrefix(ctx, erc20types.StoreKey, erc20types.KeyPrefixTokenPair) {
		var p erc20types.TokenPair
		c.App.AppCodec().MustUnmarshal(kv.V, &p)
		byID[string(kv.K[1:])] = p
		if o, dup := denoms[p.Denom]; dup {
			out = append(out, fmt.Sprintf("denom %s belongs to two pairs (%s and %s)", p.Denom, o, p.Erc20Address))
		}
		denoms[p.Denom] = p.Erc20Address
		if o, dup := ercs[p.Erc20Address]; dup {
			out = append(out, fmt.Sprintf("contract %s belongs to two pairs (%s and %s)", p.Erc20Address, o, p.Denom))
		}
		ercs[p.Erc20Address] = p.Denom
	}
	nd, ne := 0, 0
	for _, kv := range c.DumpPrefix(ctx, erc20types.StoreKey, erc20types.KeyPrefixTokenPairByDenom) {
		nd++
		if p, ok := byID[string(kv.V)]; !ok || p.Denom != string(kv.K[1:]) {
			out = append(out, "denom index entry "+string(kv.K[1:])+" does not lead to a pair of that denom")
		}
	}
	for _, kv := range c.DumpPrefix(ctx, erc20types.StoreKey, erc20types.KeyPrefixTokenPairByERC20) {
		ne++
		if p, ok := byID[string(kv.V)]; !ok || !bytes.Equal(p.GetERC20Contract().Bytes(), kv.K[1:]) {
			out = append(out, "contract index entry "+common.BytesToAddress(kv.K[1:]).Hex()+" does not lead to a pair of that contract")
		}
	}
	for id, p := range byID {
		if v := ctx.KVStore(c.App.GetKey(erc20types.StoreKey)).Get(append(append([]byte{}, erc20types.KeyPrefixTokenPairByDenom...), []byte(p.Denom)...)); string(v) != id {
			out = append(out, "pair "+p.Denom+" / "+p.Erc20Address+" is not what the denom index holds for "+p.Denom)
		}
		if v := ctx.KVStore(c.App.GetKey(erc20types.StoreKey)).Get(append(append([]byte{}, erc20types.KeyPrefixTokenPairByERC20...), p.GetERC20Contract().Bytes()...)); string(v) != id {
			out = append(out, "pair "+p.Denom+" / "+p.Erc20Address+" is not what the contract index holds for its contract")
		}
	}
	if nd != len(byID) || ne != len(byID) {
		out = append(out, fmt.Sprintf("%d pairs, %d denom index entries, %d contract index entries", len(byID), nd, ne))
	}
	sort.Strings(out)
	return out
}

func names(ids []int) []string {
	var out []string
	for _, i := range ids {
		out = append(out, denomName[i])
	}
	return out
}

func (w *idxWorld) exec(o *IOp) error {
	c := w.c
	switch o.K {
	case "RegisterCoin":
		sym := strings.ToUpper(denomName[o.Base])
		md := fxtypes.GetCrossChainMetadataManyToOne(sym+" token", sym, 18, names(o.Aliases)...)
		msg := &erc20types.MsgRegisterCoin{Authority: lib.GovAuthority(), Metadata: md}
		o.CID = 500 + len(w.contrs) // the id the new contract will get if the registration goes through
		if err := msg.ValidateBasic(); err != nil {
			return err
		}
		return c.Try(func(ctx sdk.Context) error {
			res, err := c.App.Erc20Keeper.RegisterCoin(ctx, msg)
			if err == nil {
				o.CID = w.cid(res.Pair.GetERC20Contract())
			}
			return err
		})
	case "RegisterERC20":
		sym := strings.ToUpper(denomName[o.Base])
		owner := lib.EthKey(c.Seed, "idxowner", len(w.contrs))
		addr, err := c.DeployFIP20(owner, sym+" token", sym)
		if err != nil {
			return err
		}
		o.CID = w.cid(addr)
		msg := &erc20types.MsgRegisterERC20{Authority: lib.GovAuthority(), Erc20Address: addr.Hex(), Aliases: names(o.Aliases)}
		if err := msg.ValidateBasic(); err != nil {
			return err
		}
		return c.Try(func(ctx sdk.Context) error {
			_, err := c.App.Erc20Keeper.RegisterERC20(ctx, msg)
			return err
		})
	case "Toggle":
		tok := denomName[o.Key]
		if o.ByC {
			if o.Key-500 >= len(w.contrs) {
				return errors.New("unknown contract")
			}
			tok = w.contrs[o.Key-500].Hex()
		}
		return c.Try(func(ctx sdk.Context) error {
			_, err := c.App.Erc20Keeper.ToggleTokenConversion(ctx, &erc20types.MsgToggleTokenConversion{Authority: lib.GovAuthority(), Token: tok})
			return err
		})
	case "UpdateAlias":
		return c.Try(func(ctx sdk.Context) error {
			msg := &erc20types.MsgUpdateDenomAlias{Authority: lib.GovAuthority(), Denom: denomName[o.Denom], Alias: denomName[o.Alias]}
			if err := msg.ValidateBasic(); err != nil {
				return err
			}
			_, err := c.App.Erc20Keeper.UpdateDenomAlias(ctx, msg)
			return err
		})
	case "Fund":
		// live books: the user gets coins of a registered module-owned denom (or FX) and converts part of them
		dn := fxtypes.DefaultDenom
		if o.Denom != 0 {
			dn = denomName[o.Denom]
		}
		return c.Try(func(ctx sdk.Context) error {
			pair, ok := c.App.Erc20Keeper.GetTokenPair(ctx, dn)
			if !ok || !pair.IsNativeCoin() {
				return errors.New("no module-owned pair")
			}
			cs := sdk.NewCoins(sdk.NewCoin(dn, sdkmath.NewInt(1000)))
			if err := c.App.BankKeeper.MintCoins(ctx, "mint", cs); err != nil {
				return err
			}
			if err := c.App.BankKeeper.SendCoinsFromModuleToAccount(ctx, "mint", w.user.Acc(), cs); err != nil {
				return err
			}
			_, err := c.App.Erc20Keeper.ConvertCoin(ctx, &erc20types.MsgConvertCoin{Coin: sdk.NewCoin(dn, sdkmath.NewInt(400)),
				Receiver: w.user.Hex().Hex(), Sender: w.user.Acc().String()})
			return err
		})
	case "ExportImport":
		if !w.own {
			return errors.New("export/import needs a chain of its own")
		}
		o.Rebuild = exportRebuilds()
		fail := func(sig, what string) {
			w.rep.Fail(lib.Failure{Kind: "monitor", What: what, Sig: sig, Replay: map[string]interface{}{"part": "index", "history": w.h}})
		}
		nc, err := c.ExportImport()
		if err != nil {
			fail("C08:export-import:refused", "the application cannot be restarted from its own exported genesis: "+err.Error())
			return err
		}
		// what was committed before the export (c is now at the exported state) against what the new chain holds
		before, after := w.rawPairs(c, c.Ctx), w.rawPairs(nc, nc.Ctx)
		if d := diffLines(before.lines, after.lines); d != "" {
			fail("C08:export-import:pairs-changed", fmt.Sprintf("the set of registered token pairs changed across genesis export + import (%d pairs before, %d after): %s", len(before.lines), len(after.lines), d))
		}
		for _, k := range before.owned {
			b, a := before.books[k], after.books[k]
			if _, still := after.books[k]; !still {
				continue // (the pair is gone: reported above)
			}
			if a != b || a[0] != a[1] {
				fail("C08:export-import:books", fmt.Sprintf("pair %s: (escrowed coins, ERC-20 totalSupply) = (%s, %s) before the export and (%s, %s) after the import", k, b[0], b[1], a[0], a[1]))
				break
			}
		}
		w.c = nc
		return nil
	case "Remove":
		// the pair's contract self-destructs (account deleted at the end of that EVM transaction); the next conversion
		// attempt removes the pair and returns nil to persist the removal
		pair, ok := c.App.Erc20Keeper.GetTokenPair(c.Ctx, denomName[o.Denom])
		if !ok {
			return errors.New("not registered")
		}
		return c.Try(func(ctx sdk.Context) error {
			if err := c.App.EvmKeeper.DeleteAccount(ctx, pair.GetERC20Contract()); err != nil {
				return err
			}
			_, err := c.App.Erc20Keeper.ConvertCoin(ctx, &erc20types.MsgConvertCoin{Coin: sdk.NewCoin(pair.Denom, sdkmath.NewInt(1)),
				Receiver: w.user.Hex().Hex(), Sender: w.user.Acc().String()})
			if err != nil {
				return err
			}
			if _, still := c.App.Erc20Keeper.GetTokenPair(ctx, pair.Denom); still {
				return errors.New("pair not removed")
			}
			return nil
		})
	}
	panic(o.K)
}

// ======================================================================================================
// part B: mixed EVM transactions

type MInstr struct {
	K string `json:"k"` // Transfer Approve BalanceOfC BalanceOfX CrossChain BridgeCall
	X int64  `json:"x,omitempty"`
}

type MixCase struct {
	Seed int64    `json:"prog_seed"`
	N    int64    `json:"n"`
	P    int64    `json:"pending_transfer"` // the contract's own unbatched crossChain transfer made before the transaction
	Q    int64    `json:"pending_claim"`    // observed, not yet executed SendToFx (erc20 target) for the contract
	Prog []MInstr `json:"prog"`
	OK   bool     `json:"ok"`
	Obs  []string `json:"obs,omitempty"`
}

type mixWorld struct {
	c    *lib.Chain
	x    *lib.XChain
	tok  *lib.Token
	u    lib.Key
	C, X common.Address
}

func setupMixed(c *lib.Chain, x *lib.XChain) *mixWorld {
	tok, err := c.SetupModuleOwned("USDM", 7, []string{"eth"}, "")
	lib.Must(err)
	u := lib.EthKey(c.Seed, "mixuser", 0)
	c.EnsureAccount(c.Ctx, u.Acc())
	// bridge in: the eth module now holds the bridge denom, u holds the coins, an external height is observed
	n := uint64(1)
	for _, e := range x.ObserveAll(func() crosschaintypes.ExternalClaim {
		return &crosschaintypes.MsgSendToFxClaim{EventNonce: n, BlockHeight: 1001, TokenContract: tok.Alias("eth").Contract, Amount: sdkmath.NewInt(1_000_000),
			Sender: lib.ExternalAccount(c.Seed, "eth", 0), Receiver: u.Acc().String()}
	}) {
		_ = e
	}
	lib.Must(c.Try(func(ctx sdk.Context) error { return x.Keeper.ExecuteClaim(ctx, n) }))
	return &mixWorld{c: c, x: x, tok: tok, u: u,
		C: common.HexToAddress("0xC0000000000000000000000000000000000000c8"), X: common.HexToAddress("0xD0000000000000000000000000000000000000d1")}
}

func (i MInstr) Coq() string {
	switch i.K {
	case "Transfer":
		return fmt.Sprintf("MTransfer 300 %d", i.X)
	case "Approve":
		return fmt.Sprintf("MApprove 24 %d", i.X)
	case "BalanceOfC":
		return "MBalanceOf 200"
	case "BalanceOfX":
		return "MBalanceOf 300"
	case "CrossChain":
		return fmt.Sprintf("MCrossChain %d", i.X)
	case "BridgeCall":
		return fmt.Sprintf("MBridgeCall %d", i.X)
	case "Cancel":
		return "MCancel"
	case "ExecClaim":
		return "MExecClaim"
	}
	panic(i.K)
}

func genMix(r *lib.Rand, i int, seed int64) *MixCase {
	n := int64(100 + r.Intn(900))
	mc := &MixCase{Seed: seed, N: n, P: int64(2 + r.Intn(60)), Q: int64(1 + r.Intn(80))}
	mode := i % 4 // 0,1: anything; 2: running EVM only; 3: bridge calls first
	k := 1 + r.Pick(5)
	amt := func() int64 {
		if r.Chance(8) {
			return n + 1 + int64(r.Intn(50))
		}
		return 1 + int64(r.Intn(int(n/2)))
	}
	var front, rest []MInstr
	for j := 0; j < k; j++ {
		var in MInstr
		switch r.Pick(7) {
		case 0, 1:
			in = MInstr{K: "Transfer", X: amt()}
		case 2:
			in = MInstr{K: "BalanceOfC"}
			if r.Chance(40) {
				in.K = "BalanceOfX"
			}
		case 3, 4:
			a := 2 + amt()
			rest = append(rest, MInstr{K: "Approve", X: a + int64(r.Pick(3)) - 1})
			in = MInstr{K: "CrossChain", X: a}
		default:
			switch r.Pick(4) {
			case 0:
				in = MInstr{K: "Cancel"}
			case 1:
				in = MInstr{K: "ExecClaim"}
			default:
				in = MInstr{K: "BridgeCall", X: amt()}
			}
		}
		isNested := in.K == "BridgeCall" || in.K == "Cancel" || in.K == "ExecClaim"
		if isNested && mode == 2 {
			in = MInstr{K: "Transfer", X: amt()}
			isNested = false
		}
		if isNested && mode == 3 {
			front = append(front, in)
			continue
		}
		rest = append(rest, in)
	}
	mc.Prog = append(front, rest...)
	return mc
}

func (m *mixWorld) run(mc *MixCase, rep *lib.Report) string {
	c := m.c
	base := c.Ctx
	branch, _ := base.CacheContext()
	c.Ctx = branch
	defer func() { c.Ctx = base }()
	ctx := c.Ctx
	tokAddr := m.tok.ERC20
	// before the transaction: the contract gets N+P tokens, sends P out with crossChain (its own unbatched transfer #id,
	// with the ERC-20 relation), and a SendToFx of Q for it (erc20 target) is observed but not yet executed
	c.EnsureAccount(ctx, m.C.Bytes())
	_, err0 := c.App.Erc20Keeper.ConvertCoin(ctx, &erc20types.MsgConvertCoin{Coin: lib.Coin(m.tok.Base, mc.N+mc.P), Receiver: m.C.Hex(), Sender: m.u.Acc().String()})
	lib.Must(err0)
	{
		pre := &lib.Asm{}
		d, _ := fip20.Pack("approve", lib.CrosschainPrecompile, big.NewInt(mc.P))
		pre.Call(lib.CALL, tokAddr, 0, nil, d).RequireSuccess()
		d2, err := precompile.NewCrossChainMethod(nil).PackInput(crosschaintypes.CrossChainArgs{Token: tokAddr, Receipt: lib.ExternalAccount(c.Seed, "eth", 1),
			Amount: big.NewInt(mc.P - 1), Fee: big.NewInt(1), Target: fxtypes.MustStrToByte32("eth"), Memo: ""})
		lib.Must(err)
		pre.Call(lib.CALL, lib.CrosschainPrecompile, 0, nil, d2).RequireSuccess().Stop()
		c.InstallCode(ctx, m.C, pre.B)
		if r0 := c.EvmCall(ctx, m.u.Hex(), &m.C, nil, 8_000_000, nil); r0.Err != nil || r0.Failed {
			panic(fmt.Sprint("mixed set-up transaction failed: ", r0.Err, r0.VmError))
		}
	}
	var ids []uint64
	for _, tx := range m.x.Keeper.GetUnbatchedTransactions(ctx) {
		ids = append(ids, tx.Id)
	}
	if len(ids) != 1 {
		panic("mixed set-up: expected one pending transfer")
	}
	nextID := ids[0] + 1
	claimNonce := m.x.Keeper.GetLastObservedEventNonce(ctx) + 1
	for _, e := range m.x.ObserveAll(func() crosschaintypes.ExternalClaim {
		return &crosschaintypes.MsgSendToFxClaim{EventNonce: claimNonce, BlockHeight: 1002, TokenContract: m.tok.Alias("eth").Contract, Amount: sdkmath.NewInt(mc.Q),
			Sender: lib.ExternalAccount(c.Seed, "eth", 0), Receiver: sdk.AccAddress(m.C.Bytes()).String(), TargetIbc: fmt.Sprintf("%x", "erc20")}
	}) {
		_ = e
	}
	// assemble the contract
	asm := &lib.Asm{}
	for _, in := range mc.Prog {
		switch in.K {
		case "Transfer":
			d, _ := fip20.Pack("transfer", m.X, big.NewInt(in.X))
			asm.Call(lib.CALL, tokAddr, 0, nil, d).RequireSuccess()
		case "Approve":
			d, _ := fip20.Pack("approve", lib.CrosschainPrecompile, big.NewInt(in.X))
			asm.Call(lib.CALL, tokAddr, 0, nil, d).RequireSuccess()
		case "BalanceOfC", "BalanceOfX":
			a := m.C
			if in.K == "BalanceOfX" {
				a = m.X
			}
			d, _ := fip20.Pack("balanceOf", a)
			asm.Call(lib.STATICCALL, tokAddr, 0, nil, d).RequireSuccess()
		case "CrossChain":
			d, err := precompile.NewCrossChainMethod(nil).PackInput(crosschaintypes.CrossChainArgs{Token: tokAddr, Receipt: lib.ExternalAccount(c.Seed, "eth", 1),
				Amount: big.NewInt(in.X - 1), Fee: big.NewInt(1), Target: fxtypes.MustStrToByte32("eth"), Memo: ""})
			lib.Must(err)
			asm.Call(lib.CALL, lib.CrosschainPrecompile, 0, nil, d).RequireSuccess()
			ids = append(ids, nextID)
			nextID++
		case "Cancel":
			id := uint64(0) // no own transfer left: the call fails
			if len(ids) > 0 {
				id = ids[len(ids)-1]
				ids = ids[:len(ids)-1]
			}
			d, err := precompile.NewCancelSendToExternalMethod(nil).PackInput("eth", new(big.Int).SetUint64(id))
			lib.Must(err)
			asm.Call(lib.CALL, lib.CrosschainPrecompile, 0, nil, d).RequireSuccess()
		case "ExecClaim":
			d, err := precompile.NewExecuteClaimMethod(nil).PackInput(crosschaintypes.ExecuteClaimArgs{Chain: "eth", EventNonce: new(big.Int).SetUint64(claimNonce)})
			lib.Must(err)
			asm.Call(lib.CALL, lib.CrosschainPrecompile, 0, nil, d).RequireSuccess()
		case "BridgeCall":
			d, err := precompile.NewBridgeCallMethod(nil).PackInput(crosschaintypes.BridgeCallArgs{DstChain: "eth", Refund: m.C, Tokens: []common.Address{tokAddr},
				Amounts: []*big.Int{big.NewInt(in.X)}, To: common.HexToAddress("0x00000000000000000000000000000000000000e1"), Data: []byte{}, Value: big.NewInt(0), Memo: []byte{}})
			lib.Must(err)
			asm.Call(lib.CALL, lib.CrosschainPrecompile, 0, nil, d).RequireSuccess()
		}
	}
	asm.Stop()
	c.InstallCode(ctx, m.C, asm.B)
	res := c.EvmCall(ctx, m.u.Hex(), &m.C, nil, 8_000_000, nil)
	mc.OK = res.Err == nil && !res.Failed
	// observables
	total := c.ERC20TotalSupply(ctx, tokAddr)
	bC := c.ERC20BalanceOf(ctx, tokAddr, m.C)
	bX := c.ERC20BalanceOf(ctx, tokAddr, m.X)
	bM := c.ERC20BalanceOf(ctx, tokAddr, lib.ModuleHex(erc20types.ModuleName))
	esc := c.Bal(ctx, lib.ModuleAcc(erc20types.ModuleName), m.tok.Base)
	out := new(big.Int)
	for _, tx := range m.x.Keeper.GetUnbatchedTransactions(ctx) {
		out.Add(out, tx.Token.Amount.BigInt())
		out.Add(out, tx.Fee.Amount.BigInt())
	}
	m.x.Keeper.IterateOutgoingBridgeCalls(ctx, func(o *crosschaintypes.OutgoingBridgeCall) bool {
		for _, t := range o.Tokens {
			out.Add(out, t.Amount.BigInt())
		}
		return false
	})
	obs := []*big.Int{total, bC, bX, bM, esc, out}
	var obsS, prog []string
	for _, v := range obs {
		obsS = append(obsS, lib.ZBig(v))
		mc.Obs = append(mc.Obs, v.String())
	}
	hasPre, afterTouch, touched := false, false, false
	shape := ""
	for _, in := range mc.Prog {
		prog = append(prog, in.Coq())
		if in.K == "BridgeCall" || in.K == "Cancel" || in.K == "ExecClaim" {
			hasPre = true
			if touched && !afterTouch {
				afterTouch = true
				shape = map[string]string{"BridgeCall": "bridgeCall", "Cancel": "cancelSendToExternal", "ExecClaim": "executeClaim"}[in.K]
			}
		} else {
			touched = true // every other instruction reads or writes the token's storage through the outer StateDB
			if in.K == "CrossChain" {
				hasPre = true
			}
		}
	}
	rep.Case("B:"+strings.Join(prog, ";"), mc.OK && hasPre)
	rep.Count("mix:" + map[bool]string{true: "ok", false: "reverted"}[mc.OK])
	rep.Count(fmt.Sprintf("mix:len%d", len(mc.Prog)))
	// monitor: the pair books after the transaction
	sum := new(big.Int).Add(bC, bX)
	sum.Add(sum, bM)
	holdersPlus := new(big.Int).Add(sum, out) // what C, X hold plus what left through the bridge
	_ = holdersPlus
	if total.Cmp(esc) != 0 || sum.Cmp(total) != 0 {
		pat := "unexplained"
		if afterTouch && mc.OK {
			pat = shape + "-after-token-access"
		}
		rep.Fail(lib.Failure{Kind: "monitor",
			What: fmt.Sprintf("mixed EVM transaction [%s] by a contract holding %d tokens: after it totalSupply=%s, escrow=%s, balances C=%s X=%s module=%s (sum %s), bridged out=%s — the books are unbalanced",
				strings.Join(prog, "; "), mc.N, total, esc, bC, bX, bM, sum, out),
			Sig: "C08:mixed-evm:" + pat, Replay: map[string]interface{}{"part": "mixed", "case": mc}})
	}
	return fmt.Sprintf("mk_mcase %d %d %d %s %s %s", mc.N, mc.P, mc.Q, lib.List(prog), lib.Bool(mc.OK), lib.List(obsS))
}

// ======================================================================================================

func replay(c *lib.Chain, x *lib.XChain, rep *lib.Report) {
	b, err := os.ReadFile(os.Getenv("VERIF_REPLAY"))
	lib.Must(err)
	var doc struct {
		Replay struct {
			Part    string    `json:"part"`
			History *IHistory `json:"history"`
			Case    json.RawMessage `json:"case"`
		} `json:"replay"`
	}
	lib.Must(json.Unmarshal(b, &doc))
	switch doc.Replay.Part {
	case "index":
		h := &IHistory{Seed: doc.Replay.History.Seed, Own: doc.Replay.History.Own, Extra: doc.Replay.History.Extra}
		execIndex(c, h, lib.NewRand(h.Seed), doc.Replay.History.Ops, rep)
		for _, o := range h.Ops {
			fmt.Printf("%-50s ok=%v %s\n", o.Coq(), o.OK, o.Err)
		}
	case "mixed":
		m := setupMixed(c, x)
		var in MixCase
		lib.Must(json.Unmarshal(doc.Replay.Case, &in))
		mc := &MixCase{Seed: in.Seed, N: in.N, P: in.P, Q: in.Q, Prog: in.Prog}
		fmt.Println(m.run(mc, rep))
	case "legacy":
		var gc GCase
		lib.Must(json.Unmarshal(doc.Replay.Case, &gc))
		fmt.Println(legacyCase(c, &gc, true, rep))
	}
	for _, f := range rep.Failures {
		fmt.Println("FAILURE:", f.Sig, "—", f.What)
	}
	if len(rep.Failures) == 0 {
		fmt.Println("no monitor failure on replay")
	}
	rep.Write()
}
