package main

import (
	"fmt"
	"math/big"

	sdkmath "cosmossdk.io/math"
	sdk "github.com/cosmos/cosmos-sdk/types"
	"github.com/ethereum/go-ethereum/common"

	"github.com/functionx/fx-core/v8/contract"
	"github.com/functionx/fx-core/v8/x/crosschain/precompile"
	crosschaintypes "github.com/functionx/fx-core/v8/x/crosschain/types"
	erc20types "github.com/functionx/fx-core/v8/x/erc20/types"

	"fxverif/lib"
)

func main() {
	c := lib.NewChain(1, 1, nil)
	x := c.X("eth")
	x.SetupOracles([]int64{10000, 10000, 10000})
	lib.Must(c.NextBlock())
	mod, err := c.SetupModuleOwned("USDT", 1, []string{"eth"}, "")
	lib.Must(err)
	u := lib.EthKey(1, "user", 0)
	c.EnsureAccount(c.Ctx, u.Acc())
	// bridge in 1000 usdt to u via eth
	n := uint64(0)
	claim := func(mk func(n uint64) crosschaintypes.ExternalClaim) error {
		n++
		nn := n
		for _, e := range x.ObserveAll(func() crosschaintypes.ExternalClaim { return mk(nn) }) {
			if e != nil {
				fmt.Println("claim err", e)
			}
		}
		return c.Try(func(ctx sdk.Context) error { return x.Keeper.ExecuteClaim(ctx, nn) })
	}
	lib.Must(claim(func(n uint64) crosschaintypes.ExternalClaim {
		return &crosschaintypes.MsgSendToFxClaim{EventNonce: n, BlockHeight: 1001, TokenContract: mod.Alias("eth").Contract, Amount: sdkmath.NewInt(1000), Sender: lib.ExternalAccount(1, "eth", 0), Receiver: u.Acc().String()}
	}))
	C := common.HexToAddress("0xC0000000000000000000000000000000000000C1")
	X := common.HexToAddress("0xD0000000000000000000000000000000000000D1")
	fip := contract.GetFIP20().ABI
	a, b := int64(30), int64(50)
	transfer, _ := fip.Pack("transfer", X, big.NewInt(a))
	bc, err := precompile.NewBridgeCallMethod(nil).PackInput(crosschaintypes.BridgeCallArgs{
		DstChain: "eth", Refund: C, Tokens: []common.Address{mod.ERC20}, Amounts: []*big.Int{big.NewInt(b)},
		To: common.HexToAddress(lib.ExternalAccount(1, "eth", 5)), Data: []byte{}, Value: big.NewInt(0), Memo: []byte{},
	})
	lib.Must(err)
	for variant := 0; variant < 3; variant++ {
		asm := &lib.Asm{}
		switch variant {
		case 0: // transfer then bridgeCall
			asm.Call(lib.CALL, mod.ERC20, 0, nil, transfer).RequireSuccess()
			asm.Call(lib.CALL, lib.CrosschainPrecompile, 0, nil, bc).RequireSuccess()
		case 1: // bridgeCall then transfer
			asm.Call(lib.CALL, lib.CrosschainPrecompile, 0, nil, bc).RequireSuccess()
			asm.Call(lib.CALL, mod.ERC20, 0, nil, transfer).RequireSuccess()
		case 2: // bridgeCall only
			asm.Call(lib.CALL, lib.CrosschainPrecompile, 0, nil, bc).RequireSuccess()
		}
		asm.Stop()
		cctx, _ := c.Ctx.CacheContext()
		c.InstallCode(cctx, C, asm.B)
		c.EnsureAccount(cctx, C.Bytes())
		// give C 100 USDT erc20
		_, err := c.App.Erc20Keeper.ConvertCoin(cctx, &erc20types.MsgConvertCoin{Coin: lib.Coin("usdt", 100), Receiver: C.Hex(), Sender: u.Acc().String()})
		lib.Must(err)
		show := func(tag string) {
			fmt.Printf("%s: total=%s bal[C]=%s bal[X]=%s | escrow(erc20 module usdt)=%s supply(usdt)=%s coin[C]=%s ethmod(alias)=%s\n", tag,
				c.ERC20TotalSupply(cctx, mod.ERC20), c.ERC20BalanceOf(cctx, mod.ERC20, C), c.ERC20BalanceOf(cctx, mod.ERC20, X),
				c.Bal(cctx, lib.ModuleAcc("erc20"), "usdt"), c.Supply(cctx, "usdt"), c.Bal(cctx, C.Bytes(), "usdt"), c.Bal(cctx, lib.ModuleAcc("eth"), mod.Alias("eth").Denom))
		}
		show(fmt.Sprintf("variant %d before", variant))
		res := c.EvmCall(cctx, u.Hex(), &C, nil, 5_000_000, nil)
		fmt.Println("  result: failed", res.Failed, res.VmError, "err", res.Err, "gas", res.GasUsed)
		show(fmt.Sprintf("variant %d after ", variant))
		x.Keeper.IterateOutgoingBridgeCalls(cctx, func(o *crosschaintypes.OutgoingBridgeCall) bool { fmt.Println("  outgoing", o.Nonce, o.Tokens); return false })
	}
}
