package main

// c09.go: property C09 — a precompile call is all-or-nothing with its EVM frame.
// Random call trees are compiled to contracts and executed by the REAL EVM against the REAL precompiles,
// at ample gas and over a ladder of gas limits. Per run:
//   monitor (no model involved):
//     * frame by frame, from the interpreter's own trace: an effect is present afterwards iff its frame and
//       every enclosing frame returned normally (native markers, storage slots, logs, sdk events)
//     * the complete store dump equals the dump after running the PRUNED program (the same tree with every
//       failed frame deleted) — a failed frame leaves nothing behind, anywhere; a failed tx changes nothing
//   correspondence: the tree (as designed for ample gas; as traced for the ladder) and the observed
//     survivors are written to Cases_C09.v and compared with run_impl / run_spec of model.M_Frames in coqc.

import (
	"fmt"
	"math"
	"os"
	"sort"
	"strings"

	sdk "github.com/cosmos/cosmos-sdk/types"
	"github.com/ethereum/go-ethereum/common"
	"github.com/ethereum/go-ethereum/core/vm"

	"fxverif/lib"
)

type treeCtx struct {
	w       *World
	root    *Node
	frames  []*Node
	markers []*Marker
	byInput map[string]*Marker
	addrIdx map[common.Address]int
	ctxs    []int
	keys    []int64 // storage keys some frame may write
	logIDs  map[string]int
	ctxT    sdk.Context
	prunedCache map[string]map[string][]string
	hasRewards  bool
	hasToken    bool
	callSites   []*Node
}

var knownSeen int

type replayT struct {
	Seed   int64  `json:"seed"`
	Tree   string `json:"tree"`
	Gas    uint64 `json:"gas_limit"`
	Detail string `json:"detail"`
}

func runC09() {
	seed := lib.Seed()
	r := lib.NewRand(seed)
	thorough := lib.Tier() == "thorough"
	ntrees, nrungs, nstarved := 40, 16, 10
	if thorough {
		ntrees, nrungs, nstarved = 260, 60, 40
	}
	if modeSearch() {
		ntrees, nrungs, nstarved = 500, 24, 16
	}
	if v := lib.EnvInt("VERIF_N", 0); v > 0 {
		ntrees = int(v)
	}
	rep := lib.NewReport("C09")
	rep.Rule = "random call trees (depth<=3 quick/5 thorough; frames entered by CALL/STATICCALL/DELEGATECALL/CALLCODE, each ending in STOP/REVERT/INVALID, failure caught or propagated; bodies mix SSTORE, LOG0 and precompile calls: approveShares, delegateV2, crossChain(FX,value), transferFromShares failing after its allowance write, delegateV2 failing inside, approveShares failing before the action, write methods through non-CALL opcodes) run on the real EVM at ample gas and on a ladder of gas limits from below intrinsic to above observed usage; non-trivial = a native action started and at least one frame failed; distinct by (tree, gas limit)"
	w := NewWorld(seed)
	var items []string
	for t := -5; t < ntrees; t++ {
		g := NewGen(r, w, thorough)
		g.rewards = t%8 == 3 // one tree in eight may trigger finding C09-1
		g.tokenCB = t%4 == 1 // one tree in four may call the hostile token through crossChain
		g.panicky = t%5 == 2 // one tree in five may run into a keeper panic
		var root *Node
		if t == -5 {
			root = witnessDeep(g) // innermost of three nested frames fails, try/catch in the middle, precompile calls at every level
		} else if t == -4 {
			root = witnessStacked(g) // reverts above successful children whose revisions are still on the stack, precompile calls before / inside / after
		} else if t == -3 {
			root = witnessRefusals(g) // batched-transfer fee increase with an ERC-20, executeClaim over a closed and an open IBC channel
		} else if t == -2 {
			root = witnessPanic(g) // executeClaim panicking after its first write, failure swallowed by the caller
		} else if t < 0 {
			root = witnessC091(g) // the minimal replay of finding C09-1, every run
		} else {
			root = g.Tree()
		}
		tc := prepare(w, root)
		desc := describe(root, 0)
		fail := func(kind, what, sig string, gas uint64, detail string) {
			rep.Fail(lib.Failure{Kind: kind, What: what, Sig: sig, Replay: replayT{Seed: seed, Tree: desc, Gas: gas, Detail: detail}})
		}
		if err := tc.calibrate(); err != nil {
			fail("harness", "marker calibration: "+err.Error(), "C09:harness:calibrate", fullGas, "")
			continue
		}
		// ample gas: the designed tree predicts everything
		ample := 21_000 + budget(root) + budget(root)/16 + 50_000
		full := tc.run(ample)
		b, e := designedCoq(root, root.Addr, false)
		wfTree := !(tc.hasRewards && rewardsWrite)
		items = append(items, coqCase(coqList(b), coqEnd(e), full.obs, wfTree))
		tc.judge(rep, full, ample, desc, fail)
		if t < 0 && full.run.Tr.Root != nil && os.Getenv("VERIF_DEBUG") != "" { // witness trees: how each precompile call ended
			var walk func(f *TFrame)
			walk = func(f *TFrame) {
				if isPrecompile(f.To) {
					if m := tc.byInput[string(f.To.Bytes())+string(f.Input)]; m != nil {
						rep.Notes = append(rep.Notes, fmt.Sprintf("witness %d: %s -> %q", t, m.Kind, f.Err))
					}
				}
				for _, o := range f.Ops {
					if o.Kind == "frame" {
						walk(o.Frame)
					}
				}
			}
			walk(full.run.Tr.Root)
		}
		for _, m := range tc.markers {
			rep.Count("marker:" + m.Kind.String())
			for _, id := range full.obs.Natives {
				if id == m.ID {
					rep.Count("marker_survived_at_ample_gas:" + m.Kind.String())
				}
			}
		}
		rep.Sample(map[string]interface{}{"tree": desc, "gas": ample, "observed": full.obs})
		cuts := map[string]bool{}
		// gas ladder
		for _, gas := range ladder(r, full.obs.GasUsed, ample, nrungs) {
			rr := tc.run(gas)
			body, end := "nnil", "Fail"
			if !rr.obs.Refused {
				var ok bool
				body, ok = tracedCoq(rr.run.Tr.Root, tc.byInput, tc.addrIdx)
				if !ok {
					fail("harness", "trace contains a frame the harness cannot name", "C09:harness:trace", gas, "")
				}
				end = "Return"
				if rr.run.Tr.Root.Err != "" {
					end = "Fail"
				}
			}
			items = append(items, coqCase(body, end, rr.obs, wfTree))
			tc.judge(rep, rr, gas, desc, fail)
			cuts[body+end] = true
		}
		// starved variants: ample gas for the transaction, too little for one or two randomly chosen callees
		for v := 0; v < nstarved && len(tc.callSites) > 0; v++ {
			var changed []*Node
			for k := 0; k < 1+r.Intn(2); k++ {
				n := tc.callSites[r.Intn(len(tc.callSites))]
				full := uint64(pcallGas)
				if n.Kind == NFrame {
					full = budget(n)
				}
				n.GasOverride = 1 + uint64(r.Int63n(int64(full)))
				changed = append(changed, n)
			}
			vctx, _ := tc.ctxT.CacheContext()
			for _, f := range tc.frames {
				w.c.InstallCode(vctx, frameAddr(f.Addr), compile(f))
			}
			rr := tc.runOn(vctx, ample)
			vdesc := describe(root, 0)
			for _, n := range changed {
				n.GasOverride = 0
			}
			if rr.obs.Refused {
				continue
			}
			body, ok := tracedCoq(rr.run.Tr.Root, tc.byInput, tc.addrIdx)
			if !ok {
				fail("harness", "trace contains a frame the harness cannot name", "C09:harness:trace", ample, "")
			}
			end := "Return"
			if rr.run.Tr.Root.Err != "" {
				end = "Fail"
			}
			items = append(items, coqCase(body, end, rr.obs, wfTree))
			vfail := func(kind, what, sig string, gas uint64, detail string) {
				rep.Fail(lib.Failure{Kind: kind, What: what, Sig: sig, Replay: replayT{Seed: seed, Tree: vdesc, Gas: gas, Detail: detail}})
			}
			tc.judge(rep, rr, ample, vdesc, vfail)
			cuts[body+end] = true
			rep.Count("starved_variant")
		}
		rep.Count(fmt.Sprintf("distinct_executions_per_tree=%02d", min(len(cuts), 20)))
	}
	lib.WriteCases("Cases_C09.v", []string{"model.M_Frames", "model.M_FramesCorr"}, "c09_case", items, "c09_mismatch")
	rep.Write()
}

func prepare(w *World, root *Node) *treeCtx {
	tc := &treeCtx{w: w, root: root, byInput: map[string]*Marker{}, addrIdx: map[common.Address]int{}, logIDs: map[string]int{}}
	frames(root, &tc.frames)
	markersOf(root, &tc.markers)
	tc.ctxT, _ = w.base.CacheContext()
	seenCtx := map[int]bool{}
	for _, f := range tc.frames {
		w.c.InstallCode(tc.ctxT, frameAddr(f.Addr), compile(f))
		tc.addrIdx[frameAddr(f.Addr)] = f.Addr
	}
	for _, m := range tc.markers {
		if m.Kind == MkTokenCB {
			tc.markers = append(tc.markers, m.Inner)
			w.c.InstallCode(tc.ctxT, w.tok.ERC20, hostileToken(m.Inner))
			tc.hasToken = true
		}
	}
	for _, m := range tc.markers {
		tc.byInput[string(m.Target.Bytes())+string(m.Data)] = m
		if m.Ctx >= 0 {
			seenCtx[m.Ctx] = true
		}
		if m.Kind == MkRewards {
			tc.hasRewards = true
		}
	}
	var sites func(f *Node)
	sites = func(f *Node) {
		for _, n := range f.Body {
			if n.Kind == NFrame || n.Kind == NPCall {
				tc.callSites = append(tc.callSites, n)
			}
			if n.Kind == NFrame {
				sites(n)
			}
		}
	}
	sites(root)
	for _, f := range tc.frames {
		seenCtx[f.Addr] = true
	}
	for c := range seenCtx {
		tc.ctxs = append(tc.ctxs, c)
	}
	sort.Ints(tc.ctxs)
	var walk func(f *Node, ctx int)
	keyset := map[int64]bool{}
	walk = func(f *Node, ctx int) {
		for _, n := range f.Body {
			switch n.Kind {
			case NSStore:
				keyset[storKey(ctx, n.Slot)] = true
			case NFrame:
				c := ctx
				if n.CallKind == lib.CALL || n.CallKind == lib.STATICCALL {
					c = n.Addr
				}
				walk(n, c)
			}
		}
	}
	walk(root, root.Addr)
	for k := range keyset {
		tc.keys = append(tc.keys, k)
	}
	sort.Slice(tc.keys, func(i, j int) bool { return tc.keys[i] < tc.keys[j] })
	return tc
}

// calibrate runs every marker designed to succeed alone (from its own caller contract) and records the
// identity of the EVM log the precompile emits for it.
func (tc *treeCtx) calibrate() error {
	for _, m := range tc.markers {
		if !m.Kind.designedOK() || m.Kind == MkRewards || m.Kind == MkInnerApprove {
			continue
		}
		ctx, _ := tc.ctxT.CacheContext()
		a := (&lib.Asm{}).Call(lib.CALL, m.Target, 0, m.Value, m.Data).RequireSuccess().Stop()
		tc.w.c.InstallCode(ctx, frameAddr(m.Ctx), a.B)
		r := tc.w.call(ctx, frameAddr(m.Ctx), fullGas)
		if r.Res.Err != nil || r.Res.Failed {
			return fmt.Errorf("marker %d (%s) fails in isolation: %v %s", m.ID, m.Kind, r.Res.Err, r.Res.VmError)
		}
		n := 0
		for _, l := range r.Res.Logs {
			if common.HexToAddress(l.Address) == m.Target {
				var topics []common.Hash
				for _, t := range l.Topics {
					topics = append(topics, common.HexToHash(t))
				}
				if m.Kind == MkBridgeCall || m.Kind == MkBridgeTok {
					// the event carries the bridge-call nonce, which depends on what ran before: identified by its topics
					// (sender, refund, to — `to` is unique per marker)
					tc.logIDs[logKey(m.Target, topics, nil)] = logBase + m.ID
				} else {
					tc.logIDs[logKey(m.Target, topics, l.Data)] = logBase + m.ID
				}
				n++
			} else if m.Kind == MkTokenCB && common.HexToAddress(l.Address) == m.Inner.Target {
				var topics []common.Hash
				for _, t := range l.Topics {
					topics = append(topics, common.HexToHash(t))
				}
				tc.logIDs[logKey(m.Inner.Target, topics, l.Data)] = logBase + m.Inner.ID
			}
		}
		if n != 1 {
			return fmt.Errorf("marker %d (%s) emits %d precompile logs, expected 1", m.ID, m.Kind, n)
		}
	}
	return nil
}

type runRes struct {
	run Run
	obs Observed
	ctx sdk.Context
}

func (tc *treeCtx) run(gas uint64) runRes { return tc.runOn(tc.ctxT, gas) }

func (tc *treeCtx) runOn(base sdk.Context, gas uint64) runRes {
	ctx, _ := base.CacheContext()
	r := tc.w.call(ctx, frameAddr(tc.root.Addr), gas)
	o := Observed{Stor: map[int64]uint64{}, GasUsed: r.Res.GasUsed, VmError: r.Res.VmError}
	if r.Res.Err != nil {
		o.Refused, o.Failed = true, true
		o.VmError = r.Res.Err.Error()
		o.Aborted = strings.HasPrefix(o.VmError, "PANIC")
	} else {
		o.Failed = r.Res.Failed
	}
	o.Natives, o.Leaks = tc.w.observeNatives(ctx, tc.markers, tc.ctxs)
	for _, l := range r.Res.Logs {
		addr := common.HexToAddress(l.Address)
		var topics []common.Hash
		for _, t := range l.Topics {
			topics = append(topics, common.HexToHash(t))
		}
		id := -1
		if _, isFrame := tc.addrIdx[addr]; isFrame && len(topics) == 0 && len(l.Data) == 32 {
			id = int(common.BytesToHash(l.Data).Big().Int64())
		} else if v, ok := tc.logIDs[logKey(addr, topics, l.Data)]; ok {
			id = v
		} else if v, ok := tc.logIDs[logKey(addr, topics, nil)]; ok {
			id = v
		}
		o.Logs = append(o.Logs, id)
	}
	o.Events = eventMarkers(r.Events, tc.markers)
	for _, k := range tc.keys {
		v := tc.w.c.App.EvmKeeper.GetState(ctx, frameAddr(int(k/1000)), common.BigToHash(bigU(uint64(k%1000))))
		o.Stor[k] = v.Big().Uint64()
	}
	return runRes{run: r, obs: o, ctx: ctx}
}

// ---- the monitor ----

type expect struct {
	natives []int
	logs    []int
	events  map[int]bool
	stor    map[int64]uint64
	refusalKept []string // calls that cannot complete in this world but returned success to the EVM
	started bool // some native action started
	failed  bool // some frame failed
}

// expectFromTrace: what must be present if and only if frames the EVM kept keep their effects.
func (tc *treeCtx) expectFromTrace(root *TFrame) expect {
	ex := expect{events: map[int]bool{}, stor: map[int64]uint64{}}
	var walk func(f *TFrame, kept bool)
	walk = func(f *TFrame, kept bool) {
		kept = kept && f.Err == ""
		if f.Err != "" {
			ex.failed = true
		}
		if isPrecompile(f.To) {
			m := tc.byInput[string(f.To.Bytes())+string(f.Input)]
			if m == nil {
				return
			}
			if f.Err == "" && f.Typ == vm.CALL && !m.Kind.designedOK() {
				ex.refusalKept = append(ex.refusalKept, fmt.Sprintf("%s (marker %d)", m.Kind, m.ID))
			}
			if m.Kind == MkRewards {
				if kept && rewardsWrite {
					ex.natives = append(ex.natives, rewardsID)
				}
				return
			}
			if m.Kind == MkTokenCB { // the calls its closure made through the EVM come first
				for _, o := range f.Ops {
					if o.Kind == "frame" {
						walk(o.Frame, kept)
					}
				}
			}
			if f.Typ == vm.CALL {
				ex.started = true
			}
			if kept && f.Typ == vm.CALL {
				ex.natives = append(ex.natives, m.ID)
				if m.Kind.hasValue() {
					ex.natives = append(ex.natives, transferBase+m.ID)
				}
				ex.logs = append(ex.logs, logBase+m.ID)
				if m.Kind != MkApprove && m.Kind != MkInnerApprove {
					ex.events[m.ID] = true
				}
			}
			return
		}
		for _, o := range f.Ops {
			switch o.Kind {
			case "sstore":
				if kept {
					ex.stor[storKey(tc.addrIdx[o.Ctx], o.Slot)] = o.Val
				}
			case "log":
				if kept {
					ex.logs = append(ex.logs, int(o.Tag))
				}
			case "frame":
				walk(o.Frame, kept)
			}
		}
	}
	// logs and stores of a frame that is discarded later must vanish with it: collect per frame, then
	// keep only if the frame is kept — done by passing kept down, which needs the outcome of the
	// enclosing frames first (known: the trace is complete)
	walk(root, true)
	sort.Ints(ex.natives)
	return ex
}

func intsEq(a, b []int) bool {
	if len(a) != len(b) {
		return false
	}
	for i := range a {
		if a[i] != b[i] {
			return false
		}
	}
	return true
}

func (tc *treeCtx) judge(rep *lib.Report, rr runRes, gas uint64, desc string, fail0 func(kind, what, sig string, gas uint64, detail string)) {
	o := rr.obs
	// trees that call delegationRewards trigger finding C09-1 (a native write outside the journal); their
	// failures carry its signature so that the rest of the trees keeps being judged strictly
	fail := fail0
	if tc.hasRewards && rewardsWrite {
		fail = func(kind, what, sig string, gas uint64, detail string) {
			if kind == "monitor" {
				sig = "C09:delegationRewards-unjournaled:" + strings.TrimPrefix(sig, "C09:")
				what = "delegationRewards writes the native store outside ExecuteNativeAction: " + what
				rep.Count("known_finding_C09-1_occurrences")
				knownSeen++
				if knownSeen > 6 {
					return // the report keeps 50 failures: do not let a known finding crowd out anything else
				}
			}
			fail0(kind, what, sig, gas, detail)
		}
	}
	var ex expect
	if o.Refused {
		ex = expect{events: map[int]bool{}, stor: map[int64]uint64{}}
	} else {
		ex = tc.expectFromTrace(rr.run.Tr.Root)
		if (rr.run.Tr.Root.Err != "") != o.Failed {
			fail("monitor", "receipt status disagrees with how the top frame ended", "C09:status", gas, fmt.Sprintf("failed=%v top=%q", o.Failed, rr.run.Tr.Root.Err))
		}
	}
	rep.Case(fmt.Sprintf("%s|%d", desc, gas), ex.started && ex.failed)
	rep.Count(fmt.Sprintf("tx_failed=%v", o.Failed))
	rep.Count(fmt.Sprintf("survivors=%d", min(len(o.Natives), 4)))
	if o.Aborted {
		rep.Count("aborted_by_keeper_panic")
	} else if o.Refused {
		rep.Count("refused_below_intrinsic")
	}
	if !intsEq(ex.natives, o.Natives) {
		fail("monitor", "Cosmos-side effects present differ from the frames the EVM kept", "C09:native-survivors", gas,
			fmt.Sprintf("kept frames imply %v, present %v", ex.natives, o.Natives))
	}
	if len(ex.refusalKept) > 0 {
		fail("monitor", "a precompile call whose native action cannot complete (it fails half-way in this state) was reported to the EVM as successful: its frame is kept with partial effects: "+ex.refusalKept[0],
			"C09:refusal-kept", gas, strings.Join(ex.refusalKept, "; "))
	}
	if len(o.Leaks) > 0 {
		fail("monitor", "a failed precompile call left an effect: "+o.Leaks[0], "C09:leak", gas, strings.Join(o.Leaks, "; "))
	}
	if !intsEq(ex.logs, o.Logs) {
		fail("monitor", "receipt logs differ from the logs of the frames the EVM kept", "C09:logs", gas,
			fmt.Sprintf("kept frames imply %v, receipt has %v", ex.logs, o.Logs))
	}
	var evs []int
	for id := range ex.events {
		evs = append(evs, id)
	}
	sort.Ints(evs)
	if !intsEq(evs, o.Events) {
		fail("monitor", "sdk events emitted differ from the native actions the EVM kept", "C09:events", gas,
			fmt.Sprintf("kept actions %v, events attributable to %v", evs, o.Events))
	}
	for _, k := range tc.keys {
		if ex.stor[k] != o.Stor[k] {
			fail("monitor", "contract storage differs from the writes of the frames the EVM kept", "C09:storage", gas,
				fmt.Sprintf("key %d: kept frames imply %d, stored %d", k, ex.stor[k], o.Stor[k]))
			break
		}
	}
	// whole-store differential against the pruned program
	got := tc.w.normDump(rr.ctx, maxFrames)
	var want map[string][]string
	if o.Failed {
		want = tc.w.normDump(tc.ctxT, maxFrames)
	} else {
		var err error
		want, err = tc.prunedDump(rr.run.Tr.Root)
		if err != nil {
			fail("harness", "pruned reference run: "+err.Error(), "C09:harness:pruned", gas, "")
			return
		}
	}
	if d := lib.DiffDumps(want, got); len(d) > 0 {
		what := "store after the transaction differs from the store after the same program without its failed frames"
		if o.Failed {
			what = "a failed transaction changed the store"
		}
		fail("monitor", what, "C09:dump", gas, strings.Join(d, "\n"))
	}
}

// prunedDump: run the program with every failed frame deleted (ample gas) and dump the store.
func (tc *treeCtx) prunedDump(root *TFrame) (map[string][]string, error) {
	sig := prunedSig(root)
	if d, ok := tc.prunedCache[sig]; ok {
		return d, nil
	}
	ctx, _ := tc.ctxT.CacheContext()
	var build func(f *TFrame)
	build = func(f *TFrame) {
		a := &lib.Asm{}
		for _, o := range f.Ops {
			switch o.Kind {
			case "sstore":
				a.SStore(o.Slot, o.Val)
			case "log":
				a.Log0(o.Tag)
			case "frame":
				ch := o.Frame
				if ch.Err != "" {
					continue
				}
				ck := map[vm.OpCode]lib.CallKind{vm.CALL: lib.CALL, vm.STATICCALL: lib.STATICCALL, vm.DELEGATECALL: lib.DELEGATECALL, vm.CALLCODE: lib.CALLCODE}[ch.Typ]
				if isPrecompile(ch.To) {
					a.Call(ck, ch.To, 0, ch.Value, ch.Input).RequireSuccess()
				} else {
					a.Call(ck, ch.To, 0, nil, nil).RequireSuccess()
					build(ch)
				}
			}
		}
		a.Stop()
		tc.w.c.InstallCode(ctx, f.To, a.B)
	}
	build(root)
	r := tc.w.call(ctx, root.To, fullGas)
	if r.Res.Err != nil || r.Res.Failed {
		return nil, fmt.Errorf("the pruned program fails: %v %s", r.Res.Err, r.Res.VmError)
	}
	d := tc.w.normDump(ctx, maxFrames)
	if tc.prunedCache == nil {
		tc.prunedCache = map[string]map[string][]string{}
	}
	tc.prunedCache[sig] = d
	return d, nil
}

func prunedSig(f *TFrame) string {
	var sb strings.Builder
	var walk func(f *TFrame)
	walk = func(f *TFrame) {
		sb.WriteString("(")
		for _, o := range f.Ops {
			switch o.Kind {
			case "sstore":
				fmt.Fprintf(&sb, "s%d=%d,", o.Slot, o.Val)
			case "log":
				fmt.Fprintf(&sb, "l%d,", o.Tag)
			case "frame":
				if o.Frame.Err == "" {
					fmt.Fprintf(&sb, "f%s%x", o.Frame.Typ, o.Frame.To.Bytes()[16:])
					if isPrecompile(o.Frame.To) {
						fmt.Fprintf(&sb, "%x", o.Frame.Input)
					}
					walk(o.Frame)
				}
			}
		}
		sb.WriteString(")")
	}
	walk(f)
	return sb.String()
}

// ---- gas ladder ----

func ladder(r *lib.Rand, used uint64, est uint64, n int) []uint64 {
	const intrinsic = 21000
	if used < intrinsic {
		used = intrinsic
	}
	if est > used {
		est = used
	}
	set := map[uint64]bool{}
	add := func(g uint64) { set[g] = true }
	for _, g := range []uint64{intrinsic - 1, intrinsic, intrinsic + 1, intrinsic + 2, intrinsic + 3, intrinsic + 6, intrinsic + 40} {
		add(g)
	}
	for _, g := range []uint64{used - 1, used, used + 1, used + (used-intrinsic)/63 + 1, 2 * used} {
		add(g)
	}
	// most rungs where the work is: uniformly over the estimated cost of the tree's operations; a frame that
	// burns its gas (INVALID, write protection) makes `used` huge, so the rest is spread log-uniformly up to it
	span := est - intrinsic + 1
	for i := 0; len(set) < n && i < 10*n; i++ {
		if r.Chance(70) || used <= est+1 {
			add(intrinsic + uint64(r.Int63n(int64(span))))
		} else {
			lo, hi := float64(est), float64(used)
			add(uint64(lo * math.Pow(hi/lo, r.Float64())))
		}
	}
	var out []uint64
	for g := range set {
		out = append(out, g)
	}
	sort.Slice(out, func(i, j int) bool { return out[i] < out[j] })
	return out
}

// ---- Coq case ----

func coqCase(body, end string, o Observed, wf bool) string {
	nat := make([]string, len(o.Natives))
	for i, v := range o.Natives {
		nat[i] = lib.Z(int64(v))
	}
	logs := make([]string, len(o.Logs))
	for i, v := range o.Logs {
		logs[i] = lib.Z(int64(v))
	}
	evs := make([]string, len(o.Events))
	for i, v := range o.Events {
		evs[i] = lib.Z(int64(v))
	}
	var keys []int64
	for k := range o.Stor {
		keys = append(keys, k)
	}
	sort.Slice(keys, func(i, j int) bool { return keys[i] < keys[j] })
	stor := make([]string, len(keys))
	for i, k := range keys {
		stor[i] = lib.Pair(lib.Z(k), lib.ZU(o.Stor[k]))
	}
	return fmt.Sprintf("mk_c09_case %s %s %s %s %s %s %s %s", body, end, lib.Bool(wf), lib.Bool(!o.Failed),
		lib.List(nat), lib.List(logs), lib.List(stor), lib.List(evs))
}

func min(a, b int) int {
	if a < b {
		return a
	}
	return b
}

// witnessC091: user -> A { CALL B (failure ignored) ; STOP },  B { STATICCALL staking.delegationRewards ; REVERT }.
// B's frame is discarded by the EVM, the transaction succeeds, nothing else happens: the store must be unchanged.
func witnessC091(g *Gen) *Node {
	root := &Node{Kind: NFrame, ID: g.id(), CallKind: lib.CALL, Addr: 0, End: "return"}
	b := &Node{Kind: NFrame, ID: g.id(), CallKind: lib.CALL, Addr: 1, End: "revert", Caught: true}
	m := &Marker{ID: g.id(), Kind: MkRewards, Ctx: 1}
	g.w.fill(m)
	b.Body = []*Node{{Kind: NPCall, ID: m.ID, CallKind: lib.STATICCALL, M: m}}
	root.Body = []*Node{b}
	g.nextAddr = 2
	return root
}

// witnessPanic: user -> A { SSTORE ; CALL crosschain.executeClaim(result of a vanished bridge call), ignore failure ; SSTORE ; STOP }.
// The keeper deletes the pending claim and then panics. The panic must take the whole transaction with it.
func witnessPanic(g *Gen) *Node {
	root := &Node{Kind: NFrame, ID: g.id(), CallKind: lib.CALL, Addr: 0, End: "return"}
	m := &Marker{ID: g.id(), Kind: MkExecPanic, Ctx: 0, Claim: g.w.panicClaims[0]}
	g.claimsPanic = 1
	g.w.fill(m)
	root.Body = []*Node{
		{Kind: NSStore, ID: g.id(), Slot: 1, Val: 1},
		{Kind: NPCall, ID: m.ID, CallKind: lib.CALL, Caught: true, M: m},
		{Kind: NSStore, ID: g.id(), Slot: 2, Val: 2},
	}
	g.slots[0] = []uint64{1, 2}
	g.nextAddr = 1
	return root
}

// witnessRefusals: user -> A { increaseBridgeFee(ERC-20) on A's transfer that is already batched, ignore ;
//   executeClaim(SendToFx over a CLOSED channel), ignore ; executeClaim(SendToFx over an OPEN channel), require ; SSTORE ; STOP }
// The first two cannot complete: they must be reverted as a whole (ERC-20 balance, pending claim, supplies untouched).
func witnessRefusals(g *Gen) *Node {
	root := &Node{Kind: NFrame, ID: g.id(), CallKind: lib.CALL, Addr: 0, End: "return"}
	mk := func(k MarkerKind, claim uint64) *Node {
		m := &Marker{ID: g.id(), Kind: k, Ctx: 0, Claim: claim}
		if k == MkBridgeTok {
			m.Pool = 1 // two tokens
		}
		if k == MkBridgeTokFail {
			m.Pool = 2 // three tokens, the middle one is not registered
		}
		g.w.fill(m)
		return &Node{Kind: NPCall, ID: m.ID, CallKind: lib.CALL, Caught: k != MkExecIBC && k != MkBridgeTok, M: m}
	}
	root.Body = []*Node{
		mk(MkFeeGone, 0),
		mk(MkExecIBCClosed, g.w.ibcClosed[0]),
		mk(MkExecIBC, g.w.ibcOpen[0]),
		mk(MkBridgeTokFail, 0),
		mk(MkBridgeTok, 0),
		{Kind: NSStore, ID: g.id(), Slot: 1, Val: 1},
	}
	g.claimsIBC, g.claimsIBCClosed = 1, 1
	g.slots[0] = []uint64{1}
	g.nextAddr = 1
	return root
}

// ---- fixed shapes aimed at the revision stack of Snapshot/RevertToSnapshot (model: M_FramesRev) ----

type shapeB struct{ g *Gen }

func (b shapeB) frame(addr int, end string, caught bool, body ...*Node) *Node {
	if addr >= b.g.nextAddr {
		b.g.nextAddr = addr + 1
	}
	return &Node{Kind: NFrame, ID: b.g.id(), CallKind: lib.CALL, Addr: addr, End: end, Caught: caught, Body: body}
}
func (b shapeB) pc(k MarkerKind, ctx int, caught bool) *Node {
	m := &Marker{ID: b.g.id(), Kind: k, Ctx: ctx}
	if k == MkDelegate || k == MkXChain || k == MkBridgeCall || k == MkIncreaseFee {
		m.Bit = b.g.nextBit
		b.g.nextBit++
	}
	b.g.w.fill(m)
	return &Node{Kind: NPCall, ID: m.ID, CallKind: lib.CALL, Caught: caught, M: m}
}
func (b shapeB) ss(ctx int, slot, val uint64) *Node {
	b.g.slots[ctx] = append(b.g.slots[ctx], slot)
	return &Node{Kind: NSStore, ID: b.g.id(), Slot: slot, Val: val}
}
func (b shapeB) lg() *Node { b.g.nextTag++; return &Node{Kind: NLog, ID: b.g.id(), Tag: b.g.nextTag} }

// witnessDeep: A { SSTORE ; approve ; CALL B { delegate ; try CALL C { SSTORE ; LOG ; approve ; CALL D { xchain ; SSTORE ; INVALID } (propagates:
//   C reverts itself) ; approve' (never reached) } catch ; approve'' ; LOG ; STOP } ; delegate' ; SSTORE ; STOP }
// D fails three frames down, C dies with it, B catches and goes on: kept = A's and B's effects on both sides of the catch.
// C's SSTORE/LOG precede its successful precompile call: a revert that went back only to the newest revision on the stack
// (that call's) instead of C's own would keep them.
func witnessDeep(g *Gen) *Node {
	b := shapeB{g}
	d := b.frame(3, "invalid", false, b.pc(MkXChain, 3, false), b.ss(3, 1, 3))
	c := b.frame(2, "return", true, b.ss(2, 1, 2), b.lg(), b.pc(MkApprove, 2, false), d, b.pc(MkApprove, 2, false))
	bb := b.frame(1, "return", false, b.pc(MkDelegate, 1, false), c, b.pc(MkApprove, 1, false), b.lg())
	return b.frame(0, "return", false, b.ss(0, 1, 1), b.pc(MkApprove, 0, false), bb, b.pc(MkDelegate, 0, false), b.ss(0, 2, 2))
}

// witnessStacked: A { CALL B { delegate } ; try CALL C { delegate ; CALL B2 { approve ; CALL B3 { xchain } } ; LOG ; REVERT } catch ;
//   CALL D { bridgeCall } ; try CALL E { CALL F { CALL G { approve } ; delegateFail (caught) } ; SSTORE ; REVERT } catch ; approve ; SSTORE ; STOP }
// when C and E revert, the revisions of their successfully returned children (B2, B3, F, G and every precompile frame) are still on the
// state DB's stack above their own; two kept precompile calls (B's, D's) have a discarded one between them.
func witnessStacked(g *Gen) *Node {
	b := shapeB{g}
	b1 := b.frame(1, "return", false, b.pc(MkDelegate, 1, false))
	b3 := b.frame(4, "return", false, b.pc(MkXChain, 4, false))
	b2 := b.frame(3, "return", false, b.pc(MkApprove, 3, false), b3)
	c := b.frame(2, "revert", true, b.pc(MkDelegate, 2, false), b2, b.lg())
	d := b.frame(5, "return", false, b.pc(MkBridgeCall, 5, false))
	gg := b.frame(8, "return", false, b.pc(MkApprove, 8, false))
	f := b.frame(7, "return", false, gg, b.pc(MkDelegateFail, 7, true))
	e := b.frame(6, "revert", true, f, b.ss(6, 1, 6))
	return b.frame(0, "return", false, b1, c, d, e, b.pc(MkApprove, 0, false), b.ss(0, 1, 1))
}
