package main

func runC10() { panic("not yet") }
