package main

// c10.go: property C10 — precompiles act only for their direct caller and only in a writable call context.
// Every method of both precompile contracts x {called by an account; through a contract forwarding the user's
// calldata with CALL / STATICCALL / DELEGATECALL / CALLCODE; from a contract with the call baked in; by a CALL made
// inside a STATICCALL} x governance switch settings, with arguments aimed at other accounts' assets, on the
// REAL EVM. Per run:
//   monitor (no model): portfolios (balance, delegations, rewards, unbonding, allowances granted, pool entries,
//     bridge calls) of every account that is not the direct caller never get worse, except a share owner who
//     granted the caller an allowance: at most the allowance moves and it drops by exactly that; a write method
//     fails unless reached by CALL in a non-static context; a disabled address / method fails; a failed call
//     leaves the whole store untouched
//   correspondence: abstract pre-state, call and observed post-state go to Cases_C10.v and are compared with
//     model.M_Precompile.entry in coqc.

import (
	"encoding/binary"
	"fmt"
	"math/big"
	"os"
	"path/filepath"
	"sort"
	"strings"

	sdkmath "cosmossdk.io/math"
	sdk "github.com/cosmos/cosmos-sdk/types"
	distrtypes "github.com/cosmos/cosmos-sdk/x/distribution/types"
	minttypes "github.com/cosmos/cosmos-sdk/x/mint/types"
	stakingkeeper "github.com/cosmos/cosmos-sdk/x/staking/keeper"
	stakingtypes "github.com/cosmos/cosmos-sdk/x/staking/types"
	"github.com/ethereum/go-ethereum/common"
	"github.com/ethereum/go-ethereum/core/vm"

	fxcontract "github.com/functionx/fx-core/v8/contract"
	fxtypes "github.com/functionx/fx-core/v8/types"
	erc20types "github.com/functionx/fx-core/v8/x/erc20/types"
	crosschaintypes "github.com/functionx/fx-core/v8/x/crosschain/types"
	fxgovkeeper "github.com/functionx/fx-core/v8/x/gov/keeper"
	fxgovtypes "github.com/functionx/fx-core/v8/x/gov/types"
	fxstakingtypes "github.com/functionx/fx-core/v8/x/staking/types"

	"fxverif/lib"
)

// account ids of the abstract state
const (
	aU0 = iota // the user who sends the transaction
	aU1        // the victim: delegations, allowances granted, pool entry, bridge call, unbonding
	aU2        // a bystander
	aKC        // forwarder, CALL
	aKS        // forwarder, STATICCALL
	aKD        // forwarder, DELEGATECALL
	aKCC       // forwarder, CALLCODE
	aSO        // outer contract that STATICCALLs aKC
	aKB        // contract with the call baked in (code installed per case)
	nAccts
)

var shapeNames = []string{"account", "forward-CALL", "forward-STATICCALL", "forward-DELEGATECALL", "forward-CALLCODE", "CALL-inside-STATICCALL", "baked-CALL"}

type shape int

const (
	shEOA shape = iota
	shFwdCall
	shFwdStatic
	shFwdDelegate
	shFwdCallCode
	shStaticOuter
	shBaked
	nShapes
)

// caller the precompile sees, opcode, static context
func (s shape) facts() (caller int, kind string, static bool) {
	switch s {
	case shEOA:
		return aU0, "CALL", false
	case shFwdCall:
		return aKC, "CALL", false
	case shFwdStatic:
		return aKS, "STATICCALL", false
	case shFwdDelegate:
		return aKD, "DELEGATECALL", false
	case shFwdCallCode:
		return aKCC, "CALLCODE", false
	case shStaticOuter:
		return aKC, "CALL", true
	default:
		return aKB, "CALL", false
	}
}

// accounts that hold the ERC-20 (and what they allow the crosschain precompile to take)
var tokenHolders = []int{aU0, aU1, aU2, aKC, aKB}
var tokenAllowance = map[int]int64{aU0: 5_000, aU1: 9_000, aKB: 7_000} // aKC and aU2: none

type World10 struct {
	fx          *lib.Token
	tok         *lib.Token
	tokContract string // the ERC-20's external contract on eth
	nClaims     uint64
	c     *lib.Chain
	keys  [3]lib.Key
	addrs [nAccts]common.Address
	vals  [2]sdk.ValAddress
	base  sdk.Context
}

// what the victim allows each possible caller to move: different per caller, so that acting on the wrong
// identity (tx origin, another contract) shows in the accounting
var victimAllowance = map[int]int64{aU0: 40, aKC: 25, aKB: 15, aKD: 12, aKCC: 9, aKS: 6}

const originAllowanceKC = 4

// noGrant: a delegator on validator 0 that granted nobody anything and is not the caller
func noGrant(caller int) int {
	if caller == aKC {
		return aKB
	}
	return aKC
}

func e18(n int64) *big.Int { return new(big.Int).Mul(big.NewInt(n), big.NewInt(1e18)) }

func forwarder(kind lib.CallKind, target common.Address) []byte {
	a := &lib.Asm{}
	a.Op(vm.CALLDATASIZE).PushU(0).PushU(0).Op(vm.CALLDATACOPY)
	a.PushU(0).PushU(0).Op(vm.CALLDATASIZE).PushU(0)
	if kind == lib.CALL || kind == lib.CALLCODE {
		a.Op(vm.CALLVALUE)
	}
	a.PushAddr(target).Op(vm.GAS)
	a.Op(map[lib.CallKind]vm.OpCode{lib.CALL: vm.CALL, lib.STATICCALL: vm.STATICCALL, lib.DELEGATECALL: vm.DELEGATECALL, lib.CALLCODE: vm.CALLCODE}[kind])
	a.RequireSuccess().Stop()
	return a.B
}

// the forwarders pick the precompile from the first calldata byte?  No: two sets would double the accounts.
// Instead the forwarder target is installed per case (code is not part of the compared state).

func NewWorld10(seed int64) *World10 {
	c := lib.NewChain(seed, 2, nil)
	lib.Must(c.NextBlock())
	w := &World10{c: c}
	w.vals = [2]sdk.ValAddress{c.ValKeys[0].Val(), c.ValKeys[1].Val()}
	for i := 0; i < 3; i++ {
		w.keys[i] = lib.EthKey(seed, "c10user", i)
		w.addrs[i] = w.keys[i].Hex()
	}
	for i := 3; i < nAccts; i++ {
		w.addrs[i] = common.BytesToAddress([]byte{0xc1, 0x00, 0x00, byte(i)})
	}
	w.fx = c.SetupFX([]string{"eth"})
	c.App.EthKeeper.SetLastObservedBlockHeight(c.Ctx, 1000, uint64(c.Ctx.BlockHeight()))
	for i := 0; i < nAccts; i++ {
		c.Mint(w.addrs[i].Bytes(), lib.FX(1000))
		c.EnsureAccount(c.Ctx, w.addrs[i].Bytes())
	}
	ms := stakingkeeper.NewMsgServerImpl(c.App.StakingKeeper.Keeper)
	del := func(a int, v int, fx int64) {
		_, err := ms.Delegate(c.Ctx, &stakingtypes.MsgDelegate{DelegatorAddress: sdk.AccAddress(w.addrs[a].Bytes()).String(),
			ValidatorAddress: w.vals[v].String(), Amount: lib.FX(fx)})
		lib.Must(err)
	}
	del(aU1, 0, 100)
	del(aU1, 1, 50)
	del(aU0, 0, 20)
	del(aKC, 0, 30)
	del(aKB, 0, 10)
	del(aKD, 0, 10)
	del(aKCC, 0, 10)
	del(aKS, 0, 10)
	lib.Must(c.NextBlock())
	// the victim's unbonding entry
	_, err := ms.Undelegate(c.Ctx, &stakingtypes.MsgUndelegate{DelegatorAddress: sdk.AccAddress(w.addrs[aU1].Bytes()).String(),
		ValidatorAddress: w.vals[1].String(), Amount: lib.FX(5)})
	lib.Must(err)
	// allowances granted by the victim and by the bystander
	sk := c.App.StakingKeeper
	for _, sp := range []int{aU0, aKC, aKB, aKD, aKCC, aKS} {
		sk.SetAllowance(c.Ctx, w.vals[0], w.addrs[aU1].Bytes(), w.addrs[sp].Bytes(), e18(victimAllowance[sp]))
	}
	sk.SetAllowance(c.Ctx, w.vals[0], w.addrs[aU2].Bytes(), w.addrs[aU0].Bytes(), e18(7)) // owner without delegation
	sk.SetAllowance(c.Ctx, w.vals[0], w.addrs[aU0].Bytes(), w.addrs[aU1].Bytes(), e18(3))
	// the SENDER of the transactions also granted something, to one of the contracts it will call (and nothing to the others):
	// a contract a delegator merely calls must not move the delegator's shares beyond that
	sk.SetAllowance(c.Ctx, w.vals[0], w.addrs[aU0].Bytes(), w.addrs[aKC].Bytes(), e18(originAllowanceKC))
	// pool entries (through the real precompile) and a bridge call of the victim
	xabi := crosschaintypes.GetABI()
	pc := lib.CrosschainPrecompile
	for _, a := range []int{aU1, aU0} {
		data, err := xabi.Pack("crossChain", common.Address{}, lib.ExternalAccount(seed, "eth", a), big.NewInt(9000), big.NewInt(1000), fxtypes.MustStrToByte32("eth"), "")
		lib.Must(err)
		if r := c.EvmCall(c.Ctx, w.addrs[a], &pc, big.NewInt(10000), 3_000_000, data); r.Err != nil || r.Failed {
			panic(fmt.Sprintf("setup crossChain: %v %s", r.Err, r.VmError))
		}
	}
	for _, a := range []int{aKC, aKB} { // entries owned by contracts: created with the contract as sender
		data, err := xabi.Pack("crossChain", common.Address{}, lib.ExternalAccount(seed, "eth", a), big.NewInt(9000), big.NewInt(1000), fxtypes.MustStrToByte32("eth"), "")
		lib.Must(err)
		c.InstallCode(c.Ctx, w.addrs[a], forwarder(lib.CALL, pc))
		if r := c.EvmCall(c.Ctx, w.addrs[aU2], &w.addrs[a], big.NewInt(10000), 3_000_000, data); r.Err != nil || r.Failed {
			panic(fmt.Sprintf("setup crossChain via contract: %v %s", r.Err, r.VmError))
		}
	}
	data, err := xabi.Pack("bridgeCall", "eth", w.addrs[aU1], []common.Address{}, []*big.Int{}, common.HexToAddress("0x1234"), []byte{1}, big.NewInt(0), []byte{})
	lib.Must(err)
	if r := c.EvmCall(c.Ctx, w.addrs[aU1], &pc, big.NewInt(4000), 3_000_000, data); r.Err != nil || r.Failed {
		panic(fmt.Sprintf("setup bridgeCall: %v %s", r.Err, r.VmError))
	}
	w.setupTokensAndClaims(seed)
	// touch the staking precompile once so that its (empty) account exists before the compared runs, as on a live chain
	sp := lib.StakingPrecompile
	td, err := fxstakingtypes.GetABI().Pack("allowanceShares", w.vals[0].String(), w.addrs[aU1], w.addrs[aU0])
	lib.Must(err)
	if r := c.EvmCall(c.Ctx, w.addrs[aU2], &sp, nil, 3_000_000, td); r.Err != nil || r.Failed {
		panic(fmt.Sprintf("setup touch: %v %s", r.Err, r.VmError))
	}
	for i := 0; i < 3; i++ {
		lib.Must(c.NextBlock()) // rewards accrue
	}
	w.base, _ = c.Ctx.CacheContext()
	return w
}

// setupTokensAndClaims: a module-owned ERC-20 bridged to eth that several accounts hold (the victim approved the
// crosschain precompile, one contract did not), pool entries paid in it, the victim's reward withdraw address set to
// the bystander, and pending claims attested by an oracle with all the power through the real Claim path.
func (w *World10) setupTokensAndClaims(seed int64) {
	c := w.c
	tok, err := c.SetupModuleOwned("USDE", 93, []string{"eth"}, "")
	lib.Must(err)
	w.tok, w.tokContract = tok, tok.Alias("eth").Contract
	liq := sdk.NewCoins(lib.Coin(tok.Alias("eth").Denom, 10_000_000))
	for _, mod := range []string{"eth", erc20types.ModuleName} {
		lib.Must(c.App.BankKeeper.MintCoins(c.Ctx, minttypes.ModuleName, liq))
		lib.Must(c.App.BankKeeper.SendCoinsFromModuleToModule(c.Ctx, minttypes.ModuleName, mod, liq))
	}
	pc := lib.CrosschainPrecompile
	for _, a := range tokenHolders {
		addr := w.addrs[a]
		c.Mint(addr.Bytes(), lib.Coin(tok.Base, 1_000_000))
		_, err := c.App.Erc20Keeper.ConvertCoin(c.Ctx, &erc20types.MsgConvertCoin{Coin: lib.Coin(tok.Base, 1_000_000), Receiver: addr.Hex(), Sender: sdk.AccAddress(addr.Bytes()).String()})
		lib.Must(err)
		if al := tokenAllowance[a]; al > 0 {
			_, err := c.App.EvmKeeper.ApplyContract(c.Ctx, addr, tok.ERC20, nil, fxcontract.GetFIP20().ABI, "approve", pc, big.NewInt(al))
			lib.Must(err)
		}
	}
	xabi := crosschaintypes.GetABI()
	for _, a := range []int{aU1, aU0} { // pool entries 5 and 6, paid in the ERC-20
		data, err := xabi.Pack("crossChain", tok.ERC20, lib.ExternalAccount(seed, "eth", 40+a), big.NewInt(800), big.NewInt(20), fxtypes.MustStrToByte32("eth"), "")
		lib.Must(err)
		if r := c.EvmCall(c.Ctx, w.addrs[a], &pc, nil, 3_000_000, data); r.Err != nil || r.Failed {
			panic(fmt.Sprintf("setup ERC-20 crossChain: %v %s", r.Err, r.VmError))
		}
	}
	lib.Must(c.App.DistrKeeper.SetWithdrawAddr(c.Ctx, w.addrs[aU1].Bytes(), w.addrs[aU2].Bytes()))
	x := c.X("eth")
	x.SetupOracles([]int64{10000})
	o := x.Oracles[0]
	fxContract := w.fx.Alias("eth").Contract
	claims := []crosschaintypes.ExternalClaim{
		&crosschaintypes.MsgSendToFxClaim{EventNonce: 1, BlockHeight: 1001, TokenContract: fxContract, Amount: sdkmath.NewInt(31_001),
			Sender: lib.ExternalAccount(seed, "eth", 701), Receiver: sdk.AccAddress(w.addrs[aU2].Bytes()).String()},
		&crosschaintypes.MsgBridgeCallResultClaim{EventNonce: 2, BlockHeight: 1002, Nonce: 1, TxOrigin: lib.ExternalAccount(seed, "eth", 702), Success: true},
		&crosschaintypes.MsgBridgeCallResultClaim{EventNonce: 3, BlockHeight: 1003, Nonce: 99, TxOrigin: lib.ExternalAccount(seed, "eth", 703), Success: true},
		&crosschaintypes.MsgSendToFxClaim{EventNonce: 4, BlockHeight: 1004, TokenContract: fxContract, Amount: sdkmath.NewInt(31_004),
			Sender: lib.ExternalAccount(seed, "eth", 704), Receiver: sdk.AccAddress(w.addrs[aU1].Bytes()).String()},
	}
	for _, cl := range claims {
		if err := x.Claim(o, cl); err != nil {
			panic(fmt.Sprintf("setup claim: %v", err))
		}
	}
	w.nClaims = uint64(len(claims))
}

// ---- abstract state ----

type AState struct {
	Bal    [nAccts]*big.Int
	Dlg    [nAccts][2]*big.Int
	Rwd    [nAccts][2]*big.Int
	Unb    [nAccts][2]*big.Int
	Rrd    [nAccts][2]bool
	Alw    map[[3]int]*big.Int // validator, owner, spender
	Pool   map[uint64][4]string // id -> sender id, amount, fee, "true" if paid in the ERC-20
	LastTx uint64
	BCalls map[uint64][4]string // nonce -> sender id, refund id, FX amount, ERC-20 amount
	LastBC uint64
	Switch []string
	Wdr    [nAccts]int          // withdraw address (account id; -1 = outside the tracked universe)
	Tok    [nAccts]*big.Int     // ERC-20 balance
	Tka    [nAccts]*big.Int     // ERC-20 allowance given to the crosschain precompile
	Claims map[uint64]string    // pending claims: nonce -> Coq term of M_Precompile.pclaim
}

func (w *World10) idOf(addr []byte) int {
	for i := 0; i < nAccts; i++ {
		if string(w.addrs[i].Bytes()) == string(addr) {
			return i
		}
	}
	return -1
}

func lastID(c *lib.Chain, ctx sdk.Context, key []byte) uint64 {
	kvs := c.DumpPrefix(ctx, "eth", key)
	for _, kv := range kvs {
		if string(kv.K) == string(key) {
			return binary.BigEndian.Uint64(kv.V) - 1
		}
	}
	return 0
}

func (w *World10) observe(ctx sdk.Context) *AState {
	c := w.c
	s := &AState{Alw: map[[3]int]*big.Int{}, Pool: map[uint64][4]string{}, BCalls: map[uint64][4]string{}, Claims: map[uint64]string{}}
	qctx, _ := ctx.CacheContext() // the reward query moves the validator period on its branch
	for a := 0; a < nAccts; a++ {
		acc := sdk.AccAddress(w.addrs[a].Bytes())
		s.Bal[a] = c.Bal(ctx, acc, fxtypes.DefaultDenom)
		for v := 0; v < 2; v++ {
			s.Dlg[a][v], s.Rwd[a][v], s.Unb[a][v] = big.NewInt(0), big.NewInt(0), big.NewInt(0)
			if d, err := c.App.StakingKeeper.GetDelegation(ctx, acc, w.vals[v]); err == nil {
				s.Dlg[a][v] = d.Shares.TruncateInt().BigInt()
				val, err := c.App.StakingKeeper.GetValidator(qctx, w.vals[v])
				lib.Must(err)
				end, err := c.App.DistrKeeper.IncrementValidatorPeriod(qctx, val)
				lib.Must(err)
				rw, err := c.App.DistrKeeper.CalculateDelegationRewards(qctx, val, d, end)
				lib.Must(err)
				s.Rwd[a][v] = rw.AmountOf(fxtypes.DefaultDenom).TruncateInt().BigInt()
			}
			if u, err := c.App.StakingKeeper.GetUnbondingDelegation(ctx, acc, w.vals[v]); err == nil {
				t := sdkmath.ZeroInt()
				for _, e := range u.Entries {
					t = t.Add(e.Balance)
				}
				s.Unb[a][v] = t.BigInt()
			}
			has, err := c.App.StakingKeeper.HasReceivingRedelegation(ctx, acc, w.vals[v])
			lib.Must(err)
			s.Rrd[a][v] = has
		}
	}
	c.App.StakingKeeper.IterateAllAllowance(ctx, func(val sdk.ValAddress, owner, spender sdk.AccAddress, al *big.Int) bool {
		vi := -1
		for v := 0; v < 2; v++ {
			if val.Equals(w.vals[v]) {
				vi = v
			}
		}
		o, sp := w.idOf(owner), w.idOf(spender)
		if vi < 0 || o < 0 || sp < 0 {
			// an allowance outside the tracked universe: keyed by a synthetic id so that its appearance is noticed
			s.Alw[[3]int{vi, 100 + int(owner[len(owner)-1]), 100 + int(spender[len(spender)-1])}] = al
			return false
		}
		if al.Sign() != 0 {
			s.Alw[[3]int{vi, o, sp}] = al
		}
		return false
	})
	for _, tx := range c.App.EthKeeper.GetUnbatchedTransactions(ctx) {
		s.Pool[tx.Id] = [4]string{fmt.Sprint(w.idOf(sdk.MustAccAddressFromBech32(tx.Sender))), tx.Token.Amount.String(), tx.Fee.Amount.String(),
			lib.Bool(tx.Token.Contract == w.tokContract)}
	}
	c.App.EthKeeper.IterateOutgoingBridgeCalls(ctx, func(oc *crosschaintypes.OutgoingBridgeCall) bool {
		fx, tk := sdkmath.ZeroInt(), sdkmath.ZeroInt()
		for _, t := range oc.Tokens {
			if t.Contract == w.tokContract {
				tk = tk.Add(t.Amount)
			} else {
				fx = fx.Add(t.Amount)
			}
		}
		s.BCalls[oc.Nonce] = [4]string{fmt.Sprint(w.idOf(common.HexToAddress(oc.Sender).Bytes())), fmt.Sprint(w.idOf(common.HexToAddress(oc.Refund).Bytes())), fx.String(), tk.String()}
		return false
	})
	for a := 0; a < nAccts; a++ {
		s.Tok[a], s.Tka[a] = big.NewInt(0), big.NewInt(0)
		s.Wdr[a] = a
		if wa, err := c.App.DistrKeeper.GetDelegatorWithdrawAddr(ctx, w.addrs[a].Bytes()); err == nil {
			s.Wdr[a] = w.idOf(wa)
		}
	}
	for _, a := range tokenHolders {
		s.Tok[a] = c.ERC20BalanceOf(ctx, w.tok.ERC20, w.addrs[a])
		var res struct{ Value *big.Int }
		if err := c.App.EvmKeeper.QueryContract(ctx, w.addrs[aU2], w.tok.ERC20, fxcontract.GetFIP20().ABI, "allowance", &res, w.addrs[a], lib.CrosschainPrecompile); err == nil && res.Value != nil {
			s.Tka[a] = res.Value
		}
	}
	for n := uint64(1); n <= w.nClaims; n++ {
		cl, found := c.App.EthKeeper.GetPendingExecuteClaim(ctx, n)
		if !found {
			continue
		}
		switch x := cl.(type) {
		case *crosschaintypes.MsgSendToFxClaim:
			s.Claims[n] = fmt.Sprintf("(PSendToFx %d %s)", w.idOf(sdk.MustAccAddressFromBech32(x.Receiver)), x.Amount.String())
		case *crosschaintypes.MsgBridgeCallResultClaim:
			s.Claims[n] = fmt.Sprintf("(PResultOk %d)", x.Nonce)
		}
	}
	s.LastTx = lastID(c, ctx, crosschaintypes.KeyLastTxPoolID)
	s.LastBC = lastID(c, ctx, crosschaintypes.KeyLastBridgeCallID)
	s.Switch = c.App.GovKeeper.GetSwitchParams(ctx).DisablePrecompiles
	return s
}

func zb(b *big.Int) string { return lib.ZBig(b) }

func (s *AState) coq() string {
	var bal, dlg, rwd, unb, rrd, alw, pool, bc, sw []string
	for a := 0; a < nAccts; a++ {
		bal = append(bal, lib.Pair(lib.Z(int64(a)), zb(s.Bal[a])))
		for v := 0; v < 2; v++ {
			k := lib.Pair(lib.Z(int64(a)), lib.Z(int64(v)))
			if s.Dlg[a][v].Sign() != 0 {
				dlg = append(dlg, lib.Pair(k, zb(s.Dlg[a][v])))
			}
			if s.Rwd[a][v].Sign() != 0 {
				rwd = append(rwd, lib.Pair(k, zb(s.Rwd[a][v])))
			}
			if s.Unb[a][v].Sign() != 0 {
				unb = append(unb, lib.Pair(k, zb(s.Unb[a][v])))
			}
			if s.Rrd[a][v] {
				rrd = append(rrd, k)
			}
		}
	}
	var ak [][3]int
	for k := range s.Alw {
		ak = append(ak, k)
	}
	sort.Slice(ak, func(i, j int) bool {
		for x := 0; x < 3; x++ {
			if ak[i][x] != ak[j][x] {
				return ak[i][x] < ak[j][x]
			}
		}
		return false
	})
	for _, k := range ak {
		alw = append(alw, lib.Pair(fmt.Sprintf("(%d, %d, %d)", k[0], k[1], k[2]), zb(s.Alw[k])))
	}
	var ids []uint64
	for id := range s.Pool {
		ids = append(ids, id)
	}
	sort.Slice(ids, func(i, j int) bool { return ids[i] < ids[j] })
	for _, id := range ids {
		e := s.Pool[id]
		pool = append(pool, lib.Pair(lib.ZU(id), fmt.Sprintf("(%s, %s, %s, %s)", zs(e[0]), e[1], e[2], e[3])))
	}
	ids = nil
	for id := range s.BCalls {
		ids = append(ids, id)
	}
	sort.Slice(ids, func(i, j int) bool { return ids[i] < ids[j] })
	for _, id := range ids {
		e := s.BCalls[id]
		bc = append(bc, lib.Pair(lib.ZU(id), fmt.Sprintf("(%s, %s, %s, %s)", zs(e[0]), zs(e[1]), e[2], e[3])))
	}
	for _, e := range s.Switch {
		sw = append(sw, "\""+e+"\"%string")
	}
	var wdr, tok, tka, cls []string
	for a := 0; a < nAccts; a++ {
		if s.Wdr[a] != a {
			wdr = append(wdr, lib.Pair(lib.Z(int64(a)), lib.Z(int64(s.Wdr[a]))))
		}
		if s.Tok[a].Sign() != 0 {
			tok = append(tok, lib.Pair(lib.Z(int64(a)), zb(s.Tok[a])))
		}
		if s.Tka[a].Sign() != 0 {
			tka = append(tka, lib.Pair(lib.Z(int64(a)), zb(s.Tka[a])))
		}
	}
	var cn []uint64
	for n := range s.Claims {
		cn = append(cn, n)
	}
	sort.Slice(cn, func(i, j int) bool { return cn[i] < cn[j] })
	for _, n := range cn {
		cls = append(cls, lib.Pair(lib.ZU(n), s.Claims[n]))
	}
	return fmt.Sprintf("(mk_astate %s %s %s %s %s %s %s %s %s %s %s %s %s %s %s)", lib.List(bal), lib.List(dlg), lib.List(rwd), lib.List(unb),
		lib.List(rrd), lib.List(alw), lib.List(pool), lib.ZU(s.LastTx), lib.List(bc), lib.ZU(s.LastBC), lib.List(sw),
		lib.List(wdr), lib.List(tok), lib.List(tka), lib.List(cls))
}

func zs(s string) string {
	if strings.HasPrefix(s, "-") {
		return "(" + s + ")"
	}
	return s
}

// ---- calls ----

type Call10 struct {
	Method string   `json:"method"`
	Coq    string   `json:"coq"` // constructor application of M_Precompile.call
	Target common.Address
	Data   []byte   `json:"-"`
	Value  *big.Int `json:"value"`
	Write  bool     `json:"write"`
	From   int      `json:"from"`   // transferFromShares: the owner named in the arguments (-1 otherwise)
	Shares *big.Int `json:"shares"` // transferFromShares: amount
	Val    int      `json:"val"`
	// transferFromShares: the allowance (Val, From, caller) is first overwritten with this value in the case's own
	// branch of the state (magnitudes at the top of the uint256 range; nil = the world's allowance)
	AllowSet *big.Int `json:"allowance_preset,omitempty"`
}

func (w *World10) calls(caller int) []Call10 {
	sabi, xabi := fxstakingtypes.GetABI(), crosschaintypes.GetABI()
	S, X := lib.StakingPrecompile, lib.CrosschainPrecompile
	v0, v1 := w.vals[0].String(), w.vals[1].String()
	var out []Call10
	add := func(target common.Address, method, coq string, write bool, value *big.Int, from int, shares *big.Int, val int, abiArgs ...interface{}) {
		ab := sabi
		if target == X {
			ab = xabi
		}
		data, err := ab.Pack(method, abiArgs...)
		lib.Must(err)
		if value == nil {
			value = big.NewInt(0)
		}
		out = append(out, Call10{Method: method, Coq: coq, Target: target, Data: data, Value: value, Write: write, From: from, Shares: shares, Val: val})
	}
	A := func(i int) common.Address { return w.addrs[i] }
	// read-only methods
	add(S, "allowanceShares", fmt.Sprintf("(CAllowanceShares 0 %d %d)", aU1, aU0), false, nil, -1, nil, 0, v0, A(aU1), A(aU0))
	add(S, "delegation", fmt.Sprintf("(CDelegation 0 %d)", aU1), false, nil, -1, nil, 0, v0, A(aU1))
	add(S, "delegationRewards", fmt.Sprintf("(CDelegationRewards 0 %d)", aU1), false, nil, -1, nil, 0, v0, A(aU1))
	add(S, "slashingInfo", "(CSlashingInfo 0)", false, nil, -1, nil, 0, v0)
	add(S, "validatorList", "CValidatorList", false, nil, -1, nil, 0, uint8(0))
	add(X, "hasOracle", "CHasOracle", false, nil, -1, nil, 0, "eth", common.HexToAddress("0x1234"))
	add(X, "isOracleOnline", "CIsOracleOnline", false, nil, -1, nil, 0, "eth", common.HexToAddress("0x1234"))
	// approveShares
	for _, sp := range []int{aU1, aU2} {
		for _, sh := range []*big.Int{big.NewInt(0), e18(5)} {
			add(S, "approveShares", fmt.Sprintf("(CApproveShares 0 %d %s)", sp, zb(sh)), true, nil, -1, nil, 0, v0, A(sp), sh)
		}
	}
	// transferShares: to the victim, a bystander, oneself; one share, everything, one too many
	own := e18(map[int]int64{aU0: 20, aKC: 30, aKB: 10, aKD: 10, aKCC: 10, aKS: 10}[caller])
	for _, to := range []int{aU1, aU2, caller} {
		amounts := []*big.Int{e18(1), own, new(big.Int).Add(own, big.NewInt(1))}
		if to == aU2 {
			amounts = append(amounts, big.NewInt(0), big.NewInt(1)) // boundary: nothing, the smallest unit
		}
		for _, sh := range amounts {
			add(S, "transferShares", fmt.Sprintf("(CTransferShares 0 %d %s)", to, zb(sh)), true, nil, -1, nil, 0, v0, A(to), sh)
		}
	}
	// transferFromShares: the victim's shares within / at / beyond the allowance, a bystander without shares, the victim on
	// a validator where no allowance exists, oneself as owner
	for _, c := range []struct {
		val, from, to int
		sh   *big.Int
	}{
		{0, aU1, caller, e18(1)}, {0, aU1, aU2, e18(victimAllowance[caller])}, {0, aU1, caller, new(big.Int).Add(e18(victimAllowance[caller]), big.NewInt(1))},
		{0, aU1, aU1, e18(2)}, {0, aU2, caller, e18(1)}, {1, aU1, caller, e18(1)}, {0, caller, aU2, e18(1)},
		{0, aU1, caller, e18(101)},
		// the owner named in the calldata is the transaction's own sender (tx origin), the recipient a third party:
		// without / within / beyond the allowance the sender granted the calling contract
		{0, aU0, aU2, e18(1)}, {0, aU0, aU2, e18(originAllowanceKC)}, {0, aU0, aU1, new(big.Int).Add(e18(originAllowanceKC), big.NewInt(1))},
		{0, aU0, aU2, e18(20)},
		// boundary amounts: zero and the smallest unit, where the caller holds an allowance (validator 0) ...
		{0, aU1, aU2, big.NewInt(0)}, {0, aU1, aU2, big.NewInt(1)},
		// ... and where it holds none at all (a never-granted allowance reads 0): the victim on validator 1, a
		// bystander without shares, another contract's delegation
		{1, aU1, aU2, big.NewInt(0)}, {1, aU1, aU2, big.NewInt(1)}, {1, aU1, caller, big.NewInt(0)},
		{0, aU2, caller, big.NewInt(0)},
		{0, noGrant(caller), aU2, big.NewInt(0)}, {0, noGrant(caller), aU2, big.NewInt(1)}, {0, noGrant(caller), aU2, e18(10)},
	} {
		if c.from == caller && c.from == aU0 && c.to == aU2 && c.sh.Cmp(e18(1)) != 0 {
			continue // account shape: owner == caller is already covered once above
		}
		add(S, "transferFromShares", fmt.Sprintf("(CTransferFromShares %d %d %d %s)", c.val, c.from, c.to, zb(c.sh)), true, nil, c.from, c.sh, c.val,
			w.vals[c.val].String(), A(c.from), A(c.to), c.sh)
	}
	// allowance magnitudes: the same transfers under an allowance at the top of the uint256 range (the largest value,
	// its neighbour, the sign bit of a two's-complement reading) and at one unit
	maxU := new(big.Int).Sub(new(big.Int).Lsh(big.NewInt(1), 256), big.NewInt(1))
	for _, preset := range []*big.Int{maxU, new(big.Int).Sub(maxU, big.NewInt(1)), new(big.Int).Lsh(big.NewInt(1), 255), big.NewInt(1)} {
		for _, c := range []struct {
			to int
			sh *big.Int
		}{{aU2, e18(1)}, {caller, e18(100)}, {aU2, big.NewInt(1)}, {aU2, big.NewInt(2)}} {
			add(S, "transferFromShares", fmt.Sprintf("(CTransferFromShares 0 %d %d %s)", aU1, c.to, zb(c.sh)), true, nil, aU1, c.sh, 0,
				v0, A(aU1), A(c.to), c.sh)
			out[len(out)-1].AllowSet = preset
		}
	}
	add(S, "approveShares", fmt.Sprintf("(CApproveShares 0 %d %s)", aU2, zb(maxU)), true, nil, -1, nil, 0, v0, A(aU2), maxU)
	add(S, "withdraw", "(CWithdraw 0)", true, nil, -1, nil, 0, v0)
	add(S, "withdraw", "(CWithdraw 1)", true, nil, -1, nil, 0, v1)
	add(S, "delegateV2", fmt.Sprintf("(CDelegateV2 0 %s)", zb(e18(2))), true, nil, -1, nil, 0, v0, e18(2))
	add(S, "delegateV2", fmt.Sprintf("(CDelegateV2 1 %s)", zb(e18(2))), true, nil, -1, nil, 0, v1, e18(2))
	add(S, "delegateV2", fmt.Sprintf("(CDelegateV2 0 %s)", zb(e18(100000))), true, nil, -1, nil, 0, v0, e18(100000))
	for _, n := range []int64{0, 1} { // boundary amounts
		add(S, "delegateV2", fmt.Sprintf("(CDelegateV2 0 %d)", n), true, nil, -1, nil, 0, v0, big.NewInt(n))
		add(S, "undelegateV2", fmt.Sprintf("(CUndelegateV2 0 %d)", n), true, nil, -1, nil, 0, v0, big.NewInt(n))
	}
	add(S, "redelegateV2", "(CRedelegateV2 0 1 0)", true, nil, -1, nil, 0, v0, v1, big.NewInt(0))
	add(S, "undelegateV2", fmt.Sprintf("(CUndelegateV2 0 %s)", zb(e18(1))), true, nil, -1, nil, 0, v0, e18(1))
	add(S, "undelegateV2", fmt.Sprintf("(CUndelegateV2 0 %s)", zb(e18(1000))), true, nil, -1, nil, 0, v0, e18(1000))
	add(S, "redelegateV2", fmt.Sprintf("(CRedelegateV2 0 1 %s)", zb(e18(1))), true, nil, -1, nil, 0, v0, v1, e18(1))
	add(S, "redelegateV2", fmt.Sprintf("(CRedelegateV2 0 0 %s)", zb(e18(1))), true, nil, -1, nil, 0, v0, v0, e18(1))
	// crosschain: cancel somebody else's / one's own / a missing entry
	for _, id := range []int64{1, 2, 3, 4, 99} {
		add(X, "cancelSendToExternal", fmt.Sprintf("(CCancelSendToExternal %d)", id), true, nil, -1, nil, 0, "eth", big.NewInt(id))
	}
	for _, id := range []int64{1, 2, 99} {
		add(X, "increaseBridgeFee", fmt.Sprintf("(CIncreaseBridgeFee %d 500)", id), true, big.NewInt(500), -1, nil, 0, "eth", big.NewInt(id), common.Address{}, big.NewInt(500))
	}
	add(X, "increaseBridgeFee", "(CIncreaseBridgeFee 1 500)", true, big.NewInt(499), -1, nil, 0, "eth", big.NewInt(1), common.Address{}, big.NewInt(500))
	add(X, "crossChain", "(CCrossChain 700 50)", true, big.NewInt(750), -1, nil, 0, common.Address{}, lib.ExternalAccount(w.c.Seed, "eth", 7), big.NewInt(700), big.NewInt(50), fxtypes.MustStrToByte32("eth"), "")
	add(X, "crossChain", "(CCrossChain 700 50)", true, big.NewInt(751), -1, nil, 0, common.Address{}, lib.ExternalAccount(w.c.Seed, "eth", 7), big.NewInt(700), big.NewInt(50), fxtypes.MustStrToByte32("eth"), "")
	add(X, "crossChain", "(CCrossChain 700 50)", true, big.NewInt(0), -1, nil, 0, common.Address{}, lib.ExternalAccount(w.c.Seed, "eth", 7), big.NewInt(700), big.NewInt(50), fxtypes.MustStrToByte32("eth"), "")
	for _, refund := range []int{aU1, caller} {
		add(X, "bridgeCall", fmt.Sprintf("(CBridgeCall %d)", refund), true, big.NewInt(3000), -1, nil, 0, "eth", A(refund), []common.Address{}, []*big.Int{}, common.HexToAddress("0x1234"), []byte{7}, big.NewInt(0), []byte{})
	}
	// executeClaim: a deposit for the bystander, one for the victim, the attested result of the victim's bridge call, the
	// result of a call that does not exist (the keeper panics), a nonce that is not pending
	for _, n := range []int64{1, 4, 2, 3, 5} {
		add(X, "executeClaim", fmt.Sprintf("(CExecuteClaim %d)", n), true, nil, -1, nil, 0, "eth", big.NewInt(n))
	}
	// the ERC-20 paths: crossChain (transferFrom by the precompile: needs the CALLER's allowance), within / beyond it
	T := w.tok.ERC20
	for _, c := range [][2]int64{{300, 20}, {4_990, 10}, {4_990, 11}, {2_000_000, 0}} {
		add(X, "crossChain", fmt.Sprintf("(CCrossChainTok %d %d)", c[0], c[1]), true, nil, -1, nil, 0, T, lib.ExternalAccount(w.c.Seed, "eth", 8), big.NewInt(c[0]), big.NewInt(c[1]), fxtypes.MustStrToByte32("eth"), "")
	}
	// fee increase paid in the ERC-20 on the victim's ERC-20 entry, one's own, an FX entry, a missing one; FX on an ERC-20 entry
	for _, id := range []int64{5, 6, 1, 99} {
		add(X, "increaseBridgeFee", fmt.Sprintf("(CIncreaseBridgeFeeTok %d 30)", id), true, nil, -1, nil, 0, "eth", big.NewInt(id), T, big.NewInt(30))
	}
	add(X, "increaseBridgeFee", "(CIncreaseBridgeFee 5 500)", true, big.NewInt(500), -1, nil, 0, "eth", big.NewInt(5), common.Address{}, big.NewInt(500))
	for _, id := range []int64{5, 6} {
		add(X, "cancelSendToExternal", fmt.Sprintf("(CCancelSendToExternal %d)", id), true, nil, -1, nil, 0, "eth", big.NewInt(id))
	}
	// bridgeCall carrying the ERC-20: ConvertERC20 of the CALLER's tokens (no allowance involved), within / beyond the balance
	for _, c := range []struct {
		refund int
		amt    int64
	}{{aU1, 250}, {caller, 1}, {aU1, 2_000_000}, {aU1, 0}} {
		add(X, "bridgeCall", fmt.Sprintf("(CBridgeCallTok %d %d)", c.refund, c.amt), true, nil, -1, nil, 0, "eth", A(c.refund), []common.Address{T}, []*big.Int{big.NewInt(c.amt)}, common.HexToAddress("0x1234"), []byte{9}, big.NewInt(0), []byte{})
	}
	// no such method, input too short
	out = append(out, Call10{Method: "<unknown>", Coq: "CUnknownMethod", Target: S, Data: []byte{0xde, 0xad, 0xbe, 0xef, 0, 0, 0, 1}, Value: big.NewInt(0), From: -1})
	out = append(out, Call10{Method: "<short>", Coq: "CShortInput", Target: X, Data: []byte{0x16, 0x0d, 0x7c}, Value: big.NewInt(0), From: -1})
	return out
}

// ---- switch settings through the real authority-guarded message ----

func (w *World10) setSwitch(ctx sdk.Context, entries []string) {
	ms := fxgovkeeper.NewMsgServerImpl(w.c.App.GovKeeper)
	params := w.c.App.GovKeeper.GetSwitchParams(ctx)
	params.DisablePrecompiles = entries
	msg := &fxgovtypes.MsgUpdateSwitchParams{Authority: lib.GovAuthority(), Params: params}
	lib.Must(msg.ValidateBasic())
	// a sender that is not the authority must be refused
	bad := &fxgovtypes.MsgUpdateSwitchParams{Authority: sdk.AccAddress(w.addrs[aU0].Bytes()).String(), Params: params}
	if _, err := ms.UpdateSwitchParams(ctx, bad); err == nil {
		panic("UpdateSwitchParams accepted a non-authority sender")
	}
	_, err := ms.UpdateSwitchParams(ctx, msg)
	lib.Must(err)
}

func mixCase(s string, r *lib.Rand) string {
	b := []byte(s)
	for i := range b {
		if b[i] >= 'a' && b[i] <= 'z' && r.Chance(50) {
			b[i] -= 32
		}
	}
	return string(b)
}

type switchSetting struct {
	name    string
	blocks  bool // the list disables the called address / method (for an input that names a method)
	entries func(c Call10) []string
}

func switches(r *lib.Rand) []switchSetting {
	hexAddr := func(a common.Address) string { return strings.ToLower(a.Hex()) }
	sel := func(c Call10) string {
		if len(c.Data) >= 4 {
			return fmt.Sprintf("%x", c.Data[:4])
		}
		return "00000000"
	}
	other := func(c Call10) common.Address {
		if c.Target == lib.StakingPrecompile {
			return lib.CrosschainPrecompile
		}
		return lib.StakingPrecompile
	}
	// a real selector of the same contract that is not the called one
	sibling := func(c Call10) string {
		a, b := "49da433e", "6d788035" // staking: approveShares, delegateV2
		if c.Target == lib.CrosschainPrecompile {
			a, b = "160d7c73", "0b56c190" // crosschain: crossChain, cancelSendToExternal
		}
		if sel(c) == a {
			return b
		}
		return a
	}
	return []switchSetting{
		{"none", false, func(c Call10) []string { return nil }},
		{"address", true, func(c Call10) []string { return []string{"junk", mixCase(hexAddr(c.Target), r)} }},
		{"address/method", true, func(c Call10) []string { return []string{mixCase(hexAddr(c.Target)+"/"+sel(c), r)} }},
		{"other-address-and-other-method", false, func(c Call10) []string {
			return []string{hexAddr(other(c)), hexAddr(c.Target) + "/ffffffff", hexAddr(other(c)) + "/" + sel(c)}
		}},
		{"malformed", false, func(c Call10) []string {
			// what the code does not treat as a match: no 0x prefix, 0x in front of the method id, trailing space
			return []string{strings.TrimPrefix(hexAddr(c.Target), "0x"), hexAddr(c.Target) + "/0x" + sel(c), hexAddr(c.Target) + " "}
		}},
		// several entries for the same precompile address: every one of them counts, in any order
		{"method-then-sibling-method", true, func(c Call10) []string {
			return []string{hexAddr(c.Target) + "/" + sel(c), mixCase(hexAddr(c.Target), r) + "/" + sibling(c)}
		}},
		{"sibling-method-then-method", true, func(c Call10) []string {
			return []string{hexAddr(c.Target) + "/" + sibling(c), hexAddr(other(c)), mixCase(hexAddr(c.Target)+"/"+sel(c), r)}
		}},
		{"address-then-sibling-method", true, func(c Call10) []string {
			return []string{hexAddr(c.Target), hexAddr(c.Target) + "/" + sibling(c)}
		}},
		{"sibling-method-then-address", true, func(c Call10) []string {
			return []string{hexAddr(c.Target) + "/" + sibling(c), hexAddr(c.Target) + "/ffffffff", mixCase(hexAddr(c.Target), r)}
		}},
		{"two-sibling-methods-only", false, func(c Call10) []string {
			return []string{hexAddr(c.Target) + "/" + sibling(c), hexAddr(c.Target) + "/ffffffff"}
		}},
	}
}

// ---- one run ----

var known10 = map[string]int{}

type case10 struct {
	Shape  string `json:"shape"`
	Switch string `json:"switch"`
	Call   Call10 `json:"call"`
	Detail string `json:"detail"`
}

func runC10() {
	seed := lib.Seed()
	r := lib.NewRand(seed)
	thorough := lib.Tier() == "thorough" || modeSearch()
	rep := lib.NewReport("C10")
	rep.Rule = "every method of both precompile contracts (read-only ones once, write methods with arguments aimed at the victim's shares, allowances, pool entries and bridge calls, at boundary amounts) x caller shape {account, contract forwarding the user's calldata by CALL / STATICCALL / DELEGATECALL / CALLCODE, contract with the call baked in, CALL made inside a STATICCALL} x governance switch {none, address (random letter case), address/method, other address and other method, malformed entries}; non-trivial = a state-changing method reached its dispatch (not stopped by the readonly guard or the switch) with a third party named in its arguments, or was stopped by a guard; distinct by (shape, switch, call)"
	w := NewWorld10(seed)
	sws := switches(r)
	var items []string
	total := 0
	for sh := shape(0); sh < nShapes; sh++ {
		caller, kind, static := sh.facts()
		for _, call := range w.calls(caller) {
			for _, sw := range sws {
				total++
				if !thorough && sw.name != "none" && !r.Chance(15) {
					continue // quick: every (shape, call) without switch, about a seventh of the switch combinations
				}
				w.one(rep, r, sh, caller, kind, static, call, sw, &items)
			}
		}
	}
	rep.Count(fmt.Sprintf("combinations_total=%d", total))
	w.vaultHistories(rep, &items)
	writeCases10(items)
	rep.Write()
}

// states are interned: most runs start from (and, when the call fails, end in) one of a few states
var stateNames = map[string]string{}
var stateDefs []string

func intern(coq string) string {
	if n, ok := stateNames[coq]; ok {
		return n
	}
	n := fmt.Sprintf("st_%d", len(stateNames))
	stateNames[coq] = n
	stateDefs = append(stateDefs, fmt.Sprintf("Definition %s : astate := %s.", n, coq))
	return n
}

// same layout as lib.WriteCases, with the interned states in front
func writeCases10(items []string) {
	var sb strings.Builder
	sb.WriteString("(* generated by the harness: observed behaviour of the implementation; do not edit *)\n")
	sb.WriteString("From Coq Require Import ZArith List.\nImport ListNotations.\nOpen Scope Z_scope.\n")
	for _, im := range []string{"gen.Gen_Precompiles", "model.M_Precompile", "model.M_PrecompileCorr"} {
		sb.WriteString("From FxV Require Import " + im + ".\n")
	}
	for _, d := range stateDefs {
		sb.WriteString(d + "\n")
	}
	sb.WriteString("Definition cases : list (c10_case) :=\n [")
	for i, it := range items {
		if i > 0 {
			sb.WriteString(";\n  ")
		}
		sb.WriteString(it)
	}
	sb.WriteString("].\n")
	sb.WriteString("Fixpoint idx_filter {A} (f : A -> bool) (i : Z) (l : list A) : list Z :=\n  match l with [] => [] | x :: r => if f x then i :: idx_filter f (i + 1) r else idx_filter f (i + 1) r end.\n")
	sb.WriteString("Definition mismatches : list Z := Eval vm_compute in idx_filter (c10_mismatch) 0 cases.\n")
	sb.WriteString("Definition ncases : Z := Eval vm_compute in Z.of_nat (List.length cases).\n")
	sb.WriteString("Print mismatches.\nPrint ncases.\n")
	lib.Must(os.WriteFile(filepath.Join(lib.OutDir(), "Cases_C10.v"), []byte(sb.String()), 0o644))
}

func (w *World10) one(rep *lib.Report, r *lib.Rand, sh shape, caller int, kind string, static bool, call Call10, sw switchSetting, items *[]string) {
	c := w.c
	ctx, _ := w.base.CacheContext()
	entries := sw.entries(call)
	if len(entries) > 0 {
		w.setSwitch(ctx, entries)
	}
	// code of the contracts for this case
	ck := map[string]lib.CallKind{"CALL": lib.CALL, "STATICCALL": lib.STATICCALL, "DELEGATECALL": lib.DELEGATECALL, "CALLCODE": lib.CALLCODE}[kind]
	to := call.Target
	value := call.Value
	switch sh {
	case shEOA:
	case shFwdCall, shFwdStatic, shFwdDelegate, shFwdCallCode:
		c.InstallCode(ctx, w.addrs[caller], forwarder(ck, call.Target))
		to = w.addrs[caller]
	case shStaticOuter:
		c.InstallCode(ctx, w.addrs[aKC], forwarder(lib.CALL, call.Target))
		c.InstallCode(ctx, w.addrs[aSO], forwarder(lib.STATICCALL, w.addrs[aKC]))
		to = w.addrs[aSO]
		value = big.NewInt(0) // STATICCALL carries no value; a value-bearing CALL inside it is refused by the interpreter
	case shBaked:
		a := (&lib.Asm{}).Call(lib.CALL, call.Target, 0, call.Value, call.Data).RequireSuccess().Stop()
		c.InstallCode(ctx, w.addrs[aKB], a.B)
		to = w.addrs[aKB]
	}
	if ck == lib.STATICCALL || ck == lib.DELEGATECALL {
		value = big.NewInt(0) // these opcodes carry no value; the forwarder itself is not payable for them here
	}
	if call.AllowSet != nil && call.From >= 0 {
		c.App.StakingKeeper.SetAllowance(ctx, w.vals[call.Val], w.addrs[call.From].Bytes(), w.addrs[caller].Bytes(), call.AllowSet)
	}
	pre := w.observe(ctx)
	dumpPre := c.DumpAll(ctx)
	data := call.Data
	if sh == shBaked {
		data = nil
	}
	res, tr, _ := evmCall(c, ctx, w.addrs[aU0], to, value, 3_000_000, data)
	post := w.observe(ctx)
	ok := res.Err == nil && !res.Failed
	key := fmt.Sprintf("%s|%s|%s", shapeNames[sh], sw.name, call.Coq+call.Value.String())
	if call.AllowSet != nil {
		key += "|allowance=" + call.AllowSet.String()
	}
	rp := case10{Shape: shapeNames[sh], Switch: sw.name + " " + strings.Join(entries, ","), Call: call}
	fail := func(what, sig, detail string) {
		rp.Detail = detail
		for _, k := range []string{"C10:static-context-write"} {
			if strings.HasPrefix(sig, k) {
				rep.Count("known_finding_occurrences:" + k)
				known10[k]++
				if known10[k] > 6 {
					return // the report keeps 50 failures: do not let a known finding crowd out anything else
				}
			}
		}
		rep.Fail(lib.Failure{Kind: "monitor", What: what, Sig: sig, Replay: rp})
	}
	// did the precompile frame itself succeed? (the forwarders revert when it fails, so: tx status; cross-check with the trace)
	var pf *TFrame
	var find func(f *TFrame)
	find = func(f *TFrame) {
		if f == nil {
			return
		}
		if isPrecompile(f.To) && pf == nil {
			pf = f
		}
		for _, o := range f.Ops {
			if o.Kind == "frame" {
				find(o.Frame)
			}
		}
	}
	find(tr.Root)
	aborted := res.Err != nil && strings.HasPrefix(res.Err.Error(), "PANIC") // a keeper panic: the transaction never returned
	if aborted {
		rep.Count("aborted_by_keeper_panic")
	}
	if pf != nil && !aborted && (pf.Err == "") != ok {
		rep.Fail(lib.Failure{Kind: "harness", What: "transaction status differs from the precompile frame's status", Sig: "C10:harness:status", Replay: rp})
	}
	if pf != nil && pf.From != w.addrs[caller] {
		fail("the precompile was entered with a caller other than the executing context", "C10:caller-identity",
			fmt.Sprintf("expected %s got %s", w.addrs[caller].Hex(), pf.From.Hex()))
	}
	disabled := sw.blocks
	guardStop := call.Write && (kind != "CALL")
	nontrivial := (call.Write && !disabled && !guardStop && (call.From >= 0 || strings.Contains(call.Method, "cancel") || strings.Contains(call.Method, "increase") || strings.Contains(call.Method, "transfer"))) || (call.Write && (disabled || guardStop || static))
	rep.Case(key, nontrivial)
	rep.Count("shape=" + shapeNames[sh])
	rep.Count(fmt.Sprintf("ok=%v", ok))
	rep.Count("switch=" + sw.name)

	// ---- monitors ----
	if !ok {
		if d := lib.DiffDumps(dumpPre, c.DumpAll(ctx)); len(d) > 0 {
			fail("a failed precompile call changed the store", "C10:failed-call-changed-store", strings.Join(d, "\n"))
		}
	}
	if disabled && ok {
		fail("a precompile disabled by governance executed", "C10:switch", strings.Join(entries, ","))
	}
	if guardStop && ok {
		fail("a state-changing method succeeded through "+kind, "C10:readonly-guard", call.Method)
	}
	if call.Write && static && ok {
		fail("a state-changing precompile method succeeded inside a STATICCALL context (reached by a nested CALL)", "C10:static-context-write:"+call.Method, call.Method)
	}
	if !call.Write && ok {
		if d := lib.DiffDumps(dumpPre, c.DumpAll(ctx)); len(d) > 0 {
			fail("a read-only precompile method changed the store", "C10:readonly-wrote:"+call.Method, strings.Join(d, "\n"))
		}
	}
	// a caller that is not the owner and holds no allowance changes nothing of the owner's: whatever the amount
	if call.Method == "transferFromShares" && call.From >= 0 && call.From != caller {
		if al := pre.Alw[[3]int{call.Val, call.From, caller}]; al == nil || al.Sign() == 0 {
			a := call.From
			changed := post.Bal[a].Cmp(pre.Bal[a]) != 0
			for v := 0; v < 2; v++ {
				changed = changed || post.Dlg[a][v].Cmp(pre.Dlg[a][v]) != 0 || post.Rwd[a][v].Cmp(pre.Rwd[a][v]) != 0 || post.Unb[a][v].Cmp(pre.Unb[a][v]) != 0
			}
			if ok || changed {
				fail("transferFromShares by a caller without any allowance from the owner went through or changed the owner's delegation, rewards or balance",
					"C10:no-allowance:transferFromShares", fmt.Sprintf("owner %d caller %d amount %s: ok=%v rewards %v -> %v balance %s -> %s", a, caller, call.Shares, ok, pre.Rwd[a], post.Rwd[a], pre.Bal[a], post.Bal[a]))
			}
		}
	}
	// the staking module's own invariant: no delegation record with zero (or negative) shares
	if ok && call.Write {
		if msg, broken := stakingkeeper.PositiveDelegationInvariant(c.App.StakingKeeper.Keeper)(ctx); broken {
			fail("a precompile call left a delegation record without shares (x/staking PositiveDelegationInvariant)", "C10:staking-invariant:positive-delegation", msg)
		}
	}
	// third parties: everybody but the direct caller; the sender of the transaction paid `value` to the contract it called
	for a := 0; a < nAccts; a++ {
		if a == caller {
			continue
		}
		exp := new(big.Int).Set(pre.Bal[a])
		if a == aU0 && ok && sh != shEOA {
			exp.Sub(exp, value)
		}
		if post.Bal[a].Cmp(exp) < 0 {
			fail("the balance of an account that is not the direct caller decreased", "C10:third-party:balance", fmt.Sprintf("account %d: %s -> %s", a, pre.Bal[a], post.Bal[a]))
		}
		for v := 0; v < 2; v++ {
			if post.Unb[a][v].Cmp(pre.Unb[a][v]) < 0 {
				fail("an unbonding entry of an account that is not the direct caller shrank", "C10:third-party:unbonding", fmt.Sprintf("account %d", a))
			}
			// reward entitlement: may only turn into balance of the account's withdraw address
			if post.Rwd[a][v].Cmp(pre.Rwd[a][v]) < 0 {
				wa := pre.Wdr[a]
				lost := new(big.Int).Sub(pre.Rwd[a][v], post.Rwd[a][v])
				paid := wa >= 0
				if paid {
					base := new(big.Int).Set(pre.Bal[wa])
					if wa == aU0 && ok && sh != shEOA {
						base.Sub(base, value)
					}
					gain := new(big.Int).Sub(post.Bal[wa], base)
					paid = gain.Cmp(new(big.Int).Sub(lost, big.NewInt(2))) >= 0 || wa == caller
				}
				if !paid {
					fail("reward entitlement of an account that is not the direct caller was reduced without being paid out to its withdraw address", "C10:third-party:rewards", fmt.Sprintf("account %d (withdraw address %d) lost %s", a, wa, lost))
				}
			}
			if post.Dlg[a][v].Cmp(pre.Dlg[a][v]) < 0 {
				lost := new(big.Int).Sub(pre.Dlg[a][v], post.Dlg[a][v])
				okAllow := call.Method == "transferFromShares" && call.From == a && call.Val == v && ok
				if okAllow {
					al := pre.Alw[[3]int{v, a, caller}]
					if al == nil {
						al = big.NewInt(0)
					}
					al2 := post.Alw[[3]int{v, a, caller}]
					if al2 == nil {
						al2 = big.NewInt(0)
					}
					if lost.Cmp(call.Shares) != 0 || lost.Cmp(al) > 0 || new(big.Int).Sub(al, al2).Cmp(lost) != 0 {
						fail("shares moved out of an owner's delegation do not match the allowance bookkeeping", "C10:allowance-accounting",
							fmt.Sprintf("owner %d lost %s, asked %s, allowance %s -> %s", a, lost, call.Shares, al, al2))
					}
				} else {
					fail("the delegation of an account that is not the direct caller was reduced", "C10:third-party:delegation", fmt.Sprintf("account %d validator %d: %s -> %s", a, v, pre.Dlg[a][v], post.Dlg[a][v]))
				}
			}
		}
		for k, al := range pre.Alw {
			if k[1] != a {
				continue
			}
			al2 := post.Alw[k]
			if al2 == nil {
				al2 = big.NewInt(0)
			}
			if al2.Cmp(al) != 0 && !(k[2] == caller && call.Method == "transferFromShares" && call.From == a && ok) {
				fail("an allowance granted by an account that is not the direct caller changed", "C10:third-party:allowance", fmt.Sprintf("%v: %s -> %s", k, al, al2))
			}
		}
		for id, e := range pre.Pool {
			if e[0] != fmt.Sprint(a) {
				continue
			}
			e2, has := post.Pool[id]
			f1, _ := new(big.Int).SetString(e[2], 10)
			if !has {
				fail("a pool entry of an account that is not the direct caller was cancelled", "C10:third-party:pool", fmt.Sprintf("tx %d of account %d", id, a))
				continue
			}
			f2, _ := new(big.Int).SetString(e2[2], 10)
			if e2[0] != e[0] || e2[1] != e[1] || f2.Cmp(f1) < 0 {
				fail("a pool entry of an account that is not the direct caller was altered to its disadvantage", "C10:third-party:pool", fmt.Sprintf("tx %d: %v -> %v", id, e, e2))
			}
		}
		if post.Tok[a].Cmp(pre.Tok[a]) < 0 {
			fail("the ERC-20 balance of an account that is not the direct caller decreased", "C10:third-party:erc20", fmt.Sprintf("account %d: %s -> %s", a, pre.Tok[a], post.Tok[a]))
		}
		if post.Tka[a].Cmp(pre.Tka[a]) != 0 {
			fail("the ERC-20 allowance an account that is not the direct caller gave the precompile changed", "C10:third-party:erc20-allowance", fmt.Sprintf("account %d: %s -> %s", a, pre.Tka[a], post.Tka[a]))
		}
		for n, e := range pre.BCalls {
			if e[0] == fmt.Sprint(a) && post.BCalls[n] != e {
				if _, gone := post.BCalls[n]; !gone && call.Method == "executeClaim" && ok {
					// closed by the attested result of that very call (a pending result claim for nonce n was executed)
					closed := false
					for cn, cl := range pre.Claims {
						if _, still := post.Claims[cn]; !still && cl == fmt.Sprintf("(PResultOk %d)", n) {
							closed = true
						}
					}
					if closed {
						continue
					}
				}
				fail("a bridge call of an account that is not the direct caller was altered", "C10:third-party:bridge-call", fmt.Sprintf("nonce %d", n))
			}
		}
	}
	for a := 0; a < nAccts; a++ {
		if post.Wdr[a] != pre.Wdr[a] {
			fail("a precompile call changed a reward withdraw address", "C10:withdraw-address", fmt.Sprintf("account %d: %d -> %d", a, pre.Wdr[a], post.Wdr[a]))
		}
	}
	// ---- correspondence ----
	// the model starts where the precompile is entered: the sender's value already sits with the forwarding contract
	if sh != shEOA && value.Sign() > 0 {
		pre.Bal[aU0] = new(big.Int).Sub(pre.Bal[aU0], value)
		pre.Bal[caller] = new(big.Int).Add(pre.Bal[caller], value)
		if !ok { // the whole transaction was reverted: compare against the adjusted pre-state
			post.Bal[aU0] = new(big.Int).Sub(post.Bal[aU0], value)
			post.Bal[caller] = new(big.Int).Add(post.Bal[caller], value)
		}
	}
	*items = append(*items, fmt.Sprintf("mk_c10_case %s %s %d %s %s %s %s %s", kind, lib.Bool(static), caller, zb(value), call.Coq, intern(pre.coq()), lib.Bool(ok), intern(post.coq())))
	rep.Sample(rp)
}

var _ = distrtypes.ModuleName

// vaultHistories: "shares move only under an allowance that took effect".
// A contract that delegates (the vault, aKC) approves a would-be spender (U2) from inside a frame that the EVM
// discards afterwards — the inner frame reverts and its caller swallows that; the inner frame ends in INVALID; the
// whole transaction reverts — with no other native action in the discarded span. Then the would-be spender calls
// transferFromShares on the vault's delegation. The approval must not have taken effect and the transfer must fail.
func (w *World10) vaultHistories(rep *lib.Report, items *[]string) {
	c := w.c
	sabi := fxstakingtypes.GetABI()
	S := lib.StakingPrecompile
	amount := e18(5)
	approve, err := sabi.Pack("approveShares", w.vals[0].String(), w.addrs[aU2], amount)
	lib.Must(err)
	pull, err := sabi.Pack("transferFromShares", w.vals[0].String(), w.addrs[aKC], w.addrs[aU2], amount)
	lib.Must(err)
	type variant struct {
		name  string
		inner func() []byte // code of the vault
		outer bool          // called through an outer contract that ignores the vault's failure
	}
	vs := []variant{
		{"inner frame REVERTs, caller ignores it", func() []byte {
			return (&lib.Asm{}).Call(lib.CALL, S, 0, nil, approve).RequireSuccess().Revert().B
		}, true},
		{"inner frame ends in INVALID, caller ignores it", func() []byte {
			return (&lib.Asm{}).Call(lib.CALL, S, 0, nil, approve).RequireSuccess().SStore(1, 1).Invalid().B
		}, true},
		{"the whole transaction reverts", func() []byte {
			return (&lib.Asm{}).Call(lib.CALL, S, 0, nil, approve).RequireSuccess().Log0(7).Revert().B
		}, false},
		{"control: the frame is kept", func() []byte {
			return (&lib.Asm{}).Call(lib.CALL, S, 0, nil, approve).RequireSuccess().Stop().B
		}, true},
	}
	for _, v := range vs {
		ctx, _ := w.base.CacheContext()
		c.InstallCode(ctx, w.addrs[aKC], v.inner())
		to := w.addrs[aKC]
		if v.outer {
			c.InstallCode(ctx, w.addrs[aSO], (&lib.Asm{}).Call(lib.CALL, w.addrs[aKC], 0, nil, nil).Ignore().Stop().B)
			to = w.addrs[aSO]
		}
		control := strings.HasPrefix(v.name, "control")
		pre := w.observe(ctx)
		dumpPre := c.DumpAll(ctx)
		res, tr, _ := evmCall(c, ctx, w.addrs[aU0], to, nil, 3_000_000, nil)
		rp := case10{Shape: "vault: approveShares inside a frame — " + v.name, Switch: "none",
			Call: Call10{Method: "approveShares then transferFromShares", Coq: "(CTransferFromShares 0 3 2 " + zb(amount) + ")", Value: big.NewInt(0), From: aKC, Shares: amount}}
		fail := func(what, sig, detail string) {
			rp.Detail = detail
			rep.Fail(lib.Failure{Kind: "monitor", What: what, Sig: sig, Replay: rp})
		}
		// did the approve itself run and return success inside its frame?
		approved := false
		var find func(f *TFrame)
		find = func(f *TFrame) {
			if f == nil {
				return
			}
			if isPrecompile(f.To) && f.Err == "" {
				approved = true
			}
			for _, o := range f.Ops {
				if o.Kind == "frame" {
					find(o.Frame)
				}
			}
		}
		find(tr.Root)
		if !approved {
			rep.Fail(lib.Failure{Kind: "harness", What: "vault history: the approveShares call did not run", Sig: "C10:harness:vault", Replay: rp})
			continue
		}
		mid := w.observe(ctx)
		al := mid.Alw[[3]int{0, aKC, aU2}]
		if control {
			if res.Failed || al == nil || al.Cmp(amount) != 0 {
				rep.Fail(lib.Failure{Kind: "harness", What: "vault history: the control approval did not take effect", Sig: "C10:harness:vault-control", Replay: rp})
			}
		} else {
			if al != nil && al.Sign() != 0 {
				fail("an approveShares made inside a frame the EVM discarded took effect: the allowance is granted", "C10:allowance-from-discarded-frame",
					fmt.Sprintf("%s: allowance(val0, vault, spender) = %s after the transaction (failed=%v)", v.name, al, res.Failed))
			}
			if d := lib.DiffDumps(dumpPre, c.DumpAll(ctx)); len(d) > 0 {
				fail("a transaction whose only precompile call sits in a discarded frame changed the store", "C10:discarded-frame-changed-store", strings.Join(d, "\n"))
			}
		}
		// the would-be spender pulls the vault's shares
		pre2 := mid
		res2, _, _ := evmCall(c, ctx, w.addrs[aU2], S, nil, 3_000_000, pull)
		ok2 := res2.Err == nil && !res2.Failed
		post2 := w.observe(ctx)
		if !control {
			if ok2 || post2.Dlg[aKC][0].Cmp(pre.Dlg[aKC][0]) != 0 {
				fail("shares of a delegator moved under an allowance that never took effect (it was approved inside a discarded frame)", "C10:transfer-without-effective-allowance",
					fmt.Sprintf("%s: vault delegation %s -> %s, spender now holds %s", v.name, pre.Dlg[aKC][0], post2.Dlg[aKC][0], post2.Dlg[aU2][0]))
			}
		} else if !ok2 {
			rep.Fail(lib.Failure{Kind: "harness", What: "vault history: the control transfer failed: " + res2.VmError, Sig: "C10:harness:vault-control", Replay: rp})
		}
		rep.Case("vault|"+v.name, true)
		rep.Count("vault_history")
		*items = append(*items, fmt.Sprintf("mk_c10_case CALL false %d 0 (CTransferFromShares 0 %d %d %s) %s %s %s", aU2, aKC, aU2, zb(amount),
			intern(pre2.coq()), lib.Bool(ok2), intern(post2.coq())))
	}
}
